(* Proofs about the msgpack Writer/Reader model: round trip for every supported type and
   length class, reader extension, consumption, proper-prefix rejection. *)
From Coq Require Import List NArith ZArith Lia Bool ZifyN ZifyBool.
From PV Require Import Msgpack.Codec.
Import ListNotations.
Local Open Scope N_scope.

Local Arguments N.add : simpl never.
Local Arguments N.sub : simpl never.
Local Arguments N.mul : simpl never.
Local Arguments N.div : simpl never.
Local Arguments N.modulo : simpl never.
Local Arguments N.pow : simpl never.
Local Arguments N.leb : simpl never.
Local Arguments N.ltb : simpl never.
Local Arguments N.eqb : simpl never.
Local Arguments N.of_nat : simpl never.
Local Arguments N.to_nat : simpl never.
Local Arguments Z.add : simpl never.
Local Arguments Z.sub : simpl never.
Local Arguments Z.mul : simpl never.
Local Arguments Z.pow : simpl never.
Local Arguments Z.modulo : simpl never.
Local Arguments Z.of_N : simpl never.
Local Arguments Z.to_N : simpl never.

(* ------------------------------------------------------------------ reader properties *)
(* success is stable under appending more input *)
Definition ext_ok {A} (rd : reader A) : Prop :=
  forall b v r s, rd b = Some (v, r) -> rd (b ++ s) = Some (v, r ++ s).
(* what is returned as the rest is a proper suffix: something was consumed *)
Definition splits {A} (rd : reader A) : Prop :=
  forall b v r, rd b = Some (v, r) -> exists c, b = c ++ r /\ c <> [].
(* the rest is a (possibly improper) suffix *)
Definition suffix_ok {A} (rd : reader A) : Prop :=
  forall b v r, rd b = Some (v, r) -> exists c, b = c ++ r.

Lemma splits_suffix {A} (rd : reader A) : splits rd -> suffix_ok rd.
Proof. intros H b v r E. destruct (H b v r E) as [c [-> _]]. exists c. reflexivity. Qed.
Lemma splits_length {A} (rd : reader A) b v r : splits rd -> rd b = Some (v, r) -> (length r < length b)%nat.
Proof.
  intros H E. destruct (H b v r E) as [c [-> Hc]]. rewrite app_length.
  destruct c; [contradiction|]. simpl. lia.
Qed.

Lemma rbind_some {A B} (m : reader A) (f : A -> reader B) b v r :
  rbind m f b = Some (v, r) -> exists a r1, m b = Some (a, r1) /\ f a r1 = Some (v, r).
Proof. unfold rbind. destruct (m b) as [[a r1]|]; [|discriminate]. intros H. exists a, r1. split; [reflexivity|exact H]. Qed.
Lemma rbind_app {A B} (m : reader A) (f : A -> reader B) e x r :
  m (e ++ r) = Some (x, r) -> rbind m f (e ++ r) = f x r.
Proof. intros H. unfold rbind. rewrite H. reflexivity. Qed.

Lemma ext_rbind {A B} (m : reader A) (f : A -> reader B) :
  ext_ok m -> (forall a, ext_ok (f a)) -> ext_ok (rbind m f).
Proof.
  intros Hm Hf b v r s H. apply rbind_some in H. destruct H as [a [r1 [H1 H2]]].
  unfold rbind. rewrite (Hm _ _ _ s H1). apply (Hf a). exact H2.
Qed.
Lemma ext_rret {A} (a : A) : ext_ok (rret a).
Proof. intros b v r s [= <- <-]. reflexivity. Qed.
Lemma ext_rfail {A} : ext_ok (@rfail A).
Proof. intros b v r s H. discriminate. Qed.
Lemma ext_rguard c : ext_ok (rguard c).
Proof. destruct c; [apply ext_rret|apply ext_rfail]. Qed.
Lemma ext_rmap {A B} (f : A -> B) (m : reader A) : ext_ok m -> ext_ok (rmap f m).
Proof.
  intros Hm b v r s H. unfold rmap in *. destruct (m b) as [[a r1]|] eqn:E; [|discriminate].
  injection H as <- <-. rewrite (Hm _ _ _ s E). reflexivity.
Qed.
Lemma ext_rd8 : ext_ok rd8.
Proof. intros [|x b] v r s H; [discriminate|]. injection H as <- <-. reflexivity. Qed.
Lemma ext_rdbe_acc k : forall acc, ext_ok (rdbe_acc k acc).
Proof.
  induction k as [|k IH]; intros acc b v r s H; cbn [rdbe_acc] in *.
  - injection H as <- <-. reflexivity.
  - destruct b as [|x b]; [discriminate|]. cbn [app]. apply IH. exact H.
Qed.
Lemma ext_rdbe k : ext_ok (rdbe k).
Proof. apply ext_rdbe_acc. Qed.
Lemma len_app a b : len (a ++ b) = len a + len b.
Proof. unfold len. rewrite app_length. lia. Qed.
Lemma take_spec : forall b n,
  take n b = if len b <? n then None else Some (firstn (N.to_nat n) b, skipn (N.to_nat n) b).
Proof.
  induction b as [|x b IH]; intros n; cbn [take].
  - destruct (N.eqb_spec n 0) as [->|Hn]; [reflexivity|]. unfold len. cbn [length].
    destruct (N.ltb_spec (N.of_nat 0) n); [reflexivity|lia].
  - destruct (N.eqb_spec n 0) as [->|Hn]; [reflexivity|]. rewrite IH. unfold len. cbn [length].
    destruct (N.ltb_spec (N.of_nat (length b)) (N.pred n)); destruct (N.ltb_spec (N.of_nat (S (length b))) n); try lia; [reflexivity|].
    replace (N.to_nat n) with (S (N.to_nat (N.pred n))) by lia. reflexivity.
Qed.
Lemma ext_take n : ext_ok (take n).
Proof.
  intros b v r s H. rewrite take_spec in *. destruct (N.ltb_spec (len b) n) as [Hl|Hl]; [discriminate|].
  injection H as <- <-. rewrite len_app. destruct (N.ltb_spec (len b + len s) n) as [Hl'|Hl']; [lia|].
  unfold len in Hl. rewrite firstn_app, skipn_app.
  replace (N.to_nat n - length b)%nat with 0%nat by lia. cbn [firstn skipn]. rewrite app_nil_r. reflexivity.
Qed.
Lemma ext_check_type t : ext_ok (check_type t).
Proof. apply ext_rbind; [apply ext_rd8|intro; apply ext_rguard]. Qed.
Lemma ext_rd_loop {A} (rd : reader A) n : ext_ok rd -> ext_ok (rd_loop rd n).
Proof.
  intros H. induction n as [|n IH]; cbn [rd_loop].
  - apply ext_rret.
  - apply ext_rbind; [exact H|]. intro x. apply ext_rbind; [exact IH|]. intro xs. apply ext_rret.
Qed.
Lemma ext_rd_n {A} (rd : reader A) n : ext_ok rd -> ext_ok (rd_n rd n).
Proof.
  intros H b v r s E. unfold rd_n in *. destruct (N.ltb_spec (len b) n) as [Hl|Hl]; [discriminate|].
  rewrite len_app. destruct (N.ltb_spec (len b + len s) n) as [Hl'|Hl']; [lia|].
  apply ext_rd_loop; assumption.
Qed.

(* ---- suffix / splits ---- *)
Lemma suffix_rbind {A B} (m : reader A) (f : A -> reader B) :
  suffix_ok m -> (forall a, suffix_ok (f a)) -> suffix_ok (rbind m f).
Proof.
  intros Hm Hf b v r H. apply rbind_some in H. destruct H as [a [r1 [H1 H2]]].
  destruct (Hm _ _ _ H1) as [c1 ->]. destruct (Hf a _ _ _ H2) as [c2 ->].
  exists (c1 ++ c2). rewrite app_assoc. reflexivity.
Qed.
Lemma splits_rbind_l {A B} (m : reader A) (f : A -> reader B) :
  splits m -> (forall a, suffix_ok (f a)) -> splits (rbind m f).
Proof.
  intros Hm Hf b v r H. apply rbind_some in H. destruct H as [a [r1 [H1 H2]]].
  destruct (Hm _ _ _ H1) as [c1 [-> Hc]]. destruct (Hf a _ _ _ H2) as [c2 ->].
  exists (c1 ++ c2). rewrite app_assoc. split; [reflexivity|]. destruct c1; [contradiction|discriminate].
Qed.
Lemma suffix_rret {A} (a : A) : suffix_ok (rret a).
Proof. intros b v r [= <- <-]. exists []. reflexivity. Qed.
Lemma suffix_rfail {A} : suffix_ok (@rfail A).
Proof. intros b v r H. discriminate. Qed.
Lemma suffix_rguard c : suffix_ok (rguard c).
Proof. destruct c; [apply suffix_rret|apply suffix_rfail]. Qed.
Lemma suffix_rmap {A B} (f : A -> B) (m : reader A) : suffix_ok m -> suffix_ok (rmap f m).
Proof.
  intros Hm b v r H. unfold rmap in H. destruct (m b) as [[a r1]|] eqn:E; [|discriminate].
  injection H as <- <-. apply (Hm _ _ _ E).
Qed.
Lemma splits_rd8 : splits rd8.
Proof. intros [|x b] v r H; [discriminate|]. injection H as <- <-. exists [x]. split; [reflexivity|discriminate]. Qed.
Lemma suffix_rdbe_acc k : forall acc, suffix_ok (rdbe_acc k acc).
Proof.
  induction k as [|k IH]; intros acc b v r H; cbn [rdbe_acc] in H.
  - injection H as <- <-. exists []. reflexivity.
  - destruct b as [|x b]; [discriminate|]. destruct (IH _ _ _ _ H) as [c ->]. exists (x :: c). reflexivity.
Qed.
Lemma suffix_rdbe k : suffix_ok (rdbe k).
Proof. apply suffix_rdbe_acc. Qed.
Lemma suffix_take n : suffix_ok (take n).
Proof.
  intros b v r H. rewrite take_spec in H. destruct (len b <? n); [discriminate|]. injection H as <- <-.
  exists (firstn (N.to_nat n) b). symmetry. apply firstn_skipn.
Qed.
Lemma splits_check_type t : splits (check_type t).
Proof. apply splits_rbind_l; [apply splits_rd8|intro; apply suffix_rguard]. Qed.
Lemma suffix_rd_loop {A} (rd : reader A) n : suffix_ok rd -> suffix_ok (rd_loop rd n).
Proof.
  intros H. induction n as [|n IH]; cbn [rd_loop].
  - apply suffix_rret.
  - apply suffix_rbind; [exact H|]. intro x. apply suffix_rbind; [exact IH|]. intro xs. apply suffix_rret.
Qed.
Lemma suffix_rd_n {A} (rd : reader A) n : suffix_ok rd -> suffix_ok (rd_n rd n).
Proof.
  intros H b v r E. unfold rd_n in E. destruct (len b <? n); [discriminate|].
  apply (suffix_rd_loop rd _ H _ _ _ E).
Qed.

(* the guard of rd_n never changes the result of the plain loop: a loop of n element reads
   that each consume at least one byte cannot succeed on fewer than n bytes *)
Lemma rd_loop_needs_input {A} (rd : reader A) : splits rd ->
  forall n b v r, rd_loop rd n b = Some (v, r) -> (n + length r <= length b)%nat /\ length v = n.
Proof.
  intros H. induction n as [|n IH]; intros b v r E; cbn [rd_loop] in E.
  - injection E as <- <-. split; [lia|reflexivity].
  - apply rbind_some in E. destruct E as [x [r1 [E1 E2]]].
    apply rbind_some in E2. destruct E2 as [xs [r2 [E2 E3]]]. injection E3 as <- <-.
    pose proof (splits_length _ _ _ _ H E1). destruct (IH _ _ _ E2) as [L1 L2]. cbn [length]. split; lia.
Qed.
Theorem rd_n_is_plain_loop {A} (rd : reader A) n b : splits rd ->
  rd_n rd n b = rd_loop rd (N.to_nat n) b.
Proof.
  intros H. unfold rd_n. destruct (N.ltb_spec (len b) n) as [Hl|Hl]; [|reflexivity].
  destruct (rd_loop rd (N.to_nat n) b) as [[v r]|] eqn:E; [|reflexivity].
  apply (rd_loop_needs_input rd H) in E. unfold len in Hl. lia.
Qed.

(* ------------------------------------------------------------------ big-endian words *)
Lemma pow256_succ k : 256 ^ N.of_nat (S k) = 256 * 256 ^ N.of_nat k.
Proof. rewrite Nat2N.inj_succ, N.pow_succ_r'. reflexivity. Qed.
Lemma pow256_pos k : 0 < 256 ^ N.of_nat k.
Proof. apply N.neq_0_lt_0. apply N.pow_nonzero. discriminate. Qed.
Lemma rdbe_acc_be k : forall x acc r,
  rdbe_acc k acc (be k x ++ r) = Some (acc * 256 ^ N.of_nat k + x mod 256 ^ N.of_nat k, r).
Proof.
  induction k as [|k IH]; intros x acc r.
  - cbn [be rdbe_acc app]. change (256 ^ N.of_nat 0) with 1. rewrite N.mod_1_r. f_equal. f_equal. lia.
  - cbn [be rdbe_acc app]. rewrite IH. f_equal. f_equal.
    rewrite pow256_succ. pose proof (pow256_pos k) as Hp. set (p := 256 ^ N.of_nat k) in *.
    rewrite (N.mul_comm 256 p). rewrite N.mod_mul_r by lia. lia.
Qed.
Lemma rdbe_be k x r : x < 256 ^ N.of_nat k -> rdbe k (be k x ++ r) = Some (x, r).
Proof. intros H. unfold rdbe. rewrite rdbe_acc_be. rewrite N.mod_small by exact H. reflexivity. Qed.
Lemma length_be k x : length (be k x) = k.
Proof. induction k as [|k IH]; cbn [be length]; [reflexivity|rewrite IH; reflexivity]. Qed.

Lemma take_app s r : take (len s) (s ++ r) = Some (s, r).
Proof.
  rewrite take_spec. rewrite len_app. destruct (N.ltb_spec (len s + len r) (len s)) as [H|H]; [lia|].
  unfold len. rewrite Nat2N.id. rewrite firstn_app, skipn_app, Nat.sub_diag, firstn_all, skipn_all.
  cbn [firstn skipn]. rewrite app_nil_r. reflexivity.
Qed.

(* ------------------------------------------------------------------ round trips *)
Definition roundtrip {A} (we : A -> bytes) (rd : reader A) (x : A) : Prop :=
  forall rest, rd (we x ++ rest) = Some (x, rest).

Lemma check_type_ok t r : check_type t (t :: r) = Some (tt, r).
Proof. unfold check_type, rbind, rd8, rguard. rewrite N.eqb_refl. reflexivity. Qed.

Theorem read_write_nil : roundtrip (fun _ : unit => w_nil) r_nil tt.
Proof. intros rest. reflexivity. Qed.
Theorem read_write_bool x : roundtrip w_bool r_bool x.
Proof. intros rest. destruct x; reflexivity. Qed.
Theorem read_write_u8 x : x < 2 ^ 8 -> roundtrip w_u8 r_u8 x.
Proof. intros H rest. unfold w_u8, r_u8. cbn [app]. unfold rbind at 1. rewrite check_type_ok. apply rdbe_be. exact H. Qed.
Theorem read_write_u16 x : x < 2 ^ 16 -> roundtrip w_u16 r_u16 x.
Proof. intros H rest. unfold w_u16, r_u16. cbn [app]. unfold rbind at 1. rewrite check_type_ok. apply rdbe_be. exact H. Qed.
Theorem read_write_u32 x : x < 2 ^ 32 -> roundtrip w_u32 r_u32 x.
Proof. intros H rest. unfold w_u32, r_u32. cbn [app]. unfold rbind at 1. rewrite check_type_ok. apply rdbe_be. exact H. Qed.
Theorem read_write_u64 x : x < 2 ^ 64 -> roundtrip w_u64 r_u64 x.
Proof. intros H rest. unfold w_u64, r_u64. cbn [app]. unfold rbind at 1. rewrite check_type_ok. apply rdbe_be. exact H. Qed.
Theorem read_write_f32 x : x < 2 ^ 32 -> roundtrip w_f32 r_f32 x.
Proof. intros H rest. unfold w_f32, r_f32. cbn [app]. unfold rbind at 1. rewrite check_type_ok. apply rdbe_be. exact H. Qed.
Theorem read_write_f64 x : x < 2 ^ 64 -> roundtrip w_f64 r_f64 x.
Proof. intros H rest. unfold w_f64, r_f64. cbn [app]. unfold rbind at 1. rewrite check_type_ok. apply rdbe_be. exact H. Qed.

(* two's complement *)
Lemma twos_lt k z : twos k z < 256 ^ N.of_nat k.
Proof.
  unfold twos. assert (E : Z.of_N (256 ^ N.of_nat k) = (2 ^ (8 * Z.of_nat k))%Z).
  { rewrite N2Z.inj_pow. change (Z.of_N 256) with (2 ^ 8)%Z. rewrite <- Z.pow_mul_r by lia. f_equal. lia. }
  assert (0 < 2 ^ (8 * Z.of_nat k))%Z by (apply Z.pow_pos_nonneg; lia).
  pose proof (Z.mod_pos_bound z (2 ^ (8 * Z.of_nat k))%Z ltac:(lia)). lia.
Qed.
Lemma untwos_twos k z : (0 < k)%nat -> (- 2 ^ (8 * Z.of_nat k - 1) <= z < 2 ^ (8 * Z.of_nat k - 1))%Z ->
  untwos k (twos k z) = z.
Proof.
  intros Hk Hz. unfold untwos, twos.
  set (m := (2 ^ (8 * Z.of_nat k))%Z). set (h := (2 ^ (8 * Z.of_nat k - 1))%Z) in *.
  assert (Hm : m = (2 * h)%Z).
  { unfold m, h. replace (8 * Z.of_nat k)%Z with (Z.succ (8 * Z.of_nat k - 1)) at 1 by lia.
    rewrite Z.pow_succ_r by lia. reflexivity. }
  assert (Hh : (0 < h)%Z) by (apply Z.pow_pos_nonneg; lia).
  assert (Eh : Z.of_N (2 ^ (8 * N.of_nat k - 1)) = h).
  { unfold h. rewrite N2Z.inj_pow. f_equal. lia. }
  pose proof (Z.mod_pos_bound z m ltac:(lia)) as Hb.
  destruct (N.ltb_spec (Z.to_N (z mod m)) (2 ^ (8 * N.of_nat k - 1))) as [Hl|Hl].
  - rewrite Z2N.id by lia. assert (z mod m < h)%Z by lia.
    destruct (Z.lt_ge_cases z 0) as [Hn|Hn].
    + exfalso. assert (z mod m = z + m)%Z.
      { symmetry. apply Z.mod_unique_pos with (q := (-1)%Z); lia. } lia.
    + apply Z.mod_small. lia.
  - rewrite Z2N.id by lia. assert (h <= z mod m)%Z by lia.
    destruct (Z.lt_ge_cases z 0) as [Hn|Hn].
    + assert (z mod m = z + m)%Z.
      { symmetry. apply Z.mod_unique_pos with (q := (-1)%Z); lia. } lia.
    + exfalso. rewrite Z.mod_small in H by lia. lia.
Qed.
Lemma rmap_rdbe_twos k z r : (0 < k)%nat -> (- 2 ^ (8 * Z.of_nat k - 1) <= z < 2 ^ (8 * Z.of_nat k - 1))%Z ->
  rmap (untwos k) (rdbe k) (be k (twos k z) ++ r) = Some (z, r).
Proof. intros Hk Hz. unfold rmap. rewrite rdbe_be by apply twos_lt. rewrite untwos_twos by assumption. reflexivity. Qed.
Theorem read_write_i8 x : (- 2 ^ 7 <= x < 2 ^ 7)%Z -> roundtrip w_i8 r_i8 x.
Proof. intros H rest. unfold w_i8, r_i8. cbn [app]. unfold rbind at 1. rewrite check_type_ok. apply rmap_rdbe_twos; [lia|exact H]. Qed.
Theorem read_write_i16 x : (- 2 ^ 15 <= x < 2 ^ 15)%Z -> roundtrip w_i16 r_i16 x.
Proof. intros H rest. unfold w_i16, r_i16. cbn [app]. unfold rbind at 1. rewrite check_type_ok. apply rmap_rdbe_twos; [lia|exact H]. Qed.
Theorem read_write_i32 x : (- 2 ^ 31 <= x < 2 ^ 31)%Z -> roundtrip w_i32 r_i32 x.
Proof. intros H rest. unfold w_i32, r_i32. cbn [app]. unfold rbind at 1. rewrite check_type_ok. apply rmap_rdbe_twos; [lia|exact H]. Qed.
Theorem read_write_i64 x : (- 2 ^ 63 <= x < 2 ^ 63)%Z -> roundtrip w_i64 r_i64 x.
Proof. intros H rest. unfold w_i64, r_i64. cbn [app]. unfold rbind at 1. rewrite check_type_ok. apply rmap_rdbe_twos; [lia|exact H]. Qed.

(* ---- str ---- *)
Lemma rd8_cons x r : rd8 (x :: r) = Some (x, r).
Proof. reflexivity. Qed.
(* what the Reader does after each first byte the Writer can produce *)
Lemma r_str_fix n r : n < 32 -> r_str ((T_FIXSTR + n) :: r) = take n r.
Proof.
  intros H. unfold r_str. unfold rbind at 1. rewrite rd8_cons. unfold T_FIXSTR in *.
  replace ((160 <=? 160 + n) && (160 + n <? 160 + 32)) with true
    by (symmetry; apply andb_true_iff; split; [apply N.leb_le|apply N.ltb_lt]; lia).
  replace (160 + n - 160) with n by lia. reflexivity.
Qed.
Lemma r_str_8 r : r_str (T_STR8 :: r) = rbind (rdbe 1) take r.
Proof. reflexivity. Qed.
Lemma r_str_16 r : r_str (T_STR16 :: r) = rbind (rdbe 2) take r.
Proof. reflexivity. Qed.
Lemma r_str_32 r : r_str (T_STR32 :: r) = rbind (rdbe 4) take r.
Proof. reflexivity. Qed.
Lemma rbind_rdbe_take k n s r : n < 256 ^ N.of_nat k -> n = len s ->
  rbind (rdbe k) take (be k n ++ s ++ r) = Some (s, r).
Proof. intros H ->. unfold rbind. rewrite rdbe_be by exact H. apply take_app. Qed.

Theorem read_write_str s : len s < 2 ^ 32 -> roundtrip w_str r_str s.
Proof.
  intros H rest. unfold w_str, str_hdr, LIM_FIXSTR, LIM_8, LIM_16.
  destruct (N.ltb_spec (len s) 32) as [H1|H1].
  - cbn [app]. rewrite r_str_fix by exact H1. apply take_app.
  - destruct (N.ltb_spec (len s) 256) as [H2|H2].
    + cbn [app]. rewrite r_str_8, <- app_assoc. apply rbind_rdbe_take; [exact H2|reflexivity].
    + destruct (N.ltb_spec (len s) 65536) as [H3|H3].
      * cbn [app]. rewrite r_str_16, <- app_assoc. apply rbind_rdbe_take; [exact H3|reflexivity].
      * cbn [app]. rewrite r_str_32, <- app_assoc. apply rbind_rdbe_take; [exact H|reflexivity].
Qed.

(* ---- bin ---- *)
Lemma r_bin_8 r : r_bin (T_BIN8 :: r) = rbind (rdbe 1) take r.
Proof. reflexivity. Qed.
Lemma r_bin_16 r : r_bin (T_BIN16 :: r) = rbind (rdbe 2) take r.
Proof. reflexivity. Qed.
Lemma r_bin_32 r : r_bin (T_BIN32 :: r) = rbind (rdbe 4) take r.
Proof. reflexivity. Qed.
Theorem read_write_bin s : len s < 2 ^ 32 -> roundtrip w_bin r_bin s.
Proof.
  intros H rest. unfold w_bin, bin_hdr, LIM_8, LIM_16.
  destruct (N.ltb_spec (len s) 256) as [H2|H2].
  - cbn [app]. rewrite r_bin_8, <- app_assoc. apply rbind_rdbe_take; [exact H2|reflexivity].
  - destruct (N.ltb_spec (len s) 65536) as [H3|H3].
    + cbn [app]. rewrite r_bin_16, <- app_assoc. apply rbind_rdbe_take; [exact H3|reflexivity].
    + cbn [app]. rewrite r_bin_32, <- app_assoc. apply rbind_rdbe_take; [exact H|reflexivity].
Qed.

(* ---- ext ---- *)
Definition ext_body (size : N) : reader (Z * bytes) :=
  rbind rd8 (fun ty => rbind (take size) (fun d => rret (untwos 1 ty, d))).
Lemma r_ext_fix1 r : r_ext (T_FIXEXT1 :: r) = ext_body 1 r.  Proof. reflexivity. Qed.
Lemma r_ext_fix2 r : r_ext (T_FIXEXT2 :: r) = ext_body 2 r.  Proof. reflexivity. Qed.
Lemma r_ext_fix4 r : r_ext (T_FIXEXT4 :: r) = ext_body 4 r.  Proof. reflexivity. Qed.
Lemma r_ext_fix8 r : r_ext (T_FIXEXT8 :: r) = ext_body 8 r.  Proof. reflexivity. Qed.
Lemma r_ext_fix16 r : r_ext (T_FIXEXT16 :: r) = ext_body 16 r.  Proof. reflexivity. Qed.
Lemma r_ext_8 r : r_ext (T_EXT8 :: r) = rbind (rdbe 1) ext_body r.  Proof. reflexivity. Qed.
Lemma r_ext_16 r : r_ext (T_EXT16 :: r) = rbind (rdbe 2) ext_body r.  Proof. reflexivity. Qed.
Lemma r_ext_32 r : r_ext (T_EXT32 :: r) = rbind (rdbe 4) ext_body r.  Proof. reflexivity. Qed.
Lemma ext_body_ok ty d r : (- 2 ^ 7 <= ty < 2 ^ 7)%Z ->
  ext_body (len d) (twos 1 ty :: d ++ r) = Some ((ty, d), r).
Proof.
  intros H. unfold ext_body. unfold rbind at 1. rewrite rd8_cons. unfold rbind. rewrite take_app.
  unfold rret. rewrite untwos_twos by (try lia; exact H). reflexivity.
Qed.
Lemma rbind_rdbe_ext k ty d r : len d < 256 ^ N.of_nat k -> (- 2 ^ 7 <= ty < 2 ^ 7)%Z ->
  rbind (rdbe k) ext_body ((be k (len d) ++ [twos 1 ty]) ++ d ++ r) = Some ((ty, d), r).
Proof.
  intros H Ht. rewrite <- app_assoc. unfold rbind. rewrite rdbe_be by exact H. cbn [app]. apply ext_body_ok. exact Ht.
Qed.
Theorem read_write_ext x : (- 2 ^ 7 <= fst x < 2 ^ 7)%Z -> len (snd x) < 2 ^ 32 -> roundtrip w_ext r_ext x.
Proof.
  destruct x as [ty d]. cbn [fst snd]. intros Ht H rest. unfold w_ext, ext_hdr, LIM_8, LIM_16. cbn [fst snd].
  destruct (N.ltb_spec (len d) 256) as [H2|H2].
  - destruct (N.eqb_spec (len d) 1) as [E|E1].
    { cbn [app]. rewrite r_ext_fix1. rewrite <- E. apply ext_body_ok. exact Ht. }
    destruct (N.eqb_spec (len d) 2) as [E|E2].
    { cbn [app]. rewrite r_ext_fix2. rewrite <- E. apply ext_body_ok. exact Ht. }
    destruct (N.eqb_spec (len d) 4) as [E|E4].
    { cbn [app]. rewrite r_ext_fix4. rewrite <- E. apply ext_body_ok. exact Ht. }
    destruct (N.eqb_spec (len d) 8) as [E|E8].
    { cbn [app]. rewrite r_ext_fix8. rewrite <- E. apply ext_body_ok. exact Ht. }
    destruct (N.eqb_spec (len d) 16) as [E|E16].
    { cbn [app]. rewrite r_ext_fix16. rewrite <- E. apply ext_body_ok. exact Ht. }
    rewrite <- app_assoc, <- app_comm_cons. rewrite r_ext_8. apply rbind_rdbe_ext; [exact H2|exact Ht].
  - destruct (N.ltb_spec (len d) 65536) as [H3|H3].
    + rewrite <- app_assoc, <- app_comm_cons. rewrite r_ext_16. apply rbind_rdbe_ext; [exact H3|exact Ht].
    + rewrite <- app_assoc, <- app_comm_cons. rewrite r_ext_32. apply rbind_rdbe_ext; [exact H|exact Ht].
Qed.

(* ---- containers ---- *)
Lemma rd_loop_flat_map {A} (we : A -> bytes) (rd : reader A) (l : list A) rest :
  Forall (roundtrip we rd) l -> rd_loop rd (length l) (flat_map we l ++ rest) = Some (l, rest).
Proof.
  induction l as [|x l IH]; intros H; cbn [length rd_loop flat_map].
  - reflexivity.
  - inversion H as [|? ? Hx Hl]; subst. rewrite <- app_assoc. unfold rbind at 1. rewrite Hx.
    unfold rbind. rewrite IH by exact Hl. reflexivity.
Qed.
(* an element that round-trips through a consuming reader has a non-empty encoding *)
Lemma roundtrip_nonempty {A} (we : A -> bytes) (rd : reader A) x : splits rd -> roundtrip we rd x -> (1 <= length (we x))%nat.
Proof.
  intros Hs H. pose proof (splits_length _ _ _ _ Hs (H [])) as L. rewrite app_nil_r in L. cbn [length] in L. lia.
Qed.
Lemma length_flat_map_ge {A} (we : A -> bytes) (l : list A) :
  Forall (fun x => (1 <= length (we x))%nat) l -> (length l <= length (flat_map we l))%nat.
Proof.
  induction 1 as [|x l Hx Hl IH]; cbn [flat_map length]; [lia|]. rewrite app_length. lia.
Qed.
Lemma rd_n_flat_map {A} (we : A -> bytes) (rd : reader A) (l : list A) rest : splits rd ->
  Forall (roundtrip we rd) l -> rd_n rd (N.of_nat (length l)) (flat_map we l ++ rest) = Some (l, rest).
Proof.
  intros Hs H. unfold rd_n.
  assert (L : (length l <= length (flat_map we l))%nat).
  { apply length_flat_map_ge. eapply Forall_impl; [|exact H]. intros x Hx. eapply roundtrip_nonempty; eassumption. }
  destruct (N.ltb_spec (len (flat_map we l ++ rest)) (N.of_nat (length l))) as [Hl|Hl].
  - rewrite len_app in Hl. unfold len in Hl. lia.
  - rewrite Nat2N.id. apply rd_loop_flat_map. exact H.
Qed.

Lemma r_vec_fix {A} (rd : reader A) n r : n < 16 -> r_vec rd ((T_FIXARR + n) :: r) = rd_n rd n r.
Proof.
  intros H. unfold r_vec. unfold rbind at 1. rewrite rd8_cons. unfold T_FIXARR in *.
  replace ((144 <=? 144 + n) && (144 + n <? 144 + 16)) with true
    by (symmetry; apply andb_true_iff; split; [apply N.leb_le|apply N.ltb_lt]; lia).
  replace (144 + n - 144) with n by lia. reflexivity.
Qed.
Lemma r_vec_16 {A} (rd : reader A) r : r_vec rd (T_ARR16 :: r) = rbind (rdbe 2) (rd_n rd) r.
Proof. reflexivity. Qed.
Lemma r_vec_32 {A} (rd : reader A) r : r_vec rd (T_ARR32 :: r) = rbind (rdbe 4) (rd_n rd) r.
Proof. reflexivity. Qed.
Theorem read_write_vec {A} (we : A -> bytes) (rd : reader A) (l : list A) : splits rd ->
  N.of_nat (length l) < 2 ^ 32 -> Forall (roundtrip we rd) l -> roundtrip (w_vec we) (r_vec rd) l.
Proof.
  intros Hs H Hl rest. unfold w_vec, arr_hdr, LIM_FIXCONT, LIM_16, LIM_32. set (n := N.of_nat (length l)) in *.
  destruct (N.ltb_spec n 16) as [H1|H1].
  - cbn [app]. rewrite r_vec_fix by exact H1. apply rd_n_flat_map; assumption.
  - destruct (N.ltb_spec n 65536) as [H2|H2].
    + cbn [app]. rewrite r_vec_16, <- app_assoc. unfold rbind. rewrite rdbe_be by exact H2. apply rd_n_flat_map; assumption.
    + destruct (N.ltb_spec n 4294967296) as [H3|H3]; [|change (2 ^ 32) with 4294967296 in H; lia].
      cbn [app]. rewrite r_vec_32, <- app_assoc. unfold rbind. rewrite rdbe_be by exact H3. apply rd_n_flat_map; assumption.
Qed.

Lemma r_map_fix {K V} (rk : reader K) (rv : reader V) n r : n < 16 ->
  r_map rk rv ((T_FIXMAP + n) :: r) = rd_n (r_pair rk rv) n r.
Proof.
  intros H. unfold r_map. unfold rbind at 1. rewrite rd8_cons. unfold T_FIXMAP in *.
  replace ((128 <=? 128 + n) && (128 + n <? 128 + 16)) with true
    by (symmetry; apply andb_true_iff; split; [apply N.leb_le|apply N.ltb_lt]; lia).
  replace (128 + n - 128) with n by lia. reflexivity.
Qed.
Lemma r_map_16 {K V} (rk : reader K) (rv : reader V) r : r_map rk rv (T_MAP16 :: r) = rbind (rdbe 2) (rd_n (r_pair rk rv)) r.
Proof. reflexivity. Qed.
Lemma r_map_32 {K V} (rk : reader K) (rv : reader V) r : r_map rk rv (T_MAP32 :: r) = rbind (rdbe 4) (rd_n (r_pair rk rv)) r.
Proof. reflexivity. Qed.
Lemma roundtrip_pair {K V} (wk : K -> bytes) (wv : V -> bytes) rk rv kv :
  roundtrip wk rk (fst kv) -> roundtrip wv rv (snd kv) ->
  roundtrip (fun kv => wk (fst kv) ++ wv (snd kv)) (r_pair rk rv) kv.
Proof.
  intros Hk Hv rest. destruct kv as [k v]. cbn [fst snd] in *. unfold r_pair. rewrite <- app_assoc.
  unfold rbind at 1. rewrite Hk. unfold rbind. rewrite Hv. reflexivity.
Qed.
Lemma splits_r_pair {K V} (rk : reader K) (rv : reader V) : splits rk -> suffix_ok rv -> splits (r_pair rk rv).
Proof.
  intros Hk Hv. unfold r_pair. apply splits_rbind_l; [exact Hk|]. intro k.
  apply suffix_rbind; [exact Hv|]. intro v. apply suffix_rret.
Qed.
Theorem read_write_map {K V} (wk : K -> bytes) (wv : V -> bytes) rk rv (l : list (K * V)) :
  splits rk -> suffix_ok rv -> N.of_nat (length l) < 2 ^ 32 ->
  Forall (fun kv => roundtrip wk rk (fst kv) /\ roundtrip wv rv (snd kv)) l ->
  roundtrip (w_map wk wv) (r_map rk rv) l.
Proof.
  intros Hk Hv H Hl rest. unfold w_map, map_hdr, LIM_FIXCONT, LIM_16, LIM_32. set (n := N.of_nat (length l)) in *.
  assert (Hp : splits (r_pair rk rv)) by (apply splits_r_pair; assumption).
  assert (Hl' : Forall (roundtrip (fun kv => wk (fst kv) ++ wv (snd kv)) (r_pair rk rv)) l).
  { eapply Forall_impl; [|exact Hl]. intros kv [A B]. apply roundtrip_pair; assumption. }
  destruct (N.ltb_spec n 16) as [H1|H1].
  - cbn [app]. rewrite r_map_fix by exact H1. apply rd_n_flat_map; assumption.
  - destruct (N.ltb_spec n 65536) as [H2|H2].
    + cbn [app]. rewrite r_map_16, <- app_assoc. unfold rbind. rewrite rdbe_be by exact H2. apply rd_n_flat_map; assumption.
    + destruct (N.ltb_spec n 4294967296) as [H3|H3]; [|change (2 ^ 32) with 4294967296 in H; lia].
      cbn [app]. rewrite r_map_32, <- app_assoc. unfold rbind. rewrite rdbe_be by exact H3. apply rd_n_flat_map; assumption.
Qed.

(* ------------------------------------------------------------------ every reader: extension, consumption *)
Ltac solve_ext :=
  repeat first
    [ apply ext_rbind | apply ext_rd8 | apply ext_rdbe | apply ext_take | apply ext_rret | apply ext_rfail
    | apply ext_rguard | apply ext_rmap | apply ext_check_type
    | match goal with |- ext_ok (if ?c then _ else _) => destruct c end
    | match goal with |- forall _, ext_ok _ => intro end ].
Ltac solve_suffix :=
  repeat first
    [ apply suffix_rbind | apply suffix_rdbe | apply suffix_take | apply suffix_rret | apply suffix_rfail
    | apply suffix_rguard | apply suffix_rmap | apply (splits_suffix _ splits_rd8)
    | apply (splits_suffix _ (splits_check_type _))
    | match goal with |- suffix_ok (if ?c then _ else _) => destruct c end
    | match goal with |- forall _, suffix_ok _ => intro end ].

Lemma ext_r_nil : ext_ok r_nil.  Proof. unfold r_nil. solve_ext. Qed.
Lemma ext_r_bool : ext_ok r_bool.  Proof. unfold r_bool. solve_ext. Qed.
Lemma ext_r_u8 : ext_ok r_u8.  Proof. unfold r_u8. solve_ext. Qed.
Lemma ext_r_u16 : ext_ok r_u16.  Proof. unfold r_u16. solve_ext. Qed.
Lemma ext_r_u32 : ext_ok r_u32.  Proof. unfold r_u32. solve_ext. Qed.
Lemma ext_r_u64 : ext_ok r_u64.  Proof. unfold r_u64. solve_ext. Qed.
Lemma ext_r_i8 : ext_ok r_i8.  Proof. unfold r_i8. solve_ext. Qed.
Lemma ext_r_i16 : ext_ok r_i16.  Proof. unfold r_i16. solve_ext. Qed.
Lemma ext_r_i32 : ext_ok r_i32.  Proof. unfold r_i32. solve_ext. Qed.
Lemma ext_r_i64 : ext_ok r_i64.  Proof. unfold r_i64. solve_ext. Qed.
Lemma ext_r_f32 : ext_ok r_f32.  Proof. unfold r_f32. solve_ext. Qed.
Lemma ext_r_f64 : ext_ok r_f64.  Proof. unfold r_f64. solve_ext. Qed.
Lemma ext_r_str : ext_ok r_str.  Proof. unfold r_str. solve_ext. Qed.
Lemma ext_r_bin : ext_ok r_bin.  Proof. unfold r_bin. solve_ext. Qed.
Lemma ext_r_ext : ext_ok r_ext.  Proof. unfold r_ext. solve_ext. Qed.
Lemma ext_r_vec {A} (rd : reader A) : ext_ok rd -> ext_ok (r_vec rd).
Proof. intros H. unfold r_vec. apply ext_rbind; [apply ext_rd8|]. intro t. apply ext_rbind; [solve_ext|]. intro n. apply ext_rd_n. exact H. Qed.
Lemma ext_r_pair {K V} (rk : reader K) (rv : reader V) : ext_ok rk -> ext_ok rv -> ext_ok (r_pair rk rv).
Proof. intros Hk Hv. unfold r_pair. apply ext_rbind; [exact Hk|]. intro k. apply ext_rbind; [exact Hv|]. intro v. apply ext_rret. Qed.
Lemma ext_r_map {K V} (rk : reader K) (rv : reader V) : ext_ok rk -> ext_ok rv -> ext_ok (r_map rk rv).
Proof.
  intros Hk Hv. unfold r_map. apply ext_rbind; [apply ext_rd8|]. intro t. apply ext_rbind; [solve_ext|]. intro n.
  apply ext_rd_n. apply ext_r_pair; assumption.
Qed.

Lemma splits_r_nil : splits r_nil.  Proof. apply splits_check_type. Qed.
Lemma splits_r_bool : splits r_bool.  Proof. unfold r_bool. apply splits_rbind_l; [apply splits_rd8|]. solve_suffix. Qed.
Lemma splits_word t k : splits (rbind (check_type t) (fun _ => rdbe k)).
Proof. apply splits_rbind_l; [apply splits_check_type|]. solve_suffix. Qed.
Lemma splits_sword t k : splits (rbind (check_type t) (fun _ => rmap (untwos k) (rdbe k))).
Proof. apply splits_rbind_l; [apply splits_check_type|]. solve_suffix. Qed.
Lemma splits_r_u8 : splits r_u8.  Proof. apply splits_word. Qed.
Lemma splits_r_u16 : splits r_u16.  Proof. apply splits_word. Qed.
Lemma splits_r_u32 : splits r_u32.  Proof. apply splits_word. Qed.
Lemma splits_r_u64 : splits r_u64.  Proof. apply splits_word. Qed.
Lemma splits_r_f32 : splits r_f32.  Proof. apply splits_word. Qed.
Lemma splits_r_f64 : splits r_f64.  Proof. apply splits_word. Qed.
Lemma splits_r_i8 : splits r_i8.  Proof. apply splits_sword. Qed.
Lemma splits_r_i16 : splits r_i16.  Proof. apply splits_sword. Qed.
Lemma splits_r_i32 : splits r_i32.  Proof. apply splits_sword. Qed.
Lemma splits_r_i64 : splits r_i64.  Proof. apply splits_sword. Qed.
Lemma splits_r_str : splits r_str.  Proof. unfold r_str. apply splits_rbind_l; [apply splits_rd8|]. solve_suffix. Qed.
Lemma splits_r_bin : splits r_bin.  Proof. unfold r_bin. apply splits_rbind_l; [apply splits_rd8|]. solve_suffix. Qed.
Lemma splits_r_ext : splits r_ext.  Proof. unfold r_ext. apply splits_rbind_l; [apply splits_rd8|]. solve_suffix. Qed.
Lemma splits_r_vec {A} (rd : reader A) : suffix_ok rd -> splits (r_vec rd).
Proof.
  intros H. unfold r_vec. apply splits_rbind_l; [apply splits_rd8|]. intro t.
  apply suffix_rbind; [solve_suffix|]. intro n. apply suffix_rd_n. exact H.
Qed.
Lemma splits_r_map {K V} (rk : reader K) (rv : reader V) : suffix_ok rk -> suffix_ok rv -> splits (r_map rk rv).
Proof.
  intros Hk Hv. unfold r_map. apply splits_rbind_l; [apply splits_rd8|]. intro t.
  apply suffix_rbind; [solve_suffix|]. intro n. apply suffix_rd_n.
  unfold r_pair. apply suffix_rbind; [exact Hk|]. intro k. apply suffix_rbind; [exact Hv|]. intro v. apply suffix_rret.
Qed.

(* ------------------------------------------------------------------ the type-generic statements *)
Theorem read_splits t : splits (read t).
Proof.
  induction t; cbn [read];
    first [ apply splits_r_nil | apply splits_r_bool | apply splits_r_u8 | apply splits_r_u16 | apply splits_r_u32
          | apply splits_r_u64 | apply splits_r_i8 | apply splits_r_i16 | apply splits_r_i32 | apply splits_r_i64
          | apply splits_r_f32 | apply splits_r_f64 | apply splits_r_str | apply splits_r_bin | apply splits_r_ext
          | idtac ].
  - apply splits_r_vec. apply splits_suffix. exact IHt.
  - apply splits_r_map; apply splits_suffix; assumption.
Qed.

(* C14: reader_extension, for every supported type *)
Theorem reader_extension t : ext_ok (read t).
Proof.
  induction t; cbn [read];
    first [ apply ext_r_nil | apply ext_r_bool | apply ext_r_u8 | apply ext_r_u16 | apply ext_r_u32
          | apply ext_r_u64 | apply ext_r_i8 | apply ext_r_i16 | apply ext_r_i32 | apply ext_r_i64
          | apply ext_r_f32 | apply ext_r_f64 | apply ext_r_str | apply ext_r_bin | apply ext_r_ext
          | idtac ].
  - apply ext_r_vec. exact IHt.
  - apply ext_r_map; assumption.
Qed.

(* C13: read (write x ++ rest) = Some (x, rest), for every supported type, value and size *)
Theorem read_write t : forall x, wfv t x -> roundtrip (write t) (read t) x.
Proof.
  induction t; cbn [read write wfv val]; intros x H.
  - destruct x. apply read_write_nil.
  - apply read_write_bool.
  - apply read_write_u8; exact H.
  - apply read_write_u16; exact H.
  - apply read_write_u32; exact H.
  - apply read_write_u64; exact H.
  - apply read_write_i8; exact H.
  - apply read_write_i16; exact H.
  - apply read_write_i32; exact H.
  - apply read_write_i64; exact H.
  - apply read_write_f32; exact H.
  - apply read_write_f64; exact H.
  - apply read_write_str; exact H.
  - apply read_write_bin; exact H.
  - apply read_write_ext; apply H.
  - destruct H as [Hn Hl]. apply read_write_vec; [apply read_splits|exact Hn|].
    eapply Forall_impl; [|exact Hl]. intros a Ha. apply IHt. exact Ha.
  - destruct H as [Hn Hl]. apply read_write_map; [apply read_splits|apply splits_suffix; apply read_splits|exact Hn|].
    eapply Forall_impl; [|exact Hl]. intros kv [Ha Hb]. split; [apply IHt1|apply IHt2]; assumption.
Qed.

(* ------------------------------------------------------------------ proper prefixes *)
(* a reader that is stable under extension rejects every proper prefix of an input it
   consumes completely (a writer that crashed at any byte) *)
Theorem prefix_rejected {A} (rd : reader A) enc v n :
  ext_ok rd -> rd enc = Some (v, []) -> (n < length enc)%nat -> rd (firstn n enc) = None.
Proof.
  intros He H Hn. destruct (rd (firstn n enc)) as [[v' r']|] eqn:E; [|reflexivity]. exfalso.
  pose proof (He _ _ _ (skipn n enc) E) as X. rewrite firstn_skipn in X. rewrite H in X.
  injection X as _ Hr. symmetry in Hr. apply app_eq_nil in Hr. destruct Hr as [_ Hr].
  assert (L : length (skipn n enc) = 0%nat) by (rewrite Hr; reflexivity).
  rewrite skipn_length in L. lia.
Qed.
Theorem proper_prefix_rejected_value t x n :
  wfv t x -> (n < length (write t x))%nat -> read t (firstn n (write t x)) = None.
Proof.
  intros H Hn. apply prefix_rejected with (v := x); [apply reader_extension| |exact Hn].
  pose proof (read_write t x H []) as R. rewrite app_nil_r in R. exact R.
Qed.

(* ------------------------------------------------------------------ length classes at their boundaries *)
Theorem length_class_boundaries :
  str_hdr 0 = [0xa0] /\ str_hdr 31 = [0xbf] /\ str_hdr 32 = [0xd9; 32] /\ str_hdr 255 = [0xd9; 255] /\
  str_hdr 256 = [0xda; 1; 0] /\ str_hdr 65535 = [0xda; 255; 255] /\ str_hdr 65536 = [0xdb; 0; 1; 0; 0] /\
  str_hdr 4294967295 = [0xdb; 255; 255; 255; 255] /\
  bin_hdr 0 = [0xc4; 0] /\ bin_hdr 255 = [0xc4; 255] /\ bin_hdr 256 = [0xc5; 1; 0] /\ bin_hdr 65535 = [0xc5; 255; 255] /\
  bin_hdr 65536 = [0xc6; 0; 1; 0; 0] /\ bin_hdr 4294967295 = [0xc6; 255; 255; 255; 255] /\
  arr_hdr 0 = [0x90] /\ arr_hdr 15 = [0x9f] /\ arr_hdr 16 = [0xdc; 0; 16] /\ arr_hdr 65535 = [0xdc; 255; 255] /\
  arr_hdr 65536 = [0xdd; 0; 1; 0; 0] /\ arr_hdr 4294967295 = [0xdd; 255; 255; 255; 255] /\
  map_hdr 0 = [0x80] /\ map_hdr 15 = [0x8f] /\ map_hdr 16 = [0xde; 0; 16] /\ map_hdr 65535 = [0xde; 255; 255] /\
  map_hdr 65536 = [0xdf; 0; 1; 0; 0] /\ map_hdr 4294967295 = [0xdf; 255; 255; 255; 255] /\
  ext_hdr 7 1 = [0xd4; 7] /\ ext_hdr 7 2 = [0xd5; 7] /\ ext_hdr 7 4 = [0xd6; 7] /\ ext_hdr 7 8 = [0xd7; 7] /\
  ext_hdr 7 16 = [0xd8; 7] /\ ext_hdr (-1) 0 = [0xc7; 0; 255] /\ ext_hdr 7 3 = [0xc7; 3; 7] /\ ext_hdr 7 255 = [0xc7; 255; 7] /\
  ext_hdr 7 256 = [0xc8; 1; 0; 7] /\ ext_hdr 7 65535 = [0xc8; 255; 255; 7] /\ ext_hdr 7 65536 = [0xc9; 0; 1; 0; 0; 7] /\
  ext_hdr 7 4294967295 = [0xc9; 255; 255; 255; 255; 7].
Proof. vm_compute. repeat split. Qed.

(* ------------------------------------------------------------------ unordered_map view *)
Lemma assoc_app_notin {K V} (eqb : K -> K -> bool) k (a b : list (K * V)) :
  assoc eqb k a = None -> assoc eqb k (a ++ b) = assoc eqb k b.
Proof.
  induction a as [|[k' v] a IH]; cbn [assoc app]; [reflexivity|]. destruct (eqb k k'); [discriminate|exact IH].
Qed.
Lemma assoc_app_in {K V} (eqb : K -> K -> bool) k (a b : list (K * V)) v :
  assoc eqb k a = Some v -> assoc eqb k (a ++ b) = Some v.
Proof.
  induction a as [|[k' v'] a IH]; cbn [assoc app]; [discriminate|]. destruct (eqb k k'); [trivial|exact IH].
Qed.
(* the map built by successive emplace calls answers find(k) with the FIRST entry of k *)
Theorem emplace_first_wins {K V} (eqb : K -> K -> bool) :
  (forall a b, eqb a b = true <-> a = b) ->
  forall (l acc : list (K * V)) k,
    assoc eqb k (emplace_all eqb acc l) = match assoc eqb k acc with Some v => Some v | None => assoc eqb k l end.
Proof.
  intros Heq. induction l as [|[k' v'] l IH]; intros acc k; cbn [emplace_all assoc].
  - destruct (assoc eqb k acc); reflexivity.
  - rewrite IH. unfold mem_key. destruct (assoc eqb k' acc) as [w|] eqn:E.
    + destruct (assoc eqb k acc) as [u|] eqn:E2; [reflexivity|].
      destruct (eqb k k') eqn:E3; [|reflexivity]. apply Heq in E3. subst k'. rewrite E in E2. discriminate.
    + destruct (assoc eqb k acc) as [u|] eqn:E2.
      * rewrite (assoc_app_in _ _ _ _ _ E2). reflexivity.
      * rewrite (assoc_app_notin _ _ _ _ E2). cbn [assoc]. destruct (eqb k k'); reflexivity.
Qed.
Corollary dedup_first_lookup {K V} (eqb : K -> K -> bool) (l : list (K * V)) k :
  (forall a b, eqb a b = true <-> a = b) -> assoc eqb k (dedup_first eqb l) = assoc eqb k l.
Proof. intros H. unfold dedup_first. rewrite emplace_first_wins by exact H. reflexivity. Qed.
Lemma bytes_eqb_spec a : forall b, bytes_eqb a b = true <-> a = b.
Proof.
  induction a as [|x a IH]; destruct b as [|y b]; cbn [bytes_eqb]; try (split; [discriminate|discriminate]); [tauto|].
  rewrite andb_true_iff, N.eqb_eq, IH. split; [intros [-> ->]; reflexivity|intros [= -> ->]; tauto].
Qed.
(* entries with pairwise distinct keys are kept as they are *)
Lemma emplace_all_nodup {K V} (eqb : K -> K -> bool) :
  (forall a b, eqb a b = true <-> a = b) ->
  forall (l acc : list (K * V)), NoDup (map fst (acc ++ l)) -> emplace_all eqb acc l = acc ++ l.
Proof.
  intros Heq. induction l as [|[k v] l IH]; intros acc H; cbn [emplace_all].
  - rewrite app_nil_r. reflexivity.
  - assert (E : mem_key eqb k acc = false).
    { unfold mem_key. destruct (assoc eqb k acc) as [w|] eqn:E; [|reflexivity]. exfalso.
      rewrite map_app in H. cbn [map fst] in H. apply NoDup_remove_2 in H. apply H. apply in_or_app. left.
      clear -E Heq. induction acc as [|[k' v'] acc IH]; cbn [assoc] in E; [discriminate|].
      destruct (eqb k k') eqn:E3; [apply Heq in E3; subst; left; reflexivity|right; apply IH; exact E]. }
    rewrite E. rewrite IH; rewrite <- app_assoc; [reflexivity|exact H].
Qed.
Corollary dedup_first_nodup {K V} (eqb : K -> K -> bool) (l : list (K * V)) :
  (forall a b, eqb a b = true <-> a = b) -> NoDup (map fst l) -> dedup_first eqb l = l.
Proof. intros H Hn. unfold dedup_first. apply (emplace_all_nodup eqb H l []). exact Hn. Qed.
