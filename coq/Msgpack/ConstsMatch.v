(* (T) tie: the constants the hand model uses are the ones the translator reads out of
   file_format.h / msgpack/writer.h / msgpack/reader.h on every run (Gen/IoConsts.v). *)
From Coq Require Import List NArith ZArith Bool.
From PV Require Import Msgpack.Codec Msgpack.FileFormat Gen.IoConsts.
Import ListNotations.
Local Open Scope N_scope.

Definition model_version : N * N := (FileFormat.VER_MAJOR, FileFormat.VER_MINOR).
Definition model_datatypes : list N := [DT_SHAPE; DT_TENSOR; DT_PARAMETER; DT_MODEL; DT_OPTIMIZER].
(* (type bytes, bytes written) per scalar overload of Writer::operator<< *)
Definition model_writer_scalars : list (list N * N) :=
  [([T_NIL], len w_nil); ([T_FALSE; T_TRUE], len (w_bool true));
   ([T_U8], len (w_u8 0)); ([T_U16], len (w_u16 0)); ([T_U32], len (w_u32 0)); ([T_U64], len (w_u64 0));
   ([T_I8], len (w_i8 0%Z)); ([T_I16], len (w_i16 0%Z)); ([T_I32], len (w_i32 0%Z)); ([T_I64], len (w_i64 0%Z));
   ([T_F32], len (w_f32 0)); ([T_F64], len (w_f64 0))].
Definition gen_writer_scalars : list (list N * N) :=
  [W_NIL; W_BOOL; W_U8; W_U16; W_U32; W_U64; W_I8; W_I16; W_I32; W_I64; W_F32; W_F64].
(* (exclusive limit of the length class, first byte) *)
Definition model_str_classes := [(LIM_FIXSTR, T_FIXSTR); (LIM_8, T_STR8); (LIM_16, T_STR16); (LIM_32, T_STR32)].
Definition model_bin_classes := [(LIM_8, T_BIN8); (LIM_16, T_BIN16); (LIM_32, T_BIN32)].
Definition model_ext_fix := [(1, T_FIXEXT1); (2, T_FIXEXT2); (4, T_FIXEXT4); (8, T_FIXEXT8); (16, T_FIXEXT16)].
Definition model_ext_classes := [(LIM_8, T_EXT8); (LIM_16, T_EXT16); (LIM_32, T_EXT32)].
Definition model_arr_classes := [(LIM_FIXCONT, T_FIXARR); (LIM_16, T_ARR16); (LIM_32, T_ARR32)].
Definition model_map_classes := [(LIM_FIXCONT, T_FIXMAP); (LIM_16, T_MAP16); (LIM_32, T_MAP32)].
(* Reader: (check_type byte, width read) *)
Definition model_reader_scalars : list (N * N) :=
  [(T_NIL, 0); (T_U8, 1); (T_U16, 2); (T_U32, 4); (T_U64, 8); (T_I8, 1); (T_I16, 2); (T_I32, 4); (T_I64, 8); (T_F32, 4); (T_F64, 8)].
Definition gen_reader_scalars : list (N * N) := [R_NIL; R_U8; R_U16; R_U32; R_U64; R_I8; R_I16; R_I32; R_I64; R_F32; R_F64].
(* `(type & mask) == value` accepts value .. value + (255 - mask): the model tests that range *)
Definition model_masks : list (N * N) :=
  [(256 - 2, T_FALSE); (256 - 32, T_FIXSTR); (256 - 16, T_FIXARR); (256 - 16, T_FIXMAP)].
Definition gen_masks : list (N * N) := [R_BOOL_MASK; R_STR_MASK; R_ARR_MASK; R_MAP_MASK].
Definition model_reader_cases : list (list (N * N)) :=
  [[(T_STR8, 256); (T_STR16, 512); (T_STR32, 1024)];
   [(T_BIN8, 256); (T_BIN16, 512); (T_BIN32, 1024)];
   [(T_FIXEXT1, 1); (T_FIXEXT2, 2); (T_FIXEXT4, 4); (T_FIXEXT8, 8); (T_FIXEXT16, 16); (T_EXT8, 256); (T_EXT16, 512); (T_EXT32, 1024)];
   [(T_ARR16, 512); (T_ARR32, 1024)];
   [(T_MAP16, 512); (T_MAP32, 1024)]].
Definition gen_reader_cases : list (list (N * N)) := [R_STR_CASES; R_BIN_CASES; R_EXT_CASES; R_ARR_CASES; R_MAP_CASES].

Lemma version_match : model_version = (IoConsts.VER_MAJOR, IoConsts.VER_MINOR).  Proof. reflexivity. Qed.
Lemma datatypes_match : model_datatypes = DATATYPES /\ DATATYPE_COUNT = 5 /\ ASSERTS_EXACT = true.
Proof. split; [reflexivity|split; reflexivity]. Qed.
Lemma writer_scalars_match : model_writer_scalars = gen_writer_scalars /\ W_BIG_ENDIAN = true.
Proof. split; reflexivity. Qed.
Lemma writer_classes_match :
  model_str_classes = STR_CLASSES /\ model_bin_classes = BIN_CLASSES /\ model_ext_fix = EXT_FIX /\
  model_ext_classes = EXT_CLASSES /\ model_arr_classes = ARR_CLASSES /\ model_map_classes = MAP_CLASSES.
Proof. split; [reflexivity|split; [reflexivity|split; [reflexivity|split; [reflexivity|split; reflexivity]]]]. Qed.
Lemma reader_match :
  model_reader_scalars = gen_reader_scalars /\ model_masks = gen_masks /\ model_reader_cases = gen_reader_cases /\ R_BIG_ENDIAN = true.
Proof. split; [reflexivity|split; [reflexivity|split; reflexivity]]. Qed.

Theorem consts_match :
  model_version = (IoConsts.VER_MAJOR, IoConsts.VER_MINOR) /\
  (model_datatypes = DATATYPES /\ DATATYPE_COUNT = 5 /\ ASSERTS_EXACT = true) /\
  (model_writer_scalars = gen_writer_scalars /\ W_BIG_ENDIAN = true) /\
  (model_str_classes = STR_CLASSES /\ model_bin_classes = BIN_CLASSES /\ model_ext_fix = EXT_FIX /\
   model_ext_classes = EXT_CLASSES /\ model_arr_classes = ARR_CLASSES /\ model_map_classes = MAP_CLASSES) /\
  (model_reader_scalars = gen_reader_scalars /\ model_masks = gen_masks /\ model_reader_cases = gen_reader_cases /\ R_BIG_ENDIAN = true).
Proof. exact (conj version_match (conj datatypes_match (conj writer_scalars_match (conj writer_classes_match reader_match)))). Qed.
