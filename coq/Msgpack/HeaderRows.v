(* Header rows: the data the translator translate/gen_io_headers.py reads out of
   primitiv/msgpack/writer.h and reader.h (Gen/IoHeaders.v), their meaning, and the same rows
   written by hand from the constants of the model (Codec.v).  No proofs in this file.

   Writer.  One row per leaf of the `if (size < ...) {...} else if ... / switch (size)` tree of
   every `operator<<` overload (64-bit branch) and one row per scalar overload:
     the range [h_lo, h_hi) and the switch selection that lead to the leaf,
     what the leaf does (writes a `const char buf[h_nbuf] {...}` through
     `os_.write(buf, h_nwrite)`, or throws),
     and the byte expressions of the initialiser list in source order.
   [v] is the value the expressions are about: `size` for str/bin/ext/array/map, the unsigned
   (two's complement) image of `x` for the integers, the memcpy'd word for float/double, `!!x`
   for bool.  [ty] is the image of the ext type byte.
   PRIMITIV_UC(e) = static_cast<char>(e): the low 8 bits of e.
   [interp] is the if / else-if chain: the first row that applies decides; no row = nothing
   written (the array/map overloads have no final else). *)
From Coq Require Import List NArith ZArith Bool.
From PV Require Import Msgpack.Codec.
Import ListNotations.
Local Open Scope N_scope.

Inductive hkind :=
  | HkNil | HkBool | HkU8 | HkU16 | HkU32 | HkU64 | HkI8 | HkI16 | HkI32 | HkI64 | HkF32 | HkF64
  | HkStr | HkBin | HkExt | HkArr | HkMap.
Definition hkind_code (k : hkind) : N :=
  match k with
  | HkNil => 0 | HkBool => 1 | HkU8 => 2 | HkU16 => 3 | HkU32 => 4 | HkU64 => 5
  | HkI8 => 6 | HkI16 => 7 | HkI32 => 8 | HkI64 => 9 | HkF32 => 10 | HkF64 => 11
  | HkStr => 12 | HkBin => 13 | HkExt => 14 | HkArr => 15 | HkMap => 16
  end.
Definition hkind_eqb (a b : hkind) : bool := hkind_code a =? hkind_code b.
Definition all_hkinds : list hkind :=
  [HkNil; HkBool; HkU8; HkU16; HkU32; HkU64; HkI8; HkI16; HkI32; HkI64; HkF32; HkF64; HkStr; HkBin; HkExt; HkArr; HkMap].

Inductive hbyte :=
  | HC (c : N)          (* PRIMITIV_UC(0xNN) *)
  | HSh (k : N)         (* PRIMITIV_UC(v >> k);  PRIMITIV_UC(v) is HSh 0 *)
  | HOr (c m : N)       (* PRIMITIV_UC(c | (v & m)) *)
  | HTy                 (* PRIMITIV_UC(type)  (ext) *)
  | HBad.               (* an expression the translator does not understand *)
Inductive hsel :=
  | SAll                (* no switch *)
  | SEq (c : N)         (* case c: *)
  | SNot (cs : list N). (* default: of a switch with the cases cs *)
Inductive hact := AWrite | AThrow | ABad.
Record hrow := mkH {
  h_kind : hkind; h_lo : N; h_hi : N; h_sel : hsel; h_act : hact;
  h_bytes : list hbyte; h_nbuf : N; h_nwrite : N }.
(* what follows the header in the overload *)
Inductive hpay :=
  | PNone               (* nothing: scalars *)
  | PRaw                (* os_.write(<data of x>, size) *)
  | PElems              (* for (const T &elm : x) *this << elm *)
  | PPairs              (* for (const std::pair<T, U> &elm : x) *this << elm.first << elm.second *)
  | PStrDelegate        (* return write_string(<data>, <length of x>) *)
  | PBadPay.

(* ---- meaning ---- *)
Definition eval_hbyte (v ty : N) (b : hbyte) : option N :=
  match b with
  | HC c => if c <? 256 then Some c else None
  | HSh k => Some (N.shiftr v k mod 256)
  | HOr c m => Some (N.lor c (N.land v m) mod 256)
  | HTy => Some ty
  | HBad => None
  end.
Fixpoint eval_bytes (v ty : N) (bs : list hbyte) : option bytes :=
  match bs with
  | [] => Some []
  | b :: r => match eval_hbyte v ty b, eval_bytes v ty r with
              | Some x, Some xs => Some (x :: xs)
              | _, _ => None
              end
  end.
Inductive outcome :=
  | OWrite (b : bytes)  (* these bytes are appended to the stream *)
  | OThrow              (* PRIMITIV_THROW_ERROR *)
  | OBad.               (* not understood / buffer size, initialiser and write count disagree *)
Definition eval_row (r : hrow) (v ty : N) : outcome :=
  match h_act r with
  | AThrow => OThrow
  | ABad => OBad
  | AWrite =>
      if (N.of_nat (length (h_bytes r)) =? h_nbuf r) && (h_nbuf r =? h_nwrite r) then
        match eval_bytes v ty (h_bytes r) with Some b => OWrite b | None => OBad end
      else OBad
  end.
Definition sel_ok (s : hsel) (v : N) : bool :=
  match s with
  | SAll => true
  | SEq c => v =? c
  | SNot cs => negb (existsb (N.eqb v) cs)
  end.
Definition in_row (r : hrow) (v : N) : bool := (h_lo r <=? v) && (v <? h_hi r) && sel_ok (h_sel r) v.
Fixpoint interp1 (rows : list hrow) (v ty : N) : outcome :=
  match rows with
  | [] => OWrite []
  | r :: rs => if in_row r v then eval_row r v ty else interp1 rs v ty
  end.
Definition of_kind (k : hkind) (r : hrow) : bool := hkind_eqb (h_kind r) k.
Definition interp (rows : list hrow) (k : hkind) (v ty : N) : outcome :=
  interp1 (filter (of_kind k) rows) v ty.

(* ---- the same, from the model ---- *)
Definition P64 : N := 2 ^ 64.       (* std::size_t / std::uint64_t *)
(* values the C++ type of the overload can hold *)
Definition dom (k : hkind) : N :=
  match k with
  | HkNil => 1 | HkBool => 2
  | HkU8 | HkI8 => 2 ^ 8
  | HkU16 | HkI16 => 2 ^ 16
  | HkU32 | HkI32 | HkF32 => 2 ^ 32
  | HkU64 | HkI64 | HkF64 => P64
  | HkStr | HkBin | HkExt | HkArr | HkMap => P64
  end.
(* what the model's writer emits before the payload for value / size v (ext type ty) *)
Definition w_model (k : hkind) (v : N) (ty : Z) : outcome :=
  match k with
  | HkNil => OWrite w_nil
  | HkBool => OWrite (w_bool (negb (v =? 0)))
  | HkU8 => OWrite (w_u8 v) | HkU16 => OWrite (w_u16 v) | HkU32 => OWrite (w_u32 v) | HkU64 => OWrite (w_u64 v)
  | HkI8 => OWrite (T_I8 :: be 1 v) | HkI16 => OWrite (T_I16 :: be 2 v)
  | HkI32 => OWrite (T_I32 :: be 4 v) | HkI64 => OWrite (T_I64 :: be 8 v)
  | HkF32 => OWrite (w_f32 v) | HkF64 => OWrite (w_f64 v)
  | HkStr => if v <? LIM_32 then OWrite (str_hdr v) else OThrow
  | HkBin => if v <? LIM_32 then OWrite (bin_hdr v) else OThrow
  | HkExt => if v <? LIM_32 then OWrite (ext_hdr ty v) else OThrow
  | HkArr => OWrite (arr_hdr v)
  | HkMap => OWrite (map_hdr v)
  end.
Definition model_pay (k : hkind) : hpay :=
  match k with
  | HkStr | HkBin | HkExt => PRaw
  | HkArr => PElems
  | HkMap => PPairs
  | _ => PNone
  end.

(* shifts 8(k-1), ..., 8, 0 *)
Fixpoint shifts (k : nat) : list N :=
  match k with O => [] | S k' => 8 * N.of_nat k' :: shifts k' end.
Definition std (kd : hkind) (lo hi T : N) (k : nat) : hrow :=
  mkH kd lo hi SAll AWrite (HC T :: map HSh (shifts k)) (N.of_nat (S k)) (N.of_nat (S k)).
Definition fixrow (kd : hkind) (lo hi T : N) : hrow :=
  mkH kd lo hi SAll AWrite [HOr T (hi - 1)] 1 1.
Definition throwrow (kd : hkind) (lo : N) : hrow := mkH kd lo P64 SAll AThrow [] 0 0.
Definition fixext (c T : N) : hrow := mkH HkExt 0 LIM_8 (SEq c) AWrite [HC T; HTy] 2 2.
Definition rows_of (k : hkind) : list hrow :=
  match k with
  | HkNil => [mkH HkNil 0 1 SAll AWrite [HC T_NIL] 1 1]
  | HkBool => [mkH HkBool 0 1 SAll AWrite [HC T_FALSE] 1 1; mkH HkBool 1 2 SAll AWrite [HC T_TRUE] 1 1]
  | HkU8 => [std HkU8 0 (dom HkU8) T_U8 1]
  | HkU16 => [std HkU16 0 (dom HkU16) T_U16 2]
  | HkU32 => [std HkU32 0 (dom HkU32) T_U32 4]
  | HkU64 => [std HkU64 0 (dom HkU64) T_U64 8]
  | HkI8 => [std HkI8 0 (dom HkI8) T_I8 1]
  | HkI16 => [std HkI16 0 (dom HkI16) T_I16 2]
  | HkI32 => [std HkI32 0 (dom HkI32) T_I32 4]
  | HkI64 => [std HkI64 0 (dom HkI64) T_I64 8]
  | HkF32 => [std HkF32 0 (dom HkF32) T_F32 4]
  | HkF64 => [std HkF64 0 (dom HkF64) T_F64 8]
  | HkStr => [fixrow HkStr 0 LIM_FIXSTR T_FIXSTR; std HkStr LIM_FIXSTR LIM_8 T_STR8 1; std HkStr LIM_8 LIM_16 T_STR16 2;
              std HkStr LIM_16 LIM_32 T_STR32 4; throwrow HkStr LIM_32]
  | HkBin => [std HkBin 0 LIM_8 T_BIN8 1; std HkBin LIM_8 LIM_16 T_BIN16 2; std HkBin LIM_16 LIM_32 T_BIN32 4; throwrow HkBin LIM_32]
  | HkExt => [fixext 1 T_FIXEXT1; fixext 2 T_FIXEXT2; fixext 4 T_FIXEXT4; fixext 8 T_FIXEXT8; fixext 16 T_FIXEXT16;
              mkH HkExt 0 LIM_8 (SNot [1; 2; 4; 8; 16]) AWrite [HC T_EXT8; HSh 0; HTy] 3 3;
              mkH HkExt LIM_8 LIM_16 SAll AWrite [HC T_EXT16; HSh 8; HSh 0; HTy] 4 4;
              mkH HkExt LIM_16 LIM_32 SAll AWrite [HC T_EXT32; HSh 24; HSh 16; HSh 8; HSh 0; HTy] 6 6;
              throwrow HkExt LIM_32]
  | HkArr => [fixrow HkArr 0 LIM_FIXCONT T_FIXARR; std HkArr LIM_FIXCONT LIM_16 T_ARR16 2; std HkArr LIM_16 LIM_32 T_ARR32 4]
  | HkMap => [fixrow HkMap 0 LIM_FIXCONT T_FIXMAP; std HkMap LIM_FIXCONT LIM_16 T_MAP16 2; std HkMap LIM_16 LIM_32 T_MAP32 4]
  end.
Definition model_rows : list hrow := flat_map rows_of all_hkinds.
Definition model_pays : list (hkind * hpay) := map (fun k => (k, model_pay k)) all_hkinds.

