(* File-level theorems about the monadic loads: round trip of Parameter / Model / Optimizer
   files, extension of load(), rejection of every proper prefix of a valid file, and what an
   accepted file must look like. *)
From Coq Require Import List NArith ZArith Lia Bool.
From PV Require Import Base.U32 Base.Err Shape.ShapeImpl Shape.ShapeSpec Shape.ShapeProofs
  Msgpack.Codec Msgpack.FileFormat Msgpack.CodecProofs Msgpack.FileProofs Msgpack.LoadAtomic.
Import ListNotations.
Local Open Scope N_scope.

Local Arguments N.add : simpl never.
Local Arguments N.sub : simpl never.
Local Arguments N.mul : simpl never.
Local Arguments N.ltb : simpl never.
Local Arguments N.leb : simpl never.
Local Arguments N.eqb : simpl never.
Local Arguments N.of_nat : simpl never.
Local Arguments N.to_nat : simpl never.
Local Arguments N.min : simpl never.
Local Arguments N.pow : simpl never.

(* the state of a fresh Parameter after loading a file that holds [p] *)
Definition loaded (ws : bool) (p : param) : param :=
  mkP true (p_shape p) (p_value p) (zeros (p_shape p)) (if ws then p_stats p else []).

(* ------------------------------------------------------------------ header *)
Lemma load_header_enc {O} dt body (o : O) : dt < 2 ^ 32 ->
  load_header dt (enc_header dt ++ body, o) = (Some tt, (body, o)).
Proof.
  intros H. unfold load_header, enc_header. rewrite <- !app_assoc.
  rewrite (bind_lift_some r_u32 _ _ _ VER_MAJOR (w_u32 VER_MINOR ++ w_u32 dt ++ body)) by (apply read_write_u32; reflexivity).
  rewrite (bind_lift_some r_u32 _ _ _ VER_MINOR (w_u32 dt ++ body)) by (apply read_write_u32; reflexivity).
  change (assert_version VER_MAJOR VER_MINOR) with true. cbn [guard]. rewrite bind_ret.
  rewrite (bind_lift_some r_u32 _ _ _ dt body) by (apply read_write_u32; exact H).
  unfold assert_datatype. rewrite N.eqb_refl. reflexivity.
Qed.

(* ------------------------------------------------------------------ Parameter *)
Lemma shape_eqb_refl s : shape_eqb s s = true.
Proof.
  unfold shape_eqb, has_same_dims. rewrite !N.eqb_refl. cbn [andb].
  rewrite andb_true_r. apply list_eqb_spec. reflexivity.
Qed.
Lemma assert_shape_ok v : batch (tshape v) = 1 -> assert_shape v (zeros (tshape v)) = true.
Proof. intros H. unfold assert_shape. cbn [zeros tshape]. rewrite shape_eqb_refl. unfold has_batch. rewrite H. reflexivity. Qed.
Lemma assert_shape_batch v : assert_shape v (zeros (tshape v)) = true -> batch (tshape v) = 1 \/ batch (tshape v) = 0.
Proof.
  unfold assert_shape, has_batch. intros H. apply andb_true_iff in H. destruct H as [_ H].
  destruct (N.ltb_spec 1 (batch (tshape v))); [discriminate|]. lia.
Qed.

Lemma load_inner_enc ws p p0 rest : wf_param p ->
  load_inner ws (enc_param_inner ws p ++ rest, p0) = (Some tt, (rest, loaded ws p)).
Proof.
  intros H. pose proof (load_inner_result ws (enc_param_inner ws p ++ rest) p0) as R. unfold inner_result in R.
  rewrite (rd_param_inner_enc ws p rest H) in R.
  rewrite assert_shape_ok in R by (rewrite <- (wp_shape _ H); exact (wp_batch _ H)).
  cbv iota in R. eapply eq_trans; [exact R|]. f_equal. f_equal. unfold commit, loaded. rewrite <- (wp_shape _ H). f_equal.
  destruct ws; [|reflexivity]. apply dedup_first_nodup; [apply bytes_eqb_spec|exact (wp_nodup _ H)].
Qed.

(* C13 file_roundtrip_parameter *)
Theorem file_roundtrip_parameter ws p p0 rest : wf_param p ->
  load_parameter ws (enc_param_file ws p ++ rest, p0) = (Some tt, (rest, loaded ws p)).
Proof.
  intros H. unfold load_parameter, enc_param_file. rewrite <- app_assoc. unfold bind.
  rewrite load_header_enc by reflexivity. apply load_inner_enc. exact H.
Qed.

(* ------------------------------------------------------------------ Model *)
Lemma path_eqb_spec a : forall b, path_eqb a b = true <-> a = b.
Proof.
  induction a as [|x a IH]; destruct b as [|y b]; cbn [path_eqb]; try (split; discriminate); [tauto|].
  rewrite andb_true_iff, bytes_eqb_spec, IH. split; [intros [-> ->]; reflexivity|intros [= -> ->]; tauto].
Qed.
Lemma path_eqb_refl a : path_eqb a a = true.
Proof. apply path_eqb_spec. reflexivity. Qed.
Lemma lookup_app_notin k (a b : entries) : ~ In k (map fst a) -> lookup k (a ++ b) = lookup k b.
Proof.
  induction a as [|[k' p] a IH]; cbn [lookup app map fst]; [reflexivity|]. intros H.
  destruct (path_eqb k k') eqn:E; [apply path_eqb_spec in E; subst; exfalso; apply H; left; reflexivity|].
  apply IH. intro X. apply H. right. exact X.
Qed.
Lemma update_app_notin k p (a b : entries) : ~ In k (map fst a) -> update k p (a ++ b) = a ++ update k p b.
Proof.
  induction a as [|[k' q] a IH]; cbn [update app map fst]; [reflexivity|]. intros H.
  destruct (path_eqb k k') eqn:E; [apply path_eqb_spec in E; subst; exfalso; apply H; left; reflexivity|].
  f_equal. apply IH. intro X. apply H. right. exact X.
Qed.

Definition wf_path (k : list bytes) : Prop := N.of_nat (length k) < 2 ^ 32 /\ Forall (fun s => len s < 2 ^ 32) k.
Definition wf_entry (kp : list bytes * param) : Prop := wf_path (fst kp) /\ wf_param (snd kp).
Lemma roundtrip_path k : wf_path k -> roundtrip (w_vec w_str) (r_vec r_str) k.
Proof.
  intros [Hn Hl]. apply read_write_vec; [apply splits_r_str|exact Hn|].
  eapply Forall_impl; [|exact Hl]. intros s Hs. apply read_write_str. exact Hs.
Qed.

Lemma load_entries_enc ws : forall (todo done todo0 : entries) rest,
  Forall wf_entry todo -> map fst todo0 = map fst todo -> NoDup (map fst done ++ map fst todo) ->
  load_entries ws (length todo) (flat_map (enc_entry ws) todo ++ rest, done ++ todo0) =
    (Some tt, (rest, done ++ map (fun kp => (fst kp, loaded ws (snd kp))) todo)).
Proof.
  induction todo as [|[k p] todo IH]; intros done todo0 rest Hwf Hk Hnd.
  - destruct todo0; [|discriminate]. reflexivity.
  - destruct todo0 as [|[k0 p0] todo0]; [discriminate|]. cbn [map fst] in Hk. injection Hk as -> Hk.
    inversion Hwf as [|? ? [Hp1 Hp2] Hwf']; subst. cbn [fst snd] in *.
    cbn [length load_entries flat_map]. unfold enc_entry at 1. cbn [fst snd]. rewrite <- !app_assoc.
    rewrite (bind_lift_some (r_vec r_str) _ _ _ k (enc_param_inner ws p ++ flat_map (enc_entry ws) todo ++ rest))
      by (apply roundtrip_path; exact Hp1).
    assert (Hnotin : ~ In k (map fst done)).
    { cbn [map fst] in Hnd. intro X. apply NoDup_remove_2 in Hnd. apply Hnd. apply in_or_app. left. exact X. }
    unfold bind at 1. unfold on_param. cbn [fst snd].
    rewrite lookup_app_notin by exact Hnotin. cbn [lookup]. rewrite path_eqb_refl.
    rewrite load_inner_enc by exact Hp2.
    rewrite update_app_notin by exact Hnotin. cbn [update]. rewrite path_eqb_refl.
    replace (done ++ (k, loaded ws p) :: todo0) with ((done ++ [(k, loaded ws p)]) ++ todo0) by (rewrite <- app_assoc; reflexivity).
    rewrite IH; [rewrite <- app_assoc; reflexivity|exact Hwf'|exact Hk|].
    rewrite map_app. cbn [map fst]. rewrite <- app_assoc. exact Hnd.
Qed.

Lemma enc_entry_nonempty ws kp : wf_entry kp -> (1 <= length (enc_entry ws kp))%nat.
Proof.
  intros [Hp _]. unfold enc_entry. rewrite app_length.
  pose proof (roundtrip_nonempty (w_vec w_str) (r_vec r_str) (fst kp) splits_r_path (roundtrip_path _ Hp)). lia.
Qed.

(* C13 file_roundtrip_model: [entries] is get_all_parameters() of the saved model, [st0] that
   of a model of the same structure (same paths), whatever its parameters hold *)
Theorem file_roundtrip_model ws (es st0 : entries) rest :
  Forall wf_entry es -> NoDup (map fst es) -> N.of_nat (length es) < 2 ^ 32 -> map fst st0 = map fst es ->
  load_model ws (enc_model_file ws es ++ rest, st0) =
    (Some tt, (rest, map (fun kp => (fst kp, loaded ws (snd kp))) es)).
Proof.
  intros Hwf Hnd Hn Hk. unfold load_model, enc_model_file. rewrite <- !app_assoc. unfold bind at 1.
  rewrite load_header_enc by reflexivity.
  rewrite (bind_lift_some r_u32 _ _ _ (N.of_nat (length es)) (flat_map (enc_entry ws) es ++ rest)) by (apply read_write_u32; exact Hn).
  cbn [fst].
  assert (L : (length es <= length (flat_map (enc_entry ws) es))%nat).
  { apply length_flat_map_ge. eapply Forall_impl; [|exact Hwf]. intros kp. apply enc_entry_nonempty. }
  replace (N.to_nat (N.min (N.of_nat (length es)) (len (flat_map (enc_entry ws) es ++ rest) + 1))) with (length es).
  2:{ rewrite len_app. unfold len. lia. }
  apply (load_entries_enc ws es [] st0 rest Hwf Hk). exact Hnd.
Qed.

(* ------------------------------------------------------------------ Optimizer *)
Record wf_optim (o : optim) : Prop := mkWfO {
  wo_kind : o_kind o < 6;
  wo_hp : length (o_hp o) = length (hp_names (o_kind o));
  wo_epoch : o_epoch o < 2 ^ 32;
  wo_words : Forall (fun w => w < 2 ^ 32) (o_lr_scale o :: o_l2 o :: o_clip o :: o_hp o);
  (* the setters reject negative values, so no Optimizer holds one *)
  wo_lr : float_neg (o_lr_scale o) = false;
  wo_l2 : float_neg (o_l2 o) = false;
  wo_clip : float_neg (o_clip o) = false }.

Lemma set_configs_get_configs b o o0 : wf_optim o -> o_kind o0 = o_kind o -> length (o_hp o0) = length (o_hp o) ->
  set_configs (uint_configs o) (float_configs o) (b, o0) = (Some tt, (b, o)).
Proof.
  intros [Hk Hh _ _ Hlr Hl2 Hc] Hk0 Hh0.
  destruct o as [k e lr l2 c hp]. destruct o0 as [k0 e0 lr0 l20 c0 hp0]. cbn [o_kind o_hp o_lr_scale o_l2 o_clip] in *. subst k0.
  unfold set_configs, uint_configs, float_configs. cbn [o_kind o_hp o_lr_scale o_l2 o_clip o_epoch].
  assert (K : k = 0 \/ k = 1 \/ k = 2 \/ k = 3 \/ k = 4 \/ k = 5) by lia.
  destruct K as [-> | [-> | [-> | [-> | [-> | -> ]]]]]; vm_compute in Hh;
    repeat (destruct hp as [|? hp]; try discriminate Hh); cbn [length] in Hh0;
    repeat (destruct hp0 as [|? hp0]; try discriminate Hh0);
    unfold check_nonneg, set_config, bind; cbn [assoc app combine hp_names map];
    repeat match goal with |- context [bytes_eqb ?a ?b] => let v := eval vm_compute in (bytes_eqb a b) in change (bytes_eqb a b) with v end;
    cbn iota; rewrite ?Hlr, ?Hl2, ?Hc; reflexivity.
Qed.

Definition wf_cfg (kv : bytes * N) : Prop := len (fst kv) < 2 ^ 32 /\ snd kv < 2 ^ 32.
Lemma roundtrip_cfg_u32 l rest : N.of_nat (length l) < 2 ^ 32 -> Forall wf_cfg l ->
  r_map r_str r_u32 (w_map w_str w_u32 l ++ rest) = Some (l, rest).
Proof.
  intros Hn Hl. apply read_write_map; [apply splits_r_str|apply splits_suffix, splits_r_u32|exact Hn|].
  eapply Forall_impl; [|exact Hl]. intros kv [A B]. split; [apply read_write_str; exact A|apply read_write_u32; exact B].
Qed.
Lemma roundtrip_cfg_f32 l rest : N.of_nat (length l) < 2 ^ 32 -> Forall wf_cfg l ->
  r_map r_str r_f32 (w_map w_str w_f32 l ++ rest) = Some (l, rest).
Proof.
  intros Hn Hl. apply read_write_map; [apply splits_r_str|apply splits_suffix, splits_r_f32|exact Hn|].
  eapply Forall_impl; [|exact Hl]. intros kv [A B]. split; [apply read_write_str; exact A|apply read_write_f32; exact B].
Qed.

Lemma hp_names_short k : Forall (fun s => len s < 2 ^ 32) (hp_names k) /\ (length (hp_names k) <= 4)%nat.
Proof.
  unfold hp_names.
  destruct (k =? K_SGD); [split; [repeat constructor|cbn; lia]|].
  destruct (k =? K_MOMENTUM); [split; [repeat constructor|cbn; lia]|].
  destruct (k =? K_ADAGRAD); [split; [repeat constructor|cbn; lia]|].
  destruct (k =? K_RMSPROP); [split; [repeat constructor|cbn; lia]|].
  destruct (k =? K_ADADELTA); [split; [repeat constructor|cbn; lia]|].
  destruct (k =? K_ADAM); [split; [repeat constructor|cbn; lia]|].
  split; [constructor|cbn; lia].
Qed.
Lemma wf_cfg_combine names vals : Forall (fun s => len s < 2 ^ 32) names -> Forall (fun w => w < 2 ^ 32) vals ->
  Forall wf_cfg (combine names vals).
Proof.
  intros Hn. revert vals. induction Hn as [|s names Hs Hn IH]; intros vals Hv; [constructor|].
  destruct vals as [|v vals]; [constructor|]. inversion Hv; subst. constructor; [split; assumption|apply IH; assumption].
Qed.

(* C13 file_roundtrip_optimizer: every setting comes back, into an optimizer of the same algorithm *)
Theorem file_roundtrip_optimizer o o0 rest : wf_optim o -> o_kind o0 = o_kind o -> length (o_hp o0) = length (o_hp o) ->
  load_optimizer (enc_opt_file (uint_configs o) (float_configs o) ++ rest, o0) = (Some tt, (rest, o)).
Proof.
  intros H Hk Hh. unfold load_optimizer, enc_opt_file. rewrite <- !app_assoc. unfold bind at 1.
  rewrite load_header_enc by reflexivity.
  pose proof (wo_words _ H) as Hw. inversion Hw as [|? ? W1 Hw1]; subst. inversion Hw1 as [|? ? W2 Hw2]; subst. inversion Hw2 as [|? ? W3 Hw3]; subst.
  destruct (hp_names_short (o_kind o)) as [Hs Hl].
  rewrite (bind_lift_some (r_map r_str r_u32) _ _ _ (uint_configs o) (w_map w_str w_f32 (float_configs o) ++ rest)).
  2:{ apply roundtrip_cfg_u32; [reflexivity|]. constructor; [|constructor]. split; [reflexivity|exact (wo_epoch _ H)]. }
  rewrite (bind_lift_some (r_map r_str r_f32) _ _ _ (float_configs o) rest).
  2:{ apply roundtrip_cfg_f32.
      - unfold float_configs. rewrite app_length, combine_length. cbn [length]. change (2 ^ 32) with 4294967296. lia.
      - unfold float_configs. apply Forall_app. split.
        + repeat constructor; assumption.
        + apply wf_cfg_combine; assumption. }
  apply set_configs_get_configs; assumption.
Qed.
