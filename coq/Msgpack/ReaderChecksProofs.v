(* The hand-written rows of ReaderChecks.v (what the model assumes about Reader::check_eof, read,
   check_type and get_uint8), evaluated over the stream model, ARE the model's primitives:
   read(ptr, n) = Codec.take n, check_type(t) = Codec.check_type t, get_uint8() = Codec.rd8, and
   check_eof() throws exactly on a failed stream. *)
From Coq Require Import List NArith Bool Lia.
From PV Require Import Msgpack.Codec Msgpack.CodecProofs Msgpack.ReaderChecks.
Import ListNotations.
Local Open Scope N_scope.

Lemma check_eof_spec e : src_check_eof model_check_eof e = if is_fail (e_is e) then CThrows else CGo e.
Proof.
  unfold src_check_eof, model_check_eof, kseq. cbn [fold_right cexec ccond_eval].
  destruct (is_fail (e_is e)); [|reflexivity]. destruct (is_eof (e_is e)); reflexivity.
Qed.

Lemma run_check_eof_spec s : run_check_eof model_check_eof s = if is_fail s then OThrows else OVal tt s.
Proof. unfold run_check_eof. rewrite check_eof_spec. cbn [env0 e_is]. destruct (is_fail s); reflexivity. Qed.

Lemma run_read_spec n b : run_read model_check_eof model_read n (fresh b) = of_reader (take n) b.
Proof.
  unfold run_read, model_read, kseq, of_reader. cbn [fold_right cexec e_size e_is e_expected e_observed].
  unfold is_read, fresh. cbn [is_fail is_rest is_eof]. rewrite take_spec.
  destruct (N.leb_spec n (len b)) as [H|H]; destruct (N.ltb_spec (len b) n) as [H'|H']; try lia.
  - rewrite check_eof_spec. reflexivity.
  - rewrite check_eof_spec. reflexivity.
Qed.

Lemma run_get8_spec b : run_get8 model_check_eof (fresh b) = of_reader rd8 b.
Proof.
  unfold run_get8, src_get8, of_reader, rd8, is_get, env0, fresh. cbn [e_is is_fail is_rest is_eof].
  destruct b as [|x r]; rewrite check_eof_spec; reflexivity.
Qed.

Lemma run_check_type_spec t b : run_check_type model_check_eof model_check_type t (fresh b) = of_reader (check_type t) b.
Proof.
  unfold run_check_type, model_check_type, kseq, of_reader, check_type, rbind, rd8, rguard.
  cbn [fold_right cexec]. unfold src_get8, is_get, fresh. cbn [e_is is_fail is_rest is_eof].
  destruct b as [|x r]; rewrite check_eof_spec; cbn [with_is e_is is_fail]; [reflexivity|].
  cbn [cexec ccond_eval e_observed e_expected e_is e_size e_buf with_is].
  destruct (x =? t); reflexivity.
Qed.

(* a stream on which an earlier operation failed: every one of the functions throws (nothing is
   delivered from a failed stream) *)
Lemma failed_stream_throws r ef n t : let s := mkIs r true ef in
  run_read model_check_eof model_read n s = OThrows /\ run_get8 model_check_eof s = OThrows /\
  run_check_type model_check_eof model_check_type t s = OThrows.
Proof.
  cbn zeta. split; [|split].
  - unfold run_read, model_read, kseq. cbn [fold_right cexec]. unfold is_read. cbn [e_is is_fail e_size].
    rewrite check_eof_spec. reflexivity.
  - unfold run_get8, src_get8, is_get, env0. cbn [e_is is_fail]. rewrite check_eof_spec. reflexivity.
  - unfold run_check_type, model_check_type, kseq. cbn [fold_right cexec]. unfold src_get8, is_get. cbn [e_is is_fail].
    rewrite check_eof_spec. reflexivity.
Qed.
