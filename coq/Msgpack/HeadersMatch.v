(* (T) tie of the length / number headers: the rows the translator reads out of the CURRENT
   msgpack/writer.h and msgpack/reader.h (Gen/IoHeaders.v, regenerated on every run) are the rows
   of the model, hence (HeaderRowsProofs / ReaderRowsProofs) the byte expressions of the source,
   evaluated with the meaning of `>>`, `&`, `|` and the cast to char, give the header of the
   model's writer for EVERY size and value, and the Reader's reassembly gives the model's value
   on every byte stream.  A changed shift, mask, guard, type byte, buffer size, write count or an
   unreadable construct makes [writer_rows_match] / [reader_rows_match] fail. *)
From Coq Require Import List NArith ZArith Bool.
From PV Require Import Msgpack.Codec Msgpack.HeaderRows Msgpack.ReaderRows Msgpack.HeaderRowsProofs Msgpack.ReaderRowsProofs
  Gen.IoHeaders.
Import ListNotations.
Local Open Scope N_scope.

Lemma writer_rows_match : WRITER_ROWS = model_rows.
Proof. reflexivity. Qed.
Lemma writer_rest_match :
  WRITER_PAYS = model_pays /\ WRITER_STR_ENTRY = [PStrDelegate; PStrDelegate] /\ WRITER_UNKNOWN = 0 /\ WRITER_UC_IS_CHAR_CAST = true.
Proof. split; [reflexivity|split; [reflexivity|split; reflexivity]]. Qed.
Lemma reader_gets_match : READER_GETS = model_gets /\ READER_ULL_IS_U64_CAST = true.
Proof. split; reflexivity. Qed.
Lemma reader_rows_match : READER_ROWS = model_rrows /\ READER_UNKNOWN = 0.
Proof. split; reflexivity. Qed.

Theorem writer_headers_match k v ty : v < dom k -> interp WRITER_ROWS k v (twos 1 ty) = w_model k v ty.
Proof. rewrite writer_rows_match. apply interp_model_rows. Qed.

Theorem reader_headers_match k t b : t < 256 -> is_bytes b ->
  rinterp READER_GETS READER_ROWS k t b = r_model k t b.
Proof.
  destruct reader_gets_match as [-> _]. destruct reader_rows_match as [-> _]. apply rinterp_model_rows.
Qed.

(* what the source's expressions give for a size, followed by the payload, is the model's encoding *)
Lemma small_in_dom n : n < 2 ^ 32 -> n < P64.
Proof. intros H. eapply N.lt_trans; [exact H|]. vm_compute. reflexivity. Qed.
Theorem source_header_then_payload :
  (forall s, len s < 2 ^ 32 -> interp WRITER_ROWS HkStr (len s) 0 = OWrite (str_hdr (len s)) /\ w_str s = str_hdr (len s) ++ s) /\
  (forall s, len s < 2 ^ 32 -> interp WRITER_ROWS HkBin (len s) 0 = OWrite (bin_hdr (len s)) /\ w_bin s = bin_hdr (len s) ++ s) /\
  (forall ty s, len s < 2 ^ 32 ->
     interp WRITER_ROWS HkExt (len s) (twos 1 ty) = OWrite (ext_hdr ty (len s)) /\ w_ext (ty, s) = ext_hdr ty (len s) ++ s) /\
  (forall A (we : A -> bytes) l, N.of_nat (length l) < 2 ^ 32 ->
     interp WRITER_ROWS HkArr (N.of_nat (length l)) 0 = OWrite (arr_hdr (N.of_nat (length l))) /\
     w_vec we l = arr_hdr (N.of_nat (length l)) ++ flat_map we l) /\
  (forall K V (wk : K -> bytes) (wv : V -> bytes) l, N.of_nat (length l) < 2 ^ 32 ->
     interp WRITER_ROWS HkMap (N.of_nat (length l)) 0 = OWrite (map_hdr (N.of_nat (length l))) /\
     w_map wk wv l = map_hdr (N.of_nat (length l)) ++ flat_map (fun kv => wk (fst kv) ++ wv (snd kv)) l).
Proof.
  split; [|split; [|split; [|split]]].
  - intros s H. split; [|reflexivity]. pose proof (writer_headers_match HkStr (len s) 0%Z (small_in_dom _ H)) as E. change (twos 1 0%Z) with 0 in E. rewrite E.
    cbn [w_model]. apply N.ltb_lt in H. change LIM_32 with (2 ^ 32). rewrite H. reflexivity.
  - intros s H. split; [|reflexivity]. pose proof (writer_headers_match HkBin (len s) 0%Z (small_in_dom _ H)) as E. change (twos 1 0%Z) with 0 in E. rewrite E.
    cbn [w_model]. apply N.ltb_lt in H. change LIM_32 with (2 ^ 32). rewrite H. reflexivity.
  - intros ty s H. split; [|reflexivity]. rewrite (writer_headers_match HkExt (len s) ty (small_in_dom _ H)).
    cbn [w_model]. apply N.ltb_lt in H. change LIM_32 with (2 ^ 32). rewrite H. reflexivity.
  - intros A we l H. split; [|reflexivity]. apply (writer_headers_match HkArr _ 0%Z (small_in_dom _ H)).
  - intros K V wk wv l H. split; [|reflexivity]. apply (writer_headers_match HkMap _ 0%Z (small_in_dom _ H)).
Qed.
