(* The hand-written reader rows of ReaderRows.v mean exactly what the model's Reader does between
   the type byte and the payload, on every stream of bytes:
     rinterp model_gets model_rrows k t b = r_model k t b,
   and r_model is the corresponding part of Codec.r_<kind>.  Independent of the generated file. *)
From Coq Require Import List NArith ZArith Lia Bool ZifyN ZifyBool.
From PV Require Import Msgpack.Codec Msgpack.HeaderRows Msgpack.ReaderRows Msgpack.HeaderRowsProofs.
Import ListNotations.
Local Open Scope N_scope.

Local Arguments N.add : simpl never.
Local Arguments N.sub : simpl never.
Local Arguments N.mul : simpl never.
Local Arguments N.pow : simpl never.
Local Arguments N.shiftl : simpl never.
Local Arguments N.lor : simpl never.
Local Arguments N.land : simpl never.

(* ---- (c[0] << 8(k-1)) | ... | c[k-1] is the big-endian value ---- *)
Lemma land_hi_lo a b k : b < 2 ^ k -> N.land (a * 2 ^ k) b = 0.
Proof.
  intros Hb. apply N.bits_inj. intros n. rewrite N.land_spec, N.bits_0.
  destruct (N.lt_ge_cases n k) as [Hn|Hn].
  - rewrite N.mul_pow2_bits_low by exact Hn. reflexivity.
  - replace b with (b mod 2 ^ k) by (apply N.mod_small; exact Hb).
    rewrite (N.mod_pow2_bits_high b k n Hn). apply andb_false_r.
Qed.
Lemma lor_hi_lo a b k : b < 2 ^ k -> N.lor (a * 2 ^ k) b = a * 2 ^ k + b.
Proof.
  intros Hb. pose proof (land_hi_lo a b k Hb) as H.
  rewrite <- (N.lxor_lor _ _ H). symmetry. apply N.add_nocarry_lxor. exact H.
Qed.
Lemma lor_step a x s s' : s' = s + 8 -> x < 256 -> N.lor (a * 2 ^ s') (x * 2 ^ s) = (a * 256 + x) * 2 ^ s.
Proof.
  intros -> Hx. rewrite N.pow_add_r. change (2 ^ 8) with 256.
  replace (a * (2 ^ s * 256)) with ((a * 256) * 2 ^ s) by lia.
  rewrite <- !N.shiftl_mul_pow2, <- N.shiftl_lor. f_equal.
  change 256 with (2 ^ 8). apply lor_hi_lo. exact Hx.
Qed.

Definition is_bytes (b : bytes) : Prop := Forall (fun x => x < 256) b.

Ltac inv_bytes H :=
  repeat match type of H with
         | is_bytes (_ :: _) => let Hx := fresh "Hx" in let H' := fresh "Hb" in
                                apply Forall_cons_iff in H; destruct H as [Hx H']; rename H' into H
         | Forall _ (_ :: _) => let Hx := fresh "Hx" in let H' := fresh "Hb" in
                                apply Forall_cons_iff in H; destruct H as [Hx H']; rename H' into H
         end.
Lemma take0 b : take 0 b = Some ([], b).
Proof. destruct b; reflexivity. Qed.
Lemma takeS n x r : take (N.succ n) (x :: r) = match take n r with Some (d, r') => Some (x :: d, r') | None => None end.
Proof.
  cbn [take]. destruct (N.eqb_spec (N.succ n) 0) as [E|E]; [lia|]. rewrite N.pred_succ. reflexivity.
Qed.
Ltac take_all := unfold rmap; rewrite !takeS, take0.

Lemma get1 b : is_bytes b -> rmap (eval_get (model_get 1)) (take 1) b = rdbe 1 b.
Proof.
  intros H. destruct b as [|x0 r]; [reflexivity|]. inv_bytes H.
  change (take 1) with (take (N.succ 0)). take_all.
  change (rdbe 1 (x0 :: r)) with (Some (0 * 256 + x0, r)). f_equal. f_equal.
  unfold eval_get, model_get. cbn [g_terms be_terms map fold_left fst snd].
  change (nth (N.to_nat 0) [x0] 0) with x0. change (8 * N.of_nat 0) with 0.
  rewrite N.shiftl_0_r, N.lor_0_l. lia.
Qed.
Lemma get2 b : is_bytes b -> rmap (eval_get (model_get 2)) (take 2) b = rdbe 2 b.
Proof.
  intros H. destruct b as [|x0 [|x1 r]]; [reflexivity|reflexivity|]. inv_bytes H.
  change (take 2) with (take (N.succ (N.succ 0))). take_all.
  change (rdbe 2 (x0 :: x1 :: r)) with (Some ((0 * 256 + x0) * 256 + x1, r)). f_equal. f_equal.
  unfold eval_get, model_get. cbn [g_terms be_terms map fold_left fst snd].
  change (nth (N.to_nat 0) [x0; x1] 0) with x0. change (nth (N.to_nat (0 + 1)) [x0; x1] 0) with x1.
  change (8 * N.of_nat 1) with 8. change (8 * N.of_nat 0) with 0.
  rewrite !N.shiftl_mul_pow2, N.lor_0_l.
  repeat (erewrite lor_step; [|reflexivity|assumption]).
  rewrite N.pow_0_r, N.mul_1_r. lia.
Qed.
Lemma get4 b : is_bytes b -> rmap (eval_get (model_get 4)) (take 4) b = rdbe 4 b.
Proof.
  intros H. destruct b as [|x0 [|x1 [|x2 [|x3 r]]]]; [reflexivity|reflexivity|reflexivity|reflexivity|]. inv_bytes H.
  change (take 4) with (take (N.succ (N.succ (N.succ (N.succ 0))))). take_all.
  change (rdbe 4 (x0 :: x1 :: x2 :: x3 :: r)) with (Some ((((0 * 256 + x0) * 256 + x1) * 256 + x2) * 256 + x3, r)). f_equal. f_equal.
  unfold eval_get, model_get. cbn [g_terms be_terms map fold_left fst snd].
  change (nth (N.to_nat 0) [x0; x1; x2; x3] 0) with x0. change (nth (N.to_nat (0 + 1)) [x0; x1; x2; x3] 0) with x1.
  change (nth (N.to_nat (0 + 1 + 1)) [x0; x1; x2; x3] 0) with x2. change (nth (N.to_nat (0 + 1 + 1 + 1)) [x0; x1; x2; x3] 0) with x3.
  change (8 * N.of_nat 3) with 24. change (8 * N.of_nat 2) with 16. change (8 * N.of_nat 1) with 8. change (8 * N.of_nat 0) with 0.
  rewrite !N.shiftl_mul_pow2, N.lor_0_l.
  repeat (erewrite lor_step; [|reflexivity|assumption]).
  rewrite N.pow_0_r, N.mul_1_r. lia.
Qed.
Lemma get8 b : is_bytes b -> rmap (eval_get (model_get 8)) (take 8) b = rdbe 8 b.
Proof.
  intros H. destruct b as [|x0 [|x1 [|x2 [|x3 [|x4 [|x5 [|x6 [|x7 r]]]]]]]]; try reflexivity. inv_bytes H.
  change (take 8) with (take (N.succ (N.succ (N.succ (N.succ (N.succ (N.succ (N.succ (N.succ 0))))))))). take_all.
  change (rdbe 8 (x0 :: x1 :: x2 :: x3 :: x4 :: x5 :: x6 :: x7 :: r))
    with (Some ((((((((0 * 256 + x0) * 256 + x1) * 256 + x2) * 256 + x3) * 256 + x4) * 256 + x5) * 256 + x6) * 256 + x7, r)).
  f_equal. f_equal.
  unfold eval_get, model_get. cbn [g_terms be_terms map fold_left fst snd].
  set (c := [x0; x1; x2; x3; x4; x5; x6; x7]).
  change (nth (N.to_nat 0) c 0) with x0. change (nth (N.to_nat (0 + 1)) c 0) with x1.
  change (nth (N.to_nat (0 + 1 + 1)) c 0) with x2. change (nth (N.to_nat (0 + 1 + 1 + 1)) c 0) with x3.
  change (nth (N.to_nat (0 + 1 + 1 + 1 + 1)) c 0) with x4. change (nth (N.to_nat (0 + 1 + 1 + 1 + 1 + 1)) c 0) with x5.
  change (nth (N.to_nat (0 + 1 + 1 + 1 + 1 + 1 + 1)) c 0) with x6. change (nth (N.to_nat (0 + 1 + 1 + 1 + 1 + 1 + 1 + 1)) c 0) with x7.
  change (8 * N.of_nat 7) with 56. change (8 * N.of_nat 6) with 48. change (8 * N.of_nat 5) with 40. change (8 * N.of_nat 4) with 32.
  change (8 * N.of_nat 3) with 24. change (8 * N.of_nat 2) with 16. change (8 * N.of_nat 1) with 8. change (8 * N.of_nat 0) with 0.
  rewrite !N.shiftl_mul_pow2, N.lor_0_l.
  repeat (erewrite lor_step; [|reflexivity|assumption]).
  rewrite N.pow_0_r, N.mul_1_r. lia.
Qed.

Lemma rsize_get8 t : eval_rsize model_gets (RGet 8) t = rmap (eval_get (model_get 1)) (take 1).  Proof. reflexivity. Qed.
Lemma rsize_get16 t : eval_rsize model_gets (RGet 16) t = rmap (eval_get (model_get 2)) (take 2).  Proof. reflexivity. Qed.
Lemma rsize_get32 t : eval_rsize model_gets (RGet 32) t = rmap (eval_get (model_get 4)) (take 4).  Proof. reflexivity. Qed.
Lemma rsize_get64 t : eval_rsize model_gets (RGet 64) t = rmap (eval_get (model_get 8)) (take 8).  Proof. reflexivity. Qed.

(* ---- `(type & m) == val` is the range test of the model, `type & m'` the offset in it ---- *)
Definition mask_law (m val m' lo n t : N) : bool :=
  Bool.eqb (N.land t m =? val) ((lo <=? t) && (t <? lo + n)) &&
  (if N.land t m =? val then N.land t m' =? t - lo else true).
Lemma mask_str t : t < 256 -> mask_law (256 - LIM_FIXSTR) T_FIXSTR (LIM_FIXSTR - 1) T_FIXSTR 32 t = true.
Proof. intros H. apply (below_spec 256 (mask_law (256 - LIM_FIXSTR) T_FIXSTR (LIM_FIXSTR - 1) T_FIXSTR 32)); [vm_compute; reflexivity|exact H]. Qed.
Lemma mask_arr t : t < 256 -> mask_law (256 - LIM_FIXCONT) T_FIXARR (LIM_FIXCONT - 1) T_FIXARR 16 t = true.
Proof. intros H. apply (below_spec 256 (mask_law (256 - LIM_FIXCONT) T_FIXARR (LIM_FIXCONT - 1) T_FIXARR 16)); [vm_compute; reflexivity|exact H]. Qed.
Lemma mask_map t : t < 256 -> mask_law (256 - LIM_FIXCONT) T_FIXMAP (LIM_FIXCONT - 1) T_FIXMAP 16 t = true.
Proof. intros H. apply (below_spec 256 (mask_law (256 - LIM_FIXCONT) T_FIXMAP (LIM_FIXCONT - 1) T_FIXMAP 16)); [vm_compute; reflexivity|exact H]. Qed.
(* bool: (type & 0xfe) == 0xc2, x = type & 0x01 *)
Definition bool_law (t : N) : bool :=
  Bool.eqb (N.land t 254 =? T_FALSE) ((t =? T_FALSE) || (t =? T_TRUE)) &&
  (if t =? T_FALSE then N.land t 1 =? 0 else true) && (if t =? T_TRUE then N.land t 1 =? 1 else true).
Lemma mask_bool t : t < 256 -> bool_law t = true.
Proof. intros H. apply (below_spec 256 bool_law); [vm_compute; reflexivity|exact H]. Qed.

Lemma filter_model_rrows k : filter (rof_kind k) model_rrows = rrows_of k.
Proof. destruct k; vm_compute; reflexivity. Qed.

Lemma scalar_ok k T bits n t b :
  eval_rsize model_gets (RGet bits) t = rmap (eval_get (model_get n)) (take (N.of_nat n)) ->
  (rmap (eval_get (model_get n)) (take (N.of_nat n)) b = rdbe n b) ->
  rinterp1 model_gets (scalar_rrow k T bits) t b = rbind (rguard (t =? T)) (fun _ => rdbe n) b.
Proof.
  intros E G. unfold scalar_rrow. cbn [rinterp1 test_ok r_test r_size]. rewrite E.
  destruct (t =? T); [|reflexivity]. exact G.
Qed.

Theorem rinterp_model_rows k t b : t < 256 -> is_bytes b ->
  rinterp model_gets model_rrows k t b = r_model k t b.
Proof.
  intros Ht Hb. unfold rinterp. rewrite filter_model_rrows.
  destruct k; cbn [rrows_of r_model].
  - (* nil *) cbn [rinterp1 test_ok r_test r_size eval_rsize]. destruct (t =? T_NIL); reflexivity.
  - (* bool *)
    cbn [rinterp1 test_ok r_test r_size eval_rsize]. pose proof (mask_bool t Ht) as L. unfold bool_law in L.
    destruct (N.eqb_spec t T_FALSE) as [E1|E1]; destruct (N.eqb_spec t T_TRUE) as [E2|E2];
      destruct (N.land t 254 =? T_FALSE); cbn [orb andb Bool.eqb] in L; try discriminate L.
    + subst t. discriminate E2.
    + apply andb_true_iff in L. destruct L as [L _]. apply N.eqb_eq in L. unfold rret. rewrite L. reflexivity.
    + apply N.eqb_eq in L. unfold rret. rewrite L. reflexivity.
    + reflexivity.
  - apply (scalar_ok HkU8 T_U8 8 1); [apply rsize_get8|apply get1; exact Hb].
  - apply (scalar_ok HkU16 T_U16 16 2); [apply rsize_get16|apply get2; exact Hb].
  - apply (scalar_ok HkU32 T_U32 32 4); [apply rsize_get32|apply get4; exact Hb].
  - apply (scalar_ok HkU64 T_U64 64 8); [apply rsize_get64|apply get8; exact Hb].
  - apply (scalar_ok HkI8 T_I8 8 1); [apply rsize_get8|apply get1; exact Hb].
  - apply (scalar_ok HkI16 T_I16 16 2); [apply rsize_get16|apply get2; exact Hb].
  - apply (scalar_ok HkI32 T_I32 32 4); [apply rsize_get32|apply get4; exact Hb].
  - apply (scalar_ok HkI64 T_I64 64 8); [apply rsize_get64|apply get8; exact Hb].
  - apply (scalar_ok HkF32 T_F32 32 4); [apply rsize_get32|apply get4; exact Hb].
  - apply (scalar_ok HkF64 T_F64 64 8); [apply rsize_get64|apply get8; exact Hb].
  - (* str *)
    cbn [rinterp1 test_ok r_test r_size]. rewrite rsize_get8, rsize_get16, rsize_get32. cbn [eval_rsize].
    pose proof (mask_str t Ht) as L. unfold mask_law in L. apply andb_true_iff in L. destruct L as [L1 L2].
    apply eqb_prop in L1. rewrite <- L1.
    destruct (N.land t (256 - LIM_FIXSTR) =? T_FIXSTR).
    + apply N.eqb_eq in L2. unfold rret. rewrite L2. reflexivity.
    + destruct (t =? T_STR8); [apply get1; exact Hb|]. destruct (t =? T_STR16); [apply get2; exact Hb|].
      destruct (t =? T_STR32); [apply get4; exact Hb|reflexivity].
  - (* bin *)
    cbn [rinterp1 test_ok r_test r_size]. rewrite rsize_get8, rsize_get16, rsize_get32.
    destruct (t =? T_BIN8); [apply get1; exact Hb|]. destruct (t =? T_BIN16); [apply get2; exact Hb|].
    destruct (t =? T_BIN32); [apply get4; exact Hb|reflexivity].
  - (* ext *)
    cbn [rinterp1 test_ok r_test r_size]. rewrite rsize_get8, rsize_get16, rsize_get32. cbn [eval_rsize].
    destruct (t =? T_FIXEXT1); [reflexivity|]. destruct (t =? T_FIXEXT2); [reflexivity|].
    destruct (t =? T_FIXEXT4); [reflexivity|]. destruct (t =? T_FIXEXT8); [reflexivity|].
    destruct (t =? T_FIXEXT16); [reflexivity|].
    destruct (t =? T_EXT8); [apply get1; exact Hb|]. destruct (t =? T_EXT16); [apply get2; exact Hb|].
    destruct (t =? T_EXT32); [apply get4; exact Hb|reflexivity].
  - (* array *)
    cbn [rinterp1 test_ok r_test r_size]. rewrite rsize_get16, rsize_get32. cbn [eval_rsize].
    pose proof (mask_arr t Ht) as L. unfold mask_law in L. apply andb_true_iff in L. destruct L as [L1 L2].
    apply eqb_prop in L1. rewrite <- L1.
    destruct (N.land t (256 - LIM_FIXCONT) =? T_FIXARR).
    + apply N.eqb_eq in L2. unfold rret. rewrite L2. reflexivity.
    + destruct (t =? T_ARR16); [apply get2; exact Hb|]. destruct (t =? T_ARR32); [apply get4; exact Hb|reflexivity].
  - (* map *)
    cbn [rinterp1 test_ok r_test r_size]. rewrite rsize_get16, rsize_get32. cbn [eval_rsize].
    pose proof (mask_map t Ht) as L. unfold mask_law in L. apply andb_true_iff in L. destruct L as [L1 L2].
    apply eqb_prop in L1. rewrite <- L1.
    destruct (N.land t (256 - LIM_FIXCONT) =? T_FIXMAP).
    + apply N.eqb_eq in L2. unfold rret. rewrite L2. reflexivity.
    + destruct (t =? T_MAP16); [apply get2; exact Hb|]. destruct (t =? T_MAP32); [apply get4; exact Hb|reflexivity].
Qed.

(* ---- r_model is the part of the model's Reader between the type byte and the payload ---- *)
Lemma check_type_bind {A} T (m : reader A) b :
  rbind (check_type T) (fun _ => m) b = rbind rd8 (fun t => rbind (rguard (t =? T)) (fun _ => m)) b.
Proof. unfold check_type, rbind, rd8. destruct b as [|x r]; [reflexivity|]. destruct (x =? T); reflexivity. Qed.
Lemma r_nil_model b : rmap (fun _ => 0) r_nil b = rbind rd8 (r_model HkNil) b.
Proof. unfold r_nil, check_type, rmap, rbind, rd8, r_model. destruct b as [|x r]; [reflexivity|]. destruct (x =? T_NIL); reflexivity. Qed.
Lemma r_bool_model b : rmap (fun x : bool => if x then 1 else 0) r_bool b = rbind rd8 (r_model HkBool) b.
Proof.
  unfold r_bool, rmap, rbind, rd8, r_model. destruct b as [|x r]; [reflexivity|].
  destruct (x =? T_FALSE); [reflexivity|]. destruct (x =? T_TRUE); reflexivity.
Qed.
Lemma r_u8_model b : r_u8 b = rbind rd8 (r_model HkU8) b.  Proof. apply check_type_bind. Qed.
Lemma r_u16_model b : r_u16 b = rbind rd8 (r_model HkU16) b.  Proof. apply check_type_bind. Qed.
Lemma r_u32_model b : r_u32 b = rbind rd8 (r_model HkU32) b.  Proof. apply check_type_bind. Qed.
Lemma r_u64_model b : r_u64 b = rbind rd8 (r_model HkU64) b.  Proof. apply check_type_bind. Qed.
Lemma r_i8_model b : r_i8 b = rbind rd8 (fun t => rmap (untwos 1) (r_model HkI8 t)) b.
Proof. unfold r_i8. rewrite check_type_bind. unfold rbind, rmap, rd8, r_model, rguard, rret, rfail. destruct b as [|x r]; [reflexivity|]. destruct (x =? T_I8); reflexivity. Qed.
Lemma r_i16_model b : r_i16 b = rbind rd8 (fun t => rmap (untwos 2) (r_model HkI16 t)) b.
Proof. unfold r_i16. rewrite check_type_bind. unfold rbind, rmap, rd8, r_model, rguard, rret, rfail. destruct b as [|x r]; [reflexivity|]. destruct (x =? T_I16); reflexivity. Qed.
Lemma r_i32_model b : r_i32 b = rbind rd8 (fun t => rmap (untwos 4) (r_model HkI32 t)) b.
Proof. unfold r_i32. rewrite check_type_bind. unfold rbind, rmap, rd8, r_model, rguard, rret, rfail. destruct b as [|x r]; [reflexivity|]. destruct (x =? T_I32); reflexivity. Qed.
Lemma r_i64_model b : r_i64 b = rbind rd8 (fun t => rmap (untwos 8) (r_model HkI64 t)) b.
Proof. unfold r_i64. rewrite check_type_bind. unfold rbind, rmap, rd8, r_model, rguard, rret, rfail. destruct b as [|x r]; [reflexivity|]. destruct (x =? T_I64); reflexivity. Qed.
Lemma r_f32_model b : r_f32 b = rbind rd8 (r_model HkF32) b.  Proof. apply check_type_bind. Qed.
Lemma r_f64_model b : r_f64 b = rbind rd8 (r_model HkF64) b.  Proof. apply check_type_bind. Qed.
Lemma r_str_model : r_str = rbind rd8 (fun t => rbind (r_model HkStr t) take).  Proof. reflexivity. Qed.
Lemma r_bin_model : r_bin = rbind rd8 (fun t => rbind (r_model HkBin t) take).  Proof. reflexivity. Qed.
Lemma r_ext_model : r_ext = rbind rd8 (fun t => rbind (r_model HkExt t)
  (fun size => rbind rd8 (fun ty => rbind (take size) (fun d => rret (untwos 1 ty, d))))).
Proof. reflexivity. Qed.
Lemma r_vec_model {A} (rd : reader A) : r_vec rd = rbind rd8 (fun t => rbind (r_model HkArr t) (rd_n rd)).  Proof. reflexivity. Qed.
Lemma r_map_model {K V} (rk : reader K) (rv : reader V) :
  r_map rk rv = rbind rd8 (fun t => rbind (r_model HkMap t) (rd_n (r_pair rk rv))).
Proof. reflexivity. Qed.
