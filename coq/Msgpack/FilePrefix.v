(* load() never looks beyond what it consumes (extension), hence every proper prefix of a valid
   Parameter / Model / Optimizer file is rejected; and what an accepted file must contain. *)
From Coq Require Import List NArith ZArith Lia Bool.
From PV Require Import Base.U32 Base.Err Shape.ShapeImpl Shape.ShapeSpec Shape.ShapeProofs
  Msgpack.Codec Msgpack.FileFormat Msgpack.CodecProofs Msgpack.FileProofs Msgpack.LoadAtomic Msgpack.FileRoundtrip.
Import ListNotations.
Local Open Scope N_scope.

Local Arguments N.add : simpl never.
Local Arguments N.sub : simpl never.
Local Arguments N.mul : simpl never.
Local Arguments N.ltb : simpl never.
Local Arguments N.leb : simpl never.
Local Arguments N.eqb : simpl never.
Local Arguments N.of_nat : simpl never.
Local Arguments N.to_nat : simpl never.
Local Arguments N.min : simpl never.
Local Arguments N.pow : simpl never.

(* ------------------------------------------------------------------ extension of monadic loads *)
Definition ext_load {O A} (m : M (bytes * O) A) : Prop :=
  forall (b : bytes) o a (r : bytes) o' (s : bytes),
    m (b, o) = (Some a, (r, o')) -> m ((b ++ s : bytes), o) = (Some a, ((r ++ s : bytes), o')).
(* steps that do not touch the stream *)
Definition obj_only {O A} (m : M (bytes * O) A) : Prop :=
  forall o, exists res o', forall b, m (b, o) = (res, (b, o')).

Lemma obj_only_ext {O A} (m : M (bytes * O) A) : obj_only m -> ext_load m.
Proof.
  intros H b o a r o' s E. destruct (H o) as [res [o2 F]]. rewrite F in E. injection E as -> <- <-. apply F.
Qed.
Lemma obj_only_ret {O A} (a : A) : obj_only (@ret (bytes * O) A a).
Proof. intros o. exists (Some a), o. reflexivity. Qed.
Lemma obj_only_throw {O A} : obj_only (@throw (bytes * O) A).
Proof. intros o. exists None, o. reflexivity. Qed.
Lemma obj_only_guard {O} c : obj_only (@guard (bytes * O) c).
Proof. destruct c; [apply obj_only_ret|apply obj_only_throw]. Qed.
Lemma obj_only_modify {O} (f : O -> O) : obj_only (modify_obj f).
Proof. intros o. exists (Some tt), (f o). reflexivity. Qed.
Lemma obj_only_bind {O A B} (m : M (bytes * O) A) (k : A -> M (bytes * O) B) :
  obj_only m -> (forall a, obj_only (k a)) -> obj_only (bind m k).
Proof.
  intros Hm Hk o. destruct (Hm o) as [res [o1 F]]. destruct res as [a|].
  - destruct (Hk a o1) as [res2 [o2 G]]. exists res2, o2. intro b. unfold bind. rewrite F. apply G.
  - exists None, o1. intro b. unfold bind. rewrite F. reflexivity.
Qed.
Lemma ext_load_lift {O A} (rd : reader A) : ext_ok rd -> ext_load (@lift_rd O A rd).
Proof.
  intros H b o a r o' s E. unfold lift_rd in *. cbn [fst snd] in *.
  destruct (rd b) as [[a' r']|] eqn:F; [|discriminate]. injection E as <- <- <-. rewrite (H _ _ _ s F). reflexivity.
Qed.
Lemma ext_load_bind {O A B} (m : M (bytes * O) A) (k : A -> M (bytes * O) B) :
  ext_load m -> (forall a, ext_load (k a)) -> ext_load (bind m k).
Proof.
  intros Hm Hk b o a r o' s E. unfold bind in *. destruct (m (b, o)) as [[x|] [b1 o1]] eqn:F; [|discriminate].
  rewrite (Hm _ _ _ _ _ s F). apply Hk. exact E.
Qed.

Lemma ext_load_header {O} dt : ext_load (@load_header O dt).
Proof.
  unfold load_header. apply ext_load_bind; [apply ext_load_lift, ext_r_u32|]. intro ma.
  apply ext_load_bind; [apply ext_load_lift, ext_r_u32|]. intro mi.
  apply ext_load_bind; [apply obj_only_ext, obj_only_guard|]. intro u.
  apply ext_load_bind; [apply ext_load_lift, ext_r_u32|]. intro d. apply obj_only_ext, obj_only_guard.
Qed.
Lemma ext_load_inner ws : ext_load (load_inner ws).
Proof.
  unfold load_inner. apply ext_load_bind; [apply ext_load_lift, ext_rd_tensor|]. intro v.
  apply ext_load_bind; [apply ext_load_lift, ext_r_u32|]. intro n.
  apply ext_load_bind; [apply ext_load_lift, ext_rd_n, ext_rd_stat|]. intro kvs.
  apply obj_only_ext. apply obj_only_bind; [apply obj_only_guard|]. intro u.
  repeat (apply obj_only_bind; [apply obj_only_modify|]; intro). apply obj_only_modify.
Qed.
Lemma ext_load_parameter ws : ext_load (load_parameter ws).
Proof. unfold load_parameter. apply ext_load_bind; [apply ext_load_header|]. intro u. apply ext_load_inner. Qed.

Lemma ext_on_param key (m : M (bytes * param) unit) : ext_load m -> ext_load (on_param key m).
Proof.
  intros H b es a r es' s E. unfold on_param in *. cbn [fst snd] in *.
  destruct (lookup key es) as [p|]; [|discriminate].
  destruct (m (b, p)) as [res [b1 p1]] eqn:F. injection E as -> <- <-. rewrite (H _ _ _ _ _ s F). reflexivity.
Qed.
Lemma ext_load_entries ws n : ext_load (load_entries ws n).
Proof.
  induction n as [|n IH]; cbn [load_entries]; [apply obj_only_ext, obj_only_ret|].
  apply ext_load_bind; [apply ext_load_lift, ext_r_vec, ext_r_str|]. intro key.
  apply ext_load_bind; [apply ext_on_param, ext_load_inner|]. intro u. exact IH.
Qed.

(* every iteration of Model::load's loop consumes input *)
Lemma load_entries_consumes ws : forall n b es r es',
  load_entries ws n (b, es) = (Some tt, (r, es')) -> (n + length r <= length b)%nat.
Proof.
  induction n as [|n IH]; intros b es r es' H; cbn [load_entries] in H.
  - injection H as <- <-. lia.
  - unfold bind at 1 in H. destruct (r_vec r_str b) as [[key b1]|] eqn:E1.
    2:{ rewrite (lift_rd_none _ _ _ E1) in H. discriminate. }
    rewrite (lift_rd_some _ _ _ _ _ E1) in H. pose proof (splits_length _ _ _ _ splits_r_path E1) as L1.
    unfold bind at 1 in H. unfold on_param in H. cbn [fst snd] in H.
    destruct (lookup key es) as [p|]; [|discriminate].
    destruct (load_inner ws (b1, p)) as [res [b2 p']] eqn:Ei. destruct res as [[]|]; [|discriminate].
    pose proof (load_inner_atomic ws b1 p (Some tt) b2 p' Ei) as [v [kvs [A _]]].
    pose proof (splits_length _ _ _ _ splits_rd_param_inner A) as L2.
    pose proof (IH _ _ _ _ H). lia.
Qed.

Lemma ext_load_model ws : ext_load (load_model ws).
Proof.
  unfold load_model. apply ext_load_bind; [apply ext_load_header|]. intro u.
  apply ext_load_bind; [apply ext_load_lift, ext_r_u32|]. intro n.
  intros b es a r es' s E. cbn [fst] in *. destruct a.
  pose proof (load_entries_consumes ws _ _ _ _ _ E) as L.
  assert (C : N.to_nat (N.min n (len b + 1)) = N.to_nat n) by (unfold len in *; lia).
  assert (C' : N.to_nat (N.min n (len (b ++ s) + 1)) = N.to_nat n) by (rewrite len_app; unfold len in *; lia).
  rewrite C in E. rewrite C'. apply ext_load_entries. exact E.
Qed.

(* set_configs does not touch the stream *)
Lemma obj_only_set_config {O} cfg key (setter : N -> O -> O) : obj_only (set_config cfg key setter).
Proof. unfold set_config. destruct (assoc bytes_eqb key cfg); [apply obj_only_modify|apply obj_only_ret]. Qed.
Lemma obj_only_check_nonneg {O} cfg key : obj_only (@check_nonneg O cfg key).
Proof. unfold check_nonneg. destruct (assoc bytes_eqb key cfg); [apply obj_only_guard|apply obj_only_ret]. Qed.
Lemma obj_only_set_hps fc : forall names i, obj_only (set_hps fc names i).
Proof.
  induction names as [|nm names IH]; intro i; cbn [set_hps]; [apply obj_only_ret|].
  apply obj_only_bind; [apply obj_only_set_config|]. intro u. apply IH.
Qed.
Lemma obj_only_get {O} : obj_only (@get_obj O).
Proof. intros o. exists (Some o), o. reflexivity. Qed.
Lemma obj_only_set_configs uc fc : obj_only (set_configs uc fc).
Proof.
  unfold set_configs. repeat (apply obj_only_bind; [apply obj_only_check_nonneg|]; intro).
  repeat (apply obj_only_bind; [apply obj_only_set_config|]; intro).
  apply obj_only_bind; [apply obj_only_get|]. intro o. apply obj_only_set_hps.
Qed.
Lemma ext_load_optimizer : ext_load load_optimizer.
Proof.
  unfold load_optimizer. apply ext_load_bind; [apply ext_load_header|]. intro u.
  apply ext_load_bind; [apply ext_load_lift, ext_r_map; [apply ext_r_str|apply ext_r_u32]|]. intro uc.
  apply ext_load_bind; [apply ext_load_lift, ext_r_map; [apply ext_r_str|apply ext_r_f32]|]. intro fc.
  apply obj_only_ext, obj_only_set_configs.
Qed.

(* ------------------------------------------------------------------ proper prefixes *)
Theorem prefix_rejected_load {O A} (m : M (bytes * O) A) enc o a o' n :
  ext_load m -> m (enc, o) = (Some a, ([], o')) -> (n < length enc)%nat -> fst (m (firstn n enc, o)) = None.
Proof.
  intros He H Hn. destruct (m (firstn n enc, o)) as [[a'|] [r o2]] eqn:E; [|reflexivity]. exfalso.
  pose proof (He _ _ _ _ _ (skipn n enc) E) as X. rewrite firstn_skipn in X. rewrite H in X.
  injection X as _ Hr _. symmetry in Hr. apply app_eq_nil in Hr. destruct Hr as [_ Hr].
  assert (L : length (skipn n enc) = 0%nat) by (rewrite Hr; reflexivity).
  rewrite skipn_length in L. lia.
Qed.

(* C14 proper_prefix_rejected: a writer that crashed at any byte.  The object is untouched. *)
Theorem proper_prefix_rejected_parameter ws p p0 n : wf_param p -> (n < length (enc_param_file ws p))%nat ->
  exists b', load_parameter ws (firstn n (enc_param_file ws p), p0) = (None, (b', p0)).
Proof.
  intros H Hn. pose proof (file_roundtrip_parameter ws p p0 [] H) as R. rewrite app_nil_r in R.
  pose proof (prefix_rejected_load _ _ _ _ _ n (ext_load_parameter ws) R Hn) as F.
  destruct (load_parameter ws (firstn n (enc_param_file ws p), p0)) as [res [b' p']] eqn:E. cbn [fst] in F. subst res.
  pose proof (load_parameter_atomic ws _ _ _ _ _ E) as X. cbn in X. subst p'. exists b'. reflexivity.
Qed.
Theorem proper_prefix_rejected_model ws (es st0 : entries) n :
  Forall wf_entry es -> NoDup (map fst es) -> N.of_nat (length es) < 2 ^ 32 -> map fst st0 = map fst es ->
  (n < length (enc_model_file ws es))%nat ->
  exists b' st', load_model ws (firstn n (enc_model_file ws es), st0) = (None, (b', st')) /\
                 rel_entries ws (firstn n (enc_model_file ws es)) st0 st'.
Proof.
  intros H1 H2 H3 H4 Hn. pose proof (file_roundtrip_model ws es st0 [] H1 H2 H3 H4) as R. rewrite app_nil_r in R.
  pose proof (prefix_rejected_load _ _ _ _ _ n (ext_load_model ws) R Hn) as F.
  destruct (load_model ws (firstn n (enc_model_file ws es), st0)) as [res [b' st']] eqn:E. cbn [fst] in F. subst res.
  exists b', st'. split; [reflexivity|]. eapply load_model_atomic. exact E.
Qed.
Theorem proper_prefix_rejected_optimizer o o0 n :
  wf_optim o -> o_kind o0 = o_kind o -> length (o_hp o0) = length (o_hp o) ->
  (n < length (enc_opt_file (uint_configs o) (float_configs o)))%nat ->
  exists b', load_optimizer (firstn n (enc_opt_file (uint_configs o) (float_configs o)), o0) = (None, (b', o0)).
Proof.
  intros H1 H2 H3 Hn. pose proof (file_roundtrip_optimizer o o0 [] H1 H2 H3) as R. rewrite app_nil_r in R.
  pose proof (prefix_rejected_load _ _ _ _ _ n ext_load_optimizer R Hn) as F.
  destruct (load_optimizer (firstn n (enc_opt_file (uint_configs o) (float_configs o)), o0)) as [res [b' o']] eqn:E.
  cbn [fst] in F. subst res. pose proof (load_optimizer_atomic _ _ _ _ E). subst o'. exists b'. reflexivity.
Qed.

(* ------------------------------------------------------------------ what an accepted file contains *)
(* a tensor as read_tensor builds it: the Shape constructor accepted (dims, batch), and the
   payload had exactly 4 * size(shape) bytes *)
Definition tensor_ok (t : tensor) : Prop :=
  exists ds bt, mk_shape ds bt = Some (tshape t) /\ bt <> 0 /\ N.of_nat (length (twords t)) = size (tshape t).

Lemma length_unle4 : forall n d, length d = (4 * n)%nat -> length (unle4 d) = n.
Proof.
  induction n as [|n IH]; intros d H.
  - destruct d; [reflexivity|discriminate].
  - destruct d as [|b0 [|b1 [|b2 [|b3 d]]]]; cbn [length] in H; try lia. cbn [unle4 length]. f_equal. apply IH. lia.
Qed.
Lemma mk_shape_batch ds b s : mk_shape ds b = Some s -> batch s = b /\ b <> 0.
Proof.
  unfold mk_shape. destruct (MAX_DEPTH <? N.of_nat (length ds)); [discriminate|].
  destruct (ctor_loop ds 1) as [v|]; [|discriminate].
  destruct (N.eqb_spec (wrap32 v) 0); cbn [orb]; [discriminate|].
  destruct (N.eqb_spec b 0); cbn [orb]; [discriminate|].
  destruct (check_size (wrap32 v) b); [|discriminate]. intros [= <-]. split; [reflexivity|assumption].
Qed.
Lemma rd_tensor_ok b t r : rd_tensor b = Some (t, r) -> tensor_ok t.
Proof.
  unfold rd_tensor. intros H. apply rbind_some in H. destruct H as [s [b1 [E1 H]]].
  apply rbind_some in H. destruct H as [d [b2 [E2 H]]]. apply rbind_some in H. destruct H as [u [b3 [E3 H]]].
  injection H as <- <-. unfold rd_shape in E1. apply rbind_some in E1. destruct E1 as [ds [b4 [_ E1]]].
  apply rbind_some in E1. destruct E1 as [bt [b5 [_ E1]]]. destruct (mk_shape ds bt) as [s'|] eqn:Em; [|discriminate].
  injection E1 as <- _. exists ds, bt. cbn [tshape twords]. split; [exact Em|]. split; [apply (mk_shape_batch _ _ _ Em)|].
  unfold rguard in E3. destruct (N.eqb_spec (len d) (size s' * 4)) as [L|]; [|discriminate].
  unfold len in L. rewrite (length_unle4 (N.to_nat (size s')) d) by lia. lia.
Qed.
Lemma rd_loop_forall {A} (rd : reader A) (P : A -> Prop) : (forall b x r, rd b = Some (x, r) -> P x) ->
  forall n b l r, rd_loop rd n b = Some (l, r) -> Forall P l.
Proof.
  intros H. induction n as [|n IH]; intros b l r E; cbn [rd_loop] in E.
  - injection E as <- _. constructor.
  - apply rbind_some in E. destruct E as [x [b1 [E1 E]]]. apply rbind_some in E. destruct E as [xs [b2 [E2 E]]].
    injection E as <- _. constructor; [eapply H; exact E1|eapply IH; exact E2].
Qed.
Lemma rd_param_inner_ok b v kvs r : rd_param_inner b = Some ((v, kvs), r) ->
  tensor_ok v /\ Forall (fun kv => tensor_ok (snd kv)) kvs.
Proof.
  unfold rd_param_inner. intros H. apply rbind_some in H. destruct H as [v' [b1 [E1 H]]].
  apply rbind_some in H. destruct H as [n [b2 [E2 H]]]. apply rbind_some in H. destruct H as [l [b3 [E3 H]]].
  injection H as <- <- <-. split; [eapply rd_tensor_ok; exact E1|].
  unfold rd_n in E3. destruct (len b2 <? n); [discriminate|].
  eapply rd_loop_forall; [|exact E3]. intros b0 x0 r0 E. unfold rd_stat, r_pair in E.
  apply rbind_some in E. destruct E as [k [b4 [_ E]]]. apply rbind_some in E. destruct E as [t [b5 [Et E]]].
  injection E as <- _. cbn [snd]. eapply rd_tensor_ok; exact Et.
Qed.

(* C14 accepted_is_wellformed, Parameter: version 0.1, data type PARAMETER, a complete body whose
   tensors all have payload length 4 * size(shape), value of batch size 1; and the Parameter then
   holds exactly that record *)
Theorem accepted_is_wellformed_parameter ws file p0 r p' :
  load_parameter ws (file, p0) = (Some tt, (r, p')) ->
  exists body v kvs,
    rd_header file = Some ((VER_MAJOR, VER_MINOR, DT_PARAMETER), body) /\
    rd_param_inner body = Some ((v, kvs), r) /\
    batch (tshape v) = 1 /\ tensor_ok v /\ Forall (fun kv => tensor_ok (snd kv)) kvs /\
    p' = commit ws v kvs.
Proof.
  unfold load_parameter. unfold bind. intros H.
  destruct (load_header_cases DT_PARAMETER file p0) as [[body [E [_ Hh]]]|[b E]]; rewrite E in H; [|discriminate].
  pose proof (load_inner_atomic ws body p0 (Some tt) r p' H) as [v [kvs [A [B C]]]].
  destruct (rd_param_inner_ok _ _ _ _ A) as [Tv Tk].
  exists body, v, kvs. repeat (split; [assumption|]). split; [|auto].
  destruct Tv as [ds [bt [Em [Hb _]]]]. destruct (mk_shape_batch _ _ _ Em) as [Eb _].
  destruct (assert_shape_batch v B) as [X|X]; [exact X|]. congruence.
Qed.

(* Optimizer: version, data type, two complete maps, no negative scaling/decay/clipping *)
Theorem accepted_is_wellformed_optimizer file o r o' :
  load_optimizer (file, o) = (Some tt, (r, o')) ->
  exists body uc fc b1,
    rd_header file = Some ((VER_MAJOR, VER_MINOR, DT_OPTIMIZER), body) /\
    r_map r_str r_u32 body = Some (uc, b1) /\ r_map r_str r_f32 b1 = Some (fc, r) /\
    (forall key v, In key [N_LR_SCALE; N_L2; N_CLIP] -> assoc bytes_eqb key fc = Some v -> float_neg v = false) /\
    set_configs uc fc (r, o) = (Some tt, (r, o')).
Proof.
  unfold load_optimizer. unfold bind at 1. intros H.
  destruct (load_header_cases DT_OPTIMIZER file o) as [[body [E [_ Hh]]]|[b E]]; rewrite E in H; [|discriminate].
  unfold bind at 1 in H. destruct (r_map r_str r_u32 body) as [[uc b1]|] eqn:E1.
  2:{ rewrite (lift_rd_none _ _ _ E1) in H. discriminate. }
  rewrite (lift_rd_some _ _ _ _ _ E1) in H.
  unfold bind at 1 in H. destruct (r_map r_str r_f32 b1) as [[fc b2]|] eqn:E2.
  2:{ rewrite (lift_rd_none _ _ _ E2) in H. discriminate. }
  rewrite (lift_rd_some _ _ _ _ _ E2) in H.
  destruct (obj_only_set_configs uc fc o) as [res [o2 F]]. rewrite F in H. injection H as -> <- <-.
  exists body, uc, fc, b1. split; [exact Hh|]. split; [exact E1|]. split; [exact E2|]. split; [|apply F].
  intros key v Hin Ha. pose proof (F []) as G. unfold set_configs in G.
  assert (Hc : forall k, In k [N_LR_SCALE; N_L2; N_CLIP] -> check_nonneg fc k ([], o) = (Some tt, ([], o))).
  { intros k Hk. revert G. unfold bind at 1.
    destruct (check_nonneg_cases fc N_LR_SCALE ([] : bytes, o)) as [C1|C1]; rewrite C1; [|discriminate].
    unfold bind at 1. destruct (check_nonneg_cases fc N_L2 ([] : bytes, o)) as [C2|C2]; rewrite C2; [|discriminate].
    unfold bind at 1. destruct (check_nonneg_cases fc N_CLIP ([] : bytes, o)) as [C3|C3]; rewrite C3; [|discriminate].
    intros _. destruct Hk as [<-|[<-|[<-|[]]]]; assumption. }
  specialize (Hc key Hin). unfold check_nonneg in Hc. rewrite Ha in Hc. destruct (float_neg v); [discriminate|reflexivity].
Qed.

(* Model: version, data type MODEL, num_params complete entries, each with a path the model knows *)
Definition rd_entry : reader (list bytes * (tensor * list (bytes * tensor))) := r_pair (r_vec r_str) rd_param_inner.
Definition entry_ok (es : entries) (rec : list bytes * (tensor * list (bytes * tensor))) : Prop :=
  In (fst rec) (map fst es) /\ batch (tshape (fst (snd rec))) = 1 /\
  tensor_ok (fst (snd rec)) /\ Forall (fun kv => tensor_ok (snd kv)) (snd (snd rec)).

Lemma lookup_in k (es : entries) p : lookup k es = Some p -> In k (map fst es).
Proof.
  induction es as [|[k' q] es IH]; cbn [lookup map fst]; [discriminate|].
  destruct (path_eqb k k') eqn:E; [apply path_eqb_spec in E; subst; left; reflexivity|right; apply IH; assumption].
Qed.
Lemma update_keys k p (es : entries) : map fst (update k p es) = map fst es.
Proof.
  induction es as [|[k' q] es IH]; cbn [update map fst]; [reflexivity|].
  destruct (path_eqb k k'); cbn [map fst]; [reflexivity|f_equal; exact IH].
Qed.
Lemma load_entries_wellformed ws : forall n b es r es',
  load_entries ws n (b, es) = (Some tt, (r, es')) ->
  map fst es' = map fst es /\ exists recs, rd_loop rd_entry n b = Some (recs, r) /\ Forall (entry_ok es) recs.
Proof.
  induction n as [|n IH]; intros b es r es' H; cbn [load_entries] in H.
  - injection H as <- <-. split; [reflexivity|]. exists []. split; [reflexivity|constructor].
  - unfold bind at 1 in H. destruct (r_vec r_str b) as [[key b1]|] eqn:E1.
    2:{ rewrite (lift_rd_none _ _ _ E1) in H. discriminate. }
    rewrite (lift_rd_some _ _ _ _ _ E1) in H.
    unfold bind at 1 in H. unfold on_param in H. cbn [fst snd] in H.
    destruct (lookup key es) as [p|] eqn:El; [|discriminate].
    destruct (load_inner ws (b1, p)) as [res [b2 p']] eqn:Ei. destruct res as [[]|]; [|discriminate].
    pose proof (load_inner_atomic ws b1 p (Some tt) b2 p' Ei) as [v [kvs [A [B _]]]].
    destruct (IH _ _ _ _ H) as [K [recs [R F]]]. rewrite update_keys in K. split; [exact K|].
    exists ((key, (v, kvs)) :: recs). split.
    + cbn [rd_loop]. unfold rd_entry at 1, r_pair. unfold rbind at 1. unfold rbind at 1. rewrite E1. cbv beta iota.
      unfold rbind at 1. rewrite A. cbv beta iota. unfold rret at 1. cbv beta iota. unfold rbind. rewrite R. reflexivity.
    + destruct (rd_param_inner_ok _ _ _ _ A) as [Tv Tk]. constructor.
      * unfold entry_ok. cbn [fst snd]. split; [eapply lookup_in; exact El|]. split; [|split; assumption].
        destruct Tv as [ds [bt [Em [Hb _]]]]. destruct (mk_shape_batch _ _ _ Em) as [Eb _].
        destruct (assert_shape_batch v B) as [X|X]; [exact X|congruence].
      * eapply Forall_impl; [|exact F]. intros rec [I J]. split; [|exact J].
        rewrite update_keys in I. exact I.
Qed.
Theorem accepted_is_wellformed_model ws file es r es' :
  load_model ws (file, es) = (Some tt, (r, es')) ->
  map fst es' = map fst es /\
  exists body n b1 recs,
    rd_header file = Some ((VER_MAJOR, VER_MINOR, DT_MODEL), body) /\
    r_u32 body = Some (n, b1) /\ rd_loop rd_entry (N.to_nat n) b1 = Some (recs, r) /\
    Forall (entry_ok es) recs.
Proof.
  unfold load_model. unfold bind at 1. intros H.
  destruct (load_header_cases DT_MODEL file es) as [[body [E [_ Hh]]]|[b E]]; rewrite E in H; [|discriminate].
  unfold bind at 1 in H. destruct (r_u32 body) as [[n b1]|] eqn:E1.
  2:{ rewrite (lift_rd_none _ _ _ E1) in H. discriminate. }
  rewrite (lift_rd_some _ _ _ _ _ E1) in H. cbn [fst] in H.
  pose proof (load_entries_consumes ws _ _ _ _ _ H) as L.
  assert (C : N.to_nat (N.min n (len b1 + 1)) = N.to_nat n) by (unfold len in *; lia).
  rewrite C in H. destruct (load_entries_wellformed ws _ _ _ _ _ H) as [K [recs [R F]]].
  split; [exact K|]. exists body, n, b1, recs. auto.
Qed.
