(* A Parameter file is: prefix (function of the shape) ++ little-endian words ++ statistics part. *)
From Coq Require Import List NArith Lia.
From PV Require Import Shape.ShapeImpl Msgpack.Codec Msgpack.FileFormat Msgpack.FileProofs Msgpack.BigFile.
Import ListNotations.
Local Open Scope N_scope.

Lemma param_file_split ws p : wf_param p ->
  enc_param_file ws p = param_file_prefix (tshape (p_value p)) ++ payload (twords (p_value p)) ++ param_file_suffix ws p.
Proof.
  intros W. unfold enc_param_file, enc_param_inner, enc_tensor, w_bin, param_file_prefix, param_file_suffix.
  rewrite len_payload, (wt_len _ (wp_value _ W)). rewrite <- !app_assoc. reflexivity.
Qed.
Lemma param_file_length ws p : wf_param p ->
  len (enc_param_file ws p) = len (param_file_prefix (tshape (p_value p))) + size (tshape (p_value p)) * 4 + len (param_file_suffix ws p).
Proof.
  intros W. rewrite (param_file_split ws p W). unfold len. rewrite !app_length.
  fold (len (payload (twords (p_value p)))). pose proof (len_payload (twords (p_value p))) as L. unfold len in L.
  rewrite <- (wt_len _ (wp_value _ W)). lia.
Qed.
