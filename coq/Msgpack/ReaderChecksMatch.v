(* (T) tie: the bodies of Reader::check_eof / read / check_type and the list of member functions
   that touch the stream, as read from the CURRENT msgpack/reader.h (Gen/IoReaderChecks.v,
   regenerated on every run), are the rows the model assumes; hence (ReaderChecksProofs) the
   source's functions behave as Codec.take / check_type / rd8 on every stream.  An emptied
   check_eof, a read() that bypasses the stream state (rdbuf()->sgetn), a check_type that does
   not compare, a new function that reads is_ directly, or a body the translator cannot read
   (KBad / CBadCond / UOther) makes [reader_checks_match] fail. *)
From Coq Require Import List NArith Bool Lia.
From PV Require Import Msgpack.Codec Msgpack.CodecProofs Msgpack.ReaderChecks Msgpack.ReaderChecksProofs Gen.IoReaderChecks.
Import ListNotations.
Local Open Scope N_scope.

Lemma reader_checks_match :
  READER_CHECK_EOF = model_check_eof /\ READER_READ = model_read /\ READER_CHECK_TYPE = model_check_type /\
  READER_STREAM_USERS = model_users.
Proof. split; [reflexivity|split; [reflexivity|split; reflexivity]]. Qed.

Theorem source_check_eof s : run_check_eof READER_CHECK_EOF s = if is_fail s then OThrows else OVal tt s.
Proof. destruct reader_checks_match as [-> _]. apply run_check_eof_spec. Qed.
Theorem source_read n b : run_read READER_CHECK_EOF READER_READ n (fresh b) = of_reader (take n) b.
Proof. destruct reader_checks_match as [-> [-> _]]. apply run_read_spec. Qed.
(* get_uint16/32/64 are `is_.read(c, n); check_eof()` word for word (gen_io_headers.get_fn) *)
Theorem source_getn n b : run_read READER_CHECK_EOF model_read n (fresh b) = of_reader (take n) b.
Proof. destruct reader_checks_match as [-> _]. apply run_read_spec. Qed.
Theorem source_get8 b : run_get8 READER_CHECK_EOF (fresh b) = of_reader rd8 b.
Proof. destruct reader_checks_match as [-> _]. apply run_get8_spec. Qed.
Theorem source_check_type t b : run_check_type READER_CHECK_EOF READER_CHECK_TYPE t (fresh b) = of_reader (check_type t) b.
Proof. destruct reader_checks_match as [-> [_ [-> _]]]. apply run_check_type_spec. Qed.
Theorem source_failed_stream r ef n t : let s := mkIs r true ef in
  run_read READER_CHECK_EOF READER_READ n s = OThrows /\ run_get8 READER_CHECK_EOF s = OThrows /\
  run_check_type READER_CHECK_EOF READER_CHECK_TYPE t s = OThrows.
Proof. destruct reader_checks_match as [-> [-> [-> _]]]. apply failed_stream_throws. Qed.
Theorem source_stream_users : READER_STREAM_USERS = [UCheckEof; UGet 8; UGet 16; UGet 32; UGet 64; URead; UCtor].
Proof. destruct reader_checks_match as [_ [_ [_ ->]]]. reflexivity. Qed.

(* C14: input that ends too early is rejected by the source's functions themselves *)
Theorem source_short_read_throws n b : len b < n -> run_read READER_CHECK_EOF READER_READ n (fresh b) = OThrows.
Proof. intros H. rewrite source_read. unfold of_reader. rewrite take_spec. apply N.ltb_lt in H. rewrite H. reflexivity. Qed.
Theorem source_empty_stream_throws t :
  run_get8 READER_CHECK_EOF (fresh []) = OThrows /\ run_check_type READER_CHECK_EOF READER_CHECK_TYPE t (fresh []) = OThrows.
Proof. split; [rewrite source_get8|rewrite source_check_type]; reflexivity. Qed.
Theorem source_wrong_type_throws t x r : x <> t -> run_check_type READER_CHECK_EOF READER_CHECK_TYPE t (fresh (x :: r)) = OThrows.
Proof.
  intros H. rewrite source_check_type. unfold of_reader, check_type, rbind, rd8, rguard.
  destruct (N.eqb_spec x t) as [E|E]; [contradiction|reflexivity].
Qed.
