(* File-level proofs: round trip of Shape / Tensor / Parameter / Model / Optimizer layouts
   through the pure readers, extension of the file readers, little-endian column-major payload. *)
From Coq Require Import List NArith ZArith Lia Bool.
From PV Require Import Base.U32 Base.Err Shape.ShapeImpl Shape.ShapeSpec Shape.ShapeLemmas Shape.ShapeProofs
  Msgpack.Codec Msgpack.FileFormat Msgpack.CodecProofs.
Import ListNotations.
Local Open Scope N_scope.

Local Arguments N.add : simpl never.
Local Arguments N.sub : simpl never.
Local Arguments N.mul : simpl never.
Local Arguments N.div : simpl never.
Local Arguments N.modulo : simpl never.
Local Arguments N.pow : simpl never.
Local Arguments N.leb : simpl never.
Local Arguments N.ltb : simpl never.
Local Arguments N.eqb : simpl never.
Local Arguments N.of_nat : simpl never.
Local Arguments N.to_nat : simpl never.

(* ------------------------------------------------------------------ well-formed objects *)
(* a Tensor the library can hold and the Writer can emit: a public Shape, as many words as
   elements, 32-bit words, payload below 2^32 bytes *)
Record wf_tensor (t : tensor) : Prop := mkWfT {
  wt_shape : wf (tshape t);
  wt_len : N.of_nat (length (twords t)) = size (tshape t);
  wt_words : Forall (fun w => w < 2 ^ 32) (twords t);
  wt_small : size (tshape t) < 2 ^ 30 }.
Definition wf_stat (kv : bytes * tensor) : Prop := len (fst kv) < 2 ^ 32 /\ wf_tensor (snd kv).
(* a valid Parameter: value and shape agree, batch 1, distinct statistics names *)
Record wf_param (p : param) : Prop := mkWfP {
  wp_valid : p_valid p = true;
  wp_value : wf_tensor (p_value p);
  wp_shape : p_shape p = tshape (p_value p);
  wp_batch : batch (p_shape p) = 1;
  wp_nstats : N.of_nat (length (p_stats p)) < 2 ^ 32;
  wp_stats : Forall wf_stat (p_stats p);
  wp_nodup : NoDup (map fst (p_stats p)) }.

(* ------------------------------------------------------------------ payload *)
Lemma le4_unle4 w r : w < 2 ^ 32 -> unle4 (le 4 w ++ r) = w :: unle4 r.
Proof.
  intros H. cbn [le app unle4]. f_equal.
  change (2 ^ 32) with 4294967296 in H.
  pose proof (N.div_mod w 256 ltac:(lia)). pose proof (N.mod_lt w 256 ltac:(lia)).
  pose proof (N.div_mod (w / 256) 256 ltac:(lia)). pose proof (N.mod_lt (w / 256) 256 ltac:(lia)).
  pose proof (N.div_mod (w / 256 / 256) 256 ltac:(lia)). pose proof (N.mod_lt (w / 256 / 256) 256 ltac:(lia)).
  assert (w / 256 / 256 / 256 < 256).
  { apply N.div_lt_upper_bound; [lia|]. apply N.div_lt_upper_bound; [lia|]. apply N.div_lt_upper_bound; lia. }
  rewrite (N.mod_small (w / 256 / 256 / 256) 256) by assumption. lia.
Qed.
Lemma unle4_payload ws : Forall (fun w => w < 2 ^ 32) ws -> unle4 (payload ws) = ws.
Proof.
  induction 1 as [|w ws Hw Hws IH]; [reflexivity|]. unfold payload in *. cbn [flat_map].
  rewrite le4_unle4 by exact Hw. rewrite IH. reflexivity.
Qed.
Lemma length_payload ws : length (payload ws) = (4 * length ws)%nat.
Proof. unfold payload. induction ws as [|w ws IH]; [reflexivity|]. cbn [flat_map]. rewrite app_length, IH. cbn [le length]. lia. Qed.
Lemma len_payload ws : len (payload ws) = N.of_nat (length ws) * 4.
Proof. unfold len. rewrite length_payload. lia. Qed.

(* C13 payload_little_endian_column_major: byte j of the element with flat index i sits at
   offset 4 i + j of the payload and is bits 8j..8j+7 of its word; the flat index of a
   coordinate is column-major with the batch as the last dimension *)
Lemma nth_payload ws : forall i j, (j < 4)%nat ->
  nth (4 * i + j) (payload ws) 0 = (nth i ws 0 / 256 ^ N.of_nat j) mod 256.
Proof.
  unfold payload. induction ws as [|w ws IH]; intros i j Hj.
  - cbn [flat_map]. destruct (4 * i + j)%nat; destruct i; cbn [nth]; rewrite N.div_0_l by (apply N.pow_nonzero; discriminate); reflexivity.
  - cbn [flat_map]. destruct i as [|i].
    + cbn [nth]. replace (4 * 0 + j)%nat with j by lia. rewrite app_nth1 by (cbn [le length]; lia).
      destruct j as [|[|[|[|j]]]]; try lia; cbn [le nth].
      * change (256 ^ N.of_nat 0) with 1. rewrite N.div_1_r. reflexivity.
      * change (256 ^ N.of_nat 1) with 256. reflexivity.
      * change (256 ^ N.of_nat 2) with (256 * 256). rewrite <- N.div_div by lia. reflexivity.
      * change (256 ^ N.of_nat 3) with (256 * 256 * 256). rewrite <- !N.div_div by lia. reflexivity.
    + cbn [nth]. rewrite app_nth2 by (cbn [le length]; lia). cbn [le length].
      replace (4 * S i + j - 4)%nat with (4 * i + j)%nat by lia. apply IH. exact Hj.
Qed.
Lemma flat_index_cons d ds c cs : flat_index (d :: ds) (c :: cs) = c + d * flat_index ds cs.
Proof. reflexivity. Qed.
Lemma flat_index_lt : forall ds cs, length cs = length ds -> Forall2 (fun c d => c < d) cs ds ->
  flat_index ds cs < prodN ds.
Proof.
  induction ds as [|d ds IH]; intros cs Hl H.
  - destruct cs; [|discriminate]. change (0 < 1). lia.
  - destruct cs as [|c cs]; [discriminate|]. inversion H; subst. rewrite flat_index_cons, prodN_cons.
    assert (flat_index ds cs < prodN ds) by (apply IH; [cbn in Hl; lia|assumption]). nia.
Qed.

(* ------------------------------------------------------------------ Shape *)
Lemma wf_dims_u32 s : wf s -> Forall u32 (dims s) /\ u32 (batch s).
Proof.
  intros H. pose proof (wf_size _ H) as Hs. pose proof (wf_pos _ H) as Hp. pose proof (wf_batch _ H) as Hb.
  split.
  - revert Hs. generalize (batch s) Hb. induction Hp as [|d ds Hd Hds IH]; intros b Hb0 Hs; [constructor|].
    rewrite prodN_cons in Hs. pose proof (prodN_pos ds Hds). constructor.
    + assert (1 <= prodN ds * b) by nia.
      assert (d * 1 <= d * (prodN ds * b)) by (apply N.mul_le_mono_l; assumption).
      replace (d * prodN ds * b) with (d * (prodN ds * b)) in Hs by ring. unfold u32, P32 in *. lia.
    + apply (IH (d * b)); [nia|]. replace (prodN ds * (d * b)) with (d * prodN ds * b) by ring. exact Hs.
  - pose proof (prodN_pos _ Hp) as Hpp. assert (1 * batch s <= prodN (dims s) * batch s) by (apply N.mul_le_mono_r; lia).
    unfold u32, P32 in *. lia.
Qed.
Lemma mk_shape_wf s : wf s -> mk_shape (dims s) (batch s) = Some s.
Proof.
  intros H. destruct (wf_dims_u32 s H) as [Hu Hb].
  destruct (mk_shape (dims s) (batch s)) as [s'|] eqn:E.
  - destruct (mk_shape_some _ _ _ Hu Hb E) as [_ [-> _]]. f_equal.
    destruct s as [ds b v]. cbn [dims batch volume] in *. f_equal.
    + exact (wf_canon _ H).
    + symmetry. exact (wf_volume _ H).
  - exfalso. apply (mk_shape_none _ _ Hu Hb E). unfold ctor_admissible.
    split; [exact (wf_depth _ H)|]. split; [exact (wf_pos _ H)|]. split; [exact (wf_batch _ H)|exact (wf_size _ H)].
Qed.
Lemma u32_pow x : u32 x <-> x < 2 ^ 32.
Proof. unfold u32, P32. change (2 ^ 32) with 4294967296. tauto. Qed.

Lemma splits_rd_shape : splits rd_shape.
Proof.
  unfold rd_shape. apply splits_rbind_l; [apply splits_r_vec; apply splits_suffix; apply splits_r_u32|].
  intro ds. apply suffix_rbind; [apply splits_suffix; apply splits_r_u32|]. intro b.
  destruct (mk_shape ds b); [apply suffix_rret|apply suffix_rfail].
Qed.
Lemma ext_rd_shape : ext_ok rd_shape.
Proof.
  unfold rd_shape. apply ext_rbind; [apply ext_r_vec; apply ext_r_u32|]. intro ds.
  apply ext_rbind; [apply ext_r_u32|]. intro b. destruct (mk_shape ds b); [apply ext_rret|apply ext_rfail].
Qed.
Theorem roundtrip_shape s : wf s -> roundtrip enc_shape rd_shape s.
Proof.
  intros H rest. destruct (wf_dims_u32 s H) as [Hu Hb]. unfold enc_shape, rd_shape. rewrite <- app_assoc.
  rewrite rbind_app with (x := dims s).
  2:{ apply read_write_vec; [apply splits_r_u32| |].
      - pose proof (wf_depth _ H). change (2 ^ 32) with 4294967296. lia.
      - eapply Forall_impl; [|exact Hu]. intros d Hd. apply read_write_u32. apply u32_pow. exact Hd. }
  rewrite rbind_app with (x := batch s) by (apply read_write_u32; apply u32_pow; exact Hb).
  rewrite mk_shape_wf by exact H. reflexivity.
Qed.

(* ------------------------------------------------------------------ Tensor *)
Lemma splits_rd_tensor : splits rd_tensor.
Proof.
  unfold rd_tensor. apply splits_rbind_l; [apply splits_rd_shape|]. intro s.
  apply suffix_rbind; [apply splits_suffix; apply splits_r_bin|]. intro d.
  apply suffix_rbind; [apply suffix_rguard|]. intro u. apply suffix_rret.
Qed.
Lemma ext_rd_tensor : ext_ok rd_tensor.
Proof.
  unfold rd_tensor. apply ext_rbind; [apply ext_rd_shape|]. intro s. apply ext_rbind; [apply ext_r_bin|]. intro d.
  apply ext_rbind; [apply ext_rguard|]. intro u. apply ext_rret.
Qed.
Theorem roundtrip_tensor t : wf_tensor t -> roundtrip enc_tensor rd_tensor t.
Proof.
  intros [Hs Hl Hw Hsm] rest. unfold enc_tensor, rd_tensor. rewrite <- app_assoc.
  rewrite rbind_app with (x := tshape t) by (apply roundtrip_shape; exact Hs).
  rewrite rbind_app with (x := payload (twords t)).
  2:{ apply read_write_bin. rewrite len_payload, Hl. change (2 ^ 30) with 1073741824 in Hsm. change (2 ^ 32) with 4294967296. lia. }
  rewrite len_payload, Hl, N.eqb_refl. cbn [rguard rbind rret]. rewrite unle4_payload by exact Hw.
  destruct t; reflexivity.
Qed.

(* ------------------------------------------------------------------ statistics, Parameter body *)
Lemma splits_rd_stat : splits rd_stat.
Proof. apply splits_r_pair; [apply splits_r_str|apply splits_suffix; apply splits_rd_tensor]. Qed.
Lemma ext_rd_stat : ext_ok rd_stat.
Proof. apply ext_r_pair; [apply ext_r_str|apply ext_rd_tensor]. Qed.
Lemma roundtrip_stat kv : wf_stat kv -> roundtrip enc_stat rd_stat kv.
Proof.
  intros [Hk Ht]. unfold enc_stat, rd_stat.
  apply (roundtrip_pair w_str enc_tensor r_str rd_tensor kv); [apply read_write_str; exact Hk|apply roundtrip_tensor; exact Ht].
Qed.

Lemma rd_n_0 {A} (rd : reader A) b : rd_n rd 0 b = Some ([], b).
Proof. unfold rd_n. destruct (N.ltb_spec (len b) 0); [lia|reflexivity]. Qed.

(* the pure reader of a Parameter body: (value, statistics as read) *)
Definition rd_param_inner : reader (tensor * list (bytes * tensor)) :=
  rbind rd_tensor (fun v => rbind r_u32 (fun n => rbind (rd_n rd_stat n) (fun kvs => rret (v, kvs)))).
Lemma ext_rd_param_inner : ext_ok rd_param_inner.
Proof.
  unfold rd_param_inner. apply ext_rbind; [apply ext_rd_tensor|]. intro v. apply ext_rbind; [apply ext_r_u32|]. intro n.
  apply ext_rbind; [apply ext_rd_n; apply ext_rd_stat|]. intro kvs. apply ext_rret.
Qed.
Lemma splits_rd_param_inner : splits rd_param_inner.
Proof.
  unfold rd_param_inner. apply splits_rbind_l; [apply splits_rd_tensor|]. intro v.
  apply suffix_rbind; [apply splits_suffix; apply splits_r_u32|]. intro n.
  apply suffix_rbind; [apply suffix_rd_n; apply splits_suffix; apply splits_rd_stat|]. intro kvs. apply suffix_rret.
Qed.
Lemma rd_param_inner_enc ws p rest : wf_param p ->
  rd_param_inner (enc_param_inner ws p ++ rest) = Some ((p_value p, if ws then p_stats p else []), rest).
Proof.
  intros H. unfold enc_param_inner, rd_param_inner. rewrite <- app_assoc.
  rewrite rbind_app with (x := p_value p) by (apply roundtrip_tensor; exact (wp_value _ H)).
  destruct ws.
  - rewrite <- app_assoc. rewrite rbind_app with (x := N.of_nat (length (p_stats p))) by (apply read_write_u32; exact (wp_nstats _ H)).
    unfold rbind. rewrite rd_n_flat_map; [reflexivity|apply splits_rd_stat|].
    eapply Forall_impl; [|exact (wp_stats _ H)]. intros kv Hkv. apply roundtrip_stat. exact Hkv.
  - rewrite rbind_app with (x := 0) by (apply read_write_u32; reflexivity). unfold rbind. rewrite rd_n_0. reflexivity.
Qed.
