(* Machine integers as N with the wrap written out. *)
From Coq Require Import NArith Lia.
Local Open Scope N_scope.

Definition U32MAX : N := 4294967295.
Definition P32 : N := 4294967296.
Definition P64 : N := 18446744073709551616.
Definition wrap32 (x : N) : N := x mod P32.
Definition wrap64 (x : N) : N := x mod P64.
Definition u32 (x : N) : Prop := x < P32.
Definition is_u32 (x : N) : bool := x <? P32.

Lemma wrap32_small x : x < P32 -> wrap32 x = x.
Proof. intro H; unfold wrap32; apply N.mod_small; exact H. Qed.
Lemma wrap64_small x : x < P64 -> wrap64 x = x.
Proof. intro H; unfold wrap64; apply N.mod_small; exact H. Qed.
Lemma wrap32_lt x : wrap32 x < P32.
Proof. unfold wrap32; apply N.mod_lt; discriminate. Qed.
Lemma wrap64_lt x : wrap64 x < P64.
Proof. unfold wrap64; apply N.mod_lt; discriminate. Qed.
Lemma u32_mul_lt64 a b : a < P32 -> b < P32 -> a * b < P64.
Proof. unfold P32, P64; intros; nia. Qed.
Lemma is_u32_spec x : is_u32 x = true <-> u32 x.
Proof. unfold is_u32, u32; apply N.ltb_lt. Qed.
