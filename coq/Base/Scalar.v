(* Scalar operations the tensor / optimizer models are generic in (DESIGN.md section 3,
   "Scalars / floats").  No proofs here; laws are stated as predicates that theorems take as
   Section hypotheses.  The extracted code receives the record as an argument: the OCaml
   drivers pass float32 emulation (double operation, then rounding to binary32) or exact
   numbers. *)
From Coq Require Import NArith Ring_theory Field_theory.

Record ops (T : Type) := mkOps {
  szero : T;
  sone : T;
  sadd : T -> T -> T;
  ssub : T -> T -> T;
  smul : T -> T -> T;
  sdiv : T -> T -> T;
  sneg : T -> T;
  ssqrt : T -> T;
  sexp : T -> T;
  slog : T -> T;
  stanh : T -> T;
  ssin : T -> T;
  scos : T -> T;
  stan : T -> T;
  spow : T -> T -> T;
  (* [somp x n] is  1 - x^n  evaluated the way the C++ evaluates `1 - std::pow(x, n)` for a
     float x and a uint32 n: std::pow promotes both arguments to double, the subtraction is a
     double subtraction and the result is narrowed to float once (Adam's bias correction). *)
  somp : T -> N -> T;
  sltb : T -> T -> bool;
  seqb : T -> T -> bool;
  sof_N : N -> T
}.

Arguments szero {T}. Arguments sone {T}. Arguments sadd {T}. Arguments ssub {T}.
Arguments smul {T}. Arguments sdiv {T}. Arguments sneg {T}. Arguments ssqrt {T}.
Arguments sexp {T}. Arguments slog {T}. Arguments stanh {T}. Arguments ssin {T}.
Arguments scos {T}. Arguments stan {T}. Arguments spow {T}. Arguments somp {T}.
Arguments sltb {T}. Arguments seqb {T}. Arguments sof_N {T}.

(* The laws a theorem may ask for (always as a Section hypothesis, never globally). *)
Definition is_ring {T} (O : ops T) : Prop :=
  ring_theory (szero O) (sone O) (sadd O) (smul O) (ssub O) (sneg O) (@eq T).

Definition is_field {T} (O : ops T) : Prop :=
  field_theory (szero O) (sone O) (sadd O) (smul O) (ssub O) (sneg O)
               (sdiv O) (fun x => sdiv O (sone O) x) (@eq T).

(* x^n by repeated multiplication, for stating what [somp] means in exact arithmetic. *)
Definition spown {T} (O : ops T) (x : T) (n : N) : T :=
  N.iter n (fun acc => smul O acc x) (sone O).

Definition somp_exact {T} (O : ops T) : Prop :=
  forall x n, somp O x n = ssub O (sone O) (spown O x n).
