(* State + error monad in which [throw] keeps the CURRENT (possibly half-mutated)
   state, so that "a rejected call changes nothing" is a theorem that can fail. *)
Definition M (S A : Type) := S -> (option A) * S.   (* None = primitiv::Error thrown *)
Definition ret {S A} (a : A) : M S A := fun s => (Some a, s).
Definition throw {S A} : M S A := fun s => (None, s).
Definition bind {S A B} (m : M S A) (f : A -> M S B) : M S B :=
  fun s => match m s with (Some a, s') => f a s' | (None, s') => (None, s') end.
Definition get {S} : M S S := fun s => (Some s, s).
Definition put {S} (s' : S) : M S unit := fun _ => (Some tt, s').
Definition guard {S} (ok : bool) : M S unit := if ok then ret tt else throw.
Declare Scope err_scope.
Notation "x <- m ;; k" := (bind m (fun x => k))
  (at level 61, m at next level, right associativity) : err_scope.
Notation "m ;;; k" := (bind m (fun _ => k)) (at level 61, right associativity) : err_scope.

Definition err_preserves_state {S A} (m : M S A) : Prop :=
  forall s s', m s = (None, s') -> s' = s.
