(* Vocabulary of the generated file Gen/ScalarGen.v (translate/gen_scalar.py).  Definitions only,
   no proofs: this file and ScalarGen.v keep compiling when a proof obligation breaks.

   C++ -> Gallina conventions of the translation (over Coq's real numbers R):
     (a > b) used as a number        b01 (Rgt_dec a b)         (1 if it holds, else 0)
     c ? t : e (c a comparison)      if Rgt_dec a b then t else e
     std::pow(a, b)                  Rpower a b = exp (b * ln a)   (meaningful for a > 0)
     int32 k in float arithmetic     IZR k
     uint32 arithmetic of pown.cc    N with N.land / N.shiftr, int32 -> uint32 by u32_of_Z
     while (c) body  (pown.cc)       while_fuel 32 cond body state  (32 = width of `remain`) *)
From Coq Require Import Reals ZArith NArith List.
Import ListNotations.
Local Open Scope R_scope.

Definition b01 {A B : Prop} (s : {A} + {B}) : R := if s then 1 else 0.

Definition u32_of_Z (z : Z) : N := Z.to_N (z mod 4294967296).

Fixpoint while_fuel {S : Type} (fuel : nat) (cond : S -> bool) (body : S -> S) (s : S) : S :=
  match fuel with
  | O => s
  | Datatypes.S f => if cond s then while_fuel f cond body (body s) else s
  end.

(* placeholder type of a definition the translator could not translate: every theorem that
   mentions the definition stops type-checking, everything else keeps building *)
Inductive gen_untranslatable : Set := Untranslatable.

(* ---- deep embedding of the expression language (used for the statements about the
        intermediates of the stabilised formulas) ---- *)
Inductive fn1 := Fexp | Fln | Ftanh | Fsin | Fcos | Ftan | Fsqrt | Fabs.
Inductive cmpop := Cgt | Clt | Cle | Cge.

Inductive expr :=
| EVar (n : nat)
| EInt (z : Z)
| EFrac (p q : Z)
| ENeg (a : expr)
| EAdd (a b : expr) | ESub (a b : expr) | EMul (a b : expr) | EDiv (a b : expr)
| EPow (a b : expr)
| EFun (f : fn1) (a : expr)
| ECmp (c : cmpop) (a b : expr)
| EIf (c : cmpop) (a b t e : expr).

Definition fn1_sem (f : fn1) : R -> R :=
  match f with
  | Fexp => exp | Fln => ln | Ftanh => tanh | Fsin => sin | Fcos => cos | Ftan => tan
  | Fsqrt => sqrt | Fabs => Rabs
  end.

Definition cmpP (c : cmpop) (a b : R) : Prop :=
  match c with Cgt => a > b | Clt => a < b | Cle => a <= b | Cge => a >= b end.

Definition cmp_dec (c : cmpop) (a b : R) : {cmpP c a b} + {~ cmpP c a b} :=
  match c return {cmpP c a b} + {~ cmpP c a b} with
  | Cgt => Rgt_dec a b | Clt => Rlt_dec a b | Cle => Rle_dec a b | Cge => Rge_dec a b
  end.

Fixpoint eval (env : list R) (e : expr) : R :=
  match e with
  | EVar n => nth n env 0
  | EInt z => IZR z
  | EFrac p q => IZR p / IZR q
  | ENeg a => - eval env a
  | EAdd a b => eval env a + eval env b
  | ESub a b => eval env a - eval env b
  | EMul a b => eval env a * eval env b
  | EDiv a b => eval env a / eval env b
  | EPow a b => Rpower (eval env a) (eval env b)
  | EFun f a => fn1_sem f (eval env a)
  | ECmp c a b => b01 (cmp_dec c (eval env a) (eval env b))
  | EIf c a b t e => if cmp_dec c (eval env a) (eval env b) then eval env t else eval env e
  end.

(* the sub-expressions the C++ actually evaluates for the inputs [env]: both operands of every
   arithmetic operator and comparison, but only the taken branch of `?:` *)
Fixpoint evaluated (env : list R) (e : expr) : list expr :=
  e :: match e with
       | EVar _ | EInt _ | EFrac _ _ => []
       | ENeg a | EFun _ a => evaluated env a
       | EAdd a b | ESub a b | EMul a b | EDiv a b | EPow a b | ECmp _ a b =>
           evaluated env a ++ evaluated env b
       | EIf c a b t e =>
           evaluated env a ++ evaluated env b ++
           (if cmp_dec c (eval env a) (eval env b) then evaluated env t else evaluated env e)
       end.

(* "every argument of exp is <= 0" and "every intermediate has magnitude <= B" *)
Definition exp_args_nonpos (env : list R) (e : expr) : Prop :=
  forall a, In (EFun Fexp a) (evaluated env e) -> eval env a <= 0.

Definition intermediates_within (B : R) (env : list R) (e : expr) : Prop :=
  forall s, In s (evaluated env e) -> Rabs (eval env s) <= B.

(* ---- evaluation with IEEE-754 style overflow: a result of magnitude > M becomes +-infinity,
        infinities propagate, indeterminate forms (inf - inf, 0 * inf, inf / inf, x / 0, ln of a
        non-positive number, trigonometric functions of inf) give NaN.  No rounding is modelled.
        Conservative on purpose: whatever IEEE arithmetic would turn into NaN is NaN here, and some
        more (x / 0, ln 0).  Used to state "no overflow, no NaN" independently of how a stable
        formulation is written (see Scalar/Ieee.v). ---- *)
Inductive xr := XF (r : R) | XPinf | XNinf | XNaN.

Definition rnd (M r : R) : xr :=
  if Rlt_dec M r then XPinf else if Rlt_dec r (- M) then XNinf else XF r.

Definition xneg (a : xr) : xr :=
  match a with XF r => XF (- r) | XPinf => XNinf | XNinf => XPinf | XNaN => XNaN end.

Definition xadd (M : R) (a b : xr) : xr :=
  match a, b with
  | XF r, XF s => rnd M (r + s)
  | XNaN, _ | _, XNaN => XNaN
  | XPinf, XNinf | XNinf, XPinf => XNaN
  | XPinf, _ | _, XPinf => XPinf
  | XNinf, _ | _, XNinf => XNinf
  end.

Definition xsign_mul (pos : bool) (r : R) : xr :=   (* (+-inf) * r *)
  if Rlt_dec 0 r then (if pos then XPinf else XNinf)
  else if Rlt_dec r 0 then (if pos then XNinf else XPinf) else XNaN.

Definition xmul (M : R) (a b : xr) : xr :=
  match a, b with
  | XF r, XF s => rnd M (r * s)
  | XNaN, _ | _, XNaN => XNaN
  | XPinf, XF r | XF r, XPinf => xsign_mul true r
  | XNinf, XF r | XF r, XNinf => xsign_mul false r
  | XPinf, XPinf | XNinf, XNinf => XPinf
  | XPinf, XNinf | XNinf, XPinf => XNinf
  end.

Definition xdiv (M : R) (a b : xr) : xr :=
  match a, b with
  | XNaN, _ | _, XNaN => XNaN
  | XF r, XF s => if Req_EM_T s 0 then XNaN else rnd M (r / s)
  | XF _, (XPinf | XNinf) => XF 0
  | XPinf, XF s => if Req_EM_T s 0 then XNaN else xsign_mul true s
  | XNinf, XF s => if Req_EM_T s 0 then XNaN else xsign_mul false s
  | (XPinf | XNinf), (XPinf | XNinf) => XNaN
  end.

Definition xfun (M : R) (f : fn1) (a : xr) : xr :=
  match f, a with
  | _, XNaN => XNaN
  | Fexp, XF r => rnd M (exp r) | Fexp, XPinf => XPinf | Fexp, XNinf => XF 0
  | Fln, XF r => if Rlt_dec 0 r then rnd M (ln r) else XNaN | Fln, XPinf => XPinf | Fln, XNinf => XNaN
  | Ftanh, XF r => XF (tanh r) | Ftanh, XPinf => XF 1 | Ftanh, XNinf => XF (-1)
  | Fsqrt, XF r => if Rle_dec 0 r then XF (sqrt r) else XNaN | Fsqrt, XPinf => XPinf | Fsqrt, XNinf => XNaN
  | Fabs, XF r => XF (Rabs r) | Fabs, _ => XPinf
  | (Fsin | Fcos | Ftan), XF r => rnd M (fn1_sem f r) | (Fsin | Fcos | Ftan), _ => XNaN
  end.

(* comparisons: false as soon as a NaN is involved *)
Definition xcmp (c : cmpop) (a b : xr) : bool :=
  match a, b with
  | XF r, XF s => if cmp_dec c r s then true else false
  | XNaN, _ | _, XNaN => false
  | XPinf, XPinf | XNinf, XNinf => match c with Cle | Cge => true | _ => false end
  | XPinf, _ | _, XNinf => match c with Cgt | Cge => true | _ => false end
  | XNinf, _ | _, XPinf => match c with Clt | Cle => true | _ => false end
  end.

Fixpoint xeval (M : R) (env : list R) (e : expr) : xr :=
  match e with
  | EVar n => rnd M (nth n env 0)
  | EInt z => rnd M (IZR z)
  | EFrac p q => rnd M (IZR p / IZR q)
  | ENeg a => xneg (xeval M env a)
  | EAdd a b => xadd M (xeval M env a) (xeval M env b)
  | ESub a b => xadd M (xeval M env a) (xneg (xeval M env b))
  | EMul a b => xmul M (xeval M env a) (xeval M env b)
  | EDiv a b => xdiv M (xeval M env a) (xeval M env b)
  | EPow a b => XNaN
  | EFun f a => xfun M f (xeval M env a)
  | ECmp c a b => XF (if xcmp c (xeval M env a) (xeval M env b) then 1 else 0)
  | EIf c a b t e => if xcmp c (xeval M env a) (xeval M env b) then xeval M env t else xeval M env e
  end.
