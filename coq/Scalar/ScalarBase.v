(* Vocabulary of the generated file Gen/ScalarGen.v (translate/gen_scalar.py).  Definitions only,
   no proofs: this file and ScalarGen.v keep compiling when a proof obligation breaks.

   C++ -> Gallina conventions of the translation (over Coq's real numbers R):
     (a > b) used as a number        b01 (Rgt_dec a b)         (1 if it holds, else 0)
     c ? t : e (c a comparison)      if Rgt_dec a b then t else e
     std::pow(a, b)                  Rpower a b = exp (b * ln a)   (meaningful for a > 0)
     int32 k in float arithmetic     IZR k
     uint32 arithmetic of pown.cc    N with N.land / N.shiftr, int32 -> uint32 by u32_of_Z
     while (c) body  (pown.cc)       while_fuel 32 cond body state  (32 = width of `remain`) *)
From Coq Require Import Reals ZArith NArith List.
Import ListNotations.
Local Open Scope R_scope.

Definition b01 {A B : Prop} (s : {A} + {B}) : R := if s then 1 else 0.

Definition u32_of_Z (z : Z) : N := Z.to_N (z mod 4294967296).

Fixpoint while_fuel {S : Type} (fuel : nat) (cond : S -> bool) (body : S -> S) (s : S) : S :=
  match fuel with
  | O => s
  | Datatypes.S f => if cond s then while_fuel f cond body (body s) else s
  end.

(* placeholder type of a definition the translator could not translate: every theorem that
   mentions the definition stops type-checking, everything else keeps building *)
Inductive gen_untranslatable : Set := Untranslatable.

(* ---- deep embedding of the expression language (used for the statements about the
        intermediates of the stabilised formulas) ---- *)
Inductive fn1 := Fexp | Fln | Ftanh | Fsin | Fcos | Ftan | Fsqrt | Fabs.
Inductive cmpop := Cgt | Clt | Cle | Cge.

Inductive expr :=
| EVar (n : nat)
| EInt (z : Z)
| EFrac (p q : Z)
| ENeg (a : expr)
| EAdd (a b : expr) | ESub (a b : expr) | EMul (a b : expr) | EDiv (a b : expr)
| EPow (a b : expr)
| EFun (f : fn1) (a : expr)
| ECmp (c : cmpop) (a b : expr)
| EIf (c : cmpop) (a b t e : expr).

Definition fn1_sem (f : fn1) : R -> R :=
  match f with
  | Fexp => exp | Fln => ln | Ftanh => tanh | Fsin => sin | Fcos => cos | Ftan => tan
  | Fsqrt => sqrt | Fabs => Rabs
  end.

Definition cmpP (c : cmpop) (a b : R) : Prop :=
  match c with Cgt => a > b | Clt => a < b | Cle => a <= b | Cge => a >= b end.

Definition cmp_dec (c : cmpop) (a b : R) : {cmpP c a b} + {~ cmpP c a b} :=
  match c return {cmpP c a b} + {~ cmpP c a b} with
  | Cgt => Rgt_dec a b | Clt => Rlt_dec a b | Cle => Rle_dec a b | Cge => Rge_dec a b
  end.

Fixpoint eval (env : list R) (e : expr) : R :=
  match e with
  | EVar n => nth n env 0
  | EInt z => IZR z
  | EFrac p q => IZR p / IZR q
  | ENeg a => - eval env a
  | EAdd a b => eval env a + eval env b
  | ESub a b => eval env a - eval env b
  | EMul a b => eval env a * eval env b
  | EDiv a b => eval env a / eval env b
  | EPow a b => Rpower (eval env a) (eval env b)
  | EFun f a => fn1_sem f (eval env a)
  | ECmp c a b => b01 (cmp_dec c (eval env a) (eval env b))
  | EIf c a b t e => if cmp_dec c (eval env a) (eval env b) then eval env t else eval env e
  end.

(* the sub-expressions the C++ actually evaluates for the inputs [env]: both operands of every
   arithmetic operator and comparison, but only the taken branch of `?:` *)
Fixpoint evaluated (env : list R) (e : expr) : list expr :=
  e :: match e with
       | EVar _ | EInt _ | EFrac _ _ => []
       | ENeg a | EFun _ a => evaluated env a
       | EAdd a b | ESub a b | EMul a b | EDiv a b | EPow a b | ECmp _ a b =>
           evaluated env a ++ evaluated env b
       | EIf c a b t e =>
           evaluated env a ++ evaluated env b ++
           (if cmp_dec c (eval env a) (eval env b) then evaluated env t else evaluated env e)
       end.

(* "every argument of exp is <= 0" and "every intermediate has magnitude <= B" *)
Definition exp_args_nonpos (env : list R) (e : expr) : Prop :=
  forall a, In (EFun Fexp a) (evaluated env e) -> eval env a <= 0.

Definition intermediates_within (B : R) (env : list R) (e : expr) : Prop :=
  forall s, In s (evaluated env e) -> Rabs (eval env s) <= B.
