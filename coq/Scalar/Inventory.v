(* Inventory of primitiv/devices/naive/ops: types, the REVIEWED lists and the decision procedure
   for the completeness obligation of the elementwise translator (translate/gen_scalar.py).
   No proofs here.  The data (Gen/ScalarInventory.v) is regenerated from the tree on every check;
   the lemmas about it are in Scalar/InventoryCheck.v, the obligations in
   Props/Properties_C01_inventory.v.

   Why: the translator is driven by what it recognises.  An invocation of a macro kind it does not
   know, a hand-written kernel function it has no reader for, a new file, or text switched on/off
   by the preprocessor would be ignored in silence and the theorems about Gen/ScalarGen.v would
   keep checking.  The inventory lists everything that is there; the obligation is that everything
   is either translated or on the reviewed list below. *)
From Coq Require Import String List Bool Arith.
Import ListNotations.
Local Open Scope string_scope.

Inductive file_class :=
| FElementwise     (* contains CPUDEV_* invocations and/or hand-written functions the translator reads *)
| FKernel          (* hand-written kernel that is not an elementwise formula (translator's label) *)
| FUnknown.        (* anything else *)

Inductive macro_class :=
| MKind            (* CPUDEV_* macro of a kind the translator reads (signature and update statement parsed) *)
| MHelper          (* helper macro whose body is literally the reviewed text (REPEAT_OP, CDATA, MDATA, MAYBE_USED) *)
| MUnknown.

Record file_entry := mk_file {
  fe_name : string;
  fe_class : file_class;
  fe_invocations : nat;        (* CPUDEV_<anything>( ... ) invocations in the file *)
  fe_inv_translated : nat;     (* ... of which became a definition of Gen/ScalarGen.v *)
  fe_functions : nat;          (* hand-written `Naive::<f>(` function definitions in the file *)
  fe_fn_translated : nat       (* ... of which the translator read completely *)
}.

(* REVIEWED: the files of devices/naive/ops that hold no elementwise formula (data movement,
   reductions, products, random numbers, memory; modelled by the tensor / random / cow engines),
   each with the number of `Naive::` functions it had when it was reviewed.  This list decides;
   the translator's copy only chooses the label. *)
Definition reviewed_kernels : list (string * nat) :=
  [("argmax.cc", 1); ("argmin.cc", 1); ("batch_concat.cc", 1); ("batch_pick.cc", 2); ("batch_slice.cc", 2);
   ("batch_sum.cc", 1); ("broadcast.cc", 1); ("concat.cc", 1); ("conv2d.cc", 2); ("copy_tensor.cc", 1);
   ("dump_description.cc", 1); ("flip.cc", 2); ("identity.cc", 1); ("inplace_add.cc", 1);
   ("inplace_multiply_const.cc", 1); ("inplace_subtract.cc", 1); ("matmul.cc", 2); ("max.cc", 2);
   ("max_pool2d.cc", 2); ("min.cc", 2); ("new_handle.cc", 1); ("permute_dims.cc", 2); ("pick.cc", 2);
   ("random_bernoulli.cc", 1); ("random_log_normal.cc", 1); ("random_normal.cc", 1); ("random_uniform.cc", 1);
   ("reset_tensor.cc", 1); ("reset_tensor_by_array.cc", 1); ("slice.cc", 2); ("sum.cc", 1);
   ("tensor_to_vector.cc", 1); ("transpose.cc", 2)].

Definition reviewed (name : string) (nfun : nat) : bool :=
  existsb (fun r => String.eqb (fst r) name && Nat.eqb (snd r) nfun) reviewed_kernels.

(* a file is accounted for *)
Definition file_ok (e : file_entry) : bool :=
  match fe_class e with
  | FElementwise =>
      Nat.ltb 0 (fe_invocations e + fe_functions e)
      && Nat.eqb (fe_inv_translated e) (fe_invocations e)
      && Nat.eqb (fe_fn_translated e) (fe_functions e)
  | FKernel => Nat.eqb (fe_invocations e) 0 && reviewed (fe_name e) (fe_functions e)
  | FUnknown => false
  end.

Definition macro_ok (m : string * macro_class) : bool :=
  match snd m with MUnknown => false | _ => true end.

Definition is_nil {A} (l : list A) : bool := match l with [] => true | _ => false end.

Definition inventory_ok (files : list file_entry) (macros : list (string * macro_class)) (conds : list string) : bool :=
  forallb file_ok files && forallb macro_ok macros && is_nil conds.

Definition count_class (c : file_class) (files : list file_entry) : nat :=
  length (filter (fun e => match fe_class e, c with
                           | FElementwise, FElementwise | FKernel, FKernel | FUnknown, FUnknown => true
                           | _, _ => false end) files).

Definition find_file (name : string) (files : list file_entry) : option file_entry :=
  find (fun e => String.eqb (fe_name e) name) files.
