(* pown.cc: the transcribed exponentiation-by-squaring loop computes x^|k| (inverted for
   k < 0) for EVERY int32 k, including min_k = -2^31; and pown_bw is its derivative.
   The loop theorem is proved once for an arbitrary monoid (T, one, mul) -- in particular any
   commutative ring or field -- about a reviewed copy of the loop; `gen_pown_*_matches` ties
   the regenerated loop (Gen/ScalarGen.v: pown_loop_cond / pown_loop_body) to that copy. *)
From Coq Require Import Reals Lra ZArith NArith Lia.
From Coquelicot Require Import Coquelicot.
From PV Require Import Scalar.ScalarBase Gen.ScalarGen.

(* ---- exponentiation by squaring over any monoid ---- *)
Section SquareAndMultiply.
  Context {T : Type} (one : T) (mul : T -> T -> T).
  Hypothesis mul_assoc : forall a b c, mul a (mul b c) = mul (mul a b) c.
  Hypothesis one_l : forall a, mul one a = a.
  Hypothesis one_r : forall a, mul a one = a.

  Fixpoint mpow (x : T) (n : nat) : T :=
    match n with O => one | S m => mul x (mpow x m) end.

  (* reviewed copy of the loop of pown.cc:22-30 *)
  Definition sq_cond (st : T * T * N) : bool :=
    let '(_, _, remain) := st in negb (N.eqb remain 0).
  Definition sq_body (st : T * T * N) : T * T * N :=
    let '(ret, factor, remain) := st in
    (if negb (N.eqb (N.land remain 1) 0) then mul ret factor else ret,
     mul factor factor, N.shiftr remain 1).

  Lemma mpow_add x a b : mpow x (a + b) = mul (mpow x a) (mpow x b).
  Proof. induction a; simpl; [now rewrite one_l | now rewrite IHa, mul_assoc]. Qed.

  Lemma mpow_sq x n : mpow (mul x x) n = mpow x (n + n).
  Proof.
    induction n; simpl; [reflexivity|].
    rewrite IHn. replace (n + S n)%nat with (S (n + n)) by lia. simpl. now rewrite mul_assoc.
  Qed.

  Lemma sq_loop_correct fuel : forall ret factor remain,
    (remain < 2 ^ N.of_nat fuel)%N ->
    exists f', while_fuel fuel sq_cond sq_body (ret, factor, remain)
               = (mul ret (mpow factor (N.to_nat remain)), f', 0%N).
  Proof.
    induction fuel as [|fuel IH]; intros ret factor remain Hlt.
    - simpl in Hlt. assert (remain = 0%N) by lia. subst. simpl. rewrite one_r. eauto.
    - cbn [while_fuel]. unfold sq_cond at 1.
      destruct (N.eqb_spec remain 0) as [->|Hnz]; cbn [negb].
      + simpl. rewrite one_r. eauto.
      + assert (Hland : N.land remain 1 = (remain mod 2)%N) by (apply (N.land_ones remain 1)).
        assert (Hshr : N.shiftr remain 1 = (remain / 2)%N) by (rewrite N.shiftr_div_pow2; reflexivity).
        replace (sq_body (ret, factor, remain))
          with (if negb (N.eqb (remain mod 2) 0) then mul ret factor else ret,
                mul factor factor, (remain / 2)%N)
          by (unfold sq_body; rewrite Hland, Hshr; reflexivity).
        assert (Hdm : remain = (2 * (remain / 2) + remain mod 2)%N) by (apply N.div_mod; lia).
        assert (Hm : (remain mod 2 < 2)%N) by (apply N.mod_lt; lia).
        assert (Hq : (remain / 2 < 2 ^ N.of_nat fuel)%N).
        { apply N.div_lt_upper_bound; [lia|]. rewrite Nat2N.inj_succ, N.pow_succ_r' in Hlt. lia. }
        destruct (IH (if negb (N.eqb (remain mod 2) 0) then mul ret factor else ret)
                     (mul factor factor) (remain / 2)%N Hq) as [f' E].
        exists f'. rewrite E. f_equal. f_equal.
        rewrite mpow_sq.
        set (q := N.to_nat (remain / 2)).
        assert (Hn : N.to_nat remain = (q + q + N.to_nat (remain mod 2))%nat) by (subst q; lia).
        rewrite Hn.
        destruct (N.eqb_spec (remain mod 2) 0) as [E0|E1]; cbn [negb].
        * rewrite E0. simpl. now rewrite Nat.add_0_r.
        * assert (remain mod 2 = 1)%N as -> by lia.
          replace (q + q + N.to_nat 1)%nat with (1 + (q + q))%nat by lia.
          rewrite (mpow_add factor 1 (q + q)). simpl. rewrite one_r. now rewrite mul_assoc.
  Qed.
End SquareAndMultiply.

Local Open Scope R_scope.

Lemma mpow_R x n : mpow 1 Rmult x n = x ^ n.
Proof. induction n; simpl; congruence. Qed.

Lemma while_fuel_ext {S} fuel (c c' : S -> bool) (b b' : S -> S) :
  (forall s, c s = c' s) -> (forall s, b s = b' s) ->
  forall s, while_fuel fuel c b s = while_fuel fuel c' b' s.
Proof.
  intros Hc Hb. induction fuel; intros s; simpl; [reflexivity|].
  rewrite Hc. destruct (c' s); [rewrite Hb; apply IHfuel | reflexivity].
Qed.

(* gen_matches: the regenerated loop is the reviewed square-and-multiply loop over the monoid (R, 1, Rmult) *)
Lemma gen_pown_cond_matches st : pown_loop_cond st = sq_cond st.
Proof. destruct st as [[r f] n]. reflexivity. Qed.
Lemma gen_pown_body_matches st : pown_loop_body st = sq_body Rmult st.
Proof.
  destruct st as [[r f] n].
  first [ reflexivity
        | cbv [pown_loop_body sq_body]; repeat f_equal; try ring; destruct (negb _); ring ].
Qed.

Definition int32 (k : Z) : Prop := (-2147483648 <= k <= 2147483647)%Z.

Lemma abs_k_u32 k : int32 k ->
  u32_of_Z (if Z.eqb k (-2147483648) then (-2147483648)%Z else Z.abs k) = Z.to_N (Z.abs k)
  /\ (Z.to_N (Z.abs k) < 2 ^ 32)%N.
Proof.
  unfold int32, u32_of_Z. intros H.
  destruct (Z.eqb_spec k (-2147483648)) as [->|Hne].
  - split; [reflexivity | vm_compute; reflexivity].
  - split.
    + f_equal. apply Z.mod_small. lia.
    + change (2 ^ 32)%N with (Z.to_N 4294967296). apply Z2N.inj_lt; lia.
Qed.

(* pown_fw_impl computes x^|k| for k >= 0 and 1 / x^|k| for k < 0, for every int32 k
   including min_k = -2^31 (whose |k| = 2^31 is obtained through the uint32 conversion) *)
Theorem fw_pown_spec x k : int32 k ->
  fw_pown x k = if (0 <=? k)%Z then x ^ Z.abs_nat k else 1 / x ^ Z.abs_nat k.
Proof.
  intros Hk. destruct (abs_k_u32 k Hk) as [Habs Hlt].
  unfold fw_pown. cbv zeta. rewrite Habs.
  rewrite (while_fuel_ext 32 _ sq_cond _ (sq_body Rmult) gen_pown_cond_matches gen_pown_body_matches).
  destruct (sq_loop_correct 1 Rmult
             (fun a b c => eq_sym (Rmult_assoc a b c)) Rmult_1_l Rmult_1_r 32 1 x (Z.to_N (Z.abs k)) Hlt)
    as [f' E].
  rewrite E. rewrite Rmult_1_l, mpow_R.
  replace (N.to_nat (Z.to_N (Z.abs k))) with (Z.abs_nat k) by lia.
  reflexivity.
Qed.

Corollary fw_pown_powerRZ x k : int32 k -> fw_pown x k = powerRZ x k.
Proof.
  intros Hk. rewrite (fw_pown_spec x k Hk).
  destruct k as [|p|p]; cbn [Z.leb Z.compare Z.abs_nat powerRZ].
  - reflexivity.
  - reflexivity.
  - unfold Rdiv. now rewrite Rmult_1_l.
Qed.

Lemma d_pown x k : int32 k -> x <> 0 ->
  is_derive (fun x => fw_pown x k) x (bw_pown x (fw_pown x k) 1 k).
Proof.
  intros Hk Hx.
  apply (is_derive_ext (fun t => if (0 <=? k)%Z then t ^ Z.abs_nat k else 1 / t ^ Z.abs_nat k));
    [intro t; symmetry; apply fw_pown_spec; exact Hk|].
  rewrite (fw_pown_spec x k Hk). unfold bw_pown.
  destruct (Z.leb_spec 0 k) as [Hnn|Hneg].
  - assert (HI : IZR k = INR (Z.abs_nat k)) by (rewrite INR_IZR_INZ; f_equal; lia).
    rewrite HI. destruct (Z.abs_nat k) as [|m].
    + simpl. auto_derive; [exact I | field; exact Hx].
    + auto_derive; [exact I|].
      change (match m with 0%nat => 1 | S _ => INR m + 1 end) with (INR (S m)).
      rewrite S_INR. simpl. field. exact Hx.
  - assert (HI : IZR k = - INR (Z.abs_nat k)) by (rewrite INR_IZR_INZ, <- opp_IZR; f_equal; lia).
    rewrite HI. destruct (Z.abs_nat k) as [|m].
    + simpl. auto_derive; [ lra | field; exact Hx].
    + assert (x ^ S m <> 0) by (apply pow_nonzero; exact Hx).
      auto_derive; [ exact H |].
      change (match m with 0%nat => 1 | S _ => INR m + 1 end) with (INR (S m)).
      rewrite S_INR. simpl.
      assert (x ^ m <> 0) by (apply pow_nonzero; exact Hx). field. split; assumption.
Qed.

(* grouped statement used by Props/Properties_C01_scalar.v *)
Theorem pown_all x k : int32 k ->
  fw_pown x k = (if (0 <=? k)%Z then x ^ Z.abs_nat k else 1 / x ^ Z.abs_nat k) /\
  fw_pown x k = powerRZ x k /\
  (x <> 0 -> is_derive (fun x => fw_pown x k) x (bw_pown x (fw_pown x k) 1 k)) /\
  (forall y gy, bw_pown x y gy k = gy * bw_pown x y 1 k).
Proof.
  intros Hk. split; [apply fw_pown_spec; exact Hk|]. split; [apply fw_pown_powerRZ; exact Hk|].
  split; [intro Hx; apply d_pown; assumption|].
  intros y gy. unfold bw_pown, Rdiv. ring.
Qed.

(* What the hypothesis x <> 0 of d_pown hides.  x^k (k >= 1) is smooth at 0, but the kernel
   computes k * gy * y / x = 0/0 there (NaN in float32; 0 in Coq's totalised division): for
   k = 1 the true derivative is 1 and the formula does not yield it.  The implementation is
   probed at x = 0 by engines/scalar.py (returns NaN for every k). *)
Theorem pown_bw_at_zero_refuted :
  exists x k, int32 k /\ is_derive (fun x => fw_pown x k) x 1 /\ bw_pown x (fw_pown x k) 1 k <> 1.
Proof.
  exists 0, 1%Z. assert (Hk : int32 1) by (unfold int32; lia).
  split; [exact Hk|]. split.
  - apply (is_derive_ext (fun t => t ^ 1)).
    + intro t. rewrite (fw_pown_spec t 1 Hk). reflexivity.
    + auto_derive; [exact I | simpl; ring].
  - rewrite (fw_pown_spec 0 1 Hk). unfold bw_pown. simpl. unfold Rdiv.
    rewrite !Rmult_0_l, Rmult_0_r, Rmult_0_l. lra.
Qed.
