(* Lemmas about the regenerated inventory Gen/ScalarInventory.v (decided by computation on the data
   of the current tree). *)
From Coq Require Import String List Bool Arith.
From PV Require Import Scalar.Inventory Gen.ScalarInventory.
Import ListNotations.
Local Open Scope string_scope.

Lemma inventory_decided : inventory_ok inv_files inv_macros inv_conditionals = true.
Proof. vm_compute. reflexivity. Qed.

Lemma every_file_accounted_for e : In e inv_files -> file_ok e = true.
Proof.
  intro H. pose proof inventory_decided as D. unfold inventory_ok in D.
  apply andb_prop in D. destruct D as [D _]. apply andb_prop in D. destruct D as [D _].
  rewrite forallb_forall in D. exact (D e H).
Qed.

Lemma file_ok_not_unknown e : file_ok e = true -> fe_class e <> FUnknown.
Proof. unfold file_ok. destruct (fe_class e); intros H E; discriminate. Qed.

Lemma file_ok_elementwise e :
  file_ok e = true -> fe_class e = FElementwise ->
  fe_inv_translated e = fe_invocations e /\ fe_fn_translated e = fe_functions e.
Proof.
  unfold file_ok. intros H E. rewrite E in H.
  apply andb_prop in H. destruct H as [H Hf]. apply andb_prop in H. destruct H as [_ Hi].
  split; apply Nat.eqb_eq; assumption.
Qed.

Lemma file_ok_kernel e :
  file_ok e = true -> fe_class e = FKernel ->
  fe_invocations e = 0 /\ In (fe_name e, fe_functions e) reviewed_kernels.
Proof.
  unfold file_ok, reviewed. intros H E. rewrite E in H.
  apply andb_prop in H. destruct H as [Hi Hr]. split. { apply Nat.eqb_eq; assumption. }
  apply existsb_exists in Hr. destruct Hr as [[n k] [Hin Hr]]. cbn in Hr.
  apply andb_prop in Hr. destruct Hr as [Hn Hk].
  apply String.eqb_eq in Hn. apply Nat.eqb_eq in Hk. subst. exact Hin.
Qed.

Lemma every_file_classified e :
  In e inv_files ->
  (fe_class e = FElementwise /\ fe_inv_translated e = fe_invocations e /\ fe_fn_translated e = fe_functions e)
  \/ (fe_class e = FKernel /\ fe_invocations e = 0 /\ In (fe_name e, fe_functions e) reviewed_kernels).
Proof.
  intro H. pose proof (every_file_accounted_for e H) as K.
  destruct (fe_class e) eqn:E.
  - left. split; [reflexivity | exact (file_ok_elementwise e K E)].
  - right. split; [reflexivity | exact (file_ok_kernel e K E)].
  - exfalso. exact (file_ok_not_unknown e K E).
Qed.

Lemma every_macro_known m : In m inv_macros -> snd m <> MUnknown.
Proof.
  intro H. pose proof inventory_decided as D. unfold inventory_ok in D.
  apply andb_prop in D. destruct D as [D _]. apply andb_prop in D. destruct D as [_ D].
  rewrite forallb_forall in D. specialize (D m H). unfold macro_ok in D.
  intro E. rewrite E in D. discriminate.
Qed.

Lemma no_conditional_compilation : inv_conditionals = [].
Proof.
  pose proof inventory_decided as D. unfold inventory_ok in D.
  apply andb_prop in D. destruct D as [_ D]. destruct inv_conditionals; [reflexivity | discriminate].
Qed.

Lemma inventory_nonvacuous :
  Nat.ltb 15 (count_class FElementwise inv_files) = true /\
  Nat.ltb 25 (count_class FKernel inv_files) = true /\
  option_map fe_class (find_file "exp.cc" inv_files) = Some FElementwise /\
  option_map fe_invocations (find_file "exp.cc" inv_files) = Some 2 /\
  option_map fe_class (find_file "pown.cc" inv_files) = Some FElementwise /\
  option_map fe_functions (find_file "pown.cc" inv_files) = Some 2 /\
  option_map fe_class (find_file "conv2d.cc" inv_files) = Some FKernel /\
  In ("CPUDEV_FW_X", MKind) inv_macros /\ In ("REPEAT_OP", MHelper) inv_macros.
Proof. vm_compute. repeat split; auto 12. Qed.
