(* Elementwise stable formulations: the generated forward formulas of sigmoid.cc and
   softplus.cc equal the documented functions 1/(1+e^-x) and ln(1+e^x)
   (primitiv/core/basic_functions.h:708-722).  Plain Reals, no Coquelicot. *)
From Coq Require Import Reals Lra.
From PV Require Import Scalar.ScalarBase Gen.ScalarGen.
Local Open Scope R_scope.

Local Ltac cmp_cases :=
  unfold b01, Rmax, Rmin in *;
  repeat match goal with
  | |- context [Rgt_dec ?a ?b] => destruct (Rgt_dec a b)
  | |- context [Rlt_dec ?a ?b] => destruct (Rlt_dec a b)
  | |- context [Rle_dec ?a ?b] => destruct (Rle_dec a b)
  | |- context [Rge_dec ?a ?b] => destruct (Rge_dec a b)
  end; try lra.

Lemma tanh_half_sigmoid x : 1 / 2 + 1 / 2 * tanh (1 / 2 * x) = 1 / (1 + exp (- x)).
Proof.
  unfold tanh, sinh, cosh.
  replace (exp (- x)) with (/ (exp (1 / 2 * x) * exp (1 / 2 * x)))
    by (rewrite <- exp_plus, <- exp_Ropp; f_equal; field).
  rewrite exp_Ropp. pose proof (exp_pos (1 / 2 * x)) as P.
  generalize dependent (exp (1 / 2 * x)). intros E P. field. split; nra.
Qed.

(* sigmoid.cc:11.  The alternatives accept the tanh form up to ring rewriting and the
   documented form written directly with exp. *)
Theorem sigmoid_tanh_eq x : fw_sigmoid x = 1 / (1 + exp (- x)).
Proof.
  unfold fw_sigmoid.
  first [ reflexivity
        | rewrite <- (tanh_half_sigmoid x); ring
        | pose proof (exp_pos (- x)); field; lra
        | rewrite <- (tanh_half_sigmoid x); f_equal; f_equal; f_equal; field ].
Qed.

Theorem sigmoid_range x : 0 < fw_sigmoid x < 1.
Proof.
  rewrite sigmoid_tanh_eq. pose proof (exp_pos (- x)) as H.
  assert (Hi : 0 < / (1 + exp (- x))) by (apply Rinv_0_lt_compat; lra).
  assert (Hm : (1 + exp (- x)) * / (1 + exp (- x)) = 1) by (apply Rinv_r; lra).
  unfold Rdiv. rewrite Rmult_1_l. split; [exact Hi | nra].
Qed.

(* softplus.cc:11-14: x > 0 ? x + log(1 + exp(-x)) : log(1 + exp(x)) *)
Theorem softplus_stable_eq x : fw_softplus x = ln (1 + exp x).
Proof.
  unfold fw_softplus. cmp_cases.
  pose proof (exp_pos x). pose proof (exp_pos (- x)).
  rewrite <- (ln_exp x) at 1. rewrite <- ln_mult by lra. f_equal.
  rewrite exp_Ropp. field. lra.
Qed.

(* softplus.cc:15: the backward factor is the logistic function *)
Lemma bw_softplus_sigmoid x y gy : bw_softplus x y gy = gy / (1 + exp (- x)).
Proof.
  unfold bw_softplus. pose proof (exp_pos (- x)).
  first [ rewrite tanh_half_sigmoid; field; lra
        | replace (gy / (1 + exp (- x))) with (gy * (1 / (1 + exp (- x)))) by (field; lra);
          rewrite <- (tanh_half_sigmoid x); ring
        | field; lra ].
Qed.

(* the pairwise update of logsumexp.cc:25-27 is ln (e^a + e^b) -- proved in Stable.v;
   grouped statement about sigmoid / softplus used by Props/Properties_C02_scalar.v *)
Theorem stable_elem_all x :
  fw_softplus x = ln (1 + exp x) /\ fw_sigmoid x = 1 / (1 + exp (- x)) /\ 0 < fw_sigmoid x < 1.
Proof. exact (conj (softplus_stable_eq x) (conj (sigmoid_tanh_eq x) (sigmoid_range x))). Qed.
