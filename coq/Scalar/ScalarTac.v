(* Tactics and two analysis lemmas shared by the proofs about Gen/ScalarGen.v.
   The tactics never match on the exact shape of a generated formula: comparisons are split
   by cases, algebra is left to ring/field/lra, derivatives to Coquelicot's auto_derive, so a
   harmless algebraic rewrite of the C++ keeps the proofs alive and a real change breaks them. *)
From Coq Require Import Reals Lra.
From Coquelicot Require Import Coquelicot.
From PV Require Import Scalar.ScalarBase.
Local Open Scope R_scope.

Ltac cmp_cases :=
  unfold b01, Rmax, Rmin in *;
  repeat match goal with
  | |- context [Rgt_dec ?a ?b] => destruct (Rgt_dec a b)
  | |- context [Rlt_dec ?a ?b] => destruct (Rlt_dec a b)
  | |- context [Rle_dec ?a ?b] => destruct (Rle_dec a b)
  | |- context [Rge_dec ?a ?b] => destruct (Rge_dec a b)
  end; try lra.

(* side conditions produced by auto_derive / field *)
Ltac side :=
  repeat split; auto; try assumption; try lra;
  try (apply Rgt_not_eq; apply exp_pos); try apply exp_pos;
  try (apply Rgt_not_eq; lra).

(* "derivative computed by auto_derive = generated backward formula at gy = 1" *)
Ltac deq :=
  try (simpl; ring);
  try (simpl; field; side);
  try (simpl; field_simplify_eq; side; ring).

Lemma is_derive_loc_pos (f g : R -> R) (x l : R) :
  0 < x -> (forall t, 0 < t -> g t = f t) -> is_derive g x l -> is_derive f x l.
Proof.
  intros Hx Heq Hd. apply (is_derive_ext_loc g f x l); [|exact Hd].
  apply (locally_open (fun t => 0 < t)); [apply open_gt | exact Heq | exact Hx].
Qed.

Lemma is_derive_loc_neg (f g : R -> R) (x l : R) :
  x < 0 -> (forall t, t < 0 -> g t = f t) -> is_derive g x l -> is_derive f x l.
Proof.
  intros Hx Heq Hd. apply (is_derive_ext_loc g f x l); [|exact Hd].
  apply (locally_open (fun t => t < 0)); [apply open_lt | exact Heq | exact Hx].
Qed.

Lemma cosh_pos x : 0 < cosh x.
Proof. unfold cosh. pose proof (exp_pos x). pose proof (exp_pos (-x)). lra. Qed.
