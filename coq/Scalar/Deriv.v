(* C01, element level: every generated backward formula is the derivative of the generated
   forward formula on the smooth domain, and is linear in the upstream gradient gy.

   Statement shape (unary):   is_derive fw_op x (bw_op x (fw_op x) 1)
   i.e. the kernel is given x, the forward result y = fw_op x and gy = 1, exactly what
   Device::op_bw passes.  Together with `bw_op x y gy = gy * bw_op x y 1` this is the
   vector-Jacobian product of a diagonal Jacobian.  Domains are hypotheses of the theorems
   (Coq totalises 1/0 = 0 and ln on non-positives, so nothing is claimed outside them).
   std::pow(a,b) is modelled as Rpower a b = exp (b * ln a), valid for a > 0. *)
From Coq Require Import Reals Lra ZArith.
From Coquelicot Require Import Coquelicot.
From PV Require Import Scalar.ScalarBase Gen.ScalarGen Scalar.ScalarTac Scalar.StableElem.
Local Open Scope R_scope.

(* ---- unary (CPUDEV_FW_X / CPUDEV_BW_X) ---- *)
Lemma d_exp x : is_derive fw_exp x (bw_exp x (fw_exp x) 1).
Proof. intros. unfold fw_exp, bw_exp. auto_derive; [side | deq]. Qed.
Lemma d_log x : 0 < x -> is_derive fw_log x (bw_log x (fw_log x) 1).
Proof. intros. unfold fw_log, bw_log. auto_derive; [side | deq]. Qed.
Lemma d_sin x : is_derive fw_sin x (bw_sin x (fw_sin x) 1).
Proof. intros. unfold fw_sin, bw_sin. auto_derive; [side | deq]. Qed.
Lemma d_cos x : is_derive fw_cos x (bw_cos x (fw_cos x) 1).
Proof. intros. unfold fw_cos, bw_cos. auto_derive; [side | deq]. Qed.
Lemma d_sqrt x : 0 < x -> is_derive fw_sqrt x (bw_sqrt x (fw_sqrt x) 1).
Proof.
  intros. unfold fw_sqrt, bw_sqrt. auto_derive; [side | ].
  assert (sqrt x <> 0) by (apply Rgt_not_eq, sqrt_lt_R0; lra). field; side.
Qed.
Lemma d_tan x : cos x <> 0 -> is_derive fw_tan x (bw_tan x (fw_tan x) 1).
Proof.
  intros. unfold fw_tan, bw_tan, tan. auto_derive; [side | ].
  pose proof (sin2_cos2 x) as E. unfold Rsqr in E. field_simplify_eq; side; try nra.
Qed.
Lemma d_tanh x : is_derive fw_tanh x (bw_tanh x (fw_tanh x) 1).
Proof.
  unfold fw_tanh, bw_tanh, tanh. pose proof (cosh_pos x). auto_derive; [side | field; side].
Qed.
Lemma d_abs x : x <> 0 -> is_derive fw_abs x (bw_abs x (fw_abs x) 1).
Proof.
  intros. unfold fw_abs, bw_abs. auto_derive; [side|].
  unfold sign. destruct (total_order_T 0 x) as [[?|?]|?]; cmp_cases.
Qed.
Lemma d_sigmoid x : is_derive fw_sigmoid x (bw_sigmoid x (fw_sigmoid x) 1).
Proof.
  apply (is_derive_ext (fun t => 1 / (1 + exp (- t)))); [intro t; symmetry; apply sigmoid_tanh_eq|].
  rewrite sigmoid_tanh_eq. unfold bw_sigmoid. pose proof (exp_pos (- x)).
  auto_derive; [side | field; lra].
Qed.
Lemma d_softplus x : is_derive fw_softplus x (bw_softplus x (fw_softplus x) 1).
Proof.
  apply (is_derive_ext (fun t => ln (1 + exp t))); [intro t; symmetry; apply softplus_stable_eq|].
  rewrite bw_softplus_sigmoid. pose proof (exp_pos x).
  auto_derive; [lra | rewrite exp_Ropp; field; lra].
Qed.

(* ---- constant operand (CPUDEV_FW_X_CONST / CPUDEV_BW_X_CONST); note the L/R asymmetry:
        subtract_const_l = k - x, divide_const_l = k / x, pow_const_l = k ^ x ---- *)
Lemma d_add_const x k : is_derive (fun x => fw_add_const x k) x (bw_add_const x (fw_add_const x k) 1 k).
Proof. intros. unfold fw_add_const, bw_add_const. auto_derive; [side | deq]. Qed.
Lemma d_subtract_const_r x k : is_derive (fun x => fw_subtract_const_r x k) x (bw_subtract_const_r x (fw_subtract_const_r x k) 1 k).
Proof. intros. unfold fw_subtract_const_r, bw_subtract_const_r. auto_derive; [side | deq]. Qed.
Lemma d_subtract_const_l x k : is_derive (fun x => fw_subtract_const_l x k) x (bw_subtract_const_l x (fw_subtract_const_l x k) 1 k).
Proof. intros. unfold fw_subtract_const_l, bw_subtract_const_l. auto_derive; [side | deq]. Qed.
Lemma d_multiply_const x k : is_derive (fun x => fw_multiply_const x k) x (bw_multiply_const x (fw_multiply_const x k) 1 k).
Proof. intros. unfold fw_multiply_const, bw_multiply_const. auto_derive; [side | deq]. Qed.
Lemma d_divide_const_r x k : k <> 0 -> is_derive (fun x => fw_divide_const_r x k) x (bw_divide_const_r x (fw_divide_const_r x k) 1 k).
Proof. intros. unfold fw_divide_const_r, bw_divide_const_r. auto_derive; [side | deq]. Qed.
Lemma d_divide_const_l x k : x <> 0 -> is_derive (fun x => fw_divide_const_l x k) x (bw_divide_const_l x (fw_divide_const_l x k) 1 k).
Proof. intros. unfold fw_divide_const_l, bw_divide_const_l. auto_derive; [side | deq]. Qed.
Lemma d_pow_const_r x k : 0 < x -> is_derive (fun x => fw_pow_const_r x k) x (bw_pow_const_r x (fw_pow_const_r x k) 1 k).
Proof. intros. unfold fw_pow_const_r, bw_pow_const_r, Rpower. auto_derive; [side | deq]. Qed.
Lemma d_pow_const_l x k : 0 < k -> is_derive (fun x => fw_pow_const_l x k) x (bw_pow_const_l x (fw_pow_const_l x k) 1 k).
Proof. intros. unfold fw_pow_const_l, bw_pow_const_l, Rpower. auto_derive; [side | deq]. Qed.

(* piecewise ops: smooth away from 0; on each side the function agrees locally with a smooth one *)
Lemma d_prelu x k : x <> 0 -> is_derive (fun x => fw_prelu x k) x (bw_prelu x (fw_prelu x k) 1 k).
Proof.
  intros Hx. destruct (Rlt_dec 0 x) as [Hp|Hn].
  - apply (is_derive_loc_pos _ (fun t => t) x); [lra | intros t Ht; unfold fw_prelu; cmp_cases; ring |].
    unfold bw_prelu. auto_derive; [side | cmp_cases; ring].
  - apply (is_derive_loc_neg _ (fun t => k * t) x); [lra | intros t Ht; unfold fw_prelu; cmp_cases; ring |].
    unfold bw_prelu. auto_derive; [side | cmp_cases; ring].
Qed.

Lemma d_elu x k : x <> 0 -> is_derive (fun x => fw_elu x k) x (bw_elu x (fw_elu x k) 1 k).
Proof.
  intros Hx. destruct (Rlt_dec 0 x) as [Hp|Hn].
  - apply (is_derive_loc_pos _ (fun t => t) x); [lra | |].
    + intros t Ht. unfold fw_elu. cmp_cases. rewrite ?Rmult_0_r, ?exp_0. ring.
    + unfold bw_elu. auto_derive; [side | cmp_cases; ring].
  - apply (is_derive_loc_neg _ (fun t => k * (exp t - 1)) x); [lra | |].
    + intros t Ht. unfold fw_elu. cmp_cases. rewrite ?Rmult_1_r, ?Rmult_0_r. ring.
    + unfold bw_elu, fw_elu. auto_derive; [side | cmp_cases; rewrite ?Rmult_1_r, ?Rmult_0_r; ring].
Qed.

(* relu / lrelu / selu are prelu / elu with fixed constants: tensor_funcs.cc:266-272
   (relu = prelu_fw(x, 0), lrelu = prelu_fw(x, .01)), contrib/functions.h:27-31 (selu = s * elu) *)
Corollary d_relu x : x <> 0 -> is_derive (fun x => fw_prelu x 0) x (bw_prelu x (fw_prelu x 0) 1 0).
Proof. apply d_prelu. Qed.
Corollary d_lrelu x : x <> 0 ->
  is_derive (fun x => fw_prelu x (1 / 100)) x (bw_prelu x (fw_prelu x (1 / 100)) 1 (1 / 100)).
Proof. apply d_prelu. Qed.
Corollary d_selu x a s : x <> 0 ->
  is_derive (fun x => fw_multiply_const (fw_elu x a) s) x
            (bw_elu x (fw_elu x a) (bw_multiply_const (fw_elu x a) (fw_multiply_const (fw_elu x a) s) 1 s) a).
Proof.
  intros Hx. pose proof (is_derive_scal _ x s _ (d_elu x a Hx)) as He.
  unfold fw_multiply_const, bw_multiply_const.
  replace (bw_elu x (fw_elu x a) (s * 1) a) with (s * bw_elu x (fw_elu x a) 1 a)
    by (unfold bw_elu; cmp_cases; ring).
  apply (is_derive_ext (fun x0 => s * fw_elu x0 a)); [intro t; apply Rmult_comm | exact He].
Qed.

(* ---- two tensor operands (CPUDEV_FW_AB and the hand-written *_bw_impl loops): both partials ---- *)
Lemma d_add_a a b : is_derive (fun a => fw_add a b) a (bw_add_a a b (fw_add a b) 1).
Proof. intros. unfold fw_add, bw_add_a. auto_derive; [side | deq]. Qed.
Lemma d_add_b a b : is_derive (fun b => fw_add a b) b (bw_add_b a b (fw_add a b) 1).
Proof. intros. unfold fw_add, bw_add_b. auto_derive; [side | deq]. Qed.
Lemma d_subtract_a a b : is_derive (fun a => fw_subtract a b) a (bw_subtract_a a b (fw_subtract a b) 1).
Proof. intros. unfold fw_subtract, bw_subtract_a. auto_derive; [side | deq]. Qed.
Lemma d_subtract_b a b : is_derive (fun b => fw_subtract a b) b (bw_subtract_b a b (fw_subtract a b) 1).
Proof. intros. unfold fw_subtract, bw_subtract_b. auto_derive; [side | deq]. Qed.
Lemma d_multiply_a a b : is_derive (fun a => fw_multiply a b) a (bw_multiply_a a b (fw_multiply a b) 1).
Proof. intros. unfold fw_multiply, bw_multiply_a. auto_derive; [side | deq]. Qed.
Lemma d_multiply_b a b : is_derive (fun b => fw_multiply a b) b (bw_multiply_b a b (fw_multiply a b) 1).
Proof. intros. unfold fw_multiply, bw_multiply_b. auto_derive; [side | deq]. Qed.
Lemma d_divide_a a b : b <> 0 -> is_derive (fun a => fw_divide a b) a (bw_divide_a a b (fw_divide a b) 1).
Proof. intros. unfold fw_divide, bw_divide_a. auto_derive; [side | deq]. Qed.
Lemma d_divide_b a b : b <> 0 -> is_derive (fun b => fw_divide a b) b (bw_divide_b a b (fw_divide a b) 1).
Proof. intros. unfold fw_divide, bw_divide_b. auto_derive; [side | deq]. Qed.
Lemma d_pow_a a b : 0 < a -> is_derive (fun a => fw_pow a b) a (bw_pow_a a b (fw_pow a b) 1).
Proof. intros. unfold fw_pow, bw_pow_a, Rpower. auto_derive; [side | deq]. Qed.
Lemma d_pow_b a b : 0 < a -> is_derive (fun b => fw_pow a b) b (bw_pow_b a b (fw_pow a b) 1).
Proof. intros. unfold fw_pow, bw_pow_b, Rpower. auto_derive; [side | deq]. Qed.

(* ---- linearity in the upstream gradient: bw x y gy = gy * bw x y 1 ---- *)
Ltac lin := intros; cbv delta [bw_abs bw_exp bw_log bw_sin bw_cos bw_tan bw_tanh bw_sqrt bw_sigmoid bw_softplus bw_add_const bw_subtract_const_r bw_subtract_const_l bw_multiply_const bw_divide_const_r bw_divide_const_l bw_pow_const_r bw_pow_const_l bw_prelu bw_elu bw_add_a bw_add_b bw_subtract_a bw_subtract_b bw_multiply_a bw_multiply_b bw_divide_a bw_divide_b bw_pow_a bw_pow_b bw_pown] beta; cmp_cases; unfold Rdiv; ring.

Theorem bw_linear_unary x y gy :
  bw_abs x y gy = gy * bw_abs x y 1 /\
  bw_exp x y gy = gy * bw_exp x y 1 /\
  bw_log x y gy = gy * bw_log x y 1 /\
  bw_sin x y gy = gy * bw_sin x y 1 /\
  bw_cos x y gy = gy * bw_cos x y 1 /\
  bw_tan x y gy = gy * bw_tan x y 1 /\
  bw_tanh x y gy = gy * bw_tanh x y 1 /\
  bw_sqrt x y gy = gy * bw_sqrt x y 1 /\
  bw_sigmoid x y gy = gy * bw_sigmoid x y 1 /\
  bw_softplus x y gy = gy * bw_softplus x y 1.
Proof. repeat split; lin. Qed.

Theorem bw_linear_const x y gy k :
  bw_add_const x y gy k = gy * bw_add_const x y 1 k /\
  bw_subtract_const_r x y gy k = gy * bw_subtract_const_r x y 1 k /\
  bw_subtract_const_l x y gy k = gy * bw_subtract_const_l x y 1 k /\
  bw_multiply_const x y gy k = gy * bw_multiply_const x y 1 k /\
  bw_divide_const_r x y gy k = gy * bw_divide_const_r x y 1 k /\
  bw_divide_const_l x y gy k = gy * bw_divide_const_l x y 1 k /\
  bw_pow_const_r x y gy k = gy * bw_pow_const_r x y 1 k /\
  bw_pow_const_l x y gy k = gy * bw_pow_const_l x y 1 k /\
  bw_prelu x y gy k = gy * bw_prelu x y 1 k /\
  bw_elu x y gy k = gy * bw_elu x y 1 k.
Proof. repeat split; lin. Qed.

Theorem bw_linear_binary a b y gy :
  bw_add_a a b y gy = gy * bw_add_a a b y 1 /\
  bw_add_b a b y gy = gy * bw_add_b a b y 1 /\
  bw_subtract_a a b y gy = gy * bw_subtract_a a b y 1 /\
  bw_subtract_b a b y gy = gy * bw_subtract_b a b y 1 /\
  bw_multiply_a a b y gy = gy * bw_multiply_a a b y 1 /\
  bw_multiply_b a b y gy = gy * bw_multiply_b a b y 1 /\
  bw_divide_a a b y gy = gy * bw_divide_a a b y 1 /\
  bw_divide_b a b y gy = gy * bw_divide_b a b y 1 /\
  bw_pow_a a b y gy = gy * bw_pow_a a b y 1 /\
  bw_pow_b a b y gy = gy * bw_pow_b a b y 1.
Proof. repeat split; lin. Qed.

Theorem bw_linear_pown x y gy k : bw_pown x y gy k = gy * bw_pown x y 1 k.
Proof. lin. Qed.

(* ---- Grouped statements (one per family; used by Props/Properties_C01_scalar.v) ---- *)
Theorem d_unary_all x :
  (is_derive fw_exp x (bw_exp x (fw_exp x) 1)) /\
  (0 < x -> is_derive fw_log x (bw_log x (fw_log x) 1)) /\
  (0 < x -> is_derive fw_sqrt x (bw_sqrt x (fw_sqrt x) 1)) /\
  (is_derive fw_sin x (bw_sin x (fw_sin x) 1)) /\
  (is_derive fw_cos x (bw_cos x (fw_cos x) 1)) /\
  (cos x <> 0 -> is_derive fw_tan x (bw_tan x (fw_tan x) 1)) /\
  (is_derive fw_tanh x (bw_tanh x (fw_tanh x) 1)) /\
  (x <> 0 -> is_derive fw_abs x (bw_abs x (fw_abs x) 1)) /\
  (is_derive fw_sigmoid x (bw_sigmoid x (fw_sigmoid x) 1)) /\
  (is_derive fw_softplus x (bw_softplus x (fw_softplus x) 1)).
Proof. exact (conj (d_exp x) (conj (d_log x) (conj (d_sqrt x) (conj (d_sin x) (conj (d_cos x) (conj (d_tan x) (conj (d_tanh x) (conj (d_abs x) (conj (d_sigmoid x) (d_softplus x)))))))))). Qed.

Theorem d_const_all x k :
  (is_derive (fun x => fw_add_const x k) x (bw_add_const x (fw_add_const x k) 1 k)) /\
  (is_derive (fun x => fw_subtract_const_r x k) x (bw_subtract_const_r x (fw_subtract_const_r x k) 1 k)) /\
  (is_derive (fun x => fw_subtract_const_l x k) x (bw_subtract_const_l x (fw_subtract_const_l x k) 1 k)) /\
  (is_derive (fun x => fw_multiply_const x k) x (bw_multiply_const x (fw_multiply_const x k) 1 k)) /\
  (k <> 0 -> is_derive (fun x => fw_divide_const_r x k) x (bw_divide_const_r x (fw_divide_const_r x k) 1 k)) /\
  (x <> 0 -> is_derive (fun x => fw_divide_const_l x k) x (bw_divide_const_l x (fw_divide_const_l x k) 1 k)) /\
  (0 < x -> is_derive (fun x => fw_pow_const_r x k) x (bw_pow_const_r x (fw_pow_const_r x k) 1 k)) /\
  (0 < k -> is_derive (fun x => fw_pow_const_l x k) x (bw_pow_const_l x (fw_pow_const_l x k) 1 k)) /\
  (x <> 0 -> is_derive (fun x => fw_prelu x k) x (bw_prelu x (fw_prelu x k) 1 k)) /\
  (x <> 0 -> is_derive (fun x => fw_elu x k) x (bw_elu x (fw_elu x k) 1 k)).
Proof. exact (conj (d_add_const x k) (conj (d_subtract_const_r x k) (conj (d_subtract_const_l x k) (conj (d_multiply_const x k) (conj (d_divide_const_r x k) (conj (d_divide_const_l x k) (conj (d_pow_const_r x k) (conj (d_pow_const_l x k) (conj (d_prelu x k) (d_elu x k)))))))))). Qed.

Theorem d_relu_lrelu_selu_all x a s :
  (x <> 0 -> is_derive (fun x => fw_prelu x 0) x (bw_prelu x (fw_prelu x 0) 1 0)) /\
  (x <> 0 -> is_derive (fun x => fw_prelu x (1 / 100)) x (bw_prelu x (fw_prelu x (1 / 100)) 1 (1 / 100))) /\
  (x <> 0 -> is_derive (fun x => fw_multiply_const (fw_elu x a) s) x
     (bw_elu x (fw_elu x a) (bw_multiply_const (fw_elu x a) (fw_multiply_const (fw_elu x a) s) 1 s) a)).
Proof. exact (conj (d_relu x) (conj (d_lrelu x) (d_selu x a s))). Qed.

Theorem d_binary_all a b :
  (is_derive (fun a => fw_add a b) a (bw_add_a a b (fw_add a b) 1)) /\
  (is_derive (fun b => fw_add a b) b (bw_add_b a b (fw_add a b) 1)) /\
  (is_derive (fun a => fw_subtract a b) a (bw_subtract_a a b (fw_subtract a b) 1)) /\
  (is_derive (fun b => fw_subtract a b) b (bw_subtract_b a b (fw_subtract a b) 1)) /\
  (is_derive (fun a => fw_multiply a b) a (bw_multiply_a a b (fw_multiply a b) 1)) /\
  (is_derive (fun b => fw_multiply a b) b (bw_multiply_b a b (fw_multiply a b) 1)) /\
  (b <> 0 -> is_derive (fun a => fw_divide a b) a (bw_divide_a a b (fw_divide a b) 1)) /\
  (b <> 0 -> is_derive (fun b => fw_divide a b) b (bw_divide_b a b (fw_divide a b) 1)) /\
  (0 < a -> is_derive (fun a => fw_pow a b) a (bw_pow_a a b (fw_pow a b) 1)) /\
  (0 < a -> is_derive (fun b => fw_pow a b) b (bw_pow_b a b (fw_pow a b) 1)).
Proof. exact (conj (d_add_a a b) (conj (d_add_b a b) (conj (d_subtract_a a b) (conj (d_subtract_b a b) (conj (d_multiply_a a b) (conj (d_multiply_b a b) (conj (d_divide_a a b) (conj (d_divide_b a b) (conj (d_pow_a a b) (d_pow_b a b)))))))))). Qed.

Theorem bw_linear_all x y gy k a b :
  (bw_abs x y gy = gy * bw_abs x y 1 /\ bw_exp x y gy = gy * bw_exp x y 1 /\ bw_log x y gy = gy * bw_log x y 1 /\
   bw_sin x y gy = gy * bw_sin x y 1 /\ bw_cos x y gy = gy * bw_cos x y 1 /\ bw_tan x y gy = gy * bw_tan x y 1 /\
   bw_tanh x y gy = gy * bw_tanh x y 1 /\ bw_sqrt x y gy = gy * bw_sqrt x y 1 /\
   bw_sigmoid x y gy = gy * bw_sigmoid x y 1 /\ bw_softplus x y gy = gy * bw_softplus x y 1) /\
  (bw_add_const x y gy k = gy * bw_add_const x y 1 k /\ bw_subtract_const_r x y gy k = gy * bw_subtract_const_r x y 1 k /\
   bw_subtract_const_l x y gy k = gy * bw_subtract_const_l x y 1 k /\ bw_multiply_const x y gy k = gy * bw_multiply_const x y 1 k /\
   bw_divide_const_r x y gy k = gy * bw_divide_const_r x y 1 k /\ bw_divide_const_l x y gy k = gy * bw_divide_const_l x y 1 k /\
   bw_pow_const_r x y gy k = gy * bw_pow_const_r x y 1 k /\ bw_pow_const_l x y gy k = gy * bw_pow_const_l x y 1 k /\
   bw_prelu x y gy k = gy * bw_prelu x y 1 k /\ bw_elu x y gy k = gy * bw_elu x y 1 k) /\
  (bw_add_a a b y gy = gy * bw_add_a a b y 1 /\ bw_add_b a b y gy = gy * bw_add_b a b y 1 /\
   bw_subtract_a a b y gy = gy * bw_subtract_a a b y 1 /\ bw_subtract_b a b y gy = gy * bw_subtract_b a b y 1 /\
   bw_multiply_a a b y gy = gy * bw_multiply_a a b y 1 /\ bw_multiply_b a b y gy = gy * bw_multiply_b a b y 1 /\
   bw_divide_a a b y gy = gy * bw_divide_a a b y 1 /\ bw_divide_b a b y gy = gy * bw_divide_b a b y 1 /\
   bw_pow_a a b y gy = gy * bw_pow_a a b y 1 /\ bw_pow_b a b y gy = gy * bw_pow_b a b y 1).
Proof.
  exact (conj (bw_linear_unary x y gy) (conj (bw_linear_const x y gy k) (bw_linear_binary a b y gy))).
Qed.
