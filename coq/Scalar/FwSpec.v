(* C02, element level: each generated forward formula IS the documented function
   (primitiv/core/basic_functions.h; std::pow(a,b) = Rpower a b on a > 0), and the tables
   emitted by the translator are complete and have the expected update operators. *)
From Coq Require Import Reals Lra ZArith List String Bool.
From PV Require Import Scalar.ScalarBase Gen.ScalarGen Scalar.StableElem.
Import ListNotations.
Local Open Scope R_scope.

Local Ltac cmp_cases :=
  unfold b01, Rmax, Rmin in *;
  repeat match goal with
  | |- context [Rgt_dec ?a ?b] => destruct (Rgt_dec a b)
  | |- context [Rlt_dec ?a ?b] => destruct (Rlt_dec a b)
  | |- context [Rle_dec ?a ?b] => destruct (Rle_dec a b)
  | |- context [Rge_dec ?a ?b] => destruct (Rge_dec a b)
  end; try lra.

Local Ltac spec := intros; cbv delta [fw_negate fw_abs fw_sqrt fw_exp fw_log fw_tanh fw_sin fw_cos fw_tan
  fw_add_const fw_subtract_const_r fw_subtract_const_l fw_multiply_const fw_divide_const_r
  fw_divide_const_l fw_pow_const_r fw_pow_const_l fw_prelu fw_elu
  fw_add_scalar fw_subtract_scalar_r fw_subtract_scalar_l fw_multiply_scalar fw_divide_scalar_r
  fw_divide_scalar_l fw_pow_scalar_r fw_pow_scalar_l
  fw_add fw_subtract fw_multiply fw_divide fw_pow] beta;
  first [ reflexivity | cmp_cases; rewrite ?Rmult_0_r, ?Rmult_1_r, ?exp_0; first [ring | lra] | unfold Rdiv; ring ].

Theorem fw_unary_spec x :
  fw_negate x = - x /\ fw_abs x = Rabs x /\ fw_sqrt x = sqrt x /\ fw_exp x = exp x /\
  fw_log x = ln x /\ fw_tanh x = tanh x /\ fw_sin x = sin x /\ fw_cos x = cos x /\
  fw_tan x = tan x /\ fw_sigmoid x = 1 / (1 + exp (- x)) /\ fw_softplus x = ln (1 + exp x).
Proof.
  repeat split; first [apply sigmoid_tanh_eq | apply softplus_stable_eq | spec].
Qed.

(* x op k, resp. k op x for the _l variants *)
Theorem fw_const_spec x k :
  fw_add_const x k = x + k /\ fw_subtract_const_r x k = x - k /\ fw_subtract_const_l x k = k - x /\
  fw_multiply_const x k = x * k /\ fw_divide_const_r x k = x / k /\ fw_divide_const_l x k = k / x /\
  fw_pow_const_r x k = Rpower x k /\ fw_pow_const_l x k = Rpower k x.
Proof. repeat split; spec. Qed.

(* PReLU / ELU as documented (basic_functions.h:769-795): x for x >= 0, else a*x resp. a*(e^x - 1) *)
Theorem fw_prelu_spec x k : fw_prelu x k = if Rge_dec x 0 then x else k * x.
Proof. unfold fw_prelu. destruct (Rge_dec x 0); cmp_cases; try ring. assert (x = 0) by lra. subst. ring. Qed.

Theorem fw_elu_spec x k : fw_elu x k = if Rge_dec x 0 then x else k * (exp x - 1).
Proof.
  unfold fw_elu. destruct (Rge_dec x 0); cmp_cases; rewrite ?Rmult_0_r, ?Rmult_1_r, ?exp_0; try ring.
  assert (x = 0) by lra. subst. rewrite exp_0. ring.
Qed.

(* relu(x) = max(x, 0), lrelu(x) = max(x, 0.01 x)  (tensor_funcs.cc:266-272, basic_functions.h:750-766) *)
Theorem fw_relu_spec x : fw_prelu x 0 = Rmax x 0.
Proof. rewrite fw_prelu_spec. unfold Rmax. destruct (Rge_dec x 0), (Rle_dec x 0); lra. Qed.
Theorem fw_lrelu_spec x : fw_prelu x (1 / 100) = Rmax x (1 / 100 * x).
Proof. rewrite fw_prelu_spec. unfold Rmax. destruct (Rge_dec x 0), (Rle_dec x (1 / 100 * x)); lra. Qed.

(* the *_scalar kernels (second operand a one-element tensor) compute the *_const formulas *)
Theorem fw_scalar_spec x k :
  fw_add_scalar x k = fw_add_const x k /\ fw_subtract_scalar_r x k = fw_subtract_const_r x k /\
  fw_subtract_scalar_l x k = fw_subtract_const_l x k /\ fw_multiply_scalar x k = fw_multiply_const x k /\
  fw_divide_scalar_r x k = fw_divide_const_r x k /\ fw_divide_scalar_l x k = fw_divide_const_l x k /\
  fw_pow_scalar_r x k = fw_pow_const_r x k /\ fw_pow_scalar_l x k = fw_pow_const_l x k.
Proof. repeat split; spec. Qed.

Theorem fw_binary_spec a b :
  fw_add a b = a + b /\ fw_subtract a b = a - b /\ fw_multiply a b = a * b /\
  fw_divide a b = a / b /\ fw_pow a b = Rpower a b.
Proof. repeat split; spec. Qed.

(* Rpower is the real power on its domain: x^n for natural n, and the inverse of ln/exp *)
Theorem Rpower_is_pow x n : 0 < x -> Rpower x (INR n) = x ^ n.
Proof. intros. apply Rpower_pow. assumption. Qed.

(* ---- tables emitted by the translator ---- *)
Local Open Scope string_scope.
Definition covered_names : list string :=
  ["fw_abs"; "bw_abs"; "fw_add_const"; "bw_add_const"; "fw_add_scalar"; "fw_add"; "bw_add_a"; "bw_add_b";
   "fw_cos"; "bw_cos"; "fw_divide_const_r"; "bw_divide_const_r"; "fw_divide_const_l"; "bw_divide_const_l";
   "fw_divide_scalar_r"; "fw_divide_scalar_l"; "fw_divide"; "bw_divide_a"; "bw_divide_b"; "fw_elu"; "bw_elu";
   "fw_exp"; "bw_exp"; "fw_log"; "bw_log"; "fw_logsumexp_step"; "fw_multiply_const"; "bw_multiply_const";
   "fw_multiply_scalar"; "fw_multiply"; "bw_multiply_a"; "bw_multiply_b"; "fw_negate"; "fw_pow_const_r";
   "bw_pow_const_r"; "fw_pow_const_l"; "bw_pow_const_l"; "fw_pow_scalar_r"; "fw_pow_scalar_l"; "fw_pow";
   "bw_pow_a"; "bw_pow_b"; "fw_pown"; "bw_pown"; "fw_prelu"; "bw_prelu"; "fw_sigmoid"; "bw_sigmoid"; "fw_sin";
   "bw_sin"; "fw_softplus"; "bw_softplus"; "fw_sqrt"; "bw_sqrt"; "fw_subtract_const_r"; "bw_subtract_const_r";
   "fw_subtract_const_l"; "bw_subtract_const_l"; "fw_subtract_scalar_r"; "fw_subtract_scalar_l"; "fw_subtract";
   "bw_subtract_a"; "bw_subtract_b"; "fw_tan"; "bw_tan"; "fw_tanh"; "bw_tanh"].

Definition mem (n : string) (l : list string) : bool := existsb (String.eqb n) l.

(* every elementwise kernel found in the ops directory is covered by a theorem of this engine and
   every covered name was found (an op added to / removed from the C++ breaks this) *)
Definition names_covered_ok : bool :=
  forallb (fun n => mem n covered_names) gen_names && forallb (fun n => mem n gen_names) covered_names.

(* forward kernels assign (`dest[i] = op`), backward kernels accumulate (`pgx[i] += op`) *)
Definition updates_ok : bool :=
  forallb (fun p => if String.prefix "bw_" (fst p) then String.eqb (snd p) "+=" else String.eqb (snd p) "=")
          gen_updates.

Theorem gen_names_covered : names_covered_ok = true /\ gen_translation_errors = 0%nat.
Proof. split; vm_compute; reflexivity. Qed.

Theorem gen_updates_ok : updates_ok = true.
Proof. vm_compute; reflexivity. Qed.

(* ---- grouped statements used by Props/Properties_C02_scalar.v ---- *)
Local Open Scope R_scope.
Theorem fw_elementwise_spec_all x k a b :
  (fw_negate x = - x /\ fw_abs x = Rabs x /\ fw_sqrt x = sqrt x /\ fw_exp x = exp x /\
   fw_log x = ln x /\ fw_tanh x = tanh x /\ fw_sin x = sin x /\ fw_cos x = cos x /\
   fw_tan x = tan x /\ fw_sigmoid x = 1 / (1 + exp (- x)) /\ fw_softplus x = ln (1 + exp x)) /\
  (fw_add_const x k = x + k /\ fw_subtract_const_r x k = x - k /\ fw_subtract_const_l x k = k - x /\
   fw_multiply_const x k = x * k /\ fw_divide_const_r x k = x / k /\ fw_divide_const_l x k = k / x /\
   fw_pow_const_r x k = Rpower x k /\ fw_pow_const_l x k = Rpower k x) /\
  (fw_add_scalar x k = fw_add_const x k /\ fw_subtract_scalar_r x k = fw_subtract_const_r x k /\
   fw_subtract_scalar_l x k = fw_subtract_const_l x k /\ fw_multiply_scalar x k = fw_multiply_const x k /\
   fw_divide_scalar_r x k = fw_divide_const_r x k /\ fw_divide_scalar_l x k = fw_divide_const_l x k /\
   fw_pow_scalar_r x k = fw_pow_const_r x k /\ fw_pow_scalar_l x k = fw_pow_const_l x k) /\
  (fw_add a b = a + b /\ fw_subtract a b = a - b /\ fw_multiply a b = a * b /\
   fw_divide a b = a / b /\ fw_pow a b = Rpower a b).
Proof.
  exact (conj (fw_unary_spec x) (conj (fw_const_spec x k) (conj (fw_scalar_spec x k) (fw_binary_spec a b)))).
Qed.

Theorem fw_activation_spec_all x k :
  fw_prelu x k = (if Rge_dec x 0 then x else k * x) /\
  fw_elu x k = (if Rge_dec x 0 then x else k * (exp x - 1)) /\
  fw_prelu x 0 = Rmax x 0 /\ fw_prelu x (1 / 100) = Rmax x (1 / 100 * x).
Proof. exact (conj (fw_prelu_spec x k) (conj (fw_elu_spec x k) (conj (fw_relu_spec x) (fw_lrelu_spec x)))). Qed.

Theorem gen_tables_ok : names_covered_ok = true /\ gen_translation_errors = 0%nat /\ updates_ok = true.
Proof. exact (conj (proj1 gen_names_covered) (conj (proj2 gen_names_covered) gen_updates_ok)). Qed.
