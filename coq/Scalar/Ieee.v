(* C02: "neither overflow nor NaN" for sigmoid, stated independently of how the stable
   formulation is written.  ScalarBase.xeval evaluates the deep embedding of the GENERATED formula
   with IEEE-754 style overflow (magnitude > M -> +-inf, indeterminate forms -> NaN, no rounding).
   Both  1/2 + 1/2 tanh(x/2)  (sigmoid.cc:11) and the documented  1 / (1 + exp(-x))  satisfy
   the theorem -- in the latter exp(-x) overflows for x < -88.7 but 1/inf = 0 is within 1/M of the
   exact value -- whereas e.g. exp(x) / (1 + exp(x)) does not (inf/inf = NaN).  That is why the
   exp-arguments-<=-0 criterion of StableBounds.v is NOT imposed on sigmoid. *)
From Coq Require Import Reals Lra List.
From PV Require Import Scalar.ScalarBase Gen.ScalarGen Scalar.StableElem.
Import ListNotations.
Local Open Scope R_scope.

Definition ieee_ok (M : R) (env : list R) (e : expr) (v : R) : Prop :=
  exists r, xeval M env e = XF r /\ Rabs (r - v) <= / M.

Lemma rnd_in M v : - M <= v <= M -> rnd M v = XF v.
Proof. intros [H1 H2]. unfold rnd. destruct (Rlt_dec M v); [lra|]. destruct (Rlt_dec v (- M)); [lra|reflexivity]. Qed.

Lemma rnd_pos_cases M v : 0 <= v -> 0 <= M -> (v <= M /\ rnd M v = XF v) \/ (M < v /\ rnd M v = XPinf).
Proof.
  intros Hv HM. unfold rnd. destruct (Rlt_dec M v); [right; auto|].
  left. split; [lra|]. destruct (Rlt_dec v (- M)); [lra|reflexivity].
Qed.

Lemma Rabs_0_le M : 0 < M -> forall v, 0 <= v <= / M -> Rabs (0 - v) <= / M.
Proof. intros HM v Hv. unfold Rabs. destruct (Rcase_abs _); lra. Qed.

Lemma inv_lt_of_gt M d : 0 < M -> M < d -> 0 < 1 / d < / M.
Proof.
  intros HM Hd. assert (0 < d) by lra. unfold Rdiv. rewrite Rmult_1_l. split.
  - now apply Rinv_0_lt_compat.
  - apply Rinv_lt_contravar; [nra | exact Hd].
Qed.

Lemma tanh_bounds t : -1 < tanh t < 1.
Proof.
  unfold tanh, sinh, cosh. pose proof (exp_pos t). pose proof (exp_pos (- t)).
  set (c := (exp t + exp (- t)) / 2). set (s := (exp t - exp (- t)) / 2).
  assert (Hc : 0 < c) by (unfold c; lra).
  assert (Hs : - c < s < c) by (unfold c, s; lra).
  pose proof (Rinv_0_lt_compat c Hc) as Hi.
  assert (Hci : c * / c = 1) by (apply Rinv_r; lra).
  unfold Rdiv. generalize dependent (/ c). intros ic Hi Hci. nra.
Qed.

(* sigmoid written as 1 / (1 + exp (- x)): exp(-x) may overflow, the quotient then is 0, which is
   within 1/M of the exact value *)
Lemma sigmoid_ieee_exp_form M x : 4 <= M -> Rabs x <= M ->
  ieee_ok M [x] (EDiv (EInt 1) (EAdd (EInt 1) (EFun Fexp (ENeg (EVar 0))))) (1 / (1 + exp (- x))).
Proof.
  intros HM Hx. assert (Hxb : - M <= x <= M) by (unfold Rabs in Hx; destruct (Rcase_abs x); lra).
  unfold ieee_ok. cbn [xeval nth].
  rewrite (rnd_in M 1) by lra. rewrite (rnd_in M x) by lra. cbn [xneg xfun].
  pose proof (exp_pos (- x)) as He.
  destruct (rnd_pos_cases M (exp (- x))) as [[Hle ->]|[Hgt ->]]; [lra | lra | |].
  - cbn [xadd].
    destruct (rnd_pos_cases M (1 + exp (- x))) as [[Hle2 ->]|[Hgt2 ->]]; [lra | lra | |].
    + cbn [xdiv]. destruct (Req_EM_T (1 + exp (- x)) 0) as [E|_]; [lra|].
      assert (0 < 1 / (1 + exp (- x)) <= 1).
      { unfold Rdiv. rewrite Rmult_1_l. split; [apply Rinv_0_lt_compat; lra|].
        rewrite <- Rinv_1 at 2. apply Rinv_le_contravar; lra. }
      rewrite rnd_in by lra. eexists; split; [reflexivity|].
      replace (1 / (1 + exp (- x)) - 1 / (1 + exp (- x))) with 0 by ring. rewrite Rabs_R0.
      left. apply Rinv_0_lt_compat. lra.
    + cbn [xdiv]. eexists; split; [reflexivity|]. apply Rabs_0_le; [lra|].
      pose proof (inv_lt_of_gt M (1 + exp (- x)) ltac:(lra) Hgt2). lra.
  - cbn [xadd xdiv]. eexists; split; [reflexivity|]. apply Rabs_0_le; [lra|].
    pose proof (inv_lt_of_gt M (1 + exp (- x)) ltac:(lra) ltac:(lra)). lra.
Qed.

(* sigmoid written with tanh (sigmoid.cc:11): nothing can overflow, the value is exact *)
Lemma sigmoid_ieee_tanh_form M x : 4 <= M -> Rabs x <= M ->
  ieee_ok M [x] (EAdd (EFrac 1 2) (EMul (EFrac 1 2) (EFun Ftanh (EMul (EFrac 1 2) (EVar 0)))))
          (1 / 2 + 1 / 2 * tanh (1 / 2 * x)).
Proof.
  intros HM Hx. assert (Hxb : - M <= x <= M) by (unfold Rabs in Hx; destruct (Rcase_abs x); lra).
  unfold ieee_ok. cbn [xeval nth].
  rewrite (rnd_in M (1 / 2)) by lra. rewrite (rnd_in M x) by lra. cbn [xmul].
  rewrite (rnd_in M (1 / 2 * x)) by lra. cbn [xfun xmul].
  pose proof (tanh_bounds (1 / 2 * x)) as Ht.
  rewrite (rnd_in M (1 / 2 * tanh (1 / 2 * x))) by lra. cbn [xadd].
  rewrite rnd_in by lra. eexists; split; [reflexivity|].
  replace (1 / 2 + 1 / 2 * tanh (1 / 2 * x) - (1 / 2 + 1 / 2 * tanh (1 / 2 * x))) with 0 by ring.
  rewrite Rabs_R0. left. apply Rinv_0_lt_compat. lra.
Qed.

(* the GENERATED sigmoid: under IEEE overflow semantics with any threshold M >= 4 (float32:
   M = FLT_MAX) the result is a finite number within 1/M of 1/(1+e^-x), for every |x| <= M *)
Theorem sigmoid_ieee_finite M x : 4 <= M -> Rabs x <= M ->
  ieee_ok M [x] ast_fw_sigmoid (1 / (1 + exp (- x))).
Proof.
  intros HM Hx.
  first [ exact (sigmoid_ieee_exp_form M x HM Hx)
        | rewrite <- tanh_half_sigmoid; exact (sigmoid_ieee_tanh_form M x HM Hx) ].
Qed.
