(* C02, stable formulations over R (element level along the reduced axis):
   the left fold of the generated pairwise update of logsumexp.cc equals ln (sum e^{x_i}) for
   every non-empty list, and the composites log_softmax / softmax / softmax_cross_entropy of
   primitiv/core/tensor_funcs.cc:311-323 (transcribed by hand below, file:line cited) equal
   their documented functions.  The elementwise identities are in StableElem.v, the
   no-overflow arguments in StableBounds.v. *)
From Coq Require Import Reals Lra List Lia.
From PV Require Import Scalar.ScalarBase Gen.ScalarGen.
Import ListNotations.
Local Open Scope R_scope.

Ltac cmp_cases :=
  unfold b01, Rmax, Rmin in *;
  repeat match goal with
  | |- context [Rgt_dec ?a ?b] => destruct (Rgt_dec a b)
  | |- context [Rlt_dec ?a ?b] => destruct (Rlt_dec a b)
  | |- context [Rle_dec ?a ?b] => destruct (Rle_dec a b)
  | |- context [Rge_dec ?a ?b] => destruct (Rge_dec a b)
  end; try lra.

(* ---------- elementary facts ---------- *)
Lemma exp_le_1 t : t <= 0 -> 0 < exp t <= 1.
Proof.
  intros H. split; [apply exp_pos|]. rewrite <- exp_0.
  destruct H as [H|H]; [left; now apply exp_increasing | right; now rewrite H].
Qed.

Lemma two_lt_e : 2 < exp 1.
Proof. pose proof (exp_ineq1 1). lra. Qed.

Lemma ln1p_bounds e : 0 < e <= 1 -> 0 < ln (1 + e) < 1.
Proof.
  intros [H0 H1]. split.
  - rewrite <- ln_1. apply ln_increasing; lra.
  - rewrite <- (ln_exp 1) at 2. apply ln_increasing; [lra|]. pose proof two_lt_e. lra.
Qed.

Lemma ln_sum_exp a b : ln (exp a + exp b) = a + ln (1 + exp (b - a)).
Proof.
  pose proof (exp_pos a). pose proof (exp_pos (b - a)).
  rewrite <- (ln_exp a) at 2. rewrite <- ln_mult by lra. f_equal.
  unfold Rminus. rewrite exp_plus, exp_Ropp. field. lra.
Qed.

(* ---------- logsumexp: the pairwise update and its left fold ---------- *)
Lemma logsumexp_step_eq a b : fw_logsumexp_step a b = ln (exp a + exp b).
Proof.
  unfold fw_logsumexp_step. cmp_cases.
  - now rewrite ln_sum_exp.
  - now rewrite (Rplus_comm (exp a)), ln_sum_exp.
Qed.

(* logsumexp.cc:21-29: tmp = src[first]; for j = 1 .. n-1: tmp = step(tmp, src[j]); dest = tmp *)
Definition lse_fold (l : list R) : R :=
  match l with [] => 0 | x :: r => fold_left fw_logsumexp_step r x end.

Definition sum_exp (l : list R) : R := fold_right (fun a s => exp a + s) 0 l.

Lemma sum_exp_pos l : l <> [] -> 0 < sum_exp l.
Proof.
  destruct l as [|a r]; [congruence|]. intros _. simpl.
  assert (0 <= sum_exp r).
  { induction r as [|b r IH]; simpl; [lra|]. pose proof (exp_pos b). lra. }
  pose proof (exp_pos a). lra.
Qed.

Lemma sum_exp_app p q : sum_exp (p ++ q) = sum_exp p + sum_exp q.
Proof. induction p; simpl; [lra | rewrite IHp; lra]. Qed.

Lemma lse_fold_acc r : forall S, 0 < S -> fold_left fw_logsumexp_step r (ln S) = ln (S + sum_exp r).
Proof.
  induction r as [|b r IH]; intros S HS; simpl.
  - now rewrite Rplus_0_r.
  - rewrite logsumexp_step_eq. rewrite exp_ln by exact HS.
    pose proof (exp_pos b). rewrite IH by lra. f_equal. lra.
Qed.

Theorem logsumexp_pairwise_eq l : l <> [] -> lse_fold l = ln (sum_exp l).
Proof.
  destruct l as [|x r]; [congruence|]. intros _. simpl.
  rewrite <- (ln_exp x) at 1. apply lse_fold_acc. apply exp_pos.
Qed.

Lemma lse_fold_snoc p a : p <> [] -> lse_fold (p ++ [a]) = fw_logsumexp_step (lse_fold p) a.
Proof. destruct p as [|x r]; [congruence|]. intros _. simpl. now rewrite fold_left_app. Qed.

(* ---------- bounds ---------- *)
Definition all_within (M : R) (l : list R) : Prop := Forall (fun x => Rabs x <= M) l.

Lemma sum_exp_bounds M l : all_within M l ->
  INR (length l) * exp (- M) <= sum_exp l <= INR (length l) * exp M.
Proof.
  induction 1 as [|x l Hx Hl IH].
  - simpl. lra.
  - cbn [length sum_exp fold_right]. rewrite S_INR. fold (sum_exp l).
    assert (exp (- M) <= exp x <= exp M).
    { assert (Hb : - M <= x <= M) by (unfold Rabs in Hx; destruct (Rcase_abs x); lra).
      clear Hx; rename Hb into Hx. split.
      - destruct (proj1 Hx) as [H|H]; [left; now apply exp_increasing | right; now rewrite H].
      - destruct (proj2 Hx) as [H|H]; [left; now apply exp_increasing | right; now rewrite H]. }
    lra.
Qed.

Lemma lse_fold_bounded M l : l <> [] -> all_within M l ->
  - M <= lse_fold l <= M + ln (INR (length l)).
Proof.
  intros Hne Hl. rewrite (logsumexp_pairwise_eq l Hne).
  pose proof (sum_exp_bounds M l Hl) as [Hlo Hhi].
  pose proof (sum_exp_pos l Hne) as Hpos.
  assert (Hn : 1 <= INR (length l)).
  { destruct l; [congruence|]. cbn [length]. rewrite S_INR. pose proof (pos_INR (length l)). lra. }
  pose proof (exp_pos (- M)). pose proof (exp_pos M).
  split.
  - rewrite <- (ln_exp (- M)).
    assert (exp (- M) <= sum_exp l) by nra.
    destruct H1 as [H1|H1]; [left; apply ln_increasing; lra | right; now rewrite H1].
  - rewrite <- (ln_exp M) at 1. rewrite <- ln_mult by lra.
    assert (sum_exp l <= exp M * INR (length l)) by lra.
    destruct H1 as [H1|H1]; [left; apply ln_increasing; lra | right; now rewrite H1].
Qed.

(* ---------- composites (element level along the reduced axis) ---------- *)
(* primitiv/core/tensor_funcs.cc:311-313  log_softmax(x, dim) = x - broadcast(logsumexp(x, dim), dim, n) *)
Definition log_softmax (l : list R) : list R := map (fun x => fw_subtract x (lse_fold l)) l.
(* tensor_funcs.cc:316-318  softmax(x, dim) = exp(log_softmax(x, dim)) *)
Definition softmax (l : list R) : list R := map fw_exp (log_softmax l).
(* tensor_funcs.cc:321-323  softmax_cross_entropy(x, t, dim) = -sum(t * log_softmax(x, dim), dim) *)
Definition sum_list (l : list R) : R := fold_right Rplus 0 l.
Definition softmax_cross_entropy (l t : list R) : R :=
  fw_negate (sum_list (map (fun tv => fw_multiply (fst tv) (snd tv)) (combine t (log_softmax l)))).

Theorem log_softmax_spec l : l <> [] -> log_softmax l = map (fun x => x - ln (sum_exp l)) l.
Proof. intros H. unfold log_softmax, fw_subtract. now rewrite (logsumexp_pairwise_eq l H). Qed.

Theorem softmax_spec l : l <> [] -> softmax l = map (fun x => exp x / sum_exp l) l.
Proof.
  intros H. unfold softmax. rewrite (log_softmax_spec l H), map_map.
  apply map_ext. intros x. unfold fw_exp, Rminus.
  rewrite exp_plus, exp_Ropp, exp_ln by (now apply sum_exp_pos). reflexivity.
Qed.

Lemma sum_list_map_div (l : list R) (d : R) (f : R -> R) :
  sum_list (map (fun x => f x / d) l) = sum_list (map f l) / d.
Proof. induction l; simpl; [unfold Rdiv; ring | rewrite IHl; unfold Rdiv; ring]. Qed.

Lemma sum_list_exp l : sum_list (map exp l) = sum_exp l.
Proof. induction l; simpl; [reflexivity | now rewrite IHl]. Qed.

Theorem softmax_sums_to_one l : l <> [] -> sum_list (softmax l) = 1.
Proof.
  intros H. rewrite (softmax_spec l H), (sum_list_map_div l (sum_exp l) exp), sum_list_exp.
  pose proof (sum_exp_pos l H). field. lra.
Qed.

Lemma combine_map_snd {A B C} (f : B -> C) (t : list A) (l : list B) :
  combine t (map f l) = map (fun p => (fst p, f (snd p))) (combine t l).
Proof. revert l; induction t; intros [|b l]; simpl; [reflexivity..|now rewrite IHt]. Qed.

Theorem softmax_cross_entropy_spec l t : l <> [] ->
  softmax_cross_entropy l t =
  - sum_list (map (fun tx => fst tx * (snd tx - ln (sum_exp l))) (combine t l)).
Proof.
  intros H. unfold softmax_cross_entropy, fw_negate. f_equal. f_equal.
  rewrite (log_softmax_spec l H). rewrite combine_map_snd, map_map. reflexivity.
Qed.


(* ---- grouped statement used by Props/Properties_C02_scalar.v ---- *)
Theorem softmax_family_spec_all l t : l <> [] ->
  log_softmax l = map (fun x => x - ln (sum_exp l)) l /\
  softmax l = map (fun x => exp x / sum_exp l) l /\
  sum_list (softmax l) = 1 /\
  softmax_cross_entropy l t = - sum_list (map (fun tx => fst tx * (snd tx - ln (sum_exp l))) (combine t l)).
Proof.
  intros H. exact (conj (log_softmax_spec l H) (conj (softmax_spec l H) (conj (softmax_sums_to_one l H)
                  (softmax_cross_entropy_spec l t H)))).
Qed.
