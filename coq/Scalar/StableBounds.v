(* C02: why the stabilised formulations cannot overflow for finite inputs.
   Stated on the deep embedding (the ast_ definitions) of the GENERATED formulas: for the inputs at hand, every
   sub-expression the C++ evaluates (ScalarBase.evaluated: only the taken branch of ?:) has a
   magnitude bounded linearly in the inputs, and every argument passed to exp is <= 0.
   The ast_eval lemmas tie the embedding to the shallow definitions the other theorems use. *)
From Coq Require Import Reals Lra List Lia.
From PV Require Import Scalar.ScalarBase Gen.ScalarGen Scalar.Stable.
Import ListNotations.
Local Open Scope R_scope.

(* ---------- the deep embedding denotes the generated functions ---------- *)
Lemma ast_fw_softplus_eval x : eval [x] ast_fw_softplus = fw_softplus x.
Proof. reflexivity. Qed.
Lemma ast_fw_sigmoid_eval x : eval [x] ast_fw_sigmoid = fw_sigmoid x.
Proof. reflexivity. Qed.
Lemma ast_fw_logsumexp_step_eval t a : eval [t; a] ast_fw_logsumexp_step = fw_logsumexp_step t a.
Proof. reflexivity. Qed.
Lemma ast_fw_elu_eval x k : eval [x; k] ast_fw_elu = fw_elu x k.
Proof. reflexivity. Qed.
Lemma ast_bw_softplus_eval x y gy : eval [x; y; gy] ast_bw_softplus = bw_softplus x y gy.
Proof. reflexivity. Qed.

Ltac in_cases H := repeat (destruct H as [H|H]); try contradiction.
Ltac abs_lra := cbn [eval nth fn1_sem cmp_dec]; cmp_cases; unfold Rabs; repeat destruct (Rcase_abs _); try lra.
Ltac expand_evaluated H :=
  cbn [evaluated app eval nth fn1_sem cmp_dec] in H.

(* softplus (softplus.cc:11-14): every argument of exp is <= 0; every intermediate value
   (including the result) has magnitude <= |x| + 2 *)
Theorem softplus_intermediates_bounded x :
  exp_args_nonpos [x] ast_fw_softplus /\ intermediates_within (Rabs x + 2) [x] ast_fw_softplus.
Proof.
  unfold exp_args_nonpos, intermediates_within, ast_fw_softplus.
  destruct (Rgt_dec x 0) as [Hp|Hn] eqn:Ed.
  - pose proof (exp_le_1 (- x) ltac:(lra)) as He. pose proof (ln1p_bounds _ He) as Hl.
    split; intros s Hin; expand_evaluated Hin; rewrite Ed in Hin; expand_evaluated Hin; in_cases Hin;
      try discriminate; try (injection Hin as <-); try subst s; abs_lra.
  - pose proof (exp_le_1 x ltac:(lra)) as He. pose proof (ln1p_bounds _ He) as Hl.
    split; intros s Hin; expand_evaluated Hin; rewrite Ed in Hin; expand_evaluated Hin; in_cases Hin;
      try discriminate; try (injection Hin as <-); try subst s; abs_lra.
Qed.

(* one pairwise update of logsumexp (logsumexp.cc:25-27) *)
Theorem logsumexp_step_intermediates_bounded t a :
  exp_args_nonpos [t; a] ast_fw_logsumexp_step /\
  intermediates_within (Rabs t + Rabs a + 2) [t; a] ast_fw_logsumexp_step.
Proof.
  unfold exp_args_nonpos, intermediates_within, ast_fw_logsumexp_step.
  destruct (Rgt_dec t a) as [Hp|Hn] eqn:Ed.
  - pose proof (exp_le_1 (a - t) ltac:(lra)) as He. pose proof (ln1p_bounds _ He) as Hl.
    split; intros s Hin; expand_evaluated Hin; rewrite Ed in Hin; expand_evaluated Hin; in_cases Hin;
      try discriminate; try (injection Hin as <-); try subst s; abs_lra.
  - pose proof (exp_le_1 (t - a) ltac:(lra)) as He. pose proof (ln1p_bounds _ He) as Hl.
    split; intros s Hin; expand_evaluated Hin; rewrite Ed in Hin; expand_evaluated Hin; in_cases Hin;
      try discriminate; try (injection Hin as <-); try subst s; abs_lra.
Qed.

(* whole reduction: at iteration j the accumulator is lse_fold of the first j elements
   (lse_fold_snoc), so the intermediates of every iteration are those of one step started
   from lse_fold p for a non-empty proper prefix p *)
Theorem logsumexp_intermediates_bounded M l p a q :
  all_within M l -> l = p ++ a :: q -> p <> [] ->
  exp_args_nonpos [lse_fold p; a] ast_fw_logsumexp_step /\
  intermediates_within (2 * M + ln (INR (length l)) + 2) [lse_fold p; a] ast_fw_logsumexp_step /\
  Rabs (fw_logsumexp_step (lse_fold p) a) <= M + ln (INR (length l)).
Proof.
  intros Hl -> Hp.
  destruct (logsumexp_step_intermediates_bounded (lse_fold p) a) as [He Hi].
  unfold all_within in Hl. rewrite Forall_app in Hl. destruct Hl as [Hlp Hlq].
  inversion Hlq as [|a' q' Ha Hq']; subst.
  pose proof (lse_fold_bounded M p Hp Hlp) as Hb.
  assert (Hlen : INR (length p) < INR (length (p ++ a :: q))).
  { apply lt_INR. rewrite app_length. simpl. lia. }
  assert (Hp1 : 1 <= INR (length p)).
  { destruct p; [congruence|]. cbn [length]. rewrite S_INR. pose proof (pos_INR (length p)). lra. }
  assert (Hln : ln (INR (length p)) < ln (INR (length (p ++ a :: q)))) by (apply ln_increasing; lra).
  assert (Hln0 : 0 <= ln (INR (length p))).
  { rewrite <- ln_1. destruct Hp1 as [H|H]; [left; apply ln_increasing; lra | right; now rewrite <- H]. }
  assert (HM : 0 <= M) by (pose proof (Rabs_pos a); lra).
  split; [exact He|]. split.
  - intros s Hs. specialize (Hi s Hs).
    assert (Rabs (lse_fold p) <= M + ln (INR (length p))) by (unfold Rabs; destruct (Rcase_abs _); lra).
    lra.
  - rewrite <- lse_fold_snoc by exact Hp.
    assert (Hne : p ++ [a] <> []) by (destruct p; discriminate).
    assert (Hw : all_within M (p ++ [a])) by (apply Forall_app; split; [exact Hlp | constructor; [exact Ha | constructor]]).
    pose proof (lse_fold_bounded M (p ++ [a]) Hne Hw) as Hb2.
    assert (Hlen2 : INR (length (p ++ [a])) <= INR (length (p ++ a :: q))).
    { apply le_INR. rewrite !app_length. simpl. lia. }
    assert (Hp2 : 1 <= INR (length (p ++ [a]))).
    { rewrite app_length, plus_INR. simpl. lra. }
    assert (Hln2 : ln (INR (length (p ++ [a]))) <= ln (INR (length (p ++ a :: q)))).
    { destruct Hlen2 as [H|H]; [left; apply ln_increasing; lra | right; now rewrite H]. }
    unfold Rabs; destruct (Rcase_abs _); lra.
Qed.

Lemma exp_le_sum_exp x l : In x l -> exp x <= sum_exp l.
Proof.
  induction l as [|a r IH]; [contradiction|]. intros [->|Hin]; simpl.
  - assert (0 <= sum_exp r) by (clear; induction r as [|b r IH]; simpl; [lra | pose proof (exp_pos b); lra]). lra.
  - specialize (IH Hin). pose proof (exp_pos a). lra.
Qed.

(* every argument of exp in softmax is <= 0, hence 0 < softmax_i <= 1 *)
Theorem log_softmax_nonpos l : Forall (fun v => v <= 0) (log_softmax l).
Proof.
  destruct l as [|x0 r] eqn:E; [constructor|]. rewrite <- E.
  assert (Hne : l <> []) by (rewrite E; discriminate).
  rewrite (log_softmax_spec l Hne). apply Forall_map, Forall_forall. intros x Hin.
  pose proof (exp_le_sum_exp x l Hin) as Hle. pose proof (exp_pos x).
  rewrite <- (ln_exp x) at 1.
  destruct Hle as [Hlt|Heq]; [pose proof (ln_increasing _ _ H Hlt); lra | rewrite Heq; lra].
Qed.

Theorem softmax_range l : Forall (fun v => 0 < v <= 1) (softmax l).
Proof.
  unfold softmax. apply Forall_map. eapply Forall_impl; [|apply log_softmax_nonpos].
  intros v Hv. unfold fw_exp. apply exp_le_1. exact Hv.
Qed.

Theorem log_softmax_bounded M l : all_within M l ->
  Forall (fun v => Rabs v <= 2 * M + ln (INR (length l))) (log_softmax l).
Proof.
  intros Hl. destruct l as [|x0 r] eqn:E; [constructor|]. rewrite <- E in *.
  assert (Hne : l <> []) by (rewrite E; discriminate).
  pose proof (lse_fold_bounded M l Hne Hl) as Hb.
  assert (Hln0 : 0 <= ln (INR (length l))).
  { rewrite E. cbn [length]. rewrite S_INR. pose proof (pos_INR (length r)) as Hr.
    rewrite <- ln_1. destruct Hr as [Hr|Hr]; [left; apply ln_increasing; lra | right; rewrite <- Hr; f_equal; lra]. }
  unfold log_softmax. apply Forall_map. eapply Forall_impl; [|exact Hl].
  intros x Hx. cbv beta in *. unfold fw_subtract.
  assert (- M <= x <= M) by (unfold Rabs in Hx; destruct (Rcase_abs x); lra).
  unfold Rabs; destruct (Rcase_abs _); lra.
Qed.

(* ---- grouped statements used by Props/Properties_C02_scalar.v ---- *)
Theorem ast_denotes_all x y gy t a k :
  eval [x] ast_fw_softplus = fw_softplus x /\ eval [x] ast_fw_sigmoid = fw_sigmoid x /\
  eval [t; a] ast_fw_logsumexp_step = fw_logsumexp_step t a /\ eval [x; k] ast_fw_elu = fw_elu x k /\
  eval [x; y; gy] ast_bw_softplus = bw_softplus x y gy.
Proof.
  exact (conj (ast_fw_softplus_eval x) (conj (ast_fw_sigmoid_eval x) (conj (ast_fw_logsumexp_step_eval t a)
        (conj (ast_fw_elu_eval x k) (ast_bw_softplus_eval x y gy))))).
Qed.

Theorem logsumexp_bounded_all M l : all_within M l ->
  (l <> [] -> - M <= lse_fold l <= M + ln (INR (length l))) /\
  (forall p a q, l = p ++ a :: q -> p <> [] ->
     exp_args_nonpos [lse_fold p; a] ast_fw_logsumexp_step /\
     intermediates_within (2 * M + ln (INR (length l)) + 2) [lse_fold p; a] ast_fw_logsumexp_step /\
     Rabs (fw_logsumexp_step (lse_fold p) a) <= M + ln (INR (length l))).
Proof.
  intros Hl. split.
  - intros Hne. exact (lse_fold_bounded M l Hne Hl).
  - intros p a q E Hp. exact (logsumexp_intermediates_bounded M l p a q Hl E Hp).
Qed.

Theorem softmax_family_bounded_all M l :
  Forall (fun v => v <= 0) (log_softmax l) /\
  Forall (fun v => 0 < v <= 1) (softmax l) /\
  (all_within M l -> Forall (fun v => Rabs v <= 2 * M + ln (INR (length l))) (log_softmax l)).
Proof. exact (conj (log_softmax_nonpos l) (conj (softmax_range l) (log_softmax_bounded M l))). Qed.
