(* C16 -- executable model of primitiv::Model's registry (core/model.{h,cc}) and of
   Optimizer::add (core/optimizer.cc).  NO PROOFS in this file.

   A world is a pool of Model objects (model id = index in the list); a Parameter object is
   an id.  A model holds the five containers of model.h:
     std::unordered_map<std::string, Parameter *> param_kv_;
     std::unordered_map<std::string, Model *>     submodel_kv_;
     std::unordered_set<std::string>              name_set_;
     std::unordered_set<Parameter *>              param_set_;
     std::unordered_set<Model *>                  submodel_set_;
   The mutators are transcribed statement by statement, in source order, in the state+error
   monad of Base/Err.v ([throw] keeps the current, possibly half-mutated state), so that
   "a rejected add changes nothing" is a theorem that can fail.
   Names are byte strings ([list N]); std::map<std::vector<std::string>, Parameter *> is a
   list kept strictly sorted by the lexicographic order of std::vector / std::string, with
   [emplace] = insert unless the key is present (the std::map::emplace semantics).
   The recursions of has_submodel / get_all_parameters run on fuel; [None] = fuel exhausted
   (the C++ recursion would not terminate). *)
From Coq Require Import List Arith NArith Bool.
From PV Require Import Base.Err.
Import ListNotations.
Local Open Scope err_scope.

Definition name := list N.          (* std::string as bytes *)
Definition path := list name.       (* std::vector<std::string> *)
Definition pid := nat.              (* Parameter object *)
Definition mid := nat.              (* Model object *)

(* ---- orders: operator< of std::string (bytes, then length) and of std::vector<std::string> *)
Fixpoint lex_cmp {A} (cmp : A -> A -> comparison) (a b : list A) : comparison :=
  match a, b with
  | [], [] => Eq
  | [], _ :: _ => Lt
  | _ :: _, [] => Gt
  | x :: a', y :: b' => match cmp x y with Eq => lex_cmp cmp a' b' | c => c end
  end.
Definition name_cmp : name -> name -> comparison := lex_cmp N.compare.
Definition path_cmp : path -> path -> comparison := lex_cmp name_cmp.
Definition name_eqb (a b : name) : bool := match name_cmp a b with Eq => true | _ => false end.

(* ---- the unordered containers (iteration order is not observable; see RegProofs) *)
Fixpoint find_kv {V} (nm : name) (l : list (name * V)) : option V :=
  match l with
  | [] => None
  | (k, v) :: r => if name_eqb nm k then Some v else find_kv nm r
  end.
Definition kv_emplace {V} (nm : name) (v : V) (l : list (name * V)) : list (name * V) :=
  match find_kv nm l with Some _ => l | None => (nm, v) :: l end.
Definition mem_name (nm : name) (s : list name) : bool := existsb (name_eqb nm) s.
Definition mem_id (x : nat) (s : list nat) : bool := existsb (Nat.eqb x) s.
Definition names_emplace (nm : name) (s : list name) := if mem_name nm s then s else nm :: s.
Definition ids_emplace (x : nat) (s : list nat) := if mem_id x s then s else x :: s.

Record mstate := mkM {
  param_kv : list (name * pid);
  submodel_kv : list (name * mid);
  name_set : list name;
  param_set : list pid;
  submodel_set : list mid }.
Definition empty_model := mkM [] [] [] [] [].
Definition world := list mstate.
Definition empty_world (n : nat) : world := repeat empty_model n.

Definition getm (w : world) (m : mid) : mstate := nth m w empty_model.
Fixpoint setm (w : world) (m : mid) (s : mstate) : world :=
  match w, m with
  | [], _ => []
  | _ :: r, O => s :: r
  | x :: r, S m' => x :: setm r m' s
  end.
(* one mutating statement on a member of model m *)
Definition upd (m : mid) (f : mstate -> mstate) : M world unit :=
  fun w => (Some tt, setm w m (f (getm w m))).

(* ---- bool Model::has_submodel(const Model &model) const
     for (const Model *sm : submodel_set_) {
       if (sm == &model) return true;
       if (sm->has_submodel(model)) return true;
     }
     return false;                                                                       *)
Fixpoint has_sub_g (children : nat -> list nat) (fuel : nat) (x target : nat) : option bool :=
  match fuel with
  | O => None
  | S f =>
    (fix go (cs : list nat) : option bool :=
       match cs with
       | [] => Some false
       | c :: cs' =>
         if Nat.eqb c target then Some true
         else match has_sub_g children f c target with
              | None => None
              | Some true => Some true
              | Some false => go cs'
              end
       end) (children x)
  end.
Definition children (w : world) (x : mid) : list mid := submodel_set (getm w x).
Definition fuel_of (w : world) : nat := length w + 1.
Definition has_submodel (w : world) (x target : mid) : option bool :=
  has_sub_g (children w) (fuel_of w) x target.

(* ---- void Model::add(const std::string &name, Parameter &param) *)
Definition add_param (m : mid) (nm : name) (p : pid) : M world unit :=
  w <- get ;;
  (* const auto kv = param_kv_.find(name);
     if (kv != param_kv_.end() && kv->second == &param) return; *)
  if match find_kv nm (param_kv (getm w m)) with Some p' => Nat.eqb p' p | None => false end
  then ret tt
  else
    (* if (name_set_.find(name) != name_set_.end()) THROW *)
    (w <- get ;; guard (negb (mem_name nm (name_set (getm w m))))) ;;;
    (* if (param_set_.find(&param) != param_set_.end()) THROW *)
    (w <- get ;; guard (negb (mem_id p (param_set (getm w m))))) ;;;
    (* name_set_.emplace(name); *)
    upd m (fun s => mkM (param_kv s) (submodel_kv s) (names_emplace nm (name_set s)) (param_set s) (submodel_set s)) ;;;
    (* param_set_.emplace(&param); *)
    upd m (fun s => mkM (param_kv s) (submodel_kv s) (name_set s) (ids_emplace p (param_set s)) (submodel_set s)) ;;;
    (* param_kv_.emplace(name, &param); *)
    upd m (fun s => mkM (kv_emplace nm p (param_kv s)) (submodel_kv s) (name_set s) (param_set s) (submodel_set s)).

(* ---- void Model::add(const std::string &name, Model &model)      (this = m, model = c) *)
Definition add_model (m : mid) (nm : name) (c : mid) : M world unit :=
  w <- get ;;
  (* const auto kv = submodel_kv_.find(name);
     if (kv != submodel_kv_.end() && kv->second == &model) return; *)
  if match find_kv nm (submodel_kv (getm w m)) with Some c' => Nat.eqb c' c | None => false end
  then ret tt
  else
    (* if (&model == this) THROW *)
    guard (negb (Nat.eqb c m)) ;;;
    (* if (model.has_submodel( *this)) THROW      (fuel exhausted = the call does not return;
       mapped to [throw] here, RegProofs shows it never happens on a reachable world) *)
    (w <- get ;; match has_submodel w c m with Some b => guard (negb b) | None => throw end) ;;;
    (* if (name_set_.find(name) != name_set_.end()) THROW *)
    (w <- get ;; guard (negb (mem_name nm (name_set (getm w m))))) ;;;
    (* if (submodel_set_.find(&model) != submodel_set_.end()) THROW *)
    (w <- get ;; guard (negb (mem_id c (submodel_set (getm w m))))) ;;;
    (* name_set_.emplace(name); *)
    upd m (fun s => mkM (param_kv s) (submodel_kv s) (names_emplace nm (name_set s)) (param_set s) (submodel_set s)) ;;;
    (* submodel_set_.emplace(&model); *)
    upd m (fun s => mkM (param_kv s) (submodel_kv s) (name_set s) (param_set s) (ids_emplace c (submodel_set s))) ;;;
    (* submodel_kv_.emplace(name, &model); *)
    upd m (fun s => mkM (param_kv s) (kv_emplace nm c (submodel_kv s)) (name_set s) (param_set s) (submodel_set s)).

(* ---- std::map<std::vector<std::string>, Parameter *>::emplace on the sorted list *)
Fixpoint map_emplace (k : path) (v : pid) (l : list (path * pid)) : list (path * pid) :=
  match l with
  | [] => [(k, v)]
  | (k', v') :: r =>
    match path_cmp k k' with
    | Lt => (k, v) :: l
    | Eq => l
    | Gt => (k', v') :: map_emplace k v r
    end
  end.
Definition emplace_all (kvs : list (path * pid)) (acc : list (path * pid)) : list (path * pid) :=
  fold_left (fun a kv => map_emplace (fst kv) (snd kv) a) kvs acc.

(* ---- Model::get_all_parameters() const
     for (kv : param_kv_) params.emplace({kv.first}, kv.second);
     for (sm_kv : submodel_kv_)
       for (p_kv : sm_kv.second->get_all_parameters())
         params.emplace({sm_kv.first} ++ p_kv.first, p_kv.second);                       *)
Definition single_key (kv : name * pid) : path * pid := ([fst kv], snd kv).
Definition cons_key (snm : name) (pk : path * pid) : path * pid := (snm :: fst pk, snd pk).
Fixpoint get_all_g (w : world) (fuel : nat) (m : mid) : option (list (path * pid)) :=
  match fuel with
  | O => None
  | S f =>
    (fix go (sms : list (name * mid)) (acc : list (path * pid)) : option (list (path * pid)) :=
       match sms with
       | [] => Some acc
       | (snm, c) :: rest =>
         match get_all_g w f c with
         | None => None
         | Some sub => go rest (emplace_all (map (cons_key snm) sub) acc)
         end
       end)
      (submodel_kv (getm w m))
      (emplace_all (map single_key (param_kv (getm w m))) [])
  end.
Definition get_all_parameters (w : world) (m : mid) := get_all_g w (fuel_of w) m.
(* "Currently this function returns all parameters." *)
Definition get_trainable_parameters (w : world) (m : mid) := get_all_parameters w m.

(* ---- get_semiterminal / get_parameter / get_submodel (None = primitiv::Error) *)
Fixpoint walk (w : world) (cur : mid) (names : path) : option mid :=
  (* the loop over [names.begin(), names.end() - 1) *)
  match names with
  | [] => None                  (* not reached: the empty list is rejected before the loop *)
  | [_] => Some cur
  | nm :: rest =>
    match find_kv nm (submodel_kv (getm w cur)) with
    | None => None
    | Some c => walk w c rest
    end
  end.
Definition get_semiterminal (w : world) (m : mid) (names : path) : option mid :=
  match names with
  | [] => None                  (* if (names.empty()) THROW   -- the repaired rejection *)
  | _ => walk w m names
  end.
Definition get_parameter (w : world) (m : mid) (names : path) : option pid :=
  match get_semiterminal w m names with
  | None => None
  | Some st => find_kv (last names []) (param_kv (getm w st))
  end.
Definition get_submodel (w : world) (m : mid) (names : path) : option mid :=
  match get_semiterminal w m names with
  | None => None
  | Some st => find_kv (last names []) (submodel_kv (getm w st))
  end.
(* the std::string overloads of model.h *)
Definition get_parameter1 (w : world) (m : mid) (nm : name) : option pid := find_kv nm (param_kv (getm w m)).
Definition get_submodel1 (w : world) (m : mid) (nm : name) : option mid := find_kv nm (submodel_kv (getm w m)).

(* ---- Model::load (model.cc:16-48), the part that belongs to the registry: for every key of
   the file in file order, `params.find(key)` in get_all_parameters(); an unknown key throws
   (what was loaded before stays), otherwise load_inner runs on the Parameter found.
   [R] = whatever a file holds per key; the result is the sequence of (Parameter, record)
   assignments performed and whether the loop completed. *)
Fixpoint map_find (k : path) (l : list (path * pid)) : option pid :=   (* std::map::find *)
  match l with
  | [] => None
  | (k', p) :: r => match path_cmp k k' with Eq => Some p | _ => map_find k r end
  end.
Fixpoint load_keys {R} (params : list (path * pid)) (file : list (path * R)) : option unit * list (pid * R) :=
  match file with
  | [] => (Some tt, [])
  | (k, r) :: rest =>
    match map_find k params with
    | None => (None, [])
    | Some p => let (res, asg) := load_keys params rest in (res, (p, r) :: asg)
    end
  end.
Definition model_load_plan {R} (w : world) (m : mid) (file : list (path * R)) : option unit * list (pid * R) :=
  match get_all_parameters w m with
  | None => (None, [])
  | Some params => load_keys params file
  end.

(* ---- Optimizer: params_ (unordered_set) and, as ghost state, the list of parameters on
   which configure_parameter has completed.  [okp p] = configure_parameter(p) does not
   throw (SGD: always; optimizers with statistics: iff p.valid()). *)
Record opt := mkO { oparams : list pid; ocfg : list pid }.
Definition empty_opt := mkO [] [].
Definition configure_parameter (okp : pid -> bool) (p : pid) : M opt unit :=
  guard (okp p) ;;; (fun o => (Some tt, mkO (oparams o) (p :: ocfg o))).
(* void Optimizer::add_inner(Parameter &param) {
     if (params_.find(&param) != params_.end()) return;
     configure_parameter(param);
     params_.insert(&param); } *)
Definition opt_add_param (okp : pid -> bool) (p : pid) : M opt unit :=
  o <- get ;;
  if mem_id p (oparams o) then ret tt
  else
    configure_parameter okp p ;;;
    (fun o => (Some tt, mkO (ids_emplace p (oparams o)) (ocfg o))).
(* void Optimizer::add_inner(const Model &model) {
     for (const auto &kv : model.get_trainable_parameters()) add_inner( *kv.second); } *)
Fixpoint opt_add_list (okp : pid -> bool) (l : list (path * pid)) : M opt unit :=
  match l with
  | [] => ret tt
  | kv :: r => opt_add_param okp (snd kv) ;;; opt_add_list okp r
  end.
Definition opt_add_model (okp : pid -> bool) (w : world) (m : mid) : M opt unit :=
  match get_trainable_parameters w m with
  | None => throw
  | Some l => opt_add_list okp l
  end.
(* what reset_gradients() / update() visit: params_.  reset_gradients throws on an invalid
   parameter (Parameter::reset_gradient), so the set is observable through it only when
   every registered parameter is valid. *)
Definition opt_registered (o : opt) : list pid := oparams o.
Definition opt_reset_gradients (valid : pid -> bool) (o : opt) : option (list pid) :=
  if forallb valid (oparams o) then Some (oparams o) else None.

(* ---- histories of add calls *)
Inductive op :=
| AddP (m : mid) (nm : name) (p : pid)
| AddM (m : mid) (nm : name) (c : mid).
Definition exec (o : op) : M world unit :=
  match o with AddP m nm p => add_param m nm p | AddM m nm c => add_model m nm c end.
Definition step (w : world) (o : op) : world := snd (exec o w).
Definition run (h : list op) (w : world) : world := fold_left step h w.
