(* C13 x C16 -- where the entries of a model file come from and how a loaded key finds its
   Parameter.  The io engine (Msgpack/FileFormat.v) proves the file format over an abstract
   list of [entries]; here that list is built from the registry model (ModelReg.v):
     Model::save  writes  get_all_parameters()  (model.cc:50-75), keys = paths of names;
     Model::load  resolves every key with params.find(key) in get_all_parameters() of the
                  loading model and calls load_inner on the Parameter found (model.cc:16-48).
   Parameter contents live in a store of io-level [param] records indexed by parameter id, so
   a Parameter object registered under two paths (diamond / shared object) IS one record. *)
From Coq Require Import List Arith NArith Bool Lia Sorted.
From PV Require Import Base.U32 Base.Err Shape.ShapeImpl Shape.ShapeSpec Shape.ShapeProofs Msgpack.Codec Msgpack.FileFormat
  Msgpack.CodecProofs Msgpack.FileProofs Msgpack.LoadAtomic Msgpack.FileRoundtrip.
From PV Require Import Registry.ModelReg Registry.RegOrder Registry.RegGraph Registry.RegProofs.
Import ListNotations.
Local Open Scope err_scope.

(* ------------------------------------------------------------------ definitions (executable) *)
Definition store := pid -> param.
Definition store_upd (s : store) (p : pid) (r : param) : store :=
  fun q => if Nat.eqb q p then r else s q.
Definition entries_of (s : store) (l : list (path * pid)) : entries :=
  map (fun kp => (fst kp, s (snd kp))) l.
(* what Model::save of model m writes ([] if get_all_parameters did not return, which
   C16_traversals_terminate excludes on every reachable world) *)
Definition model_file_entries (s : store) (w : world) (m : mid) : entries :=
  match get_all_parameters w m with Some l => entries_of s l | None => [] end.
Definition save_model_reg (open_ok ws : bool) (s : store) (w : world) (m : mid) : M ostream unit :=
  save_model open_ok ws (model_file_entries s w m).

(* map_find = std::map<std::vector<std::string>, Parameter *>::find is defined in ModelReg.v *)
(* const auto it = params.find(key); if (it == params.end()) THROW;
   it->second->load_inner(reader, with_stats, device); *)
Definition on_param_reg (params : list (path * pid)) (key : path) (act : M (bytes * param) unit)
  : M (bytes * store) unit :=
  fun st =>
    match map_find key params with
    | None => (None, st)
    | Some p => match act (fst st, snd st p) with
                | (r, (inp', rec')) => (r, (inp', store_upd (snd st) p rec'))
                end
    end.
Fixpoint load_entries_reg (ws : bool) (params : list (path * pid)) (n : nat) : M (bytes * store) unit :=
  match n with
  | O => ret tt
  | S n' =>
      key <- lift_rd (r_vec r_str) ;;
      on_param_reg params key (load_inner ws) ;;;
      load_entries_reg ws params n'
  end.
(* Model::load on model m of world w (header, num_params, params = get_all_parameters(), loop;
   same iteration bound as FileFormat.load_model) *)
Definition load_model_reg (ws : bool) (w : world) (m : mid) : M (bytes * store) unit :=
  load_header DT_MODEL ;;;
  num_params <- lift_rd r_u32 ;;
  match get_all_parameters w m with
  | None => throw
  | Some params =>
      fun st => load_entries_reg ws params (N.to_nat (N.min num_params (len (fst st) + 1))) st
  end.

(* ------------------------------------------------------------------ the two orders agree *)
Lemma bytes_ltb_cmp a : forall b, bytes_ltb a b = true <-> name_cmp a b = Lt.
Proof.
  unfold name_cmp. induction a as [|x a IH]; intros [|y b]; simpl; try (split; [discriminate|discriminate]); try tauto.
  destruct (N.compare_spec x y) as [->|H|H].
  - rewrite N.ltb_irrefl. apply IH.
  - apply N.ltb_lt in H. rewrite H. tauto.
  - assert (E1 : N.ltb x y = false) by (apply N.ltb_ge; lia).
    apply N.ltb_lt in H. rewrite E1, H. split; discriminate.
Qed.

Lemma path_ltb_cmp a : forall b, path_ltb a b = true <-> path_cmp a b = Lt.
Proof.
  unfold path_cmp. induction a as [|x a IH]; intros [|y b]; simpl; try (split; [discriminate|discriminate]); try tauto.
  change (lex_cmp N.compare x y) with (name_cmp x y).
  destruct (name_cmp x y) eqn:E.
  - apply name_cmp_eq in E. subst y.
    assert (F : bytes_ltb x x = false).
    { destruct (bytes_ltb x x) eqn:F; auto. apply bytes_ltb_cmp in F.
      assert (name_cmp x x = Eq) by (apply name_cmp_eq; reflexivity). congruence. }
    rewrite F. apply IH.
  - apply bytes_ltb_cmp in E. rewrite E. tauto.
  - assert (E1 : bytes_ltb x y = false).
    { destruct (bytes_ltb x y) eqn:F; auto. apply bytes_ltb_cmp in F. congruence. }
    assert (E2 : bytes_ltb y x = true).
    { apply bytes_ltb_cmp. rewrite name_cmp_anti, E. reflexivity. }
    rewrite E1, E2. split; discriminate.
Qed.

Lemma path_eqb_cmp a b : path_eqb a b = true <-> path_cmp a b = Eq.
Proof. rewrite path_eqb_spec, path_cmp_eq. tauto. Qed.

(* std::map order of the io model on entries *)
Definition esorted (es : entries) : Prop :=
  StronglySorted (fun x y => path_ltb (fst x) (fst y) = true) es.

Lemma esorted_entries_of s l : sorted l -> esorted (entries_of s l).
Proof.
  unfold sorted, esorted, entries_of. induction 1 as [|x l Hs IH Hall]; simpl; constructor; auto.
  rewrite Forall_forall in *. intros y Hy. apply in_map_iff in Hy. destruct Hy as (z & <- & Hz).
  simpl. apply path_ltb_cmp. apply (Hall z Hz).
Qed.

Lemma keys_entries_of s l : map fst (entries_of s l) = map fst l.
Proof. unfold entries_of. rewrite map_map. reflexivity. Qed.

Lemma strongly_sorted_mid {A} (R : A -> A -> Prop) a x b :
  StronglySorted R (a ++ x :: b) -> Forall (fun y => R y x) a.
Proof.
  induction a as [|y a IH]; simpl; intros H; constructor; inversion H as [|? ? Hs Hall]; subst.
  - rewrite Forall_forall in Hall. apply Hall. apply in_or_app. right. left. reflexivity.
  - apply IH. exact Hs.
Qed.

Lemma insert_entry_last (e : list bytes * param) acc :
  Forall (fun x => path_ltb (fst x) (fst e) = true) acc -> insert_entry e acc = acc ++ [e].
Proof.
  induction acc as [|x acc IH]; simpl; intros H; auto. inversion H as [|? ? Hx Hr]; subst.
  assert (F : path_ltb (fst e) (fst x) = false).
  { destruct (path_ltb (fst e) (fst x)) eqn:F; auto. apply path_ltb_cmp in F. apply path_ltb_cmp in Hx.
    rewrite path_cmp_anti, F in Hx. discriminate. }
  rewrite F, Hx. f_equal. apply IH. exact Hr.
Qed.

(* sort_entries (= inserting into an empty std::map one by one) is the identity on a list
   that is already in std::map order *)
Lemma sort_entries_sorted (es : entries) : esorted es -> sort_entries es = es.
Proof.
  unfold sort_entries. change es with ([] ++ es) at 1 3. generalize (@nil (list bytes * param)).
  induction es as [|e es IH]; intros acc H; simpl.
  - rewrite app_nil_r. reflexivity.
  - rewrite insert_entry_last by (apply (strongly_sorted_mid _ _ _ _ H)).
    rewrite IH; rewrite <- app_assoc; simpl; auto.
Qed.

(* ------------------------------------------------------------------ map_find *)
Lemma map_find_some_in k l p : map_find k l = Some p -> In (k, p) l.
Proof.
  induction l as [|[k' q] r IH]; simpl; [discriminate|].
  destruct (path_cmp k k') eqn:E; auto. apply path_cmp_eq in E. intros [= ->]. subst. auto.
Qed.
Lemma map_find_in k l p : NoDup (map fst l) -> In (k, p) l -> map_find k l = Some p.
Proof.
  induction l as [|[k' q] r IH]; simpl; [tauto|]. intros Hn [H|H].
  - injection H as -> ->. assert (E : path_cmp k k = Eq) by (apply path_cmp_eq; reflexivity). rewrite E. reflexivity.
  - inversion Hn as [|? ? Hk Hr]; subst. destruct (path_cmp k k') eqn:E; auto.
    apply path_cmp_eq in E. subst k'. exfalso. apply Hk. apply (in_map fst) in H. exact H.
Qed.
Lemma map_find_none k l : map_find k l = None <-> ~ In k (map fst l).
Proof.
  induction l as [|[k' q] r IH]; simpl; [tauto|].
  destruct (path_cmp k k') eqn:E.
  - apply path_cmp_eq in E. subst. split; [discriminate|]. intros H. exfalso. auto.
  - rewrite IH. split; [|tauto]. intros H [H1|H1]; [|tauto]. subst k'.
    assert (path_cmp k k = Eq) by (apply path_cmp_eq; reflexivity). congruence.
  - rewrite IH. split; [|tauto]. intros H [H1|H1]; [|tauto]. subst k'.
    assert (path_cmp k k = Eq) by (apply path_cmp_eq; reflexivity). congruence.
Qed.

(* params.find(key) in get_all_parameters() is the hierarchical lookup get_parameter *)
Lemma map_find_get_parameter n w m l : Inv n w -> get_all_parameters w m = Some l ->
  forall k, map_find k l = get_parameter w m k.
Proof.
  intros HI E k. destruct (enumeration_exact n w m HI) as (l0 & E0 & _ & _ & Hnd & Hl).
  rewrite E in E0. injection E0 as <-.
  destruct (get_parameter w m k) as [p|] eqn:G.
  - apply (get_parameter_spec n w HI) in G. apply map_find_in; auto. apply Hl. exact G.
  - destruct (map_find k l) as [p|] eqn:F; auto. apply map_find_some_in, Hl in F.
    apply (get_parameter_spec n w HI) in F. congruence.
Qed.

(* ------------------------------------------------------------------ keys of two sorted enumerations *)
Definition ksorted (ks : list path) : Prop := StronglySorted (fun a b => path_cmp a b = Lt) ks.
Lemma ksorted_keys l : sorted l -> ksorted (map fst l).
Proof.
  unfold sorted, ksorted. induction 1 as [|x l Hs IH Hall]; simpl; constructor; auto.
  rewrite Forall_forall in *. intros y Hy. apply in_map_iff in Hy. destruct Hy as (z & <- & Hz). apply (Hall z Hz).
Qed.
Lemma ksorted_ext a : forall b, ksorted a -> ksorted b -> (forall k, In k a <-> In k b) -> a = b.
Proof.
  unfold ksorted. induction a as [|x a IH]; intros [|y b] Hs Hs' Hiff.
  - reflexivity.
  - exfalso. apply (proj2 (Hiff y)). left; reflexivity.
  - exfalso. apply (proj1 (Hiff x)). left; reflexivity.
  - inversion Hs as [|? ? Hs1 Hall]; inversion Hs' as [|? ? Hs1' Hall']; subst.
    rewrite Forall_forall in Hall, Hall'.
    assert (Irr : forall c : path, path_cmp c c <> Lt).
    { intros c. assert (E : path_cmp c c = Eq) by (apply path_cmp_eq; reflexivity). congruence. }
    assert (Exy : x = y).
    { destruct (proj1 (Hiff x) (or_introl eq_refl)) as [E|Hx]; [auto|].
      destruct (proj2 (Hiff y) (or_introl eq_refl)) as [E|Hy]; [auto|].
      exfalso. specialize (Hall _ Hy). specialize (Hall' _ Hx).
      apply (Irr x). eapply path_cmp_trans; eauto. }
    subst y. f_equal. apply IH; auto. intros z. split; intros Hz.
    + destruct (proj1 (Hiff z) (or_intror Hz)) as [E|H]; auto. subst z. exfalso. apply (Irr _ (Hall _ Hz)).
    + destruct (proj2 (Hiff z) (or_intror Hz)) as [E|H]; auto. subst z. exfalso. apply (Irr _ (Hall' _ Hz)).
Qed.

(* two hierarchies have the same structure when the same paths lead to parameters *)
Definition same_structure (w : world) (m : mid) (w' : world) (m' : mid) : Prop :=
  forall k, (exists p, reach_param w m k p) <-> (exists p', reach_param w' m' k p').

Lemma same_structure_keys n w m l n' w' m' l' : Inv n w -> Inv n' w' ->
  get_all_parameters w m = Some l -> get_all_parameters w' m' = Some l' ->
  same_structure w m w' m' -> map fst l' = map fst l.
Proof.
  intros HI HI' E E' Hss.
  destruct (enumeration_exact n w m HI) as (l0 & E0 & _ & Hs & _ & Hl). rewrite E in E0. injection E0 as <-.
  destruct (enumeration_exact n' w' m' HI') as (l0 & E0 & _ & Hs' & _ & Hl'). rewrite E' in E0. injection E0 as <-.
  apply ksorted_ext; try (apply ksorted_keys; assumption).
  assert (K : forall w m l, (forall k p, In (k, p) l <-> reach_param w m k p) ->
              forall k, In k (map fst l) <-> exists p, reach_param w m k p).
  { intros w0 m0 l0 H0 k. rewrite in_map_iff. split.
    - intros ([k0 p] & <- & Hin). exists p. apply H0. exact Hin.
    - intros (p & Hr). exists (k, p). split; auto. apply H0. exact Hr. }
  intros k. rewrite (K w' m' l' Hl'), (K w m l Hl). symmetry. apply Hss.
Qed.

(* ------------------------------------------------------------------ loading a saved file: the general result *)
Definition assign (ws : bool) (s : store) (x : (list bytes * param) * (path * pid)) : store :=
  store_upd s (snd (snd x)) (loaded ws (snd (fst x))).

Lemma load_entries_reg_enc ws l' : NoDup (map fst l') ->
  forall (es : entries) (lt : list (path * pid)) rest s,
  Forall wf_entry es -> map fst lt = map fst es -> incl lt l' ->
  load_entries_reg ws l' (length es) (flat_map (enc_entry ws) es ++ rest, s) =
    (Some tt, (rest, fold_left (assign ws) (combine es lt) s)).
Proof.
  intros Hnd. induction es as [|[k r] es IH]; intros lt rest s Hwf Hk Hincl.
  - destruct lt; [|discriminate]. reflexivity.
  - destruct lt as [|[k0 p'] lt]; [discriminate|]. cbn [map fst] in Hk. injection Hk as -> Hk.
    inversion Hwf as [|? ? [Hp1 Hp2] Hwf']; subst. cbn [fst snd] in *.
    cbn [length load_entries_reg flat_map]. unfold enc_entry at 1. cbn [fst snd]. rewrite <- !app_assoc.
    rewrite (bind_lift_some (r_vec r_str) _ _ _ k (enc_param_inner ws r ++ flat_map (enc_entry ws) es ++ rest))
      by (apply roundtrip_path; exact Hp1).
    unfold bind at 1. unfold on_param_reg. cbn [fst snd].
    rewrite (map_find_in k l' p' Hnd) by (apply Hincl; left; reflexivity).
    rewrite load_inner_enc by exact Hp2.
    rewrite IH with (lt := lt); auto.
    intros y Hy. apply Hincl. right. exact Hy.
Qed.

Theorem load_model_reg_enc ws n' w' m' l' (es : entries) rest s0 : Inv n' w' ->
  get_all_parameters w' m' = Some l' ->
  Forall wf_entry es -> (N.of_nat (length es) < 2 ^ 32)%N -> map fst l' = map fst es ->
  load_model_reg ws w' m' (enc_model_file ws es ++ rest, s0) =
    (Some tt, (rest, fold_left (assign ws) (combine es l') s0)).
Proof.
  intros HI E Hwf Hn Hk. unfold load_model_reg, enc_model_file. rewrite <- !app_assoc. unfold bind at 1.
  rewrite load_header_enc by reflexivity.
  rewrite (bind_lift_some r_u32 _ _ _ (N.of_nat (length es)) (flat_map (enc_entry ws) es ++ rest))
    by (apply read_write_u32; exact Hn).
  rewrite E. cbn [fst].
  assert (L : (length es <= length (flat_map (enc_entry ws) es))%nat).
  { apply length_flat_map_ge. eapply Forall_impl; [|exact Hwf]. intros kp. apply enc_entry_nonempty. }
  replace (N.to_nat (N.min (N.of_nat (length es)) (len (flat_map (enc_entry ws) es ++ rest) + 1))) with (length es).
  2:{ rewrite len_app. unfold len. lia. }
  destruct (enumeration_exact n' w' m' HI) as (l0 & E0 & _ & _ & Hnd & _). rewrite E in E0. injection E0 as <-.
  apply load_entries_reg_enc; auto. apply incl_refl.
Qed.

(* the store after the sequence of assignments *)
Lemma fold_assign_other ws : forall (x : list ((list bytes * param) * (path * pid))) s q,
  ~ In q (map (fun y => snd (snd y)) x) -> fold_left (assign ws) x s q = s q.
Proof.
  induction x as [|y x IH]; simpl; intros s q H; auto.
  rewrite IH by tauto. unfold assign, store_upd.
  destruct (Nat.eqb_spec q (snd (snd y))); auto. subst. tauto.
Qed.
Lemma fold_assign_same ws r : forall (x : list ((list bytes * param) * (path * pid))) s q,
  (forall y, In y x -> snd (snd y) = q -> snd (fst y) = r) ->
  In q (map (fun y => snd (snd y)) x) -> fold_left (assign ws) x s q = loaded ws r.
Proof.
  induction x as [|y x IH]; simpl; intros s q Hall Hin; [tauto|].
  destruct (in_dec Nat.eq_dec q (map (fun y => snd (snd y)) x)) as [Hx|Hx].
  - apply IH; auto.
  - rewrite fold_assign_other by exact Hx. destruct Hin as [Hq|Hq]; [|tauto].
    unfold assign, store_upd. rewrite Hq, Nat.eqb_refl. f_equal. apply Hall; auto.
Qed.

Lemma combine_entries_of s : forall (l l' : list (path * pid)) (e : list bytes * param) (kp : path * pid),
  map fst l' = map fst l ->
  In (e, kp) (combine (entries_of s l) l') ->
  fst e = fst kp /\ In kp l' /\ exists p, In (fst e, p) l /\ snd e = s p.
Proof.
  induction l as [|[k p] l IH]; intros [|[k' p'] l'] e kp Hk Hin; simpl in *; try tauto; try discriminate.
  injection Hk as -> Hk. destruct Hin as [Hin|Hin].
  - injection Hin as <- <-. simpl. split; auto. split; auto. exists p. auto.
  - destruct (IH l' e kp Hk Hin) as (A & B & p0 & C & D). split; auto. split; auto. exists p0. auto.
Qed.
Lemma combine_targets {A B} (a : list A) (b : list B) : length a = length b ->
  map snd (combine a b) = b.
Proof.
  revert b. induction a as [|x a IH]; intros [|y b] H; simpl in *; try discriminate; auto.
  f_equal. apply IH. lia.
Qed.

(* ------------------------------------------------------------------ refinement of the io model
   When the parameters reachable from the loading model are pairwise distinct objects, the
   io engine's state (one record per path) is exactly the store seen through the enumeration,
   and Model::load of the registry model IS FileFormat.load_model on it - for every input. *)
Section Sim.
  Variable l' : list (path * pid).
  Hypothesis Hk : NoDup (map fst l').
  Hypothesis Hp : NoDup (map snd l').

  Lemma lookup_entries_of k s : forall l, FileFormat.lookup k (entries_of s l) = option_map s (map_find k l).
  Proof.
    induction l as [|[k0 p0] l IH]; simpl; auto.
    destruct (path_cmp k k0) eqn:E.
    - apply path_eqb_cmp in E. rewrite E. reflexivity.
    - assert (F : path_eqb k k0 = false).
      { destruct (path_eqb k k0) eqn:F; auto. apply path_eqb_cmp in F. congruence. }
      rewrite F. apply IH.
    - assert (F : path_eqb k k0 = false).
      { destruct (path_eqb k k0) eqn:F; auto. apply path_eqb_cmp in F. congruence. }
      rewrite F. apply IH.
  Qed.

  Lemma entries_of_ext s s' l : (forall p, In p (map snd l) -> s p = s' p) -> entries_of s l = entries_of s' l.
  Proof.
    unfold entries_of. intros H. apply map_ext_in. intros [k p] Hin. simpl. f_equal. apply H.
    apply (in_map snd) in Hin. exact Hin.
  Qed.

  Lemma update_entries_of k r s : forall l p', NoDup (map fst l) -> NoDup (map snd l) ->
    map_find k l = Some p' ->
    FileFormat.update k r (entries_of s l) = entries_of (store_upd s p' r) l.
  Proof.
    induction l as [|[k0 p0] l IH]; simpl; intros p' Hn1 Hn2 F; [discriminate|].
    inversion Hn1 as [|? ? Hk0 Hn1']; inversion Hn2 as [|? ? Hp0 Hn2']; subst.
    destruct (path_cmp k k0) eqn:E.
    - injection F as <-. apply path_eqb_cmp in E. rewrite E. f_equal.
      + unfold store_upd. rewrite Nat.eqb_refl. reflexivity.
      + apply entries_of_ext. intros q Hq. unfold store_upd.
        destruct (Nat.eqb_spec q p0); auto. subst. tauto.
    - assert (G : path_eqb k k0 = false).
      { destruct (path_eqb k k0) eqn:G; auto. apply path_eqb_cmp in G. congruence. }
      rewrite G. f_equal.
      + f_equal. unfold store_upd. destruct (Nat.eqb_spec p0 p'); auto. subst.
        exfalso. apply Hp0. apply map_find_some_in in F. apply (in_map snd) in F. exact F.
      + apply IH; auto.
    - assert (G : path_eqb k k0 = false).
      { destruct (path_eqb k k0) eqn:G; auto. apply path_eqb_cmp in G. congruence. }
      rewrite G. f_equal.
      + f_equal. unfold store_upd. destruct (Nat.eqb_spec p0 p'); auto. subst.
        exfalso. apply Hp0. apply map_find_some_in in F. apply (in_map snd) in F. exact F.
      + apply IH; auto.
  Qed.

  Definition lift_state (x : option unit * (bytes * store)) : option unit * (bytes * entries) :=
    (fst x, (fst (snd x), entries_of (snd (snd x)) l')).

  Lemma sim_on_param key act b s :
    on_param key act (b, entries_of s l') = lift_state (on_param_reg l' key act (b, s)).
  Proof.
    unfold on_param, on_param_reg, lift_state. cbn [fst snd]. rewrite lookup_entries_of.
    destruct (map_find key l') as [p'|] eqn:F; cbn [option_map]; [|reflexivity].
    destruct (act (b, s p')) as [r [inp' rec']]. cbn [fst snd].
    rewrite (update_entries_of key rec' s l' p' Hk Hp F). reflexivity.
  Qed.

  Lemma sim_load_entries ws : forall n b s,
    load_entries ws n (b, entries_of s l') = lift_state (load_entries_reg ws l' n (b, s)).
  Proof.
    induction n as [|n IH]; intros b s; [reflexivity|].
    cbn [load_entries load_entries_reg]. unfold bind at 1 3. unfold lift_rd at 1 2. cbn [fst snd].
    destruct (r_vec r_str b) as [[key b1]|]; [|reflexivity].
    unfold bind at 1 2. rewrite sim_on_param.
    destruct (on_param_reg l' key (load_inner ws) (b1, s)) as [[[]|] [b2 s2]]; unfold lift_state; cbn [fst snd].
    - apply IH.
    - reflexivity.
  Qed.
End Sim.

Lemma load_header_indep {O1 O2} dt b (o1 : O1) (o2 : O2) :
  exists res r, load_header dt (b, o1) = (res, (r, o1)) /\ load_header dt (b, o2) = (res, (r, o2)).
Proof.
  unfold load_header.
  destruct (r_u32 b) as [[ma b1]|] eqn:E1;
    [|exists None, b; rewrite !(bind_lift_none _ _ _ _ E1); split; reflexivity].
  rewrite !(bind_lift_some _ _ _ _ _ _ E1).
  destruct (r_u32 b1) as [[mi b2]|] eqn:E2;
    [|exists None, b1; rewrite !(bind_lift_none _ _ _ _ E2); split; reflexivity].
  rewrite !(bind_lift_some _ _ _ _ _ _ E2).
  destruct (assert_version ma mi) eqn:Ev; [|exists None, b2; split; reflexivity].
  cbn [guard]. rewrite !bind_ret.
  destruct (r_u32 b2) as [[d b3]|] eqn:E3;
    [|exists None, b2; rewrite !(bind_lift_none _ _ _ _ E3); split; reflexivity].
  rewrite !(bind_lift_some _ _ _ _ _ _ E3).
  destruct (assert_datatype dt d) eqn:Ed; [exists (Some tt), b3|exists None, b3]; split; reflexivity.
Qed.

Theorem load_model_reg_refines_io ws n w m l : Inv n w -> get_all_parameters w m = Some l ->
  NoDup (map snd l) ->
  forall b s, load_model ws (b, entries_of s l) = lift_state l (load_model_reg ws w m (b, s)).
Proof.
  intros HI E Hp b s.
  destruct (enumeration_exact n w m HI) as (l0 & E0 & _ & _ & Hk & _). rewrite E in E0. injection E0 as <-.
  unfold load_model, load_model_reg. unfold bind at 1 3.
  destruct (load_header_indep DT_MODEL b (entries_of s l) s) as (res & r & -> & ->).
  destruct res as [[]|]; [|reflexivity].
  destruct (r_u32 r) as [[num b4]|] eqn:E4.
  - rewrite !(bind_lift_some _ _ _ _ _ _ E4). rewrite E. cbn [fst]. apply sim_load_entries; auto.
  - rewrite !(bind_lift_none _ _ _ _ E4). reflexivity.
Qed.

(* ------------------------------------------------------------------ statements for Props/Properties_C13_registry.v *)
Theorem saved_keys_are_exact_paths n w m s : Inv n w ->
  exists l, get_all_parameters w m = Some l /\
    model_file_entries s w m = entries_of s l /\ map fst (model_file_entries s w m) = map fst l /\
    sorted l /\ esorted (model_file_entries s w m) /\
    sort_entries (model_file_entries s w m) = model_file_entries s w m /\
    (forall k, In k (map fst (model_file_entries s w m)) <-> exists p, reach_param w m k p) /\
    (forall k r, In (k, r) (model_file_entries s w m) <-> exists p, reach_param w m k p /\ r = s p).
Proof.
  intros HI. destruct (enumeration_exact n w m HI) as (l & E & _ & Hs & _ & Hl). exists l.
  unfold model_file_entries. rewrite E. split; auto. split; auto. split; [apply keys_entries_of|].
  split; auto. split; [apply esorted_entries_of; auto|]. split; [apply sort_entries_sorted, esorted_entries_of; auto|].
  split.
  - intros k. rewrite keys_entries_of, in_map_iff. split.
    + intros ([k0 p] & <- & Hin). exists p. apply Hl. exact Hin.
    + intros (p & Hr). exists (k, p). split; auto. apply Hl. exact Hr.
  - intros k r. unfold entries_of. rewrite in_map_iff. split.
    + intros ([k0 p] & Heq & Hin). simpl in Heq. injection Heq as <- <-. exists p. split; auto. apply Hl. exact Hin.
    + intros (p & Hr & ->). exists (k, p). split; auto. apply Hl. exact Hr.
Qed.

Theorem saved_keys_nodup n w m s : Inv n w -> NoDup (map fst (model_file_entries s w m)).
Proof.
  intros HI. destruct (enumeration_exact n w m HI) as (l & E & _ & _ & Hnd & _).
  unfold model_file_entries. rewrite E, keys_entries_of. exact Hnd.
Qed.

Theorem load_resolves_exactly_saved_keys n w m n' w' m' s l' : Inv n w -> Inv n' w' ->
  same_structure w m w' m' -> get_all_parameters w' m' = Some l' ->
  (forall k, map_find k l' = get_parameter w' m' k) /\
  (forall k, In k (map fst (model_file_entries s w m)) -> exists p', get_parameter w' m' k = Some p') /\
  (forall k, ~ In k (map fst (model_file_entries s w m)) -> get_parameter w' m' k = None).
Proof.
  intros HI HI' Hss E'. destruct (saved_keys_are_exact_paths n w m s HI) as (l & E & _ & _ & _ & _ & _ & Hk & _).
  split; [apply (map_find_get_parameter n' w' m' l' HI' E')|]. split.
  - intros k Hin. apply Hk, Hss in Hin. destruct Hin as (p' & Hr). exists p'. apply (get_parameter_spec n' w' HI'). exact Hr.
  - intros k Hnin. destruct (get_parameter w' m' k) as [p'|] eqn:G; auto. exfalso. apply Hnin, Hk, Hss.
    exists p'. apply (get_parameter_spec n' w' HI'). exact G.
Qed.

(* whenever two paths lead to the same Parameter object of the loading model, the file holds
   the same record under both *)
Definition compatible (s : store) (w : world) (m : mid) (w' : world) (m' : mid) : Prop :=
  forall k1 k2 p' p1 p2, reach_param w' m' k1 p' -> reach_param w' m' k2 p' ->
    reach_param w m k1 p1 -> reach_param w m k2 p2 -> s p1 = s p2.

Theorem model_roundtrip_registry ws n w m n' w' m' s s0 rest :
  Inv n w -> Inv n' w' -> same_structure w m w' m' ->
  (forall k p, reach_param w m k p -> wf_path k /\ wf_param (s p)) ->
  (N.of_nat (length (model_file_entries s w m)) < 2 ^ 32)%N ->
  compatible s w m w' m' ->
  exists s', load_model_reg ws w' m' (enc_model_file ws (model_file_entries s w m) ++ rest, s0) = (Some tt, (rest, s')) /\
    (forall k p p', reach_param w m k p -> reach_param w' m' k p' -> s' p' = loaded ws (s p)) /\
    (forall q, (forall k, ~ reach_param w' m' k q) -> s' q = s0 q).
Proof.
  intros HI HI' Hss Hwf Hlen Hc.
  destruct (enumeration_exact n w m HI) as (l & E & _ & _ & _ & Hl).
  destruct (enumeration_exact n' w' m' HI') as (l' & E' & _ & _ & _ & Hl').
  pose proof (same_structure_keys n w m l n' w' m' l' HI HI' E E' Hss) as Hkeys.
  unfold model_file_entries in *. rewrite E in *.
  assert (Hlen2 : length (entries_of s l) = length l').
  { unfold entries_of. rewrite map_length. rewrite <- (map_length fst l), <- Hkeys, map_length. reflexivity. }
  exists (fold_left (assign ws) (combine (entries_of s l) l') s0). split; [|split].
  - apply (load_model_reg_enc ws n' w' m' l'); auto.
    + apply Forall_forall. intros [k r] Hin. unfold entries_of in Hin. apply in_map_iff in Hin.
      destruct Hin as ([k0 p] & Heq & Hin). simpl in Heq. injection Heq as <- <-.
      apply Hl in Hin. destruct (Hwf _ _ Hin). split; assumption.
    + rewrite keys_entries_of. exact Hkeys.
  - intros k p p' Hr Hr'. apply fold_assign_same.
    + intros [e kp] Hin Hq. cbn [fst snd] in *.
      destruct (combine_entries_of s l l' e kp Hkeys Hin) as (A & B & p2 & C & D).
      rewrite D. symmetry. destruct kp as [k2 q]. cbn [fst snd] in *. subst q.
      apply (Hc k k2 p' p p2); auto.
      * apply Hl'. exact B.
      * apply Hl. rewrite <- A. exact C.
    + replace (map (fun y : (list bytes * param) * (path * pid) => snd (snd y)) (combine (entries_of s l) l'))
        with (map snd (map snd (combine (entries_of s l) l'))) by (rewrite map_map; reflexivity).
      rewrite combine_targets by exact Hlen2. apply Hl' in Hr'. apply (in_map snd) in Hr'. exact Hr'.
  - intros q Hq. apply fold_assign_other.
    replace (map (fun y : (list bytes * param) * (path * pid) => snd (snd y)) (combine (entries_of s l) l'))
      with (map snd (map snd (combine (entries_of s l) l'))) by (rewrite map_map; reflexivity).
    rewrite combine_targets by exact Hlen2. intros Hin. apply in_map_iff in Hin.
    destruct Hin as ([k q0] & Heq & Hin). simpl in Heq. subst q0. apply (Hq k). apply Hl'. exact Hin.
Qed.

(* registries in which every reachable Parameter object has ONE path (no shared objects) *)
Definition distinct_objects (w : world) (m : mid) : Prop :=
  forall k1 k2 p, reach_param w m k1 p -> reach_param w m k2 p -> k1 = k2.

Lemma compatible_distinct n w m w' m' s : Inv n w -> distinct_objects w' m' -> compatible s w m w' m'.
Proof.
  intros HI Hd k1 k2 p' p1 p2 H1 H2 H3 H4. rewrite (Hd k1 k2 p' H1 H2) in H3.
  apply (get_parameter_spec n w HI) in H3, H4. congruence.
Qed.
Lemma compatible_same n w m s : Inv n w -> compatible s w m w m.
Proof.
  intros HI k1 k2 p' p1 p2 H1 H2 H3 H4.
  apply (get_parameter_spec n w HI) in H1, H2, H3, H4. congruence.
Qed.
Lemma distinct_objects_nodup n w m l : Inv n w -> get_all_parameters w m = Some l ->
  distinct_objects w m -> NoDup (map snd l).
Proof.
  intros HI E Hd. destruct (enumeration_exact n w m HI) as (l0 & E0 & _ & _ & Hnd & Hl).
  rewrite E in E0. injection E0 as <-. clear E.
  assert (Hsub : forall x, In x l -> In x l) by auto. revert Hsub Hnd. generalize l at 1 3 4 as l1.
  induction l1 as [|[k p] l1 IH]; simpl; intros Hsub Hnd; constructor.
  - intros Hin. apply in_map_iff in Hin. destruct Hin as ([k2 p2] & Heq & Hin). simpl in Heq. subst p2.
    inversion Hnd as [|? ? Hk _]; subst. apply Hk.
    assert (k = k2). { apply (Hd k k2 p); apply Hl, Hsub; auto. }
    subst k2. apply (in_map fst) in Hin. exact Hin.
  - inversion Hnd; subst. apply IH; auto.
Qed.

(* the composition with the io engine's theorem, for registries without shared objects: the
   registry-level load, seen through the enumeration, is FileFormat.load_model, whose round trip
   is C13_file_roundtrip_model with its NoDup hypothesis discharged by saved_keys_nodup *)
Theorem model_roundtrip_registry_via_io ws n w m n' w' m' l l' s s0 rest :
  Inv n w -> Inv n' w' -> get_all_parameters w m = Some l -> get_all_parameters w' m' = Some l' ->
  same_structure w m w' m' ->
  (forall k p, reach_param w m k p -> wf_path k /\ wf_param (s p)) ->
  (N.of_nat (length l) < 2 ^ 32)%N -> distinct_objects w' m' ->
  lift_state l' (load_model_reg ws w' m' (enc_model_file ws (entries_of s l) ++ rest, s0)) =
    (Some tt, (rest, map (fun kp => (fst kp, loaded ws (snd kp))) (entries_of s l))).
Proof.
  intros HI HI' E E' Hss Hwf Hlen Hd.
  rewrite <- (load_model_reg_refines_io ws n' w' m' l' HI' E' (distinct_objects_nodup n' w' m' l' HI' E' Hd)).
  destruct (enumeration_exact n w m HI) as (l0 & E0 & _ & _ & Hnd & Hl). rewrite E in E0. injection E0 as <-.
  apply file_roundtrip_model.
  - apply Forall_forall. intros [k r] Hin. unfold entries_of in Hin. apply in_map_iff in Hin.
    destruct Hin as ([k0 p] & Heq & Hin). simpl in Heq. injection Heq as <- <-.
    apply Hl in Hin. destruct (Hwf _ _ Hin). split; assumption.
  - rewrite keys_entries_of. exact Hnd.
  - unfold entries_of. rewrite map_length. exact Hlen.
  - rewrite !keys_entries_of. apply (same_structure_keys n w m l n' w' m' l' HI HI' E E' Hss).
Qed.

Lemma Forall2_map_same {A B} (R : B -> B -> Prop) (f g : A -> B) l :
  Forall2 R (map f l) (map g l) -> forall x, In x l -> R (f x) (g x).
Proof.
  induction l as [|y l IH]; simpl; intros H x Hx; [tauto|]. inversion H; subst.
  destruct Hx as [<-|Hx]; auto.
Qed.

(* C14 atomicity carried over to the registry-level load (registries without shared objects):
   success or failure at any point, every reachable Parameter is exactly as it was or one
   completely read record *)
Theorem load_model_reg_atomic ws n w m l file s res b' s' : Inv n w ->
  get_all_parameters w m = Some l -> distinct_objects w m ->
  load_model_reg ws w m (file, s) = (res, (b', s')) ->
  forall k p, reach_param w m k p -> s' p = s p \/ complete_record ws file (s' p).
Proof.
  intros HI E Hd Hload k p Hr.
  pose proof (load_model_reg_refines_io ws n w m l HI E (distinct_objects_nodup n w m l HI E Hd) file s) as Hsim.
  rewrite Hload in Hsim. unfold lift_state in Hsim. cbn [fst snd] in Hsim.
  apply load_model_atomic in Hsim. unfold entries_of in Hsim.
  destruct (enumeration_exact n w m HI) as (l0 & E0 & _ & _ & _ & Hl). rewrite E in E0. injection E0 as <-.
  apply Hl in Hr. apply (Forall2_map_same _ _ _ _ Hsim (k, p) Hr).
Qed.

(* ------------------------------------------------------------------ any well-formed file, any loading model
   Loading the file that holds [es] into ANY model (same structure or not) performs exactly
   the assignments of ModelReg.model_load_plan, each with the completely read record, and
   fails exactly at the first key the loading model does not have (earlier assignments stay).
   This is the abstraction at which harness/reg_drv.cc runs Model::save / Model::load. *)
Definition apply_plan (ws : bool) (asg : list (pid * param)) (s : store) : store :=
  fold_left (fun s x => store_upd s (fst x) (loaded ws (snd x))) asg s.

Lemma load_entries_reg_plan ws l' : forall (es : entries) rest s, Forall wf_entry es ->
  exists b', load_entries_reg ws l' (length es) (flat_map (enc_entry ws) es ++ rest, s) =
               (fst (load_keys l' es), (b', apply_plan ws (snd (load_keys l' es)) s)) /\
             (fst (load_keys l' es) = Some tt -> b' = rest).
Proof.
  induction es as [|[k r] es IH]; intros rest s Hwf.
  - exists rest. split; reflexivity.
  - inversion Hwf as [|? ? [Hp1 Hp2] Hwf']; subst. cbn [fst snd] in *.
    cbn [length load_entries_reg flat_map load_keys]. unfold enc_entry at 1. cbn [fst snd]. rewrite <- !app_assoc.
    rewrite (bind_lift_some (r_vec r_str) _ _ _ k (enc_param_inner ws r ++ flat_map (enc_entry ws) es ++ rest))
      by (apply roundtrip_path; exact Hp1).
    unfold bind at 1. unfold on_param_reg. cbn [fst snd].
    destruct (map_find k l') as [p'|].
    + rewrite load_inner_enc by exact Hp2.
      destruct (IH rest (store_upd s p' (loaded ws r)) Hwf') as (b' & E & Hb).
      destruct (load_keys l' es) as [res asg]. cbn [fst snd] in *. exists b'. split; auto.
    + eexists. split; [reflexivity|]. cbn [fst]. discriminate.
Qed.

Theorem load_model_reg_plan ws w' m' (es : entries) rest s0 :
  get_all_parameters w' m' <> None ->
  Forall wf_entry es -> (N.of_nat (length es) < 2 ^ 32)%N ->
  exists b', load_model_reg ws w' m' (enc_model_file ws es ++ rest, s0) =
               (fst (model_load_plan w' m' es), (b', apply_plan ws (snd (model_load_plan w' m' es)) s0)) /\
             (fst (model_load_plan w' m' es) = Some tt -> b' = rest).
Proof.
  intros Hsome Hwf Hn. unfold load_model_reg, model_load_plan, enc_model_file. rewrite <- !app_assoc. unfold bind at 1.
  rewrite load_header_enc by reflexivity.
  rewrite (bind_lift_some r_u32 _ _ _ (N.of_nat (length es)) (flat_map (enc_entry ws) es ++ rest))
    by (apply read_write_u32; exact Hn).
  destruct (get_all_parameters w' m') as [l'|]; [|congruence]. cbn [fst].
  assert (L : (length es <= length (flat_map (enc_entry ws) es))%nat).
  { apply length_flat_map_ge. eapply Forall_impl; [|exact Hwf]. intros kp. apply enc_entry_nonempty. }
  replace (N.to_nat (N.min (N.of_nat (length es)) (len (flat_map (enc_entry ws) es ++ rest) + 1))) with (length es).
  2:{ rewrite len_app. unfold len. lia. }
  apply load_entries_reg_plan. exact Hwf.
Qed.

Theorem load_model_reg_any ws n' w' m' (es : entries) rest s0 : Inv n' w' ->
  Forall wf_entry es -> (N.of_nat (length es) < 2 ^ 32)%N ->
  exists b', load_model_reg ws w' m' (enc_model_file ws es ++ rest, s0) =
               (fst (model_load_plan w' m' es), (b', apply_plan ws (snd (model_load_plan w' m' es)) s0)) /\
             (fst (model_load_plan w' m' es) = Some tt -> b' = rest).
Proof.
  intros HI. apply load_model_reg_plan. apply (traversals_terminate n' w' HI m' 0).
Qed.

(* ------------------------------------------------------------------ example records (used by the non-vacuity Examples) *)
Definition sh2 : shape := mkS [2%N] 1%N 2%N.
(* Parameter p: value words (p+1, 1.0f), some gradient, one statistics tensor "m" *)
Definition rec (p : pid) : param :=
  mkP true sh2 (mkT sh2 [N.of_nat p + 1; 0x3f800000]%N) (mkT sh2 [9; 9]%N) [([109%N], mkT sh2 [N.of_nat p; 5]%N)].
Definition blank : store := fun _ => mkP false scalar_shape (mkT scalar_shape []) (mkT scalar_shape []) [].

Lemma wf_rec p : (N.of_nat p + 1 < 2 ^ 32)%N -> wf_param (rec p).
Proof.
  intros Hp.
  assert (W : wf sh2).
  { destruct (ShapeProofs.mk_shape_some [2%N] 1%N sh2) as [_ [_ W]]; [|vm_compute; reflexivity|vm_compute; reflexivity|exact W].
    apply Forall_cons; [vm_compute; reflexivity|apply Forall_nil]. }
  assert (Hp' : (N.of_nat p < 2 ^ 32)%N).
  { apply N.lt_trans with (N.of_nat p + 1)%N; [apply N.lt_add_pos_r; reflexivity|exact Hp]. }
  apply mkWfP; cbn [rec p_valid p_value p_shape p_stats]; try reflexivity.
  - constructor; cbn [tshape twords]; [exact W|vm_compute; reflexivity| |vm_compute; reflexivity].
    apply Forall_cons; [exact Hp|]. apply Forall_cons; [vm_compute; reflexivity|apply Forall_nil].
  - apply Forall_cons; [|apply Forall_nil]. split; [vm_compute; reflexivity|].
    constructor; cbn [snd tshape twords]; [exact W|vm_compute; reflexivity| |vm_compute; reflexivity].
    apply Forall_cons; [exact Hp'|]. apply Forall_cons; [vm_compute; reflexivity|apply Forall_nil].
  - cbn [map fst]. apply NoDup_cons; [intros []|apply NoDup_nil].
Qed.

