(* C16 -- the submodel graph: paths, acyclicity, "fuel n+1 is enough" as an induction
   principle, has_submodel = reachability, and adding an edge that closes no cycle.
   (Generalises design/prototypes/Reg.v.) *)
From Coq Require Import List Arith Lia Bool.
From PV Require Import Registry.ModelReg.
Import ListNotations.

Section G.
  Variable n : nat.                         (* models are 0..n-1 *)
  Variable children : nat -> list nat.      (* submodel_set_ of each model *)
  Hypothesis closed : forall x c, In c (children x) -> c < n.

  (* gpath x y l: l = nodes visited after x, ending in y *)
  Inductive gpath : nat -> nat -> list nat -> Prop :=
  | p_one x y : In y (children x) -> gpath x y [y]
  | p_cons x c y l : In c (children x) -> gpath c y l -> gpath x y (c :: l).

  Definition reaches (x y : nat) : Prop := exists l, gpath x y l.
  Definition acyclic : Prop := forall x l, ~ gpath x x l.

  Lemma path_nodes_lt x y l : gpath x y l -> Forall (fun v => v < n) l.
  Proof. induction 1 as [x y H|x c y l H _ IH]; constructor; eauto. Qed.

  Lemma NoDup_lt_length (l : list nat) : NoDup l -> Forall (fun v => v < n) l -> length l <= n.
  Proof.
    intros Hn Hl. rewrite <- (seq_length n 0). apply NoDup_incl_length; auto.
    intros v Hv. apply in_seq. rewrite Forall_forall in Hl. specialize (Hl v Hv). lia.
  Qed.

  Lemma path_app x y z l1 l2 : gpath x y l1 -> gpath y z l2 -> gpath x z (l1 ++ l2).
  Proof. induction 1 as [x y H|x c y l H _ IH]; intros P; simpl; apply p_cons; auto. Qed.

  Lemma path_split x y l v : gpath x y l -> In v l ->
    v = y \/ exists l1 l2, gpath x v l1 /\ gpath v y l2 /\ l = l1 ++ l2.
  Proof.
    induction 1 as [x y H|x c y l H P IH]; intros Hv.
    - destruct Hv as [<-|[]]. left; reflexivity.
    - destruct Hv as [<-|Hv].
      + right. exists [c], l. repeat split; auto. constructor; auto.
      + destruct (IH Hv) as [->|(l1 & l2 & P1 & P2 & ->)]; [left; reflexivity|].
        right. exists (c :: l1), l2. repeat split; auto. apply p_cons; auto.
  Qed.

  Lemma acyclic_path_nodup : acyclic -> forall x y l, gpath x y l -> NoDup l /\ ~ In x l.
  Proof.
    intros Hac x y l P. induction P as [x y H|x c y l H P [IHn IHx]].
    - split; [repeat constructor; simpl; tauto|]. intros [Heq|[]]. subst y. apply (Hac x [x]). constructor; auto.
    - split.
      + constructor; auto.
      + intros [Heq|Hx]; [subst c; apply (Hac x [x]); constructor; auto|].
        destruct (path_split _ _ _ _ P Hx) as [->|(l1 & l2 & P1 & P2 & ->)].
        * apply (Hac y (c :: l)). apply p_cons; auto.
        * apply (Hac x (c :: l1)). apply p_cons; auto.
  Qed.

  (* Any property established by a recursion over the children with one unit of fuel per
     level holds with fuel n+1: on an acyclic graph the recursion stack holds distinct
     models, so it is never deeper than n. *)
  Lemma fuel_ind_aux (P : nat -> nat -> Prop) : acyclic ->
    (forall f x, (forall c, In c (children x) -> P f c) -> P (S f) x) ->
    forall fuel x pre, (pre = [] \/ exists r, gpath r x pre) -> length pre + fuel >= n + 1 -> P fuel x.
  Proof.
    intros Hac Hstep. induction fuel as [|f IH]; intros x pre Hpre Hlen.
    - exfalso. destruct Hpre as [->|[r P0]]; [simpl in Hlen; lia|].
      destruct (acyclic_path_nodup Hac _ _ _ P0) as [Hn _].
      pose proof (NoDup_lt_length _ Hn (path_nodes_lt _ _ _ P0)). lia.
    - apply Hstep. intros c Hc. apply (IH c (pre ++ [c])).
      + right. destruct Hpre as [->|[r P0]].
        * exists x. simpl. constructor; auto.
        * exists r. apply (path_app r x c); auto. constructor; auto.
      + rewrite app_length. simpl. lia.
  Qed.

  Theorem fuel_enough (P : nat -> nat -> Prop) : acyclic ->
    (forall f x, (forall c, In c (children x) -> P f c) -> P (S f) x) ->
    forall x, P (n + 1) x.
  Proof. intros Hac Hstep x. apply (fuel_ind_aux P Hac Hstep (n + 1) x []); [auto | simpl; lia]. Qed.

  Lemma reaches_inv x t : reaches x t <-> exists c, In c (children x) /\ (c = t \/ reaches c t).
  Proof.
    split.
    - intros [l P]. inversion P; subst.
      + exists t. auto.
      + exists c. split; auto. right. exists l0. auto.
    - intros (c & Hc & [->|[l P]]).
      + exists [t]. constructor; auto.
      + exists (c :: l). apply p_cons; auto.
  Qed.

  (* has_submodel returns, and returns exactly reachability *)
  Theorem has_sub_spec : acyclic -> forall t x,
    exists b, has_sub_g children (n + 1) x t = Some b /\ (b = true <-> reaches x t).
  Proof.
    intros Hac t.
    apply (fuel_enough (fun f x => exists b, has_sub_g children f x t = Some b /\ (b = true <-> reaches x t)) Hac).
    intros f x IHc. simpl.
    assert (Hgo : forall cs, incl cs (children x) -> exists b,
      (fix go (cs : list nat) : option bool :=
         match cs with
         | [] => Some false
         | c :: cs' => if Nat.eqb c t then Some true
                       else match has_sub_g children f c t with
                            | None => None | Some true => Some true | Some false => go cs' end
         end) cs = Some b /\ (b = true <-> exists c, In c cs /\ (c = t \/ reaches c t))).
    { induction cs as [|c cs IHcs]; intros Hin.
      - exists false. split; auto. split; [discriminate|]. intros (c & [] & _).
      - assert (Hc : In c (children x)) by (apply Hin; left; reflexivity).
        destruct (Nat.eqb c t) eqn:E.
        + apply Nat.eqb_eq in E. exists true. split; auto. split; auto. intros _. exists c. simpl. auto.
        + apply Nat.eqb_neq in E. destruct (IHc c Hc) as (b & -> & Hb). destruct b.
          * exists true. split; auto. split; auto. intros _. exists c. simpl. split; auto. right. tauto.
          * destruct IHcs as (b & -> & Hb2). { intros v Hv. apply Hin. right; auto. }
            exists b. split; auto. rewrite Hb2. split.
            -- intros (c' & H1 & H2). exists c'. simpl. auto.
            -- intros (c' & [<-|H1] & H2).
               ++ destruct H2 as [H2|H2]; [tauto|]. apply Hb in H2. discriminate.
               ++ exists c'. auto. }
    destruct (Hgo (children x) (incl_refl _)) as (b & -> & Hb). exists b. split; auto.
    rewrite Hb. symmetry. apply reaches_inv.
  Qed.
End G.

Arguments gpath : clear implicits.
Arguments reaches : clear implicits.
Arguments acyclic : clear implicits.

(* paths depend on the children lists only through membership *)
Lemma path_incl ch ch' : (forall x y, In y (ch x) -> In y (ch' x)) ->
  forall x y l, gpath ch x y l -> gpath ch' x y l.
Proof. intros H x y l P. induction P; [apply p_one|eapply p_cons]; eauto. Qed.

Lemma acyclic_incl ch ch' : (forall x y, In y (ch' x) -> In y (ch x)) -> acyclic ch -> acyclic ch'.
Proof. intros H Hac x l P. apply (Hac x l). eapply path_incl; eauto. Qed.

(* Adding the edge m -> c when c <> m and c does not reach m closes no cycle. *)
Lemma add_edge_reach ch ch' m c :
  (forall x y, In y (ch' x) -> In y (ch x) \/ (x = m /\ y = c)) ->
  forall x y l, gpath ch' x y l ->
    reaches ch x y \/ ((x = m \/ reaches ch x m) /\ (c = y \/ reaches ch c y)).
Proof.
  intros Hch x y l P. induction P as [x y H|x z y l H P IH].
  - destruct (Hch _ _ H) as [H1|[-> ->]].
    + left. exists [y]. constructor; auto.
    + right. auto.
  - destruct (Hch _ _ H) as [H1|[-> ->]].
    + destruct IH as [[l1 P1]|[Hzm Hcy]].
      * left. exists (z :: l1). apply p_cons; auto.
      * right. split; auto. right. destruct Hzm as [->|[l1 P1]].
        -- exists [m]. constructor; auto.
        -- exists (z :: l1). apply p_cons; auto.
    + right. split; auto. destruct IH as [H1|[_ H1]]; auto.
Qed.

Lemma acyclic_add_edge ch ch' m c :
  (forall x y, In y (ch' x) -> In y (ch x) \/ (x = m /\ y = c)) ->
  acyclic ch -> c <> m -> ~ reaches ch c m -> acyclic ch'.
Proof.
  intros Hch Hac Hne Hnr x l P.
  destruct (add_edge_reach ch ch' m c Hch x x l P) as [[l1 P1]|[Hxm Hcx]].
  - apply (Hac x l1 P1).
  - apply Hnr. destruct Hxm as [->|[l1 P1]].
    + destruct Hcx as [Hcx|Hcx]; [congruence|exact Hcx].
    + destruct Hcx as [->|[l2 P2]].
      * exists l1. exact P1.
      * exists (l2 ++ l1). eapply path_app; eauto.
Qed.
