(* C16 -- lemmas on the lexicographic orders of names / paths and on the sorted-list model of
   std::map<std::vector<std::string>, Parameter *> (map_emplace, emplace_all). *)
From Coq Require Import List Arith NArith Bool Lia Sorted.
From PV Require Import Registry.ModelReg.
Import ListNotations.

Section Lex.
  Context {A : Type} (cmp : A -> A -> comparison).
  Hypothesis cmp_eq : forall a b, cmp a b = Eq <-> a = b.
  Hypothesis cmp_anti : forall a b, cmp b a = CompOpp (cmp a b).
  Hypothesis cmp_trans : forall a b c, cmp a b = Lt -> cmp b c = Lt -> cmp a c = Lt.

  Lemma lex_eq a b : lex_cmp cmp a b = Eq <-> a = b.
  Proof.
    revert b. induction a as [|x a IH]; intros [|y b]; simpl; split; try discriminate; auto.
    - destruct (cmp x y) eqn:E; try discriminate. intros H. apply cmp_eq in E. apply IH in H. congruence.
    - intros [= -> ->]. assert (E : cmp y y = Eq) by (apply cmp_eq; reflexivity). rewrite E. apply IH. reflexivity.
  Qed.

  Lemma lex_anti a b : lex_cmp cmp b a = CompOpp (lex_cmp cmp a b).
  Proof.
    revert b. induction a as [|x a IH]; intros [|y b]; simpl; auto.
    rewrite (cmp_anti x y). destruct (cmp x y); simpl; auto.
  Qed.

  Lemma lex_trans a b c : lex_cmp cmp a b = Lt -> lex_cmp cmp b c = Lt -> lex_cmp cmp a c = Lt.
  Proof.
    revert b c. induction a as [|x a IH]; intros [|y b] [|z c]; simpl; try discriminate; auto.
    destruct (cmp x y) eqn:Exy; try discriminate.
    - apply cmp_eq in Exy. subst y. destruct (cmp x z); auto. apply IH.
    - intros _. destruct (cmp y z) eqn:Eyz; try discriminate.
      + apply cmp_eq in Eyz. subst z. rewrite Exy. auto.
      + rewrite (cmp_trans _ _ _ Exy Eyz). auto.
  Qed.
End Lex.

Lemma Ncmp_eq a b : N.compare a b = Eq <-> a = b.
Proof. apply N.compare_eq_iff. Qed.
Lemma Ncmp_anti a b : N.compare b a = CompOpp (N.compare a b).
Proof. apply N.compare_antisym. Qed.
Lemma Ncmp_trans a b c : N.compare a b = Lt -> N.compare b c = Lt -> N.compare a c = Lt.
Proof. rewrite !N.compare_lt_iff. lia. Qed.

Lemma name_cmp_eq a b : name_cmp a b = Eq <-> a = b.
Proof. apply lex_eq. apply Ncmp_eq. Qed.
Lemma name_cmp_anti a b : name_cmp b a = CompOpp (name_cmp a b).
Proof. apply lex_anti. apply Ncmp_anti. Qed.
Lemma name_cmp_trans a b c : name_cmp a b = Lt -> name_cmp b c = Lt -> name_cmp a c = Lt.
Proof. apply lex_trans. apply Ncmp_eq. apply Ncmp_trans. Qed.

Lemma path_cmp_eq a b : path_cmp a b = Eq <-> a = b.
Proof. apply lex_eq. apply name_cmp_eq. Qed.
Lemma path_cmp_anti a b : path_cmp b a = CompOpp (path_cmp a b).
Proof. apply lex_anti. apply name_cmp_anti. Qed.
Lemma path_cmp_trans a b c : path_cmp a b = Lt -> path_cmp b c = Lt -> path_cmp a c = Lt.
Proof. apply lex_trans. apply name_cmp_eq. apply name_cmp_trans. Qed.

Lemma name_eqb_spec a b : name_eqb a b = true <-> a = b.
Proof.
  unfold name_eqb. destruct (name_cmp a b) eqn:E.
  - apply name_cmp_eq in E. tauto.
  - split; [discriminate|]. intros ->. assert (H : name_cmp b b = Eq) by (apply name_cmp_eq; reflexivity). congruence.
  - split; [discriminate|]. intros ->. assert (H : name_cmp b b = Eq) by (apply name_cmp_eq; reflexivity). congruence.
Qed.
Lemma name_eqb_refl a : name_eqb a a = true.
Proof. apply name_eqb_spec. reflexivity. Qed.
Lemma name_eq_dec (a b : name) : {a = b} + {a <> b}.
Proof. destruct (name_eqb a b) eqn:E; [left; apply name_eqb_spec; auto|right; intros H; apply name_eqb_spec in H; congruence]. Qed.

Lemma mem_name_spec nm s : mem_name nm s = true <-> In nm s.
Proof.
  unfold mem_name. rewrite existsb_exists. split.
  - intros (x & Hx & E). apply name_eqb_spec in E. subst. auto.
  - intros H. exists nm. split; auto. apply name_eqb_refl.
Qed.
Lemma mem_id_spec x s : mem_id x s = true <-> In x s.
Proof.
  unfold mem_id. rewrite existsb_exists. split.
  - intros (y & Hy & E). apply Nat.eqb_eq in E. subst. auto.
  - intros H. exists x. split; auto. apply Nat.eqb_refl.
Qed.

(* ---- find_kv on the unordered maps *)
Lemma find_kv_some_in {V} nm (l : list (name * V)) v : find_kv nm l = Some v -> In (nm, v) l.
Proof.
  induction l as [|[k u] r IH]; simpl; [discriminate|].
  destruct (name_eqb nm k) eqn:E.
  - apply name_eqb_spec in E. intros [= ->]. subst. auto.
  - auto.
Qed.
Lemma find_kv_none {V} nm (l : list (name * V)) : find_kv nm l = None <-> ~ In nm (map fst l).
Proof.
  induction l as [|[k u] r IH]; simpl; [tauto|].
  destruct (name_eqb nm k) eqn:E.
  - apply name_eqb_spec in E. subst. split; [discriminate|]. intros H. exfalso. auto.
  - rewrite IH. split; [|tauto]. intros H [H1|H1]; [|tauto]. subst k. rewrite name_eqb_refl in E. discriminate.
Qed.
Lemma find_kv_in {V} nm (l : list (name * V)) v : NoDup (map fst l) -> In (nm, v) l -> find_kv nm l = Some v.
Proof.
  induction l as [|[k u] r IH]; simpl; [tauto|]. intros Hn [H|H].
  - injection H as -> ->. rewrite name_eqb_refl. reflexivity.
  - inversion Hn as [|? ? Hk Hr]; subst. destruct (name_eqb nm k) eqn:E; [|auto].
    apply name_eqb_spec in E. subst k. exfalso. apply Hk. apply (in_map fst) in H. exact H.
Qed.

(* ---- the sorted list as std::map *)
Definition key_lt (x y : path * pid) : Prop := path_cmp (fst x) (fst y) = Lt.
Definition sorted (l : list (path * pid)) : Prop := StronglySorted key_lt l.

Lemma In_map_emplace_inv k v l x : In x (map_emplace k v l) -> In x l \/ x = (k, v).
Proof.
  induction l as [|[k' v'] r IH]; simpl.
  - intros [H|[]]; auto.
  - destruct (path_cmp k k'); simpl; intuition.
Qed.
Lemma In_map_emplace_old k v l x : In x l -> In x (map_emplace k v l).
Proof.
  induction l as [|[k' v'] r IH]; simpl; [tauto|].
  destruct (path_cmp k k'); simpl; intuition.
Qed.
Lemma In_map_emplace_new k v l : ~ In k (map fst l) -> In (k, v) (map_emplace k v l).
Proof.
  induction l as [|[k' v'] r IH]; simpl; [auto|]. intros H.
  destruct (path_cmp k k') eqn:E; simpl; auto.
  - apply path_cmp_eq in E. subst. tauto.
  - right. apply IH. tauto.
Qed.
Lemma sorted_map_emplace k v l : sorted l -> sorted (map_emplace k v l).
Proof.
  unfold sorted. induction l as [|[k' v'] r IH]; simpl; intros Hs.
  - constructor; constructor.
  - inversion Hs as [|? ? Hr Hall]; subst. destruct (path_cmp k k') eqn:E.
    + exact Hs.
    + constructor; auto. constructor; auto.
      rewrite Forall_forall in *. intros y Hy. unfold key_lt in *. simpl in *.
      eapply path_cmp_trans; [exact E|]. apply (Hall y Hy).
    + constructor; auto. rewrite Forall_forall in *. intros y Hy.
      apply In_map_emplace_inv in Hy. destruct Hy as [Hy| ->]; auto.
      unfold key_lt. simpl. rewrite path_cmp_anti, E. reflexivity.
Qed.
Lemma sorted_nodup l : sorted l -> NoDup (map fst l).
Proof.
  unfold sorted. induction 1 as [|x l Hs IH Hall]; simpl; constructor; auto.
  intros Hin. apply in_map_iff in Hin. destruct Hin as (y & Hy & Hin).
  rewrite Forall_forall in Hall. specialize (Hall y Hin). unfold key_lt in Hall. rewrite Hy in Hall.
  assert (E : path_cmp (fst x) (fst x) = Eq) by (apply path_cmp_eq; reflexivity). congruence.
Qed.

Lemma In_emplace_all_inv kvs : forall acc x, In x (emplace_all kvs acc) -> In x acc \/ In x kvs.
Proof.
  unfold emplace_all. induction kvs as [|[k v] r IH]; simpl; intros acc x H; auto.
  apply IH in H. destruct H as [H|H]; auto.
  apply In_map_emplace_inv in H. destruct H as [H| ->]; auto.
Qed.
Lemma In_emplace_all_old kvs : forall acc x, In x acc -> In x (emplace_all kvs acc).
Proof.
  unfold emplace_all. induction kvs as [|[k v] r IH]; simpl; intros acc x H; auto.
  apply IH. apply In_map_emplace_old. exact H.
Qed.
Lemma In_emplace_all_new kvs : forall acc x, NoDup (map fst kvs) ->
  (forall k, In k (map fst kvs) -> ~ In k (map fst acc)) -> In x kvs -> In x (emplace_all kvs acc).
Proof.
  induction kvs as [|[k v] r IH]; simpl; intros acc x Hn Hd Hx; [tauto|].
  inversion Hn as [|? ? Hk Hr]; subst. change (In x (emplace_all r (map_emplace k v acc))).
  destruct Hx as [<-|Hx].
  - apply In_emplace_all_old. apply In_map_emplace_new. apply Hd. auto.
  - apply IH; auto. intros k' Hk' Hin. apply in_map_iff in Hin. destruct Hin as ([k2 v2] & E & Hin).
    simpl in E. subst k2. apply In_map_emplace_inv in Hin. destruct Hin as [Hin|Hin].
    + apply (Hd k'); auto. apply in_map_iff. exists (k', v2). auto.
    + injection Hin as -> ->. auto.
Qed.
Lemma sorted_emplace_all kvs : forall acc, sorted acc -> sorted (emplace_all kvs acc).
Proof.
  unfold emplace_all. induction kvs as [|[k v] r IH]; simpl; intros acc H; auto.
  apply IH. apply sorted_map_emplace. exact H.
Qed.

(* two strictly sorted lists with the same elements are the same list: the result of
   get_all_parameters does not depend on the iteration order of the unordered containers *)
Lemma sorted_ext l : forall l', sorted l -> sorted l' -> (forall x, In x l <-> In x l') -> l = l'.
Proof.
  unfold sorted. induction l as [|x l IH]; intros [|y l'] Hs Hs' Hiff.
  - reflexivity.
  - exfalso. apply (proj2 (Hiff y)). left; reflexivity.
  - exfalso. apply (proj1 (Hiff x)). left; reflexivity.
  - inversion Hs as [|? ? Hs1 Hall]; inversion Hs' as [|? ? Hs1' Hall']; subst.
    rewrite Forall_forall in Hall, Hall'.
    assert (Irr : forall a : path, path_cmp a a <> Lt).
    { intros a. assert (E : path_cmp a a = Eq) by (apply path_cmp_eq; reflexivity). congruence. }
    assert (Exy : x = y).
    { destruct (proj1 (Hiff x) (or_introl eq_refl)) as [E|Hx]; [auto|].
      destruct (proj2 (Hiff y) (or_introl eq_refl)) as [E|Hy]; [auto|].
      exfalso. specialize (Hall _ Hy). specialize (Hall' _ Hx). unfold key_lt in *.
      apply (Irr (fst x)). eapply path_cmp_trans; eauto. }
    subst y. f_equal. apply IH; auto. intros z. split; intros Hz.
    + destruct (proj1 (Hiff z) (or_intror Hz)) as [E|H]; auto. subst z. exfalso.
      specialize (Hall _ Hz). unfold key_lt in Hall. apply (Irr _ Hall).
    + destruct (proj2 (Hiff z) (or_intror Hz)) as [E|H]; auto. subst z. exfalso.
      specialize (Hall' _ Hz). unfold key_lt in Hall'. apply (Irr _ Hall').
Qed.
