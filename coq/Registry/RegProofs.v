(* C16 -- proofs about the registry model (ModelReg.v): invariants over every history of add
   calls, exact outcome of every add, termination and exactness of the traversals, exactness
   of the lookups, Optimizer::add registers once. *)
From Coq Require Import List Arith NArith Bool Lia Sorted Permutation FinFun.
From PV Require Import Base.Err Registry.ModelReg Registry.RegOrder Registry.RegGraph.
Import ListNotations.

(* ------------------------------------------------------------------ world access *)
Lemma setm_length w : forall m s, length (setm w m s) = length w.
Proof. induction w as [|x w IH]; intros [|m] s; simpl; auto. Qed.
Lemma getm_setm_same w : forall m s, m < length w -> getm (setm w m s) m = s.
Proof.
  unfold getm. induction w as [|x w IH]; intros [|m] s H; simpl in *; try lia; auto.
  apply IH. lia.
Qed.
Lemma getm_setm_other w : forall m m' s, m' <> m -> getm (setm w m s) m' = getm w m'.
Proof.
  unfold getm. induction w as [|x w IH]; intros [|m] [|m'] s H; simpl; auto; try congruence.
Qed.
Lemma setm_setm w : forall m s s', setm (setm w m s) m s' = setm w m s'.
Proof. induction w as [|x w IH]; intros [|m] s s'; simpl; auto. f_equal. apply IH. Qed.
Lemma getm_empty n : forall m, getm (empty_world n) m = empty_model.
Proof.
  unfold getm, empty_world. induction n as [|n IH]; intros [|m]; simpl; auto.
Qed.
Lemma getm_setm w m m' s : m < length w ->
  getm (setm w m s) m' = if Nat.eqb m' m then s else getm w m'.
Proof.
  intros H. destruct (Nat.eqb_spec m' m) as [->|E]; [apply getm_setm_same; auto|apply getm_setm_other; auto].
Qed.

Lemma nodup_app_l {A} (a b : list A) : NoDup (a ++ b) -> NoDup a.
Proof.
  induction a as [|x a IH]; simpl; intros H; [constructor|]. inversion H as [|? ? Hx Hr]; subst.
  constructor; auto. intros Hin. apply Hx. apply in_or_app. auto.
Qed.
Lemma nodup_app_r {A} (a b : list A) : NoDup (a ++ b) -> NoDup b.
Proof. induction a as [|x a IH]; simpl; intros H; auto. inversion H; subst. auto. Qed.

(* ------------------------------------------------------------------ normal forms of the adds
   (this is where the source order of checks and mutations matters: with a mutation moved
   above a check the error branches would not return [w]) *)
Definition add_param_nf (m : mid) (nm : name) (p : pid) (w : world) : option unit * world :=
  let s := getm w m in
  if match find_kv nm (param_kv s) with Some p' => Nat.eqb p' p | None => false end then (Some tt, w)
  else if mem_name nm (name_set s) then (None, w)
  else if mem_id p (param_set s) then (None, w)
  else (Some tt, setm w m (mkM (kv_emplace nm p (param_kv s)) (submodel_kv s)
                                (names_emplace nm (name_set s)) (ids_emplace p (param_set s))
                                (submodel_set s))).

Lemma add_param_normal m nm p w : m < length w -> add_param m nm p w = add_param_nf m nm p w.
Proof.
  intros Hm. unfold add_param, add_param_nf, bind, get, guard, upd, ret, throw.
  destruct (match find_kv nm (param_kv (getm w m)) with Some p' => Nat.eqb p' p | None => false end); [reflexivity|].
  destruct (mem_name nm (name_set (getm w m))); simpl; [reflexivity|].
  destruct (mem_id p (param_set (getm w m))); simpl; [reflexivity|].
  rewrite !getm_setm_same by (rewrite ?setm_length; auto). rewrite !setm_setm. reflexivity.
Qed.

Definition add_model_nf (m : mid) (nm : name) (c : mid) (w : world) : option unit * world :=
  let s := getm w m in
  if match find_kv nm (submodel_kv s) with Some c' => Nat.eqb c' c | None => false end then (Some tt, w)
  else if Nat.eqb c m then (None, w)
  else match has_submodel w c m with
       | None => (None, w)
       | Some true => (None, w)
       | Some false =>
         if mem_name nm (name_set s) then (None, w)
         else if mem_id c (submodel_set s) then (None, w)
         else (Some tt, setm w m (mkM (param_kv s) (kv_emplace nm c (submodel_kv s))
                                       (names_emplace nm (name_set s)) (param_set s)
                                       (ids_emplace c (submodel_set s))))
       end.

Lemma add_model_normal m nm c w : m < length w -> add_model m nm c w = add_model_nf m nm c w.
Proof.
  intros Hm. unfold add_model, add_model_nf, bind, get, guard, upd, ret, throw.
  destruct (match find_kv nm (submodel_kv (getm w m)) with Some c' => Nat.eqb c' c | None => false end); [reflexivity|].
  destruct (Nat.eqb c m); simpl; [reflexivity|].
  destruct (has_submodel w c m) as [[|]|]; simpl; try reflexivity.
  destruct (mem_name nm (name_set (getm w m))); simpl; [reflexivity|].
  destruct (mem_id c (submodel_set (getm w m))); simpl; [reflexivity|].
  rewrite !getm_setm_same by (rewrite ?setm_length; auto). rewrite !setm_setm. reflexivity.
Qed.

(* a rejected add leaves the whole world as it was (err_preserves_state of Base/Err.v) *)
Lemma add_param_err_preserves m nm p w : m < length w ->
  forall w', add_param m nm p w = (None, w') -> w' = w.
Proof.
  intros Hm w'. rewrite add_param_normal by auto. unfold add_param_nf.
  repeat match goal with |- context [if ?b then _ else _] => destruct b end; congruence.
Qed.
Lemma add_model_err_preserves m nm c w : m < length w ->
  forall w', add_model m nm c w = (None, w') -> w' = w.
Proof.
  intros Hm w'. rewrite add_model_normal by auto. unfold add_model_nf.
  repeat match goal with
         | |- context [if ?b then _ else _] => destruct b
         | |- context [match has_submodel ?a ?b ?c with _ => _ end] => destruct (has_submodel a b c) as [[|]|]
         end; congruence.
Qed.

(* ------------------------------------------------------------------ the invariant *)
Definition pkeys (s : mstate) := map fst (param_kv s).
Definition skeys (s : mstate) := map fst (submodel_kv s).
Definition names_of (s : mstate) := pkeys s ++ skeys s.

Record model_ok (n : nat) (s : mstate) : Prop := {
  ok_names : NoDup (names_of s);                                   (* names unique across both maps *)
  ok_name_set : forall x, In x (name_set s) <-> In x (names_of s);
  ok_name_set_nd : NoDup (name_set s);
  ok_param_set : forall p, In p (param_set s) <-> In p (map snd (param_kv s));
  ok_param_set_nd : NoDup (param_set s);
  ok_params_nd : NoDup (map snd (param_kv s));                     (* a Parameter object once per model *)
  ok_sub_set : forall c, In c (submodel_set s) <-> In c (map snd (submodel_kv s));
  ok_sub_set_nd : NoDup (submodel_set s);
  ok_subs_nd : NoDup (map snd (submodel_kv s));                    (* a Model object once per parent *)
  ok_closed : forall c, In c (submodel_set s) -> c < n }.

Definition Inv (n : nat) (w : world) : Prop :=
  length w = n /\ (forall m, model_ok n (getm w m)) /\ acyclic (children w).

Lemma model_ok_empty n : model_ok n empty_model.
Proof. constructor; simpl; try constructor; try tauto. Qed.

Lemma Inv_empty n : Inv n (empty_world n).
Proof.
  split; [apply repeat_length|]. split.
  - intros m. rewrite getm_empty. apply model_ok_empty.
  - intros x l P. inversion P as [? ? H|? ? ? ? H _]; subst; unfold children in H; rewrite getm_empty in H; destruct H.
Qed.

Lemma nodup_app_disjoint {A} (a b : list A) x : NoDup (a ++ b) -> In x a -> In x b -> False.
Proof.
  induction a as [|y a IH]; simpl; [tauto|]. intros Hn [->|Ha] Hb.
  - inversion Hn as [|? ? Hx _]; subst. apply Hx. apply in_or_app. auto.
  - inversion Hn; subst. auto.
Qed.

Lemma closed_of_Inv n w : Inv n w -> forall x c, In c (children w x) -> c < n.
Proof. intros (_ & Hok & _) x c H. apply (ok_closed _ _ (Hok x)). exact H. Qed.

(* has_submodel on a world satisfying the invariant returns, and returns reachability *)
Lemma has_submodel_spec n w : Inv n w -> forall x t,
  exists b, has_submodel w x t = Some b /\ (b = true <-> reaches (children w) x t).
Proof.
  intros HI x t. unfold has_submodel, fuel_of. destruct HI as (Hlen & Hok & Hac). rewrite Hlen.
  apply (has_sub_spec n (children w)); auto.
  intros y c H. apply (ok_closed _ _ (Hok y)). exact H.
Qed.

(* ------------------------------------------------------------------ exact outcome of add(name, Parameter&) *)
Definition add_param_new (w : world) (m : mid) (nm : name) (p : pid) : world :=
  let s := getm w m in
  setm w m (mkM ((nm, p) :: param_kv s) (submodel_kv s) (nm :: name_set s) (p :: param_set s) (submodel_set s)).

Theorem add_param_cases n w m nm p : Inv n w -> m < n ->
  let s := getm w m in
  (In (nm, p) (param_kv s) /\ add_param m nm p w = (Some tt, w)) \/
  (~ In (nm, p) (param_kv s) /\ (In nm (names_of s) \/ In p (map snd (param_kv s))) /\
     add_param m nm p w = (None, w)) \/
  (~ In nm (names_of s) /\ ~ In p (map snd (param_kv s)) /\
     add_param m nm p w = (Some tt, add_param_new w m nm p)).
Proof.
  intros (Hlen & Hok & Hac) Hm s. rewrite add_param_normal by lia. unfold add_param_nf. fold s.
  pose proof (Hok m) as Hs. fold s in Hs.
  assert (Hpk : NoDup (pkeys s)) by (apply (nodup_app_l _ _ (ok_names _ _ Hs))).
  destruct (find_kv nm (param_kv s)) as [p'|] eqn:Ef.
  - pose proof (find_kv_some_in _ _ _ Ef) as Hin.
    destruct (Nat.eqb_spec p' p) as [->|Hne].
    + left. auto.
    + right. left. assert (Hnm : In nm (names_of s)).
      { unfold names_of. apply in_or_app. left. apply (in_map fst) in Hin. exact Hin. }
      assert (Hmem : mem_name nm (name_set s) = true) by (apply mem_name_spec, (ok_name_set _ _ Hs); auto).
      rewrite Hmem. repeat split; auto.
      intros Hin2. apply (find_kv_in _ _ _ Hpk) in Hin2. congruence.
  - pose proof (proj1 (find_kv_none _ _) Ef) as Hnk.
    assert (Hnin : ~ In (nm, p) (param_kv s)).
    { intros H. apply Hnk. apply (in_map fst) in H. exact H. }
    destruct (mem_name nm (name_set s)) eqn:En.
    + right. left. apply mem_name_spec, (ok_name_set _ _ Hs) in En. auto.
    + destruct (mem_id p (param_set s)) eqn:Ep.
      * right. left. apply mem_id_spec, (ok_param_set _ _ Hs) in Ep. auto.
      * right. right.
        assert (Hn1 : ~ In nm (names_of s)).
        { intros H. apply (ok_name_set _ _ Hs), mem_name_spec in H. congruence. }
        assert (Hn2 : ~ In p (map snd (param_kv s))).
        { intros H. apply (ok_param_set _ _ Hs), mem_id_spec in H. congruence. }
        repeat split; auto. unfold add_param_new, kv_emplace, names_emplace, ids_emplace. fold s.
        rewrite Ef, En, Ep. reflexivity.
Qed.

(* ------------------------------------------------------------------ exact outcome of add(name, Model&) *)
Definition add_model_new (w : world) (m : mid) (nm : name) (c : mid) : world :=
  let s := getm w m in
  setm w m (mkM (param_kv s) ((nm, c) :: submodel_kv s) (nm :: name_set s) (param_set s) (c :: submodel_set s)).

Theorem add_model_cases n w m nm c : Inv n w -> m < n ->
  let s := getm w m in
  (In (nm, c) (submodel_kv s) /\ add_model m nm c w = (Some tt, w)) \/
  (~ In (nm, c) (submodel_kv s) /\
     (c = m \/ reaches (children w) c m \/ In nm (names_of s) \/ In c (map snd (submodel_kv s))) /\
     add_model m nm c w = (None, w)) \/
  (c <> m /\ ~ reaches (children w) c m /\ ~ In nm (names_of s) /\ ~ In c (map snd (submodel_kv s)) /\
     add_model m nm c w = (Some tt, add_model_new w m nm c)).
Proof.
  intros HI Hm s. pose proof HI as (Hlen & Hok & Hac). rewrite add_model_normal by lia.
  unfold add_model_nf. fold s. pose proof (Hok m) as Hs. fold s in Hs.
  assert (Hsk : NoDup (skeys s)) by (apply (nodup_app_r _ _ (ok_names _ _ Hs))).
  assert (Hfirst : forall c', find_kv nm (submodel_kv s) = Some c' -> c' <> c -> ~ In (nm, c) (submodel_kv s)).
  { intros c' Ef Hne Hin2. apply (find_kv_in _ _ _ Hsk) in Hin2. congruence. }
  assert (Hnone : find_kv nm (submodel_kv s) = None -> ~ In (nm, c) (submodel_kv s)).
  { intros Ef H. apply (proj1 (find_kv_none _ _) Ef). apply (in_map fst) in H. exact H. }
  destruct (match find_kv nm (submodel_kv s) with Some c' => Nat.eqb c' c | None => false end) eqn:Etest.
  - left. destruct (find_kv nm (submodel_kv s)) as [c'|] eqn:Ef; [|discriminate].
    apply Nat.eqb_eq in Etest. subst c'. split; auto. apply find_kv_some_in. exact Ef.
  - assert (Hnin : ~ In (nm, c) (submodel_kv s)).
    { destruct (find_kv nm (submodel_kv s)) as [c'|] eqn:Ef; [|auto].
      apply Nat.eqb_neq in Etest. eapply Hfirst; eauto. }
    destruct (Nat.eqb_spec c m) as [->|Hcm]; [right; left; auto|].
    destruct (has_submodel_spec n w HI c m) as (b & -> & Hb). destruct b.
    + right. left. repeat split; auto. right. left. apply Hb. reflexivity.
    + assert (Hnr : ~ reaches (children w) c m) by (intros H; apply Hb in H; discriminate).
      destruct (mem_name nm (name_set s)) eqn:En.
      * right. left. apply mem_name_spec, (ok_name_set _ _ Hs) in En. auto 6.
      * destruct (mem_id c (submodel_set s)) eqn:Ec.
        -- right. left. apply mem_id_spec, (ok_sub_set _ _ Hs) in Ec. auto 6.
        -- right. right.
           assert (Hn1 : ~ In nm (names_of s)).
           { intros H. apply (ok_name_set _ _ Hs), mem_name_spec in H. congruence. }
           assert (Hn2 : ~ In c (map snd (submodel_kv s))).
           { intros H. apply (ok_sub_set _ _ Hs), mem_id_spec in H. congruence. }
           repeat split; auto. unfold add_model_new, kv_emplace, names_emplace, ids_emplace. fold s.
           assert (Ef : find_kv nm (submodel_kv s) = None).
           { apply find_kv_none. intros H. apply Hn1. unfold names_of. apply in_or_app. right. exact H. }
           rewrite Ef, En, Ec. reflexivity.
Qed.

(* ------------------------------------------------------------------ preservation *)
Lemma children_setm_same_subs w m s : m < length w -> submodel_set s = submodel_set (getm w m) ->
  forall x, children (setm w m s) x = children w x.
Proof.
  intros Hm E x. unfold children. rewrite getm_setm by auto.
  destruct (Nat.eqb_spec x m) as [->|]; auto.
Qed.

Lemma Inv_add_param_new n w m nm p : Inv n w -> m < n ->
  ~ In nm (names_of (getm w m)) -> ~ In p (map snd (param_kv (getm w m))) ->
  Inv n (add_param_new w m nm p).
Proof.
  intros (Hlen & Hok & Hac) Hm Hn1 Hn2. unfold add_param_new. set (s := getm w m) in *.
  pose proof (Hok m) as Hs. fold s in Hs. split; [rewrite setm_length; auto|]. split.
  - intros m'. rewrite getm_setm by lia. destruct (Nat.eqb_spec m' m) as [->|]; [|apply Hok].
    destruct Hs. constructor; simpl; auto.
    + unfold names_of, pkeys, skeys in *. simpl. constructor; auto.
    + intros x. unfold names_of, pkeys, skeys in *. simpl. rewrite ok_name_set0. tauto.
    + constructor; auto. rewrite ok_name_set0. auto.
    + intros q. rewrite ok_param_set0. tauto.
    + constructor; auto. rewrite ok_param_set0. auto.
    + constructor; auto.
  - eapply acyclic_incl; [|exact Hac]. intros x y H.
    rewrite children_setm_same_subs in H; auto. lia.
Qed.

Lemma Inv_add_model_new n w m nm c : Inv n w -> m < n -> c < n ->
  c <> m -> ~ reaches (children w) c m ->
  ~ In nm (names_of (getm w m)) -> ~ In c (map snd (submodel_kv (getm w m))) ->
  Inv n (add_model_new w m nm c).
Proof.
  intros (Hlen & Hok & Hac) Hm Hc Hcm Hnr Hn1 Hn2. unfold add_model_new. set (s := getm w m) in *.
  pose proof (Hok m) as Hs. fold s in Hs. split; [rewrite setm_length; auto|]. split.
  - intros m'. rewrite getm_setm by lia. destruct (Nat.eqb_spec m' m) as [->|]; [|apply Hok].
    destruct Hs. constructor; simpl; auto.
    + unfold names_of, pkeys, skeys in *. simpl.
      eapply Permutation_NoDup; [apply Permutation_middle|]. constructor; auto.
    + intros x. unfold names_of, pkeys, skeys in *. simpl. rewrite ok_name_set0, !in_app_iff. simpl. tauto.
    + constructor; auto. rewrite ok_name_set0. auto.
    + intros q. rewrite ok_sub_set0. tauto.
    + constructor; auto. rewrite ok_sub_set0. auto.
    + constructor; auto.
    + intros q [<-|H]; auto.
  - apply (acyclic_add_edge (children w) _ m c); auto.
    intros x y H. unfold children in *. rewrite getm_setm in H by lia.
    destruct (Nat.eqb_spec x m) as [->|]; auto. simpl in H. destruct H as [<-|H]; auto.
Qed.

Definition op_ok (n : nat) (o : op) : Prop :=
  match o with AddP m _ _ => m < n | AddM m _ c => m < n /\ c < n end.

Lemma Inv_step n w o : Inv n w -> op_ok n o -> Inv n (step w o).
Proof.
  intros HI Ho. unfold step. destruct o as [m nm p|m nm c]; simpl in *.
  - destruct (add_param_cases n w m nm p HI Ho) as [(_ & ->)|[(_ & _ & ->)|(H1 & H2 & ->)]]; simpl; auto.
    apply Inv_add_param_new; auto.
  - destruct Ho as [Hm Hc].
    destruct (add_model_cases n w m nm c HI Hm) as [(_ & ->)|[(_ & _ & ->)|(H1 & H2 & H3 & H4 & ->)]]; simpl; auto.
    apply Inv_add_model_new; auto.
Qed.

Lemma Inv_run n h : forall w, Inv n w -> Forall (op_ok n) h -> Inv n (run h w).
Proof.
  unfold run. induction h as [|o h IH]; simpl; intros w HI Hh; auto.
  inversion Hh; subst. apply IH; auto. apply Inv_step; auto.
Qed.

(* every world produced by a history of add calls on n default-constructed models *)
Definition reachable_world (n : nat) (w : world) : Prop :=
  exists h, Forall (op_ok n) h /\ w = run h (empty_world n).

Theorem reachable_Inv n w : reachable_world n w -> Inv n w.
Proof. intros (h & Hh & ->). apply Inv_run; auto. apply Inv_empty. Qed.

Lemma reachable_step n w o : reachable_world n w -> op_ok n o -> reachable_world n (step w o).
Proof.
  intros (h & Hh & ->) Ho. exists (h ++ [o]). split.
  - apply Forall_app. auto.
  - unfold run. rewrite fold_left_app. reflexivity.
Qed.

(* ------------------------------------------------------------------ reachability through the hierarchy *)
Section Reach.
  Context {V : Type} (leaf : mstate -> list (name * V)).

  Inductive reach (w : world) : mid -> path -> V -> Prop :=
  | r_here m nm v : In (nm, v) (leaf (getm w m)) -> reach w m [nm] v
  | r_sub m nm c k v : In (nm, c) (submodel_kv (getm w m)) -> reach w c k v -> reach w m (nm :: k) v.

  Definition lookup (w : world) (m : mid) (names : path) : option V :=
    match get_semiterminal w m names with
    | None => None
    | Some st => find_kv (last names []) (leaf (getm w st))
    end.

  Lemma reach_nonempty w m k v : reach w m k v -> k <> [].
  Proof. inversion 1; discriminate. Qed.

  Lemma lookup_spec w :
    (forall m, NoDup (map fst (leaf (getm w m)))) -> (forall m, NoDup (skeys (getm w m))) ->
    forall names m v, lookup w m names = Some v <-> reach w m names v.
  Proof.
    intros Hl Hs. induction names as [|nm rest IH]; intros m v.
    - split; [discriminate|]. intros H. apply reach_nonempty in H. congruence.
    - destruct rest as [|nm2 rest].
      + unfold lookup. simpl. split.
        * intros H. apply r_here. apply find_kv_some_in. exact H.
        * intros H. inversion H as [? ? ? Hin|? ? ? ? ? _ Hr]; subst.
          -- apply find_kv_in; auto.
          -- apply reach_nonempty in Hr. congruence.
      + assert (E : lookup w m (nm :: nm2 :: rest) =
                    match find_kv nm (submodel_kv (getm w m)) with
                    | None => None | Some c => lookup w c (nm2 :: rest) end).
        { unfold lookup. simpl. destruct (find_kv nm (submodel_kv (getm w m))); reflexivity. }
        rewrite E. split.
        * destruct (find_kv nm (submodel_kv (getm w m))) as [c|] eqn:Ef; [|discriminate].
          intros H. apply IH in H. eapply r_sub; eauto. apply find_kv_some_in. exact Ef.
        * intros H. inversion H as [|? ? c ? ? Hin Hr]; subst.
          rewrite (find_kv_in _ _ _ (Hs m) Hin). apply IH. exact Hr.
  Qed.

  (* a path names at most one object *)
  Lemma reach_functional w :
    (forall m, NoDup (map fst (leaf (getm w m)))) -> (forall m, NoDup (skeys (getm w m))) ->
    forall names m v v', reach w m names v -> reach w m names v' -> v = v'.
  Proof.
    intros Hl Hs names m v v' H1 H2. apply (lookup_spec w Hl Hs) in H1, H2. congruence.
  Qed.
End Reach.

Definition reach_param := reach param_kv.
Definition reach_model := reach submodel_kv.

Lemma Inv_pkeys n w : Inv n w -> forall m, NoDup (map fst (param_kv (getm w m))).
Proof. intros (_ & Hok & _) m. apply (nodup_app_l _ _ (ok_names _ _ (Hok m))). Qed.
Lemma Inv_skeys n w : Inv n w -> forall m, NoDup (skeys (getm w m)).
Proof. intros (_ & Hok & _) m. apply (nodup_app_r _ _ (ok_names _ _ (Hok m))). Qed.

Theorem get_parameter_spec n w : Inv n w -> forall names m p,
  get_parameter w m names = Some p <-> reach_param w m names p.
Proof. intros HI. apply (lookup_spec param_kv w (Inv_pkeys n w HI) (Inv_skeys n w HI)). Qed.

Theorem get_submodel_spec n w : Inv n w -> forall names m c,
  get_submodel w m names = Some c <-> reach_model w m names c.
Proof. intros HI. apply (lookup_spec submodel_kv w (Inv_skeys n w HI) (Inv_skeys n w HI)). Qed.

(* ------------------------------------------------------------------ get_all_parameters *)
Definition enum_ok (w : world) (m : mid) (l : list (path * pid)) : Prop :=
  sorted l /\ forall k p, In (k, p) l <-> reach_param w m k p.

Lemma keys_cons_map snm (sub : list (path * pid)) :
  map fst (map (cons_key snm) sub) = map (cons snm) (map fst sub).
Proof. rewrite !map_map. reflexivity. Qed.

Lemma keys_single_map (l : list (name * pid)) :
  map fst (map single_key l) = map (fun a : name => [a]) (map fst l).
Proof. rewrite !map_map. reflexivity. Qed.

Lemma In_cons_map snm (sub : list (path * pid)) k p :
  In (k, p) (map (cons_key snm) sub) <-> exists k', k = snm :: k' /\ In (k', p) sub.
Proof.
  rewrite in_map_iff. split.
  - intros ([k' p'] & E & H). simpl in E. injection E as <- <-. eauto.
  - intros (k' & -> & H). exists (k', p). auto.
Qed.

Theorem get_all_spec n w : Inv n w -> forall m,
  exists l, get_all_parameters w m = Some l /\ enum_ok w m l.
Proof.
  intros HI. pose proof HI as (Hlen & Hok & Hac).
  unfold get_all_parameters, fuel_of. rewrite Hlen.
  apply (fuel_enough n (children w) (closed_of_Inv n w HI)
           (fun f x => exists l, get_all_g w f x = Some l /\ enum_ok w x l) Hac).
  intros f x IHc. simpl. set (s := getm w x). pose proof (Hok x) as Hs. fold s in Hs.
  set (acc0 := emplace_all (map single_key (param_kv s)) []).
  (* phase 1: the direct parameters *)
  assert (Hacc0 : forall k p, In (k, p) acc0 <-> exists nm, k = [nm] /\ In (nm, p) (param_kv s)).
  { intros k p. unfold acc0. split.
    - intros H. apply In_emplace_all_inv in H. destruct H as [[]|H].
      apply in_map_iff in H. destruct H as ([nm q] & E & H). simpl in E. injection E as <- <-. eauto.
    - intros (nm & -> & H). apply In_emplace_all_new.
      + rewrite keys_single_map.
        apply Injective_map_NoDup; [intros a b E; injection E; auto|].
        apply (nodup_app_l _ _ (ok_names _ _ Hs)).
      + simpl. tauto.
      + apply in_map_iff. exists (nm, p). auto. }
  assert (Hs0 : sorted acc0) by (apply sorted_emplace_all; constructor).
  (* phase 2: the loop over submodel_kv_ *)
  assert (Hgo : forall sms acc, incl sms (submodel_kv s) -> NoDup (map fst sms) -> sorted acc ->
    (forall snm rest, In snm (map fst sms) -> ~ In (snm :: rest) (map fst acc)) ->
    exists l,
      (fix go (sms : list (name * mid)) (acc : list (path * pid)) : option (list (path * pid)) :=
         match sms with
         | [] => Some acc
         | (snm, c) :: rest =>
           match get_all_g w f c with
           | None => None
           | Some sub => go rest (emplace_all (map (cons_key snm) sub) acc)
           end
         end) sms acc = Some l /\ sorted l /\
      forall k p, In (k, p) l <-> In (k, p) acc \/
        exists snm c k', In (snm, c) sms /\ k = snm :: k' /\ reach_param w c k' p).
  { induction sms as [|[snm c] rest IHs]; intros acc Hincl Hnd Hsa Hdis.
    - exists acc. split; auto. split; auto. intros k p. split; auto.
      intros [H|(snm & c & k' & [] & _)]. exact H.
    - assert (Hin : In (snm, c) (submodel_kv s)) by (apply Hincl; left; reflexivity).
      assert (Hc : In c (children w x)).
      { unfold children. fold s. apply (ok_sub_set _ _ Hs). apply (in_map snd) in Hin. exact Hin. }
      destruct (IHc c Hc) as (sub & -> & Hsub_s & Hsub).
      inversion Hnd as [|? ? Hsnm Hnd']; subst.
      set (new := map (cons_key snm) sub).
      assert (Hnew_nd : NoDup (map fst new)).
      { unfold new. rewrite keys_cons_map. apply Injective_map_NoDup; [intros a b E; injection E; auto|].
        apply sorted_nodup. exact Hsub_s. }
      assert (Hnew_dis : forall k, In k (map fst new) -> ~ In k (map fst acc)).
      { intros k Hk. unfold new in Hk. rewrite keys_cons_map in Hk. apply in_map_iff in Hk.
        destruct Hk as (k' & <- & _). apply Hdis. simpl. auto. }
      destruct (IHs (emplace_all new acc)) as (l & -> & Hl_s & Hl).
      + intros y Hy. apply Hincl. right. exact Hy.
      + exact Hnd'.
      + apply sorted_emplace_all. exact Hsa.
      + intros snm' r Hsnm' Hin'. apply in_map_iff in Hin'. destruct Hin' as ([k2 p2] & E & Hin').
        simpl in E. subst k2. apply In_emplace_all_inv in Hin'. destruct Hin' as [Hin'|Hin'].
        * apply (Hdis snm' r); [simpl; auto|]. apply in_map_iff. exists (snm' :: r, p2). auto.
        * unfold new in Hin'. apply In_cons_map in Hin'. destruct Hin' as (k' & E & _).
          injection E as -> _. auto.
      + exists l. split; auto. split; auto. intros k p. rewrite Hl. split.
        * intros [H|(snm' & c' & k' & H1 & H2 & H3)].
          -- apply In_emplace_all_inv in H. destruct H as [H|H]; auto.
             unfold new in H. apply In_cons_map in H. destruct H as (k' & -> & H).
             right. exists snm, c, k'. repeat split; simpl; auto. apply Hsub. exact H.
          -- right. exists snm', c', k'. simpl. auto.
        * intros [H|(snm' & c' & k' & [E|H1] & -> & H3)].
          -- left. apply In_emplace_all_old. exact H.
          -- injection E as <- <-. left. apply In_emplace_all_new; auto.
             unfold new. apply In_cons_map. exists k'. split; auto. apply Hsub. exact H3.
          -- right. exists snm', c', k'. auto. }
  destruct (Hgo (submodel_kv s) acc0 (incl_refl _)) as (l & -> & Hl_s & Hl).
  - apply (nodup_app_r _ _ (ok_names _ _ Hs)).
  - exact Hs0.
  - intros snm rest Hsnm Hin. apply in_map_iff in Hin. destruct Hin as ([k p] & E & Hin).
    simpl in E. subst k. apply Hacc0 in Hin. destruct Hin as (nm & E & Hin). injection E as -> _.
    apply (nodup_app_disjoint _ _ nm (ok_names _ _ Hs)); auto.
    apply (in_map fst) in Hin. exact Hin.
  - exists l. split; auto. split; auto. intros k p. rewrite Hl, Hacc0. split.
    + intros [(nm & -> & H)|(snm & c & k' & H1 & -> & H3)].
      * apply r_here. exact H.
      * eapply r_sub; eauto.
    + intros H. inversion H as [? nm ? Hin|? nm c k' ? Hin Hr]; subst.
      * left. eauto.
      * right. exists nm, c, k'. auto.
Qed.

(* the result is determined by the reachability relation alone: the iteration order of the
   unordered containers (the order of the lists in this model) is not observable *)
Theorem get_all_canonical n w w' m m' l l' : Inv n w -> Inv n w' ->
  get_all_parameters w m = Some l -> get_all_parameters w' m' = Some l' ->
  (forall k p, reach_param w m k p <-> reach_param w' m' k p) -> l = l'.
Proof.
  intros HI HI' E E' Hiff.
  destruct (get_all_spec n w HI m) as (l0 & E0 & Hs & Hl). rewrite E in E0. injection E0 as <-.
  destruct (get_all_spec n w' HI' m') as (l0 & E0 & Hs' & Hl'). rewrite E' in E0. injection E0 as <-.
  apply sorted_ext; auto. intros [k p]. rewrite Hl, Hl'. apply Hiff.
Qed.

(* ------------------------------------------------------------------ Optimizer::add *)
Definition opt_ok (o : opt) : Prop :=
  NoDup (ocfg o) /\ NoDup (oparams o) /\ forall p, In p (oparams o) <-> In p (ocfg o).

Lemma opt_ok_empty : opt_ok empty_opt.
Proof. repeat split; simpl; try constructor; tauto. Qed.

Definition opt_add_param_nf (okp : pid -> bool) (p : pid) (o : opt) : option unit * opt :=
  if mem_id p (oparams o) then (Some tt, o)
  else if okp p then (Some tt, mkO (p :: oparams o) (p :: ocfg o))
  else (None, o).

Lemma opt_add_param_normal okp p o : opt_add_param okp p o = opt_add_param_nf okp p o.
Proof.
  unfold opt_add_param, opt_add_param_nf, configure_parameter, bind, get, guard, ret, throw, ids_emplace.
  destruct (mem_id p (oparams o)) eqn:E; [reflexivity|].
  destruct (okp p); simpl; [|reflexivity]. rewrite E. reflexivity.
Qed.

Lemma opt_add_param_err_preserves okp p o o' : opt_add_param okp p o = (None, o') -> o' = o.
Proof.
  rewrite opt_add_param_normal. unfold opt_add_param_nf.
  destruct (mem_id p (oparams o)); [congruence|]. destruct (okp p); congruence.
Qed.

Lemma opt_add_param_ok okp p o : opt_ok o -> opt_ok (snd (opt_add_param okp p o)).
Proof.
  intros (H1 & H2 & H3). rewrite opt_add_param_normal. unfold opt_add_param_nf.
  destruct (mem_id p (oparams o)) eqn:E; simpl; [repeat split; auto; apply H3|].
  destruct (okp p); simpl; [|repeat split; auto; apply H3].
  assert (Hn : ~ In p (oparams o)) by (intros H; apply mem_id_spec in H; congruence).
  repeat split; simpl.
  - constructor; auto. rewrite <- H3. auto.
  - constructor; auto.
  - intros [->|H]; auto. right. apply H3. auto.
  - intros [->|H]; auto. right. apply H3. auto.
Qed.

Lemma opt_add_list_spec okp l : forall o, opt_ok o ->
  let r := opt_add_list okp l o in
  opt_ok (snd r) /\
  (forall p, In p (oparams o) -> In p (oparams (snd r))) /\
  (forall p, In p (oparams (snd r)) -> In p (oparams o) \/ (In p (map snd l) /\ okp p = true)) /\
  (fst r = Some tt <-> forall p, In p (map snd l) -> In p (oparams o) \/ okp p = true) /\
  (fst r = Some tt -> forall p, In p (map snd l) -> In p (oparams (snd r))).
Proof.
  induction l as [|[k q] l IH]; intros o Ho; simpl.
  - split; [exact Ho|]. repeat split; auto; try tauto.
  - unfold bind. pose proof (opt_add_param_ok okp q o Ho) as Ho1.
    rewrite opt_add_param_normal in *. unfold opt_add_param_nf in *.
    destruct (mem_id q (oparams o)) eqn:E; simpl in *.
    + apply mem_id_spec in E. destruct (IH o Ho) as (A & B & C & D & F).
      split; auto. split; auto. split; [intros p H; apply C in H; tauto|]. split.
      * rewrite D. split; [intros H p [<-|Hp]; auto|intros H p Hp; auto].
      * intros H p [<-|Hp]; auto.
    + assert (Hn : ~ In q (oparams o)) by (intros H; apply mem_id_spec in H; congruence).
      destruct (okp q) eqn:Eq; simpl in *.
      * destruct (IH _ Ho1) as (A & B & C & D & F). simpl in *.
        split; auto. split; [intros p H; apply B; auto|].
        split; [intros p H; apply C in H; destruct H as [[<-|H]|H]; tauto|]. split.
        -- rewrite D. split.
           ++ intros H p [<-|Hp]; auto. destruct (H p Hp) as [[<-|H1]|H1]; auto.
           ++ intros H p Hp. destruct (H p (or_intror Hp)); auto.
        -- intros H p [<-|Hp]; auto.
      * split; auto. split; auto. split; auto. split; [|discriminate].
        split; [discriminate|]. intros H. destruct (H q (or_introl eq_refl)); [tauto|congruence].
Qed.

Theorem opt_add_model_spec n w okp m o : Inv n w -> opt_ok o ->
  let r := opt_add_model okp w m o in
  opt_ok (snd r) /\
  (forall p, In p (oparams o) -> In p (oparams (snd r))) /\
  (forall p, In p (oparams (snd r)) ->
     In p (oparams o) \/ ((exists k, reach_param w m k p) /\ okp p = true)) /\
  (fst r = Some tt <-> forall k p, reach_param w m k p -> In p (oparams o) \/ okp p = true) /\
  (fst r = Some tt -> forall k p, reach_param w m k p -> In p (oparams (snd r))).
Proof.
  intros HI Ho. unfold opt_add_model, get_trainable_parameters.
  destruct (get_all_spec n w HI m) as (l & -> & _ & Hl).
  assert (Hsnd : forall p, In p (map snd l) <-> exists k, reach_param w m k p).
  { intros p. rewrite in_map_iff. split.
    - intros ([k q] & E & H). simpl in E. subst q. exists k. apply Hl. exact H.
    - intros (k & H). exists (k, p). split; auto. apply Hl. exact H. }
  destruct (opt_add_list_spec okp l o Ho) as (A & B & C & D & F). cbv zeta.
  split; auto. split; auto. split; [|split].
  - intros p H. apply C in H. destruct H as [H|[H1 H2]]; auto. right. split; auto. apply Hsnd. exact H1.
  - rewrite D. split.
    + intros H k p Hr. apply H. apply Hsnd. eauto.
    + intros H p Hp. apply Hsnd in Hp. destruct Hp as (k & Hr). eauto.
  - intros H k p Hr. apply F; auto. apply Hsnd. eauto.
Qed.

(* configure_parameter has completed exactly once on every registered parameter *)
Lemma opt_once o : opt_ok o -> forall p, In p (oparams o) -> count_occ Nat.eq_dec (ocfg o) p = 1.
Proof.
  intros (H1 & _ & H3) p Hp. apply (proj1 (NoDup_count_occ' Nat.eq_dec (ocfg o)) H1). apply H3. exact Hp.
Qed.

(* ------------------------------------------------------------------ the hierarchy never closes a cycle through names *)
Lemma reach_model_reaches n w : Inv n w -> forall m k c, reach_model w m k c -> reaches (children w) m c.
Proof.
  intros (_ & Hok & _) m k c H. induction H as [m nm c Hin|m nm c k c' Hin _ IH].
  - exists [c]. constructor. unfold children. apply (ok_sub_set _ _ (Hok m)).
    apply (in_map snd) in Hin. exact Hin.
  - destruct IH as [l P]. exists (c :: l). apply p_cons; auto. unfold children.
    apply (ok_sub_set _ _ (Hok m)). apply (in_map snd) in Hin. exact Hin.
Qed.

Lemma no_self_containment n w : Inv n w -> forall m k, ~ reach_model w m k m.
Proof.
  intros HI m k H. destruct (reach_model_reaches n w HI m k m H) as [l P].
  destruct HI as (_ & _ & Hac). apply (Hac m l P).
Qed.

Lemma traversals_terminate n w : Inv n w -> forall x t,
  has_submodel w x t <> None /\ get_all_parameters w x <> None /\ get_trainable_parameters w x <> None.
Proof.
  intros HI x t. destruct (has_submodel_spec n w HI x t) as (b & -> & _).
  unfold get_trainable_parameters. destruct (get_all_spec n w HI x) as (l & -> & _).
  repeat split; discriminate.
Qed.

Lemma containers_consistent n w : Inv n w -> forall m, let s := getm w m in
  (forall x, In x (name_set s) <-> In x (map fst (param_kv s)) \/ In x (map fst (submodel_kv s))) /\
  (forall p, In p (param_set s) <-> exists nm, In (nm, p) (param_kv s)) /\
  (forall c, In c (submodel_set s) <-> exists nm, In (nm, c) (submodel_kv s)) /\
  NoDup (name_set s) /\ NoDup (param_set s) /\ NoDup (submodel_set s) /\
  NoDup (map snd (param_kv s)) /\ NoDup (map snd (submodel_kv s)) /\
  (forall c, In c (submodel_set s) -> c < n) /\ length w = n.
Proof.
  intros (Hlen & Hok & _) m s. destruct (Hok m). fold s in ok_names0, ok_name_set0, ok_param_set0, ok_sub_set0.
  repeat split; auto.
  - intros H. apply ok_name_set0 in H. apply in_app_or in H. exact H.
  - intros H. apply ok_name_set0. apply in_or_app. exact H.
  - intros H. apply ok_param_set0, in_map_iff in H. destruct H as ([nm q] & E & H). simpl in E. subst. eauto.
  - intros (nm & H). apply ok_param_set0. apply (in_map snd) in H. exact H.
  - intros H. apply ok_sub_set0, in_map_iff in H. destruct H as ([nm q] & E & H). simpl in E. subst. eauto.
  - intros (nm & H). apply ok_sub_set0. apply (in_map snd) in H. exact H.
Qed.

(* ------------------------------------------------------------------ statements used by Props/Properties_C16.v *)
Lemma names_unique n w : Inv n w -> forall m,
  NoDup (map fst (param_kv (getm w m)) ++ map fst (submodel_kv (getm w m))).
Proof. intros (_ & Hok & _) m. apply (ok_names _ _ (Hok m)). Qed.

Lemma acyclic_both n w : Inv n w ->
  (forall x, ~ reaches (children w) x x) /\ (forall m k, ~ reach_model w m k m).
Proof.
  intros HI. split.
  - intros x [l P]. destruct HI as (_ & _ & Hac). apply (Hac x l P).
  - apply (no_self_containment n w HI).
Qed.

Lemma readd_identical_noop n w m nm : Inv n w -> m < n ->
  (forall p, In (nm, p) (param_kv (getm w m)) -> add_param m nm p w = (Some tt, w)) /\
  (forall c, In (nm, c) (submodel_kv (getm w m)) -> add_model m nm c w = (Some tt, w)).
Proof.
  intros HI Hm. split.
  - intros p Hin. destruct (add_param_cases n w m nm p HI Hm) as [(_ & E)|[(H & _)|(H & _)]]; auto; exfalso.
    + tauto.
    + apply H. unfold names_of, pkeys. apply in_or_app. left. apply (in_map fst) in Hin. exact Hin.
  - intros c Hin. destruct (add_model_cases n w m nm c HI Hm) as [(_ & E)|[(H & _)|(_ & _ & H & _)]]; auto; exfalso.
    + tauto.
    + apply H. unfold names_of, skeys. apply in_or_app. right. apply (in_map fst) in Hin. exact Hin.
Qed.

Lemma rejected_add_unchanged w m nm : m < length w ->
  (forall p w', add_param m nm p w = (None, w') -> w' = w) /\
  (forall c w', add_model m nm c w = (None, w') -> w' = w).
Proof. intros Hm. split; intros x w'; [apply add_param_err_preserves|apply add_model_err_preserves]; auto. Qed.

Lemma enumeration_exact n w m : Inv n w ->
  exists l, get_all_parameters w m = Some l /\ get_trainable_parameters w m = Some l /\
            sorted l /\ NoDup (map fst l) /\ forall k p, In (k, p) l <-> reach_param w m k p.
Proof.
  intros HI. destruct (get_all_spec n w HI m) as (l & E & Hs & Hl). exists l.
  unfold get_trainable_parameters. repeat split; auto; try apply Hl. apply sorted_nodup. exact Hs.
Qed.

Lemma lookup_exact n w m names : Inv n w ->
  (forall p, get_parameter w m names = Some p <-> reach_param w m names p) /\
  (forall c, get_submodel w m names = Some c <-> reach_model w m names c) /\
  (forall l p, get_all_parameters w m = Some l -> (get_parameter w m names = Some p <-> In (names, p) l)) /\
  get_parameter w m [] = None /\ get_submodel w m [] = None.
Proof.
  intros HI. split; [intros p; apply (get_parameter_spec n w HI)|].
  split; [intros c; apply (get_submodel_spec n w HI)|]. split; [|split; reflexivity].
  intros l p E. destruct (get_all_spec n w HI m) as (l0 & E0 & _ & Hl). rewrite E in E0. injection E0 as <-.
  rewrite Hl. apply (get_parameter_spec n w HI).
Qed.

(* optimizers: every sequence of add(param) / add(model on a reachable world) calls *)
Inductive opt_reachable (okp : pid -> bool) : opt -> Prop :=
| or_empty : opt_reachable okp empty_opt
| or_param o p : opt_reachable okp o -> opt_reachable okp (snd (opt_add_param okp p o))
| or_model o n w m : opt_reachable okp o -> reachable_world n w ->
    opt_reachable okp (snd (opt_add_model okp w m o)).

Lemma opt_reachable_ok okp o : opt_reachable okp o -> opt_ok o.
Proof.
  induction 1 as [|o p _ IH|o n w m _ IH Hw].
  - apply opt_ok_empty.
  - apply opt_add_param_ok. exact IH.
  - apply (opt_add_model_spec n w okp m o (reachable_Inv n w Hw) IH).
Qed.

Lemma optimizer_add_once okp o : opt_reachable okp o ->
  NoDup (oparams o) /\
  (forall p, In p (oparams o) -> count_occ Nat.eq_dec (ocfg o) p = 1) /\
  (forall p, In p (ocfg o) -> In p (oparams o)).
Proof.
  intros H. apply opt_reachable_ok in H. pose proof H as (_ & H2 & H3).
  split; auto. split; [apply opt_once; auto|]. intros p. apply H3.
Qed.

Lemma optimizer_add_param_outcome okp p o :
  opt_add_param okp p o =
    if mem_id p (oparams o) then (Some tt, o)
    else if okp p then (Some tt, mkO (p :: oparams o) (p :: ocfg o))
    else (None, o).
Proof. apply opt_add_param_normal. Qed.

Lemma optimizer_add_model okp n w m o : Inv n w -> opt_reachable okp o ->
  let r := opt_add_model okp w m o in
  (forall p, In p (oparams o) -> In p (oparams (snd r))) /\
  (forall p, In p (oparams (snd r)) ->
     In p (oparams o) \/ ((exists k, reach_param w m k p) /\ okp p = true)) /\
  (fst r = Some tt <-> forall k p, reach_param w m k p -> In p (oparams o) \/ okp p = true) /\
  (fst r = Some tt -> forall k p, reach_param w m k p -> In p (oparams (snd r))).
Proof.
  intros HI Ho. apply opt_reachable_ok in Ho.
  destruct (opt_add_model_spec n w okp m o HI Ho) as (_ & B & C & D & F). cbv zeta. auto.
Qed.

(* ------------------------------------------------------------------ the statement can fail
   "A rejected add changes nothing" is not granted by the monad: the same transcription with
   name_set_.emplace(name) moved above the duplicate-object test keeps the half-done mutation
   when that test throws. *)
Local Open Scope err_scope.
Definition add_param_swapped (m : mid) (nm : name) (p : pid) : M world unit :=
  w <- get ;;
  if match find_kv nm (param_kv (getm w m)) with Some p' => Nat.eqb p' p | None => false end
  then ret tt
  else
    (w <- get ;; guard (negb (mem_name nm (name_set (getm w m))))) ;;;
    upd m (fun s => mkM (param_kv s) (submodel_kv s) (names_emplace nm (name_set s)) (param_set s) (submodel_set s)) ;;;
    (w <- get ;; guard (negb (mem_id p (param_set (getm w m))))) ;;;
    upd m (fun s => mkM (param_kv s) (submodel_kv s) (name_set s) (ids_emplace p (param_set s)) (submodel_set s)) ;;;
    upd m (fun s => mkM (kv_emplace nm p (param_kv s)) (submodel_kv s) (name_set s) (param_set s) (submodel_set s)).

Lemma add_param_swapped_refuted :
  exists w w', reachable_world 1 w /\ add_param_swapped 0 [98%N] 7 w = (None, w') /\ w' <> w.
Proof.
  exists (run [AddP 0 [97%N] 7] (empty_world 1)).
  exists [mkM [([97%N], 7)] [] [[98%N]; [97%N]] [7] []].
  split; [|split].
  - exists [AddP 0 [97%N] 7]. split; [repeat constructor|reflexivity].
  - vm_compute. reflexivity.
  - vm_compute. discriminate.
Qed.
