(* The table of the abstract API model (Tables/ApiModel.v) computed from the regenerated
   tables: one model row per operator row and per throw row of Tables/OpCheck.v.  Composite rows
   (log_softmax, softmax, gumbel_node, the pointer-vector overloads of concat) are the same
   expression over other functions in both APIs (composite_row_ok) and are not primitive calls.
   Executable definitions only. *)
From Coq Require Import List String Bool Arith.
From PV Require Import Tables.OpSyntax Tables.OpUtil Tables.OpRows Tables.OpCheck Tables.ApiModel Gen.OpTables.
Import ListNotations.
Local Open Scope string_scope.
Local Open Scope bool_scope.

Definition key_of_reach (r : reach) (dflt : fkey) : fkey :=
  match r with RFun ns name tys _ => (ns, name, tys) | _ => dflt end.

Definition mrow_of (r : row) : list mrow :=
  if is_composite_row r then [] else
  match r_tfn r with
  | None => []
  | Some t =>
      let dflt : fkey := (f_ns t, f_name t, types (f_params t)) in
      let k := key_of_reach (self r) dflt in
      if is_throw_row r then
        [{| m_fn := k; m_conds := r_conds r; m_kind := KThrow; m_argn := CAny; m_nargs := None;
            m_nshape := None; m_fw := RBad "throw"; m_swap := false; m_t := RBad "throw";
            m_guards := []; m_tshape := None; m_special := false |}]
      else
        match r_call r with
        | NOp c ats a _ =>
            let argn := match fclass c with Some o => count_of (class_const o "num_arguments") | None => CBad end in
            let nargs := match a with Brace l => Some (List.length l) | _ => None end in
            if is_special r then
              [{| m_fn := k; m_conds := r_conds r; m_kind := KOp; m_argn := argn; m_nargs := nargs;
                  m_nshape := Some (Call "FWD_SHAPE" [Id (cls_name c)]);
                  m_fw := self r;      (* reviewed: FORWARD computes the Tensor function on the operands in order *)
                  m_swap := false; m_t := tfw r; m_guards := [];
                  m_tshape := Some (Call "shape_of_composite" [Id (f_name t)]); m_special := true |}]
            else
              let sw := swap_ok (fw r) (self r) in
              let '(gs, ts) := match rshape (tfw r) with
                               | Some (g, s) => (g, Some (norm_views_shape s))
                               | None => ([], None) end in
              [{| m_fn := k; m_conds := r_conds r; m_kind := KOp; m_argn := argn; m_nargs := nargs;
                  m_nshape := nshape r; m_fw := fw r; m_swap := sw;
                  m_t := (match self r with RFun _ _ _ _ => tfw r | s => s end);
                  m_guards := gs; m_tshape := ts; m_special := false |}]
        | NExpr _ => []
        end
  end.

Definition api_table : list mrow := flat_map mrow_of R.
