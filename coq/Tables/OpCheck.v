(* Boolean checkers over the regenerated tables (tables engine, property C04).
   Executable definitions only; the theorems are in Tables/OpFacts.v and Props/Properties_C04.v.

   Row = one return path of one Node function of node_funcs.cc (Tables/OpRows.v).  Kinds:
     operator row   the path returns add_operator(new operators::C(attrs), args)[0] (or all results)
     throw row      the path throws (concat of an empty list)
     composite row  the path returns an expression over other functions (log_softmax, softmax,
                    gumbel_node, the pointer-vector overloads of concat)
   SPECIAL operator rows: the four operators whose Tensor function is not a single Device entry
   (Split, BatchSplit: a loop of slices; SoftmaxCrossEntropy, SparseSoftmaxCrossEntropy: a
   composite): their FORWARD / FWD_SHAPE / Tensor bodies are compared with the reviewed copy of
   Tables/Reviewed.v (a change of any of them breaks the obligation and sends the check to the
   two-API sweep of harness/api_row_drv.cc). *)
From Coq Require Import List String Ascii Bool Arith.
From PV Require Import Tables.OpSyntax Tables.OpUtil Tables.OpRows Tables.Reviewed Gen.OpTables.
Import ListNotations.
Local Open Scope string_scope.
Local Open Scope bool_scope.

(* ------------------------------------------------------------------ instantiation at the regenerated tables *)
Definition R : list row := rows node_funcs tensor_funcs template_specs.
Definition fw := row_fw op_classes op_methods tensor_funcs template_specs arith_ops.
Definition tfw := row_t tensor_funcs template_specs arith_ops.
Definition self := row_self tensor_funcs template_specs arith_ops.
Definition nshape := row_nshape op_classes op_methods.
Definition rshape := reach_shape device_funcs tensor_methods.
Definition fclass := find_class op_classes.
Definition omethod := op_method op_methods.

(* ------------------------------------------------------------------ structural equality of bodies *)
Fixpoint st_eqb (fuel : nat) (a b : st) : bool :=
  match fuel with
  | O => false
  | S k =>
    let l_eqb := fix l_eqb (x y : list st) : bool :=
        match x, y with
        | [], [] => true
        | p :: x', q :: y' => st_eqb k p q && l_eqb x' y'
        | _, _ => false
        end in
    match a, b with
    | SAssign l r, SAssign l' r' => ex_eqb l l' && ex_eqb r r'
    | SOpAssign o l r, SOpAssign o' l' r' => seqb o o' && ex_eqb l l' && ex_eqb r r'
    | SExp e, SExp e' => ex_eqb e e'
    | SDecl t n (Some e), SDecl t' n' (Some e') => seqb t t' && seqb n n' && ex_eqb e e'
    | SDecl t n None, SDecl t' n' None => seqb t t' && seqb n n'
    | SRet e, SRet e' => ex_eqb e e'
    | SRetVoid, SRetVoid => true
    | SThrow, SThrow => true
    | SIf c t e, SIf c' t' e' => ex_eqb c c' && l_eqb t t' && l_eqb e e'
    | SFor v lo hi b, SFor v' lo' hi' b' => seqb v v' && ex_eqb lo lo' && ex_eqb hi hi' && l_eqb b b'
    | SForEach v r b, SForEach v' r' b' => seqb v v' && ex_eqb r r' && l_eqb b b'
    | _, _ => false
    end
  end.

Fixpoint stl_eqb (x y : list st) : bool :=
  match x, y with
  | [], [] => true
  | p :: x', q :: y' => st_eqb 20 p q && stl_eqb x' y'
  | _, _ => false
  end.

Definition params_eqb (a b : list param) : bool :=
  strl_eqb (types a) (types b) && strl_eqb (names a) (names b).

Definition func_eqb (a b : func) : bool :=
  seqb (f_ns a) (f_ns b) && seqb (f_qual a) (f_qual b) && seqb (f_name a) (f_name b) &&
  seqb (f_ret a) (f_ret b) && params_eqb (f_params a) (f_params b) && stl_eqb (f_body a) (f_body b).

Definition same_key (a b : func) : bool :=
  seqb (f_ns a) (f_ns b) && seqb (f_qual a) (f_qual b) && seqb (f_name a) (f_name b) &&
  strl_eqb (types (f_params a)) (types (f_params b)).

(* ------------------------------------------------------------------ row kinds *)
Definition special_ops : list string := ["Split"; "BatchSplit"; "SoftmaxCrossEntropy"; "SparseSoftmaxCrossEntropy"].

Definition mem (s : string) (l : list string) : bool := existsb (seqb s) l.

Definition row_op (r : row) : option string :=
  match r_call r with NOp c _ _ _ => Some (cls_name c) | NExpr _ => None end.

Definition is_op_row (r : row) : bool := match row_op r with Some _ => true | None => false end.
Definition is_special (r : row) : bool := match row_op r with Some c => mem c special_ops | None => false end.
Definition is_throw_row (r : row) : bool := match r_out r with OThrow => true | _ => false end.
Definition is_composite_row (r : row) : bool :=
  match r_out r, r_call r with ORet _, NExpr _ => true | _, _ => false end.

(* a printable key of a row: namespace, function, parameter types, path condition *)
Definition row_key (r : row) : string * string * list string * conds :=
  (f_ns (r_fn r), f_name (r_fn r), types (f_params (r_fn r)), r_conds r).

(* ------------------------------------------------------------------ (1) arity *)
Definition is_node_param (r : row) (e : ex) (ty : string) : bool :=
  match e with
  | Id n => existsb (fun p => seqb (p_name p) n && seqb (p_ty p) ty) (f_params (r_fn r))
  | _ => false
  end.

Definition guarded_nonempty (r : row) (v : string) : bool :=
  existsb (fun c => cond_eqb c (Meth (canon (f_params (r_fn r)) (Id v)) "empty" [], false)) (r_conds r).

Definition arity_row_ok (r : row) : bool :=
  match r_call r with
  | NOp c ats a first =>
      match fclass c with
      | None => false
      | Some o =>
          let argn := count_of (class_const o "num_arguments") in
          let retn := count_of (class_const o "num_returns") in
          (* the number of node arguments handed to add_operator *)
          (match argn, a with
           | CNum n, Brace l => Nat.eqb (List.length l) n
           | CNonzero, Brace l => negb (Nat.eqb (List.length l) 0)
           | CNonzero, Id v => guarded_nonempty r v
           | CAny, _ => true
           | _, _ => false
           end) &&
          (* every node argument is a Node parameter of the function *)
          (match a with
           | Brace l => forallb (fun e => is_node_param r e "X") l
           | Id v => is_node_param r (Id v) "vec<X>"
           | _ => false
           end) &&
          (* a constructor of the class takes exactly the attributes passed *)
          (match member_env o ats with Some _ => true | None => false end) &&
          (* [0] is taken only of an operator with at least one result; a vector result returns all *)
          (if first then seqb (f_ret (r_fn r)) "X" && match retn with CNum n => Nat.leb 1 n | _ => false end
           else seqb (f_ret (r_fn r)) "vec<X>")
      end
  | NExpr _ => true
  end.

(* per operator class: num_returns = number of y[i] that forward and forward_shape assign
   (or the number of inner values), and x[i] only for i < num_arguments *)
Definition class_ok (o : opclass) : bool :=
  let c := oc_name o in
  let argn := count_of (class_const o "num_arguments") in
  let retn := count_of (class_const o "num_returns") in
  let xs_ok (ss : list st) :=
      match argn with
      | CNum n => forallb (fun i => Nat.ltb i n) (body_xidx ss)
      | CNonzero => forallb (fun i => Nat.eqb i 0) (body_xidx ss)
      | _ => false
      end in
  match class_const o "has_inner_values", omethod c "forward_shape" with
  | Some (Id b), Some fs =>
      body_clean (f_body fs) && count_eqb (assigned_count (f_body fs)) retn && xs_ok (f_body fs) &&
      (if seqb b "true" then
         match omethod c "get_inner_values" with
         | Some g => match ret_expr g with
                     | Some (Call _ l) => count_eqb (CNum (List.length l)) retn
                     | _ => false end
         | None => false
         end
       else if seqb b "false" then
         match omethod c "forward" with
         | Some f => body_clean (f_body f) && count_eqb (assigned_count (f_body f)) retn && xs_ok (f_body f)
         | None => false
         end
       else false)
  | _, _ => false
  end.

(* every operator class is constructed by some Node function *)
Definition class_used (o : opclass) : bool :=
  existsb (fun r => match row_op r with Some c => seqb c (oc_name o) | None => false end) R.

(* ------------------------------------------------------------------ (2) delegation *)
(* Tensor functions for which f(a, b) = f(b, a) is ASSUMED (float addition / multiplication are
   commutative and shape_ops::scalar_op / elementwise are symmetric in the batch sizes) *)
Definition commutative : list string := ["add"; "multiply"].

Definition swap_ok (a b : reach) : bool :=
  match a, b with
  | RFun n f t [x; y], RFun n' f' t' [x'; y'] =>
      seqb n n' && seqb f f' && strl_eqb t t' && strl_eqb t ["X"; "X"] && seqb n "functions" && mem f commutative &&
      ex_eqb x y' && ex_eqb y x'
  | _, _ => false
  end.

(* composite rows: the Node expression is the Tensor expression.  Both are written over the
   functions of the respective API: x_node(.., g) and x_tensor(..) are identified, and the
   pointer/object views of an operand list are dropped. *)
Fixpoint norm_nt (fuel : nat) (e : ex) : ex :=
  match fuel with
  | O => e
  | S k =>
    match e with
    | Call g a =>
        let a' := map (norm_nt k) a in
        if suffixb "_node" g then Call (strip_suffix "_node" g) (removelast a')
        else if suffixb "_tensor" g then Call (strip_suffix "_tensor" g) a'
        else if seqb g "ptr_to_obj" || seqb g "obj_to_ptr" then match a' with [x] => x | _ => Call g a' end
        else Call g a'
    | Meth r m a => Meth (norm_nt k r) m (map (norm_nt k) a)
    | Idx a i => Idx (norm_nt k a) (norm_nt k i)
    | Deref a => Deref (norm_nt k a)
    | Un o a => Un o (norm_nt k a)
    | Bin o a b => Bin o (norm_nt k a) (norm_nt k b)
    | _ => e
    end
  end.

Definition composite_row_ok (r : row) : bool :=
  match r_out r, r_tfn r with
  | ORet e, Some t =>
      let ne := norm_nt 12 (canon (f_params (r_fn r)) e) in
      ex_clean ne &&
      ((* the same expression on both sides *)
       match func_paths t with
       | [([], ORet e')] => ex_eqb ne (norm_nt 12 (canon (f_params t) e'))
       | _ => false
       end ||
       (* or: this overload only forwards to the overload of the same name on the same operands
          (concat(vector<const Node *>) -> concat(vector<Node>); on the Tensor side the pointer
          version is the primary one) *)
       match ne with
       | Call g a => seqb g (base_name (f_name (r_fn r))) &&
                     exl_eqb a (map role (seq 0 (List.length (f_params (r_fn r))))) &&
                     existsb (fun r' => seqb (f_ns (r_fn r')) (f_ns (r_fn r)) &&
                                        seqb (f_name (r_fn r')) (f_name (r_fn r)) && is_op_row r') R
       | _ => false
       end)
  | _, _ => false
  end.


Definition reviewed_method (c m : string) : bool :=
  match omethod c m, find (fun f => seqb (f_qual f) c && seqb (f_name f) m) rv_methods with
  | Some g, Some v => func_eqb g v
  | _, _ => false
  end.

Definition reviewed_tensor (t : func) : bool :=
  match find (same_key t) rv_tensor_funcs with
  | Some v => func_eqb t v
  | None => false
  end.

(* a Node function with a reviewed body (split, batch::split: a guard that throws, then the operator) *)
Definition reviewed_node (f : func) : bool :=
  match find (same_key f) rv_node_funcs with
  | Some v => func_eqb f v
  | None => false
  end.

Definition has_reviewed_node (f : func) : bool :=
  match find (same_key f) rv_node_funcs with Some _ => true | None => false end.

(* the Node function of this row also constructs one of the special operators on another path *)
Definition special_fn (r : row) : bool :=
  existsb (fun r' => same_key (r_fn r') (r_fn r) && is_special r') R.

(* special rows: regenerated FORWARD, FWD_SHAPE and Tensor function (and log_softmax, which the
   composites call) are the reviewed ones; so is the Node function when it has a guard *)
Definition special_row_ok (r : row) : bool :=
  match row_op r, r_tfn r with
  | Some c, Some t =>
      reviewed_method c "forward" && reviewed_method c "forward_shape" && reviewed_tensor t &&
      forallb (fun v => existsb (fun t' => func_eqb t' v) tensor_funcs) rv_tensor_funcs &&
      (match r_conds r with [] => negb (has_reviewed_node (r_fn r)) | _ => reviewed_node (r_fn r) end)
  | _, _ => false
  end.

(* a throw path: the Tensor function throws on the path with the same condition; for split /
   batch::split (Tensor function = guards + loop, not a plain if/return body) the Node function
   is the reviewed one, whose guard `n == 0 || total % n != 0` is the rejection condition of the
   Tensor composite and of FWD_SHAPE (CompositeProofs.split_guard_agree) *)
Definition throw_row_ok (r : row) : bool :=
  match r_tpath r with
  | Some OThrow => true
  | _ => special_fn r && reviewed_node (r_fn r) &&
         match r_tfn r with Some t => reviewed_tensor t | None => false end
  end.

Definition deleg_row_ok (r : row) : bool :=
  if is_throw_row r then throw_row_ok r
  else if is_composite_row r then composite_row_ok r
  else if is_special r then special_row_ok r
  else if is_op_row r then
    match r_tpath r with
    | Some (ORet _) => reach_eqb (fw r) (self r) || swap_ok (fw r) (self r)
    | _ => false
    end
  else false.

(* ------------------------------------------------------------------ (3) shape rules *)
(* Device entries that may carry a value guard which forward_shape does not repeat:
   distribution parameters (the property defers them to evaluation), size == 0 of identity
   (Shape({0,0}) is rejected by the Shape constructor at creation), validity of the operand of
   copy_tensor (an evaluated operand is valid), emptiness of the operand list of concat
   (rejected at creation by the NONZERO arity and the explicit throw of the Node function). *)
Definition guard_allowed : list string :=
  ["random_bernoulli"; "random_uniform"; "random_normal"; "random_log_normal"; "identity";
   "copy_tensor"; "concat_fw"; "batch_concat_fw"].

Definition distribution_entries : list string :=
  ["random_bernoulli"; "random_uniform"; "random_normal"; "random_log_normal"].

Definition norm_views_shape (e : ex) : ex :=
  rw (fun x => match x with
               | Call g [Call h [d]] => if seqb g "shapes_of" && seqb h "ptrs_of" then Some (Call "shapes_of" [d]) else None
               | _ => None end) e.

Definition shape_row_ok (r : row) : bool :=
  if is_throw_row r || is_composite_row r then true
  else if is_special r then special_row_ok r
  else
    match nshape r, rshape (tfw r) with
    | Some a, Some (gs, b) =>
        ex_clean a && ex_eqb a (norm_views_shape b) &&
        match gs, tfw r with
        | [], _ => true
        | _, RDev m _ _ => mem m guard_allowed
        | _, _ => false
        end
    | _, _ => false
    end.

(* ------------------------------------------------------------------ (4) both APIs offer the same functions *)
Definition has_X (f : func) : bool :=
  existsb (fun t => seqb t "X" || seqb t "vec<X>" || seqb t "vec<X*>") (f_ret f :: types (f_params f)).

Definition node_fn_mapped (f : func) : bool :=
  match stands_for tensor_funcs template_specs f with Some _ => true | None => false end.

Definition tensor_fn_covered (t : func) : bool :=
  existsb (fun f => match stands_for tensor_funcs template_specs f with
                    | Some t' => same_key t t' | None => false end) (api_node_funcs node_funcs).

(* ------------------------------------------------------------------ (5) cache variant *)
Definition cache_delta_ok : bool :=
  match op_methods_cache_delta, rv_cache_delta with
  | [g], [v] => func_eqb g v
  | _, _ => false
  end.

(* ------------------------------------------------------------------ the tables as a whole *)
Definition tables_nonempty : bool :=
  Nat.leb 60 (List.length op_classes) && Nat.leb 70 (List.length R) &&
  Nat.leb 50 (List.length device_funcs) && Nat.leb 60 (List.length (api_tensor_funcs tensor_funcs)).

Definition bad_rows (chk : row -> bool) := map row_key (filter (fun r => negb (chk r)) R).
Definition bad_classes (chk : opclass -> bool) := map oc_name (filter (fun o => negb (chk o)) op_classes).

(* ------------------------------------------------------------------ printable row names (for the failing-call search of engines/c04.py) *)
Definition cond_is (c : ex * bool) (i : nat) (m : string) (b : bool) : bool :=
  (ex_eqb (fst c) (Meth (Meth (role i) "shape" []) m []) || ex_eqb (fst c) (Meth (role i) m [])) && Bool.eqb (snd c) b.

Definition row_variant (r : row) : string :=
  match r_conds r with
  | [] => "none"
  | [c] => if cond_is c 0 "is_scalar" true then "a-scalar"
           else if cond_is c 0 "empty" true then "empty"
           else if cond_is c 0 "empty" false then "none" else "other"
  | [c; d] => if cond_is c 0 "is_scalar" false && cond_is d 1 "is_scalar" true then "b-scalar"
              else if cond_is c 0 "is_scalar" false && cond_is d 1 "is_scalar" false then "none" else "other"
  | _ => "other"
  end.

Definition row_tag (r : row) : string :=
  String.concat " " [f_ns (r_fn r); f_name (r_fn r); String.concat "," (types (f_params (r_fn r))); row_variant r;
                     match row_op r with Some c => c | None => "-" end].

Definition bad_tags (chk : row -> bool) : list string := map row_tag (filter (fun r => negb (chk r)) R).
