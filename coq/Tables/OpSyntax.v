(* Abstract syntax of the function bodies that translate/gen_optables.py writes into
   Gen/OpTables.v (tables engine, property C04).  Data only. *)
From Coq Require Import List String.
Import ListNotations.

Inductive ex : Type :=
| Id (s : string)                          (* parameter / member / local / qualified constant *)
| Lit (s : string)                         (* literal, canonical text *)
| Call (f : string) (a : list ex)          (* f(a) for a (qualified) function or type name *)
| Meth (r : ex) (m : string) (a : list ex) (* r.m(a); r->m(a) is Meth (Deref r) m a; a field is Meth r ".name" [] *)
| Idx (a i : ex)                           (* a[i] *)
| Deref (a : ex)                           (* *a *)
| Un (o : string) (a : ex)
| Bin (o : string) (a b : ex)
| Cond (c a b : ex)                        (* c ? a : b *)
| Brace (l : list ex)                      (* {a, b, ...} *)
| New (c : string) (a : list ex)           (* new c(a) *)
| Other (s : string).                      (* not understood by the parser: accepted by no checker *)

Inductive st : Type :=
| SAssign (l r : ex)
| SOpAssign (o : string) (l r : ex)
| SExp (e : ex)
| SDecl (ty n : string) (init : option ex)
| SRet (e : ex)
| SRetVoid
| SThrow                                   (* a block that throws (PRIMITIV_THROW_ERROR) *)
| SIf (c : ex) (t e : list st)
| SFor (v : string) (lo hi : ex) (b : list st)   (* for (T v = lo; v < hi; ++v) b *)
| SForEach (v : string) (r : ex) (b : list st)
| SOther (s : string).

Record param := mkP { p_ty : string; p_name : string }.

Record func := {
  f_ns : string;       (* enclosing namespaces below primitiv::, "<anon>" for an unnamed one *)
  f_qual : string;     (* class qualifier: "Device", "Tensor", an operator class, or "" *)
  f_name : string;     (* "add", "concat<X>", "operator+", "input<Tensor>" *)
  f_ret : string;
  f_params : list param;
  f_inits : list (string * ex);   (* constructor initialiser list: member := expression *)
  f_body : list st }.

Record opclass := {
  oc_name : string;
  oc_fields : list param;
  oc_ctors : list func;
  oc_methods : list func }.   (* num_arguments num_returns has_inner_values get_device ... with bodies *)
