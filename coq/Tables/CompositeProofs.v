(* FWD_SHAPE of Split, BatchSplit, SoftmaxCrossEntropy, SparseSoftmaxCrossEntropy computes the
   shape of the composite Tensor function and throws exactly when it throws -- for the shape-rule
   model of Shape/ShapeImpl.v (tied to shape_ops.cc / operator_impl.cc by C09's correspondence).
   This discharges hypothesis composite_shapes_agree of the abstract API model at that model. *)
From Coq Require Import List NArith Bool Lia.
From PV Require Import Base.U32 Shape.ShapeImpl Shape.ShapeSpec Shape.ShapeLemmas Shape.ShapeProofs Shape.ShapeRules.
Import ListNotations.
Local Open Scope N_scope.
From PV Require Import Tables.CompositeShapes.

Lemma elementwise_self x : wf x -> elementwise x x = Some x.
Proof.
  intro Hx. pose proof (elementwise_spec x x Hx Hx) as E. unfold elementwise_admissible, batch_compatible in E.
  destruct (elementwise x x) as [r|].
  - destruct E as [_ [Ew [Eb Eg]]]. f_equal. apply wf_ext; auto. rewrite Eb. lia.
  - exfalso. apply E. split; auto.
Qed.

Lemma scalar_op_self x : wf x -> is_scalar x = true -> scalar_op x x = Some x.
Proof.
  intros Hx Hs. pose proof (scalar_op_spec x x Hx Hx) as E. unfold scalar_op_admissible, batch_compatible in E.
  destruct (scalar_op x x) as [r|].
  - destruct E as [_ [Ew [Eb Eg]]]. f_equal. apply wf_ext; auto. rewrite Eb. lia.
  - exfalso. apply E. split; [apply is_scalar_spec; auto|]. split; [auto|].
    rewrite N.max_id. apply wf_size; exact Hx.
Qed.

Lemma binop_self x : wf x -> binop_shape x x = Some x.
Proof.
  intro Hx. unfold binop_shape. destruct (is_scalar x) eqn:E.
  - apply scalar_op_self; auto.
  - apply elementwise_self; auto.
Qed.

Lemma log_softmax_shape_spec x dim : wf x -> u32 dim ->
  log_softmax_shape x dim = if dim <? 8 then Some x else None.
Proof.
  intros Hx Hd. unfold log_softmax_shape, reduce, resize_dim.
  assert (H1 : u32 1) by (unfold u32, P32; lia).
  pose proof (update_dim_spec x dim 1 Hx Hd H1) as U. unfold update_dim_admissible in U.
  pose proof (get_pos x dim Hx) as Hg. pose proof (get_u32 x dim Hx) as Hgu.
  destruct (update_dim x dim 1) as [l|]; cbn [bind].
  - destruct U as [[U8 _] [Uw [Ub [Ug Up]]]].
    destruct (N.ltb_spec dim 8) as [_|]; [|lia].
    pose proof (broadcast_spec l dim (get x dim) Uw Hd Hgu) as B. unfold broadcast_admissible in B.
    assert (Gl : get l dim = 1) by (rewrite Ug, N.eqb_refl; reflexivity).
    destruct (broadcast l dim (get x dim)) as [bc|]; cbn [bind].
    + destruct B as [_ [Bw [Bb Bg]]].
      assert (bc = x).
      { apply wf_ext; auto; [|congruence]. intro i. rewrite Bg, Ug.
        destruct (N.eqb_spec i dim) as [->|]; reflexivity. }
      subst bc. apply binop_self; exact Hx.
    + exfalso. apply B. split; [exact Gl|]. split; [exact Hg|]. split; [exact U8|].
      rewrite Up, Ub, N.mul_1_r, (prod_div_get x dim Hx). apply wf_size; exact Hx.
  - destruct (N.ltb_spec dim 8) as [H8|]; [|reflexivity].
    exfalso. apply U. split; [exact H8|]. split; [lia|]. apply shrink_size; [exact Hx|lia].
Qed.

Theorem sce_dense_agree x t dim : wf x -> wf t -> u32 dim ->
  sce_dense_tensor x t dim = sce x t dim.
Proof.
  intros Hx Ht Hd. unfold sce_dense_tensor. rewrite (log_softmax_shape_spec x dim Hx Hd).
  pose proof (sce_spec x t dim Hx Ht Hd) as S. unfold sce_admissible in S.
  destruct (N.ltb_spec dim 8) as [H8|H8]; cbn [bind].
  - pose proof (elementwise_spec t x Ht Hx) as E. unfold elementwise_admissible in E.
    destruct (elementwise t x) as [m|]; cbn [bind].
    + destruct E as [[E1 E2] [Ew [Eb Eg]]].
      pose proof (reduce_spec m dim Ew Hd) as R. unfold reduce_admissible in R.
      destruct (reduce m dim) as [r|]; [|tauto].
      destruct R as [_ [Rw [Rb Rg]]].
      destruct (sce x t dim) as [s|].
      * destruct S as [_ [Sw [Sb Sg]]]. f_equal. apply wf_ext; auto.
        -- intro i. rewrite Rg, Sg, Eg, E1. reflexivity.
        -- rewrite Rb, Eb, Sb. apply N.max_comm.
      * exfalso. apply S. split; [intro i; symmetry; apply E1|]. split; [|exact H8].
        unfold batch_compatible in *. intuition.
    + destruct (sce x t dim) as [s|]; [|reflexivity].
      exfalso. apply E. destruct S as [[S1 [S2 _]] _]. split; [intro i; symmetry; apply S1|].
      unfold batch_compatible in *. intuition.
  - destruct (sce x t dim) as [s|]; [|reflexivity]. exfalso. destruct S as [[_ [_ S3]] _]. lia.
Qed.

Theorem sce_sparse_agree x ids dim : wf x -> Forall u32 ids -> u32 (N.of_nat (length ids)) -> u32 dim ->
  sce_sparse_tensor x ids dim = pick x ids dim.
Proof.
  intros Hx Hi Hl Hd. unfold sce_sparse_tensor. rewrite (log_softmax_shape_spec x dim Hx Hd).
  destruct (N.ltb_spec dim 8) as [H8|H8]; cbn [bind]; [reflexivity|].
  pose proof (pick_spec x ids dim Hx Hi Hl Hd) as P. unfold pick_admissible in P.
  destruct (pick x ids dim); [|reflexivity]. exfalso. destruct P as [[_ [_ [_ [P8 _]]]] _]. lia.
Qed.

Lemma mapM_const {A B} (f : A -> option B) (r : B) : forall l,
  (forall a, In a l -> f a = Some r) -> mapM f l = Some (repeat r (length l)).
Proof.
  induction l as [|a l IH]; intros H; simpl; auto.
  rewrite (H a) by (left; reflexivity). rewrite IH by (intros; apply H; right; assumption). reflexivity.
Qed.

Lemma indices_spec n i : In i (indices n) -> i < n.
Proof.
  unfold indices. rewrite in_map_iff. intros [k [<- Hk]]. apply in_seq in Hk. lia.
Qed.

Lemma indices_length n : length (indices n) = N.to_nat n.
Proof. unfold indices. rewrite map_length, seq_length. reflexivity. Qed.

Theorem split_agree x dim n : wf x -> u32 dim -> u32 n ->
  split_tensor x dim n = option_map (fun s => repeat s (N.to_nat n)) (split x dim n).
Proof.
  intros Hx Hd Hn. unfold split_tensor, split.
  destruct (N.eqb_spec n 0) as [E0|E0]; [reflexivity|].
  pose proof (get_pos x dim Hx) as Hg. pose proof (get_u32 x dim Hx) as Hgu.
  remember (get x dim / n) as span eqn:Esp.
  assert (Hsm : span * n <= get x dim).
  { subst span. rewrite N.mul_comm. apply N.mul_div_le. exact E0. }
  rewrite wrap32_small by (unfold u32 in Hgu; lia).
  destruct (N.eqb_spec (span * n) (get x dim)) as [E1|E1]; cbn [negb]; [|reflexivity].
  assert (Hsp : 0 < span) by nia.
  assert (H0u : u32 0) by (unfold u32, P32; lia).
  assert (Hspu : u32 span) by (unfold u32 in *; nia).
  pose proof (slice_spec x dim 0 span Hx Hd H0u Hspu) as U. unfold slice_admissible in U.
  rewrite N.sub_0_r in U.
  destruct (slice x dim 0 span) as [r|]; [|exfalso; apply U; nia].
  destruct U as [_ [Uw [Ub Ug]]]. cbn [option_map].
  rewrite <- indices_length. apply mapM_const. intros i Hi. apply indices_spec in Hi.
  assert (Hup : (i + 1) * span <= get x dim) by nia.
  rewrite !wrap32_small by (unfold u32 in Hgu; nia).
  assert (Hlu : u32 (i * span)) by (unfold u32 in *; nia).
  assert (Huu : u32 ((i + 1) * span)) by (unfold u32 in *; nia).
  pose proof (slice_spec x dim (i * span) ((i + 1) * span) Hx Hd Hlu Huu) as S. unfold slice_admissible in S.
  destruct (slice x dim (i * span) ((i + 1) * span)) as [s|]; [|exfalso; apply S; nia].
  destruct S as [_ [Sw [Sb Sg]]]. f_equal. apply wf_ext; auto; [|congruence].
  intro j. rewrite Sg, Ug. destruct (j =? dim); [nia|reflexivity].
Qed.

Theorem batch_split_agree x n : wf x -> u32 n ->
  batch_split_tensor x n = option_map (fun s => repeat s (N.to_nat n)) (batch_split x n).
Proof.
  intros Hx Hn. unfold batch_split_tensor, batch_split.
  destruct (N.eqb_spec n 0) as [E0|E0]; [reflexivity|].
  pose proof (wf_batch _ Hx) as Hg. pose proof (batch_u32 x Hx) as Hgu.
  remember (batch x / n) as span eqn:Esp.
  assert (Hsm : span * n <= batch x).
  { subst span. rewrite N.mul_comm. apply N.mul_div_le. exact E0. }
  rewrite wrap32_small by (unfold u32 in Hgu; lia).
  destruct (N.eqb_spec (span * n) (batch x)) as [E1|E1]; cbn [negb]; [|reflexivity].
  assert (Hsp : 0 < span) by nia.
  assert (Hspu : u32 span) by (unfold u32 in *; nia).
  pose proof (update_batch_get x span Hx Hspu) as U.
  destruct (update_batch x span) as [r|].
  2: { exfalso. apply U. split; [exact Hsp|]. pose proof (wf_size _ Hx). pose proof (prod_pos x Hx). nia. }
  destruct U as [_ [Uw [Ub [_ Ug]]]]. cbn [option_map].
  rewrite <- indices_length. apply mapM_const. intros i Hi. apply indices_spec in Hi.
  assert (Hup : (i + 1) * span <= batch x) by nia.
  rewrite !wrap32_small by (unfold u32 in Hgu; nia).
  assert (Hlu : u32 (i * span)) by (unfold u32 in *; nia).
  assert (Huu : u32 ((i + 1) * span)) by (unfold u32 in *; nia).
  pose proof (batch_slice_spec x (i * span) ((i + 1) * span) Hx Hlu Huu) as S. unfold batch_slice_admissible in S.
  destruct (batch_slice x (i * span) ((i + 1) * span)) as [s|]; [|exfalso; apply S; nia].
  destruct S as [_ [Sw [Sb Sg]]]. f_equal. apply wf_ext; auto.
  - intro j. rewrite Sg, Ug. reflexivity.
  - rewrite Sb, Ub. nia.
Qed.

(* the guard of the Node functions rejects exactly the calls that the Tensor composite and
   FWD_SHAPE(Split / BatchSplit) reject *)
Theorem split_guard_agree x dim n : wf x -> u32 dim -> u32 n ->
  (node_split_guard x dim n = true <-> split_tensor x dim n = None) /\
  (node_split_guard x dim n = true <-> split x dim n = None).
Proof.
  intros Hx Hd Hn.
  assert (G : node_split_guard x dim n = true <-> split x dim n = None).
  { pose proof (split_spec x dim n Hx Hd Hn) as S. unfold split_admissible in S.
    unfold node_split_guard.
    destruct (N.eqb_spec n 0) as [E0|E0]; cbn [orb].
    - destruct (split x dim n); [lia|tauto].
    - destruct (N.eqb_spec (get x dim mod n) 0) as [E1|E1]; cbn [negb].
      + destruct (split x dim n); [split; discriminate|]. exfalso. apply S. lia.
      + destruct (split x dim n); [lia|tauto]. }
  split; [|exact G]. rewrite G, (split_agree x dim n Hx Hd Hn).
  destruct (split x dim n); cbn [option_map]; split; intro; (reflexivity || discriminate).
Qed.

Theorem batch_split_guard_agree x n : wf x -> u32 n ->
  (node_batch_split_guard x n = true <-> batch_split_tensor x n = None) /\
  (node_batch_split_guard x n = true <-> batch_split x n = None).
Proof.
  intros Hx Hn.
  assert (G : node_batch_split_guard x n = true <-> batch_split x n = None).
  { pose proof (batch_split_spec x n Hx Hn) as S. unfold batch_split_admissible in S.
    unfold node_batch_split_guard.
    destruct (N.eqb_spec n 0) as [E0|E0]; cbn [orb].
    - destruct (batch_split x n); [lia|tauto].
    - destruct (N.eqb_spec (batch x mod n) 0) as [E1|E1]; cbn [negb].
      + destruct (batch_split x n); [split; discriminate|]. exfalso. apply S. lia.
      + destruct (batch_split x n); [lia|tauto]. }
  split; [|exact G]. rewrite G, (batch_split_agree x n Hx Hn).
  destruct (batch_split x n); cbn [option_map]; split; intro; (reflexivity || discriminate).
Qed.
