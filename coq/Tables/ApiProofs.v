(* Proofs about the abstract API model of Tables/ApiModel.v (tables engine, property C04):
   soundness of the boolean equalities, and, for every table satisfying the three table facts,
   by induction over the program:
     node_values_are_tensor_values   evaluating the nodes = calling the Tensor functions
     create_run_ok                   static shapes = shapes of the tensors computed, creation accepts what the Tensor API accepts
     create_run_err                  every non-deferred Tensor error is reported when that node is created
     create_run_conv                 creation rejects only programs the Tensor API rejects *)
From Coq Require Import List String Ascii Bool Arith Lia.
From PV Require Import Tables.OpSyntax Tables.OpUtil Tables.OpRows Tables.ApiModel.
Import ListNotations.
Local Open Scope bool_scope.

Lemma seqb_sound a b : seqb a b = true -> a = b.
Proof. apply String.eqb_eq. Qed.

Lemma strl_eqb_sound : forall a b, strl_eqb a b = true -> a = b.
Proof.
  induction a as [|x a IH]; destruct b as [|y b]; simpl; try discriminate; auto.
  intros H. apply andb_true_iff in H as [H1 H2]. apply seqb_sound in H1. f_equal; auto.
Qed.

Section ExInd.
  Variable P : ex -> Prop.
  Hypothesis HId : forall s, P (Id s).
  Hypothesis HLit : forall s, P (Lit s).
  Hypothesis HCall : forall f a, Forall P a -> P (Call f a).
  Hypothesis HMeth : forall r m a, P r -> Forall P a -> P (Meth r m a).
  Hypothesis HIdx : forall a i, P a -> P i -> P (Idx a i).
  Hypothesis HDeref : forall a, P a -> P (Deref a).
  Hypothesis HUn : forall o a, P a -> P (Un o a).
  Hypothesis HBin : forall o a b, P a -> P b -> P (Bin o a b).
  Hypothesis HCond : forall c a b, P c -> P a -> P b -> P (Cond c a b).
  Hypothesis HBrace : forall l, Forall P l -> P (Brace l).
  Hypothesis HNew : forall c a, Forall P a -> P (New c a).
  Hypothesis HOther : forall s, P (Other s).

  Fixpoint ex_ind' (e : ex) : P e :=
    let go := fix go (l : list ex) : Forall P l :=
        match l with
        | [] => Forall_nil P
        | x :: r => Forall_cons x (ex_ind' x) (go r)
        end in
    match e with
    | Id s => HId s
    | Lit s => HLit s
    | Call f a => HCall f a (go a)
    | Meth r m a => HMeth r m a (ex_ind' r) (go a)
    | Idx a i => HIdx a i (ex_ind' a) (ex_ind' i)
    | Deref a => HDeref a (ex_ind' a)
    | Un o a => HUn o a (ex_ind' a)
    | Bin o a b => HBin o a b (ex_ind' a) (ex_ind' b)
    | Cond c a b => HCond c a b (ex_ind' c) (ex_ind' a) (ex_ind' b)
    | Brace l => HBrace l (go l)
    | New c a => HNew c a (go a)
    | Other s => HOther s
    end.
End ExInd.

Lemma l_eqb_sound (x : list ex) :
  Forall (fun p => forall q, ex_eqb p q = true -> p = q) x ->
  forall y, (fix l_eqb (x y : list ex) {struct x} : bool :=
               match x, y with
               | [], [] => true
               | p :: x', q :: y' => ex_eqb p q && l_eqb x' y'
               | _, _ => false end) x y = true -> x = y.
Proof.
  induction 1 as [|p x Hp Hx IH]; intros [|q y]; try discriminate; auto.
  intros H. apply andb_true_iff in H as [H1 H2]. f_equal; auto.
Qed.

Lemma ex_eqb_sound : forall a b, ex_eqb a b = true -> a = b.
Proof.
  induction a using ex_ind'; destruct b; simpl; try discriminate; intros HH;
    repeat match goal with H : _ && _ = true |- _ => apply andb_true_iff in H as [? ?] end;
    repeat match goal with H : seqb _ _ = true |- _ => apply seqb_sound in H; subst end;
    repeat match goal with
           | IH : forall b, ex_eqb ?a b = true -> ?a = b, H : ex_eqb ?a _ = true |- _ => apply IH in H; subst
           | F : Forall _ ?x, H : _ ?x _ = true |- _ => apply (l_eqb_sound x F) in H; subst
           end; try reflexivity.
Qed.

Lemma exl_eqb_sound : forall a b, exl_eqb a b = true -> a = b.
Proof.
  induction a as [|x a IH]; destruct b as [|y b]; simpl; try discriminate; auto.
  intros H. apply andb_true_iff in H as [H1 H2]. apply ex_eqb_sound in H1. f_equal; auto.
Qed.

Lemma fkey_eqb_sound a b : fkey_eqb a b = true -> a = b.
Proof.
  destruct a as [[a1 a2] a3], b as [[b1 b2] b3]; unfold fkey_eqb; simpl. intros H.
  apply andb_true_iff in H as [H H3]. apply andb_true_iff in H as [H1 H2].
  apply seqb_sound in H1, H2. apply strl_eqb_sound in H3. subst; reflexivity.
Qed.

Lemma reach_eqb_sound a b : reach_eqb a b = true -> a = b.
Proof.
  destruct a, b; simpl; try discriminate; intros H;
    repeat match goal with H : _ && _ = true |- _ => apply andb_true_iff in H as [? ?] end;
    repeat match goal with
           | H : seqb _ _ = true |- _ => apply seqb_sound in H; subst
           | H : ex_eqb _ _ = true |- _ => apply ex_eqb_sound in H; subst
           | H : exl_eqb _ _ = true |- _ => apply exl_eqb_sound in H; subst
           | H : strl_eqb _ _ = true |- _ => apply strl_eqb_sound in H; subst
           end; reflexivity.
Qed.

Fixpoint mapM_nth {B} (env : list B) (idx : list nat) : option (list B) :=
  match idx with
  | [] => Some []
  | i :: r => match nth_error env i, mapM_nth env r with
              | Some v, Some l => Some (v :: l) | _, _ => None end
  end.

Lemma optnatl_eqb_sound : forall a idx, optnatl_eqb a (map Some idx) = true -> a = map Some idx.
Proof.
  induction a as [|[x|] a IH]; destruct idx as [|i idx]; simpl; try discriminate; auto.
  intros H. apply andb_true_iff in H as [H1 H2]. apply Nat.eqb_eq in H1. subst. f_equal; auto.
Qed.

Lemma permute_idx {B} (env : list B) : forall args idx,
  map role_index args = map Some idx -> permute args env = mapM_nth env idx.
Proof.
  induction args as [|a args IH]; destruct idx as [|i idx]; simpl; try discriminate; auto.
  intros H. injection H as H1 H2. rewrite H1. rewrite (IH idx H2).
  destruct (mapM_nth env idx); destruct (nth_error env i); reflexivity.
Qed.

Lemma mapM_nth_seq {B} : forall (env pre : list B),
  mapM_nth (pre ++ env) (seq (List.length pre) (List.length env)) = Some env.
Proof.
  induction env as [|x env IH]; intros pre; simpl; auto.
  rewrite nth_error_app2 by lia. rewrite Nat.sub_diag. simpl.
  specialize (IH (pre ++ [x])). rewrite app_length in IH. simpl in IH.
  rewrite Nat.add_1_r in IH. rewrite <- app_assoc in IH. simpl in IH. rewrite IH. reflexivity.
Qed.

Lemma permute_id {B} (env : list B) args n :
  optnatl_eqb (map role_index args) (map Some (seq 0 n)) = true -> List.length env = n ->
  permute args env = Some env.
Proof.
  intros H L. apply optnatl_eqb_sound in H. rewrite (permute_idx env _ _ H). subst n.
  exact (mapM_nth_seq env []).
Qed.

Lemma permute_swap {B} (x y : B) args :
  optnatl_eqb (map role_index args) [Some 1; Some 0] = true -> permute args [x; y] = Some [y; x].
Proof.
  intros H. apply (optnatl_eqb_sound _ [1; 0]) in H. rewrite (permute_idx _ _ _ H). reflexivity.
Qed.

Section Proofs.
  Variables T Sh Attr : Type.
  Variable shape_of : T -> Sh.
  Variable cond_sem : ex -> list (V Sh Attr) -> bool.
  Variable shape_sem : ex -> list (V Sh Attr) -> option (list Sh).
  Variable guard_sem : ex -> list (V T Attr) -> bool.
  Variable val_sem : reach -> list (V T Attr) -> list T.
  Variable table : list mrow.

  Notation shapes := (shapes T Sh Attr shape_of).
  Notation select := (select Sh Attr cond_sem table).
  Notation path_sem := (path_sem T Sh Attr shape_of shape_sem guard_sem val_sem).
  Notation eager_call := (eager_call T Sh Attr shape_of cond_sem shape_sem guard_sem val_sem table).
  Notation node_create := (node_create Sh Attr cond_sem shape_sem table).
  Notation fw_sem := (fw_sem T Sh Attr shape_of cond_sem shape_sem guard_sem val_sem table).
  Notation node_eval := (node_eval T Sh Attr shape_of cond_sem shape_sem guard_sem val_sem table).

  (* the three table facts *)
  Hypothesis Hok : table_ok table = true.
  (* device.cc: the tensor an entry returns has the shape its rule computed *)
  Hypothesis Hval : forall r env se ss, In r table -> m_tshape r = Some se ->
      shape_sem se (shapes env) = Some ss -> map shape_of (val_sem (m_t r) env) = ss.
  (* the four composite operators: FWD_SHAPE computes the shape of the composite Tensor function *)
  Hypothesis Hspecial : forall r a b senv, In r table -> m_special r = true ->
      m_nshape r = Some a -> m_tshape r = Some b -> shape_sem a senv = shape_sem b senv.
  (* add / multiply with a scalar first operand: the Tensor function is commutative *)
  Hypothesis Hcomm : forall r x y, In r table -> m_swap r = true ->
      eager_call (m_fn r) [y; x] = eager_call (m_fn r) [x; y].

  Lemma row_facts r : In r table -> m_arity_ok r = true /\ m_deleg_ok r = true /\ m_shape_ok r = true.
  Proof.
    intros Hin. unfold table_ok in Hok.
    apply andb_true_iff in Hok as [H12 H3]. apply andb_true_iff in H12 as [H1 H2].
    rewrite forallb_forall in H1, H2, H3. auto.
  Qed.

  Lemma select_spec k senv r : select k senv = Some r ->
    In r table /\ m_fn r = k /\ List.length (snd k) = List.length senv.
  Proof.
    unfold ApiModel.select. intros H. apply find_some in H as [Hin H].
    apply andb_true_iff in H as [H H3]. apply andb_true_iff in H as [H1 H2].
    apply fkey_eqb_sound in H1. apply Nat.eqb_eq in H2. auto.
  Qed.

  Lemma shape_agree r senv : In r table -> m_kind r = KOp ->
    exists a b, m_nshape r = Some a /\ m_tshape r = Some b /\ shape_sem a senv = shape_sem b senv.
  Proof.
    intros Hin Hk. destruct (row_facts r Hin) as (_ & _ & Hs). unfold m_shape_ok in Hs. rewrite Hk in Hs.
    destruct (m_nshape r) as [a|] eqn:Ea; try discriminate.
    destruct (m_tshape r) as [b|] eqn:Eb; try discriminate.
    exists a, b. repeat split; auto.
    apply orb_true_iff in Hs as [Hs|Hs].
    - eapply Hspecial; eauto.
    - apply ex_eqb_sound in Hs. subst. reflexivity.
  Qed.

  Lemma shapes_length env : List.length (shapes env) = List.length env.
  Proof. unfold ApiModel.shapes. apply map_length. Qed.

  Lemma fw_is_path r env : select (m_fn r) (shapes env) = Some r -> m_kind r = KOp ->
    fw_sem r env = path_sem r env.
  Proof.
    intros Hsel Hk. destruct (select_spec _ _ _ Hsel) as (Hin & _ & Hlen). rewrite shapes_length in Hlen.
    destruct (row_facts r Hin) as (_ & Hd & _). unfold m_deleg_ok in Hd. rewrite Hk in Hd.
    unfold ApiModel.fw_sem.
    assert (Hself : eager_call (m_fn r) env = path_sem r env).
    { unfold ApiModel.eager_call. rewrite Hsel. reflexivity. }
    destruct (m_fw r) as [m recv args|e|m recv args|ns name tys args|why] eqn:Ef;
      try (apply andb_true_iff in Hd as [Hd _]; rewrite Hd; reflexivity).
    apply andb_true_iff in Hd as [Hd Hl]. apply andb_true_iff in Hd as [Hkey Hperm].
    apply fkey_eqb_sound in Hkey. rewrite <- Hkey in Hlen. simpl in Hlen.
    destruct (m_swap r) eqn:Esw.
    - apply Nat.eqb_eq in Hl. rewrite Hl in Hlen.
      destruct env as [|x [|y [|z env]]]; simpl in Hlen; try discriminate.
      rewrite (permute_swap x y args Hperm). rewrite Hkey.
      rewrite (Hcomm r x y Hin Esw). exact Hself.
    - rewrite (permute_id env args _ Hperm (eq_sym Hlen)). rewrite Hkey. exact Hself.
  Qed.

  (* evaluating a node IS calling the Tensor function on the argument values *)
  Lemma node_eval_eq k env : node_eval k env = eager_call k env.
  Proof.
    unfold ApiModel.node_eval, ApiModel.eager_call.
    destruct (select k (shapes env)) as [r|] eqn:Hsel; auto.
    destruct (select_spec _ _ _ Hsel) as (Hin & Hfn & _). subst k.
    destruct (m_kind r) eqn:Hk.
    - rewrite (fw_is_path r env Hsel Hk). reflexivity.
    - unfold ApiModel.path_sem. rewrite Hk. reflexivity.
  Qed.

  Lemma arity_passes r : In r table -> m_kind r = KOp -> arity_pass (m_argn r) (m_nargs r) = true.
  Proof.
    intros Hin Hk. destruct (row_facts r Hin) as (Ha & _ & _). unfold m_arity_ok in Ha. rewrite Hk in Ha. exact Ha.
  Qed.

  (* creation against the eager call on the same arguments *)
  Lemma create_ok k env ts : eager_call k env = Ok ts -> node_create k (shapes env) = Ok (map shape_of ts).
  Proof.
    unfold ApiModel.eager_call, ApiModel.node_create.
    destruct (select k (shapes env)) as [r|] eqn:Hsel; try discriminate.
    destruct (select_spec _ _ _ Hsel) as (Hin & _ & _).
    unfold ApiModel.path_sem. destruct (m_kind r) eqn:Hk; try discriminate.
    rewrite (arity_passes r Hin Hk). simpl.
    destruct (shape_agree r (shapes env) Hin Hk) as (a & b & Ea & Eb & Eab). rewrite Ea, Eb, Eab.
    destruct (existsb _ _); try discriminate.
    destruct (shape_sem b (shapes env)) as [ss|] eqn:Es; try discriminate.
    intros H. injection H as H. subst ts. rewrite (Hval r env b ss Hin Eb Es). reflexivity.
  Qed.

  Lemma create_err k env e : eager_call k env = Err e -> e <> EGuard ->
    exists e', node_create k (shapes env) = Err e'.
  Proof.
    unfold ApiModel.eager_call, ApiModel.node_create.
    destruct (select k (shapes env)) as [r|] eqn:Hsel; [|intros; eexists; reflexivity].
    destruct (select_spec _ _ _ Hsel) as (Hin & _ & _).
    unfold ApiModel.path_sem. destruct (m_kind r) eqn:Hk; [|intros; eexists; reflexivity].
    rewrite (arity_passes r Hin Hk). simpl.
    destruct (shape_agree r (shapes env) Hin Hk) as (a & b & Ea & Eb & Eab). rewrite Ea, Eb, Eab.
    destruct (existsb _ _).
    - intros H Hne. injection H as H. congruence.
    - destruct (shape_sem b (shapes env)); try discriminate. intros; eexists; reflexivity.
  Qed.

  Lemma create_rejects_only_rejected k env e : node_create k (shapes env) = Err e ->
    exists e', eager_call k env = Err e'.
  Proof.
    intros H. destruct (eager_call k env) as [ts|e'] eqn:E; [|eexists; reflexivity].
    rewrite (create_ok k env ts E) in H. discriminate.
  Qed.

  (* ---- programs *)
  Notation args_env := (args_env Attr).
  Notation run := (run Attr).

  Lemma lookup_map (st : list (list T)) ij :
    lookup (map (map shape_of) st) ij = option_map shape_of (lookup st ij).
  Proof.
    unfold lookup. rewrite nth_error_map. destruct (nth_error st (fst ij)); simpl; auto.
    rewrite nth_error_map. reflexivity.
  Qed.

  Lemma lookups_map (st : list (list T)) l :
    lookups (map (map shape_of) st) l = option_map (map shape_of) (lookups st l).
  Proof.
    induction l as [|ij l IH]; simpl; auto. rewrite lookup_map, IH.
    destruct (lookup st ij); simpl; auto. destruct (lookups st l); reflexivity.
  Qed.

  Lemma args_env_map (st : list (list T)) a :
    args_env (map (map shape_of) st) a = option_map shapes (args_env st a).
  Proof.
    induction a as [|x a IH]; simpl; auto. rewrite IH.
    destruct x as [i j|l|v]; simpl.
    - rewrite lookup_map. destruct (lookup st (i, j)); simpl; auto. destruct (args_env st a); reflexivity.
    - rewrite lookups_map. destruct (lookups st l); simpl; auto. destruct (args_env st a); reflexivity.
    - destruct (args_env st a); reflexivity.
  Qed.

  Lemma run_ext {X} (f g : fkey -> list (V X Attr) -> res (list X)) :
    (forall k env, f k env = g k env) -> forall p st n, run f p st n = run g p st n.
  Proof.
    intros H. induction p as [|c p IH]; intros; simpl; auto.
    destruct (ApiModel.args_env Attr st (c_args Attr c)); auto. rewrite H.
    destruct (g (c_fn Attr c) l); auto.
  Qed.

  Lemma run_index {X} (f : fkey -> list (V X Attr) -> res (list X)) : forall p st n m e,
    run f p st n = inr (m, e) -> n <= m.
  Proof.
    induction p as [|c p IH]; intros st n m e; simpl; try discriminate.
    destruct (ApiModel.args_env Attr st (c_args Attr c)); [|intros H; injection H as <- _; lia].
    destruct (f (c_fn Attr c) l); [|intros H; injection H as <- _; lia].
    intros H. apply IH in H. lia.
  Qed.

  Theorem node_values_are_tensor_values p :
    node_eval_run T Sh Attr shape_of cond_sem shape_sem guard_sem val_sem table p =
    eager_run T Sh Attr shape_of cond_sem shape_sem guard_sem val_sem table p.
  Proof. unfold node_eval_run, eager_run. apply run_ext. intros; apply node_eval_eq. Qed.

  Lemma create_run_ok : forall p st n res,
    run eager_call p st n = inl res ->
    run node_create p (map (map shape_of) st) n = inl (map (map shape_of) res).
  Proof.
    induction p as [|c p IH]; intros st n res; simpl.
    - intros H. injection H as <-. reflexivity.
    - rewrite args_env_map. destruct (args_env st (c_args Attr c)) as [env|]; simpl; try discriminate.
      destruct (eager_call (c_fn Attr c) env) as [ts|e] eqn:E; try discriminate.
      rewrite (create_ok _ _ _ E). intros H. apply IH in H.
      rewrite map_app in H. exact H.
  Qed.

  Lemma create_run_err : forall p st n m e,
    run eager_call p st n = inr (m, e) -> e <> EGuard ->
    exists e', run node_create p (map (map shape_of) st) n = inr (m, e').
  Proof.
    induction p as [|c p IH]; intros st n m e; simpl; try discriminate.
    rewrite args_env_map. destruct (args_env st (c_args Attr c)) as [env|]; simpl.
    - destruct (eager_call (c_fn Attr c) env) as [ts|e0] eqn:E.
      + rewrite (create_ok _ _ _ E). intros H Hne. destruct (IH _ _ _ _ H Hne) as [e' He'].
        exists e'. rewrite map_app in He'. exact He'.
      + intros H Hne. injection H as <- <-. destruct (create_err _ _ _ E Hne) as [e' He']. rewrite He'.
        eexists; reflexivity.
    - intros H _. injection H as <- <-. eexists; reflexivity.
  Qed.

  Lemma create_run_conv : forall p st n m e,
    run node_create p (map (map shape_of) st) n = inr (m, e) ->
    exists m' e', run eager_call p st n = inr (m', e') /\ m' <= m /\ (m' < m -> e' = EGuard).
  Proof.
    induction p as [|c p IH]; intros st n m e; simpl; try discriminate.
    rewrite args_env_map. destruct (args_env st (c_args Attr c)) as [env|]; simpl.
    - destruct (eager_call (c_fn Attr c) env) as [ts|e0] eqn:E.
      + rewrite (create_ok _ _ _ E). intros H.
        change [map shape_of ts] with (map (map shape_of) [ts]) in H. rewrite <- map_app in H. apply IH in H. exact H.
      + intros H. exists n, e0. split; auto.
        destruct (node_create (c_fn Attr c) (shapes env)) as [ss|e1] eqn:C.
        * apply run_index in H. split; [lia|]. intros Hlt.
          destruct e0; auto; exfalso;
            (destruct (create_err _ _ _ E) as [e' He']; [discriminate|rewrite He' in C; discriminate]).
        * injection H as <- _. split; [lia|]. intros; lia.
    - intros H. injection H as <- <-. exists n, ERef. split; auto. split; [lia|intros; lia].
  Qed.
End Proofs.
