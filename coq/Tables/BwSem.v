(* An evaluator for the fragment of C++ in which the gather-type composite BACKWARD bodies of
   operator_impl.cc are written, over the index-program model of Tensor/Kernels.v (bwtables part
   of property C01).  Executable definitions only; the theorems are in Tables/BwAdjoint.v.

   It gives the SYNTAX TREES of Tables/BwReviewed.v (which the regenerated table is compared with
   on every run) a meaning:
     *x[i] *y[i] *gy[i]            read-only tensors (shape, flat data)
     *gx[i], *gxi                  accumulators (gxi = loop variable of `for (Tensor *gxi : gx)`)
     t += e / t -= e               Tensor::operator+= / -= = Device::inplace_add / inplace_subtract:
                                   scatter of the inplace_add index program (with + resp. -)
     functions::slice(t,d,lo,hi)   gather of slice_fw into the shape of t with axis d := hi - lo
     functions::broadcast(t,d,n)   gather of broadcast_fw into the shape of t with axis d := n
     functions::sum(t,d)           the axis_red reduction into the shape of t with axis d := 1
     functions::batch::slice       gather of batch_slice_fw
     functions::copy(t, dev)       t
     t.reshape(s)                  the same flat data with the dims of s
     dev.slice_bw / batch_slice_bw scatter of the slice_bw / batch_slice_bw index program
     p->shape()[d], p->shape().batch(), integer + and *, locals, members (attributes),
     for (i = 0; i < n; ++i), for (Tensor *gxi : gx), block scoping of locals.
   Anything else evaluates to None.  (Device::slice_bw with dim >= depth, which the C++ routes to
   inplace_add, is outside the fragment: the theorems assume dim < depth through their shape
   hypotheses.) *)
From Coq Require Import List String Ascii Bool Arith.
From PV Require Import Tables.OpSyntax Tables.OpUtil Tensor.Kernels Tensor.Index Tensor.ProofsGather Tensor.AdjCore.
Import ListNotations.
Local Open Scope string_scope.
Local Open Scope bool_scope.

Definition tset (s : tshape) (d n : nat) : tshape :=
  mkT (firstn d (tdims s) ++ n :: skipn (S d) (tdims s)) (tbatch s).

Section Sem.
  Context {R : Type} (rO : R) (radd : R -> R -> R) (ropp : R -> R).

  Definition tens : Type := tshape * list R.
  Inductive val := VT (t : tens) | VN (n : nat) | VS (s : tshape) | VDev.

  (* ---------------------------------------------------------------- tensor primitives *)
  Definition t_slice (t : tens) (dim lo hi : nat) : tens :=
    let sy := tset (fst t) dim (hi - lo) in (sy, gather R rO (slice_fw (fst t) sy dim lo) (tsize sy) (snd t)).
  Definition t_bcast (t : tens) (dim size : nat) : tens :=
    let sy := tset (fst t) dim size in (sy, gather R rO (broadcast_fw (fst t) sy dim size) (tsize sy) (snd t)).
  Definition t_sum (t : tens) (dim : nat) : tens :=
    let sy := tset (fst t) dim 1 in
    (sy, scatter R rO radd (red_acc (axis_red (fst t) sy dim)) (snd t) (repeat rO (tsize sy))).
  Definition t_bslice (t : tens) (lo hi : nat) : tens :=
    let sy := mkT (tdims (fst t)) (hi - lo) in (sy, gather R rO (batch_slice_fw (fst t) sy lo) (tsize sy) (snd t)).
  Definition t_reshape (t : tens) (s : tshape) : tens := (mkT (tdims s) (tbatch (fst t)), snd t).
  (* g += t, g -= t *)
  Definition acc_add (t g : tens) : tens := (fst g, scatter R rO radd (inplace_add (fst t) (fst g)) (snd t) (snd g)).
  Definition acc_sub (t g : tens) : tens :=
    (fst g, scatter R rO (fun a b => radd a (ropp b)) (inplace_add (fst t) (fst g)) (snd t) (snd g)).
  (* dev.slice_bw(gy, dim, off, g), dev.batch_slice_bw(gy, off, g) *)
  Definition d_slice_bw (gy : tens) (dim off : nat) (g : tens) : tens :=
    (fst g, scatter R rO radd (slice_bw (fst gy) (fst g) dim off) (snd gy) (snd g)).
  Definition d_bslice_bw (gy : tens) (off : nat) (g : tens) : tens :=
    (fst g, scatter R rO radd (batch_slice_bw (fst gy) (fst g) off) (snd gy) (snd g)).

  (* ---------------------------------------------------------------- environments *)
  Record env := mkEnv {
    e_x : list tens; e_y : list tens; e_gy : list tens;     (* read-only *)
    e_gx : list tens;                                       (* accumulators *)
    e_att : list (string * val);                            (* members of the operator: dim_, n_, ... *)
    e_loc : list (string * val);                            (* locals, innermost first *)
    e_gxv : list (string * nat) }.                          (* loop variables over gx -> index *)

  Definition with_loc (E : env) (l : list (string * val)) : env :=
    mkEnv (e_x E) (e_y E) (e_gy E) (e_gx E) (e_att E) l (e_gxv E).
  Definition with_gxv (E : env) (l : list (string * nat)) : env :=
    mkEnv (e_x E) (e_y E) (e_gy E) (e_gx E) (e_att E) (e_loc E) l.
  Definition upd_nth {A} (k : nat) (v : A) (l : list A) : list A := firstn k l ++ v :: skipn (S k) l.
  Definition set_gx (E : env) (k : nat) (t : tens) : env :=
    mkEnv (e_x E) (e_y E) (e_gy E) (upd_nth k t (e_gx E)) (e_att E) (e_loc E) (e_gxv E).
  (* leaving a block: the locals declared inside it disappear, the others keep their new values *)
  Definition scope (E0 E1 : env) : env :=
    mkEnv (e_x E1) (e_y E1) (e_gy E1) (e_gx E1) (e_att E1)
          (skipn (List.length (e_loc E1) - List.length (e_loc E0)) (e_loc E1)) (e_gxv E0).

  Fixpoint update (n : string) (v : val) (l : list (string * val)) : option (list (string * val)) :=
    match l with
    | [] => None
    | (k, w) :: r => if seqb k n then Some ((k, v) :: r)
                     else match update n v r with Some r' => Some ((k, w) :: r') | None => None end
    end.

  Definition lookup_var (E : env) (s : string) : option val :=
    match assoc s (e_loc E) with Some v => Some v | None => assoc s (e_att E) end.

  Definition sel (E : env) (a : string) : option (list tens) :=
    if seqb a "x" then Some (e_x E) else if seqb a "y" then Some (e_y E) else if seqb a "gy" then Some (e_gy E) else None.

  (* an index: a literal or a variable *)
  Definition ev_idx (E : env) (i : ex) : option nat :=
    match i with
    | Lit s => nat_of_str s
    | Id v => match lookup_var E v with Some (VN n) => Some n | _ => None end
    | _ => None
    end.

  (* the tensor behind a pointer whose VALUE may be read: x[i], y[i], gy[i] *)
  Definition ptr_read (E : env) (p : ex) : option tens :=
    match p with
    | Idx (Id a) i => match sel E a, ev_idx E i with Some l, Some n => nth_error l n | _, _ => None end
    | _ => None
    end.
  (* the accumulator behind a pointer: gx[i] or a loop variable over gx *)
  Definition gx_index (E : env) (p : ex) : option nat :=
    match p with
    | Idx (Id a) i => if seqb a "gx" then ev_idx E i else None
    | Id v => assoc v (e_gxv E)
    | _ => None
    end.
  Definition ptr_shape (E : env) (p : ex) : option tshape :=
    match ptr_read E p with
    | Some t => Some (fst t)
    | None => match gx_index E p with
              | Some k => match nth_error (e_gx E) k with Some g => Some (fst g) | None => None end
              | None => None
              end
    end.

  (* ---------------------------------------------------------------- expressions *)
  Fixpoint ev (E : env) (e : ex) {struct e} : option val :=
    match e with
    | Lit s => match nat_of_str s with Some n => Some (VN n) | None => None end
    | Id s => lookup_var E s
    | Deref p => match ptr_read E p with Some t => Some (VT t) | None => None end
    | Idx (Meth (Deref p) m []) d =>                          (* p->shape()[d] *)
        if seqb m "shape" then
          match ptr_shape E p, ev E d with Some s, Some (VN k) => Some (VN (tget s k)) | _, _ => None end
        else None
    | Meth (Meth (Deref p) m []) b [] =>                      (* p->shape().batch() *)
        if seqb m "shape" && seqb b "batch" then
          match ptr_shape E p with Some s => Some (VN (tbatch s)) | None => None end
        else None
    | Meth (Deref p) m a =>
        if seqb m "shape" then
          match a, ptr_shape E p with [], Some s => Some (VS s) | _, _ => None end
        else if seqb m "device" then
          match a, ptr_shape E p with [], Some _ => Some VDev | _, _ => None end
        else if seqb m "reshape" then
          match a with
          | [sh] => match ptr_read E p, ev E sh with Some t, Some (VS s) => Some (VT (t_reshape t s)) | _, _ => None end
          | _ => None
          end
        else None
    | Bin o a b =>
        match ev E a, ev E b with
        | Some (VN u), Some (VN v) => if seqb o "+" then Some (VN (u + v)) else if seqb o "*" then Some (VN (u * v)) else None
        | _, _ => None
        end
    | Call f a =>
        if seqb f "functions::slice" then
          match a with
          | [t; d; lo; hi] =>
              match ev E t, ev E d, ev E lo, ev E hi with
              | Some (VT t'), Some (VN d'), Some (VN l), Some (VN h) => Some (VT (t_slice t' d' l h))
              | _, _, _, _ => None
              end
          | _ => None
          end
        else if seqb f "functions::broadcast" then
          match a with
          | [t; d; n] =>
              match ev E t, ev E d, ev E n with
              | Some (VT t'), Some (VN d'), Some (VN n') => Some (VT (t_bcast t' d' n'))
              | _, _, _ => None
              end
          | _ => None
          end
        else if seqb f "functions::sum" then
          match a with
          | [t; d] => match ev E t, ev E d with Some (VT t'), Some (VN d') => Some (VT (t_sum t' d')) | _, _ => None end
          | _ => None
          end
        else if seqb f "functions::batch::slice" then
          match a with
          | [t; lo; hi] =>
              match ev E t, ev E lo, ev E hi with
              | Some (VT t'), Some (VN l), Some (VN h) => Some (VT (t_bslice t' l h))
              | _, _, _ => None
              end
          | _ => None
          end
        else if seqb f "functions::copy" then
          match a with
          | [t; dv] => match ev E t, ev E dv with Some (VT t'), Some VDev => Some (VT t') | _, _ => None end
          | _ => None
          end
        else None
    | _ => None
    end.

  (* ---------------------------------------------------------------- statements *)
  Fixpoint iter (n : nat) (f : nat -> env -> option env) (i : nat) (E : env) : option env :=
    match n with
    | O => Some E
    | S n' => match f i E with Some E' => iter n' f (S i) E' | None => None end
    end.

  Definition acc_stmt (E : env) (o : string) (p r : ex) : option env :=
    match gx_index E p, ev E r with
    | Some i, Some (VT t) =>
        match nth_error (e_gx E) i with
        | Some g => if seqb o "+=" then Some (set_gx E i (acc_add t g))
                    else if seqb o "-=" then Some (set_gx E i (acc_sub t g)) else None
        | None => None
        end
    | _, _ => None
    end.

  Definition dev_call (E : env) (m : string) (a : list ex) : option env :=
    if seqb m "slice_bw" then
      match a with
      | [gy; d; off; Deref p] =>
          match ev E gy, ev E d, ev E off, gx_index E p with
          | Some (VT t), Some (VN d'), Some (VN o'), Some i =>
              match nth_error (e_gx E) i with Some g => Some (set_gx E i (d_slice_bw t d' o' g)) | None => None end
          | _, _, _, _ => None
          end
      | _ => None
      end
    else if seqb m "batch_slice_bw" then
      match a with
      | [gy; off; Deref p] =>
          match ev E gy, ev E off, gx_index E p with
          | Some (VT t), Some (VN o'), Some i =>
              match nth_error (e_gx E) i with Some g => Some (set_gx E i (d_bslice_bw t o' g)) | None => None end
          | _, _, _ => None
          end
      | _ => None
      end
    else None.

  Fixpoint run (fuel : nat) (E : env) (ss : list st) {struct fuel} : option env :=
    match fuel with
    | O => None
    | S k =>
      match ss with
      | [] => Some E
      | s :: rest =>
        let r :=
          match s with
          | SDecl _ n (Some e) => match ev E e with Some v => Some (with_loc E ((n, v) :: e_loc E)) | None => None end
          | SOpAssign o l r =>
              match l with
              | Deref p => acc_stmt E o p r
              | Id v =>
                  match lookup_var E v, ev E r with
                  | Some (VN a), Some (VN b) =>
                      if seqb o "+=" then match update v (VN (a + b)) (e_loc E) with Some l' => Some (with_loc E l') | None => None end
                      else None
                  | _, _ => None
                  end
              | _ => None
              end
          | SExp (Meth recv m a) => match ev E recv with Some VDev => dev_call E m a | _ => None end
          | SFor v lo hi b =>
              match ev E lo, ev E hi with
              | Some (VN 0), Some (VN n) =>
                  iter n (fun i E1 => match run k (with_loc E1 ((v, VN i) :: e_loc E1)) b with
                                      | Some E2 => Some (scope E1 E2) | None => None end) 0 E
              | _, _ => None
              end
          | SForEach v r b =>
              if ex_eqb r (Id "gx") then
                iter (List.length (e_gx E))
                     (fun i E1 => match run k (with_gxv E1 ((v, i) :: e_gxv E1)) b with
                                  | Some E2 => Some (scope E1 E2) | None => None end) 0 E
              else None
          | _ => None
          end in
        match r with Some E' => run k E' rest | None => None end
      end
    end.

  (* the initial environment of BACKWARD(op): operands, results, result gradients, accumulators,
     the operator's attributes *)
  Definition env0 (x y gy gx : list tens) (att : list (string * val)) : env := mkEnv x y gy gx att [] [].

  Definition run_bw (f : func) (E : env) : option (list tens) :=
    match run 60 E (f_body f) with Some E' => Some (e_gx E') | None => None end.
End Sem.

Arguments VT {R}. Arguments VN {R}. Arguments VS {R}. Arguments VDev {R}.
