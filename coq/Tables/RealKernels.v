(* Closing the loop between the real instance of the API model (Tables/RealSem.v) and the kernel
   theorems of C11 (tables engine, property C04): whenever a Device entry of the real instance
   ACCEPTS a call with result shape y, the kernel index program that [core_data] runs for it -
   with exactly those shape and attribute arguments - writes every element of the output exactly
   once (sequential / covers over tsize y) and reads only inside its operands.  Pure composition:
   RealProofs.real_entries_are_frontend (running the entry's rule is fe_*_fw of Tensor/FrontEnd.v)
   with the *_fw_safe corollaries of Tensor/FrontEnd{Gather,Perm,Bilinear}.v.
   Also: the result shape the elementwise / scalar kernels of the core family compute internally
   (ew_shape / sc_shape on the converted operand shapes) is the converted shape of the rule. *)
From Coq Require Import List String Bool Arith NArith Lia.
From PV Require Import Base.U32 Shape.ShapeImpl Shape.ShapeSpec Shape.ShapeLemmas Shape.ShapeProofs Shape.ShapeRules.
From PV Require Import Tensor.Kernels Tensor.Index Tensor.FrontEnd Tensor.FrontEndGather Tensor.FrontEndPerm Tensor.FrontEndBilinear
  Tensor.AdjCore Tensor.AdjScalar.
From PV Require Import Tables.OpSyntax Tables.OpRows Tables.ApiModel Tables.RealSem Tables.RealProofs.
Import ListNotations.
Local Open Scope string_scope.
Notation wf := ShapeSpec.wf.

Lemma one_some (o : option shape) y : one o = Some [y] -> o = Some y.
Proof. unfold one. destruct o as [r|]; cbn [option_map]; [|discriminate]. intro H. injection H as ->. reflexivity. Qed.

Lemma wfb_wf x : wfb x = true -> wf x.
Proof. apply wfb_spec. Qed.

(* ew_desc / sclin_desc compute the result shape from the converted operand shapes: it is the
   converted shape of shape_ops::elementwise / scalar_op *)
Lemma ew_shape_to_t a b y : wf a -> wf b -> elementwise a b = Some y -> ew_shape (to_t a) (to_t b) = to_t y.
Proof.
  intros Ha Hb E. pose proof (elementwise_spec a b Ha Hb) as S. rewrite E in S. destruct S as (_ & Wy & By & Gy).
  assert (Ed : dims y = dims a) by (apply dims_eq_iff_get; auto).
  unfold ew_shape, to_t. cbn [tdims tbatch]. rewrite Ed, By, N2Nat.inj_max. reflexivity.
Qed.
Lemma sc_shape_to_t x k y : wf x -> wf k -> scalar_op x k = Some y -> sc_shape (to_t x) (to_t k) = to_t y.
Proof.
  intros Hx Hk E. pose proof (scalar_op_spec x k Hx Hk) as S. rewrite E in S. destruct S as (_ & Wy & By & Gy).
  assert (Ed : dims y = dims x) by (apply dims_eq_iff_get; auto).
  unfold sc_shape, to_t. cbn [tdims tbatch]. rewrite Ed, By, N2Nat.inj_max. reflexivity.
Qed.

Section Real.
  Context {R : Type}.
  Variables (rO rI : R) (rsub : R -> R -> R) (fle flt : R -> R -> bool) (ffin : R -> bool).
  Notation esh := (@entry_shape R).
  Notation shp := (shapes (@tensor R) shape (@attr R) tn_shape).
  Notation nn := N.to_nat.
  Notation ltP l := ((N.of_nat (List.length l) <? P32)%N = true).

  Lemma ltP_u32 {A} (l : list A) : ltP l -> u32 (N.of_nat (List.length l)).
  Proof. intro H. apply N.ltb_lt in H. exact H. Qed.
  Lemma ltP_map_u32 (l : list N) : ltP l -> u32 (N.of_nat (List.length (map wrap32 l))).
  Proof. intro H. rewrite map_length. apply ltP_u32. exact H. Qed.

  Ltac concat_tac Hconcat Hbconcat :=
    match goal with
         | Hw : forallb wfb (map tn_shape ?ts) = true, Hl : ltP ?ts, Hg : run_guard _ _ _ _ _ _ _ [VL ?ts; VA (AU ?d)] = false,
           He : esh "concat_fw" _ = Some [?y] |- _ =>
             pose proof (Hconcat ts d Hw Hl) as E; rewrite Hg, He in E; symmetry in E; apply one_some in E;
             apply (concat_fw_safe (map tn_shape ts) (wrap32 d) y); auto using u32_wrap32, forallb_wfb;
             rewrite map_length; apply ltP_u32; exact Hl
         | Hw : forallb wfb (map tn_shape ?ts) = true, Hl : ltP ?ts, Hg : run_guard _ _ _ _ _ _ _ [VL ?ts] = false,
           He : esh "batch_concat_fw" _ = Some [?y] |- _ =>
             pose proof (Hbconcat ts Hw Hl) as E; rewrite Hg, He in E; symmetry in E; apply one_some in E;
             apply (batch_concat_fw_safe (map tn_shape ts) y); auto using forallb_wfb;
             rewrite map_length; apply ltP_u32; exact Hl
         end.

  Theorem real_entry_kernels_safe :
    (forall x d lo up y, wfb x = true ->
       esh "slice_fw" [VT x; VA (AU d); VA (AU lo); VA (AU up)] = Some [y] ->
       sequential (slice_fw (to_t x) (to_t y) (nn (wrap32 d)) (nn (wrap32 lo))) (tsize (to_t y)) /\
       mov_in_bounds (slice_fw (to_t x) (to_t y) (nn (wrap32 d)) (nn (wrap32 lo))) [tsize (to_t x)]) /\
    (forall x ids d y, wfb x = true -> ltP ids ->
       esh "pick_fw" [VT x; VA (AUs ids); VA (AU d)] = Some [y] ->
       sequential (pick_fw (to_t x) (to_t y) (map nn (map wrap32 ids)) (nn (wrap32 d))) (tsize (to_t y)) /\
       mov_in_bounds (pick_fw (to_t x) (to_t y) (map nn (map wrap32 ids)) (nn (wrap32 d))) [tsize (to_t x)]) /\
    (forall x lo up y, wfb x = true ->
       esh "batch_slice_fw" [VT x; VA (AU lo); VA (AU up)] = Some [y] ->
       sequential (batch_slice_fw (to_t x) (to_t y) (nn (wrap32 lo))) (tsize (to_t y)) /\
       mov_in_bounds (batch_slice_fw (to_t x) (to_t y) (nn (wrap32 lo))) [tsize (to_t x)]) /\
    (forall x ids y, wfb x = true -> ltP ids ->
       esh "batch_pick_fw" [VT x; VA (AUs ids)] = Some [y] ->
       sequential (batch_pick_fw (to_t x) (to_t y) (map nn (map wrap32 ids))) (tsize (to_t y)) /\
       mov_in_bounds (batch_pick_fw (to_t x) (to_t y) (map nn (map wrap32 ids))) [tsize (to_t x)]) /\
    (forall x d n y, wfb x = true ->
       esh "broadcast_fw" [VT x; VA (AU d); VA (AU n)] = Some [y] ->
       covers (broadcast_fw (to_t x) (to_t y) (nn (wrap32 d)) (nn (wrap32 n))) (tsize (to_t y)) /\
       mov_in_bounds (broadcast_fw (to_t x) (to_t y) (nn (wrap32 d)) (nn (wrap32 n))) [tsize (to_t x)]) /\
    (forall name x d y, In name reduce_entries -> wfb x = true ->
       esh name [VT x; VA (AU d)] = Some [y] ->
       sequential (axis_red (to_t x) (to_t y) (nn (wrap32 d))) (tsize (to_t y)) /\
       red_in_bounds (axis_red (to_t x) (to_t y) (nn (wrap32 d))) (tsize (to_t x))) /\
    (forall x d y, wfb x = true -> esh "flip_fw" [VT x; VA (AU d)] = Some [y] ->
       covers (flip_pairs (to_t x) (nn (wrap32 d))) (tsize (to_t y)) /\
       acc_in_bounds (flip_pairs (to_t x) (nn (wrap32 d))) (tsize (to_t y)) (tsize (to_t x))) /\
    (forall x y, wfb x = true -> esh "transpose_fw" [VT x] = Some [y] ->
       covers (transpose_fw (to_t x) (to_t y)) (tsize (to_t y)) /\
       mov_in_bounds (transpose_fw (to_t x) (to_t y)) [tsize (to_t x)]) /\
    (forall x p y, wfb x = true -> ltP p -> esh "permute_dims_fw" [VT x; VA (AUs p)] = Some [y] ->
       covers (permute_fw (to_t x) (to_t y) (map nn (map wrap32 p))) (tsize (to_t y)) /\
       mov_in_bounds (permute_fw (to_t x) (to_t y) (map nn (map wrap32 p))) [tsize (to_t x)]) /\
    (forall x y, wfb x = true -> esh "batch_sum_fw" [VT x] = Some [y] ->
       sequential (batch_sum_red (to_t x) (to_t y)) (tsize (to_t y)) /\
       red_in_bounds (batch_sum_red (to_t x) (to_t y)) (tsize (to_t x))) /\
    (forall name a b y, In name elementwise_entries -> wfb a = true -> wfb b = true ->
       esh name [VT a; VT b] = Some [y] ->
       ew_shape (to_t a) (to_t b) = to_t y /\
       sequential (ab_fw (to_t a) (to_t b) (to_t y)) (tsize (to_t y)) /\
       tri_in_bounds (ab_fw (to_t a) (to_t b) (to_t y)) (tsize (to_t y)) (tsize (to_t a)) (tsize (to_t b))) /\
    (forall name x k y, In name scalar_entries -> wfb x = true -> wfb k = true ->
       esh name [VT x; VT k] = Some [y] ->
       sc_shape (to_t x) (to_t k) = to_t y /\
       sequential (scalar_fw (to_t x) (to_t k) (to_t y)) (tsize (to_t y)) /\
       tri_in_bounds (scalar_fw (to_t x) (to_t k) (to_t y)) (tsize (to_t y)) (tsize (to_t x)) (tsize (to_t k))) /\
    (forall a b y, wfb a = true -> wfb b = true -> esh "matmul_fw" [VT a; VT b] = Some [y] ->
       tri_in_bounds (matmul_contribs (to_t a) (to_t b) (to_t y)) (tsize (to_t y)) (tsize (to_t a)) (tsize (to_t b))) /\
    (forall x w p0 p1 s0 s1 d0 d1 y, wfb x = true -> wfb w = true ->
       esh "conv2d_fw" [VT x; VT w; VA (AU p0); VA (AU p1); VA (AU s0); VA (AU s1); VA (AU d0); VA (AU d1)] = Some [y] ->
       tri_in_bounds (conv2d_triples (to_t x) (to_t w) (to_t y) (nn (wrap32 p0)) (nn (wrap32 p1)) (nn (wrap32 s0))
                        (nn (wrap32 s1)) (nn (wrap32 d0)) (nn (wrap32 d1)))
                     (tsize (to_t y)) (tsize (to_t x)) (tsize (to_t w))) /\
    (forall x w0 w1 p0 p1 s0 s1 y, wfb x = true ->
       esh "max_pool2d_fw" [VT x; VA (AU w0); VA (AU w1); VA (AU p0); VA (AU p1); VA (AU s0); VA (AU s1)] = Some [y] ->
       sequential (pool2d_red (to_t x) (to_t y) (nn (wrap32 w0)) (nn (wrap32 w1)) (nn (wrap32 p0)) (nn (wrap32 p1))
                     (nn (wrap32 s0)) (nn (wrap32 s1))) (tsize (to_t y)) /\
       red_in_bounds (pool2d_red (to_t x) (to_t y) (nn (wrap32 w0)) (nn (wrap32 w1)) (nn (wrap32 p0)) (nn (wrap32 p1))
                        (nn (wrap32 s0)) (nn (wrap32 s1))) (tsize (to_t x))) /\
    (forall (ts : list (@tensor R)) d y, forallb wfb (map tn_shape ts) = true -> ltP ts ->
       run_guard rO rI rsub fle flt ffin (GEmpty 0) [VL ts; VA (AU d)] = false ->
       esh "concat_fw" (shp [VL ts; VA (AU d)]) = Some [y] ->
       covers (concat_fw (map to_t (map tn_shape ts)) (to_t y) (nn (wrap32 d))) (tsize (to_t y)) /\
       mov_in_bounds (concat_fw (map to_t (map tn_shape ts)) (to_t y) (nn (wrap32 d))) (map tsize (map to_t (map tn_shape ts)))) /\
    (forall (ts : list (@tensor R)) y, forallb wfb (map tn_shape ts) = true -> ltP ts ->
       run_guard rO rI rsub fle flt ffin (GEmpty 0) [VL ts] = false ->
       esh "batch_concat_fw" (shp [VL ts]) = Some [y] ->
       sequential (batch_concat_fw (map to_t (map tn_shape ts))) (tsize (to_t y)) /\
       mov_in_bounds (batch_concat_fw (map to_t (map tn_shape ts))) (map tsize (map to_t (map tn_shape ts)))).
  Proof.
    destruct (real_entries_are_frontend rO rI rsub fle flt ffin)
      as (Hun & Hco & Hsc & Hew & Hred & Hmm & Htr & Hperm & Hflip & Hpick & Hslice & Hbc & Hconv & Hpool & Hbpick & Hbslice
          & Hbsum & Hconcat & Hbconcat & Hid).
    repeat split.
    all: intros.
    all: try (match goal with H : esh _ _ = Some [_] |- _ =>
                first [rewrite Hslice in H by assumption | rewrite Hpick in H by assumption | rewrite Hbslice in H by assumption
                      | rewrite Hbpick in H by assumption | rewrite Hbc in H by assumption | rewrite Hred in H by assumption
                      | rewrite Hflip in H by assumption | rewrite Htr in H by assumption | rewrite Hperm in H by assumption
                      | rewrite Hbsum in H by assumption | rewrite Hew in H by assumption | rewrite Hsc in H by assumption
                      | rewrite Hmm in H by assumption | rewrite Hconv in H by assumption | rewrite Hpool in H by assumption];
                apply one_some in H end).
    - apply (slice_fw_safe x (wrap32 d) (wrap32 lo) (wrap32 up) y); auto using wfb_wf, u32_wrap32.
    - apply (slice_fw_safe x (wrap32 d) (wrap32 lo) (wrap32 up) y); auto using wfb_wf, u32_wrap32.
    - apply (pick_fw_safe x (map wrap32 ids) (wrap32 d) y); auto using wfb_wf, u32_wrap32, Forall_u32_wrap32, ltP_map_u32.
    - apply (pick_fw_safe x (map wrap32 ids) (wrap32 d) y); auto using wfb_wf, u32_wrap32, Forall_u32_wrap32, ltP_map_u32.
    - apply (batch_slice_fw_safe x (wrap32 lo) (wrap32 up) y); auto using wfb_wf, u32_wrap32.
    - apply (batch_slice_fw_safe x (wrap32 lo) (wrap32 up) y); auto using wfb_wf, u32_wrap32.
    - apply (batch_pick_fw_safe x (map wrap32 ids) y); auto using wfb_wf, Forall_u32_wrap32, ltP_map_u32.
    - apply (batch_pick_fw_safe x (map wrap32 ids) y); auto using wfb_wf, Forall_u32_wrap32, ltP_map_u32.
    - apply (broadcast_fw_safe x (wrap32 d) (wrap32 n) y); auto using wfb_wf, u32_wrap32.
    - apply (broadcast_fw_safe x (wrap32 d) (wrap32 n) y); auto using wfb_wf, u32_wrap32.
    - apply (reduce_fw_safe x (wrap32 d) y); auto using wfb_wf, u32_wrap32.
    - apply (reduce_fw_safe x (wrap32 d) y); auto using wfb_wf, u32_wrap32.
    - apply (flip_fw_safe x (wrap32 d) y); auto using wfb_wf.
    - apply (flip_fw_safe x (wrap32 d) y); auto using wfb_wf.
    - apply (transpose_fw_safe x y); auto using wfb_wf.
    - apply (transpose_fw_safe x y); auto using wfb_wf.
    - apply (permute_dims_fw_safe x (map wrap32 p) y); auto using wfb_wf, Forall_u32_wrap32.
    - apply (permute_dims_fw_safe x (map wrap32 p) y); auto using wfb_wf, Forall_u32_wrap32.
    - apply (batch_sum_fw_safe x y); auto using wfb_wf.
    - apply (batch_sum_fw_safe x y); auto using wfb_wf.
    - apply (ew_shape_to_t a b y); auto using wfb_wf.
    - apply (elementwise_fw_safe a b y); auto using wfb_wf.
    - apply (elementwise_fw_safe a b y); auto using wfb_wf.
    - apply (sc_shape_to_t x k y); auto using wfb_wf.
    - apply (scalar_fw_safe x k y); auto using wfb_wf.
    - apply (scalar_fw_safe x k y); auto using wfb_wf.
    - apply (matmul_fw_safe a b y); auto using wfb_wf.
    - apply (conv2d_fw_safe x w (wrap32 p0) (wrap32 p1) (wrap32 s0) (wrap32 s1) (wrap32 d0) (wrap32 d1) y); auto using wfb_wf, u32_wrap32.
    - apply (max_pool2d_fw_safe x (wrap32 w0) (wrap32 w1) (wrap32 p0) (wrap32 p1) (wrap32 s0) (wrap32 s1) y); auto using wfb_wf, u32_wrap32.
    - apply (max_pool2d_fw_safe x (wrap32 w0) (wrap32 w1) (wrap32 p0) (wrap32 p1) (wrap32 s0) (wrap32 s1) y); auto using wfb_wf, u32_wrap32.
    - concat_tac Hconcat Hbconcat.
    - concat_tac Hconcat Hbconcat.
    - concat_tac Hconcat Hbconcat.
    - concat_tac Hconcat Hbconcat.
  Qed.
End Real.
