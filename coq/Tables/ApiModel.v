(* Abstract model of the two APIs of primitiv::functions over a TABLE of rows
   (tables engine, property C04).  Executable definitions only; proofs in Tables/ApiProofs.v.

   A row describes one return path of one user-level function f(p0, p1, ...):
     Node side   the operator it constructs: declared argument count, the number of node
                 arguments the call site passes, FWD_SHAPE∘call-site as a shape expression over
                 the roles $i, FORWARD∘call-site as a canonical reach form;
     Tensor side what the same path of the Tensor function reaches (Device entry / operand
                 itself / Tensor method), the value guards and the shape rule of that entry.
   The rows of the real library are computed from the regenerated tables by
   Tables/OpRows.v / Tables/ApiTable.v; here the table is a parameter.

   What is ABSTRACT (Section variables, with the assumed contract next to them):
     T, Sh, Attr      tensors, shapes, attribute values (float / uint32 / vectors / Shape / Device pointer)
     shape_of         the shape of a tensor
     cond_sem         truth of a path condition (a.shape().is_scalar(), xs.empty()) on the shapes
     shape_sem        value of a shape expression (shape_ops::X(...), resize_dim, ...) on attribute
                      values and operand shapes; None = the rule throws
     guard_sem        a value guard of a Device entry fires (distribution parameter, device of an
                      operand differs from the entry's device, invalid operand)
     val_sem          the tensors a reach form (Device kernel, identity, Tensor method) produces
   The structure of device.cc -- "evaluate guards, compute the output shape by the rule (throwing
   when it throws), allocate that shape, run the kernel" -- is the definition of [path_sem]. *)
From Coq Require Import List String Ascii Bool Arith.
From PV Require Import Tables.OpSyntax Tables.OpUtil Tables.OpRows.
Import ListNotations.
Local Open Scope bool_scope.

(* a user-level function: namespace, name, parameter types *)
Definition fkey := (string * string * list string)%type.
Definition fkey_eqb (a b : fkey) : bool :=
  seqb (fst (fst a)) (fst (fst b)) && seqb (snd (fst a)) (snd (fst b)) && strl_eqb (snd a) (snd b).

Inductive mkind := KOp | KThrow.

Record mrow := {
  m_fn : fkey;
  m_conds : conds;
  m_kind : mkind;
  (* Node side *)
  m_argn : count;                (* Operator::num_arguments() of the constructed class *)
  m_nargs : option nat;          (* node arguments in the brace list; None = a vector variable *)
  m_nshape : option ex;          (* FWD_SHAPE ∘ call site *)
  m_fw : reach;                  (* FORWARD ∘ call site *)
  m_swap : bool;                 (* FORWARD reaches the commutative Tensor function with the two operands exchanged *)
  (* Tensor side *)
  m_t : reach;                   (* what this path of the Tensor function reaches *)
  m_guards : list ex;            (* value guards of the Device entry *)
  m_tshape : option ex;          (* its shape rule *)
  m_special : bool;              (* Split, BatchSplit, (Sparse)SoftmaxCrossEntropy: the Tensor function is a composite;
                                    FORWARD / FWD_SHAPE / Tensor bodies are the reviewed ones (Tables/Reviewed.v) and
                                    the two shape expressions are opaque names whose agreement is a hypothesis *)
}.

(* role values: a tensor, a list of tensors (concat), or an attribute *)
Inductive V (X A : Type) := VT (x : X) | VL (l : list X) | VA (a : A).
Arguments VT {X A}. Arguments VL {X A}. Arguments VA {X A}.

Definition vmap {X Y A} (f : X -> Y) (v : V X A) : V Y A :=
  match v with VT x => VT (f x) | VL l => VL (map f l) | VA a => VA a end.

Inductive err := EShape | EGuard | EThrow | EArity | ENoRow | ERef.
Inductive res (X : Type) := Ok (x : X) | Err (e : err).
Arguments Ok {X}. Arguments Err {X}.

Definition role_index (e : ex) : option nat :=
  match e with
  | Id (String c r) => if Ascii.eqb c "$"%char then nat_of_str r else None
  | Call g [Id (String c r)] => if seqb g "ptrs_of" && Ascii.eqb c "$"%char then nat_of_str r else None
  | _ => None
  end.

Fixpoint permute {B} (args : list ex) (env : list B) : option (list B) :=
  match args with
  | [] => Some []
  | a :: r => match role_index a, permute r env with
              | Some i, Some l => match nth_error env i with Some v => Some (v :: l) | None => None end
              | _, _ => None
              end
  end.

Fixpoint optnatl_eqb (a b : list (option nat)) : bool :=
  match a, b with
  | [], [] => true
  | Some x :: a', Some y :: b' => Nat.eqb x y && optnatl_eqb a' b'
  | _, _ => false
  end.

Definition arity_pass (argn : count) (nargs : option nat) : bool :=
  match argn, nargs with
  | CNum n, Some k => Nat.eqb n k
  | CNonzero, Some k => negb (Nat.eqb k 0)
  | CNonzero, None => true        (* the path condition of such a row says the list is not empty (arity_row_ok) *)
  | CAny, _ => true
  | _, _ => false
  end.

Section Api.
  Variables T Sh Attr : Type.
  Variable shape_of : T -> Sh.
  Variable cond_sem : ex -> list (V Sh Attr) -> bool.
  Variable shape_sem : ex -> list (V Sh Attr) -> option (list Sh).
  Variable guard_sem : ex -> list (V T Attr) -> bool.
  Variable val_sem : reach -> list (V T Attr) -> list T.

  Variable table : list mrow.

  Definition shapes (env : list (V T Attr)) : list (V Sh Attr) := map (vmap shape_of) env.

  Definition conds_hold (cs : conds) (senv : list (V Sh Attr)) : bool :=
    forallb (fun c => Bool.eqb (cond_sem (fst c) senv) (snd c)) cs.

  (* the row of function k whose path condition holds (first match, as if/else-if/else) *)
  Definition select (k : fkey) (senv : list (V Sh Attr)) : option mrow :=
    find (fun r => fkey_eqb (m_fn r) k && Nat.eqb (List.length (snd k)) (List.length senv) && conds_hold (m_conds r) senv) table.

  (* ---- Tensor (eager) API: what a selected path does (the structure of device.cc) *)
  Definition path_sem (r : mrow) (env : list (V T Attr)) : res (list T) :=
    match m_kind r with
    | KThrow => Err EThrow
    | KOp =>
        if existsb (fun g => guard_sem g env) (m_guards r) then Err EGuard
        else match m_tshape r with
             | None => Err EShape
             | Some se => match shape_sem se (shapes env) with
                          | None => Err EShape
                          | Some _ => Ok (val_sem (m_t r) env)
                          end
             end
    end.

  Definition eager_call (k : fkey) (env : list (V T Attr)) : res (list T) :=
    match select k (shapes env) with
    | None => Err ENoRow
    | Some r => path_sem r env
    end.

  (* ---- Node (lazy) API *)
  (* creation = Graph::add_operator: argument count against num_arguments(), then forward_shape *)
  Definition node_create (k : fkey) (senv : list (V Sh Attr)) : res (list Sh) :=
    match select k senv with
    | None => Err ENoRow
    | Some r =>
        match m_kind r with
        | KThrow => Err EThrow
        | KOp =>
            if negb (arity_pass (m_argn r) (m_nargs r)) then Err EArity
            else match m_nshape r with
                 | None => Err EShape
                 | Some se => match shape_sem se senv with
                              | None => Err EShape
                              | Some ss => Ok ss
                              end
                 end
        end
    end.

  (* evaluation = Operator::forward of the row selected at creation, on the argument values *)
  Definition fw_sem (r : mrow) (env : list (V T Attr)) : res (list T) :=
    match m_fw r with
    | RFun ns name tys args =>
        match permute args env with
        | Some env' => eager_call (ns, name, tys) env'
        | None => Err ENoRow
        end
    | f => if reach_eqb f (m_t r) then path_sem r env else Err ENoRow
    end.

  Definition node_eval (k : fkey) (env : list (V T Attr)) : res (list T) :=
    match select k (shapes env) with     (* the static shapes are the shapes of the values (invariant) *)
    | None => Err ENoRow
    | Some r => match m_kind r with KThrow => Err EThrow | KOp => fw_sem r env end
    end.

  (* ---- programs: a list of calls whose arguments are earlier results or attribute values *)
  Inductive arg := ARef (i j : nat) | ARefs (l : list (nat * nat)) | AAttr (a : Attr).
  Record call := { c_fn : fkey; c_args : list arg }.

  Definition lookup {X} (st : list (list X)) (ij : nat * nat) : option X :=
    match nth_error st (fst ij) with Some l => nth_error l (snd ij) | None => None end.

  Fixpoint lookups {X} (st : list (list X)) (l : list (nat * nat)) : option (list X) :=
    match l with
    | [] => Some []
    | ij :: r => match lookup st ij, lookups st r with
                 | Some x, Some xs => Some (x :: xs) | _, _ => None end
    end.

  Fixpoint args_env {X} (st : list (list X)) (a : list arg) : option (list (V X Attr)) :=
    match a with
    | [] => Some []
    | x :: r =>
        match (match x with
               | ARef i j => option_map VT (lookup st (i, j))
               | ARefs l => option_map VL (lookups st l)
               | AAttr v => Some (VA v)
               end), args_env st r with
        | Some v, Some vs => Some (v :: vs)
        | _, _ => None
        end
    end.

  (* run a program with a per-call step; the state is the list of result lists so far.
     Returns the final state or the index of the first failing call with its error. *)
  Fixpoint run {X} (step : fkey -> list (V X Attr) -> res (list X)) (p : list call) (st : list (list X)) (n : nat)
    : list (list X) + (nat * err) :=
    match p with
    | [] => inl st
    | c :: p' =>
        match args_env st (c_args c) with
        | None => inr (n, ERef)
        | Some env => match step (c_fn c) env with
                      | Ok xs => run step p' (st ++ [xs]) (S n)
                      | Err e => inr (n, e)
                      end
        end
    end.

  Definition eager_run (p : list call) := run eager_call p [] 0.
  Definition node_create_run (p : list call) := run node_create p [] 0.
  Definition node_eval_run (p : list call) := run node_eval p [] 0.

  (* ---- the three table facts, as booleans on a row *)
  Definition self_reach (r : mrow) : reach :=
    let '(ns, name, tys) := m_fn r in RFun ns name tys (map role (seq 0 (List.length tys))).

  Definition m_arity_ok (r : mrow) : bool :=
    match m_kind r with KThrow => true | KOp => arity_pass (m_argn r) (m_nargs r) end.

  (* FORWARD∘call-site is the Tensor function itself on the roles in order (or exchanged, for a
     commutative one), or exactly what the Tensor function's path reaches *)
  Definition m_deleg_ok (r : mrow) : bool :=
    match m_kind r with
    | KThrow => true
    | KOp =>
        match m_fw r with
        | RFun ns name tys args =>
            fkey_eqb (ns, name, tys) (m_fn r) &&
            optnatl_eqb (map role_index args)
                        (if m_swap r then [Some 1; Some 0] else map Some (seq 0 (List.length tys))) &&
            (if m_swap r then Nat.eqb (List.length tys) 2 else true)
        | f => reach_eqb f (m_t r) && negb (m_swap r)
        end
    end.

  Definition m_shape_ok (r : mrow) : bool :=
    match m_kind r with
    | KThrow => true
    | KOp => match m_nshape r, m_tshape r with
             | Some a, Some b => m_special r || ex_eqb a b
             | _, _ => false end
    end.

  Definition table_ok : bool :=
    forallb m_arity_ok table && forallb m_deleg_ok table && forallb m_shape_ok table.
End Api.

Arguments ARef {Attr}.
Arguments ARefs {Attr}.
Arguments AAttr {Attr}.
