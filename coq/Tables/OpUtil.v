(* Utilities over the syntax of Tables/OpSyntax.v: equality, rewriting, return paths.
   Executable definitions only (tables engine, property C04). *)
From Coq Require Import List String Ascii Bool Arith.
From PV Require Import Tables.OpSyntax.
Import ListNotations.
Local Open Scope string_scope.

Definition seqb := String.eqb.

Fixpoint ex_eqb (a b : ex) {struct a} : bool :=
  let fix l_eqb (x y : list ex) {struct x} : bool :=
    match x, y with
    | [], [] => true
    | p :: x', q :: y' => ex_eqb p q && l_eqb x' y'
    | _, _ => false
    end in
  match a, b with
  | Id s, Id t => seqb s t
  | Lit s, Lit t => seqb s t
  | Call f x, Call g y => seqb f g && l_eqb x y
  | Meth r m x, Meth r' m' y => ex_eqb r r' && seqb m m' && l_eqb x y
  | Idx p i, Idx q j => ex_eqb p q && ex_eqb i j
  | Deref p, Deref q => ex_eqb p q
  | Un o p, Un o' q => seqb o o' && ex_eqb p q
  | Bin o p1 p2, Bin o' q1 q2 => seqb o o' && ex_eqb p1 q1 && ex_eqb p2 q2
  | Cond c p1 p2, Cond c' q1 q2 => ex_eqb c c' && ex_eqb p1 q1 && ex_eqb p2 q2
  | Brace x, Brace y => l_eqb x y
  | New c x, New c' y => seqb c c' && l_eqb x y
  | Other _, Other _ => false        (* unparsed text is equal to nothing *)
  | _, _ => false
  end.

Fixpoint exl_eqb (x y : list ex) : bool :=
  match x, y with
  | [], [] => true
  | p :: x', q :: y' => ex_eqb p q && exl_eqb x' y'
  | _, _ => false
  end.

Fixpoint strl_eqb (x y : list string) : bool :=
  match x, y with
  | [], [] => true
  | p :: x', q :: y' => seqb p q && strl_eqb x' y'
  | _, _ => false
  end.

Definition cond_eqb (a b : ex * bool) : bool := ex_eqb (fst a) (fst b) && Bool.eqb (snd a) (snd b).

Fixpoint condl_eqb (x y : list (ex * bool)) : bool :=
  match x, y with
  | [], [] => true
  | p :: x', q :: y' => cond_eqb p q && condl_eqb x' y'
  | _, _ => false
  end.

(* top-down rewriting: where [f e = Some e'] the node is replaced (no recursion below it) *)
Fixpoint rw (f : ex -> option ex) (e : ex) : ex :=
  match f e with
  | Some e' => e'
  | None =>
    match e with
    | Call g a => Call g (map (rw f) a)
    | Meth r m a => Meth (rw f r) m (map (rw f) a)
    | Idx a i => Idx (rw f a) (rw f i)
    | Deref a => Deref (rw f a)
    | Un o a => Un o (rw f a)
    | Bin o a b => Bin o (rw f a) (rw f b)
    | Cond c a b => Cond (rw f c) (rw f a) (rw f b)
    | Brace l => Brace (map (rw f) l)
    | New c a => New c (map (rw f) a)
    | _ => e
    end
  end.

(* does a sub-expression satisfy p? *)
Fixpoint ex_any (p : ex -> bool) (e : ex) : bool :=
  p e ||
  match e with
  | Call _ a => existsb (ex_any p) a
  | Meth r _ a => ex_any p r || existsb (ex_any p) a
  | Idx a i => ex_any p a || ex_any p i
  | Deref a => ex_any p a
  | Un _ a => ex_any p a
  | Bin _ a b => ex_any p a || ex_any p b
  | Cond c a b => ex_any p c || ex_any p a || ex_any p b
  | Brace l => existsb (ex_any p) l
  | New _ a => existsb (ex_any p) a
  | _ => false
  end.

Definition is_other (e : ex) : bool := match e with Other _ => true | _ => false end.
Definition ex_clean (e : ex) : bool := negb (ex_any is_other e).

(* substitution of identifiers *)
Definition subst_ids (env : string -> option ex) (e : ex) : ex :=
  rw (fun x => match x with Id s => env s | _ => None end) e.

Fixpoint assoc {B} (k : string) (l : list (string * B)) : option B :=
  match l with
  | [] => None
  | (k', v) :: r => if seqb k k' then Some v else assoc k r
  end.

(* decimal strings *)
Definition digit_of (c : ascii) : option nat :=
  let n := nat_of_ascii c in if (Nat.leb 48 n && Nat.leb n 57)%bool then Some (n - 48)%nat else None.

Fixpoint nat_of_str_aux (s : string) (acc : nat) : option nat :=
  match s with
  | EmptyString => Some acc
  | String c r => match digit_of c with Some d => nat_of_str_aux r (10 * acc + d)%nat | None => None end
  end.

Definition nat_of_str (s : string) : option nat :=
  match s with EmptyString => None | _ => nat_of_str_aux s 0 end.

Definition digit_str (n : nat) : string := String (ascii_of_nat (48 + n)%nat) EmptyString.
Definition nat_str (n : nat) : string :=
  if Nat.ltb n 10 then digit_str n else (digit_str (Nat.div n 10) ++ digit_str (Nat.modulo n 10)).

Definition role (i : nat) : ex := Id ("$" ++ nat_str i).

(* return paths of a body made of if / return / throw *)
Inductive outcome := ORet (e : ex) | OThrow | OFall | OBad.

Definition conds := list (ex * bool).

Fixpoint paths (fuel : nat) (ss : list st) (cs : conds) : list (conds * outcome) :=
  match fuel with
  | O => [(cs, OBad)]
  | S fuel' =>
    match ss with
    | [] => [(cs, OFall)]
    | SRet e :: _ => [(cs, ORet e)]
    | SThrow :: _ => [(cs, OThrow)]
    | SIf c t e :: rest =>
        let pt := paths fuel' t (cs ++ [(c, true)])%list in
        let pe := paths fuel' e (cs ++ [(c, false)])%list in
        flat_map (fun p => match snd p with
                           | OFall => paths fuel' rest (fst p)
                           | _ => [p]
                           end) (pt ++ pe)%list
    | _ :: _ => [(cs, OBad)]
    end
  end.

Definition func_paths (f : func) : list (conds * outcome) := paths 40 (f_body f) [].

Definition names (ps : list param) : list string := map p_name ps.
Definition types (ps : list param) : list string := map p_ty ps.

Fixpoint index_of (s : string) (l : list string) (i : nat) : option nat :=
  match l with
  | [] => None
  | x :: r => if seqb s x then Some i else index_of s r (S i)
  end.

(* rename the parameters of a function to the positional roles $0 $1 ... *)
Definition canon (ps : list param) (e : ex) : ex :=
  subst_ids (fun s => match index_of s (names ps) 0 with Some i => Some (role i) | None => None end) e.

Definition canon_conds (ps : list param) (cs : conds) : conds :=
  map (fun c => (canon ps (fst c), snd c)) cs.

(* instantiate formals by actuals *)
Fixpoint zip_env (ns : list string) (a : list ex) : list (string * ex) :=
  match ns, a with
  | n :: ns', x :: a' => (n, x) :: zip_env ns' a'
  | _, _ => []
  end.

Definition inst_formals (ps : list param) (actuals : list ex) (e : ex) : ex :=
  let env := zip_env (names ps) actuals in subst_ids (fun s => assoc s env) e.

Definition prefixb (p s : string) : bool := String.prefix p s.

Fixpoint drop_str (n : nat) (s : string) : string :=
  match n, s with
  | S n', String _ r => drop_str n' r
  | _, _ => s
  end.

Definition strip_prefix (p s : string) : string :=
  if prefixb p s then drop_str (String.length p) s else s.

(* "name<Tag>" -> ("name", "Tag") *)
Fixpoint split_tag_aux (s : string) (acc : string) : string * string :=
  match s with
  | EmptyString => (acc, "")
  | String c r => if Ascii.eqb c "<"%char then (acc, r) else split_tag_aux r (acc ++ String c EmptyString)
  end.
Definition base_name (s : string) : string := fst (split_tag_aux s "").
Definition tag_of (s : string) : string := snd (split_tag_aux s "").

Fixpoint string_rev_aux (s acc : string) : string :=
  match s with
  | EmptyString => acc
  | String c r => string_rev_aux r (String c acc)
  end.
Definition string_rev (s : string) : string := string_rev_aux s EmptyString.

Definition suffixb (suf s : string) : bool := prefixb (string_rev suf) (string_rev s).
Definition strip_suffix (suf s : string) : string :=
  if suffixb suf s then string_rev (drop_str (String.length suf) (string_rev s)) else s.
