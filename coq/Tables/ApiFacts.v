(* The model theorems of property C04 at the table computed from the regenerated sources
   (Tables/ApiTable.v), and a concrete instance of the abstract semantics showing that their
   hypotheses are satisfiable (used by the non-vacuity examples of Props/Properties_C04.v). *)
From Coq Require Import List String Bool Arith.
From PV Require Import Tables.OpSyntax Tables.OpUtil Tables.OpRows Tables.OpCheck Tables.ApiModel
     Tables.ApiProofs Tables.ApiTable Tables.OpFacts.
Import ListNotations.

Section Inst.
  Variables T Sh Attr : Type.
  Variable shape_of : T -> Sh.
  Variable cond_sem : ex -> list (V Sh Attr) -> bool.
  Variable shape_sem : ex -> list (V Sh Attr) -> option (list Sh).
  Variable guard_sem : ex -> list (V T Attr) -> bool.
  Variable val_sem : reach -> list (V T Attr) -> list T.

  Definition eager := eager_run T Sh Attr shape_of cond_sem shape_sem guard_sem val_sem api_table.
  Definition create := node_create_run Sh Attr cond_sem shape_sem api_table.
  Definition evaluate := node_eval_run T Sh Attr shape_of cond_sem shape_sem guard_sem val_sem api_table.

  (* device.cc: the tensor(s) a Device entry returns have the shape its rule computed *)
  Definition kernels_follow_rules : Prop :=
    forall r env se ss, In r api_table -> m_tshape r = Some se ->
      shape_sem se (shapes T Sh Attr shape_of env) = Some ss -> map shape_of (val_sem (m_t r) env) = ss.

  (* Split, BatchSplit, SoftmaxCrossEntropy, SparseSoftmaxCrossEntropy: FWD_SHAPE(op) computes
     the shape of (and throws exactly when) the composite Tensor function (reviewed bodies,
     Tables/Reviewed.v; tied to the code by the two-API sweep of harness/api_row_drv.cc) *)
  Definition composite_shapes_agree : Prop :=
    forall r a b senv, In r api_table -> m_special r = true -> m_nshape r = Some a -> m_tshape r = Some b ->
      shape_sem a senv = shape_sem b senv.

  (* add(a, b) / multiply(a, b) with a scalar first operand are evaluated as f(b, a) *)
  Definition commutative_ok : Prop :=
    forall r x y, In r api_table -> m_swap r = true ->
      eager_call T Sh Attr shape_of cond_sem shape_sem guard_sem val_sem api_table (m_fn r) [y; x] =
      eager_call T Sh Attr shape_of cond_sem shape_sem guard_sem val_sem api_table (m_fn r) [x; y].

  Theorem node_value_eq_tensor_value : commutative_ok -> forall p, evaluate p = eager p.
  Proof. intros Hc p. exact (node_values_are_tensor_values _ _ _ _ _ _ _ _ _ api_table_facts Hc p). Qed.

  Theorem node_shape_sound : kernels_follow_rules -> composite_shapes_agree ->
    forall p res, eager p = inl res -> create p = inl (map (map shape_of) res).
  Proof.
    intros Hk Hs p res H.
    exact (create_run_ok _ _ _ _ _ _ _ _ _ api_table_facts Hk Hs p [] 0 res H).
  Qed.

  Theorem same_calls_rejected : kernels_follow_rules -> composite_shapes_agree -> commutative_ok ->
    forall p,
      (* accepted by the Tensor API -> accepted by the Node API, same shapes, same values *)
      (forall res, eager p = inl res -> create p = inl (map (map shape_of) res) /\ evaluate p = inl res) /\
      (* a Tensor error other than a deferred one (device mismatch, distribution parameter, invalid
         operand) is reported when that very node is created *)
      (forall m e, eager p = inr (m, e) -> e <> EGuard -> exists e', create p = inr (m, e')) /\
      (* every Tensor error, deferred ones included, is reported by evaluation at the latest *)
      (forall m e, eager p = inr (m, e) -> evaluate p = inr (m, e)) /\
      (* the Node API rejects nothing the Tensor API accepts *)
      (forall m e, create p = inr (m, e) ->
         exists m' e', eager p = inr (m', e') /\ m' <= m /\ (m' < m -> e' = EGuard)).
  Proof.
    intros Hk Hs Hc p. repeat split.
    - exact (create_run_ok _ _ _ _ _ _ _ _ _ api_table_facts Hk Hs p [] 0 res H).
    - rewrite (node_value_eq_tensor_value Hc p). exact H.
    - intros m e H Hne. exact (create_run_err _ _ _ _ _ _ _ _ _ api_table_facts Hk Hs p [] 0 m e H Hne).
    - intros m e H. rewrite (node_value_eq_tensor_value Hc p). exact H.
    - intros m e H. exact (create_run_conv _ _ _ _ _ _ _ _ _ api_table_facts Hk Hs p [] 0 m e H).
  Qed.
End Inst.

(* ---- a concrete instance: tensors are numbers and their own shape, every rule returns one
   shape, every kernel returns the number of roles of the call, no guard fires, no condition
   holds (so add / subtract / ... take their third path) *)
Definition toy_cond (e : ex) (senv : list (V nat nat)) : bool := false.
Definition toy_shape (e : ex) (senv : list (V nat nat)) : option (list nat) := Some [List.length senv].
Definition toy_guard (e : ex) (env : list (V nat nat)) : bool := false.
Definition toy_val (r : reach) (env : list (V nat nat)) : list nat := [List.length env].

Lemma toy_kernels : kernels_follow_rules nat nat nat (fun x => x) toy_shape toy_val.
Proof.
  intros r env se ss _ _ H. unfold toy_shape in H. injection H as <-.
  unfold toy_val, shapes. rewrite map_length. reflexivity.
Qed.

Lemma toy_composite : composite_shapes_agree nat nat toy_shape.
Proof. intros r a b senv _ _ _ _. reflexivity. Qed.

Lemma toy_eager_len (table : list mrow) k env env' : List.length env = List.length env' ->
  eager_call nat nat nat (fun x => x) toy_cond toy_shape toy_guard toy_val table k env =
  eager_call nat nat nat (fun x => x) toy_cond toy_shape toy_guard toy_val table k env'.
Proof.
  intros L. unfold eager_call, select, path_sem, shapes, conds_hold, toy_cond, toy_shape, toy_guard, toy_val.
  rewrite !map_length, L. reflexivity.
Qed.

Lemma toy_commutative : commutative_ok nat nat nat (fun x => x) toy_cond toy_shape toy_guard toy_val.
Proof. intros r x y _ _. apply toy_eager_len. reflexivity. Qed.

Local Open Scope string_scope.
Definition k_input : fkey := ("functions", "input_tensor", ["Shape"; "vec<float>"; "Device*"]).
Definition k_add : fkey := ("functions", "add", ["X"; "X"]).
Definition k_sub : fkey := ("functions", "subtract", ["X"; "X"]).
Definition k_split : fkey := ("functions", "split", ["X"; "u32"; "u32"]).
Definition k_concat : fkey := ("functions", "concat<X>", ["vec<X*>"; "u32"]).

Definition toy_prog : list (call nat) :=
  [ {| c_fn := k_input; c_args := [AAttr 7; AAttr 8; AAttr 0] |};
    {| c_fn := k_input; c_args := [AAttr 7; AAttr 9; AAttr 0] |};
    {| c_fn := k_add; c_args := [ARef 0 0; ARef 1 0] |};
    {| c_fn := k_sub; c_args := [ARef 2 0; ARef 0 0] |};
    {| c_fn := k_split; c_args := [ARef 3 0; AAttr 0; AAttr 1] |};
    {| c_fn := k_concat; c_args := [ARefs [(4, 0); (2, 0)]; AAttr 0] |} ].

(* a call with the wrong number of arguments is rejected by both *)
Definition toy_bad_prog : list (call nat) :=
  [ {| c_fn := k_input; c_args := [AAttr 7; AAttr 8; AAttr 0] |};
    {| c_fn := k_add; c_args := [ARef 0 0] |} ].
