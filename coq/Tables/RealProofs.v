(* The hypotheses of the abstract API model (Tables/ApiFacts.v: kernels_follow_rules,
   composite_shapes_agree, commutative_ok) DISCHARGED for the real instance of Tables/RealSem.v
   (tables engine, property C04):
     real_rows_ok_true     (vm_compute over the regenerated table) every row's shape expression
                           compiles to the rule Tensor/FrontEnd.v transcribes for the Device entry
                           the row reaches; special rows name the class of their signature; guards
                           of the transcribed entries are the transcribed ones; add / multiply are
                           the only functions evaluated with exchanged operands
     real_kernels          kernels_follow_rules
     real_composite        composite_shapes_agree (from Tables/CompositeProofs.v)
     real_commutative      commutative_ok, for scalars whose + and * commute
     real_entries_are_frontend   running the rule of an entry = the fe_*_fw function of
                           Tensor/FrontEnd.v on the entry's arguments (guards included)
     real_reachable_wf     every tensor a program computes has a well-formed shape (so the
                           operand check [wfb] of the instance never fires on computed tensors) *)
From Coq Require Import List String Ascii Bool Arith NArith ZArith Lia.
From PV Require Import Base.U32 Shape.ShapeImpl Shape.ShapeSpec Shape.ShapeLemmas Shape.ShapeProofs Shape.ShapeRules.
From PV Require Import Tensor.Kernels Tensor.FrontEnd Tensor.ProofsBilinear Tensor.AdjCore Tensor.AdjScalar Tensor.GraphInst.
From PV Require Import Tables.OpSyntax Tables.OpUtil Tables.OpRows Tables.ApiModel Tables.ApiProofs Tables.ApiTable
  Tables.ApiFacts Tables.CompositeShapes Tables.CompositeProofs Tables.RealSem.
Import ListNotations.
Local Open Scope string_scope.
Local Open Scope bool_scope.
Notation wf := ShapeSpec.wf.

(* ------------------------------------------------------------------ the boolean invariant *)
Lemma wfb_spec s : wfb s = true <-> wf s.
Proof.
  unfold wfb. rewrite !andb_true_iff, Nat.leb_le, forallb_forall, list_eqb_spec, !N.ltb_lt, N.eqb_eq. split.
  - intros [[[[[H1 H2] H3] H4] H5] H6]. constructor; auto.
    apply Forall_forall. intros d Hd. apply N.ltb_lt. apply H2. exact Hd.
  - intros [H1 H2 H3 H4 H5 H6]. repeat split; auto.
    intros d Hd. apply N.ltb_lt. rewrite Forall_forall in H2. apply H2. exact Hd.
Qed.

Lemma u32_wrap32 n : u32 (wrap32 n).
Proof. apply wrap32_lt. Qed.
Lemma Forall_u32_wrap32 l : Forall u32 (map wrap32 l).
Proof. apply Forall_forall. intros x Hx. apply in_map_iff in Hx. destruct Hx as (y & <- & _). apply u32_wrap32. Qed.
Lemma forallb_wfb l : forallb wfb l = true -> Forall wf l.
Proof. intro H. apply Forall_forall. intros s Hs. apply wfb_spec. rewrite forallb_forall in H. apply H. exact Hs. Qed.

(* ------------------------------------------------------------------ the finite check over the regenerated table *)
Lemma rows_b : forallb row_ok api_table = true.
Proof. vm_cast_no_check (eq_refl true). Qed.
Lemma swap_b : forallb swap_row_ok api_table = true.
Proof. vm_cast_no_check (eq_refl true). Qed.
Lemma real_rows_ok_true : real_rows_ok = true.
Proof. unfold real_rows_ok, swap_rows_ok. rewrite rows_b, swap_b. reflexivity. Qed.

Lemma bad_real_rows_nil : bad_real_rows = [].
Proof. vm_cast_no_check (eq_refl (@nil (string * string))). Qed.

Lemma row_ok_in r : In r api_table -> row_ok r = true.
Proof. exact (proj1 (forallb_forall row_ok api_table) rows_b r). Qed.
Lemma swap_in r : In r api_table -> swap_row_ok r = true.
Proof. exact (proj1 (forallb_forall swap_row_ok api_table) swap_b r). Qed.

(* ------------------------------------------------------------------ soundness of the rule equality *)
Lemma rname_eqb_sound a b : rname_eqb a b = true -> a = b.
Proof.
  unfold rname_eqb. intro H. apply Nat.eqb_eq in H.
  destruct a; cbn [rname_code] in H; destruct b; cbn [rname_code] in H; try reflexivity; discriminate H.
Qed.
Lemma leaf_eqb_sound a b : leaf_eqb a b = true -> a = b.
Proof.
  destruct a, b; cbn [leaf_eqb]; intro H; try discriminate H;
    try (apply Nat.eqb_eq in H; subst; reflexivity). apply N.eqb_eq in H. subst. reflexivity.
Qed.
Lemma leafl_eqb_sound : forall a b, leafl_eqb a b = true -> a = b.
Proof.
  induction a as [|x a IH]; destruct b as [|y b]; cbn [leafl_eqb]; intro H; try discriminate H; [reflexivity|].
  apply andb_true_iff in H. destruct H as [H1 H2]. apply leaf_eqb_sound in H1. apply IH in H2. subst. reflexivity.
Qed.
Lemma srule_eqb_sound a b : srule_eqb a b = true -> a = b.
Proof.
  destruct a as [ra la], b as [rb lb]. unfold srule_eqb. cbn [fst snd]. intro H.
  apply andb_true_iff in H. destruct H as [H1 H2]. apply rname_eqb_sound in H1. apply leafl_eqb_sound in H2. subst. reflexivity.
Qed.

Section Real.
  Context {R : Type}.
  Variables (rO rI : R) (radd rmul rsub : R -> R -> R) (ropp : R -> R).
  Variables (fle flt : R -> R -> bool) (ffin : R -> bool).
  Variable other : reach -> @tenv R -> list shape -> list (list R).

  Notation attr := (@attr R).
  Notation tensor := (@tensor R).
  Notation rval := (real_val rO radd rmul rsub ropp other).
  Notation rguard := (real_guard rO rI rsub fle flt ffin).
  Notation rshape := (@real_shape R).
  Notation rcond := (@real_cond R).
  Notation shp := (shapes tensor shape attr tn_shape).

  Lemma mk_results_shapes ss (ds : list (list R)) : map (@tn_shape R) (mk_results ss ds) = ss.
  Proof.
    unfold mk_results. rewrite map_map. cbn [tn_shape].
    generalize 0%nat. induction ss as [|x l IH]; intro k; cbn [List.length seq combine map snd]; [reflexivity|].
    rewrite IH. reflexivity.
  Qed.

  (* ---------------------------------------------------------------- kernels_follow_rules *)
  Theorem real_kernels : kernels_follow_rules tensor shape attr tn_shape rshape rval.
  Proof.
    intros r env se ss Hin Hts Hsh.
    pose proof (row_ok_in r Hin) as Hok. unfold row_ok in Hok. rewrite !andb_true_iff in Hok.
    destruct Hok as [[[[Ht _] _] _] _]. unfold row_tied in Ht. rewrite Hts in Ht.
    unfold real_shape in Hsh.
    destruct (compile se) as [c|]; [|discriminate Ht].
    unfold real_val. destruct (reach_rule (m_t r)) as [c'|]; [|discriminate Ht].
    apply srule_eqb_sound in Ht. subst c'.
    change (shapes tensor shape attr tn_shape env) with (shp env) in Hsh. rewrite Hsh.
    apply mk_results_shapes.
  Qed.

  (* ---------------------------------------------------------------- composite_shapes_agree *)
  Lemma rep_eq n (o : option shape) : rep n o = option_map (fun s => repeat s (N.to_nat n)) o.
  Proof. reflexivity. Qed.

  Lemma split_fam_agree (e : @senv R) : fwd_split_fam e = comp_split_fam e.
  Proof.
    destruct e as [|[x|l|a] e]; try reflexivity.
    destruct e as [|[y|l|[f|d|z|us|fs|ds b|dv]] e]; try reflexivity.
    destruct e as [|[y|l|[f|n|z|us|fs|ds b|dv]] e]; try reflexivity.
    - (* batch::split *) cbn [fwd_split_fam comp_split_fam]. destruct (wfb x) eqn:Hx; [|reflexivity].
      apply wfb_spec in Hx. rewrite (batch_split_agree x (wrap32 d) Hx (u32_wrap32 d)). reflexivity.
    - destruct e as [|v e]; try reflexivity.
      cbn [fwd_split_fam comp_split_fam]. destruct (wfb x) eqn:Hx; [|reflexivity].
      apply wfb_spec in Hx. rewrite (split_agree x (wrap32 d) (wrap32 n) Hx (u32_wrap32 d) (u32_wrap32 n)). reflexivity.
  Qed.

  Lemma sce_fam_agree (e : @senv R) : fwd_sce_fam e = comp_sce_fam e.
  Proof.
    destruct e as [|[x|l|a] e]; try reflexivity.
    destruct e as [|[t|l|[f|d|z|us|fs|ds b|dv]] e]; try reflexivity.
    - (* dense *)
      destruct e as [|[y|l|[f|d|z|us|fs|ds b|dv]] e]; try reflexivity.
      destruct e as [|v e]; try reflexivity.
      cbn [fwd_sce_fam comp_sce_fam]. destruct (wfb x) eqn:Hx; [|reflexivity]. destruct (wfb t) eqn:Ht; [|reflexivity].
      cbn [andb]. apply wfb_spec in Hx. apply wfb_spec in Ht.
      rewrite (sce_dense_agree x t (wrap32 d) Hx Ht (u32_wrap32 d)). reflexivity.
    - (* sparse *)
      destruct e as [|[y|l|[f|d|z|us2|fs|ds b|dv]] e]; try reflexivity.
      destruct e as [|v e]; try reflexivity.
      cbn [fwd_sce_fam comp_sce_fam]. destruct (wfb x) eqn:Hx; [|reflexivity].
      destruct (N.ltb_spec (N.of_nat (List.length us)) P32) as [Hl|Hl]; [|reflexivity].
      cbn [andb]. apply wfb_spec in Hx.
      rewrite (sce_sparse_agree x (map wrap32 us) (wrap32 d) Hx (Forall_u32_wrap32 us)); [reflexivity| |apply u32_wrap32].
      rewrite map_length. exact Hl.
  Qed.

  Theorem real_composite : composite_shapes_agree shape attr rshape.
  Proof.
    intros r a b e Hin Hsp Ha Hb.
    pose proof (row_ok_in r Hin) as Hok. unfold row_ok in Hok. rewrite !andb_true_iff in Hok.
    destruct Hok as [[[[_ _] Hp] _] _]. unfold special_pair_ok in Hp. rewrite Hsp, Ha, Hb in Hp. cbn [negb orb] in Hp.
    unfold real_shape.
    destruct (compile a) as [[ra la]|]; [|discriminate Hp].
    destruct (compile b) as [[rb lb]|]; [|destruct ra; try discriminate Hp; destruct la; discriminate Hp].
    destruct ra; try discriminate Hp; destruct la; try discriminate Hp; destruct rb; try discriminate Hp;
      destruct lb; try discriminate Hp; cbn [run_rule].
    - apply split_fam_agree.
    - apply sce_fam_agree.
  Qed.

  (* ---------------------------------------------------------------- commutative_ok *)
  Hypothesis radd_comm : forall x y : R, radd x y = radd y x.
  Hypothesis rmul_comm : forall x y : R, rmul x y = rmul y x.

  Lemma mfm {A B C} (F F' : B -> C) (G G' : A -> list B) l :
    (forall a, map F (G a) = map F' (G' a)) -> map F (flat_map G l) = map F' (flat_map G' l).
  Proof. intro H. induction l as [|a l IH]; cbn [flat_map map]; [reflexivity|]. rewrite !map_app, IH, H. reflexivity. Qed.

  (* the elementwise kernel program with the operands exchanged reads the same cells *)
  Lemma ab_eval_swap (f : R -> R -> R) (sa sb sy : tshape) (da db : list R) :
    (forall x y, f x y = f y x) ->
    ab_eval R rO f (ab_fw sb sa sy) db da = ab_eval R rO f (ab_fw sa sb sy) da db.
  Proof.
    intro Hf. unfold ab_eval, ab_fw, flat_map2. apply mfm. intro b. rewrite !map_map. apply map_ext. intro i.
    cbn [fst snd]. apply Hf.
  Qed.

  (* both operands scalars: the scalar-broadcast program is symmetric *)
  Lemma sc_eval_swap (f : R -> R -> R) (sx sk sy : tshape) (dx dk : list R) :
    (forall x y, f x y = f y x) -> tvolume sx = 1%nat -> tvolume sk = 1%nat -> tvolume sy = 1%nat ->
    ab_eval R rO f (scalar_fw sk sx sy) dk dx = ab_eval R rO f (scalar_fw sx sk sy) dx dk.
  Proof.
    intros Hf Hx Hk Hy. unfold ab_eval, scalar_fw, flat_map2. rewrite Hy. apply mfm. intro b.
    cbn [range seq map fst snd]. rewrite !Nat.mul_1_r, !Nat.add_0_r. f_equal. apply Hf.
  Qed.

  Lemma is_scalar_dims x : is_scalar x = true -> dims x = [].
  Proof.
    unfold is_scalar, depth. intro H. apply N.eqb_eq in H. destruct (dims x); [reflexivity|]. cbn [List.length] in H. lia.
  Qed.

  Lemma scalar_op_both x k : wf x -> wf k -> is_scalar x = true -> is_scalar k = true ->
    scalar_op x k = scalar_op k x.
  Proof.
    intros Hx Hk Sx Sk. pose proof (is_scalar_dims x Sx) as Dx. pose proof (is_scalar_dims k Sk) as Dk.
    pose proof (wf_volume _ Hx) as Vx. pose proof (wf_volume _ Hk) as Vk. rewrite Dx in Vx. rewrite Dk in Vk.
    destruct x as [dx bx vx], k as [dk bk vk]. cbn [dims volume] in *. subst dx dk vx vk.
    unfold scalar_op. rewrite Sx, Sk. cbn [negb orb]. unfold has_compatible_batch, resize_batch, update_batch. cbn [batch volume dims].
    rewrite (N.eqb_sym bk bx), (N.max_comm bk bx).
    destruct (bx =? bk)%N, (bx =? 1)%N, (bk =? 1)%N; reflexivity.
  Qed.

  Lemma has_same_dims_sym a b : wf a -> wf b -> has_same_dims a b = has_same_dims b a.
  Proof.
    intros Ha Hb. pose proof (has_same_dims_spec a b Ha Hb) as S1. pose proof (has_same_dims_spec b a Hb Ha) as S2.
    destruct (has_same_dims a b), (has_same_dims b a); try reflexivity.
    - assert (E : false = true) by (apply S2; intro i; symmetry; apply S1; reflexivity). discriminate E.
    - assert (E : false = true) by (apply S1; intro i; symmetry; apply S2; reflexivity). discriminate E.
  Qed.
  Lemma has_compatible_batch_sym a b : has_compatible_batch a b = has_compatible_batch b a.
  Proof.
    unfold has_compatible_batch. rewrite (N.eqb_sym (batch b) (batch a)).
    destruct (batch a =? batch b)%N, (batch a =? 1)%N, (batch b =? 1)%N; reflexivity.
  Qed.

  Lemma elementwise_comm a b : wf a -> wf b -> elementwise a b = elementwise b a.
  Proof.
    intros Ha Hb. unfold elementwise. rewrite (has_same_dims_sym b a Hb Ha), (has_compatible_batch_sym b a).
    destruct (has_same_dims a b) eqn:E; [|reflexivity]. cbn [negb orb].
    destruct (has_compatible_batch a b); [|reflexivity]. cbn [negb].
    assert (Ed : dims a = dims b) by (apply dims_eq_iff_get; auto; apply has_same_dims_spec; auto).
    assert (Ev : volume a = volume b) by (rewrite (wf_volume _ Ha), (wf_volume _ Hb), Ed; reflexivity).
    unfold resize_batch, update_batch. rewrite Ed, Ev, (N.max_comm (batch b) (batch a)). reflexivity.
  Qed.

  Lemma elementwise_dims a b r : wf a -> wf b -> elementwise a b = Some r -> dims a = dims b.
  Proof.
    intros Ha Hb E. unfold elementwise in E. destruct (has_same_dims a b) eqn:S; [|discriminate E].
    apply dims_eq_iff_get; auto. apply has_same_dims_spec; auto.
  Qed.

  Notation fw o := (d_fw (describe rO radd rmul rsub ropp o)).
  Lemma fw_add sa sb da db : fw (OAdd sa sb) [da; db] = [ab_eval R rO radd (ab_fw sa sb (ew_shape sa sb)) da db].
  Proof. reflexivity. Qed.
  Lemma fw_mul sa sb da db : fw (OMul sa sb) [da; db] = [ab_eval R rO rmul (ab_fw sa sb (ew_shape sa sb)) da db].
  Proof. reflexivity. Qed.
  Lemma fw_addsc sx sk dx dk : fw (OAddScalar sx sk) [dx; dk] = [ab_eval R rO radd (scalar_fw sx sk (sc_shape sx sk)) dx dk].
  Proof. reflexivity. Qed.
  Lemma fw_mulsc sx sk dx dk : fw (OMulScalar sx sk) [dx; dk] = [ab_eval R rO rmul (scalar_fw sx sk (sc_shape sx sk)) dx dk].
  Proof. reflexivity. Qed.

  Lemma to_t_scalar x : is_scalar x = true -> tdims (to_t x) = [].
  Proof. intro H. unfold to_t. cbn [tdims]. rewrite (is_scalar_dims x H). reflexivity. Qed.

  Lemma ew_data_comm (f : R -> R -> R) a b r da db : (forall x y, f x y = f y x) ->
    wf a -> wf b -> elementwise a b = Some r ->
    ab_eval R rO f (ab_fw (to_t b) (to_t a) (ew_shape (to_t b) (to_t a))) db da =
    ab_eval R rO f (ab_fw (to_t a) (to_t b) (ew_shape (to_t a) (to_t b))) da db.
  Proof.
    intros Hf Ha Hb E. pose proof (elementwise_dims a b r Ha Hb E) as Ed.
    assert (Es : ew_shape (to_t b) (to_t a) = ew_shape (to_t a) (to_t b)).
    { unfold ew_shape, to_t. cbn [tdims tbatch]. rewrite Ed, Nat.max_comm. reflexivity. }
    rewrite Es. apply ab_eval_swap. exact Hf.
  Qed.

  Lemma sc_data_comm (f : R -> R -> R) a b da db : (forall x y, f x y = f y x) ->
    is_scalar a = true -> is_scalar b = true ->
    ab_eval R rO f (scalar_fw (to_t b) (to_t a) (sc_shape (to_t b) (to_t a))) db da =
    ab_eval R rO f (scalar_fw (to_t a) (to_t b) (sc_shape (to_t a) (to_t b))) da db.
  Proof.
    intros Hf Sa Sb. pose proof (to_t_scalar a Sa) as Da. pose proof (to_t_scalar b Sb) as Db.
    assert (Es : sc_shape (to_t b) (to_t a) = sc_shape (to_t a) (to_t b)).
    { unfold sc_shape. rewrite Da, Db, Nat.max_comm. reflexivity. }
    rewrite Es. apply sc_eval_swap; [exact Hf| | |]; unfold tvolume; try (unfold sc_shape; cbn [tdims]); rewrite ?Da, ?Db; reflexivity.
  Qed.

  Section Select.
    Variables (Sh Attr : Type) (cond_sem : ex -> list (V Sh Attr) -> bool).
    Lemma select_filter (table : list mrow) k (e : list (V Sh Attr)) :
      select Sh Attr cond_sem table k e =
      find (fun r => conds_hold Sh Attr cond_sem (m_conds r) e)
           (filter (fun r => fkey_eqb (m_fn r) k && Nat.eqb (List.length (snd k)) (List.length e)) table).
    Proof.
      unfold select. induction table as [|r t IH]; cbn [find filter]; [reflexivity|].
      destruct (fkey_eqb (m_fn r) k && Nat.eqb (List.length (snd k)) (List.length e)) eqn:E; cbn [andb find].
      - destruct (conds_hold Sh Attr cond_sem (m_conds r) e); [reflexivity|exact IH].
      - exact IH.
    Qed.
  End Select.

  Notation ecall := (eager_call tensor shape attr tn_shape rcond rshape rguard rval api_table).

  Lemma rc0 e : rcond (Meth (Meth (Id "$0") "shape" []) "is_scalar" []) e = run_cond (CScalar 0) e.
  Proof. reflexivity. Qed.
  Lemma rc1 e : rcond (Meth (Meth (Id "$1") "shape" []) "is_scalar" []) e = run_cond (CScalar 1) e.
  Proof. reflexivity. Qed.

  Notation cdata := (core_data rO radd rmul rsub ropp).
  Lemma cd_add a b ss : cdata "add_fw" [VT a; VT b] ss = Some (fw (OAdd (tsh a) (tsh b)) [tn_data a; tn_data b]).
  Proof. reflexivity. Qed.
  Lemma cd_mul a b ss : cdata "multiply_fw" [VT a; VT b] ss = Some (fw (OMul (tsh a) (tsh b)) [tn_data a; tn_data b]).
  Proof. reflexivity. Qed.
  Lemma cd_addsc a b ss : cdata "add_scalar_fw" [VT a; VT b] ss = Some (fw (OAddScalar (tsh a) (tsh b)) [tn_data a; tn_data b]).
  Proof. reflexivity. Qed.
  Lemma cd_mulsc a b ss : cdata "multiply_scalar_fw" [VT a; VT b] ss = Some (fw (OMulScalar (tsh a) (tsh b)) [tn_data a; tn_data b]).
  Proof. reflexivity. Qed.

  Ltac vmc1 h := repeat match goal with |- context [h ?e] =>
    let t := constr:(h e) in let v := eval vm_compute in t in change t with v end.
  Ltac vmc_route := repeat match goal with |- context [@route ?A ?l ?e] =>
    let t := constr:(@route A l e) in let v := eval vm_compute in t in change t with v end.

  Ltac open_paths :=
    unfold path_sem; cbn [m_kind m_guards existsb m_tshape m_t]; unfold real_shape, real_val;
    vmc1 compile; vmc1 reach_rule;
    cbn [run_rule g_shape nth_error shapes map vmap bind CompositeShapes.bind tn_shape].

  Ltac open_data :=
    unfold real_data; vmc1 (@reach_call); cbv beta iota; vmc_route; cbv beta iota;
    rewrite ?cd_add, ?cd_mul, ?cd_addsc, ?cd_mulsc; cbv beta iota.

  Ltac swap_proof :=
    intros a b; unfold eager_call; rewrite !select_filter; cbn [shapes map List.length snd fk_add fk_mul];
    match goal with |- context [filter ?f api_table] =>
      let v := eval vm_compute in (filter f api_table) in
      replace (filter f api_table) with v by (vm_cast_no_check (eq_refl v)) end;
    cbn [find m_conds conds_hold forallb fst snd]; rewrite !rc0, !rc1;
    destruct a as [ta|la|aa], b as [tb|lb|ab]; cbn [run_cond nth_error vmap Bool.eqb andb];
    repeat match goal with |- context [wfb (tn_shape ?t) && is_scalar (tn_shape ?t)] =>
      let E := fresh "E" in destruct (wfb (tn_shape t) && is_scalar (tn_shape t)) eqn:E end;
    cbn [Bool.eqb andb]; open_paths; try reflexivity.

  Ltac fin_trivial :=
    match goal with |- context [wfb (tn_shape ?t)] => destruct (wfb (tn_shape t)); reflexivity end.

  Ltac fin_sc :=
    match goal with
    | E1 : wfb (tn_shape ?ta) && is_scalar (tn_shape ?ta) = true,
      E2 : wfb (tn_shape ?tb) && is_scalar (tn_shape ?tb) = true |- _ =>
        let W1 := fresh "Wa" in let S1 := fresh "Sa" in let W2 := fresh "Wb" in let S2 := fresh "Sb" in
        apply andb_true_iff in E1; destruct E1 as [W1 S1]; apply andb_true_iff in E2; destruct E2 as [W2 S2];
        rewrite W1, W2; cbn [CompositeShapes.bind];
        rewrite (scalar_op_both (tn_shape ta) (tn_shape tb) (proj1 (wfb_spec _) W1) (proj1 (wfb_spec _) W2) S1 S2);
        destruct (scalar_op (tn_shape tb) (tn_shape ta)); cbn [one option_map]; [|reflexivity];
        f_equal; f_equal; open_data; unfold tsh; rewrite ?fw_addsc, ?fw_mulsc; f_equal;
        first [apply (sc_data_comm radd); assumption | apply (sc_data_comm rmul); assumption]
    end.

  Ltac fin_ew :=
    match goal with
    | E1 : wfb (tn_shape ?ta) && is_scalar (tn_shape ?ta) = false,
      E2 : wfb (tn_shape ?tb) && is_scalar (tn_shape ?tb) = false |- _ =>
        let W1 := fresh "Wa" in let W2 := fresh "Wb" in let Ee := fresh "Ee" in
        destruct (wfb (tn_shape ta)) eqn:W1; destruct (wfb (tn_shape tb)) eqn:W2; cbn [CompositeShapes.bind]; try reflexivity;
        pose proof (proj1 (wfb_spec _) W1); pose proof (proj1 (wfb_spec _) W2);
        rewrite (elementwise_comm (tn_shape tb) (tn_shape ta)) by assumption;
        destruct (elementwise (tn_shape ta) (tn_shape tb)) eqn:Ee; cbn [one option_map]; [|reflexivity];
        f_equal; f_equal; open_data; unfold tsh; rewrite ?fw_add, ?fw_mul; f_equal;
        first [eapply (ew_data_comm radd); eassumption | eapply (ew_data_comm rmul); eassumption
              | symmetry; eapply (ew_data_comm radd); eassumption | symmetry; eapply (ew_data_comm rmul); eassumption]
    end.

  Lemma swap_add : forall a b, ecall fk_add [b; a] = ecall fk_add [a; b].
  Proof.
    swap_proof; try fin_trivial.
    - fin_sc.
    - fin_ew.
  Qed.

  Lemma swap_mul : forall a b, ecall fk_mul [b; a] = ecall fk_mul [a; b].
  Proof.
    swap_proof; try fin_trivial.
    - fin_sc.
    - fin_ew.
  Qed.

  Theorem real_commutative : commutative_ok tensor shape attr tn_shape rcond rshape rguard rval.
  Proof.
    intros r x y Hin Hsw.
    pose proof (swap_in r Hin) as H. unfold swap_row_ok in H. rewrite Hsw in H. cbn [negb orb] in H. apply orb_true_iff in H. destruct H as [H|H].
    - apply fkey_eqb_sound in H. rewrite H. apply swap_add.
    - apply fkey_eqb_sound in H. rewrite H. apply swap_mul.
  Qed.

  (* ---------------------------------------------------------------- the entries ARE the front end of Tensor/FrontEnd.v *)
  Ltac entry_tac :=
    unfold entry_shape; vmc1 entry_rule; cbv beta iota;
    cbn [run_rule g_shape g_u g_us g_shapes nth_error CompositeShapes.bind];
    repeat match goal with H : _ = true |- _ => rewrite H end; try reflexivity.
  Ltac names_tac H := repeat (destruct H as [<-|H]; [entry_tac|]); try contradiction H.

  Notation esh := (@entry_shape R).
  Notation ltP l := ((N.of_nat (List.length l) <? P32)%N = true).

  Theorem real_entries_are_frontend :
    (forall name x, In name unary_entries -> wfb x = true -> esh name [VT x] = one (fe_unary_fw x)) /\
    (forall name x k, In name const_entries -> wfb x = true -> esh name [VT x; VA k] = one (fe_fw_x_const x)) /\
    (forall name x k, In name scalar_entries -> wfb x = true -> wfb k = true ->
       esh name [VT x; VT k] = one (fe_scalar_fw x k)) /\
    (forall name a b, In name elementwise_entries -> wfb a = true -> wfb b = true ->
       esh name [VT a; VT b] = one (fe_elementwise_fw a b)) /\
    (forall name x d, In name reduce_entries -> wfb x = true ->
       esh name [VT x; VA (AU d)] = one (fe_reduce_fw x (wrap32 d))) /\
    (forall a b, wfb a = true -> wfb b = true -> esh "matmul_fw" [VT a; VT b] = one (fe_matmul_fw a b)) /\
    (forall x, wfb x = true -> esh "transpose_fw" [VT x] = one (fe_transpose_fw x)) /\
    (forall x p, wfb x = true -> ltP p ->
       esh "permute_dims_fw" [VT x; VA (AUs p)] = one (fe_permute_dims_fw x (map wrap32 p))) /\
    (forall x d, wfb x = true -> esh "flip_fw" [VT x; VA (AU d)] = one (fe_flip_fw x (wrap32 d))) /\
    (forall x ids d, wfb x = true -> ltP ids ->
       esh "pick_fw" [VT x; VA (AUs ids); VA (AU d)] = one (fe_pick_fw x (map wrap32 ids) (wrap32 d))) /\
    (forall x d lo up, wfb x = true ->
       esh "slice_fw" [VT x; VA (AU d); VA (AU lo); VA (AU up)] = one (fe_slice_fw x (wrap32 d) (wrap32 lo) (wrap32 up))) /\
    (forall x d n, wfb x = true ->
       esh "broadcast_fw" [VT x; VA (AU d); VA (AU n)] = one (fe_broadcast_fw x (wrap32 d) (wrap32 n))) /\
    (forall x w p0 p1 s0 s1 d0 d1, wfb x = true -> wfb w = true ->
       esh "conv2d_fw" [VT x; VT w; VA (AU p0); VA (AU p1); VA (AU s0); VA (AU s1); VA (AU d0); VA (AU d1)] =
       one (fe_conv2d_fw x w (wrap32 p0) (wrap32 p1) (wrap32 s0) (wrap32 s1) (wrap32 d0) (wrap32 d1))) /\
    (forall x w0 w1 p0 p1 s0 s1, wfb x = true ->
       esh "max_pool2d_fw" [VT x; VA (AU w0); VA (AU w1); VA (AU p0); VA (AU p1); VA (AU s0); VA (AU s1)] =
       one (fe_max_pool2d_fw x (wrap32 w0) (wrap32 w1) (wrap32 p0) (wrap32 p1) (wrap32 s0) (wrap32 s1))) /\
    (forall x ids, wfb x = true -> ltP ids ->
       esh "batch_pick_fw" [VT x; VA (AUs ids)] = one (fe_batch_pick_fw x (map wrap32 ids))) /\
    (forall x lo up, wfb x = true ->
       esh "batch_slice_fw" [VT x; VA (AU lo); VA (AU up)] = one (fe_batch_slice_fw x (wrap32 lo) (wrap32 up))) /\
    (forall x, wfb x = true -> esh "batch_sum_fw" [VT x] = one (fe_batch_sum_fw x)) /\
    (* the three entries with a value guard: guard, then rule = the front end *)
    (forall (ts : list tensor) d, forallb wfb (map tn_shape ts) = true -> ltP ts ->
       (if run_guard rO rI rsub fle flt ffin (GEmpty 0) [VL ts; VA (AU d)] then None
        else esh "concat_fw" (shp [VL ts; VA (AU d)])) = one (fe_concat_fw (map tn_shape ts) (wrap32 d))) /\
    (forall (ts : list tensor), forallb wfb (map tn_shape ts) = true -> ltP ts ->
       (if run_guard rO rI rsub fle flt ffin (GEmpty 0) [VL ts] then None
        else esh "batch_concat_fw" (shp [VL ts])) = one (fe_batch_concat_fw (map tn_shape ts))) /\
    (forall n, (if run_guard rO rI rsub fle flt ffin (GZero 0) [VA (AU n)] then None
                else esh "identity" [VA (AU n)]) = one (fe_identity (wrap32 n))).
  Proof.
    repeat split.
    - intros name x H Hx. names_tac H.
    - intros name x k H Hx. names_tac H.
    - intros name x k H Hx Hk. names_tac H.
    - intros name a b H Ha Hb. names_tac H.
    - intros name x d H Hx. names_tac H.
    - intros; entry_tac.
    - intros; entry_tac.
    - intros; entry_tac.
    - intros; entry_tac.
    - intros; entry_tac.
    - intros; entry_tac.
    - intros; entry_tac.
    - intros; entry_tac.
    - intros; entry_tac.
    - intros; entry_tac.
    - intros; entry_tac.
    - intros; entry_tac.
    - intros ts d Hw Hl. destruct ts as [|t ts]; [reflexivity|].
      cbn [run_guard nth_error shapes map vmap]. unfold entry_shape; vmc1 entry_rule; cbv beta iota.
      cbn [run_rule g_shapes g_u nth_error CompositeShapes.bind]. cbn [map] in Hw.
      cbn [List.length] in Hl |- *. rewrite map_length, Hw, Hl. reflexivity.
    - intros ts Hw Hl. destruct ts as [|t ts]; [reflexivity|].
      cbn [run_guard nth_error shapes map vmap]. unfold entry_shape; vmc1 entry_rule; cbv beta iota.
      cbn [run_rule g_shapes g_u nth_error CompositeShapes.bind]. cbn [map] in Hw.
      cbn [List.length] in Hl |- *. rewrite map_length, Hw, Hl. reflexivity.
    - intro n. cbn [run_guard nth_error]. unfold fe_identity. destruct (wrap32 n =? 0)%N; [reflexivity|]. entry_tac.
  Qed.

  (* ---------------------------------------------------------------- computed tensors have well-formed shapes *)
  Lemma g_shape_wf l (e : @senv R) s : g_shape l e = Some s -> wf s.
  Proof.
    destruct l as [i|i|i|n|]; cbn [g_shape]; try discriminate.
    - destruct (nth_error e i) as [[x|v|a]|]; try discriminate. destruct (wfb x) eqn:W; [|discriminate].
      intro H. injection H as <-. apply wfb_spec. exact W.
    - destruct (nth_error e i) as [[x|v|[f|d|z|us|fs|ds b|dv]]|]; try discriminate.
      intro H. exact (proj2 (proj2 (mk_shape_some _ _ _ (Forall_u32_wrap32 ds) (u32_wrap32 b) H))).
  Qed.
  Lemma g_u_u32 l (e : @senv R) n : g_u l e = Some n -> u32 n.
  Proof.
    destruct l as [i|i|i|m|]; cbn [g_u]; try discriminate.
    - destruct (nth_error e i) as [[x|v|[f|d|z|us|fs|ds b|dv]]|]; try discriminate. intro H. injection H as <-. apply u32_wrap32.
    - intro H. injection H as <-. apply u32_wrap32.
  Qed.
  Lemma g_us_u32 l (e : @senv R) v : g_us l e = Some v -> Forall u32 v /\ u32 (N.of_nat (List.length v)).
  Proof.
    destruct l as [i|i|i|m|]; cbn [g_us]; try discriminate.
    destruct (nth_error e i) as [[x|w|[f|d|z|us|fs|ds b|dv]]|]; try discriminate.
    destruct (N.ltb_spec (N.of_nat (List.length us)) P32) as [Hl|]; [|discriminate].
    intro H. injection H as <-. split; [apply Forall_u32_wrap32|]. rewrite map_length. exact Hl.
  Qed.
  Lemma g_shapes_wf l (e : @senv R) v : g_shapes l e = Some v -> Forall wf v /\ u32 (N.of_nat (List.length v)).
  Proof.
    destruct l as [i|i|i|m|]; cbn [g_shapes]; try discriminate.
    destruct (nth_error e i) as [[x|w|a]|]; try discriminate.
    destruct (forallb wfb w) eqn:W; cbn [andb]; [|discriminate].
    destruct (N.ltb_spec (N.of_nat (List.length w)) P32) as [Hl|]; [|discriminate].
    intro H. injection H as <-. split; [apply forallb_wfb; exact W|exact Hl].
  Qed.

  Lemma Forall_repeat {A} (P : A -> Prop) x n : P x -> Forall P (repeat x n).
  Proof. intro H. induction n; cbn [repeat]; constructor; auto. Qed.

  Lemma one_wf o ss : one o = Some ss -> (forall r, o = Some r -> wf r) -> Forall wf ss.
  Proof. unfold one. destruct o as [r|]; cbn [option_map]; [|discriminate]. intros H W. injection H as <-. constructor; auto. Qed.
  Lemma rep_wf n o ss : rep n o = Some ss -> (forall r, o = Some r -> wf r) -> Forall wf ss.
  Proof. unfold rep. destruct o as [r|]; cbn [option_map]; [|discriminate]. intros H W. injection H as <-. apply Forall_repeat. auto. Qed.

  Lemma fwd_split_fam_wf (e : @senv R) ss : fwd_split_fam e = Some ss -> Forall wf ss.
  Proof.
    destruct canonical_reachable as (_ & _ & _ & _ & _ & _ & _ & _ & _ & _ & _ & _ & _ & _ & _ & _ & _ & _ & _ & _ & Wsplit & Wbsplit & _).
    destruct e as [|[x|l|a] e]; try discriminate.
    destruct e as [|[y|l|[f|d|z|us|fs|ds b|dv]] e]; try discriminate.
    destruct e as [|[y|l|[f|n|z|us|fs|ds b|dv]] e]; try discriminate.
    - cbn [fwd_split_fam]. destruct (wfb x) eqn:Hx; [|discriminate]. apply wfb_spec in Hx.
      intro H. apply (rep_wf _ _ _ H). intros r Hr. exact (Wbsplit x (wrap32 d) r Hx (u32_wrap32 d) Hr).
    - destruct e as [|v e]; try discriminate.
      cbn [fwd_split_fam]. destruct (wfb x) eqn:Hx; [|discriminate]. apply wfb_spec in Hx.
      intro H. apply (rep_wf _ _ _ H). intros r Hr. exact (Wsplit x (wrap32 d) (wrap32 n) r Hx (u32_wrap32 d) (u32_wrap32 n) Hr).
  Qed.

  Lemma fwd_sce_fam_wf (e : @senv R) ss : fwd_sce_fam e = Some ss -> Forall wf ss.
  Proof.
    destruct canonical_reachable as (_ & _ & _ & _ & _ & _ & _ & _ & _ & _ & _ & Wpick & _ & _ & _ & _ & _ & _ & _ & _ & _ & _ & Wsce & _).
    destruct e as [|[x|l|a] e]; try discriminate.
    destruct e as [|[t|l|[f|d|z|us|fs|ds b|dv]] e]; try discriminate.
    - destruct e as [|[y|l|[f|d|z|us|fs|ds b|dv]] e]; try discriminate.
      destruct e as [|v e]; try discriminate.
      cbn [fwd_sce_fam]. destruct (wfb x) eqn:Hx; [|discriminate]. destruct (wfb t) eqn:Ht; [|discriminate]. cbn [andb].
      apply wfb_spec in Hx. apply wfb_spec in Ht.
      intro H. apply (one_wf _ _ H). intros r Hr. exact (Wsce x t (wrap32 d) r Hx Ht (u32_wrap32 d) Hr).
    - destruct e as [|[y|l|[f|d|z|us2|fs|ds b|dv]] e]; try discriminate.
      destruct e as [|v e]; try discriminate.
      cbn [fwd_sce_fam]. destruct (wfb x) eqn:Hx; [|discriminate].
      destruct (N.ltb_spec (N.of_nat (List.length us)) P32) as [Hl|Hl]; [|discriminate]. cbn [andb]. apply wfb_spec in Hx.
      intro H. apply (one_wf _ _ H). intros r Hr.
      refine (Wpick x (map wrap32 us) (wrap32 d) r Hx (Forall_u32_wrap32 us) _ (u32_wrap32 d) Hr). rewrite map_length. exact Hl.
  Qed.

  Ltac inv_bind H :=
    repeat match type of H with
    | CompositeShapes.bind ?o _ = Some _ => let E := fresh "E" in destruct o eqn:E; cbn [CompositeShapes.bind] in H; [|discriminate H]
    end.

  Lemma run_rule_wf c (e : @senv R) ss : run_rule c e = Some ss -> Forall wf ss.
  Proof.
    destruct canonical_reachable as (W0 & Wmk & Wud & Wub & Wresh & Wflat & Wsc & Wew & Wslice & Wconcat & Wbc & Wpick & Wtr & Wperm
                                     & Wmm & Wconv & Wpool & Wbpick & Wbslice & Wbconcat & Wsplit & Wbsplit & Wsce & Wred & Wid & Wbsum).
    destruct c as [rn ls]. intro H.
    destruct rn; cbn [run_rule] in H;
      repeat (match type of H with match ?l with _ => _ end = Some _ => destruct l as [|? ?]; try discriminate H end);
      inv_bind H;
      repeat match goal with
      | E : g_shape _ _ = Some _ |- _ => apply g_shape_wf in E
      | E : g_u _ _ = Some _ |- _ => apply g_u_u32 in E
      | E : g_us _ _ = Some _ |- _ => apply g_us_u32 in E; destruct E
      | E : g_shapes _ _ = Some _ |- _ => apply g_shapes_wf in E; destruct E
      end;
      try (apply (one_wf _ _ H); intros r Hr).
    - injection H as <-. constructor; auto.
    - eapply Wsc; try exact Hr; assumption.
    - eapply Wew; try exact Hr; assumption.
    - eapply Wpick; try exact Hr; assumption.
    - eapply Wslice; try exact Hr; assumption.
    - eapply Wconcat; try exact Hr; assumption.
    - eapply Wresh; try exact Hr; assumption.
    - eapply Wflat; try exact Hr; assumption.
    - eapply Wtr; try exact Hr; assumption.
    - eapply Wperm; try exact Hr; assumption.
    - eapply Wmm; try exact Hr; assumption.
    - eapply Wbc; try exact Hr; assumption.
    - eapply Wud; try exact Hr; assumption.
    - eapply Wub; try exact Hr; assumption.
    - eapply Wconv; try exact Hr; assumption.
    - eapply Wpool; try exact Hr; assumption.
    - eapply Wbpick; try exact Hr; assumption.
    - eapply Wbslice; try exact Hr; assumption.
    - eapply Wbconcat; try exact Hr; assumption.
    - eapply Wmk; [| |exact Hr]; [repeat constructor; assumption|unfold u32, P32; lia].
    - apply (fwd_split_fam_wf _ _ H).
    - apply (fwd_sce_fam_wf _ _ H).
    - rewrite <- split_fam_agree in H. apply (fwd_split_fam_wf _ _ H).
    - rewrite <- sce_fam_agree in H. apply (fwd_sce_fam_wf _ _ H).
  Qed.

  Lemma real_val_wf r env : Forall (fun t : tensor => wf (tn_shape t)) (rval r env).
  Proof.
    unfold real_val. destruct (reach_rule r) as [c|]; [|constructor].
    destruct (run_rule c (shp env)) as [ss|] eqn:E; [|constructor].
    apply run_rule_wf in E.
    assert (G : Forall wf (map (@tn_shape R) (mk_results ss (real_data rO radd rmul rsub ropp other r env ss))))
      by (rewrite mk_results_shapes; exact E).
    exact (proj1 (Forall_map _ _ _) G).
  Qed.

  Lemma eager_call_wf k env xs : ecall k env = Ok xs -> Forall (fun t : tensor => wf (tn_shape t)) xs.
  Proof.
    unfold eager_call. destruct (select _ _ _ _ _ _) as [r|]; [|discriminate].
    unfold path_sem. destruct (m_kind r); [|discriminate].
    destruct (existsb _ _); [discriminate|]. destruct (m_tshape r) as [se|]; [|discriminate].
    destruct (rshape se _); [|discriminate]. intro H. injection H as <-. apply real_val_wf.
  Qed.

  Lemma run_inv {X} (P : X -> Prop) (step : fkey -> list (V X attr) -> res (list X)) :
    (forall k env xs, step k env = Ok xs -> Forall P xs) ->
    forall p st n out, run attr step p st n = inl out -> Forall (Forall P) st -> Forall (Forall P) out.
  Proof.
    intro Hs. induction p as [|c p IH]; intros st n out H Hst; cbn [run] in H.
    - injection H as <-. exact Hst.
    - destruct (args_env attr st (c_args attr c)) as [env|]; [|discriminate H].
      destruct (step (c_fn attr c) env) as [xs|] eqn:E; [|discriminate H].
      apply (IH _ _ _ H). apply Forall_app. split; [exact Hst|]. constructor; [|constructor]. exact (Hs _ _ _ E).
  Qed.

  (* every tensor an accepted program computes has a shape satisfying the Shape invariant: the
     operand check of the instance never fires on a computed tensor *)
  Theorem real_reachable_wf p out :
    real_eager rO rI radd rmul rsub ropp fle flt ffin other p = inl out ->
    Forall (Forall (fun t : tensor => wf (tn_shape t))) out.
  Proof.
    intro H. unfold real_eager, eager, eager_run in H.
    exact (run_inv _ _ eager_call_wf p [] 0 out H (Forall_nil _)).
  Qed.

  (* ---------------------------------------------------------------- the model theorems at the real instance *)
  Notation Eager := (real_eager rO rI radd rmul rsub ropp fle flt ffin other).
  Notation Create := (@real_create R).
  Notation Evaluate := (real_evaluate rO rI radd rmul rsub ropp fle flt ffin other).

  Theorem real_same_value p : Evaluate p = Eager p.
  Proof. exact (node_value_eq_tensor_value _ _ _ _ _ _ _ _ real_commutative p). Qed.

  Theorem real_same_acceptance p :
    (forall out, Eager p = inl out -> Create p = inl (map (map tn_shape) out) /\ Evaluate p = inl out) /\
    (forall m e, Eager p = inr (m, e) -> e <> EGuard -> exists e', Create p = inr (m, e')) /\
    (forall m e, Eager p = inr (m, e) -> Evaluate p = inr (m, e)) /\
    (forall m e, Create p = inr (m, e) -> exists m' e', Eager p = inr (m', e') /\ m' <= m /\ (m' < m -> e' = EGuard)).
  Proof. exact (same_calls_rejected _ _ _ _ _ _ _ _ real_kernels real_composite real_commutative p). Qed.
End Real.

(* ---------------------------------------------------------------- the core family: values independent of [other] *)
Section Core.
  Context {R : Type}.
  Variables (rO : R) (radd rmul rsub : R -> R -> R) (ropp : R -> R).
  Variables other1 other2 : reach -> @tenv R -> list shape -> list (list R).

  Ltac vmc1 h := repeat match goal with |- context [h ?e] =>
    let t := constr:(h e) in let v := eval vm_compute in t in change t with v end.
  Ltac vmc_route := repeat match goal with |- context [@route ?A ?l ?e] =>
    let t := constr:(@route A l e) in let v := eval vm_compute in t in change t with v end.

  (* a typed environment has the constructors its types name *)
  Ltac ty_inv H env :=
    repeat (let v := fresh "v" in
            destruct env as [|v env]; [try discriminate H|];
            [..|cbn [env_typed] in H; apply andb_true_iff in H; let Hv := fresh "Hv" in destruct H as [Hv H];
                vm_compute in Hv;
                destruct v as [?t|?l|[?f|?u|?z|?us|?fs|?ds ?b|?dv]]; try discriminate Hv; clear Hv]);
    try discriminate H.

  Ltac core_row :=
    let env := fresh "env" in let Hty := fresh "Hty" in
    intros env Hty; cbn [m_fn snd] in Hty; ty_inv Hty env;
    unfold real_val; cbn [m_t]; vmc1 reach_rule; cbv beta iota;
    match goal with |- context [run_rule ?c ?e] => destruct (run_rule c e) as [?ss|]; [|reflexivity] end;
    f_equal; unfold real_data; vmc1 (@reach_call); cbv beta iota; vmc_route; cbv beta iota;
    cbv [core_data seqb String.eqb Ascii.eqb Bool.eqb]; reflexivity.

  Theorem real_core_independent r : In r api_table -> row_core r = true ->
    forall env, env_typed (snd (m_fn r)) env = true ->
      real_val rO radd rmul rsub ropp other1 (m_t r) env = real_val rO radd rmul rsub ropp other2 (m_t r) env.
  Proof.
    intros Hin Hc. assert (H : In r (filter row_core api_table)) by (apply filter_In; split; assumption).
    clear Hin Hc. revert H.
    match goal with |- In r ?l -> _ =>
      let v := eval vm_compute in l in replace l with v by (vm_cast_no_check (eq_refl v)) end.
    intro H. repeat (destruct H as [<-|H]; [core_row|]). contradiction H.
  Qed.
End Core.

(* static shapes need nothing about the scalars *)
Theorem real_same_shape {R : Type} (rO rI : R) (radd rmul rsub : R -> R -> R) (ropp : R -> R)
  (fle flt : R -> R -> bool) (ffin : R -> bool) (other : reach -> @tenv R -> list shape -> list (list R)) p out :
  real_eager rO rI radd rmul rsub ropp fle flt ffin other p = inl out -> @real_create R p = inl (map (map tn_shape) out).
Proof.
  exact (node_shape_sound _ _ _ _ _ _ _ _ (real_kernels rO radd rmul rsub ropp other) real_composite p out).
Qed.
