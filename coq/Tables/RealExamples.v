(* Concrete programs for the non-vacuity examples of Props/Properties_C04_real.v: the real
   instance of Tables/RealSem.v at R := Z (definitions only).  The uninterpreted parts are given
   harmless values: float comparisons = integer comparisons, every number finite, kernels outside
   the core family return empty data. *)
From Coq Require Import List String Bool NArith ZArith QArith.
From PV Require Import Shape.ShapeImpl Tables.OpSyntax Tables.OpRows Tables.ApiModel Tables.ApiTable Tables.RealSem.
Import ListNotations.
Local Close Scope Q_scope.
Local Open Scope string_scope.

Definition zother (r : reach) (e : @tenv Z) (ss : list shape) : list (list Z) := map (fun _ => []) ss.
Definition Zeager := real_eager 0%Z 1%Z Z.add Z.mul Z.sub Z.opp Z.leb Z.ltb (fun _ => true) zother.
Definition Zcreate := @real_create Z.
Definition Zevaluate := real_evaluate 0%Z 1%Z Z.add Z.mul Z.sub Z.opp Z.leb Z.ltb (fun _ => true) zother.

Definition k_matmul : fkey := ("functions", "matmul", ["X"; "X"]).
Definition k_transpose : fkey := ("functions", "transpose", ["X"]).
Definition k_sum : fkey := ("functions", "sum", ["X"; "u32"]).
Definition k_multiply : fkey := ("functions", "multiply", ["X"; "X"]).
Definition k_slice : fkey := ("functions", "slice", ["X"; "u32"; "u32"; "u32"]).
Definition k_identity : fkey := ("functions", "identity_tensor", ["u32"; "Device*"]).
Definition k_exp : fkey := ("functions", "exp", ["X"]).
Definition AZ := @attr Z.

Definition input (ds : list N) (b : N) (v : list Z) : call AZ :=
  {| c_fn := fk_input; c_args := [AAttr (ASh ds b); AAttr (AFs v); AAttr (ADev None)] |}.

(* x = [2,3]x1 (column-major 1..6), k = []x2 (10, 20):
   2: k + x           scalar FIRST operand: the Node API evaluates it as add(x, k) (the exchanged row)
   3: sum(#2, 0)      4: transpose(x)      5: matmul(x, #4)
   6: split(x, 1, 3)  three results        7: concat({#6[2], #6[0]}, 0)
   8: k * x           9: k - x (subtract_scalar_l)     10: slice(x, 1, 1, 3)     11: exp(x) (outside the core family) *)
Definition prog_ok : list (call AZ) :=
  [ input [2; 3]%N 1%N [1; 2; 3; 4; 5; 6]%Z;
    input []%N 2%N [10; 20]%Z;
    {| c_fn := fk_add; c_args := [ARef 1 0; ARef 0 0] |};
    {| c_fn := k_sum; c_args := [ARef 2 0; AAttr (AU 0%N)] |};
    {| c_fn := k_transpose; c_args := [ARef 0 0] |};
    {| c_fn := k_matmul; c_args := [ARef 0 0; ARef 4 0] |};
    {| c_fn := fk_split; c_args := [ARef 0 0; AAttr (AU 1%N); AAttr (AU 3%N)] |};
    {| c_fn := fk_concat; c_args := [ARefs [(6, 2); (6, 0)]; AAttr (AU 0%N)] |};
    {| c_fn := k_multiply; c_args := [ARef 1 0; ARef 0 0] |};
    {| c_fn := fk_sub; c_args := [ARef 1 0; ARef 0 0] |};
    {| c_fn := k_slice; c_args := [ARef 0 0; AAttr (AU 1%N); AAttr (AU 1%N); AAttr (AU 3%N)] |};
    {| c_fn := k_exp; c_args := [ARef 0 0] |} ].

Definition sh (ds : list N) (b v : N) : shape := mkS ds b v.
Definition tz (ds : list N) (b v : N) (d : list Z) : @tensor Z := mkTn true (mkS ds b v) d.
Local Open Scope N_scope.

Definition prog_ok_shapes : list (list shape) :=
  [ [sh [2; 3] 1 6]; [sh [] 2 1]; [sh [2; 3] 2 6]; [sh [1; 3] 2 3]; [sh [3; 2] 1 6]; [sh [2; 2] 1 4];
    [sh [2] 1 2; sh [2] 1 2; sh [2] 1 2]; [sh [4] 1 4]; [sh [2; 3] 2 6]; [sh [2; 3] 2 6]; [sh [2; 2] 1 4]; [sh [2; 3] 1 6] ].

Definition prog_ok_values : list (list (@tensor Z)) :=
  [ [tz [2; 3] 1 6 [1; 2; 3; 4; 5; 6]%Z];
    [tz [] 2 1 [10; 20]%Z];
    [tz [2; 3] 2 6 [11; 12; 13; 14; 15; 16; 21; 22; 23; 24; 25; 26]%Z];
    [tz [1; 3] 2 3 [23; 27; 31; 43; 47; 51]%Z];
    [tz [3; 2] 1 6 [1; 3; 5; 2; 4; 6]%Z];
    [tz [2; 2] 1 4 [35; 44; 44; 56]%Z];
    [tz [2] 1 2 [1; 2]%Z; tz [2] 1 2 [3; 4]%Z; tz [2] 1 2 [5; 6]%Z];
    [tz [4] 1 4 [5; 6; 1; 2]%Z];
    [tz [2; 3] 2 6 [10; 20; 30; 40; 50; 60; 20; 40; 60; 80; 100; 120]%Z];
    [tz [2; 3] 2 6 [9; 8; 7; 6; 5; 4; 19; 18; 17; 16; 15; 14]%Z];
    [tz [2; 2] 1 4 [3; 4; 5; 6]%Z];
    [tz [2; 3] 1 6 []%Z] ].

(* matmul([2,3], [2,3]): inner dimensions differ -- a shape error at call 1 in both APIs *)
Definition prog_bad_shape : list (call AZ) :=
  [ input [2; 3]%N 1%N [1; 2; 3; 4; 5; 6]%Z;
    {| c_fn := k_matmul; c_args := [ARef 0 0; ARef 0 0] |} ].

(* x + y with batch sizes 2 and 3 *)
Definition prog_bad_batch : list (call AZ) :=
  [ input [2]%N 2%N [1; 2; 3; 4]%Z;
    input [2]%N 3%N [1; 2; 3; 4; 5; 6]%Z;
    {| c_fn := fk_add; c_args := [ARef 0 0; ARef 1 0] |} ].

(* split([2,3], axis 1, n = 2): 3 % 2 != 0 -- the throw row of functions::split in both APIs *)
Definition prog_bad_split : list (call AZ) :=
  [ input [2; 3]%N 1%N [1; 2; 3; 4; 5; 6]%Z;
    {| c_fn := fk_split; c_args := [ARef 0 0; AAttr (AU 1%N); AAttr (AU 2%N)] |} ].

(* identity_tensor(0): the Device entry's value guard `size == 0` (Tensor API) / Shape({0,0})
   throwing in FWD_SHAPE(Identity) (Node API), at the same call *)
Definition prog_guard : list (call AZ) :=
  [ input [2]%N 1%N [1; 2]%Z;
    {| c_fn := k_identity; c_args := [AAttr (AU 0%N); AAttr (ADev None)] |} ].

(* Shape({2,3}, 0): the Shape constructor throws -- the call is rejected in both APIs alike *)
Definition prog_bad_ctor : list (call AZ) := [ input [2; 3]%N 0%N [1; 2; 3; 4; 5; 6]%Z ].

(* ---- the instance at R := Q, for the row-by-row comparison with the real code (engines/c04.py
   model_rows: the same default calls as harness/api_row_drv.cc; its data are multiples of 1/4, so
   float32 arithmetic of the core family is exact and equals the rational result) *)
Local Close Scope N_scope.
Definition qother (r : reach) (e : @tenv Q) (ss : list shape) : list (list Q) := map (fun _ => []) ss.
Definition Qeager := real_eager 0%Q 1%Q Qplus Qmult Qminus Qopp Qle_bool (fun a b => negb (Qle_bool b a)) (fun _ => true) qother.
Definition Qcreate := @real_create Q.
Definition AQ := @attr Q.
Definition qin (ds : list N) (b : N) (v : list Q) : call AQ :=
  {| c_fn := fk_input; c_args := [AAttr (ASh ds b); AAttr (AFs v); AAttr (ADev None)] |}.
Definition mk (k : fkey) (a : list (arg AQ)) : call AQ := {| c_fn := k; c_args := a |}.
(* data_for of the harness: 0.25 * ((7 i) mod 5) + 0.5 *)
Definition qdata (n : nat) : list Q := map (fun i => Qmake (Z.of_nat ((i * 7) mod 5) + 2)%Z 4) (seq 0 n).
Definition qM : call AQ := qin [2; 2]%N 1%N (qdata 4).
Definition qS : call AQ := qin []%N 1%N (qdata 1).
Definition qB : call AQ := qin [2]%N 2%N (qdata 4).
Definition qP : call AQ := qin [2; 2]%N 1%N (repeat (Qmake 3 2) 4).
Definition qtensor (t : @tensor Q) : list N * N * list (Z * positive) :=
  (dims (tn_shape t), batch (tn_shape t), map (fun q => let r := Qred q in (Qnum r, Qden r)) (tn_data t)).
(* results of the LAST call of a program through the eager API, its static Node shapes *)
Definition qshow (p : list (call AQ)) :=
  (match Qeager p with inl out => inl (map qtensor (last out [])) | inr me => inr me end,
   match Qcreate p with inl out => inl (map (fun s => (dims s, batch s)) (last out [])) | inr me => inr me end).
