(* The reviewed composite BACKWARD bodies (Tables/BwReviewed.v), run by the evaluator of
   Tables/BwSem.v, are the adjoints of the forward kernels (bwtables part of property C01).

   For each of Copy, Positive, Negative, Reshape, Flatten, Sum, Broadcast, BatchSum, Split,
   BatchSplit, Concat, BatchConcat:
     eval_<Op>     running the reviewed syntax tree on accumulators gx yields, per operand,
                   gx (+) the increment d_bw (describe <the operator of Tensor/GraphInst.v>):
                   the body accumulates, and what it accumulates IS the backward of the concrete
                   operator family whose LocalAdjoint is proved from the kernel theorems
                   (ProofsGather / ProofsPerm) and which the end-to-end theorem
                   C01_backward_is_adjoint_concrete is about;
     adjoint_<Op>  hence  sum_i <gx'_i, dx_i> = sum_i <gx_i, dx_i> + <gy, forward(dx)>  for every
                   direction dx, whatever the accumulators held before.
   The shape hypotheses say that the shape the evaluator computes for an intermediate tensor
   (slice / broadcast / sum of gy) is the operand's shape; they are facts of the shape algebra (C09)
   for dim < depth.  `+=` is taken between tensors of equal minibatch size, except in BatchSum
   (broadcast of a batch-1 gradient) and Concat (a batch-1 operand receives the folded slices). *)
From Coq Require Import List String Bool Arith Lia Ring Permutation.
From PV Require Import Graph.OpFamily Tensor.Kernels Tensor.Index Tensor.ProofsGather Tensor.ProofsBilinear
  Tensor.AdjCore Tensor.GraphInst Tables.OpSyntax Tables.OpUtil Tables.BwReviewed Tables.BwSem.
Import ListNotations.
Local Open Scope string_scope.
Local Open Scope list_scope.

Section Adj.
  Context {R : Type} (rO rI : R) (radd rmul rsub : R -> R -> R) (ropp : R -> R).
  Hypothesis Rth : ring_theory rO rI radd rmul rsub ropp eq.
  Add Ring RringBw : Rth.
  Notation dot := (OpFamily.dot rO radd rmul).
  Notation dots := (OpFamily.dots rO radd rmul).
  Notation vplus := (OpFamily.vplus radd).
  Notation zeros := (repeat rO).
  Notation sc := (scatter R rO radd).
  Notation ga := (gather R rO).
  Notation rbw := (run_bw rO radd ropp).
  Notation E0 := (env0 (R := R)).
  Notation desc := (describe rO radd rmul rsub ropp).
  Notation peq := (plus_eq rO radd).

  (* ---------------------------------------------------------------- accumulation = old value + increment *)
  Lemma fold_add_shift (l : list R) : forall a, fold_left radd l a = radd a (fold_left radd l rO).
  Proof.
    induction l as [|x l IH]; intro a; cbn [fold_left]; [ring|].
    rewrite (IH (radd a x)), (IH (radd rO x)). ring.
  Qed.

  Lemma nth_vplus : forall (a b : list R) j, List.length a = List.length b -> j < List.length a ->
    nth j (vplus a b) rO = radd (nth j a rO) (nth j b rO).
  Proof.
    induction a as [|x a IH]; intros [|y b] j Hl Hj; cbn [List.length] in *; try lia.
    destruct j as [|j]; cbn [OpFamily.vplus nth]; [reflexivity|]. apply IH; lia.
  Qed.

  Lemma scatter_vplus p t (gx : list R) k : acc_in_bounds p (List.length gx) k ->
    sc p t gx = vplus gx (sc p t (zeros (List.length gx))).
  Proof.
    intro Hb.
    assert (Hb' : acc_in_bounds p (List.length (zeros (List.length gx))) k) by (rewrite repeat_length; exact Hb).
    assert (L1 : List.length (sc p t gx) = List.length gx) by (apply (scatter_length rO radd p t gx k Hb)).
    assert (L2 : List.length (sc p t (zeros (List.length gx))) = List.length gx).
    { rewrite (scatter_length rO radd p t _ k Hb'). apply repeat_length. }
    apply (nth_ext _ _ rO rO).
    - rewrite L1, length_vplus; [reflexivity|]. symmetry. exact L2.
    - intros j Hj. rewrite L1 in Hj. rewrite nth_vplus by (try symmetry; assumption).
      rewrite !scatter_incr.
      assert (F : forall y : list R, List.length y = List.length gx ->
                Forall (fun e : nat * R => fst e < List.length y) (map (fun e : nat * nat => (fst e, nth (snd e) t rO)) p)).
      { intros y Hy. rewrite Forall_map. cbn [fst]. rewrite Hy. unfold acc_in_bounds in Hb.
        apply (Forall_impl _ (fun a H => proj1 H) Hb). }
      rewrite !nth_incr_run by (apply F; rewrite ?repeat_length; reflexivity).
      rewrite fold_add_shift. f_equal.
      rewrite nth_repeat. reflexivity.
  Qed.

  Lemma dots_vplus : forall (a b c : list (list R)) (shs : list tshape),
    Forall2 (sized (R := R)) a shs -> Forall2 (sized (R := R)) b shs ->
    dots (map (fun p => vplus (fst p) (snd p)) (combine a b)) c = radd (dots a c) (dots b c).
  Proof.
    induction a as [|x a IH]; intros b c shs Ha Hb.
    - inversion Ha; subst. inversion Hb; subst. cbn. ring.
    - inversion Ha as [|? sh ? shs' Hx Ha']; subst. inversion Hb as [|y ? b' ? Hy Hb']; subst.
      destruct c as [|z c]; cbn [combine map OpFamily.dots fst snd]; [ring|].
      rewrite (IH b' c shs' Ha' Hb'), (dot_vplus_l rO rI radd rmul rsub ropp Rth) by (unfold sized in *; congruence). ring.
  Qed.

  (* the accumulators after BACKWARD = the accumulators before (+) the increments of the concrete
     operator family  ==>  the adjoint identity in accumulating form *)
  Theorem adjoint_of_increments (o : cop) (xs dxs gys gxs : list (list R)) :
    d_ok (desc o) = true -> d_nop (desc o) = false ->
    Forall2 (sized (R := R)) xs (d_args (desc o)) -> Forall2 (sized (R := R)) dxs (d_args (desc o)) ->
    Forall2 (sized (R := R)) gys (d_rets (desc o)) -> Forall2 (sized (R := R)) gxs (d_args (desc o)) ->
    let incs := d_bw (desc o) xs (d_fw (desc o) xs) gys in
    dots (map (fun p => vplus (fst p) (snd p)) (combine gxs incs)) dxs
    = radd (dots gxs dxs) (dots gys (d_jvp (desc o) xs dxs)).
  Proof.
    intros Hok Hnop Hx Hdx Hgy Hgx incs.
    destruct (describe_LA rO rI radd rmul rsub ropp Rth o Hok xs dxs gys Hx Hdx Hgy) as (E & Hinc & _).
    rewrite Hnop in E, Hinc. specialize (Hinc eq_refl). fold incs in E, Hinc.
    rewrite (dots_vplus gxs incs dxs _ Hgx Hinc), E. reflexivity.
  Qed.

  (* `g -= t` adds the negated tensor *)
  Lemma scatter_sub p (t : list R) : forall gx,
    scatter R rO (fun a b => radd a (ropp b)) p t gx = sc p (map ropp t) gx.
  Proof.
    induction p as [|[d s] r IH]; intro gx; cbn [scatter]; [reflexivity|]. rewrite IH. f_equal. f_equal. f_equal.
    replace rO with (ropp rO) at 2 by ring. rewrite map_nth. reflexivity.
  Qed.

  (* inplace_add depends on the source shape only through its minibatch size *)
  Lemma inplace_add_src (s1 s2 s : tshape) : tbatch s1 = tbatch s2 -> inplace_add s1 s = inplace_add s2 s.
  Proof. intro H. unfold inplace_add, thas_batch. rewrite H. reflexivity. Qed.

  Lemma inplace_bounds (s : tshape) : 0 < tbatch s -> acc_in_bounds (inplace_add s s) (tsize s) (tsize s).
  Proof. intro H. apply (ProofsGather.inplace_add_in_bounds s s (tvolume s) (tbatch s) (tbatch s)); auto. Qed.

  Lemma peq_acc (s : tshape) (t gx : list R) : 0 < tbatch s -> List.length gx = tsize s ->
    sc (inplace_add s s) t gx = vplus gx (peq s t).
  Proof.
    intros Hb Hl. unfold plus_eq. rewrite <- Hl. apply (scatter_vplus _ _ _ (tsize s)). rewrite Hl. apply inplace_bounds. exact Hb.
  Qed.

  (* ================================================================== straight-line bodies *)
  (* ---- Copy, Positive:  gx[0] += gy[0] *)
  Lemma eval_Positive s (x gy gx : list R) : 0 < tbatch s -> List.length gx = tsize s ->
    rbw rv_Positive (E0 [(s, x)] [] [(s, gy)] [(s, gx)] []) = Some [(s, vplus gx (peq s gy))].
  Proof. intros Hb Hl. rewrite <- (peq_acc s gy gx Hb Hl). reflexivity. Qed.

  Lemma eval_Copy s (x gy gx : list R) : 0 < tbatch s -> List.length gx = tsize s ->
    rbw rv_Copy (E0 [(s, x)] [] [(s, gy)] [(s, gx)] []) = Some [(s, vplus gx (peq s gy))].
  Proof. intros Hb Hl. rewrite <- (peq_acc s gy gx Hb Hl). reflexivity. Qed.

  (* ---- Negative:  gx[0] -= gy[0] *)
  Lemma eval_Negative s (x gy gx : list R) : 0 < tbatch s -> List.length gx = tsize s ->
    rbw rv_Negative (E0 [(s, x)] [] [(s, gy)] [(s, gx)] []) = Some [(s, vplus gx (peq s (vneg ropp gy)))].
  Proof.
    intros Hb Hl. rewrite <- (peq_acc s (vneg ropp gy) gx Hb Hl). unfold vneg. rewrite <- scatter_sub. reflexivity.
  Qed.

  (* ---- Reshape, Flatten:  gx[0] += gy[0].reshape(x[0].shape()) *)
  Lemma eval_Reshape sx sy (x gy gx : list R) : tbatch sy = tbatch sx -> 0 < tbatch sx -> List.length gx = tsize sx ->
    rbw rv_Reshape (E0 [(sx, x)] [] [(sy, gy)] [(sx, gx)] []) = Some [(sx, vplus gx (peq sx gy))].
  Proof.
    intros Hbb Hb Hl. rewrite <- (peq_acc sx gy gx Hb Hl).
    rewrite <- (inplace_add_src (mkT (tdims sx) (tbatch sy)) sx sx Hbb). reflexivity.
  Qed.

  Lemma eval_Flatten sx sy (x gy gx : list R) : tbatch sy = tbatch sx -> 0 < tbatch sx -> List.length gx = tsize sx ->
    rbw rv_Flatten (E0 [(sx, x)] [] [(sy, gy)] [(sx, gx)] []) = Some [(sx, vplus gx (peq sx gy))].
  Proof.
    intros Hbb Hb Hl. rewrite <- (peq_acc sx gy gx Hb Hl).
    rewrite <- (inplace_add_src (mkT (tdims sx) (tbatch sy)) sx sx Hbb). reflexivity.
  Qed.

  (* ---- Sum:  gx[0] += broadcast(gy[0], dim_, x[0].shape()[dim_]) *)
  Lemma eval_Sum sx sy dim (x gy gx : list R) :
    tset sy dim (tget sx dim) = sx -> 0 < tbatch sx -> List.length gx = tsize sx ->
    rbw rv_Sum (E0 [(sx, x)] [] [(sy, gy)] [(sx, gx)] [("dim_", VN dim)])
    = Some [(sx, vplus gx (peq sx (ga (broadcast_fw sy sx dim (tget sx dim)) (tsize sx) gy)))].
  Proof.
    intros Hs Hb Hl. rewrite <- (peq_acc sx _ gx Hb Hl).
    transitivity (Some [acc_add rO radd (t_bcast rO (sy, gy) dim (tget sx dim)) (sx, gx)]); [reflexivity|].
    unfold acc_add, t_bcast. cbn [fst snd]. rewrite Hs. reflexivity.
  Qed.

  (* ---- Broadcast:  gx[0] += sum(gy[0], dim_)      (sy = the shape of y and gy) *)
  Lemma eval_Broadcast sx sy dim size (x gy gx : list R) :
    tset sy dim 1 = sx -> 0 < tbatch sx -> List.length gx = tsize sx ->
    rbw rv_Broadcast (E0 [(sx, x)] [] [(sy, gy)] [(sx, gx)] [("dim_", VN dim); ("size_", VN size)])
    = Some [(sx, vplus gx (peq sx (sc (red_acc (axis_red sy sx dim)) gy (zeros (tsize sx)))))].
  Proof.
    intros Hs Hb Hl. rewrite <- (peq_acc sx _ gx Hb Hl).
    transitivity (Some [acc_add rO radd (t_sum rO radd (sy, gy) dim) (sx, gx)]); [reflexivity|].
    unfold acc_add, t_sum. cbn [fst snd]. rewrite Hs. reflexivity.
  Qed.

  (* ---- BatchSum:  gx[0] += gy[0], gy of batch 1 broadcast to every sample by inplace_add *)
  Lemma eval_BatchSum sx sy (x gy gx : list R) : batch_sum_ok sx sy = true -> List.length gx = tsize sx ->
    rbw rv_BatchSum (E0 [(sx, x)] [] [(sy, gy)] [(sx, gx)] [])
    = Some [(sx, vplus gx (sc (inplace_add sy sx) gy (zeros (tsize sx))))].
  Proof.
    intros Hok Hl. rewrite <- Hl.
    rewrite <- (scatter_vplus (inplace_add sy sx) gy gx (tsize sy)); [reflexivity|].
    rewrite Hl. unfold batch_sum_ok in Hok. bsplit.
    apply (ProofsGather.inplace_add_in_bounds sy sx (tvolume sx) (tbatch sy) (tbatch sx)); auto; lia.
  Qed.

  (* ================================================================== list and vector facts for the loops *)
  Lemma upd_nth_app {A} (pre : list A) g v r : upd_nth (List.length pre) v (pre ++ g :: r) = pre ++ v :: r.
  Proof.
    unfold upd_nth. rewrite firstn_app, Nat.sub_diag, firstn_all. cbn [firstn]. rewrite app_nil_r. f_equal. f_equal.
    rewrite skipn_app, skipn_all2 by lia. replace (S (List.length pre) - List.length pre) with 1 by lia. reflexivity.
  Qed.

  Lemma nth_error_mid {A} (pre : list A) g r : nth_error (pre ++ g :: r) (List.length pre) = Some g.
  Proof. rewrite nth_error_app2 by lia. rewrite Nat.sub_diag. reflexivity. Qed.

  Lemma vplus_zeros_r : forall (a : list R), vplus a (zeros (List.length a)) = a.
  Proof. induction a as [|x a IH]; cbn [List.length repeat OpFamily.vplus]; [reflexivity|]. rewrite IH. f_equal. ring. Qed.

  Lemma vplus_assoc : forall (a b c : list R), vplus (vplus a b) c = vplus a (vplus b c).
  Proof.
    induction a as [|x a IH]; intros [|y b] [|z c]; cbn [OpFamily.vplus]; try reflexivity.
    rewrite IH. f_equal. ring.
  Qed.

  Lemma fan_acc_vplus (bw : nat -> acc) (m ny : nat) : forall (gys : list (list R)) i gx,
    List.length gx = m -> (forall j, i <= j < i + List.length gys -> acc_in_bounds (bw j) m ny) ->
    fan_acc rO radd bw i gys gx = vplus gx (fan_acc rO radd bw i gys (zeros m)).
  Proof.
    induction gys as [|gy r IH]; intros i gx Hl Hb; cbn [fan_acc].
    - rewrite <- Hl. symmetry. apply vplus_zeros_r.
    - assert (Hi : acc_in_bounds (bw i) m ny) by (apply Hb; cbn [List.length]; lia).
      assert (Hr : forall j, S i <= j < S i + List.length r -> acc_in_bounds (bw j) m ny) by (intros j Hj; apply Hb; cbn [List.length]; lia).
      assert (L1 : List.length (sc (bw i) gy gx) = m).
      { rewrite (scatter_length rO radd (bw i) gy gx ny); [exact Hl|]. rewrite Hl. exact Hi. }
      assert (L2 : List.length (sc (bw i) gy (zeros m)) = m).
      { rewrite (scatter_length rO radd (bw i) gy (zeros m) ny); [apply repeat_length|]. rewrite repeat_length. exact Hi. }
      rewrite (IH (S i) _ L1 Hr), (IH (S i) (sc (bw i) gy (zeros m)) L2 Hr).
      rewrite (scatter_vplus (bw i) gy gx ny) by (rewrite Hl; exact Hi). rewrite Hl. apply vplus_assoc.
  Qed.

  (* the statements inside the loop of a reviewed body *)
  Definition loop_body (f : func) : list st :=
    match f_body f with
    | [_; _; SFor _ _ _ b] => b
    | [_; SForEach _ _ b] => b
    | _ => []
    end.

  (* ================================================================== Split:
     dev = gy[0]->device(); span = gy[0]->shape()[dim_]; for i < n_: dev.slice_bw( *gy[i], dim_, i*span, *gx[0]) *)
  Definition split_att (dim n : nat) : list (string * val (R := R)) := [("dim_", VN dim); ("n_", VN n)].
  Definition split_loc (span : nat) : list (string * val (R := R)) := [("span", VN span); ("dev", VDev)].
  Definition Fsplit (i : nat) (E1 : env (R := R)) : option env :=
    match run rO radd ropp 57 (with_loc E1 (("i", VN i) :: e_loc E1)) (loop_body rv_Split) with
    | Some E2 => Some (scope E1 E2) | None => None end.
  Fixpoint split_fold (dim span : nat) (r : list (tens (R := R))) (i : nat) (g : tens) : tens :=
    match r with [] => g | gy :: r' => split_fold dim span r' (S i) (d_slice_bw rO radd gy dim (i * span) g) end.

  Lemma run_Split xs ys gy0 gys g dim n :
    rbw rv_Split (E0 xs ys (gy0 :: gys) [g] (split_att dim n))
    = match iter n Fsplit 0 (mkEnv xs ys (gy0 :: gys) [g] (split_att dim n) (split_loc (tget (fst gy0) dim)) []) with
      | Some E' => Some (e_gx E') | None => None end.
  Proof.
    unfold run_bw.
    change (run rO radd ropp 60 (E0 xs ys (gy0 :: gys) [g] (split_att dim n)) (f_body rv_Split))
      with (match iter n Fsplit 0 (mkEnv xs ys (gy0 :: gys) [g] (split_att dim n) (split_loc (tget (fst gy0) dim)) []) with
            | Some E' => run rO radd ropp 57 E' [] | None => None end).
    destruct (iter n Fsplit 0 _); reflexivity.
  Qed.

  Lemma step_Split xs ys gys g dim n span i gy : nth_error gys i = Some gy ->
    Fsplit i (mkEnv xs ys gys [g] (split_att dim n) (split_loc span) [])
    = Some (mkEnv xs ys gys [d_slice_bw rO radd gy dim (i * span) g] (split_att dim n) (split_loc span) []).
  Proof. intro H. unfold Fsplit. cbn -[d_slice_bw nth_error]. rewrite H. cbn -[d_slice_bw nth_error]. reflexivity. Qed.

  Lemma iter_Split xs ys dim n span : forall r pre g,
    iter (List.length r) Fsplit (List.length pre) (mkEnv xs ys (pre ++ r) [g] (split_att dim n) (split_loc span) [])
    = Some (mkEnv xs ys (pre ++ r) [split_fold dim span r (List.length pre) g] (split_att dim n) (split_loc span) []).
  Proof.
    induction r as [|gy r IH]; intros pre g; cbn [List.length iter split_fold]; [reflexivity|].
    rewrite (step_Split xs ys (pre ++ gy :: r) g dim n span (List.length pre) gy (nth_error_mid pre gy r)).
    specialize (IH (pre ++ [gy]) (d_slice_bw rO radd gy dim (List.length pre * span) g)).
    rewrite app_length in IH. cbn [List.length] in IH. rewrite Nat.add_1_r, <- app_assoc in IH. exact IH.
  Qed.

  Lemma split_fold_fan sx sy dim : forall (gyds : list (list R)) i gx,
    split_fold dim (tget sy dim) (map (fun d => (sy, d)) gyds) i (sx, gx)
    = (sx, fan_acc rO radd (fun j => slice_bw sy sx dim (j * tget sy dim)) i gyds gx).
  Proof. induction gyds as [|d r IH]; intros i gx; cbn [map split_fold fan_acc]; [reflexivity|]. apply IH. Qed.

  Lemma eval_Split sx sy dim n (x : list R) ys (gyd0 : list R) (gyds : list (list R)) (gx : list R) :
    split_ok sx sy dim n = true -> List.length (gyd0 :: gyds) = n -> List.length gx = tsize sx ->
    rbw rv_Split (E0 [(sx, x)] ys (map (fun d => (sy, d)) (gyd0 :: gyds)) [(sx, gx)] (split_att dim n))
    = Some [(sx, vplus gx (fan_acc rO radd (fun j => slice_bw sy sx dim (j * tget sy dim)) 0 (gyd0 :: gyds) (zeros (tsize sx))))].
  Proof.
    intros Hok Hn Hl. cbn [map]. rewrite run_Split. cbn [fst].
    pose proof (iter_Split [(sx, x)] ys dim n (tget sy dim) (map (fun d => (sy, d)) (gyd0 :: gyds)) [] (sx, gx)) as H.
    rewrite map_length, Hn in H. cbn [List.length app map] in H. unfold tens in *. rewrite H. cbn [e_gx].
    change ((sy, gyd0) :: map (fun d => (sy, d)) gyds) with (map (fun d : list R => (sy, d)) (gyd0 :: gyds)).
    rewrite split_fold_fan. f_equal. f_equal. f_equal.
    apply (fan_acc_vplus _ (tsize sx) (tsize sy)); [exact Hl|].
    intros j Hj. rewrite Hn in Hj. destruct (split_ok_pair sx sy dim n Hok j ltac:(lia)) as (_ & _ & Hb). exact Hb.
  Qed.

  (* ================================================================== BatchSplit:
     dev = gy[0]->device(); span = gy[0]->shape().batch(); for i < n_: dev.batch_slice_bw( *gy[i], i*span, *gx[0]) *)
  Definition bsplit_att (n : nat) : list (string * val (R := R)) := [("n_", VN n)].
  Definition Fbsplit (i : nat) (E1 : env (R := R)) : option env :=
    match run rO radd ropp 57 (with_loc E1 (("i", VN i) :: e_loc E1)) (loop_body rv_BatchSplit) with
    | Some E2 => Some (scope E1 E2) | None => None end.
  Fixpoint bsplit_fold (span : nat) (r : list (tens (R := R))) (i : nat) (g : tens) : tens :=
    match r with [] => g | gy :: r' => bsplit_fold span r' (S i) (d_bslice_bw rO radd gy (i * span) g) end.

  Lemma run_BatchSplit xs ys gy0 gys g n :
    rbw rv_BatchSplit (E0 xs ys (gy0 :: gys) [g] (bsplit_att n))
    = match iter n Fbsplit 0 (mkEnv xs ys (gy0 :: gys) [g] (bsplit_att n) (split_loc (tbatch (fst gy0))) []) with
      | Some E' => Some (e_gx E') | None => None end.
  Proof.
    unfold run_bw.
    change (run rO radd ropp 60 (E0 xs ys (gy0 :: gys) [g] (bsplit_att n)) (f_body rv_BatchSplit))
      with (match iter n Fbsplit 0 (mkEnv xs ys (gy0 :: gys) [g] (bsplit_att n) (split_loc (tbatch (fst gy0))) []) with
            | Some E' => run rO radd ropp 57 E' [] | None => None end).
    destruct (iter n Fbsplit 0 _); reflexivity.
  Qed.

  Lemma step_BatchSplit xs ys gys g n span i gy : nth_error gys i = Some gy ->
    Fbsplit i (mkEnv xs ys gys [g] (bsplit_att n) (split_loc span) [])
    = Some (mkEnv xs ys gys [d_bslice_bw rO radd gy (i * span) g] (bsplit_att n) (split_loc span) []).
  Proof. intro H. unfold Fbsplit. cbn -[d_bslice_bw nth_error]. rewrite H. cbn -[d_bslice_bw nth_error]. reflexivity. Qed.

  Lemma iter_BatchSplit xs ys n span : forall r pre g,
    iter (List.length r) Fbsplit (List.length pre) (mkEnv xs ys (pre ++ r) [g] (bsplit_att n) (split_loc span) [])
    = Some (mkEnv xs ys (pre ++ r) [bsplit_fold span r (List.length pre) g] (bsplit_att n) (split_loc span) []).
  Proof.
    induction r as [|gy r IH]; intros pre g; cbn [List.length iter bsplit_fold]; [reflexivity|].
    rewrite (step_BatchSplit xs ys (pre ++ gy :: r) g n span (List.length pre) gy (nth_error_mid pre gy r)).
    specialize (IH (pre ++ [gy]) (d_bslice_bw rO radd gy (List.length pre * span) g)).
    rewrite app_length in IH. cbn [List.length] in IH. rewrite Nat.add_1_r, <- app_assoc in IH. exact IH.
  Qed.

  Lemma bsplit_fold_fan sx sy : forall (gyds : list (list R)) i gx,
    bsplit_fold (tbatch sy) (map (fun d => (sy, d)) gyds) i (sx, gx)
    = (sx, fan_acc rO radd (fun j => batch_slice_bw sy sx (j * tbatch sy)) i gyds gx).
  Proof. induction gyds as [|d r IH]; intros i gx; cbn [map bsplit_fold fan_acc]; [reflexivity|]. apply IH. Qed.

  Lemma eval_BatchSplit sx sy n (x : list R) ys (gyd0 : list R) (gyds : list (list R)) (gx : list R) :
    batch_split_ok sx sy n = true -> List.length (gyd0 :: gyds) = n -> List.length gx = tsize sx ->
    rbw rv_BatchSplit (E0 [(sx, x)] ys (map (fun d => (sy, d)) (gyd0 :: gyds)) [(sx, gx)] (bsplit_att n))
    = Some [(sx, vplus gx (fan_acc rO radd (fun j => batch_slice_bw sy sx (j * tbatch sy)) 0 (gyd0 :: gyds) (zeros (tsize sx))))].
  Proof.
    intros Hok Hn Hl. cbn [map]. rewrite run_BatchSplit. cbn [fst].
    pose proof (iter_BatchSplit [(sx, x)] ys n (tbatch sy) (map (fun d => (sy, d)) (gyd0 :: gyds)) [] (sx, gx)) as H.
    rewrite map_length, Hn in H. cbn [List.length app map] in H. unfold tens in *. rewrite H. cbn [e_gx].
    change ((sy, gyd0) :: map (fun d => (sy, d)) gyds) with (map (fun d : list R => (sy, d)) (gyd0 :: gyds)).
    rewrite bsplit_fold_fan. f_equal. f_equal. f_equal.
    apply (fan_acc_vplus _ (tsize sx) (tsize sy)); [exact Hl|].
    intros j Hj. rewrite Hn in Hj. destruct (batch_split_ok_pair sx sy n Hok j ltac:(lia)) as (_ & _ & Hb). exact Hb.
  Qed.

  (* ================================================================== Concat:
     offset = 0; for (Tensor *gxi : gx) { span = gxi->shape()[dim_];
       *gxi += functions::slice( *gy[0], dim_, offset, offset + span); offset += span; } *)
  Definition concat_att (dim : nat) : list (string * val (R := R)) := [("dim_", VN dim)].
  Definition off_loc (off : nat) : list (string * val (R := R)) := [("offset", VN off)].
  Definition Fconcat (i : nat) (E1 : env (R := R)) : option env :=
    match run rO radd ropp 58 (with_gxv E1 (("gxi", i) :: e_gxv E1)) (loop_body rv_Concat) with
    | Some E2 => Some (scope E1 E2) | None => None end.
  Fixpoint concat_fold (gy : tens (R := R)) (dim : nat) (r : list (tens (R := R))) (off : nat) : list tens :=
    match r with
    | [] => []
    | g :: r' => acc_add rO radd (t_slice rO gy dim off (off + tget (fst g) dim)) g :: concat_fold gy dim r' (off + tget (fst g) dim)
    end.
  Definition concat_end (dim : nat) (r : list (tens (R := R))) (off : nat) : nat :=
    fold_left (fun o g => o + tget (fst g) dim) r off.

  Lemma run_Concat xs ys gys gxs dim :
    rbw rv_Concat (E0 xs ys gys gxs (concat_att dim))
    = match iter (List.length gxs) Fconcat 0 (mkEnv xs ys gys gxs (concat_att dim) (off_loc 0) []) with
      | Some E' => Some (e_gx E') | None => None end.
  Proof.
    unfold run_bw.
    change (run rO radd ropp 60 (E0 xs ys gys gxs (concat_att dim)) (f_body rv_Concat))
      with (match iter (List.length gxs) Fconcat 0 (mkEnv xs ys gys gxs (concat_att dim) (off_loc 0) []) with
            | Some E' => run rO radd ropp 58 E' [] | None => None end).
    destruct (iter _ Fconcat 0 _); reflexivity.
  Qed.

  Lemma step_Concat xs ys gy gxs dim off i g : nth_error gxs i = Some g ->
    Fconcat i (mkEnv xs ys [gy] gxs (concat_att dim) (off_loc off) [])
    = Some (mkEnv xs ys [gy] (upd_nth i (acc_add rO radd (t_slice rO gy dim off (off + tget (fst g) dim)) g) gxs)
                  (concat_att dim) (off_loc (off + tget (fst g) dim)) []).
  Proof.
    intro H. unfold Fconcat. cbn -[acc_add t_slice nth_error upd_nth]. rewrite H.
    cbn -[acc_add t_slice nth_error upd_nth]. rewrite H. cbn -[acc_add t_slice nth_error upd_nth]. reflexivity.
  Qed.

  Lemma iter_Concat xs ys gy dim : forall r pre off,
    iter (List.length r) Fconcat (List.length pre) (mkEnv xs ys [gy] (pre ++ r) (concat_att dim) (off_loc off) [])
    = Some (mkEnv xs ys [gy] (pre ++ concat_fold gy dim r off) (concat_att dim) (off_loc (concat_end dim r off)) []).
  Proof.
    induction r as [|g r IH]; intros pre off; cbn [List.length iter concat_fold concat_end fold_left]; [reflexivity|].
    rewrite (step_Concat xs ys gy (pre ++ g :: r) dim off (List.length pre) g (nth_error_mid pre g r)), upd_nth_app.
    specialize (IH (pre ++ [acc_add rO radd (t_slice rO gy dim off (off + tget (fst g) dim)) g]) (off + tget (fst g) dim)).
    rewrite app_length in IH. cbn [List.length] in IH. rewrite Nat.add_1_r, <- !app_assoc in IH. exact IH.
  Qed.

  (* the increment of operand k = the backward of the concrete family (GraphInst.concat_bw) *)
  Lemma concat_piece sy sk dim off (gy gxk : list R) :
    paste_ok sy sk dim off = true -> tset sy dim (tget sk dim) = rebatch sk (tbatch sy) -> List.length gxk = tsize sk ->
    acc_add rO radd (t_slice rO (sy, gy) dim off (off + tget sk dim)) (sk, gxk)
    = (sk, vplus gxk (concat_bw rO radd sy sk dim off gy)).
  Proof.
    intros Hp Hs Hl. unfold acc_add, t_slice, concat_bw. cbn [fst snd].
    replace (off + tget sk dim - off) with (tget sk dim) by lia. rewrite Hs. f_equal.
    rewrite <- Hl. apply (scatter_vplus _ _ _ (tsize (rebatch sk (tbatch sy)))). rewrite Hl.
    unfold paste_ok in Hp. cbv zeta in Hp. bsplit.
    match goal with H : orb _ _ = true |- _ => apply orb_eqb in H; rename H into Hbk end.
    apply (ProofsGather.inplace_add_in_bounds (rebatch sk (tbatch sy)) sk (tvolume sk) (tbatch sy) (tbatch sk)); try reflexivity; lia.
  Qed.

  Lemma concat_off_mid (pre : list tshape) sk rest dim :
    concat_off (pre ++ sk :: rest) dim (List.length pre) = ProofsGather.sumn (map (adim dim) pre).
  Proof. unfold concat_off. rewrite firstn_app, Nat.sub_diag, firstn_all. cbn [firstn]. rewrite app_nil_r. reflexivity. Qed.

  Lemma concat_fold_incs sy (gy : list R) dim (shs : list tshape) :
    (forall k sk, nth_error shs k = Some sk ->
       paste_ok sy sk dim (concat_off shs dim k) = true /\ tset sy dim (tget sk dim) = rebatch sk (tbatch sy)) ->
    forall (r : list (tshape * list R)) (pre : list tshape),
      shs = pre ++ map fst r -> Forall (fun g => List.length (snd g) = tsize (fst g)) r ->
      concat_fold (sy, gy) dim r (ProofsGather.sumn (map (adim dim) pre))
      = map (fun kg => (fst (snd kg), vplus (snd (snd kg)) (concat_bw rO radd sy (fst (snd kg)) dim (concat_off shs dim (fst kg)) gy)))
            (combine (seq (List.length pre) (List.length r)) r).
  Proof.
    intros Hk. induction r as [|[sk gxk] r IH]; intros pre Hshs Hall; cbn [concat_fold List.length seq combine map fst snd]; [reflexivity|].
    cbn [map fst] in Hshs. inversion Hall as [|? ? Hg Hr]; subst. cbn [fst snd] in Hg.
    destruct (Hk (List.length pre) sk (nth_error_mid pre sk (map fst r))) as (Hp & Hs).
    rewrite concat_off_mid in *. rewrite (concat_piece sy sk dim _ gy gxk Hp Hs Hg). f_equal.
    specialize (IH (pre ++ [sk])). rewrite app_length, map_app, sumn_app in IH. cbn [List.length map] in IH.
    rewrite Nat.add_1_r in IH. unfold ProofsGather.sumn at 2 in IH. cbn [fold_right] in IH. rewrite Nat.add_0_r in IH.
    unfold adim at 2 in IH. apply IH; [rewrite <- app_assoc; reflexivity|exact Hr].
  Qed.

  (* index bookkeeping: per-position functions of (k, the k-th shape) *)
  Lemma map_seq_nth {A B} (f : nat -> A -> B) (d : A) : forall (l : list A) s,
    map (fun k => f k (nth (k - s) l d)) (seq s (List.length l)) = map (fun ks => f (fst ks) (snd ks)) (combine (seq s (List.length l)) l).
  Proof.
    induction l as [|a l IH]; intro s; cbn [List.length seq map combine fst snd]; [reflexivity|].
    rewrite Nat.sub_diag. cbn [nth]. f_equal. rewrite <- (IH (S s)). apply map_ext_in. intros k Hin. apply in_seq in Hin.
    replace (k - s) with (S (k - S s)) by lia. reflexivity.
  Qed.

  Lemma combine_incs (h : nat -> tshape -> list R) : forall (shs : list tshape) (gxds : list (list R)) s,
    List.length gxds = List.length shs ->
    map (fun kg : nat * (tshape * list R) => (fst (snd kg), vplus (snd (snd kg)) (h (fst kg) (fst (snd kg)))))
        (combine (seq s (List.length (combine shs gxds))) (combine shs gxds))
    = combine shs (map (fun p => vplus (fst p) (snd p))
                       (combine gxds (map (fun ks => h (fst ks) (snd ks)) (combine (seq s (List.length shs)) shs)))).
  Proof.
    induction shs as [|sk shs IH]; intros [|gxk gxds] s Hl; cbn [List.length] in Hl; try lia; cbn [combine List.length seq map fst snd]; [reflexivity|].
    f_equal. apply IH. lia.
  Qed.

  Lemma sized_combine : forall (shs : list tshape) (gxds : list (list R)), Forall2 (sized (R := R)) gxds shs ->
    List.length gxds = List.length shs /\ map fst (combine shs gxds) = shs /\
    Forall (fun g : tshape * list R => List.length (snd g) = tsize (fst g)) (combine shs gxds).
  Proof.
    intros shs gxds H. induction H as [|gxk sk gxds shs Hs _ IH]; cbn [combine map fst List.length]; [auto|].
    destruct IH as (A & B & C). split; [lia|split; [rewrite B; reflexivity|constructor; [exact Hs|exact C]]].
  Qed.

  Lemma eval_Concat xs ys sy (gy : list R) dim (shs : list tshape) (gxds : list (list R)) xv yv :
    concat_ok shs sy dim = true -> Forall2 (sized (R := R)) gxds shs ->
    (forall k sk, nth_error shs k = Some sk -> tset sy dim (tget sk dim) = rebatch sk (tbatch sy)) ->
    rbw rv_Concat (E0 xs ys [(sy, gy)] (combine shs gxds) (concat_att dim))
    = Some (combine shs (map (fun p => vplus (fst p) (snd p)) (combine gxds (d_bw (desc (OConcat shs sy dim)) xv yv [gy])))).
  Proof.
    intros Hok Hsz Hsh. destruct (sized_combine shs gxds Hsz) as (Hlen & Hfst & Hall).
    destruct (concat_ok_spec shs sy dim Hok) as (_ & _ & Hk).
    rewrite run_Concat.
    pose proof (iter_Concat xs ys (sy, gy) dim (combine shs gxds) [] 0) as H. cbn [List.length app] in H.
    unfold tens in *. rewrite H. cbn [e_gx]. f_equal.
    pose proof (concat_fold_incs sy gy dim shs (fun k sk E => conj (Hk k sk E) (Hsh k sk E)) (combine shs gxds) []
                  (eq_sym Hfst) Hall) as H2.
    unfold ProofsGather.sumn in H2. cbn [map fold_right List.length] in H2. rewrite H2.
    pose proof (combine_incs (fun k sk => concat_bw rO radd sy sk dim (concat_off shs dim k) gy) shs gxds 0 Hlen) as H3.
    cbv beta in H3. eapply eq_trans; [exact H3|].
    f_equal. f_equal. f_equal. cbn [describe nary_desc d_bw hd].
    rewrite <- (map_seq_nth (fun k sk => concat_bw rO radd sy sk dim (concat_off shs dim k) gy) dshape shs 0).
    apply map_ext. intro k. rewrite Nat.sub_0_r. reflexivity.
  Qed.

  (* ================================================================== BatchConcat:
     offset = 0; for (Tensor *gxi : gx) { span = gxi->shape().batch();
       *gxi += functions::batch::slice( *gy[0], offset, offset + span); offset += span; } *)
  Definition Fbconcat (i : nat) (E1 : env (R := R)) : option env :=
    match run rO radd ropp 58 (with_gxv E1 (("gxi", i) :: e_gxv E1)) (loop_body rv_BatchConcat) with
    | Some E2 => Some (scope E1 E2) | None => None end.
  Fixpoint bconcat_fold (gy : tens (R := R)) (r : list (tens (R := R))) (off : nat) : list tens :=
    match r with
    | [] => []
    | g :: r' => acc_add rO radd (t_bslice rO gy off (off + tbatch (fst g))) g :: bconcat_fold gy r' (off + tbatch (fst g))
    end.
  Definition bconcat_end (r : list (tens (R := R))) (off : nat) : nat := fold_left (fun o g => o + tbatch (fst g)) r off.

  Lemma run_BatchConcat xs ys gys gxs :
    rbw rv_BatchConcat (E0 xs ys gys gxs [])
    = match iter (List.length gxs) Fbconcat 0 (mkEnv xs ys gys gxs [] (off_loc 0) []) with
      | Some E' => Some (e_gx E') | None => None end.
  Proof.
    unfold run_bw.
    change (run rO radd ropp 60 (E0 xs ys gys gxs []) (f_body rv_BatchConcat))
      with (match iter (List.length gxs) Fbconcat 0 (mkEnv xs ys gys gxs [] (off_loc 0) []) with
            | Some E' => run rO radd ropp 58 E' [] | None => None end).
    destruct (iter _ Fbconcat 0 _); reflexivity.
  Qed.

  Lemma step_BatchConcat xs ys gy gxs off i g : nth_error gxs i = Some g ->
    Fbconcat i (mkEnv xs ys [gy] gxs [] (off_loc off) [])
    = Some (mkEnv xs ys [gy] (upd_nth i (acc_add rO radd (t_bslice rO gy off (off + tbatch (fst g))) g) gxs)
                  [] (off_loc (off + tbatch (fst g))) []).
  Proof.
    intro H. unfold Fbconcat. cbn -[acc_add t_bslice nth_error upd_nth]. rewrite H.
    cbn -[acc_add t_bslice nth_error upd_nth]. rewrite H. cbn -[acc_add t_bslice nth_error upd_nth]. reflexivity.
  Qed.

  Lemma iter_BatchConcat xs ys gy : forall r pre off,
    iter (List.length r) Fbconcat (List.length pre) (mkEnv xs ys [gy] (pre ++ r) [] (off_loc off) [])
    = Some (mkEnv xs ys [gy] (pre ++ bconcat_fold gy r off) [] (off_loc (bconcat_end r off)) []).
  Proof.
    induction r as [|g r IH]; intros pre off; cbn [List.length iter bconcat_fold bconcat_end fold_left]; [reflexivity|].
    rewrite (step_BatchConcat xs ys gy (pre ++ g :: r) off (List.length pre) g (nth_error_mid pre g r)), upd_nth_app.
    specialize (IH (pre ++ [acc_add rO radd (t_bslice rO gy off (off + tbatch (fst g))) g]) (off + tbatch (fst g))).
    rewrite app_length in IH. cbn [List.length] in IH. rewrite Nat.add_1_r, <- !app_assoc in IH. exact IH.
  Qed.

  Lemma bconcat_piece sy sk off (gy gxk : list R) :
    mkT (tdims sy) (tbatch sk) = sk -> 0 < tbatch sk -> List.length gxk = tsize sk ->
    acc_add rO radd (t_bslice rO (sy, gy) off (off + tbatch sk)) (sk, gxk)
    = (sk, vplus gxk (peq sk (ga (batch_slice_fw sy sk off) (tsize sk) gy))).
  Proof.
    intros Hs Hb Hl. unfold acc_add, t_bslice. cbn [fst snd].
    replace (off + tbatch sk - off) with (tbatch sk) by lia. rewrite Hs. f_equal. apply peq_acc; assumption.
  Qed.

  Lemma boff_mid (pre : list tshape) sk rest : boff (pre ++ sk :: rest) (List.length pre) = ProofsGather.sumn (map tbatch pre).
  Proof. unfold boff. rewrite firstn_app, Nat.sub_diag, firstn_all. cbn [firstn]. rewrite app_nil_r. reflexivity. Qed.

  Lemma bconcat_fold_incs sy (gy : list R) (shs : list tshape) :
    (forall k sk, nth_error shs k = Some sk -> 0 < tbatch sk /\ mkT (tdims sy) (tbatch sk) = sk) ->
    forall (r : list (tshape * list R)) (pre : list tshape),
      shs = pre ++ map fst r -> Forall (fun g => List.length (snd g) = tsize (fst g)) r ->
      bconcat_fold (sy, gy) r (ProofsGather.sumn (map tbatch pre))
      = map (fun kg => (fst (snd kg), vplus (snd (snd kg))
                          (peq (fst (snd kg)) (ga (batch_slice_fw sy (fst (snd kg)) (boff shs (fst kg))) (tsize (fst (snd kg))) gy))))
            (combine (seq (List.length pre) (List.length r)) r).
  Proof.
    intros Hk. induction r as [|[sk gxk] r IH]; intros pre Hshs Hall; cbn [bconcat_fold List.length seq combine map fst snd]; [reflexivity|].
    cbn [map fst] in Hshs. inversion Hall as [|? ? Hg Hr]; subst. cbn [fst snd] in Hg.
    destruct (Hk (List.length pre) sk (nth_error_mid pre sk (map fst r))) as (Hb & Hs).
    rewrite boff_mid in *. rewrite (bconcat_piece sy sk _ gy gxk Hs Hb Hg). f_equal.
    specialize (IH (pre ++ [sk])). rewrite app_length, map_app, sumn_app in IH. cbn [List.length map] in IH.
    rewrite Nat.add_1_r in IH. unfold ProofsGather.sumn at 2 in IH. cbn [fold_right] in IH. rewrite Nat.add_0_r in IH.
    apply IH; [rewrite <- app_assoc; reflexivity|exact Hr].
  Qed.

  Lemma eval_BatchConcat xs ys sy (gy : list R) (shs : list tshape) (gxds : list (list R)) xv yv :
    batch_concat_ok shs sy = true -> Forall2 (sized (R := R)) gxds shs ->
    (forall k sk, nth_error shs k = Some sk -> mkT (tdims sy) (tbatch sk) = sk) ->
    rbw rv_BatchConcat (E0 xs ys [(sy, gy)] (combine shs gxds) [])
    = Some (combine shs (map (fun p => vplus (fst p) (snd p)) (combine gxds (d_bw (desc (OBatchConcat shs sy)) xv yv [gy])))).
  Proof.
    intros Hok Hsz Hsh. destruct (sized_combine shs gxds Hsz) as (Hlen & Hfst & Hall).
    destruct (batch_concat_ok_spec shs sy Hok) as (_ & _ & Hk).
    rewrite run_BatchConcat.
    pose proof (iter_BatchConcat xs ys (sy, gy) (combine shs gxds) [] 0) as H. cbn [List.length app] in H.
    unfold tens in *. rewrite H. cbn [e_gx]. f_equal.
    pose proof (bconcat_fold_incs sy gy shs (fun k sk E => conj (proj1 (Hk k sk E)) (Hsh k sk E)) (combine shs gxds) []
                  (eq_sym Hfst) Hall) as H2.
    unfold ProofsGather.sumn in H2. cbn [map fold_right List.length] in H2. rewrite H2.
    pose proof (combine_incs (fun k sk => peq sk (ga (batch_slice_fw sy sk (boff shs k)) (tsize sk) gy)) shs gxds 0 Hlen) as H3.
    cbv beta in H3. eapply eq_trans; [exact H3|].
    f_equal. f_equal. f_equal. cbn [describe nary_desc d_bw hd].
    rewrite <- (map_seq_nth (fun k sk => peq sk (ga (batch_slice_fw sy sk (boff shs k)) (tsize sk) gy)) dshape shs 0).
    apply map_ext. intro k. rewrite Nat.sub_0_r. reflexivity.
  Qed.

  (* ================================================================== the adjoint identities *)
  Lemma F2_len {A B} (P : A -> B -> Prop) (a : list A) (b : list B) : Forall2 P a b -> List.length a = List.length b.
  Proof. induction 1; cbn [List.length]; congruence. Qed.

  Lemma sized1 (v : list R) sh : List.length v = tsize sh -> Forall2 (sized (R := R)) [v] [sh].
  Proof. intro H. constructor; [exact H|constructor]. Qed.

  Lemma dots1 (a b : list R) : dots [a] [b] = dot a b.
  Proof. cbn [OpFamily.dots]. ring. Qed.

  (* one operand, one result *)
  Lemma adjoint_unary (o : cop) (f : func) (E : env (R := R)) sx sy (x dx gy gx inc : list R) :
    d_ok (desc o) = true -> d_nop (desc o) = false -> d_args (desc o) = [sx] -> d_rets (desc o) = [sy] ->
    d_bw (desc o) [x] (d_fw (desc o) [x]) [gy] = [inc] ->
    rbw f E = Some [(sx, vplus gx inc)] ->
    List.length x = tsize sx -> List.length dx = tsize sx -> List.length gy = tsize sy -> List.length gx = tsize sx ->
    exists gx', rbw f E = Some [(sx, gx')] /\
      dot gx' dx = radd (dot gx dx) (dots [gy] (d_jvp (desc o) [x] [dx])).
  Proof.
    intros Hok Hnop Ha Hr Hbw Hev Hx Hdx Hgy Hgx. exists (vplus gx inc). split; [exact Hev|].
    pose proof (adjoint_of_increments o [x] [dx] [gy] [gx] Hok Hnop) as H. rewrite Ha, Hr in H.
    specialize (H (sized1 _ _ Hx) (sized1 _ _ Hdx) (sized1 _ _ Hgy) (sized1 _ _ Hgx)). cbv zeta in H.
    rewrite Hbw in H. cbn [combine map fst snd] in H. rewrite !dots1 in H. exact H.
  Qed.

  Theorem adjoint_Positive s (x dx gy gx : list R) : 0 < tbatch s ->
    List.length x = tsize s -> List.length dx = tsize s -> List.length gy = tsize s -> List.length gx = tsize s ->
    exists gx', rbw rv_Positive (E0 [(s, x)] [] [(s, gy)] [(s, gx)] []) = Some [(s, gx')] /\
      dot gx' dx = radd (dot gx dx) (dots [gy] (d_jvp (desc (OCopy s)) [x] [dx])).
  Proof.
    intros Hb Hx Hdx Hgy Hgx.
    apply (adjoint_unary (OCopy s) _ _ s s x dx gy gx (peq s gy)); try reflexivity; try assumption.
    - apply Nat.ltb_lt. exact Hb.
    - apply eval_Positive; assumption.
  Qed.

  Theorem adjoint_Copy s (x dx gy gx : list R) : 0 < tbatch s ->
    List.length x = tsize s -> List.length dx = tsize s -> List.length gy = tsize s -> List.length gx = tsize s ->
    exists gx', rbw rv_Copy (E0 [(s, x)] [] [(s, gy)] [(s, gx)] []) = Some [(s, gx')] /\
      dot gx' dx = radd (dot gx dx) (dots [gy] (d_jvp (desc (OCopy s)) [x] [dx])).
  Proof.
    intros Hb Hx Hdx Hgy Hgx.
    apply (adjoint_unary (OCopy s) _ _ s s x dx gy gx (peq s gy)); try reflexivity; try assumption.
    - apply Nat.ltb_lt. exact Hb.
    - apply eval_Copy; assumption.
  Qed.

  Theorem adjoint_Negative s (x dx gy gx : list R) : 0 < tbatch s ->
    List.length x = tsize s -> List.length dx = tsize s -> List.length gy = tsize s -> List.length gx = tsize s ->
    exists gx', rbw rv_Negative (E0 [(s, x)] [] [(s, gy)] [(s, gx)] []) = Some [(s, gx')] /\
      dot gx' dx = radd (dot gx dx) (dots [gy] (d_jvp (desc (ONeg s)) [x] [dx])).
  Proof.
    intros Hb Hx Hdx Hgy Hgx.
    apply (adjoint_unary (ONeg s) _ _ s s x dx gy gx (peq s (vneg ropp gy))); try reflexivity; try assumption.
    - apply Nat.ltb_lt. exact Hb.
    - apply eval_Negative; assumption.
  Qed.

  Theorem adjoint_Reshape sx sy (x dx gy gx : list R) : reshape_ok sx sy = true ->
    List.length x = tsize sx -> List.length dx = tsize sx -> List.length gy = tsize sy -> List.length gx = tsize sx ->
    exists gx', rbw rv_Reshape (E0 [(sx, x)] [] [(sy, gy)] [(sx, gx)] []) = Some [(sx, gx')] /\
      dot gx' dx = radd (dot gx dx) (dots [gy] (d_jvp (desc (OReshape sx sy)) [x] [dx])).
  Proof.
    intros Hok Hx Hdx Hgy Hgx.
    apply (adjoint_unary (OReshape sx sy) _ _ sx sy x dx gy gx (peq sx gy)); try reflexivity; try assumption.
    unfold reshape_ok in Hok. bsplit. apply eval_Reshape; assumption.
  Qed.

  Theorem adjoint_Flatten sx sy (x dx gy gx : list R) : reshape_ok sx sy = true ->
    List.length x = tsize sx -> List.length dx = tsize sx -> List.length gy = tsize sy -> List.length gx = tsize sx ->
    exists gx', rbw rv_Flatten (E0 [(sx, x)] [] [(sy, gy)] [(sx, gx)] []) = Some [(sx, gx')] /\
      dot gx' dx = radd (dot gx dx) (dots [gy] (d_jvp (desc (OReshape sx sy)) [x] [dx])).
  Proof.
    intros Hok Hx Hdx Hgy Hgx.
    apply (adjoint_unary (OReshape sx sy) _ _ sx sy x dx gy gx (peq sx gy)); try reflexivity; try assumption.
    unfold reshape_ok in Hok. bsplit. apply eval_Flatten; assumption.
  Qed.

  Theorem adjoint_Sum sx sy dim (x dx gy gx : list R) : sum_ok sx sy dim = true -> tset sy dim (tget sx dim) = sx ->
    List.length x = tsize sx -> List.length dx = tsize sx -> List.length gy = tsize sy -> List.length gx = tsize sx ->
    exists gx', rbw rv_Sum (E0 [(sx, x)] [] [(sy, gy)] [(sx, gx)] [("dim_", VN dim)]) = Some [(sx, gx')] /\
      dot gx' dx = radd (dot gx dx) (dots [gy] (d_jvp (desc (OSum sx sy dim)) [x] [dx])).
  Proof.
    intros Hok Hs Hx Hdx Hgy Hgx.
    apply (adjoint_unary (OSum sx sy dim) _ _ sx sy x dx gy gx
             (peq sx (ga (broadcast_fw sy sx dim (tget sx dim)) (tsize sx) gy))); try reflexivity; try assumption.
    unfold sum_ok in Hok. bsplit. apply eval_Sum; assumption.
  Qed.

  Theorem adjoint_Broadcast sx sy dim size (x dx gy gx : list R) :
    (sum_ok sy sx dim && Nat.eqb (tget sy dim) size)%bool = true -> tset sy dim 1 = sx ->
    List.length x = tsize sx -> List.length dx = tsize sx -> List.length gy = tsize sy -> List.length gx = tsize sx ->
    exists gx', rbw rv_Broadcast (E0 [(sx, x)] [] [(sy, gy)] [(sx, gx)] [("dim_", VN dim); ("size_", VN size)]) = Some [(sx, gx')] /\
      dot gx' dx = radd (dot gx dx) (dots [gy] (d_jvp (desc (OBroadcast sx sy dim size)) [x] [dx])).
  Proof.
    intros Hok Hs Hx Hdx Hgy Hgx.
    apply (adjoint_unary (OBroadcast sx sy dim size) _ _ sx sy x dx gy gx
             (peq sx (sc (red_acc (axis_red sy sx dim)) gy (zeros (tsize sx))))); try reflexivity; try assumption.
    apply andb_prop in Hok. destruct Hok as (Hok & _). unfold sum_ok in Hok. bsplit. apply eval_Broadcast; assumption.
  Qed.

  Theorem adjoint_BatchSum sx sy (x dx gy gx : list R) : batch_sum_ok sx sy = true ->
    List.length x = tsize sx -> List.length dx = tsize sx -> List.length gy = tsize sy -> List.length gx = tsize sx ->
    exists gx', rbw rv_BatchSum (E0 [(sx, x)] [] [(sy, gy)] [(sx, gx)] []) = Some [(sx, gx')] /\
      dot gx' dx = radd (dot gx dx) (dots [gy] (d_jvp (desc (OBatchSum sx sy)) [x] [dx])).
  Proof.
    intros Hok Hx Hdx Hgy Hgx.
    apply (adjoint_unary (OBatchSum sx sy) _ _ sx sy x dx gy gx (sc (inplace_add sy sx) gy (zeros (tsize sx)))); try reflexivity; try assumption.
    apply eval_BatchSum; assumption.
  Qed.

  (* one operand, n results (Split, BatchSplit): gys = the n result gradients *)
  Lemma adjoint_fan (o : cop) (f : func) (E : env (R := R)) sx sy n (x dx gx inc : list R) (gys : list (list R)) :
    d_ok (desc o) = true -> d_nop (desc o) = false -> d_args (desc o) = [sx] -> d_rets (desc o) = repeat sy n ->
    d_bw (desc o) [x] (d_fw (desc o) [x]) gys = [inc] ->
    rbw f E = Some [(sx, vplus gx inc)] ->
    List.length x = tsize sx -> List.length dx = tsize sx -> Forall2 (sized (R := R)) gys (repeat sy n) -> List.length gx = tsize sx ->
    exists gx', rbw f E = Some [(sx, gx')] /\
      dot gx' dx = radd (dot gx dx) (dots gys (d_jvp (desc o) [x] [dx])).
  Proof.
    intros Hok Hnop Ha Hr Hbw Hev Hx Hdx Hgy Hgx. exists (vplus gx inc). split; [exact Hev|].
    pose proof (adjoint_of_increments o [x] [dx] gys [gx] Hok Hnop) as H. rewrite Ha, Hr in H.
    specialize (H (sized1 _ _ Hx) (sized1 _ _ Hdx) Hgy (sized1 _ _ Hgx)). cbv zeta in H.
    rewrite Hbw in H. cbn [combine map fst snd] in H. rewrite !dots1 in H. exact H.
  Qed.

  Theorem adjoint_Split sx sy dim n (x dx gx gyd0 : list R) ys (gyds : list (list R)) :
    split_ok sx sy dim n = true -> Forall2 (sized (R := R)) (gyd0 :: gyds) (repeat sy n) ->
    List.length x = tsize sx -> List.length dx = tsize sx -> List.length gx = tsize sx ->
    exists gx', rbw rv_Split (E0 [(sx, x)] ys (map (fun d => (sy, d)) (gyd0 :: gyds)) [(sx, gx)] (split_att dim n)) = Some [(sx, gx')] /\
      dot gx' dx = radd (dot gx dx) (dots (gyd0 :: gyds) (d_jvp (desc (OSplit sx sy dim n)) [x] [dx])).
  Proof.
    intros Hok Hgy Hx Hdx Hgx.
    assert (Hn : List.length (gyd0 :: gyds) = n) by (rewrite (F2_len _ _ _ Hgy), repeat_length; reflexivity).
    apply (adjoint_fan (OSplit sx sy dim n) _ _ sx sy n x dx gx
             (fan_acc rO radd (fun j => slice_bw sy sx dim (j * tget sy dim)) 0 (gyd0 :: gyds) (zeros (tsize sx)))); try reflexivity; try assumption.
    apply eval_Split; assumption.
  Qed.

  Theorem adjoint_BatchSplit sx sy n (x dx gx gyd0 : list R) ys (gyds : list (list R)) :
    batch_split_ok sx sy n = true -> Forall2 (sized (R := R)) (gyd0 :: gyds) (repeat sy n) ->
    List.length x = tsize sx -> List.length dx = tsize sx -> List.length gx = tsize sx ->
    exists gx', rbw rv_BatchSplit (E0 [(sx, x)] ys (map (fun d => (sy, d)) (gyd0 :: gyds)) [(sx, gx)] (bsplit_att n)) = Some [(sx, gx')] /\
      dot gx' dx = radd (dot gx dx) (dots (gyd0 :: gyds) (d_jvp (desc (OBatchSplit sx sy n)) [x] [dx])).
  Proof.
    intros Hok Hgy Hx Hdx Hgx.
    assert (Hn : List.length (gyd0 :: gyds) = n) by (rewrite (F2_len _ _ _ Hgy), repeat_length; reflexivity).
    apply (adjoint_fan (OBatchSplit sx sy n) _ _ sx sy n x dx gx
             (fan_acc rO radd (fun j => batch_slice_bw sy sx (j * tbatch sy)) 0 (gyd0 :: gyds) (zeros (tsize sx)))); try reflexivity; try assumption.
    apply eval_BatchSplit; assumption.
  Qed.

  (* several operands, one result (Concat, BatchConcat) *)
  Lemma map_snd_combine {A B} : forall (a : list A) (b : list B), List.length b = List.length a -> map snd (combine a b) = b.
  Proof. induction a as [|x a IH]; intros [|y b] H; cbn [List.length] in H; try lia; cbn [combine map snd]; [reflexivity|]. f_equal. apply IH. lia. Qed.

  Lemma map_fst_combine {A B} : forall (a : list A) (b : list B), List.length b = List.length a -> map fst (combine a b) = a.
  Proof. induction a as [|x a IH]; intros [|y b] H; cbn [List.length] in H; try lia; cbn [combine map fst]; [reflexivity|]. f_equal. apply IH. lia. Qed.

  Lemma adjoint_nary (o : cop) (f : func) (E : env (R := R)) shs sy (xs dxs gxds : list (list R)) (gy : list R) :
    d_ok (desc o) = true -> d_nop (desc o) = false -> d_args (desc o) = shs -> d_rets (desc o) = [sy] ->
    rbw f E = Some (combine shs (map (fun p => vplus (fst p) (snd p)) (combine gxds (d_bw (desc o) xs (d_fw (desc o) xs) [gy])))) ->
    Forall2 (sized (R := R)) xs shs -> Forall2 (sized (R := R)) dxs shs -> List.length gy = tsize sy -> Forall2 (sized (R := R)) gxds shs ->
    exists gxs', rbw f E = Some gxs' /\ map fst gxs' = shs /\
      dots (map snd gxs') dxs = radd (dots gxds dxs) (dots [gy] (d_jvp (desc o) xs dxs)).
  Proof.
    intros Hok Hnop Ha Hr Hev Hx Hdx Hgy Hgx. eexists. split; [exact Hev|].
    pose proof (adjoint_of_increments o xs dxs [gy] gxds Hok Hnop) as H. rewrite Ha, Hr in H.
    specialize (H Hx Hdx (sized1 _ _ Hgy) Hgx). cbv zeta in H.
    destruct (describe_LA rO rI radd rmul rsub ropp Rth o Hok xs dxs [gy]) as (_ & Hinc & _);
      [rewrite Ha; exact Hx|rewrite Ha; exact Hdx|rewrite Hr; apply sized1; exact Hgy|].
    rewrite Hnop, Ha in Hinc. specialize (Hinc eq_refl).
    assert (Hl : List.length (map (fun p : list R * list R => vplus (fst p) (snd p)) (combine gxds (d_bw (desc o) xs (d_fw (desc o) xs) [gy]))) = List.length shs).
    { rewrite map_length, combine_length, (F2_len _ _ _ Hgx), (F2_len _ _ _ Hinc). apply Nat.min_id. }
    split.
    - apply map_fst_combine. exact Hl.
    - rewrite map_snd_combine by exact Hl. exact H.
  Qed.

  Theorem adjoint_Concat xs ys sy (gy : list R) dim (shs : list tshape) (xv dxs gxds : list (list R)) :
    concat_ok shs sy dim = true ->
    (forall k sk, nth_error shs k = Some sk -> tset sy dim (tget sk dim) = rebatch sk (tbatch sy)) ->
    Forall2 (sized (R := R)) xv shs -> Forall2 (sized (R := R)) dxs shs -> List.length gy = tsize sy -> Forall2 (sized (R := R)) gxds shs ->
    exists gxs', rbw rv_Concat (E0 xs ys [(sy, gy)] (combine shs gxds) (concat_att dim)) = Some gxs' /\ map fst gxs' = shs /\
      dots (map snd gxs') dxs = radd (dots gxds dxs) (dots [gy] (d_jvp (desc (OConcat shs sy dim)) xv dxs)).
  Proof.
    intros Hok Hsh Hx Hdx Hgy Hgx.
    apply (adjoint_nary (OConcat shs sy dim) _ _ shs sy xv dxs gxds gy); try reflexivity; try assumption.
    apply eval_Concat; assumption.
  Qed.

  Theorem adjoint_BatchConcat xs ys sy (gy : list R) (shs : list tshape) (xv dxs gxds : list (list R)) :
    batch_concat_ok shs sy = true ->
    (forall k sk, nth_error shs k = Some sk -> mkT (tdims sy) (tbatch sk) = sk) ->
    Forall2 (sized (R := R)) xv shs -> Forall2 (sized (R := R)) dxs shs -> List.length gy = tsize sy -> Forall2 (sized (R := R)) gxds shs ->
    exists gxs', rbw rv_BatchConcat (E0 xs ys [(sy, gy)] (combine shs gxds) []) = Some gxs' /\ map fst gxs' = shs /\
      dots (map snd gxs') dxs = radd (dots gxds dxs) (dots [gy] (d_jvp (desc (OBatchConcat shs sy)) xv dxs)).
  Proof.
    intros Hok Hsh Hx Hdx Hgy Hgx.
    apply (adjoint_nary (OBatchConcat shs sy) _ _ shs sy xv dxs gxds gy); try reflexivity; try assumption.
    apply eval_BatchConcat; assumption.
  Qed.
End Adj.
