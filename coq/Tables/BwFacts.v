(* The finite table theorems of the bwtables part of property C01: each is
   `forallb check table = true`, closed by vm_compute over the REGENERATED table
   (Gen/BwTables.v) and lifted with forallb_forall.  When one breaks,
   `bad_methods check` / `bad_classes check` (Tables/BwCheck.v) name the operators. *)
From Coq Require Import List String Bool Arith.
From PV Require Import Tables.OpSyntax Tables.OpUtil Tables.OpRows Tables.BwReviewed Gen.BwTables Tables.BwCheck.
Import ListNotations.

Lemma lift {A} (chk : A -> bool) (l : list A) : forallb chk l = true -> forall x, In x l -> chk x = true.
Proof. intros H. apply forallb_forall. exact H. Qed.

Lemma acc_methods_b : forallb bw_acc_ok bw_all = true.                  Proof. vm_compute; reflexivity. Qed.
Lemma acc_classes_b : forallb (fun o => has_bw o && nop_ok o) bw_op_classes = true.
Proof. vm_compute; reflexivity. Qed.
Lemma deleg_classes_b : forallb (fun o => if is_delegating (oc_name o) then deleg_ok o else true) bw_op_classes = true.
Proof. vm_compute; reflexivity. Qed.
Lemma composite_classes_b : forallb (fun o => if is_composite (oc_name o) then reviewed_ok (oc_name o) else true) bw_op_classes = true.
Proof. vm_compute; reflexivity. Qed.
Lemma cache_delta_b : cache_delta_ok = true.                            Proof. vm_compute; reflexivity. Qed.
Lemma reviewed_names_b : reviewed_names_ok = true.                      Proof. vm_compute; reflexivity. Qed.
Lemma nonempty_b : bw_tables_nonempty = true.                           Proof. vm_compute; reflexivity. Qed.

(* In EVERY BACKWARD body (plain build and the bodies that differ under PRIMITIV_USE_CACHE) every
   statement that writes through gx[i] / a `Tensor *gxi : gx` / param_.gradient() is
   `target += e` or `target -= e` with e independent of the accumulators, or a call
   dev.<entry>(.., *gx[i] ..) of an accumulating Device entry (every *_bw, inplace_add,
   inplace_subtract) with the accumulators exactly at the `Tensor &` positions of its signature;
   no plain assignment to an accumulator, no other mention of one except ->shape() / ->device();
   nothing unparsed.  Every operator class has exactly one BACKWARD; the BACKWARD_NOP operators
   have an empty body, and an operator without operands is one of them or Parameter. *)
Theorem bw_accumulates_only :
  (forall f, In f bw_all -> bw_acc_ok f = true) /\
  (forall o, In o bw_op_classes -> has_bw o = true /\ nop_ok o = true) /\
  bw_tables_nonempty = true.
Proof.
  split. exact (lift _ _ acc_methods_b).
  split. intros o Ho. pose proof (lift _ _ acc_classes_b o Ho) as H. cbv beta in H.
    apply andb_true_iff in H. exact H.
  exact nonempty_b.
Qed.

(* For every operator that is neither a NOP nor a reviewed composite: FORWARD(op) is the single
   assignment *y[0] = e with e reaching exactly one Device entry <f>_fw, and BACKWARD(op) is the
   single call gy[0]->device().<f>_bw(x.., *y[0], *gy[0], attributes.., gx..) (or
   ( *gy[0], attributes.., gx.. ) where Device::<f>_bw takes only gy), the operands in the order
   and the attributes - members or literal constants - in the order FORWARD hands them to <f>_fw,
   laid out as the signature of Device::<f>_bw demands. *)
Theorem bw_delegation_ok :
  forall o, In o bw_op_classes -> is_delegating (oc_name o) = true -> deleg_ok o = true.
Proof.
  intros o Ho Hd. pose proof (lift _ _ deleg_classes_b o Ho) as H.
  cbv beta in H. rewrite Hd in H. exact H.
Qed.

(* The composite BACKWARD bodies are the reviewed copies of Tables/BwReviewed.v (each with the
   mathematical rule it implements), in the plain build and under PRIMITIV_USE_CACHE; the
   reviewed file names existing operators only. *)
Theorem bw_composites_reviewed :
  (forall o, In o bw_op_classes -> is_composite (oc_name o) = true -> reviewed_ok (oc_name o) = true) /\
  cache_delta_ok = true /\ reviewed_names_ok = true.
Proof.
  split; [|split; [exact cache_delta_b|exact reviewed_names_b]].
  intros o Ho Hc. pose proof (lift _ _ composite_classes_b o Ho) as H.
  cbv beta in H. rewrite Hc in H. exact H.
Qed.

(* the three groups partition the operator classes *)
Lemma groups_partition o :
  (is_nop (oc_name o) = true /\ is_composite (oc_name o) = false /\ is_delegating (oc_name o) = false) \/
  (is_nop (oc_name o) = false /\ is_composite (oc_name o) = true /\ is_delegating (oc_name o) = false) \/
  (is_nop (oc_name o) = false /\ is_composite (oc_name o) = false /\ is_delegating (oc_name o) = true).
Proof.
  unfold is_delegating, is_composite.
  destruct (is_nop (oc_name o)); destruct (reviewed_of (oc_name o)); cbv [negb andb]; auto.
Qed.
