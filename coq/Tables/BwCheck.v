(* Boolean checkers over the regenerated BACKWARD table Gen/BwTables.v (bwtables part of
   property C01).  Executable definitions only; the theorems are in Tables/BwFacts.v and
   Props/Properties_C01_tables.v.

   Every operator class falls in exactly one of three groups:
     NOP         the class is listed in BwReviewed.rv_nops: BACKWARD_NOP, the body must be empty
     COMPOSITE   a reviewed copy of its body exists in BwReviewed.rv_bw: the regenerated body must
                 be that copy (the copies carry the mathematical rule; the rules of the gather-type
                 ones are proved adjoint to the forward kernels in Tables/BwAdjoint.v)
     DELEGATING  everything else: FORWARD(op) must be a single assignment `*y[0] = e` where e
                 reaches ONE Device entry <f>_fw (through the Tensor function / arithmetic operator
                 it is written with; for the two-tensor functions with a scalar dispatch, on the path
                 where neither operand is a scalar - the only path on which the Node API constructs
                 this operator, C04_delegation_ok), and BACKWARD(op) must be the single call
                 gy[0]->device().<f>_bw(<x..>, *y[0], *gy[0], <attributes..>, <gx..>) laid out as the
                 signature of Device::<f>_bw demands, with the operands in the order and the
                 attributes (members or literal constants) FORWARD hands to <f>_fw.
   Independently, EVERY body must be accumulate-only (bw_acc_ok). *)
From Coq Require Import List String Ascii Bool Arith.
From PV Require Import Tables.OpSyntax Tables.OpUtil Tables.OpRows Tables.BwReviewed Gen.BwTables.
Import ListNotations.
Local Open Scope string_scope.
Local Open Scope bool_scope.

(* ------------------------------------------------------------------ structural equality of bodies
   (the same definitions as in Tables/OpCheck.v, which cannot be imported here because it is
   instantiated at Gen/OpTables.v) *)
Fixpoint st_eqb (fuel : nat) (a b : st) : bool :=
  match fuel with
  | O => false
  | S k =>
    let l_eqb := fix l_eqb (x y : list st) : bool :=
        match x, y with
        | [], [] => true
        | p :: x', q :: y' => st_eqb k p q && l_eqb x' y'
        | _, _ => false
        end in
    match a, b with
    | SAssign l r, SAssign l' r' => ex_eqb l l' && ex_eqb r r'
    | SOpAssign o l r, SOpAssign o' l' r' => seqb o o' && ex_eqb l l' && ex_eqb r r'
    | SExp e, SExp e' => ex_eqb e e'
    | SDecl t n (Some e), SDecl t' n' (Some e') => seqb t t' && seqb n n' && ex_eqb e e'
    | SDecl t n None, SDecl t' n' None => seqb t t' && seqb n n'
    | SRet e, SRet e' => ex_eqb e e'
    | SRetVoid, SRetVoid => true
    | SThrow, SThrow => true
    | SIf c t e, SIf c' t' e' => ex_eqb c c' && l_eqb t t' && l_eqb e e'
    | SFor v lo hi b, SFor v' lo' hi' b' => seqb v v' && ex_eqb lo lo' && ex_eqb hi hi' && l_eqb b b'
    | SForEach v r b, SForEach v' r' b' => seqb v v' && ex_eqb r r' && l_eqb b b'
    | _, _ => false
    end
  end.

Fixpoint stl_eqb (x y : list st) : bool :=
  match x, y with
  | [], [] => true
  | p :: x', q :: y' => st_eqb 20 p q && stl_eqb x' y'
  | _, _ => false
  end.

Definition params_eqb (a b : list param) : bool :=
  strl_eqb (types a) (types b) && strl_eqb (names a) (names b).

Definition func_eqb (a b : func) : bool :=
  seqb (f_ns a) (f_ns b) && seqb (f_qual a) (f_qual b) && seqb (f_name a) (f_name b) &&
  seqb (f_ret a) (f_ret b) && params_eqb (f_params a) (f_params b) && stl_eqb (f_body a) (f_body b).

Definition mem (s : string) (l : list string) : bool := existsb (seqb s) l.

(* ------------------------------------------------------------------ lookups in the regenerated table *)
Definition bw_of_in (tbl : list func) (c : string) : option func := find (fun f => seqb (f_qual f) c) tbl.
Definition bw_of := bw_of_in bw_methods.
Definition fw_of (c : string) : option func := find (fun f => seqb (f_qual f) c) bw_fw_methods.
Definition dev_sig (m : string) : option func := find (fun f => seqb (f_name f) m) bw_device_sigs.
Definition bw_all : list func := (bw_methods ++ bw_methods_cache_delta)%list.

(* ================================================================== (1) accumulate-only *)
(* pointers to an accumulator: gx[i], or the loop variable of `for (Tensor *gxi : gx)` *)
Definition is_gx_ptr (vs : list string) (e : ex) : bool :=
  match e with
  | Idx (Id g) _ => seqb g "gx"
  | Id v => mem v vs
  | _ => false
  end.

Definition gx_index (e : ex) : ex := match e with Idx _ i => i | _ => Lit "0" end.

Definition is_gx_id (vs : list string) (e : ex) : bool :=
  match e with Id s => seqb s "gx" || seqb s "param_" || mem s vs | _ => false end.

(* e does not depend on the VALUE of any accumulator: gx / a gx loop variable / param_ may occur
   only as  gx[i]->shape()  or  gx[i]->device()  (shape and device of an accumulator are not
   changed by accumulation) *)
Definition gx_free (vs : list string) (e : ex) : bool :=
  negb (ex_any (is_gx_id vs)
     (rw (fun x => match x with
                   | Meth (Deref p) m [] =>
                       if (seqb m "shape" || seqb m "device") && is_gx_ptr vs p then Some (gx_index p) else None
                   | _ => None
                   end) e)).

(* an lvalue that IS an accumulator: *gx[i] (index independent of gx), *gxi, param_.gradient() *)
Definition is_gx_target (vs : list string) (e : ex) : bool :=
  match e with
  | Deref p => is_gx_ptr vs p && gx_free vs (gx_index p)
  | Meth (Id p) g [] => seqb p "param_" && seqb g "gradient"
  | _ => false
  end.

(* Device entry points that only ever ADD into their `Tensor &` parameters: every *_bw, and
   inplace_add / inplace_subtract (what Tensor::operator+= / -= call).  That these kernels
   themselves accumulate is the subject of the kernel-level models (Tensor/Kernels.v: every *_bw
   is an `acc` program run by `scatter`; correspondence on non-zero prior accumulators). *)
Definition accumulating_entry (m : string) : bool :=
  (suffixb "_bw" m || seqb m "inplace_add" || seqb m "inplace_subtract") &&
  match dev_sig m with
  | Some sg => existsb (fun t => seqb t "X&") (types (f_params sg))
  | None => false
  end.

Definition locals := list (string * string).   (* name, type *)

Definition is_dev_recv (ls : locals) (r : ex) : bool :=
  match r with
  | Meth (Deref (Idx (Id t) _)) d [] => seqb d "device" && (seqb t "gy" || seqb t "x" || seqb t "y")
  | Id v => match assoc v ls with Some ty => seqb ty "Device&" | None => false end
  | _ => false
  end.

Fixpoint args_ok (vs : list string) (a : list ex) (tys : list string) : bool :=
  match a, tys with
  | [], [] => true
  | e :: a', t :: tys' =>
      (if seqb t "X&" then (match e with Deref _ => is_gx_target vs e | _ => false end) else gx_free vs e) && args_ok vs a' tys'
  | _, _ => false
  end.

(* dev.<name>_bw(..., *gx[i] ...): gx occurs exactly at the accumulator positions of the signature *)
Definition accum_call (vs : list string) (ls : locals) (e : ex) : bool :=
  match e with
  | Meth r m a =>
      is_dev_recv ls r && gx_free vs r && accumulating_entry m &&
      match dev_sig m with
      | Some sg => args_ok vs a (types (f_params sg))
      | None => false
      end
  | _ => false
  end.

Definition reserved (n : string) : bool := mem n ["x"; "y"; "gy"; "gx"; "param_"].

Definition local_lhs (vs : list string) (ls : locals) (l : ex) : bool :=
  match l with
  | Id v => (match assoc v ls with Some _ => true | None => false end) && negb (reserved v) && negb (mem v vs)
  | _ => false
  end.

Definition acc_op (o : string) : bool := seqb o "+=" || seqb o "-=".

(* every statement that writes through an accumulator is `target += e` / `target -= e` with e
   independent of the accumulators, or a call of an accumulating Device entry with the
   accumulators exactly at its `Tensor &` positions; nothing else mentions an accumulator *)
Fixpoint stl_acc (fuel : nat) (vs : list string) (ls : locals) (ss : list st) {struct fuel} : bool :=
  match fuel with
  | O => false
  | S k =>
    match ss with
    | [] => true
    | s :: rest =>
      match s with
      | SDecl ty n (Some e) => gx_free vs e && negb (reserved n) && negb (mem n vs) && stl_acc k vs ((n, ty) :: ls) rest
      | SDecl ty n None => negb (reserved n) && negb (mem n vs) && stl_acc k vs ((n, ty) :: ls) rest
      | SOpAssign o l r =>
          ((is_gx_target vs l && acc_op o && gx_free vs r) || (local_lhs vs ls l && gx_free vs r)) && stl_acc k vs ls rest
      | SAssign l r => local_lhs vs ls l && gx_free vs r && stl_acc k vs ls rest
      | SExp e => (accum_call vs ls e || gx_free vs e) && stl_acc k vs ls rest
      | SFor v lo hi b =>
          gx_free vs lo && gx_free vs hi && negb (reserved v) && stl_acc k vs ((v, "u32") :: ls) b && stl_acc k vs ls rest
      | SForEach v r b =>
          negb (reserved v) &&
          (if ex_eqb r (Id "gx") then stl_acc k (v :: vs) ls b
           else gx_free vs r && stl_acc k vs ((v, "?") :: ls) b) && stl_acc k vs ls rest
      | SIf c t e => gx_free vs c && stl_acc k vs ls t && stl_acc k vs ls e && stl_acc k vs ls rest
      | SRetVoid => stl_acc k vs ls rest
      | SThrow => stl_acc k vs ls rest
      | _ => false
      end
    end
  end.

Definition body_acc_ok (ss : list st) : bool := body_clean ss && stl_acc 400 [] [] ss.
Definition bw_acc_ok (f : func) : bool := body_acc_ok (f_body f).

(* ------------------------------------------------------------------ the three groups *)
Definition is_nop (c : string) : bool := mem c rv_nops.
Definition reviewed_of (c : string) : option func := find (fun f => seqb (f_qual f) c) rv_bw.
Definition is_composite (c : string) : bool :=
  negb (is_nop c) && match reviewed_of c with Some _ => true | None => false end.
Definition is_delegating (c : string) : bool := negb (is_nop c) && negb (is_composite c).

Definition has_bw (o : opclass) : bool :=
  Nat.eqb (List.length (filter (fun f => seqb (f_qual f) (oc_name o)) bw_methods)) 1.

(* BACKWARD_NOP operators write nothing; an operator without operands is a NOP or Parameter *)
Definition nop_ok (o : opclass) : bool :=
  (if is_nop (oc_name o) then match bw_of (oc_name o) with Some f => match f_body f with [] => true | _ => false end | None => false end
   else true) &&
  (match count_of (class_const o "num_arguments") with
   | CNum 0 => is_nop (oc_name o) || seqb (oc_name o) "Parameter"
   | _ => true
   end).

(* ================================================================== (3) composites = reviewed copies *)
Definition reviewed_ok (c : string) : bool :=
  match bw_of c, reviewed_of c with
  | Some g, Some v => func_eqb g v
  | _, _ => false
  end.

Fixpoint funcs_eqb (a b : list func) : bool :=
  match a, b with
  | [], [] => true
  | f :: a', g :: b' => func_eqb f g && funcs_eqb a' b'
  | _, _ => false
  end.

Definition cache_delta_ok : bool := funcs_eqb bw_methods_cache_delta rv_bw_cache_delta.

(* the reviewed file is not stale: every reviewed body / NOP names an operator class *)
Definition reviewed_names_ok : bool :=
  forallb (fun v => existsb (fun o => seqb (oc_name o) (f_qual v)) bw_op_classes) rv_bw &&
  forallb (fun c => existsb (fun o => seqb (oc_name o) c) bw_op_classes) rv_nops.

(* ================================================================== (2) delegation *)
Definition op_roles (o : opclass) : option (nat * list string) :=
  match count_of (class_const o "num_arguments") with
  | CNum n => Some (n, (repeat "X" n ++ types (oc_fields o))%list)
  | _ => None
  end.

(* *x[i] -> role i, member j -> role (n + j) *)
Definition to_roles (o : opclass) (n : nat) (e : ex) : ex :=
  rw (fun x =>
        match x with
        | Deref (Idx (Id v) (Lit s)) =>
            if seqb v "x" then
              match nat_of_str s with
              | Some i => if Nat.ltb i n then Some (role i) else Some (Other "x index out of range")
              | None => Some (Other "x index")
              end
            else None
        | Id s =>
            if seqb s "x" then Some (Other "whole operand vector")
            else match index_of s (names (oc_fields o)) 0 with
                 | Some j => Some (role (n + j))
                 | None => None
                 end
        | _ => None
        end) e.

Definition role_index (e : ex) : option nat :=
  match e with
  | Id (String c r) => if Ascii.eqb c "$"%char then nat_of_str r else None
  | _ => None
  end.

Definition xarg (i : nat) : ex := Deref (Idx (Id "x") (Lit (nat_str i))).
Definition gxarg (i : nat) : ex := Deref (Idx (Id "gx") (Lit (nat_str i))).
Definition y0 : ex := Deref (Idx (Id "y") (Lit "0")).
Definition gy0 : ex := Deref (Idx (Id "gy") (Lit "0")).
Definition gy0_device : ex := Meth gy0 "device" [].

Definition from_role (o : opclass) (n : nat) (e : ex) : ex :=
  match role_index e with
  | Some k => if Nat.ltb k n then xarg k else Id (nth (k - n) (names (oc_fields o)) "?")
  | None => e
  end.

Definition do_reach := reach_of bw_tensor_funcs bw_template_specs bw_arith_ops.

(* `c` is the test  <operand>.shape().is_scalar()  taken on its FALSE branch *)
Definition not_scalar_cond (c : ex * bool) : bool :=
  negb (snd c) &&
  match fst c with
  | Meth (Meth _ sh []) sc [] => seqb sh "shape" && seqb sc "is_scalar"
  | _ => false
  end.

(* a Tensor function with a scalar dispatch (add, subtract, multiply, divide, pow on two tensors):
   the Device entry of the path on which neither operand is a scalar *)
Definition resolve_paths (tys : list string) (r : reach) : reach :=
  match r with
  | RFun ns name ptys args =>
      match find (fun t => seqb (f_ns t) ns && seqb (f_name t) name && strl_eqb (types (f_params t)) ptys)
                 (api_tensor_funcs bw_tensor_funcs) with
      | Some t =>
          match filter (fun p => forallb not_scalar_cond (fst p) && negb (Nat.eqb (List.length (fst p)) 0)) (func_paths t) with
          | [(_, ORet e)] => do_reach 12 tys ns (norm_dev (inst_formals (f_params t) args e))
          | _ => RBad "no unique non-scalar path"
          end
      | None => RBad "Tensor function not found"
      end
  | _ => r
  end.

Definition fw_reach (o : opclass) : reach :=
  match op_roles o, fw_of (oc_name o) with
  | Some (n, tys), Some f =>
      match single_assign (f_body f) with
      | Some e => resolve_paths tys (do_reach 12 tys "functions" (norm_dev (to_roles o n e)))
      | None => RBad "FORWARD is not the single assignment *y[0] = e"
      end
  | _, _ => RBad "class without a fixed operand count or without FORWARD"
  end.

Fixpoint all_distinct (l : list nat) : bool :=
  match l with
  | [] => true
  | x :: r => negb (existsb (Nat.eqb x) r) && all_distinct r
  end.

(* entries whose backward takes fewer attributes than the forward (slice_bw needs only the
   offset `lower`, not `upper`): a proper PREFIX of the forward attributes is allowed for these *)
Definition attr_prefix_entries : list string := ["slice"; "batch_slice"].

Fixpoint opt_all {A} (l : list (option A)) : option (list A) :=
  match l with
  | [] => Some []
  | Some x :: r => match opt_all r with Some r' => Some (x :: r') | None => None end
  | None :: _ => None
  end.

(* the call BACKWARD(op) must consist of, given what FORWARD(op) hands to <f>_fw *)
Definition expected_bw (o : opclass) : option (string * list ex) :=
  match op_roles o, fw_reach o with
  | Some (n, tys), RDev m _ args =>
      if negb (suffixb "_fw" m) then None else
      let f := strip_suffix "_fw" m in
      let xs := filter (fun a => seqb (kind tys a) "X") args in
      let ats := filter (fun a => negb (seqb (kind tys a) "X")) args in
      match opt_all (map role_index xs), dev_sig (f ++ "_bw") with
      | Some xi, Some sg =>
          let pt := types (f_params sg) in
          let pn := names (f_params sg) in
          let nin := List.length (filter (fun t => seqb t "X") pt) in
          let nout := List.length (filter (fun t => seqb t "X&") pt) in
          let nat_ := List.length pt - nin - nout in
          let ats' := firstn nat_ ats in
          (* the signature is (inputs.., attributes.., accumulators..) *)
          if forallb (fun i => Nat.ltb i n) xi && all_distinct xi && forallb ex_clean ats &&
             forallb (fun a => match a with Id _ | Lit _ => true | _ => false end) ats &&
             strl_eqb (firstn nin pt) (repeat "X" nin) && strl_eqb (skipn (nin + nat_) pt) (repeat "X&" nout) &&
             Nat.eqb nout (List.length xi) &&
             (Nat.eqb nat_ (List.length ats) || (mem f attr_prefix_entries && Nat.ltb nat_ (List.length ats)))
          then
            if Nat.eqb nin (List.length xi + 2) && strl_eqb (skipn (List.length xi) (firstn nin pn)) ["y"; "gy"] then
              Some (f ++ "_bw", (map xarg xi ++ [y0; gy0] ++ map (from_role o n) ats' ++ map gxarg xi)%list)
            else if Nat.eqb nin 1 && strl_eqb (firstn nin pn) ["gy"] then
              Some (f ++ "_bw", ([gy0] ++ map (from_role o n) ats' ++ map gxarg xi)%list)
            else None
          else None
      | _, _ => None
      end
  | _, _ => None
  end.

Definition deleg_body_ok (o : opclass) (body : list st) : bool :=
  match expected_bw o, body with
  | Some (m, a), [SExp (Meth r m' a')] => seqb m m' && ex_eqb r gy0_device && exl_eqb a a'
  | _, _ => false
  end.

Definition deleg_ok (o : opclass) : bool :=
  match bw_of (oc_name o) with
  | Some f => deleg_body_ok o (f_body f)
  | None => false
  end.

(* ------------------------------------------------------------------ per class, and the table as a whole *)
Definition acc_class_ok (o : opclass) : bool := has_bw o && nop_ok o.
Definition deleg_class_ok (o : opclass) : bool := if is_delegating (oc_name o) then deleg_ok o else true.
Definition composite_class_ok (o : opclass) : bool := if is_composite (oc_name o) then reviewed_ok (oc_name o) else true.

Definition bw_tables_nonempty : bool :=
  Nat.leb 60 (List.length bw_op_classes) && Nat.leb 60 (List.length bw_methods) &&
  Nat.leb 30 (List.length (filter (fun o => is_delegating (oc_name o)) bw_op_classes)) &&
  Nat.leb 30 (List.length (filter (fun f => suffixb "_bw" (f_name f)) bw_device_sigs)).

(* names of the offenders, for the failing-input search of engines/bwtables.py *)
Definition bad_methods (chk : func -> bool) : list string := map f_qual (filter (fun f => negb (chk f)) bw_all).
Definition bad_classes (chk : opclass -> bool) : list string := map oc_name (filter (fun o => negb (chk o)) bw_op_classes).
Definition group_of (o : opclass) : string :=
  if is_nop (oc_name o) then "nop" else if is_composite (oc_name o) then "composite" else "delegating".
