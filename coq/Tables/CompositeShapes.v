(* Shapes of the four COMPOSITE Tensor functions of tensor_funcs.cc, written over the executable
   shape-rule model of Shape/ShapeImpl.v (tables engine, property C04).  Hand-written mirrors of
   the reviewed bodies of Tables/Reviewed.v (rv_tensor_funcs):
     log_softmax(x, dim)  = x - broadcast(logsumexp(x, dim), dim, x.shape()[dim])
                            (operator- dispatches on is_scalar: subtract_scalar_l/r_fw or subtract_fw)
     softmax_cross_entropy(x, t, dim)   = -sum(t.device().multiply_fw(t, log_softmax(x, dim)), dim)
     softmax_cross_entropy(x, ids, dim) = pick(-log_softmax(x, dim), ids, dim)
     split(x, dim, n) / batch::split(x, n) = guards, then n slices [i*span, (i+1)*span) in uint32
   Definitions only; Tables/CompositeProofs.v proves that they equal the FWD_SHAPE rules
   sce / pick / split / batch_split of ShapeImpl.v, errors included. *)
From Coq Require Import List NArith Bool.
From PV Require Import Base.U32 Shape.ShapeImpl.
Import ListNotations.
Local Open Scope N_scope.

Definition bind {A B} (o : option A) (f : A -> option B) : option B :=
  match o with Some a => f a | None => None end.

Definition binop_shape (a b : shape) : option shape :=
  if is_scalar a then scalar_op b a else if is_scalar b then scalar_op a b else elementwise a b.

Definition log_softmax_shape (x : shape) (dim : N) : option shape :=
  bind (reduce x dim) (fun l => bind (broadcast l dim (get x dim)) (fun bc => binop_shape x bc)).

Definition sce_dense_tensor (x t : shape) (dim : N) : option shape :=
  bind (log_softmax_shape x dim) (fun ls => bind (elementwise t ls) (fun m => reduce m dim)).

Definition sce_sparse_tensor (x : shape) (ids : list N) (dim : N) : option shape :=
  bind (log_softmax_shape x dim) (fun ls => pick ls ids dim).

Fixpoint mapM {A B} (f : A -> option B) (l : list A) : option (list B) :=
  match l with
  | [] => Some []
  | a :: r => match f a, mapM f r with Some b, Some bs => Some (b :: bs) | _, _ => None end
  end.

Definition indices (n : N) : list N := map N.of_nat (seq 0 (N.to_nat n)).

(* functions::split<Tensor> (tensor_funcs.cc): guards, then n slices; uint32 arithmetic written out *)
Definition split_tensor (x : shape) (dim n : N) : option (list shape) :=
  if n =? 0 then None else
  let total := get x dim in
  let span := total / n in
  if negb (wrap32 (span * n) =? total) then None else
  mapM (fun i => slice x dim (wrap32 (i * span)) (wrap32 ((i + 1) * span))) (indices n).

Definition batch_split_tensor (x : shape) (n : N) : option (list shape) :=
  if n =? 0 then None else
  let total := batch x in
  let span := total / n in
  if negb (wrap32 (span * n) =? total) then None else
  mapM (fun i => batch_slice x (wrap32 (i * span)) (wrap32 ((i + 1) * span))) (indices n).


(* the guard that the Node functions split / batch::split evaluate BEFORE constructing the
   operator (node_funcs.cc, rv_node_funcs): n == 0 || total % n != 0 *)
Definition node_split_guard (x : shape) (dim n : N) : bool :=
  (n =? 0) || negb (get x dim mod n =? 0).
Definition node_batch_split_guard (x : shape) (n : N) : bool :=
  (n =? 0) || negb (batch x mod n =? 0).
