(* The finite table theorems of property C04: each is `forallb check table = true`, closed by
   vm_compute over the REGENERATED tables (Gen/OpTables.v) and lifted with forallb_forall.
   When one breaks, `bad_rows check` / `bad_classes check` (Tables/OpCheck.v) name the rows. *)
From Coq Require Import List String Bool Arith.
From PV Require Import Tables.OpSyntax Tables.OpUtil Tables.OpRows Tables.OpCheck Tables.ApiModel Tables.ApiTable Gen.OpTables.
Import ListNotations.

Lemma lift {A} (chk : A -> bool) (l : list A) : forallb chk l = true -> forall x, In x l -> chk x = true.
Proof. intros H. apply forallb_forall. exact H. Qed.

Lemma arity_rows_b : forallb arity_row_ok R = true.            Proof. vm_compute; reflexivity. Qed.
Lemma classes_b : forallb (fun o => class_ok o && class_used o) op_classes = true.
Proof. vm_compute; reflexivity. Qed.
Lemma deleg_rows_b : forallb deleg_row_ok R = true.            Proof. vm_compute; reflexivity. Qed.
Lemma shape_rows_b : forallb shape_row_ok R = true.            Proof. vm_compute; reflexivity. Qed.
Lemma node_fns_b : forallb node_fn_mapped (api_node_funcs node_funcs) = true.
Proof. vm_compute; reflexivity. Qed.
Lemma tensor_fns_b : forallb tensor_fn_covered (api_tensor_funcs tensor_funcs) = true.
Proof. vm_compute; reflexivity. Qed.
Lemma cache_b : cache_delta_ok = true.                         Proof. vm_compute; reflexivity. Qed.
Lemma nonempty_b : tables_nonempty = true.                     Proof. vm_compute; reflexivity. Qed.
Lemma api_table_b : table_ok api_table = true.                 Proof. vm_compute; reflexivity. Qed.

(* every Node function passes exactly the number of node arguments its operator declares
   (>= 1 for NONZERO), all of them Node parameters, to a constructor that exists; [0] is taken
   only where a result exists;  per class: num_returns = number of y[i] FORWARD and FWD_SHAPE
   assign (or of inner values), x[i] only below num_arguments, and the class is used *)
Theorem arity_ok :
  (forall r, In r R -> arity_row_ok r = true) /\
  (forall o, In o op_classes -> class_ok o = true /\ class_used o = true).
Proof.
  split. exact (lift _ _ arity_rows_b).
  intros o Ho. apply andb_true_iff. exact (lift _ _ classes_b o Ho).
Qed.

(* FORWARD(op) composed with the call site is the Tensor function of the same name and signature
   on the operands in their documented roles (exchanged only for the commutative add/multiply),
   or reaches the very Device entry / operand that this Tensor function reaches; throw paths
   throw in both APIs; composite functions are the same expression in both APIs; the four
   composite operators are the reviewed ones *)
Theorem delegation_ok : forall r, In r R -> deleg_row_ok r = true.
Proof. exact (lift _ _ deleg_rows_b). Qed.

(* FWD_SHAPE(op) composed with the call site is, as an expression over the operand shapes and
   attributes, the shape rule that the Device entry reached by the Tensor function applies, with
   the same argument order; entries with value guards are only the listed ones *)
Theorem shape_rule_ok : forall r, In r R -> shape_row_ok r = true.
Proof. exact (lift _ _ shape_rows_b). Qed.

(* the two APIs offer the same functions with the same signatures *)
Theorem same_functions :
  (forall f, In f (api_node_funcs node_funcs) -> node_fn_mapped f = true) /\
  (forall t, In t (api_tensor_funcs tensor_funcs) -> tensor_fn_covered t = true).
Proof. split. exact (lift _ _ node_fns_b). exact (lift _ _ tensor_fns_b). Qed.

Theorem cache_variant_ok : cache_delta_ok = true /\ tables_nonempty = true.
Proof. split. exact cache_b. exact nonempty_b. Qed.

Theorem api_table_facts : table_ok api_table = true.
Proof. exact api_table_b. Qed.
