(* A REAL instance of the abstract API model of Tables/ApiModel.v (tables engine, property C04).
   Executable definitions only; proofs in Tables/RealProofs.v and Tables/RealKernels.v.

     Sh        := Shape.ShapeImpl.shape          the uint32 shape model of C09
     T         := tensor = (valid, shape, data)  data : list R, R the scalar type (any type with
                                                 + * - neg; the theorems need only that + and * commute)
     Attr      := attr                           float / uint32 / int / vector<uint32> / vector<float> /
                                                 Shape({dims}, batch) / Device* attribute values
     shape_sem := real_shape   every shape expression of the table is COMPILED (closed syntax ->
                               rule name + operand selectors) and RUN on the executable shape
                               rules of Shape/ShapeImpl.v (scalar_op, elementwise, pick, slice,
                               concat, reshape, flatten, transpose, permute_dims, matmul,
                               broadcast, resize_dim, resize_batch, conv2d, pool2d, batch_pick,
                               batch_slice, batch_concat, Shape({n,n}); FWD_SHAPE of the four
                               special operators = split / batch_split / sce / pick;
                               shape_of_composite = the composite Tensor functions of
                               Tables/CompositeShapes.v)
     cond_sem  := real_cond    is_scalar(), empty(), the split / batch::split guard
     guard_sem := real_guard   the six value guards of the Device entries
     val_sem   := real_val     a Device entry / Tensor method / operand / composite returns
                               tensors whose shapes are computed by the rule that
                               Tensor/FrontEnd.v transcribes for THAT entry (function [fe_entry];
                               independent of the table's own shape expression) and whose data,
                               for the core family of Tensor/GraphInst.v, is the forward of the
                               kernel index programs of Tensor/Kernels.v ([core_data]); for the
                               other entries the data is an arbitrary deterministic function
                               [other] of the reach form, the operand values and the result shapes.

   Conventions of the instance (all stated in DESIGN.md 9.5):
     - one device: CHECK_DEVICE is not among the table's value guards (OpRows.is_devcheck drops
       it), device placement is the subject of C10's on_device theorems;
     - a role of C++ type uint32 holds any N and denotes its value mod 2^32; a vector<uint32>
       role must be shorter than 2^32; a Shape role is the argument list of the Shape
       constructor (the constructor throwing = the call being rejected, in both APIs alike);
     - a shape operand must satisfy the Shape class invariant (boolean [wfb], = Shape.ShapeSpec.wf):
       C09 proves that every rule preserves it, RealProofs.real_reachable_wf that every tensor a
       program computes has it;
     - what the TABLE does not contain is not in the instance either: the data-length check of
       input_tensor / input_node (Device::reset_tensor_by_vector, called from
       new_tensor_by_vector, and the constructor of operators::Input) is a nested call the
       translator does not see; the model accepts a data vector of the wrong length in BOTH APIs
       where the code rejects it in both, at that call (exercised on the real code by C10's
       wrong-size-data block); hence no "data length = element count" theorem is stated here
       (writes-exactly-once / in-bounds of the kernel programs are C11's theorems);
     - the table names the two shape expressions of the special rows only as FWD_SHAPE(class) and
       shape_of_composite(function); the operands are read off the signature of the environment:
       [tensor; u32; u32] = split, [tensor; u32] = batch::split, [tensor; tensor; u32] = dense
       softmax_cross_entropy, [tensor; vector<u32>; u32] = sparse (special_named_ok checks that the
       class named in a special row is the one of that signature). *)
From Coq Require Import List String Ascii Bool Arith NArith ZArith.
From PV Require Import Base.U32 Shape.ShapeImpl Shape.ShapeSpec Tensor.Kernels Tensor.FrontEnd Tensor.AdjCore Tensor.GraphInst.
From PV Require Import Tables.OpSyntax Tables.OpUtil Tables.OpRows Tables.ApiModel Tables.ApiTable Tables.CompositeShapes.
Import ListNotations.
Local Open Scope string_scope.
Local Open Scope bool_scope.

(* ------------------------------------------------------------------ the Shape invariant, as a boolean *)
Definition wfb (s : shape) : bool :=
  (List.length (dims s) <=? 8)%nat && forallb (fun d => (0 <? d)%N) (dims s) && list_eqb (trim (dims s)) (dims s) &&
  (0 <? batch s)%N && (volume s =? prodN (dims s))%N && (prodN (dims s) * batch s <? P32)%N.

(* ------------------------------------------------------------------ compiled shape rules *)
Inductive rname :=
| RIdent | RScalarOp | RElementwise | RPick | RSlice | RConcat | RReshape | RFlatten | RTranspose
| RPermute | RMatmul | RBroadcast | RResizeDim | RResizeBatch | RConv2d | RPool2d | RBatchPick
| RBatchSlice | RBatchConcat | RSquare
| RFwdSplitFam | RFwdSceFam | RCompSplitFam | RCompSceFam.

Definition rname_code (r : rname) : nat :=
  match r with
  | RIdent => 0 | RScalarOp => 1 | RElementwise => 2 | RPick => 3 | RSlice => 4 | RConcat => 5
  | RReshape => 6 | RFlatten => 7 | RTranspose => 8 | RPermute => 9 | RMatmul => 10 | RBroadcast => 11
  | RResizeDim => 12 | RResizeBatch => 13 | RConv2d => 14 | RPool2d => 15 | RBatchPick => 16
  | RBatchSlice => 17 | RBatchConcat => 18 | RSquare => 19
  | RFwdSplitFam => 20 | RFwdSceFam => 21 | RCompSplitFam => 22 | RCompSceFam => 23
  end.
Definition rname_eqb (a b : rname) : bool := Nat.eqb (rname_code a) (rname_code b).

(* operand selectors over the roles of the user-level function *)
Inductive leaf :=
| LSh (i : nat)     (* $i.shape()            : the shape of the tensor in role i *)
| LRole (i : nat)   (* $i                    : the attribute in role i (uint32, vector<uint32>, Shape) *)
| LShs (i : nat)    (* shapes_of($i)         : the shapes of the tensor list in role i *)
| LLit (n : N)      (* an integer literal *)
| LBad.

Definition leaf_eqb (a b : leaf) : bool :=
  match a, b with
  | LSh i, LSh j | LRole i, LRole j | LShs i, LShs j => Nat.eqb i j
  | LLit n, LLit m => N.eqb n m
  | _, _ => false      (* LBad equals nothing *)
  end.
Fixpoint leafl_eqb (a b : list leaf) : bool :=
  match a, b with
  | [], [] => true
  | x :: a', y :: b' => leaf_eqb x y && leafl_eqb a' b'
  | _, _ => false
  end.

Definition srule := (rname * list leaf)%type.
Definition srule_eqb (a b : srule) : bool := rname_eqb (fst a) (fst b) && leafl_eqb (snd a) (snd b).

Definition mem (s : string) (l : list string) : bool := existsb (seqb s) l.

Definition role_id (e : ex) : option nat :=
  match e with
  | Id (String c r) => if Ascii.eqb c "$"%char then nat_of_str r else None
  | _ => None
  end.

Definition leaf_of (e : ex) : leaf :=
  match e with
  | Meth r m [] => if seqb m "shape" then match role_id r with Some i => LSh i | None => LBad end else LBad
  | Call f [r] => if seqb f "shapes_of" then match role_id r with Some i => LShs i | None => LBad end else LBad
  | Id _ => match role_id e with Some i => LRole i | None => LBad end
  | Lit s => match nat_of_str s with Some n => LLit (N.of_nat n) | None => LBad end
  | _ => LBad
  end.

Definition rname_of (f : string) : option rname :=
  if seqb f "shape_ops::scalar_op" then Some RScalarOp else
  if seqb f "shape_ops::elementwise" then Some RElementwise else
  if seqb f "shape_ops::pick" then Some RPick else
  if seqb f "shape_ops::slice" then Some RSlice else
  if seqb f "shape_ops::concat" then Some RConcat else
  if seqb f "shape_ops::reshape" then Some RReshape else
  if seqb f "shape_ops::flatten" then Some RFlatten else
  if seqb f "shape_ops::transpose" then Some RTranspose else
  if seqb f "shape_ops::permute_dims" then Some RPermute else
  if seqb f "shape_ops::matmul" then Some RMatmul else
  if seqb f "shape_ops::broadcast" then Some RBroadcast else
  if seqb f "shape_ops::conv2d" then Some RConv2d else
  if seqb f "shape_ops::pool2d" then Some RPool2d else
  if seqb f "shape_ops::batch_pick" then Some RBatchPick else
  if seqb f "shape_ops::batch_slice" then Some RBatchSlice else
  if seqb f "shape_ops::batch_concat" then Some RBatchConcat else None.

(* closed syntax -> rule; None = an expression this instance gives no meaning to *)
Definition compile (e : ex) : option srule :=
  match e with
  | Call f args =>
      if seqb f "FWD_SHAPE" then
        match args with
        | [Id c] => if mem c ["Split"; "BatchSplit"] then Some (RFwdSplitFam, [])
                    else if mem c ["SoftmaxCrossEntropy"; "SparseSoftmaxCrossEntropy"] then Some (RFwdSceFam, [])
                    else None
        | _ => None
        end
      else if seqb f "shape_of_composite" then
        match args with
        | [Id c] => if seqb c "split" then Some (RCompSplitFam, [])
                    else if seqb c "softmax_cross_entropy" then Some (RCompSceFam, [])
                    else None
        | _ => None
        end
      else if seqb f "Shape" then
        match args with
        | [Brace [a; b]] => Some (RSquare, [leaf_of a; leaf_of b])
        | _ => None
        end
      else match rname_of f with Some rn => Some (rn, map leaf_of args) | None => None end
  | Meth recv m args =>
      if seqb m "shape" then Some (RIdent, [leaf_of e])
      else if seqb m "resize_dim" then Some (RResizeDim, leaf_of recv :: map leaf_of args)
      else if seqb m "resize_batch" then Some (RResizeBatch, leaf_of recv :: map leaf_of args)
      else None
  | Id _ => Some (RIdent, [leaf_of e])
  | _ => None
  end.

(* ------------------------------------------------------------------ path conditions and value guards *)
Inductive crule := CScalar (i : nat) | CEmptyL (i : nat) | CSplit (x d n : nat) | CBSplit (x n : nat).

Definition is_lit (e : ex) (s : string) : bool := match e with Lit t => seqb t s | _ => false end.

Definition ccompile (c : ex) : option crule :=
  match c with
  | Meth (Meth r s []) m [] =>
      if seqb s "shape" && seqb m "is_scalar" then option_map CScalar (role_id r) else None
  | Meth r m [] => if seqb m "empty" then option_map CEmptyL (role_id r) else None
  | Bin o1 (Bin o2 n z1) (Bin o3 (Bin o4 q n') z2) =>
      if seqb o1 "||" && seqb o2 "==" && seqb o3 "!=" && seqb o4 "%" && is_lit z1 "0" && is_lit z2 "0" then
        match role_id n, role_id n', q with
        | Some i, Some i', Idx (Meth x s []) d =>
            if Nat.eqb i i' && seqb s "shape" then
              match role_id x, role_id d with Some ix, Some id => Some (CSplit ix id i) | _, _ => None end
            else None
        | Some i, Some i', Meth (Meth x s []) b [] =>
            if Nat.eqb i i' && seqb s "shape" && seqb b "batch" then
              match role_id x with Some ix => Some (CBSplit ix i) | None => None end
            else None
        | _, _, _ => None
        end
      else None
  | _ => None
  end.

Inductive grule := GInvalid (i : nat) | GEmpty (i : nat) | GZero (i : nat) | GNotUnit (i : nat)
                 | GRange (lo hi : nat) | GNotPos (i : nat).

Definition gcompile (g : ex) : option grule :=
  match g with
  | Un o (Meth r m []) => if seqb o "!" && seqb m "valid" then option_map GInvalid (role_id r) else None
  | Meth (Call f [r]) m [] => if seqb f "ptrs_of" && seqb m "empty" then option_map GEmpty (role_id r) else None
  | Bin o r z =>
      if seqb o "==" && is_lit z "0" then option_map GZero (role_id r)
      else if seqb o "||" then
        match r, z with
        | Un n1 (Bin le a b), Un n2 (Call fin [Bin mi b' a']) =>
            if seqb n1 "!" && seqb n2 "!" && seqb le "<=" && seqb fin "isfinite" && seqb mi "-" then
              match role_id a, role_id b, role_id a', role_id b' with
              | Some ia, Some ib, Some ia', Some ib' => if Nat.eqb ia ia' && Nat.eqb ib ib' then Some (GRange ia ib) else None
              | _, _, _, _ => None
              end
            else None
        | _, _ => None
        end
      else None
  | Un o (Bin o2 a b) =>
      if seqb o "!" && seqb o2 ">" && is_lit b "0" then option_map GNotPos (role_id a)
      else if seqb o "!" && seqb o2 "&&" then
        match a, b with
        | Bin ge p z, Bin le p' u =>
            if seqb ge ">=" && seqb le "<=" && is_lit z "0" && is_lit u "1" then
              match role_id p, role_id p' with Some i, Some i' => if Nat.eqb i i' then Some (GNotUnit i) else None | _, _ => None end
            else None
        | _, _ => None
        end
      else None
  | _ => None
  end.

(* ------------------------------------------------------------------ the Device front end, as rules *)
(* which operands of a Device entry / Tensor method feed which shape rule: the transcription of
   core/device.cc in Tensor/FrontEnd.v (fe_*_fw), entry by entry, in selector form.
   RealProofs.real_entries_are_frontend proves that running these rules IS fe_*_fw. *)
Inductive argsel := SelS (j : nat) | SelA (j : nat) | SelSs (j : nat) | SelLit (n : N).

Definition unary_entries : list string :=
  ["negate_fw"; "abs_fw"; "sqrt_fw"; "exp_fw"; "log_fw"; "tanh_fw"; "sigmoid_fw"; "softplus_fw"; "sin_fw"; "cos_fw"; "tan_fw"].
Definition const_entries : list string :=
  ["add_const_fw"; "subtract_const_r_fw"; "subtract_const_l_fw"; "multiply_const_fw"; "divide_const_r_fw";
   "divide_const_l_fw"; "pow_const_r_fw"; "pow_const_l_fw"; "prelu_fw"; "elu_fw"; "pown_fw"].
Definition scalar_entries : list string :=
  ["add_scalar_fw"; "subtract_scalar_r_fw"; "subtract_scalar_l_fw"; "multiply_scalar_fw"; "divide_scalar_r_fw";
   "divide_scalar_l_fw"; "pow_scalar_r_fw"; "pow_scalar_l_fw"].
Definition elementwise_entries : list string := ["add_fw"; "subtract_fw"; "multiply_fw"; "divide_fw"; "pow_fw"].
Definition reduce_entries : list string := ["max_fw"; "min_fw"; "sum_fw"; "logsumexp_fw"].
(* entries that Tensor/FrontEnd.v does not transcribe: the tensor is allocated with the Shape argument / the operand's shape *)
Definition shape_arg_entries : list string :=
  ["new_tensor_by_vector"; "new_tensor_by_constant"; "random_bernoulli"; "random_uniform"; "random_normal"; "random_log_normal"].

Definition fe_entry (name : string) : option (rname * list argsel) :=
  if mem name unary_entries then Some (RIdent, [SelS 0])                       (* fe_unary_fw *)
  else if mem name const_entries then Some (RIdent, [SelS 0])                  (* fe_fw_x_const *)
  else if mem name scalar_entries then Some (RScalarOp, [SelS 0; SelS 1])      (* fe_scalar_fw *)
  else if mem name elementwise_entries then Some (RElementwise, [SelS 0; SelS 1])   (* fe_elementwise_fw *)
  else if mem name reduce_entries then Some (RResizeDim, [SelS 0; SelA 1; SelLit 1])  (* fe_reduce_fw *)
  else if seqb name "matmul_fw" then Some (RMatmul, [SelS 0; SelS 1])          (* fe_matmul_fw *)
  else if seqb name "transpose_fw" then Some (RTranspose, [SelS 0])            (* fe_transpose_fw *)
  else if seqb name "permute_dims_fw" then Some (RPermute, [SelS 0; SelA 1])   (* fe_permute_dims_fw *)
  else if seqb name "flip_fw" then Some (RIdent, [SelS 0])                     (* fe_flip_fw: dim is not checked *)
  else if seqb name "pick_fw" then Some (RPick, [SelS 0; SelA 1; SelA 2])      (* fe_pick_fw *)
  else if seqb name "slice_fw" then Some (RSlice, [SelS 0; SelA 1; SelA 2; SelA 3])   (* fe_slice_fw *)
  else if seqb name "concat_fw" then Some (RConcat, [SelSs 0; SelA 1])         (* fe_concat_fw *)
  else if seqb name "broadcast_fw" then Some (RBroadcast, [SelS 0; SelA 1; SelA 2])   (* fe_broadcast_fw *)
  else if seqb name "conv2d_fw" then Some (RConv2d, [SelS 0; SelS 1; SelA 2; SelA 3; SelA 4; SelA 5; SelA 6; SelA 7])
  else if seqb name "max_pool2d_fw" then Some (RPool2d, [SelS 0; SelA 1; SelA 2; SelA 3; SelA 4; SelA 5; SelA 6])
  else if seqb name "batch_pick_fw" then Some (RBatchPick, [SelS 0; SelA 1])   (* fe_batch_pick_fw *)
  else if seqb name "batch_slice_fw" then Some (RBatchSlice, [SelS 0; SelA 1; SelA 2])
  else if seqb name "batch_concat_fw" then Some (RBatchConcat, [SelSs 0])
  else if seqb name "batch_sum_fw" then Some (RResizeBatch, [SelS 0; SelLit 1])  (* fe_batch_sum_fw *)
  else if seqb name "identity" then Some (RSquare, [SelA 0; SelA 0])            (* fe_identity *)
  else if seqb name "copy_tensor" then Some (RIdent, [SelS 0])
  else if mem name shape_arg_entries then Some (RIdent, [SelA 0])
  else if seqb name "Tensor::reshape" then Some (RReshape, [SelS 0; SelA 1])
  else if seqb name "Tensor::flatten" then Some (RFlatten, [SelS 0])
  else None.

(* the actual argument in position j of a Device call, as a selector over the function's roles *)
Definition sel_leaf (dargs : list ex) (s : argsel) : leaf :=
  match s with
  | SelLit n => LLit n
  | SelS j => match nth_error dargs j with Some a => match role_id a with Some i => LSh i | None => LBad end | None => LBad end
  | SelA j => match nth_error dargs j with
              | Some (Lit t) => match nat_of_str t with Some n => LLit (N.of_nat n) | None => LBad end
              | Some a => match role_id a with Some i => LRole i | None => LBad end
              | None => LBad end
  | SelSs j => match nth_error dargs j with
               | Some (Call f [r]) => if seqb f "ptrs_of" then match role_id r with Some i => LShs i | None => LBad end else LBad
               | _ => LBad end
  end.

Definition reach_rule (r : reach) : option srule :=
  match r with
  | RDev name _ dargs => match fe_entry name with Some (rn, sels) => Some (rn, map (sel_leaf dargs) sels) | None => None end
  | RTm m recv args => match fe_entry ("Tensor::" ++ m) with
                       | Some (rn, sels) => Some (rn, map (sel_leaf (recv :: args)) sels) | None => None end
  | RId (Meth x v []) => if seqb v "value" then match role_id x with Some i => Some (RIdent, [LSh i]) | None => None end else None
  | RId e => match role_id e with Some i => Some (RIdent, [LSh i]) | None => None end
  | RFun _ name _ _ => if seqb name "split" then Some (RCompSplitFam, [])
                       else if seqb name "softmax_cross_entropy" then Some (RCompSceFam, [])
                       else None
  | RBad _ => None
  end.

(* the rule of a Device entry over the entry's OWN parameters $0 $1 ... (a list parameter is seen
   through ptrs_of, as in the table) *)
Definition canon_dargs (name : string) : list ex :=
  if mem name ["concat_fw"; "batch_concat_fw"] then [Call "ptrs_of" [Id "$0"]; Id "$1"]
  else [Id "$0"; Id "$1"; Id "$2"; Id "$3"; Id "$4"; Id "$5"; Id "$6"; Id "$7"].
Definition entry_rule (name : string) : option srule :=
  match fe_entry name with Some (rn, sels) => Some (rn, map (sel_leaf (canon_dargs name)) sels) | None => None end.

(* the class named by a special row is the one whose operands its function's signature provides *)
Definition special_named_ok (r : mrow) : bool :=
  negb (m_special r) ||
  match m_nshape r, m_tshape r with
  | Some (Call _ [Id c]), Some (Call _ [Id f]) =>
      let tys := snd (m_fn r) in
      (seqb c "Split" && seqb f "split" && strl_eqb tys ["X"; "u32"; "u32"]) ||
      (seqb c "BatchSplit" && seqb f "split" && strl_eqb tys ["X"; "u32"]) ||
      (seqb c "SoftmaxCrossEntropy" && seqb f "softmax_cross_entropy" && strl_eqb tys ["X"; "X"; "u32"]) ||
      (seqb c "SparseSoftmaxCrossEntropy" && seqb f "softmax_cross_entropy" && strl_eqb tys ["X"; "vec<u32>"; "u32"])
  | _, _ => false
  end.

(* the row-level tie: the shape expression the table extracts for the row's Tensor path is the
   rule Tensor/FrontEnd.v transcribes for the Device entry that path reaches *)
Definition row_tied (r : mrow) : bool :=
  match m_tshape r with
  | Some se => match compile se, reach_rule (m_t r) with
               | Some c, Some c' => srule_eqb c c'
               | _, _ => false end
  | None => match m_kind r with KThrow => true | KOp => false end
  end.

(* the two opaque shape names of a special row belong to the same family *)
Definition special_pair_ok (r : mrow) : bool :=
  negb (m_special r) ||
  match m_nshape r, m_tshape r with
  | Some a, Some b =>
      match compile a, compile b with
      | Some (RFwdSplitFam, []), Some (RCompSplitFam, []) => true
      | Some (RFwdSceFam, []), Some (RCompSceFam, []) => true
      | _, _ => false
      end
  | _, _ => false
  end.

Definition grule_eqb (a b : grule) : bool :=
  match a, b with
  | GInvalid i, GInvalid j | GEmpty i, GEmpty j | GZero i, GZero j | GNotUnit i, GNotUnit j | GNotPos i, GNotPos j => Nat.eqb i j
  | GRange i k, GRange j l => Nat.eqb i j && Nat.eqb k l
  | _, _ => false
  end.

(* the value guards FrontEnd.v transcribes: concat_fw / batch_concat_fw `xs.empty()`, identity `size == 0`;
   no other transcribed entry has one *)
Definition frontend_transcribed (name : string) : bool :=
  mem name unary_entries || mem name const_entries || mem name scalar_entries || mem name elementwise_entries ||
  mem name reduce_entries ||
  mem name ["matmul_fw"; "transpose_fw"; "permute_dims_fw"; "flip_fw"; "pick_fw"; "slice_fw"; "concat_fw"; "broadcast_fw";
            "conv2d_fw"; "max_pool2d_fw"; "batch_pick_fw"; "batch_slice_fw"; "batch_concat_fw"; "batch_sum_fw"; "identity"].

Definition row_guards_tied (r : mrow) : bool :=
  match m_t r with
  | RDev name _ dargs =>
      if frontend_transcribed name then
        let gs := map gcompile (m_guards r) in
        match gs, sel_leaf dargs (SelSs 0), sel_leaf dargs (SelA 0) with
        | [Some g], LShs i, _ => mem name ["concat_fw"; "batch_concat_fw"] && grule_eqb g (GEmpty i)
        | [Some g], _, LRole i => seqb name "identity" && grule_eqb g (GZero i)
        | [], _, _ => negb (mem name ["concat_fw"; "batch_concat_fw"; "identity"])
        | _, _, _ => false
        end
      else true
  | _ => true
  end.

Definition row_conds_ok (r : mrow) : bool :=
  forallb (fun c => match ccompile (fst c) with Some _ => true | None => false end) (m_conds r) &&
  forallb (fun g => match gcompile g with Some _ => true | None => false end) (m_guards r) &&
  match m_kind r, m_nshape r with KOp, Some e => match compile e with Some _ => true | None => false end | KOp, None => false | KThrow, _ => true end.

(* add(a, b) / multiply(a, b): the rows marked as evaluated with exchanged operands are exactly these *)
Definition swap_row_ok (r : mrow) : bool :=
  negb (m_swap r) || fkey_eqb (m_fn r) ("functions", "add", ["X"; "X"]) || fkey_eqb (m_fn r) ("functions", "multiply", ["X"; "X"]).
Definition swap_rows_ok : bool := forallb swap_row_ok api_table.

Definition row_ok (r : mrow) : bool :=
  row_tied r && special_named_ok r && special_pair_ok r && row_guards_tied r && row_conds_ok r.
Definition real_rows_ok : bool := forallb row_ok api_table && swap_rows_ok.
Definition bad_real_rows : list (string * string) :=
  map (fun r => (snd (fst (m_fn r)), match m_t r with RDev n _ _ => n | RTm n _ _ => n | RFun _ n _ _ => n | _ => "" end))
      (filter (fun r => negb (row_ok r)) api_table).

(* function keys used by the proofs and examples *)
Definition fk_input : fkey := ("functions", "input_tensor", ["Shape"; "vec<float>"; "Device*"]).
Definition fk_add : fkey := ("functions", "add", ["X"; "X"]).
Definition fk_mul : fkey := ("functions", "multiply", ["X"; "X"]).
Definition fk_sub : fkey := ("functions", "subtract", ["X"; "X"]).
Definition fk_split : fkey := ("functions", "split", ["X"; "u32"; "u32"]).
Definition fk_concat : fkey := ("functions", "concat<X>", ["vec<X*>"; "u32"]).

(* the Device entries / Tensor methods / operands / composites whose DATA the instance computes
   through the kernel index programs (the core family of Tensor/GraphInst.v) *)
Definition core_entries : list string :=
  ["id"; "negate_fw"; "copy_tensor"; "transpose_fw"; "batch_sum_fw"; "Tensor::flatten"; "Tensor::reshape";
   "add_fw"; "subtract_fw"; "multiply_fw"; "add_scalar_fw"; "subtract_scalar_r_fw"; "subtract_scalar_l_fw";
   "multiply_scalar_fw"; "matmul_fw"; "add_const_fw"; "subtract_const_r_fw"; "subtract_const_l_fw"; "multiply_const_fw";
   "flip_fw"; "sum_fw"; "permute_dims_fw"; "batch_pick_fw"; "broadcast_fw"; "batch_slice_fw"; "pick_fw"; "slice_fw";
   "concat_fw"; "batch_concat_fw"; "conv2d_fw"; "split"; "batch::split"; "new_tensor_by_vector"; "new_tensor_by_constant"].
Definition reach_name (r : reach) : string :=
  match r with
  | RDev name _ _ => name
  | RTm m _ _ => "Tensor::" ++ m
  | RId _ => "id"
  | RFun ns name _ _ => if seqb ns "functions::batch" then "batch::" ++ name else name
  | RBad _ => ""
  end.
Definition row_core (r : mrow) : bool :=
  match m_kind r with KOp => mem (reach_name (m_t r)) core_entries | KThrow => false end.
Definition fn_label (r : mrow) : string :=
  let '(ns, name, tys) := m_fn r in
  (if seqb ns "functions::batch" then "batch::" else if seqb ns "functions::random" then "random::" else "") ++ name.
Fixpoint dedup_str (l : list string) : list string :=
  match l with [] => [] | x :: r => if mem x r then dedup_str r else x :: dedup_str r end.
(* the user-level functions all of whose rows are in the core family / some row of which is not *)
Definition core_functions : list string := dedup_str (map fn_label (filter row_core api_table)).
Definition abstract_functions : list string :=
  dedup_str (map fn_label (filter (fun r => match m_kind r with KOp => negb (row_core r) | KThrow => false end) api_table)).

Section Real.
  Context {R : Type}.
  Variables (rO rI : R) (radd rmul rsub : R -> R -> R) (ropp : R -> R).
  (* float comparisons / isfinite of the distribution-parameter guards: uninterpreted *)
  Variables (fle flt : R -> R -> bool) (ffin : R -> bool).

  Inductive attr :=
  | AF (x : R) | AU (n : N) | AI (z : Z) | AUs (l : list N) | AFs (l : list R)
  | ASh (ds : list N) (b : N)      (* the arguments of Shape(dims, batch) *)
  | ADev (d : option N).

  Record tensor := mkTn { tn_valid : bool; tn_shape : shape; tn_data : list R }.

  Definition senv := list (V shape attr).
  Definition tenv := list (V tensor attr).

  (* ---- operand lookups on the shape side *)
  Definition g_shape (l : leaf) (e : senv) : option shape :=
    match l with
    | LSh i => match nth_error e i with Some (VT s) => if wfb s then Some s else None | _ => None end
    | LRole i => match nth_error e i with Some (VA (ASh ds b)) => mk_shape (map wrap32 ds) (wrap32 b) | _ => None end
    | _ => None
    end.
  Definition g_u (l : leaf) (e : senv) : option N :=
    match l with
    | LRole i => match nth_error e i with Some (VA (AU n)) => Some (wrap32 n) | _ => None end
    | LLit n => Some (wrap32 n)
    | _ => None
    end.
  Definition g_us (l : leaf) (e : senv) : option (list N) :=
    match l with
    | LRole i => match nth_error e i with
                 | Some (VA (AUs v)) => if (N.of_nat (List.length v) <? P32)%N then Some (map wrap32 v) else None
                 | _ => None end
    | _ => None
    end.
  Definition g_shapes (l : leaf) (e : senv) : option (list shape) :=
    match l with
    | LShs i => match nth_error e i with
                | Some (VL v) => if forallb wfb v && (N.of_nat (List.length v) <? P32)%N then Some v else None
                | _ => None end
    | _ => None
    end.

  Definition one (o : option shape) : option (list shape) := option_map (fun s => [s]) o.
  Definition rep (n : N) (o : option shape) : option (list shape) := option_map (fun s => repeat s (N.to_nat n)) o.

  (* ---- the special operators: operands by the signature of the environment *)
  Definition fwd_split_fam (e : senv) : option (list shape) :=
    match e with
    | [VT x; VA (AU d); VA (AU n)] => if wfb x then rep (wrap32 n) (ShapeImpl.split x (wrap32 d) (wrap32 n)) else None
    | [VT x; VA (AU n)] => if wfb x then rep (wrap32 n) (batch_split x (wrap32 n)) else None
    | _ => None
    end.
  Definition comp_split_fam (e : senv) : option (list shape) :=
    match e with
    | [VT x; VA (AU d); VA (AU n)] => if wfb x then split_tensor x (wrap32 d) (wrap32 n) else None
    | [VT x; VA (AU n)] => if wfb x then batch_split_tensor x (wrap32 n) else None
    | _ => None
    end.
  Definition fwd_sce_fam (e : senv) : option (list shape) :=
    match e with
    | [VT x; VT t; VA (AU d)] => if wfb x && wfb t then one (sce x t (wrap32 d)) else None
    | [VT x; VA (AUs ids); VA (AU d)] =>
        if wfb x && (N.of_nat (List.length ids) <? P32)%N then one (pick x (map wrap32 ids) (wrap32 d)) else None
    | _ => None
    end.
  Definition comp_sce_fam (e : senv) : option (list shape) :=
    match e with
    | [VT x; VT t; VA (AU d)] => if wfb x && wfb t then one (sce_dense_tensor x t (wrap32 d)) else None
    | [VT x; VA (AUs ids); VA (AU d)] =>
        if wfb x && (N.of_nat (List.length ids) <? P32)%N then one (sce_sparse_tensor x (map wrap32 ids) (wrap32 d)) else None
    | _ => None
    end.

  (* ---- running a compiled rule on the executable shape rules of Shape/ShapeImpl.v *)
  Definition run_rule (c : srule) (e : senv) : option (list shape) :=
    match c with
    | (RIdent, [a]) => bind (g_shape a e) (fun x => Some [x])
    | (RScalarOp, [a; b]) => bind (g_shape a e) (fun x => bind (g_shape b e) (fun k => one (scalar_op x k)))
    | (RElementwise, [a; b]) => bind (g_shape a e) (fun x => bind (g_shape b e) (fun y => one (elementwise x y)))
    | (RMatmul, [a; b]) => bind (g_shape a e) (fun x => bind (g_shape b e) (fun y => one (matmul x y)))
    | (RReshape, [a; b]) => bind (g_shape a e) (fun x => bind (g_shape b e) (fun y => one (reshape x y)))
    | (RFlatten, [a]) => bind (g_shape a e) (fun x => one (flatten x))
    | (RTranspose, [a]) => bind (g_shape a e) (fun x => one (transpose x))
    | (RPermute, [a; p]) => bind (g_shape a e) (fun x => bind (g_us p e) (fun perm => one (permute_dims x perm)))
    | (RPick, [a; i; d]) =>
        bind (g_shape a e) (fun x => bind (g_us i e) (fun ids => bind (g_u d e) (fun dim => one (pick x ids dim))))
    | (RSlice, [a; d; l; u]) =>
        bind (g_shape a e) (fun x => bind (g_u d e) (fun dim => bind (g_u l e) (fun lo => bind (g_u u e) (fun up =>
          one (slice x dim lo up)))))
    | (RConcat, [a; d]) => bind (g_shapes a e) (fun xs => bind (g_u d e) (fun dim => one (concat xs dim)))
    | (RBroadcast, [a; d; n]) =>
        bind (g_shape a e) (fun x => bind (g_u d e) (fun dim => bind (g_u n e) (fun sz => one (broadcast x dim sz))))
    | (RResizeDim, [a; d; n]) =>
        bind (g_shape a e) (fun x => bind (g_u d e) (fun dim => bind (g_u n e) (fun m => one (resize_dim x dim m))))
    | (RResizeBatch, [a; n]) => bind (g_shape a e) (fun x => bind (g_u n e) (fun b => one (resize_batch x b)))
    | (RConv2d, [a; b; p0; p1; s0; s1; d0; d1]) =>
        bind (g_shape a e) (fun x => bind (g_shape b e) (fun w =>
        bind (g_u p0 e) (fun p0 => bind (g_u p1 e) (fun p1 => bind (g_u s0 e) (fun s0 => bind (g_u s1 e) (fun s1 =>
        bind (g_u d0 e) (fun d0 => bind (g_u d1 e) (fun d1 => one (conv2d x w p0 p1 s0 s1 d0 d1)))))))))
    | (RPool2d, [a; w0; w1; p0; p1; s0; s1]) =>
        bind (g_shape a e) (fun x =>
        bind (g_u w0 e) (fun w0 => bind (g_u w1 e) (fun w1 => bind (g_u p0 e) (fun p0 => bind (g_u p1 e) (fun p1 =>
        bind (g_u s0 e) (fun s0 => bind (g_u s1 e) (fun s1 => one (pool2d x w0 w1 p0 p1 s0 s1))))))))
    | (RBatchPick, [a; i]) => bind (g_shape a e) (fun x => bind (g_us i e) (fun ids => one (batch_pick x ids)))
    | (RBatchSlice, [a; l; u]) =>
        bind (g_shape a e) (fun x => bind (g_u l e) (fun lo => bind (g_u u e) (fun up => one (batch_slice x lo up))))
    | (RBatchConcat, [a]) => bind (g_shapes a e) (fun xs => one (batch_concat xs))
    | (RSquare, [a; b]) => bind (g_u a e) (fun n => bind (g_u b e) (fun m => one (mk_shape [n; m] 1)))
    | (RFwdSplitFam, []) => fwd_split_fam e
    | (RFwdSceFam, []) => fwd_sce_fam e
    | (RCompSplitFam, []) => comp_split_fam e
    | (RCompSceFam, []) => comp_sce_fam e
    | _ => None
    end.

  Definition entry_shape (name : string) (e : senv) : option (list shape) :=
    match entry_rule name with Some c => run_rule c e | None => None end.

  Definition real_shape (e : ex) (env : senv) : option (list shape) :=
    match compile e with Some c => run_rule c env | None => None end.

  (* ---- path conditions *)
  Definition run_cond (c : crule) (e : senv) : bool :=
    match c with
    | CScalar i => match nth_error e i with Some (VT s) => wfb s && is_scalar s | _ => false end
    | CEmptyL i => match nth_error e i with Some (VL []) => true | _ => false end
    | CSplit x d n =>
        match nth_error e x, nth_error e d, nth_error e n with
        | Some (VT s), Some (VA (AU dim)), Some (VA (AU k)) => wfb s && node_split_guard s (wrap32 dim) (wrap32 k)
        | _, _, _ => false end
    | CBSplit x n =>
        match nth_error e x, nth_error e n with
        | Some (VT s), Some (VA (AU k)) => wfb s && node_batch_split_guard s (wrap32 k)
        | _, _ => false end
    end.
  Definition real_cond (c : ex) (env : senv) : bool :=
    match ccompile c with Some r => run_cond r env | None => false end.

  (* ---- value guards of the Device entries *)
  Definition run_guard (g : grule) (e : tenv) : bool :=
    match g with
    | GInvalid i => match nth_error e i with Some (VT t) => negb (tn_valid t) | _ => false end
    | GEmpty i => match nth_error e i with Some (VL []) => true | _ => false end
    | GZero i => match nth_error e i with Some (VA (AU n)) => (wrap32 n =? 0)%N | _ => false end
    | GNotUnit i => match nth_error e i with Some (VA (AF p)) => negb (fle rO p && fle p rI) | _ => false end
    | GRange lo hi => match nth_error e lo, nth_error e hi with
                      | Some (VA (AF a)), Some (VA (AF b)) => negb (fle a b) || negb (ffin (rsub b a))
                      | _, _ => false end
    | GNotPos i => match nth_error e i with Some (VA (AF s)) => negb (flt rO s) | _ => false end
    end.
  Definition real_guard (g : ex) (env : tenv) : bool :=
    match gcompile g with Some r => run_guard r env | None => false end.

  (* ---- values *)
  (* kernels outside the core family: any deterministic function of the reach form (entry name,
     literal arguments), the operand values and the result shapes *)
  Variable other : reach -> tenv -> list shape -> list (list R).

  Definition route_arg (a : ex) (env : tenv) : option (V tensor attr) :=
    match a with
    | Call f [r] => if seqb f "ptrs_of" then match role_id r with Some i => nth_error env i | None => None end else None
    | Meth x v [] => if seqb v "value" then match role_id x with Some i => nth_error env i | None => None end else None
    | _ => match role_id a with Some i => nth_error env i | None => None end
    end.
  Fixpoint route (args : list ex) (env : tenv) : option tenv :=
    match args with
    | [] => Some []
    | a :: r => match route_arg a env, route r env with Some v, Some vs => Some (v :: vs) | _, _ => None end
    end.

  Notation fw o := (d_fw (describe rO radd rmul rsub ropp o)).
  Definition nn := N.to_nat.
  Definition tsh (t : tensor) : tshape := to_t (tn_shape t).

  (* forward of the kernel index programs (Tensor/Kernels.v through Tensor/GraphInst.describe)
     for the entries of the core family; xs = the actual arguments of the entry, sy = the shape
     the entry allocates *)
  Definition core_data (name : string) (xs : tenv) (ss : list shape) : option (list (list R)) :=
    let sy := to_t (hd scalar_shape ss) in
    match xs with
    | [VT a] =>
        if seqb name "negate_fw" then Some (fw (ONeg (tsh a)) [tn_data a])
        else if seqb name "copy_tensor" then Some (fw (OCopy (tsh a)) [tn_data a])
        else if seqb name "transpose_fw" then Some (fw (OTranspose (tsh a) sy) [tn_data a])
        else if seqb name "batch_sum_fw" then Some (fw (OBatchSum (tsh a) sy) [tn_data a])
        else if seqb name "Tensor::flatten" then Some (fw (OReshape (tsh a) sy) [tn_data a])
        else if seqb name "id" then Some [tn_data a]
        else None
    | [VT a; VT b] =>
        let ab := [tn_data a; tn_data b] in
        if seqb name "add_fw" then Some (fw (OAdd (tsh a) (tsh b)) ab)
        else if seqb name "subtract_fw" then Some (fw (OSub (tsh a) (tsh b)) ab)
        else if seqb name "multiply_fw" then Some (fw (OMul (tsh a) (tsh b)) ab)
        else if seqb name "add_scalar_fw" then Some (fw (OAddScalar (tsh a) (tsh b)) ab)
        else if seqb name "subtract_scalar_r_fw" then Some (fw (OSubScalarR (tsh a) (tsh b)) ab)
        else if seqb name "subtract_scalar_l_fw" then Some (fw (OSubScalarL (tsh a) (tsh b)) ab)
        else if seqb name "multiply_scalar_fw" then Some (fw (OMulScalar (tsh a) (tsh b)) ab)
        else if seqb name "matmul_fw" then Some (fw (OMatmul (tsh a) (tsh b) sy) ab)
        else None
    | [VT a; VA (AF k)] =>
        if seqb name "add_const_fw" then Some (fw (OAddConst (tsh a) k) [tn_data a])
        else if seqb name "subtract_const_r_fw" then Some (fw (OSubConstR (tsh a) k) [tn_data a])
        else if seqb name "subtract_const_l_fw" then Some (fw (OSubConstL (tsh a) k) [tn_data a])
        else if seqb name "multiply_const_fw" then Some (fw (OMulConst (tsh a) k) [tn_data a])
        else None
    | [VT a; VA (ASh _ _)] =>
        if seqb name "Tensor::reshape" then Some (fw (OReshape (tsh a) sy) [tn_data a]) else None
    | [VT a; VA (AU d)] =>
        if seqb name "flip_fw" then Some (fw (OFlip (tsh a) (nn (wrap32 d))) [tn_data a])
        else if seqb name "sum_fw" then Some (fw (OSum (tsh a) sy (nn (wrap32 d))) [tn_data a])
        else if seqb name "batch::split" then Some (fw (OBatchSplit (tsh a) sy (nn (wrap32 d))) [tn_data a])
        else None
    | [VT a; VA (AUs p)] =>
        if seqb name "permute_dims_fw" then Some (fw (OPermute (tsh a) sy (map nn (map wrap32 p))) [tn_data a])
        else if seqb name "batch_pick_fw" then Some (fw (OBatchPick (tsh a) sy (map nn (map wrap32 p))) [tn_data a])
        else None
    | [VT a; VA (AU d); VA (AU n)] =>
        if seqb name "broadcast_fw" then Some (fw (OBroadcast (tsh a) sy (nn (wrap32 d)) (nn (wrap32 n))) [tn_data a])
        else if seqb name "batch_slice_fw" then Some (fw (OBatchSlice (tsh a) sy (nn (wrap32 d))) [tn_data a])
        else if seqb name "split" then Some (fw (OSplit (tsh a) sy (nn (wrap32 d)) (nn (wrap32 n))) [tn_data a])
        else None
    | [VT a; VA (AUs ids); VA (AU d)] =>
        if seqb name "pick_fw" then Some (fw (OPick (tsh a) sy (map nn (map wrap32 ids)) (nn (wrap32 d))) [tn_data a]) else None
    | [VT a; VA (AU d); VA (AU lo); VA (AU up)] =>
        if seqb name "slice_fw" then Some (fw (OSlice (tsh a) sy (nn (wrap32 d)) (nn (wrap32 lo))) [tn_data a]) else None
    | [VL l; VA (AU d)] =>
        if seqb name "concat_fw" then Some (fw (OConcat (map tsh l) sy (nn (wrap32 d))) (map tn_data l)) else None
    | [VL l] =>
        if seqb name "batch_concat_fw" then Some (fw (OBatchConcat (map tsh l) sy) (map tn_data l)) else None
    | [VT a; VT b; VA (AU p0); VA (AU p1); VA (AU s0); VA (AU s1); VA (AU d0); VA (AU d1)] =>
        if seqb name "conv2d_fw" then
          Some (fw (OConv2d (tsh a) (tsh b) sy (nn (wrap32 p0)) (nn (wrap32 p1)) (nn (wrap32 s0)) (nn (wrap32 s1))
                            (nn (wrap32 d0)) (nn (wrap32 d1))) [tn_data a; tn_data b])
        else None
    | [VA (ASh _ _); VA (AFs v)] => if seqb name "new_tensor_by_vector" then Some [v] else None
    | [VA (ASh _ _); VA (AF k)] => if seqb name "new_tensor_by_constant" then Some [repeat k (tsize sy)] else None
    | _ => None
    end.

  (* the entry name under which [core_data] knows a reach form, and its actual arguments *)
  Definition reach_call (r : reach) : option (string * list ex) :=
    match r with
    | RDev _ _ dargs => Some (reach_name r, dargs)
    | RTm _ recv args => Some (reach_name r, recv :: args)
    | RId e => Some (reach_name r, [e])
    | RFun _ _ _ args => Some (reach_name r, args)
    | RBad _ => None
    end.

  Definition real_data (r : reach) (env : tenv) (ss : list shape) : list (list R) :=
    match reach_call r with
    | Some (name, dargs) =>
        match route dargs env with
        | Some xs => match core_data name xs ss with Some d => d | None => other r env ss end
        | None => other r env ss
        end
    | None => other r env ss
    end.

  Definition mk_results (ss : list shape) (ds : list (list R)) : list tensor :=
    map (fun p => mkTn true (snd p) (nth (fst p) ds [])) (combine (seq 0 (List.length ss)) ss).

  (* a Device entry (Tensor method, operand, composite): the shape(s) by the rule FrontEnd
     transcribes for it, on tensors allocated with those shapes the data the kernel writes *)
  Definition real_val (r : reach) (env : tenv) : list tensor :=
    match reach_rule r with
    | Some c => match run_rule c (shapes tensor shape attr tn_shape env) with
                | Some ss => mk_results ss (real_data r env ss)
                | None => []
                end
    | None => []
    end.

  (* ---- the core family: the entries whose data [core_data] computes, and well-typed environments *)
  Definition ty_ok (ty : string) (v : V tensor attr) : bool :=
    if seqb ty "X" || seqb ty "Parameter&" then match v with VT _ => true | _ => false end
    else if seqb ty "vec<X*>" then match v with VL _ => true | _ => false end
    else if seqb ty "float" then match v with VA (AF _) => true | _ => false end
    else if seqb ty "u32" then match v with VA (AU _) => true | _ => false end
    else if seqb ty "i32" then match v with VA (AI _) => true | _ => false end
    else if seqb ty "vec<u32>" then match v with VA (AUs _) => true | _ => false end
    else if seqb ty "vec<float>" then match v with VA (AFs _) => true | _ => false end
    else if seqb ty "Shape" then match v with VA (ASh _ _) => true | _ => false end
    else if seqb ty "Device*" then match v with VA (ADev _) => true | _ => false end
    else false.
  Fixpoint env_typed (tys : list string) (env : tenv) : bool :=
    match tys, env with
    | [], [] => true
    | ty :: tys', v :: env' => ty_ok ty v && env_typed tys' env'
    | _, _ => false
    end.

  (* ---- the three runs of a program at the real instance (= eager / create / evaluate of
     Tables/ApiFacts.v; written out so that this file depends on no proof) *)
  Definition real_eager := eager_run tensor shape attr tn_shape real_cond real_shape real_guard real_val api_table.
  Definition real_create := node_create_run shape attr real_cond real_shape api_table.
  Definition real_evaluate := node_eval_run tensor shape attr tn_shape real_cond real_shape real_guard real_val api_table.
End Real.

Arguments AF {R}. Arguments AU {R}. Arguments AI {R}. Arguments AUs {R}. Arguments AFs {R}.
Arguments ASh {R}. Arguments ADev {R}.
Arguments mkTn {R}. Arguments tn_valid {R}. Arguments tn_shape {R}. Arguments tn_data {R}.
