(* Row construction for property C04 (tables engine): from the parsed bodies of Gen/OpTables.v
   to one ROW per return path of every Node function, carrying the canonical forms that the
   checkers of Tables/OpCheck.v compare.  Executable definitions only.

   Canonical forms are expressions over the positional roles $0 $1 ... of the user-level call
   f(p0, p1, ...) (the parameters of the Node function, which the Tensor function of the same
   name and signature shares position by position). *)
From Coq Require Import List String Ascii Bool Arith.
From PV Require Import Tables.OpSyntax Tables.OpUtil.
Import ListNotations.
Local Open Scope string_scope.

Section Rows.
  (* the regenerated tables *)
  Variable op_classes : list opclass.
  Variable op_methods node_funcs tensor_funcs device_funcs tensor_methods template_specs arith_ops : list func.

  (* ---------------------------------------------------------------- operator classes *)
  Definition cls_name (c : string) : string := strip_prefix "operators::" c.

  Definition find_class (c : string) : option opclass :=
    find (fun o => seqb (oc_name o) (cls_name c)) op_classes.

  Definition class_method (o : opclass) (m : string) : option func :=
    find (fun f => seqb (f_name f) m) (oc_methods o).

  Definition ret_expr (f : func) : option ex :=
    match f_body f with [SRet e] => Some e | _ => None end.

  Definition class_const (o : opclass) (m : string) : option ex :=
    match class_method o m with Some f => ret_expr f | None => None end.

  Definition op_method (c m : string) : option func :=
    find (fun f => seqb (f_qual f) (cls_name c) && seqb (f_name f) m) op_methods.

  Inductive count := CNum (n : nat) | CNonzero | CAny | CMember (m : string) | CBad.

  Definition count_of (e : option ex) : count :=
    match e with
    | Some (Lit s) => match nat_of_str s with Some n => CNum n | None => CBad end
    | Some (Id s) => if seqb s "Operator::NONZERO" then CNonzero
                     else if seqb s "Operator::ANY" then CAny else CMember s
    | _ => CBad
    end.

  Definition count_eqb (a b : count) : bool :=
    match a, b with
    | CNum n, CNum m => Nat.eqb n m
    | CNonzero, CNonzero => true
    | CAny, CAny => true
    | CMember s, CMember t => seqb s t
    | _, _ => false
    end.

  (* member := constructor initialiser, with the constructor parameters replaced by the
     attribute expressions of the call site *)
  Definition member_env (o : opclass) (attrs : list ex) : option (list (string * ex)) :=
    match find (fun k => Nat.eqb (List.length (f_params k)) (List.length attrs)) (oc_ctors o) with
    | Some k => Some (map (fun mi => (fst mi, inst_formals (f_params k) attrs (snd mi))) (f_inits k))
    | None => match oc_ctors o, attrs with [], [] => Some [] | _, _ => None end
    end.

  (* number of y[i] a forward / forward_shape body assigns *)
  Definition y_target (l : ex) : option ex :=
    match l with
    | Deref (Idx (Id y) i) => if seqb y "y" then Some i else None
    | _ => None
    end.

  Fixpoint top_assigns (ss : list st) : list (ex * ex) :=
    match ss with
    | [] => []
    | SAssign l r :: rest => match y_target l with Some i => (i, r) :: top_assigns rest | None => top_assigns rest end
    | _ :: rest => top_assigns rest
    end.

  Fixpoint loop_assigns (ss : list st) : list (ex * ex) :=   (* (bound, rhs) of `for i in 0..bound: *y[i] = rhs` *)
    match ss with
    | [] => []
    | SFor v (Lit z) hi b :: rest =>
        (if seqb z "0" then
           flat_map (fun ir => match fst ir with
                               | Id w => if seqb w v then [(hi, snd ir)] else [(Other "index", snd ir)]
                               | _ => [(Other "index", snd ir)] end) (top_assigns b)
         else [(Other "lower-bound", hi)]) ++ loop_assigns rest
    | _ :: rest => loop_assigns rest
    end%list.

  Fixpoint lits_upto (l : list (ex * ex)) (i : nat) : bool :=
    match l with
    | [] => true
    | (Lit s, _) :: r => match nat_of_str s with Some n => Nat.eqb n i && lits_upto r (S i) | None => false end
    | _ => false
    end.

  Definition assigned_count (ss : list st) : count :=
    match top_assigns ss, loop_assigns ss with
    | (a :: l), [] => if lits_upto (a :: l) 0 then CNum (List.length (a :: l)) else CBad
    | [], [(Id m, _)] => CMember m
    | _, _ => CBad
    end.

  (* x[i] indices used by a body *)
  Definition x_index (e : ex) : option nat :=
    match e with
    | Idx (Id x) (Lit s) => if seqb x "x" then nat_of_str s else None
    | _ => None
    end.

  Fixpoint ex_xidx (e : ex) : list nat :=
    match x_index e with
    | Some n => [n]
    | None =>
      match e with
      | Call _ a => flat_map ex_xidx a
      | Meth r _ a => ex_xidx r ++ flat_map ex_xidx a
      | Idx a i => ex_xidx a ++ ex_xidx i
      | Deref a => ex_xidx a
      | Un _ a => ex_xidx a
      | Bin _ a b => ex_xidx a ++ ex_xidx b
      | Cond c a b => ex_xidx c ++ ex_xidx a ++ ex_xidx b
      | Brace l => flat_map ex_xidx l
      | New _ a => flat_map ex_xidx a
      | _ => []
      end
    end%list.

  Fixpoint st_xidx (fuel : nat) (s : st) : list nat :=
    match fuel with
    | O => []
    | S k =>
      match s with
      | SAssign l r => ex_xidx l ++ ex_xidx r
      | SOpAssign _ l r => ex_xidx l ++ ex_xidx r
      | SExp e => ex_xidx e
      | SDecl _ _ (Some e) => ex_xidx e
      | SRet e => ex_xidx e
      | SIf c t e => ex_xidx c ++ flat_map (st_xidx k) t ++ flat_map (st_xidx k) e
      | SFor _ lo hi b => ex_xidx lo ++ ex_xidx hi ++ flat_map (st_xidx k) b
      | SForEach _ r b => ex_xidx r ++ flat_map (st_xidx k) b
      | _ => []
      end
    end%list.

  Definition body_xidx (ss : list st) : list nat := flat_map (st_xidx 20) ss.

  Fixpoint st_clean (fuel : nat) (s : st) : bool :=
    match fuel with
    | O => false
    | S k =>
      match s with
      | SAssign l r => ex_clean l && ex_clean r
      | SOpAssign _ l r => ex_clean l && ex_clean r
      | SExp e => ex_clean e
      | SDecl _ _ (Some e) => ex_clean e
      | SDecl _ _ None => true
      | SRet e => ex_clean e
      | SRetVoid => true
      | SThrow => true
      | SIf c t e => ex_clean c && forallb (st_clean k) t && forallb (st_clean k) e
      | SFor _ lo hi b => ex_clean lo && ex_clean hi && forallb (st_clean k) b
      | SForEach _ r b => ex_clean r && forallb (st_clean k) b
      | SOther _ => false
      end
    end.

  Definition body_clean (ss : list st) : bool := forallb (st_clean 20) ss.

  (* ---------------------------------------------------------------- Node function rows *)
  Inductive ncall :=
  | NOp (cls : string) (attrs : list ex) (args : ex) (first : bool)   (* add_operator(new cls(attrs), args)[0]? *)
  | NExpr (e : ex).

  Definition add_operator_call (e : ex) : option (string * list ex * ex) :=
    match e with
    | Meth _ m [Call u [New c ats]; a] =>
        if seqb m "add_operator" && seqb u "unique_ptr<Operator>" then Some (c, ats, a) else None
    | _ => None
    end.

  Definition classify (e : ex) : ncall :=
    match e with
    | Idx e' (Lit z) =>
        match add_operator_call e' with
        | Some (c, ats, a) => if seqb z "0" then NOp c ats a true else NExpr e
        | None => NExpr e
        end
    | _ => match add_operator_call e with
           | Some (c, ats, a) => NOp c ats a false
           | None => NExpr e
           end
    end.

  Definition is_api_ns (ns : string) : bool := prefixb "functions" ns.

  Definition api_node_funcs : list func := filter (fun f => is_api_ns (f_ns f)) node_funcs.
  Definition api_tensor_funcs : list func := filter (fun f => is_api_ns (f_ns f)) tensor_funcs.

  (* ---------------------------------------------------------------- which Tensor function a Node function stands for *)
  Definition spec_call (f : func) : option (string * list ex) :=
    match f_body f with [SRet (Call g a)] => Some (g, a) | _ => None end.

  (* template B with B<Node> = f(params..., nullptr) and B<Tensor> = t(params...) *)
  Definition wiring_ok (s : func) (a : list ex) (extra_null : bool) : bool :=
    let ids := map (fun n => Id n) (names (f_params s)) in
    let a' := map (fun x => match x with Un o (Id n) => if seqb o "&" then Id n else x | _ => x end) a in
    exl_eqb a' (if extra_null then ids ++ [Id "nullptr"] else ids)%list.

  Definition tensor_name_via_spec (f : func) : option string :=
    match find (fun s => seqb (f_ns s) (f_ns f) && seqb (tag_of (f_name s)) "Node>" &&
                         match spec_call s with
                         | Some (g, a) => seqb g (f_name f) && wiring_ok s a true
                         | None => false end) template_specs with
    | Some sn =>
        match find (fun s => seqb (f_ns s) (f_ns f) && seqb (f_name s) (base_name (f_name sn) ++ "<Tensor>")) template_specs with
        | Some st' => match spec_call st' with
                      | Some (g, a) => if wiring_ok st' a false && strl_eqb (types (f_params st')) (types (f_params sn))
                                       then Some g else None
                      | None => None end
        | None => None
        end
    | None => None
    end.

  Fixpoint is_prefix_types (a b : list string) : bool :=   (* a is a prefix of b, rest of b only Graph* *)
    match a, b with
    | [], r => forallb (fun t => seqb t "Graph*") r
    | x :: a', y :: b' => seqb x y && is_prefix_types a' b'
    | _, [] => false
    end.

  Definition stands_for (f : func) : option func :=
    let tname := match tensor_name_via_spec f with Some g => g | None => f_name f end in
    find (fun t => seqb (f_ns t) (f_ns f) && seqb (f_name t) tname &&
                   is_prefix_types (types (f_params t)) (types (f_params f))) api_tensor_funcs.

  (* ---------------------------------------------------------------- kinds and call resolution *)
  Definition kind (tys : list string) (e : ex) : string :=
    match e with
    | Id s => match s with
              | String c r => if Ascii.eqb c "$"%char then
                                match nat_of_str r with Some i => nth i tys "?" | None => "?" end
                              else if seqb s "nullptr" then "null" else "?"
              | _ => "?" end
    | Lit _ => "lit"
    | Call g _ => if seqb g "dev_or_default" then "Device&" else if seqb g "ptrs_of" then "vec<X*>" else "?"
    | Un o (Call g _) => if seqb o "&" && seqb g "dev_or_default" then "Device*" else "?"
    | Un o (Id s) => if seqb o "&" then
                       match s with
                       | String c r => if Ascii.eqb c "$"%char then
                                         match nat_of_str r with
                                         | Some i => if seqb (nth i tys "?") "Device&" then "Device*" else "?"
                                         | None => "?" end else "?"
                       | _ => "?" end
                     else "?"
    | _ => "?"
    end.

  Definition kind_matches (k ty : string) : bool :=
    seqb k ty || (seqb k "lit" && (seqb ty "float" || seqb ty "u32" || seqb ty "i32")) ||
    (seqb k "null" && (seqb ty "Device*" || seqb ty "Graph*")).

  Fixpoint kinds_match (ks tys : list string) : bool :=
    match ks, tys with
    | [], [] => true
    | k :: ks', t :: tys' => kind_matches k t && kinds_match ks' tys'
    | _, _ => false
    end.

  (* "the device `d` or the default device": the two helpers are identified *)
  Definition norm_dev (e : ex) : ex :=
    rw (fun x => match x with
                 | Call g [d] => if seqb g "Device::get_reference_or_default" || seqb g "get_device"
                                 then Some (Call "dev_or_default" [d])
                                 else if seqb g "obj_to_ptr" then Some (Call "ptrs_of" [d])   (* the same operand list, as pointers *)
                                 else None
                 | _ => None end) e.

  (* xs.empty() does not depend on the view of the operand list *)
  Definition norm_cond (e : ex) : ex :=
    rw (fun x => match x with
                 | Meth (Call g [d]) m [] => if seqb g "ptrs_of" && seqb m "empty" then Some (Meth d "empty" []) else None
                 | _ => None end) (norm_dev e).

  (* &dev_or_default(d) handed on as a Device* is defaulted again by the callee: idempotent *)
  Definition norm_devptr (e : ex) : ex :=
    rw (fun x => match x with
                 | Un o (Call g [d]) => if seqb o "&" && seqb g "dev_or_default" then Some d else None
                 | _ => None end) e.

  Definition parent_ns (ns : string) : list string :=
    if seqb ns "functions::batch" || seqb ns "functions::random" then [ns; "functions"] else [ns].

  (* qualified callee -> (candidate namespaces, base name, tag) *)
  Definition callee (ctx g : string) : list string * string :=
    if prefixb "functions::batch::" g then (["functions::batch"], strip_prefix "functions::batch::" g)
    else if prefixb "functions::random::" g then (["functions::random"], strip_prefix "functions::random::" g)
    else if prefixb "functions::" g then (["functions"], strip_prefix "functions::" g)
    else if prefixb "batch::" g then (["functions::batch"], strip_prefix "batch::" g)
    else (parent_ns ctx, g).

  Definition cand (tbl : list func) (nss : list string) (name : string) (ks : list string) : option func :=
    let fix go (l : list string) :=
      match l with
      | [] => None
      | ns :: r =>
          match find (fun t => seqb (f_ns t) ns && seqb (base_name (f_name t)) (base_name name) &&
                               negb (seqb (tag_of (f_name t)) "Node>") &&
                               kinds_match ks (types (f_params t))) tbl with
          | Some t => Some t
          | None => go r
          end
      end in go nss.

  (* canonical reach form of an expression over roles *)
  Inductive reach :=
  | RDev (m : string) (recv : ex) (args : list ex)     (* Device method m called on recv *)
  | RId (e : ex)                                       (* the operand / inner value itself *)
  | RTm (m : string) (recv : ex) (args : list ex)      (* Tensor method (reshape, flatten) *)
  | RFun (ns name : string) (tys : list string) (args : list ex)  (* a Tensor function with several paths or a composite body *)
  | RBad (why : string).

  Definition is_device_recv (tys : list string) (r : ex) : bool :=
    match r with
    | Meth _ m [] => seqb m "device"
    | Call g _ => seqb g "dev_or_default"
    | _ => seqb (kind tys r) "Device&"
    end.

  Definition simple_arg (e : ex) : bool :=
    match e with Id _ | Lit _ => true | Un _ (Id _) => true | Call _ [Id _] => true | Un _ (Call _ [Id _]) => true | _ => false end.

  Definition simple_body (f : func) : option ex :=
    match f_body f with
    | [SRet (Id x)] => Some (Id x)
    | [SRet (Meth r m a)] => if forallb simple_arg a then Some (Meth r m a) else None
    | [SRet (Call g a)] => if forallb simple_arg a then Some (Call g a) else None
    | _ => None
    end.

  Definition arith_lookup (o : string) (ks : list string) : option func :=
    find (fun f => seqb (f_name f) ("operator" ++ o) && kinds_match ks (types (f_params f))) arith_ops.

  Fixpoint reach_of (fuel : nat) (tys : list string) (ctx : string) (e : ex) : reach :=
    match fuel with
    | O => RBad "fuel"
    | S k =>
      match e with
      | Id _ => RId e
      | Un o a =>
          if seqb o "&" then reach_of k tys ctx a else
          match arith_lookup o [kind tys a] with
          | Some f => match ret_expr f with
                      | Some b => reach_of k tys "functions" (inst_formals (f_params f) [a] b)
                      | None => RBad "operator body" end
          | None => RBad ("no operator" ++ o)
          end
      | Bin o a b =>
          match arith_lookup o [kind tys a; kind tys b] with
          | Some f => match ret_expr f with
                      | Some bd => reach_of k tys "functions" (inst_formals (f_params f) [a; b] bd)
                      | None => RBad "operator body" end
          | None => RBad ("no operator" ++ o)
          end
      | Call g a =>
          let a := map norm_dev a in
          let (nss, name) := callee ctx g in
          let ks := map (kind tys) a in
          match cand api_tensor_funcs nss name ks with
          | Some t =>
              match simple_body t with
              | Some b => reach_of k tys (f_ns t) (norm_dev (inst_formals (f_params t) (map norm_devptr a) b))
              | None => RFun (f_ns t) (f_name t) (types (f_params t)) (map norm_devptr a)
              end
          | None =>
              match cand template_specs nss name ks with
              | Some s => match simple_body s with
                          | Some b => reach_of k tys (f_ns s) (inst_formals (f_params s) a b)
                          | None => RBad "template body" end
              | None => RBad ("unresolved call " ++ g)
              end
          end
      | Meth r m a =>
          let r := norm_dev r in
          if is_device_recv tys r then RDev m r (map (fun x => norm_devptr (norm_dev x)) a)
          else match r with
               | Id _ => if seqb (kind tys r) "X" then RTm m r a
                         else if seqb m "value" then RId e else RBad "receiver"
               | _ => RBad "receiver"
               end
      | _ => RBad "expression"
      end
    end.

  Definition reach_eqb (a b : reach) : bool :=
    match a, b with
    | RDev m r x, RDev m' r' y => seqb m m' && ex_eqb r r' && exl_eqb x y
    | RId e, RId e' => ex_eqb e e'
    | RTm m r x, RTm m' r' y => seqb m m' && ex_eqb r r' && exl_eqb x y
    | RFun n f t x, RFun n' f' t' y => seqb n n' && seqb f f' && strl_eqb t t' && exl_eqb x y
    | _, _ => false
    end.

  (* ---------------------------------------------------------------- shapes *)
  (* Device::m body -> (value guards, shape expression) over the formals *)
  Definition is_devcheck (c : ex) : bool :=
    match c with
    | Bin o (Un a (Meth _ d [])) (Id t) => seqb o "!=" && seqb a "&" && seqb d "device" && seqb t "this"
    | _ => false
    end.

  Definition shapes_loop (v : string) (s : st) : option string :=
    match s with
    | SFor i (Lit z) (Meth (Id xs) sz []) [SIf c [SThrow] []; SExp (Meth (Id v') eb [Meth (Deref (Idx (Id xs') (Id i'))) sh []])] =>
        if seqb z "0" && seqb sz "size" && is_devcheck c && seqb v v' && seqb eb "emplace_back" &&
           seqb xs xs' && seqb i i' && seqb sh "shape" then Some xs else None
    | _ => None
    end.

  Fixpoint dev_walk (ss : list st) (env : list (string * ex)) (guards : list ex) : option (list ex * ex) :=
    match ss with
    | [] => None
    | SIf c [SThrow] [] :: rest => dev_walk rest env (if is_devcheck c then guards else guards ++ [c])%list
    | SDecl _ v None :: rest => dev_walk rest ((v, Other "uninitialised") :: env) guards
    | SDecl _ v (Some e) :: rest => dev_walk rest ((v, subst_ids (fun s => assoc s env) e) :: env) guards
    | SFor i lo hi b :: rest =>
        match find (fun ve => match shapes_loop (fst ve) (SFor i lo hi b) with Some _ => true | None => false end) env with
        | Some (v, _) => match shapes_loop v (SFor i lo hi b) with
                         | Some xs => dev_walk rest ((v, Call "shapes_of" [Id xs]) :: env) guards
                         | None => None end
        | None => None
        end
    | SExp _ :: rest => dev_walk rest env guards
    | SRet e :: _ =>
        match subst_ids (fun s => assoc s env) e with
        | Call g (se :: _) => if seqb g "new_raw_tensor" || seqb g "X" || seqb g "Tensor" then Some (guards, se) else None
        | _ => None
        end
    | _ => None
    end.

  Definition norm_shape (e : ex) : ex :=
    rw (fun x => match x with
                 | Meth (Meth p v []) s [] => if seqb v "value" && seqb s "shape" then Some (Meth p "shape" []) else None
                 | _ => None end)
       (match e with Brace l => Call "Shape" [Brace l] | _ => e end).

  Definition find_dev (m : string) (n : nat) : option func :=
    find (fun f => seqb (f_name f) m && Nat.eqb (List.length (f_params f)) n) device_funcs.

  Definition reach_shape (r : reach) : option (list ex * ex) :=   (* guards, shape *)
    match r with
    | RDev m _ args =>
        match find_dev m (List.length args) with
        | Some f => match dev_walk (f_body f) [] [] with
                    | Some (gs, se) => Some (map (inst_formals (f_params f) args) gs,
                                             norm_shape (inst_formals (f_params f) args se))
                    | None => None end
        | None => None
        end
    | RId e => Some ([], norm_shape (Meth e "shape" []))
    | RTm m recv args =>
        match find (fun f => seqb (f_name f) m) tensor_methods with
        | Some f => match f_body f with
                    | [SExp (Call cv []); SRet (Call t (se :: _))] =>
                        if seqb cv "check_valid" && seqb t "Tensor" then
                          Some ([], norm_shape (subst_ids (fun s => if seqb s "shape_" then Some (Meth recv "shape" []) else None)
                                                          (inst_formals (f_params f) args se)))
                        else None
                    | _ => None end
        | None => None
        end
    | _ => None
    end.

  (* ---------------------------------------------------------------- rows *)
  Record row := {
    r_fn : func;                 (* the Node function *)
    r_conds : conds;             (* path condition, canonical *)
    r_out : outcome;             (* raw outcome of the path *)
    r_call : ncall;              (* classified *)
    r_tfn : option func;         (* the Tensor function it stands for *)
    r_tpath : option outcome;    (* the path of the Tensor function with the same condition *)
  }.

  (* return paths of a Tensor function, looking through a body that only forwards to another
     overload (concat(vector<Tensor>) -> concat(vector<const Tensor *>)) *)
  Fixpoint tfn_paths (fuel : nat) (t : func) (actuals : list ex) (tys : list string) : list (conds * outcome) :=
    let here := map (fun p => (map (fun c => (norm_cond (inst_formals (f_params t) actuals (fst c)), snd c)) (fst p),
                               match snd p with
                               | ORet e => ORet (norm_dev (inst_formals (f_params t) actuals e))
                               | o => o end)) (func_paths t) in
    match fuel with
    | O => here
    | S k =>
      match here with
      | [([], ORet (Call g a))] =>
          let (nss, name) := callee (f_ns t) g in
          match cand api_tensor_funcs nss name (map (kind tys) a) with
          | Some t' => if forallb simple_arg a then tfn_paths k t' a tys else here
          | None => here
          end
      | _ => here
      end
    end.

  Definition rows_of (f : func) : list row :=
    let tf := stands_for f in
    map (fun p =>
           let cs := map (fun c => (norm_cond (fst c), snd c)) (canon_conds (f_params f) (fst p)) in
           {| r_fn := f; r_conds := cs; r_out := snd p;
              r_call := match snd p with ORet e => classify e | _ => NExpr (Other "no-return") end;
              r_tfn := tf;
              r_tpath := match tf with
                         | Some t => match find (fun q => condl_eqb (fst q) cs)
                                                    (tfn_paths 4 t (map role (seq 0 (List.length (f_params t)))) (types (f_params f))) with
                                     | Some q => Some (snd q) | None => None end
                         | None => None end |})
        (func_paths f).

  Definition rows : list row := flat_map rows_of api_node_funcs.

  Definition tys_of (r : row) : list string := types (f_params (r_fn r)).

  (* the node arguments at the call site, canonical: Some l for {a, b}, None for a vector variable *)
  Definition callsite_args (r : row) (a : ex) : option (list ex) :=
    match a with Brace l => Some (map (canon (f_params (r_fn r))) l) | _ => None end.

  (* FORWARD∘call-site / FWD_SHAPE∘call-site instantiation *)
  Definition inst_x (shape : bool) (args : ex) (menv : list (string * ex)) (e : ex) : ex :=
    rw (fun x =>
          match x with
          | Deref (Idx (Id v) (Lit s)) =>
              if seqb v "x" then
                match args, nat_of_str s with
                | Brace l, Some i => match nth_error l i with
                                     | Some a => Some (if shape then Meth a "shape" [] else a)
                                     | None => Some (Other "x index out of range") end
                | _, _ => Some (Other "x index into a vector argument")
                end
              else None
          | Id s =>
              if seqb s "x" then
                match args with
                | Id v => Some (if shape then Call "shapes_of" [Id v] else Call "ptrs_of" [Id v])
                | _ => Some (Other "whole x with a brace list")
                end
              else assoc s menv
          | _ => None
          end) e.

  Definition single_assign (ss : list st) : option ex :=
    match ss with
    | [SAssign l r] => match y_target l with
                       | Some (Lit z) => if seqb z "0" then Some r else None
                       | _ => None end
    | _ => None
    end.

  (* value side: canonical reach of FORWARD(op) composed with the call site *)
  Definition row_fw (r : row) : reach :=
    match r_call r with
    | NOp c ats a _ =>
        match find_class c with
        | Some o =>
            match member_env o ats with
            | Some menv =>
                let src :=
                    match class_const o "has_inner_values" with
                           | Some (Id b) =>
                               if seqb b "true" then
                                 match op_method c "get_inner_values" with
                                 | Some g => match ret_expr g with Some (Call _ [v]) => Some v | _ => None end
                                 | None => None end
                               else match op_method c "forward" with
                                    | Some g => single_assign (f_body g)
                                    | None => None end
                           | _ => None end in
                match src with
                | Some e => reach_of 12 (tys_of r) "functions"
                                     (canon (f_params (r_fn r)) (norm_dev (inst_x false a menv e)))
                | None => RBad "forward is not a single assignment"
                end
            | None => RBad "constructor"
            end
        | None => RBad "class"
        end
    | NExpr _ => RBad "not an operator row"
    end.

  (* eager side: canonical reach of the Tensor function's path *)
  Definition row_t (r : row) : reach :=
    match r_tfn r, r_tpath r with
    | Some t, Some (ORet e) =>
        match e with
        | Id _ | Meth _ _ _ => reach_of 12 (tys_of r) (f_ns t) e    (* a single call: follow it *)
        | Call _ a => if forallb simple_arg a then reach_of 12 (tys_of r) (f_ns t) e
                      else RFun (f_ns t) (f_name t) (types (f_params t)) (map role (seq 0 (List.length (f_params t))))
        | _ => RFun (f_ns t) (f_name t) (types (f_params t)) (map role (seq 0 (List.length (f_params t))))
        end
    | Some t, _ => RFun (f_ns t) (f_name t) (types (f_params t)) (map role (seq 0 (List.length (f_params t))))
    | None, _ => RBad "no Tensor function"
    end.

  (* the user-level call as a Tensor-function call on the roles in order *)
  Definition row_self (r : row) : reach :=
    match r_tfn r with
    | Some t => reach_of 12 (tys_of r) (f_ns t) (Call (f_name t) (map role (seq 0 (List.length (f_params t)))))
    | None => RBad "no Tensor function"
    end.

  (* static shape: FWD_SHAPE(op) composed with the call site *)
  Definition row_nshape (r : row) : option ex :=
    match r_call r with
    | NOp c ats a _ =>
        match find_class c, op_method c "forward_shape" with
        | Some o, Some g =>
            match member_env o ats, single_assign (f_body g) with
            | Some menv, Some e => Some (norm_shape (canon (f_params (r_fn r)) (norm_dev (inst_x true a menv e))))
            | _, _ => None
            end
        | _, _ => None
        end
    | _ => None
    end.

End Rows.
