(* Reviewed copy of numeric_utils::calculate_shifts (primitiv/core/numeric_utils.h) in the
   syntax of ShiftsLang.v, and the executable function the pool model uses.  No proofs here
   (the executable model must keep building when a proof breaks).  The tie to the current
   source is Pool/Shifts.v:gen_matches, which compares `reviewed_prog` with the program
   regenerated from /repo on every run (Gen/ShiftsGen.v). *)
From Coq Require Import NArith.
From PV Require Export Pool.ShiftsLang.
Local Open Scope N_scope.

Definition X := Var O.        (* std::uint64_t x  (parameter) *)
Definition B := Var 1%nat.    (* std::uint64_t b *)
Definition sb (e : expr) := Let 1%nat e.
Definition smear_step (k : N) := sb (Bin OLor B (Bin OShr B (Lit k))).            (* b |= b >> k; *)
Definition count_step (k m : N) :=                                                 (* b = (b & m) + ((b >> k) & m); *)
  sb (Bin OAdd (Bin OLand B (Lit m)) (Bin OLand (Bin OShr B (Lit k)) (Lit m))).

Definition reviewed_prog : stmt :=
  IfRet (Bin OEq X (Lit 0)) (Lit 64) (                      (* if (x == 0) return 64; *)
  (* Flips all bits at the right of leftmost-1 to 1. *)
  sb (Bin OLor X (Bin OShr X (Lit 32))) (                   (* std::uint64_t b = x | (x >> 32); *)
  smear_step 16 (
  smear_step 8 (
  smear_step 4 (
  smear_step 2 (
  smear_step 1 (
  (* Counts the number of 1. *)
  count_step 1 0x5555555555555555 (
  count_step 2 0x3333333333333333 (
  count_step 4 0x0f0f0f0f0f0f0f0f (
  count_step 8 0x00ff00ff00ff00ff (
  count_step 16 0x0000ffff0000ffff (
  count_step 32 0x00000000ffffffff (
  (* Adjusts the result.   return b - (1ull << (b - 1) == x); *)
  Ret (Bin OSub B (Bin OEq (Bin OShl (Lit 1) (Bin OSub B (Lit 1))) X))))))))))))))).

Definition calculate_shifts (x : N) : N := run reviewed_prog x.

(* the documented result: ceil(log2 x) for x > 0 *)
Definition ceil_log2 (x : N) : N := if 2 ^ N.log2 x =? x then N.log2 x else N.log2 x + 1.
