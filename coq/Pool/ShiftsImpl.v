(* Reviewed copy of numeric_utils::calculate_shifts (primitiv/core/numeric_utils.h), uint64
   arithmetic over N with every wrap explicit.  No proofs here (the executable model must keep
   building when a proof breaks).  The tie to the current source is Pool/Shifts.v:gen_matches,
   which compares this definition with the regenerated Gen/ShiftsGen.v. *)
From Coq Require Import NArith.
Local Open Scope N_scope.

Definition W64 : N := 18446744073709551616.   (* 2^64 *)

Definition calculate_shifts (x : N) : N :=
  if x =? 0 then 64 else                                    (* if (x == 0) return 64; *)
  (* Flips all bits at the right of leftmost-1 to 1. *)
  let b := N.lor x (N.shiftr x 32) in                       (* b = x | (x >> 32) *)
  let b := N.lor b (N.shiftr b 16) in                       (* b |= b >> 16 *)
  let b := N.lor b (N.shiftr b 8) in
  let b := N.lor b (N.shiftr b 4) in
  let b := N.lor b (N.shiftr b 2) in
  let b := N.lor b (N.shiftr b 1) in
  (* Counts the number of 1. *)
  let b := (N.land b 0x5555555555555555 + N.land (N.shiftr b 1) 0x5555555555555555) mod W64 in
  let b := (N.land b 0x3333333333333333 + N.land (N.shiftr b 2) 0x3333333333333333) mod W64 in
  let b := (N.land b 0x0f0f0f0f0f0f0f0f + N.land (N.shiftr b 4) 0x0f0f0f0f0f0f0f0f) mod W64 in
  let b := (N.land b 0x00ff00ff00ff00ff + N.land (N.shiftr b 8) 0x00ff00ff00ff00ff) mod W64 in
  let b := (N.land b 0x0000ffff0000ffff + N.land (N.shiftr b 16) 0x0000ffff0000ffff) mod W64 in
  let b := (N.land b 0x00000000ffffffff + N.land (N.shiftr b 32) 0x00000000ffffffff) mod W64 in
  (* return b - (1ull << (b - 1) == x); *)
  (b + W64 - (if (N.shiftl 1 ((b + W64 - 1) mod W64)) mod W64 =? x then 1 else 0)) mod W64.

(* the documented result: ceil(log2 x) for x > 0 *)
Definition ceil_log2 (x : N) : N := if 2 ^ N.log2 x =? x then N.log2 x else N.log2 x + 1.
