(* Lemmas about the containers and logs of PoolModel.v *)
From Coq Require Import NArith List Bool Lia Permutation.
From PV Require Import Pool.ShiftsImpl Pool.PoolModel.
Import ListNotations.
Local Open Scope N_scope.

(* ---- association lists ---------------------------------------------------------------- *)
Section Assoc.
Context {A : Type}.
Implicit Types (m : list (N * A)).

Lemma lookup_In k v m : lookup k m = Some v -> In (k, v) m.
Proof.
  induction m as [|[k' v'] r IH]; simpl; [discriminate|].
  destruct (N.eqb_spec k' k) as [->|ne]; intros H.
  - injection H as ->. now left.
  - right. auto.
Qed.
Lemma lookup_None k m : lookup k m = None <-> ~ In k (map fst m).
Proof.
  induction m as [|[k' v'] r IH]; simpl; [tauto|].
  destruct (N.eqb_spec k' k) as [->|ne].
  - split; [discriminate|]. intros H. exfalso. apply H. now left.
  - rewrite IH. split; [|tauto]. intros H [e|i]; [congruence|tauto].
Qed.
Lemma lookup_split k v m : lookup k m = Some v ->
  exists X Y, m = X ++ (k, v) :: Y /\ ~ In k (map fst X).
Proof.
  induction m as [|[k' v'] r IH]; simpl; [discriminate|].
  destruct (N.eqb_spec k' k) as [->|ne]; intros H.
  - injection H as ->. exists [], r. simpl. tauto.
  - destruct (IH H) as (X & Y & -> & HX). exists ((k', v') :: X), Y. simpl. split; [reflexivity|].
    intros [e|i]; [congruence|tauto].
Qed.
Lemma lookup_mid k v (X Y : list (N * A)) : ~ In k (map fst X) -> lookup k (X ++ (k, v) :: Y) = Some v.
Proof.
  induction X as [|[k' v'] r IH]; simpl; intros H.
  - now rewrite N.eqb_refl.
  - destruct (N.eqb_spec k' k) as [->|ne]; [tauto|]. apply IH. tauto.
Qed.
Lemma In_lookup k v m : NoDup (map fst m) -> In (k, v) m -> lookup k m = Some v.
Proof.
  induction m as [|[k' v'] r IH]; simpl; [tauto|]. intros Hnd [e|i].
  - injection e as -> ->. now rewrite N.eqb_refl.
  - inversion Hnd as [|? ? Hni Hnd']; subst.
    destruct (N.eqb_spec k' k) as [->|ne]; [|auto].
    exfalso. apply Hni. apply in_map_iff. exists (k, v). auto.
Qed.
Lemma assign_mid k v v' (X Y : list (N * A)) : ~ In k (map fst X) ->
  assign k v' (X ++ (k, v) :: Y) = X ++ (k, v') :: Y.
Proof.
  induction X as [|[k0 v0] r IH]; simpl; intros H.
  - now rewrite N.eqb_refl.
  - destruct (N.eqb_spec k0 k) as [->|ne]; [tauto|]. f_equal. apply IH. tauto.
Qed.
Lemma erase_mid k v (X Y : list (N * A)) : ~ In k (map fst X) -> erase k (X ++ (k, v) :: Y) = X ++ Y.
Proof.
  induction X as [|[k0 v0] r IH]; simpl; intros H.
  - now rewrite N.eqb_refl.
  - destruct (N.eqb_spec k0 k) as [->|ne]; [tauto|]. f_equal. apply IH. tauto.
Qed.
Lemma emplace_new k v m : ~ In k (map fst m) -> emplace k v m = (k, v) :: m.
Proof. intros H. unfold emplace. apply lookup_None in H. now rewrite H. Qed.
End Assoc.

Lemma NoDup_map_app_mid {A B} (f : A -> B) X x Y :
  NoDup (map f (X ++ x :: Y)) -> ~ In (f x) (map f X) /\ ~ In (f x) (map f Y) /\ NoDup (map f (X ++ Y)).
Proof.
  rewrite !map_app. simpl. intros H. pose proof (NoDup_remove_1 _ _ _ H) as H1.
  pose proof (NoDup_remove_2 _ _ _ H) as H2. rewrite in_app_iff in H2. tauto.
Qed.

Lemma NoDup_app_inv {A} (l l' : list A) : NoDup (l ++ l') ->
  NoDup l /\ NoDup l' /\ (forall x, In x l -> ~ In x l').
Proof.
  induction l as [|a l IH]; simpl; intros H.
  - repeat split; auto. constructor.
  - inversion H as [|? ? Hni Hnd]; subst. destruct (IH Hnd) as (H1 & H2 & H3).
    rewrite in_app_iff in Hni. repeat split; auto.
    + constructor; tauto.
    + intros x [->|Hx]; [tauto|auto].
Qed.

(* ---- reserved_ : classes -------------------------------------------------------------- *)
Fixpoint rblocks (c : N) (res : list (list ptr)) : list (ptr * N) :=
  match res with
  | [] => []
  | l :: r => map (fun p => (p, c)) l ++ rblocks (c + 1) r
  end.
Definition pblocks (pl : pool) : list (ptr * N) := rblocks 0 (reserved pl) ++ supplied pl.

Lemma rblocks_set_nth res : forall n c, (n < length res)%nat ->
  exists X Y, rblocks c res = X ++ map (fun p => (p, c + N.of_nat n)) (nth n res []) ++ Y /\
    forall l, rblocks c (set_nth n l res) = X ++ map (fun p => (p, c + N.of_nat n)) l ++ Y.
Proof.
  induction res as [|l0 r IH]; intros n c Hn; simpl in Hn; [lia|].
  destruct n as [|n].
  - exists [], (rblocks (c + 1) r). simpl. rewrite N.add_0_r. split; [reflexivity|]. intros l. reflexivity.
  - destruct (IH n (c + 1)) as (X & Y & E1 & E2); [lia|].
    exists (map (fun p => (p, c)) l0 ++ X), Y.
    replace (c + N.of_nat (S n)) with (c + 1 + N.of_nat n) by lia. simpl. split.
    + rewrite E1, <- app_assoc. reflexivity.
    + intros l. rewrite E2, <- app_assoc. reflexivity.
Qed.
Lemma set_nth_length {A} (l : list A) : forall n x, length (set_nth n x l) = length l.
Proof. induction l as [|y r IH]; intros [|n] x; simpl; auto. Qed.
Lemma nth_set_nth_same {A} (l : list A) : forall n x d, (n < length l)%nat -> nth n (set_nth n x l) d = x.
Proof. induction l as [|y r IH]; intros [|n] x d H; simpl in *; try lia; auto. apply IH. lia. Qed.
Lemma rblocks_class c res p k : In (p, k) (rblocks c res) -> c <= k < c + N.of_nat (length res).
Proof.
  revert c. induction res as [|l r IH]; intros c; simpl; [tauto|].
  rewrite in_app_iff, in_map_iff. intros [(q & e & _)|H].
  - injection e as -> ->. lia.
  - apply IH in H. lia.
Qed.
Lemma rblocks_fst c res : map fst (rblocks c res) = concat res.
Proof.
  revert c. induction res as [|l r IH]; intros c; simpl; [reflexivity|].
  rewrite map_app, IH, map_map. simpl. now rewrite map_id.
Qed.
Lemma rblocks_empty c (res : list (list ptr)) : rblocks c (map (fun _ => []) res) = [].
Proof. revert c. induction res as [|l r IH]; intros c; simpl; auto. Qed.

(* ---- release_reserved_blocks ----------------------------------------------------------- *)
Lemma drain_class_eq pid ptrs : forall log,
  drain_class pid ptrs log = rev (map (EvDelete pid) ptrs) ++ log.
Proof.
  induction ptrs as [|p r IH]; intros log; simpl; [reflexivity|].
  rewrite IH, <- app_assoc. reflexivity.
Qed.
Lemma release_loop_eq pid res : forall log,
  release_loop pid res log = (map (fun _ => []) res, rev (map (EvDelete pid) (concat res)) ++ log).
Proof.
  induction res as [|l r IH]; intros log; simpl; [reflexivity|].
  rewrite IH, drain_class_eq, map_app, rev_app_distr, <- app_assoc. reflexivity.
Qed.
Lemma release_eq pid pl log : release_reserved_blocks pid pl log =
  (mkPool (map (fun _ => []) (reserved pl)) (supplied pl) (min_size pl),
   rev (map (EvDelete pid) (concat (reserved pl))) ++ log).
Proof. unfold release_reserved_blocks. now rewrite release_loop_eq. Qed.

(* ---- logs ---------------------------------------------------------------------------- *)
Lemma memN_In x l : memN x l = true <-> In x l.
Proof.
  unfold memN. rewrite existsb_exists. split.
  - intros (y & Hy & e). apply N.eqb_eq in e. now subst.
  - intros H. exists x. split; [assumption|apply N.eqb_refl].
Qed.
Lemma log_okb_app a b : log_okb (a ++ b) = true -> log_okb b = true.
Proof.
  induction a as [|e r IH]; simpl; [auto|].
  destruct e as [pid sz [p|]|pid p]; auto. rewrite !andb_true_iff. tauto.
Qed.
Lemma log_okb_alloc pid sz p log : log_okb (EvAlloc pid sz (Some p) :: log) = true ->
  p <> 0 /\ ~ In p (map blk_ptr (live_of log)) /\ log_okb log = true.
Proof.
  simpl. rewrite !andb_true_iff, !negb_true_iff. intros [[H1 H2] H3]. repeat split; auto.
  - now apply N.eqb_neq.
  - intros Hin. apply memN_In in Hin. congruence.
Qed.

Lemma remove_blk_split pid p s L1 L2 : (forall b, In b L1 -> blk_ptr b <> p) ->
  remove_blk pid p (L1 ++ (pid, p, s) :: L2) = L1 ++ L2.
Proof.
  induction L1 as [|b r IH]; simpl; intros H.
  - unfold blk_pid, blk_ptr. simpl. now rewrite !N.eqb_refl.
  - destruct (N.eqb_spec (blk_ptr b) p) as [e|ne].
    + exfalso. apply (H b); auto.
    + rewrite andb_false_r. f_equal. apply IH. auto.
Qed.
Lemma remove_blk_perm pid p s L R : NoDup (map blk_ptr ((pid, p, s) :: R)) ->
  Permutation L ((pid, p, s) :: R) -> Permutation (remove_blk pid p L) R.
Proof.
  intros Hnd HP.
  assert (Hin : In (pid, p, s) L) by (eapply Permutation_in; [symmetry; exact HP|now left]).
  destruct (in_split _ _ Hin) as (L1 & L2 & ->).
  assert (HndL : NoDup (map blk_ptr (L1 ++ (pid, p, s) :: L2))).
  { eapply Permutation_NoDup; [|exact Hnd]. apply Permutation_map. now symmetry. }
  destruct (NoDup_map_app_mid _ _ _ _ HndL) as (H1 & _ & _).
  rewrite remove_blk_split.
  - symmetry in HP. apply Permutation_cons_app_inv in HP. now symmetry.
  - intros b Hb e. apply H1. apply in_map_iff. exists b. split; auto.
Qed.

Definition tagb (pid : N) (pc : ptr * N) : blk := (pid, fst pc, 2 ^ snd pc).

(* a run of deleter calls on outstanding blocks of pool pid removes exactly those blocks *)
Lemma live_deletes pid (D : list (ptr * N)) : forall log R,
  NoDup (map blk_ptr (map (tagb pid) D ++ R)) ->
  Permutation (live_of log) (map (tagb pid) D ++ R) ->
  Permutation (live_of (rev (map (EvDelete pid) (map fst D)) ++ log)) R /\
  del_okb (rev (map (EvDelete pid) (map fst D)) ++ log) = del_okb log.
Proof.
  induction D as [|[p c] D IH]; intros log R Hnd HP; simpl in *; [auto|].
  rewrite <- app_assoc. simpl.
  assert (HP1 : Permutation (live_of (EvDelete pid p :: log)) (map (tagb pid) D ++ R)).
  { simpl. eapply remove_blk_perm; [|exact HP]. exact Hnd. }
  inversion Hnd as [|? ? Hni Hnd']; subst.
  destruct (IH (EvDelete pid p :: log) R Hnd' HP1) as [H1 H2]. split; [exact H1|].
  rewrite H2. simpl.
  replace (existsb _ (live_of log)) with true; [reflexivity|]. symmetry.
  apply existsb_exists. exists (tagb pid (p, c)). split.
  - eapply Permutation_in; [symmetry; exact HP|now left].
  - unfold tagb, blk_pid, blk_ptr. simpl. now rewrite !N.eqb_refl.
Qed.

(* ---- counting: every obtained block is deleted at most once, exactly once when gone ---- *)
Definition is_alloc (pid : N) (p : ptr) (e : event) : bool :=
  match e with EvAlloc q _ (Some r) => (q =? pid) && (r =? p) | _ => false end.
Definition is_delete (pid : N) (p : ptr) (e : event) : bool :=
  match e with EvDelete q r => (q =? pid) && (r =? p) | _ => false end.
Definition is_blk (pid : N) (p : ptr) (b : blk) : bool := (blk_pid b =? pid) && (blk_ptr b =? p).
Definition count {A} (f : A -> bool) (l : list A) : nat := length (filter f l).

Lemma count_remove_blk_other pid p q r L : (q =? pid) && (r =? p) = false ->
  count (is_blk pid p) (remove_blk q r L) = count (is_blk pid p) L.
Proof.
  intros Hne. unfold count. induction L as [|b L IH]; simpl; [reflexivity|].
  destruct ((blk_pid b =? q) && (blk_ptr b =? r)) eqn:E.
  - apply andb_true_iff in E. destruct E as [E1 E2]. apply N.eqb_eq in E1, E2.
    unfold is_blk. rewrite E1, E2, Hne. reflexivity.
  - simpl. destruct (is_blk pid p b); simpl; now rewrite IH.
Qed.
Lemma count_remove_blk_same pid p L : existsb (is_blk pid p) L = true ->
  S (count (is_blk pid p) (remove_blk pid p L)) = count (is_blk pid p) L.
Proof.
  unfold count. induction L as [|b L IH]; simpl; [discriminate|].
  fold (is_blk pid p b). destruct (is_blk pid p b) eqn:E; simpl.
  - reflexivity.
  - intros H. rewrite E. now apply IH.
Qed.
Lemma exactly_once_count log : del_okb log = true -> forall pid p,
  count (is_alloc pid p) log = (count (is_delete pid p) log + count (is_blk pid p) (live_of log))%nat.
Proof.
  induction log as [|e log IH]; simpl; intros Hd pid p; [reflexivity|].
  destruct e as [q sz [r|]|q r]; simpl in *.
  - unfold count in *. simpl. unfold is_blk at 1. unfold blk_pid, blk_ptr. simpl.
    specialize (IH Hd pid p). destruct ((q =? pid) && (r =? p)); simpl; lia.
  - unfold count in *. simpl. now apply IH.
  - apply andb_true_iff in Hd. destruct Hd as [Hex Hd]. specialize (IH Hd pid p).
    unfold count in *. simpl. destruct ((q =? pid) && (r =? p)) eqn:E; simpl.
    + apply andb_true_iff in E. destruct E as [E1 E2]. apply N.eqb_eq in E1, E2. subst q r.
      pose proof (count_remove_blk_same pid p (live_of log) Hex) as Hc. unfold count in Hc. lia.
    + pose proof (count_remove_blk_other pid p q r (live_of log) E) as Hc. unfold count in Hc. lia.
Qed.
