(* Executable model of primitiv::MemoryPool (core/memory_pool.{h,cc}), of the id registry it
   inherits (core/mixins/identifiable.h) and of the Deleter held by the handles it returns.
   Transcribed statement by statement in source order.  No proofs in this file.

   World = the static registry (next_id_, objects_ -- here id |-> the object's state), the log
   of all calls of the user-supplied allocator_/deleter_ functors (newest first), and the
   handles (std::shared_ptr<void> with a Deleter(pool id)) the client currently holds.
   The user allocator is an ORACLE: every operation that may call it carries the answers
   (Some fresh pointer / None = it throws).  Pointers are abstract (N, 0 = nullptr). *)
From Coq Require Import NArith List Bool.
From PV Require Import Pool.ShiftsImpl.
Import ListNotations.
Local Open Scope N_scope.

Definition ptr := N.

(* ---- containers ---------------------------------------------------------------------- *)
(* std::unordered_map<K, V> with K = N as an association list with unique keys.  Iteration
   order (= list order, newest first) is NOT part of the C++ contract; no theorem and no
   compared output depends on it. *)
Fixpoint lookup {A} (k : N) (m : list (N * A)) : option A :=          (* find *)
  match m with
  | [] => None
  | (k', v) :: r => if k' =? k then Some v else lookup k r
  end.
Definition emplace {A} (k : N) (v : A) (m : list (N * A)) : list (N * A) :=   (* no-op when present *)
  match lookup k m with Some _ => m | None => (k, v) :: m end.
Fixpoint erase {A} (k : N) (m : list (N * A)) : list (N * A) :=
  match m with
  | [] => []
  | (k', v) :: r => if k' =? k then r else (k', v) :: erase k r
  end.
Fixpoint assign {A} (k : N) (v : A) (m : list (N * A)) : list (N * A) :=   (* it->second = v *)
  match m with
  | [] => []
  | (k', v') :: r => if k' =? k then (k', v) :: r else (k', v') :: assign k v r
  end.

(* std::vector<std::vector<void*>> reserved_: 64 size classes; the inner vector is kept with
   its back() at the head of the list *)
Fixpoint set_nth {A} (n : nat) (x : A) (l : list A) : list A :=
  match l, n with
  | [], _ => []
  | _ :: r, O => x :: r
  | y :: r, S n' => y :: set_nth n' x r
  end.
Definition cls (res : list (list ptr)) (c : N) : list ptr := nth (N.to_nat c) res [].
Definition set_cls (res : list (list ptr)) (c : N) (l : list ptr) : list (list ptr) :=
  set_nth (N.to_nat c) l res.

(* ---- the pool object ----------------------------------------------------------------- *)
Record pool := mkPool {
  reserved : list (list ptr);     (* reserved_  *)
  supplied : list (ptr * N);      (* supplied_ : pointer |-> shift *)
  min_size : N }.                 (* minimum_size_ *)

Inductive event :=
| EvAlloc (pid : N) (size : N) (res : option ptr)   (* allocator_ of pool pid called with size *)
| EvDelete (pid : N) (p : ptr).                      (* deleter_ of pool pid called with p *)

(* MemoryPool::MemoryPool: reserved_(64), supplied_(), minimum_size_(minimum_size) *)
Definition new_pool (min : N) : pool := mkPool (repeat [] 64%nat) [] min.

(* void MemoryPool::release_reserved_blocks() *)
Fixpoint drain_class (pid : N) (ptrs : list ptr) (log : list event) : list event :=
  match ptrs with                                   (* while (!ptrs.empty()) {            *)
  | [] => log
  | p :: r => drain_class pid r (EvDelete pid p :: log) (* deleter_(ptrs.back()); ptrs.pop_back(); } *)
  end.
Fixpoint release_loop (pid : N) (res : list (list ptr)) (log : list event)
  : list (list ptr) * list event :=
  match res with                                    (* for (auto &ptrs : reserved_) *)
  | [] => ([], log)
  | ptrs :: r =>
      let log1 := drain_class pid ptrs log in
      let (r', log2) := release_loop pid r log1 in
      ([] :: r', log2)
  end.
Definition release_reserved_blocks (pid : N) (pl : pool) (log : list event) : pool * list event :=
  let (res', log') := release_loop pid (reserved pl) log in
  (mkPool res' (supplied pl) (min_size pl), log').

(* void MemoryPool::free(void *ptr); None = PRIMITIV_THROW_ERROR *)
Definition free (pl : pool) (p : ptr) : option pool :=
  match lookup p (supplied pl) with                 (* auto it = supplied_.find(ptr); *)
  | None => None                                    (* if (it == end) THROW *)
  | Some c =>
      Some (mkPool (set_cls (reserved pl) c (p :: cls (reserved pl) c))  (* reserved_[it->second].emplace_back(ptr); *)
                   (erase p (supplied pl))                                (* supplied_.erase(it); *)
                   (min_size pl))
  end.

Inductive alloc_result :=
| ANull                 (* std::shared_ptr<void>() *)
| AErr                  (* primitiv::Error *)
| AFail                 (* the allocator's exception propagates (second failure) *)
| AOk (p : ptr).        (* std::shared_ptr<void>(ptr, Deleter(id())) *)

(* std::shared_ptr<void> MemoryPool::allocate(std::size_t size, std::size_t *allocated_size)
   result, *allocated_size, new object state, new log.  o1 / o2 = what the allocator answers
   at its first / second call in this invocation (if it is called at all). *)
Definition allocate (pid : N) (pl : pool) (log : list event) (size : N) (o1 o2 : option ptr)
  : alloc_result * N * pool * list event :=
  let asz := 0 in                                                   (* *allocated_size = 0; *)
  if size =? 0 then (ANull, asz, pl, log) else                      (* if (size == 0) return shared_ptr<void>(); *)
  let size := if size <? min_size pl then min_size pl else size in  (* if (size < minimum_size_) size = minimum_size_; *)
  let shift := calculate_shifts size in
  if 63 <? shift then (AErr, asz, pl, log) else                     (* if (shift > MAX_SHIFTS) THROW *)
  let mem_size := (N.shiftl 1 shift) mod W64 in                     (* 1ull << shift *)
  match cls (reserved pl) shift with
  | [] =>                                                           (* if (reserved_[shift].empty()) *)
      match o1 with
      | Some p =>                                                   (* ptr = allocator_(mem_size); *)
          let log1 := EvAlloc pid mem_size (Some p) :: log in
          let pl1 := mkPool (reserved pl) (emplace p shift (supplied pl)) (min_size pl) in  (* supplied_.emplace(ptr, shift); *)
          (AOk p, mem_size, pl1, log1)
      | None =>                                                     (* catch (...) *)
          let log1 := EvAlloc pid mem_size None :: log in
          let (pl2, log2) := release_reserved_blocks pid pl log1 in (* release_reserved_blocks(); *)
          match o2 with
          | Some p =>                                               (* ptr = allocator_(mem_size); *)
              let log3 := EvAlloc pid mem_size (Some p) :: log2 in
              let pl3 := mkPool (reserved pl2) (emplace p shift (supplied pl2)) (min_size pl2) in
              (AOk p, mem_size, pl3, log3)
          | None => (AFail, asz, pl2, EvAlloc pid mem_size None :: log2)
          end
      end
  | p :: rest =>                                                    (* ptr = reserved_[shift].back(); pop_back(); *)
      let pl1 := mkPool (set_cls (reserved pl) shift rest)
                        (emplace p shift (supplied pl)) (min_size pl) in   (* supplied_.emplace(ptr, shift); *)
      (AOk p, mem_size, pl1, log)
  end.

(* MemoryPool::~MemoryPool(): while (!supplied_.empty()) free(supplied_.begin()->first);
   (fuel = supplied_.size(): every iteration erases one entry) *)
Fixpoint dtor_loop (fuel : nat) (pl : pool) : pool :=
  match fuel with
  | O => pl
  | S f =>
      match supplied pl with
      | [] => pl
      | (p, _) :: _ => match free pl p with Some pl' => dtor_loop f pl' | None => pl end
      end
  end.
Definition destroy_pool (pid : N) (pl : pool) (log : list event) : pool * list event :=
  release_reserved_blocks pid (dtor_loop (length (supplied pl)) pl) log.

(* ---- the world ----------------------------------------------------------------------- *)
Record world := mkWorld {
  next_id : N;                    (* Identifiable<MemoryPool>::next_id_ *)
  objects : list (N * pool);      (* Identifiable<MemoryPool>::objects_ (id |-> object state) *)
  elog : list event;              (* every call of a user functor so far, newest first *)
  held : list (N * ptr) }.        (* handles alive in the client: (Deleter::pool_id_, pointer) *)

Definition init_world (base : N) : world := mkWorld base [] [] [].
Definition w0 : world := init_world 0.

Definition handle_eqb (a b : N * ptr) : bool := (fst a =? fst b) && (snd a =? snd b).
Fixpoint remove_handle (h : N * ptr) (l : list (N * ptr)) : list (N * ptr) :=
  match l with
  | [] => []
  | x :: r => if handle_eqb x h then r else x :: remove_handle h r
  end.

(* MemoryPool::Deleter::operator()(void *ptr) *)
Definition deleter_call (objs : list (N * pool)) (pid : N) (p : ptr) : list (N * pool) :=
  match lookup pid objs with                 (* MemoryPool::get_object(pool_id_) *)
  | None => objs                             (* throws Error: caught, ignored *)
  | Some pl =>
      match free pl p with                   (* .free(ptr) *)
      | None => objs                         (* throws Error: caught, ignored *)
      | Some pl' => assign pid pl' objs
      end
  end.

Inductive op :=
| Create (min : N)                                  (* new MemoryPool(allocator, deleter, min) *)
| Alloc (pid size : N) (o1 o2 : option ptr)         (* pool pid .allocate(size, &allocated_size) *)
| Drop (pid : N) (p : ptr)                          (* last copy of the handle (pid, p) goes away *)
| Destroy (pid : N).                                (* delete pool pid *)

Inductive out :=
| OCreated (id : N)
| OAlloc (r : alloc_result) (asz : N)
| ODropped
| ODestroyed
| OSkip.   (* not an action a client can perform: dead / unknown object, handle not held,
              argument that is not a std::size_t *)

Definition step (w : world) (o : op) : world * out :=
  match o with
  | Create min =>
      if W64 <=? min then (w, OSkip) else
      let id := next_id w in                                        (* id_ = next_id_++; *)
      (mkWorld ((id + 1) mod W64)
               (emplace id (new_pool min) (objects w))              (* objects_.emplace(id_, this); *)
               (elog w) (held w), OCreated id)
  | Alloc pid size o1 o2 =>
      if W64 <=? size then (w, OSkip) else
      match lookup pid (objects w) with
      | None => (w, OSkip)
      | Some pl =>
          match allocate pid pl (elog w) size o1 o2 with
          | (r, asz, pl', log') =>
              let held' := match r with AOk p => (pid, p) :: held w | _ => held w end in
              (mkWorld (next_id w) (assign pid pl' (objects w)) log' held', OAlloc r asz)
          end
      end
  | Drop pid p =>
      if existsb (handle_eqb (pid, p)) (held w) then
        (mkWorld (next_id w) (deleter_call (objects w) pid p) (elog w)
                 (remove_handle (pid, p) (held w)), ODropped)
      else (w, OSkip)
  | Destroy pid =>
      match lookup pid (objects w) with
      | None => (w, OSkip)
      | Some pl =>
          let (_, log') := destroy_pool pid pl (elog w) in           (* ~MemoryPool() *)
          (mkWorld (next_id w) (erase pid (objects w)) log' (held w), ODestroyed)  (* ~Identifiable(): objects_.erase(id_) *)
      end
  end.

Fixpoint steps (w : world) (ops : list op) : world * list out :=
  match ops with
  | [] => (w, [])
  | o :: r => let (w1, x) := step w o in let (w2, xs) := steps w1 r in (w2, x :: xs)
  end.
Definition run_from (w : world) (ops : list op) : world := fold_left (fun w o => fst (step w o)) ops w.
Definition run (ops : list op) : world := run_from w0 ops.

(* ---- what the logs say: blocks obtained from an allocator and not yet given to a deleter *)
Definition blk := (N * ptr * N)%type.       (* owner pool id, pointer, byte size requested *)
Definition blk_pid (b : blk) : N := fst (fst b).
Definition blk_ptr (b : blk) : ptr := snd (fst b).
Definition blk_size (b : blk) : N := snd b.
Fixpoint remove_blk (pid : N) (p : ptr) (l : list blk) : list blk :=
  match l with
  | [] => []
  | b :: r => if (blk_pid b =? pid) && (blk_ptr b =? p) then r else b :: remove_blk pid p r
  end.
Fixpoint live_of (log : list event) : list blk :=
  match log with
  | [] => []
  | EvAlloc pid sz (Some p) :: l => (pid, p, sz) :: live_of l
  | EvAlloc _ _ None :: l => live_of l
  | EvDelete pid p :: l => remove_blk pid p (live_of l)
  end.
Definition memN (x : N) (l : list N) : bool := existsb (N.eqb x) l.

(* The contract assumed of the user allocator, as a property of the call log: whenever it
   answered with a pointer, that pointer was non-null and different from every block that
   was outstanding (obtained and not yet deleted, from any pool) at that moment. *)
Fixpoint log_okb (log : list event) : bool :=
  match log with
  | [] => true
  | EvAlloc _ _ (Some p) :: l => negb (p =? 0) && negb (memN p (map blk_ptr (live_of l))) && log_okb l
  | _ :: l => log_okb l
  end.
(* What the pool owes its deleter: it is only ever called on a block that is outstanding for
   that same pool at that moment (so: at most once per obtained block, never on foreign or
   unknown pointers). *)
Fixpoint del_okb (log : list event) : bool :=
  match log with
  | [] => true
  | EvDelete pid p :: l =>
      existsb (fun b => (blk_pid b =? pid) && (blk_ptr b =? p)) (live_of l) && del_okb l
  | _ :: l => del_okb l
  end.

(* ---- a concrete allocator for the correspondence runs (same policy as harness/pool_drv.cc):
   per call the case file says F(ail), N(ew address) or R(euse the largest address that was
   deleted before and is not outstanding, else new; independent of the order in which one
   destructor deletes its blocks).  Addresses are ordinals 1, 2, ... *)
Inductive choice := CFail | CNew | CReuse.
Fixpoint max_ptr (log : list event) : N :=
  match log with
  | [] => 0
  | EvAlloc _ _ (Some p) :: l => N.max p (max_ptr l)
  | _ :: l => max_ptr l
  end.
Fixpoint find_reuse (live : list ptr) (l : list event) : option ptr :=
  match l with
  | [] => None
  | EvDelete _ p :: r =>
      let rest := find_reuse live r in
      if negb (p =? 0) && negb (memN p live)
      then Some (match rest with Some q => N.max p q | None => p end) else rest
  | _ :: r => find_reuse live r
  end.
Definition resolve (log : list event) (c : choice) : option ptr :=
  match c with
  | CFail => None
  | CNew => Some (max_ptr log + 1)
  | CReuse => match find_reuse (map blk_ptr (live_of log)) log with
              | Some p => Some p
              | None => Some (max_ptr log + 1)
              end
  end.
(* allocate with the answers computed by that allocator: the second answer is computed in
   the state in which a retry would be made (after the failed call and the release) *)
Definition step_alloc_choice (w : world) (pid size : N) (c1 c2 : choice) : world * out :=
  let o1 := resolve (elog w) c1 in
  let w1 := fst (step w (Alloc pid size o1 None)) in
  let o2 := resolve (elog w1) c2 in
  step w (Alloc pid size o1 o2).

(* events appended by a step, oldest first *)
Definition new_events (before after : list event) : list event :=
  rev (firstn (length after - length before) after).
