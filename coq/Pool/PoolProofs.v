(* C18: theorems about every history of MemoryPool operations. *)
From Coq Require Import NArith PeanoNat List Bool Lia Permutation.
From PV Require Import Pool.ShiftsImpl Pool.Shifts Pool.PoolModel.
From PV Require Import Pool.PoolLemmas Pool.PoolInv.
Import ListNotations.
Local Open Scope N_scope.

(* ---- histories -------------------------------------------------------------------------- *)
Lemma run_from_cons w o ops : run_from w (o :: ops) = run_from (fst (step w o)) ops.
Proof. reflexivity. Qed.

Lemma step_log_ext w o : exists new, elog (fst (step w o)) = new ++ elog w.
Proof.
  destruct o as [mn|pid size o1 o2|pid p|pid]; simpl.
  - destruct (W64 <=? mn); exists []; reflexivity.
  - destruct (W64 <=? size); [exists []; reflexivity|].
    destruct (lookup pid (objects w)) as [pl|]; [|exists []; reflexivity].
    rewrite allocate_spec. destruct (size =? 0); [exists []; reflexivity|]. cbv zeta.
    destruct (63 <? _); [exists []; reflexivity|].
    destruct (cls _ _); [|exists []; reflexivity].
    destruct o1; [eexists [_]; reflexivity|].
    destruct o2; simpl.
    + eexists (_ :: _ ++ [_]). simpl. rewrite <- app_assoc. reflexivity.
    + eexists (_ :: _ ++ [_]). simpl. rewrite <- app_assoc. reflexivity.
  - destruct (existsb _ _); exists []; reflexivity.
  - destruct (lookup pid (objects w)) as [pl|]; [|exists []; reflexivity].
    unfold destroy_pool. rewrite release_eq. simpl. eexists. reflexivity.
Qed.

Lemma run_log_ext ops : forall w, exists new, elog (run_from w ops) = new ++ elog w.
Proof.
  induction ops as [|o ops IH]; intros w; [exists []; reflexivity|].
  rewrite run_from_cons. destruct (IH (fst (step w o))) as (n1 & E1).
  destruct (step_log_ext w o) as (n2 & E2). exists (n1 ++ n2). now rewrite E1, E2, app_assoc.
Qed.

Lemma step_next_id w o : next_id w + 1 < W64 ->
  next_id w <= next_id (fst (step w o)) <= next_id w + 1.
Proof.
  intros H. destruct o as [mn|pid size o1 o2|pid p|pid]; simpl.
  - destruct (W64 <=? mn); simpl; [lia|]. rewrite N.mod_small; lia.
  - destruct (W64 <=? size); simpl; [lia|]. destruct (lookup _ _); simpl; [|lia].
    destruct (allocate _ _ _ _ _ _) as [[[r a] pl'] lg]. simpl. lia.
  - destruct (existsb _ _); simpl; lia.
  - destruct (lookup _ _); simpl; [|lia]. destruct (destroy_pool _ _ _). simpl. lia.
Qed.

Theorem step_inv w o : Inv w -> next_id w + 1 < W64 ->
  log_okb (elog (fst (step w o))) = true -> Inv (fst (step w o)).
Proof.
  intros HI Hn Hlog. destruct o as [mn|pid size o1 o2|pid p|pid].
  - now apply step_create_inv.
  - now apply step_alloc_inv.
  - now apply step_drop_inv.
  - now apply step_destroy_inv.
Qed.

Theorem run_inv ops : forall w, Inv w -> next_id w + N.of_nat (length ops) < W64 ->
  log_okb (elog (run_from w ops)) = true -> Inv (run_from w ops).
Proof.
  induction ops as [|o ops IH]; intros w HI Hn Hlog; [exact HI|].
  rewrite run_from_cons in *. simpl length in Hn.
  assert (Hn1 : next_id w + 1 < W64) by lia.
  apply IH.
  - apply step_inv; auto. destruct (run_log_ext ops (fst (step w o))) as (new & E).
    rewrite E in Hlog. now apply log_okb_app in Hlog.
  - pose proof (step_next_id w o Hn1). lia.
  - exact Hlog.
Qed.

Lemma inv_w0 : Inv w0.
Proof.
  split.
  - split; [constructor|]. split; [intros ? ? []|]. split; [constructor|]. split; [constructor|reflexivity].
  - split; [constructor|]. split; [intros ? []|]. split; [intros ? ? []|intros ? ? []].
Qed.

(* A world is reachable when some history of operations (shorter than 2^64) leads to it and
   the user allocator honoured its contract during that history. *)
Definition reachable (w : world) : Prop :=
  exists ops, N.of_nat (length ops) < W64 /\ w = run ops /\ log_okb (elog w) = true.

Theorem reachable_inv w : reachable w -> Inv w.
Proof.
  intros (ops & Hlen & -> & Hlog). apply run_inv; [exact inv_w0|simpl; lia|exact Hlog].
Qed.

(* reachability is closed under further operations whose allocator answers are fresh *)
Lemma run_app ops1 ops2 : run (ops1 ++ ops2) = run_from (run ops1) ops2.
Proof. unfold run, run_from. apply fold_left_app. Qed.

(* ---- size classes ------------------------------------------------------------------------ *)
Lemma eff_size_max pl size : eff_size pl size = N.max size (min_size pl).
Proof. unfold eff_size. destruct (N.ltb_spec size (min_size pl)); lia. Qed.

Lemma shifts_big m : 0 < m < W64 -> (63 <? calculate_shifts m) = (2 ^ 63 <? m).
Proof.
  intros Hm. rewrite (calculate_shifts_spec m Hm).
  pose proof (ceil_log2_le_63_iff m (proj1 Hm)) as H.
  destruct (N.ltb_spec 63 (ceil_log2 m)), (N.ltb_spec (2 ^ 63) m); try reflexivity; exfalso.
  - apply H in H1. lia.
  - assert (ceil_log2 m <= 63) by lia. apply H in H2. lia.
Qed.

Lemma world_eta w : mkWorld (next_id w) (objects w) (elog w) (held w) = w.
Proof. destruct w; reflexivity. Qed.

Definition req (pl : pool) (size : N) : N := N.max size (min_size pl).   (* max(requested, minimum) *)

Theorem size_class_spec w pid pl size o1 o2 :
  Inv w -> lookup pid (objects w) = Some pl -> size < W64 ->
  let m := req pl size in
  let w' := fst (step w (Alloc pid size o1 o2)) in
  let out := snd (step w (Alloc pid size o1 o2)) in
  log_okb (elog w') = true ->
  (size = 0 -> w' = w /\ out = OAlloc ANull 0) /\
  (size <> 0 -> 2 ^ 63 < m -> w' = w /\ out = OAlloc AErr 0) /\
  (size <> 0 -> m <= 2 ^ 63 ->
     match out with
     | OAlloc (AOk p) asz =>
         asz = 2 ^ ceil_log2 m /\ m <= asz /\ (forall k, m <= 2 ^ k -> asz <= 2 ^ k) /\
         In (pid, p) (held w') /\
         exists pl', lookup pid (objects w') = Some pl' /\
                     lookup p (supplied pl') = Some (ceil_log2 m)
     | OAlloc AFail asz => asz = 0 /\ o1 = None /\ o2 = None
     | _ => False
     end).
Proof.
  intros [HB HH] El Hs m w' out.
  pose proof HB as (Hndk & Hoks & Hndp & HPl & Hdel).
  destruct (objs_split _ _ _ El) as (X & Y & Eo & HX).
  assert (Hok : pool_ok pl) by (apply (Hoks pid pl); rewrite Eo; apply in_elt).
  assert (Hmin : min_size pl < W64) by apply Hok.
  subst w' out. rewrite (step_alloc_eq w pid size o1 o2 pl Hs El), allocate_spec.
  destruct (N.eqb_spec size 0) as [E0|N0].
  { simpl. rewrite (assign_same _ _ _ Hndk El), world_eta. intros _.
    split; [auto|]. split; intros; congruence. }
  cbv zeta. rewrite eff_size_max. fold (req pl size). fold m.
  assert (Hm : 0 < m < W64) by (unfold m, req; lia).
  rewrite (shifts_big m Hm), (calculate_shifts_spec m Hm).
  destruct (N.ltb_spec (2 ^ 63) m) as [Hbig|Hsmall].
  { simpl. rewrite (assign_same _ _ _ Hndk El), world_eta. intros _.
    split; [intros; congruence|]. split; [auto|]. intros; lia. }
  set (c := ceil_log2 m).
  assert (Hc : c <= 63) by (apply ceil_log2_le_63_iff; lia).
  rewrite (shift_size c Hc).
  assert (Hup : m <= 2 ^ c) by (apply ceil_log2_upper; lia).
  assert (Hleast : forall k, m <= 2 ^ k -> 2 ^ c <= 2 ^ k).
  { intros k Hk. apply N.pow_le_mono_r; [lia|]. apply ceil_log2_least; [lia|exact Hk]. }
  assert (Hc64 : c < 64) by lia.
  rewrite Eo in Hndp, HPl. pose proof (pool_nodup _ _ _ _ Hndp) as Hndb.
  assert (Hlen : (N.to_nat c < length (reserved pl))%nat) by (destruct Hok as (-> & _); lia).
  assert (Hres : forall p, In p (cls (reserved pl) c) -> ~ In p (map fst (supplied pl))).
  { intros p Hp. unfold pblocks in Hndb. rewrite map_app in Hndb. apply NoDup_app_inv in Hndb.
    destruct Hndb as (_ & _ & Hdisj). apply Hdisj. rewrite rblocks_fst.
    rewrite <- (rblocks_fst 0). apply in_map_iff. exists (p, c). split; [reflexivity|].
    now apply cls_in_rblocks. }
  assert (Hfin : forall p res', ~ In p (map fst (supplied pl)) ->
     exists pl', lookup pid (assign pid (mkPool res' (emplace p c (supplied pl)) (min_size pl)) (objects w)) = Some pl' /\
                 lookup p (supplied pl') = Some c).
  { intros p res' Hni. rewrite Eo, (assign_mid _ _ _ _ _ HX), (lookup_mid _ _ _ _ HX).
    eexists. split; [reflexivity|]. simpl. rewrite (emplace_new _ _ _ Hni). simpl. now rewrite N.eqb_refl. }
  assert (Hgoal : forall p res', ~ In p (map fst (supplied pl)) ->
     2 ^ c = 2 ^ c /\ m <= 2 ^ c /\ (forall k, m <= 2 ^ k -> 2 ^ c <= 2 ^ k) /\
     In (pid, p) ((pid, p) :: held w) /\
     exists pl', lookup pid (assign pid (mkPool res' (emplace p c (supplied pl)) (min_size pl)) (objects w)) = Some pl' /\
                 lookup p (supplied pl') = Some c).
  { intros p res' Hni. split; [reflexivity|]. split; [exact Hup|]. split; [exact Hleast|].
    split; [now left|]. now apply Hfin. }
  destruct (cls (reserved pl) c) as [|p rest] eqn:Ecl.
  - destruct o1 as [p|]; simpl.
    + intros Hlog. apply (log_okb_alloc pid (2 ^ c)) in Hlog. destruct Hlog as (_ & Hfresh & _).
      split; [intros; congruence|]. split; [intros; lia|]. intros _ _.
      apply (Hgoal p _). intros Hin. apply Hfresh. eapply supplied_in_live; eauto.
    + destruct o2 as [p|]; simpl.
      * intros Hlog. apply (log_okb_alloc pid (2 ^ c)) in Hlog. destruct Hlog as (_ & Hfresh & _).
        split; [intros; congruence|]. split; [intros; lia|]. intros _ _.
        apply (Hgoal p _). intros Hin. apply Hfresh.
        assert (HB' : BInv (X ++ (pid, pl) :: Y) (elog w)) by (rewrite <- Eo; exact HB).
        pose proof (binv_release X pid pl Y _ (binv_fail _ _ pid (2 ^ c) HB')) as HB2.
        destruct HB2 as (_ & _ & _ & HPl2 & _).
        eapply (supplied_in_live X pid (released pl) Y); [exact HPl2|exact Hin].
      * intros _. split; [intros; congruence|]. split; [intros; lia|]. auto.
  - simpl. intros _. split; [intros; congruence|]. split; [intros; lia|]. intros _ _.
    apply (Hgoal p _). apply Hres. now left.
Qed.

(* every block a pool keeps under class c (cached or handed out) was obtained from that pool's
   allocator with exactly 2^c bytes and has not been deleted *)
Theorem block_size_is_class_size w pid pl p c : Inv w -> In (pid, pl) (objects w) ->
  In (p, c) (pblocks pl) -> In (pid, p, 2 ^ c) (live_of (elog w)).
Proof.
  intros [(_ & _ & _ & HP & _) _] Hin Hb. eapply Permutation_in; [symmetry; exact HP|].
  destruct (in_split _ _ Hin) as (X & Y & ->). rewrite wblocks_mid.
  apply in_or_app. right. apply in_or_app. left.
  change (pid, p, 2 ^ c) with (tagb pid (p, c)). now apply in_map.
Qed.

(* ---- no double supply ---------------------------------------------------------------------- *)
Lemma in_cls_in_pblocks pl c p : In p (cls (reserved pl) c) -> In p (map fst (pblocks pl)).
Proof.
  intros H. unfold pblocks. rewrite map_app, rblocks_fst. apply in_or_app. left.
  unfold cls in H. destruct (Nat.lt_ge_cases (N.to_nat c) (length (reserved pl))) as [Hl|Hg].
  - apply in_concat. exists (nth (N.to_nat c) (reserved pl) []). split; [now apply nth_In|exact H].
  - rewrite nth_overflow in H by exact Hg. destruct H.
Qed.
Lemma in_wblocks_ptr objs pid pl p : In (pid, pl) objs -> In p (map fst (pblocks pl)) ->
  In p (map blk_ptr (wblocks objs)).
Proof.
  intros Hin Hp. destruct (in_split _ _ Hin) as (X & Y & ->).
  rewrite wblocks_mid, !map_app, blk_ptr_tagb. apply in_or_app. right. apply in_or_app. now left.
Qed.
Lemma ptr_unique objs pid1 pl1 pid2 pl2 p : NoDup (map fst objs) ->
  NoDup (map blk_ptr (wblocks objs)) -> In (pid1, pl1) objs -> In (pid2, pl2) objs ->
  In p (map fst (pblocks pl1)) -> In p (map fst (pblocks pl2)) -> pid1 = pid2 /\ pl1 = pl2.
Proof.
  intros Hk Hnd H1 H2 Hp1 Hp2. destruct (in_split _ _ H1) as (X & Y & ->).
  rewrite wblocks_mid, !map_app, blk_ptr_tagb in Hnd.
  apply NoDup_app_inv in Hnd. destruct Hnd as (_ & Hnd & HdX).
  apply NoDup_app_inv in Hnd. destruct Hnd as (_ & _ & HdY).
  apply in_mid in H2. destruct H2 as [e|H2]; [injection e; auto|]. exfalso.
  apply in_app_or in H2. destruct H2 as [H2|H2].
  - apply (HdX p); [eapply in_wblocks_ptr; eauto|]. apply in_or_app. now left.
  - apply (HdY p Hp1). eapply in_wblocks_ptr; eauto.
Qed.

Definition live_pool (w : world) (pid : N) : Prop := In pid (map fst (objects w)).

Theorem no_double_supply w : Inv w ->
  NoDup (held w) /\
  (forall pid1 pid2 p, In (pid1, p) (held w) -> In (pid2, p) (held w) ->
     live_pool w pid1 -> live_pool w pid2 -> pid1 = pid2) /\
  (forall pid p, In (pid, p) (held w) -> live_pool w pid ->
     forall pid' pl' c, In (pid', pl') (objects w) -> ~ In p (cls (reserved pl') c)) /\
  (forall pid pl pid' pl' c c' p, In (pid, pl) (objects w) -> In (pid', pl') (objects w) ->
     In p (cls (reserved pl) c) -> In p (cls (reserved pl') c') -> pid = pid' /\ c = c').
Proof.
  intros [(Hk & Hoks & Hnd & _ & _) (Hh & _ & _ & H4)].
  assert (Hsup : forall pid p, In (pid, p) (held w) -> live_pool w pid ->
            exists pl, In (pid, pl) (objects w) /\ In p (map fst (supplied pl))).
  { intros pid p Hin Hl. apply in_map_iff in Hl. destruct Hl as ([q pl] & e & Hq). simpl in e. subst q.
    exists pl. split; [exact Hq|]. now apply (H4 pid pl Hq). }
  assert (Hsb : forall pl p, In p (map fst (supplied pl)) -> In p (map fst (pblocks pl))).
  { intros pl p Hp. unfold pblocks. rewrite map_app. apply in_or_app. now right. }
  split; [exact Hh|]. split; [|split].
  - intros pid1 pid2 p Hi1 Hi2 Hl1 Hl2.
    destruct (Hsup _ _ Hi1 Hl1) as (pl1 & Ho1 & Hp1). destruct (Hsup _ _ Hi2 Hl2) as (pl2 & Ho2 & Hp2).
    eapply ptr_unique; eauto.
  - intros pid p Hi Hl pid' pl' c Ho' Hc.
    destruct (Hsup _ _ Hi Hl) as (pl & Ho & Hp).
    destruct (ptr_unique _ _ _ _ _ p Hk Hnd Ho Ho' (Hsb _ _ Hp) (in_cls_in_pblocks _ _ _ Hc)) as [-> ->].
    destruct (in_split _ _ Ho') as (X & Y & Eo). rewrite Eo in Hnd.
    pose proof (pool_nodup _ _ _ _ Hnd) as Hndb. unfold pblocks in Hndb. rewrite map_app in Hndb.
    apply NoDup_app_inv in Hndb. destruct Hndb as (_ & _ & Hdisj). apply (Hdisj p); [|exact Hp].
    pose proof (in_cls_in_pblocks _ _ _ Hc) as Hc'. unfold pblocks in Hc'. rewrite map_app in Hc'.
    apply in_app_or in Hc'. destruct Hc' as [Hc'|Hc']; [exact Hc'|].
    exfalso. (* p both cached and supplied in the same pool *)
    unfold cls in Hc.
    destruct (Nat.lt_ge_cases (N.to_nat c) (length (reserved pl'))) as [Hl'|Hg];
      [|rewrite nth_overflow in Hc by exact Hg; destruct Hc].
    pose proof (cls_in_rblocks _ c p Hl' Hc) as Hrb.
    pose proof (pool_nodup _ _ _ _ Hnd) as Hndb. unfold pblocks in Hndb. rewrite map_app in Hndb.
    apply NoDup_app_inv in Hndb. destruct Hndb as (_ & _ & Hdisj2). apply (Hdisj2 p); [|exact Hp].
    apply in_map_iff. exists (p, c). auto.
  - intros pid pl pid' pl' c c' p Ho Ho' Hc Hc'.
    destruct (ptr_unique _ _ _ _ _ p Hk Hnd Ho Ho' (in_cls_in_pblocks _ _ _ Hc) (in_cls_in_pblocks _ _ _ Hc')) as [-> ->].
    split; [reflexivity|].
    destruct (in_split _ _ Ho') as (X & Y & Eo). rewrite Eo in Hnd.
    pose proof (pool_nodup _ _ _ _ Hnd) as Hndb. unfold pblocks in Hndb. rewrite map_app in Hndb.
    apply NoDup_app_inv in Hndb. destruct Hndb as (Hndr & _ & _).
    unfold cls in Hc, Hc'.
    destruct (Nat.lt_ge_cases (N.to_nat c) (length (reserved pl'))) as [Hl1|Hg];
      [|rewrite nth_overflow in Hc by exact Hg; destruct Hc].
    destruct (Nat.lt_ge_cases (N.to_nat c') (length (reserved pl'))) as [Hl2|Hg];
      [|rewrite nth_overflow in Hc' by exact Hg; destruct Hc'].
    pose proof (cls_in_rblocks _ c p Hl1 Hc) as Hr1. pose proof (cls_in_rblocks _ c' p Hl2 Hc') as Hr2.
    destruct (N.eq_dec c c') as [e|ne]; [exact e|exfalso].
    (* two different entries with the same pointer in a list whose pointers are NoDup *)
    apply in_split in Hr1. destruct Hr1 as (L1 & L2 & EL). rewrite EL in Hr2, Hndr.
    apply in_mid in Hr2. destruct Hr2 as [e|Hr2]; [injection e; congruence|].
    destruct (NoDup_map_app_mid _ _ _ _ Hndr) as (Hn1 & Hn2 & _). simpl in Hn1, Hn2.
    apply in_app_or in Hr2. destruct Hr2 as [Hr2|Hr2]; [apply Hn1|apply Hn2];
      apply in_map_iff; exists (p, c'); auto.
Qed.

(* ---- reuse before allocate ------------------------------------------------------------------ *)
(* request whose class has a cached block: that block (the most recently released one) is
   returned, no functor is called, nothing else changes *)
Theorem reuse_before_allocate w pid pl size o1 o2 p rest :
  Inv w -> lookup pid (objects w) = Some pl -> size < W64 -> size <> 0 -> req pl size <= 2 ^ 63 ->
  let c := ceil_log2 (req pl size) in
  cls (reserved pl) c = p :: rest ->
  let w' := fst (step w (Alloc pid size o1 o2)) in
  snd (step w (Alloc pid size o1 o2)) = OAlloc (AOk p) (2 ^ c) /\
  elog w' = elog w /\ held w' = (pid, p) :: held w /\ next_id w' = next_id w /\
  exists pl', lookup pid (objects w') = Some pl' /\ cls (reserved pl') c = rest /\
              (forall k, k <> c -> cls (reserved pl') k = cls (reserved pl) k) /\
              min_size pl' = min_size pl.
Proof.
  intros [HB HH] El Hs N0 Hsmall c Ecl w'.
  pose proof HB as (Hndk & Hoks & _).
  destruct (objs_split _ _ _ El) as (X & Y & Eo & HX).
  assert (Hok : pool_ok pl) by (apply (Hoks pid pl); rewrite Eo; apply in_elt).
  assert (Hm : 0 < req pl size < W64) by (destruct Hok as (_ & _ & ?); unfold req; lia).
  subst w'. rewrite (step_alloc_eq w pid size o1 o2 pl Hs El), allocate_spec.
  destruct (N.eqb_spec size 0) as [E0|_]; [congruence|]. cbv zeta.
  rewrite eff_size_max. fold (req pl size).
  rewrite (shifts_big _ Hm), (calculate_shifts_spec _ Hm). fold c.
  destruct (N.ltb_spec (2 ^ 63) (req pl size)) as [Hbig|_]; [lia|].
  assert (Hc : c <= 63) by (apply ceil_log2_le_63_iff; lia).
  rewrite (shift_size c Hc), Ecl. simpl.
  repeat (split; [reflexivity|]).
  rewrite Eo, (assign_mid _ _ _ _ _ HX), (lookup_mid _ _ _ _ HX). eexists. split; [reflexivity|]. simpl.
  assert (Hlen : (N.to_nat c < length (reserved pl))%nat) by (destruct Hok as (-> & _); lia).
  split; [unfold cls, set_cls; now rewrite nth_set_nth_same|]. split; [|reflexivity].
  intros k Hk. unfold cls, set_cls.
  assert (Hne : N.to_nat k <> N.to_nat c) by lia. revert Hne. generalize (N.to_nat k), (N.to_nat c).
  generalize (reserved pl). induction l as [|y r IH]; intros [|n] [|n0] Hne; simpl; auto; try lia.
Qed.

(* releasing a handle of a live pool puts its block on top of its class; no functor is called *)
Theorem release_caches_block w pid pl p c :
  Inv w -> In (pid, p) (held w) -> lookup pid (objects w) = Some pl ->
  lookup p (supplied pl) = Some c ->
  let w' := fst (step w (Drop pid p)) in
  snd (step w (Drop pid p)) = ODropped /\ elog w' = elog w /\ next_id w' = next_id w /\
  ~ In (pid, p) (held w') /\
  exists pl', lookup pid (objects w') = Some pl' /\ cls (reserved pl') c = p :: cls (reserved pl) c /\
              min_size pl' = min_size pl /\ lookup p (supplied pl') = None.
Proof.
  intros [HB HH] Hheld El Elp w'. subst w'. simpl.
  apply held_existsb in Hheld. rewrite Hheld. simpl. apply held_existsb in Hheld.
  pose proof HB as (Hndk & Hoks & Hndp & _).
  destruct (objs_split _ _ _ El) as (X & Y & Eo & HX). rewrite Eo in Hoks, Hndp.
  assert (Hok : pool_ok pl) by (apply (Hoks pid pl), in_elt).
  pose proof (pool_nodup _ _ _ _ Hndp) as Hndb. unfold pblocks in Hndb. rewrite map_app in Hndb.
  apply NoDup_app_inv in Hndb. destruct Hndb as (_ & Hnds & _).
  destruct (free_spec pl p c Hok Hnds Elp) as (pl' & Hfr & Hok' & HP & Hsup & Hmin & Hcl & Hkeys).
  repeat (split; [reflexivity|]). split.
  - destruct HH as (Hnd & _). intros Hin. apply (remove_handle_In _ _ _ Hnd) in Hin. tauto.
  - unfold deleter_call. rewrite El, Hfr, Eo, (assign_mid _ _ _ _ _ HX), (lookup_mid _ _ _ _ HX).
    exists pl'. repeat (split; [auto|]). apply lookup_None. rewrite Hkeys. tauto.
Qed.

Lemma cls_cleared (res : list (list ptr)) k : cls (map (fun _ : list ptr => @nil ptr) res) k = [].
Proof. unfold cls. generalize (N.to_nat k). induction res as [|y r IH]; intros [|n]; simpl; auto. Qed.

(* ---- the allocator is called only when the class has no cached block; on failure the cached
        blocks of every class are freed and the call is repeated exactly once ------------------ *)
Theorem retry_once_after_release w pid pl size o1 o2 :
  Inv w -> lookup pid (objects w) = Some pl -> size < W64 -> size <> 0 -> req pl size <= 2 ^ 63 ->
  let c := ceil_log2 (req pl size) in
  cls (reserved pl) c = [] ->
  let w' := fst (step w (Alloc pid size o1 o2)) in
  let out := snd (step w (Alloc pid size o1 o2)) in
  match o1 with
  | Some p => out = OAlloc (AOk p) (2 ^ c) /\ elog w' = EvAlloc pid (2 ^ c) (Some p) :: elog w
  | None =>
      elog w' = EvAlloc pid (2 ^ c) o2 ::
                rev (map (EvDelete pid) (concat (reserved pl))) ++ EvAlloc pid (2 ^ c) None :: elog w /\
      out = match o2 with Some p => OAlloc (AOk p) (2 ^ c) | None => OAlloc AFail 0 end /\
      held w' = match o2 with Some p => (pid, p) :: held w | None => held w end /\
      exists pl', lookup pid (objects w') = Some pl' /\ (forall k, cls (reserved pl') k = []) /\
        supplied pl' = match o2 with Some p => emplace p c (supplied pl) | None => supplied pl end
  end.
Proof.
  intros [HB HH] El Hs N0 Hsmall c Ecl w' out.
  pose proof HB as (Hndk & Hoks & _).
  destruct (objs_split _ _ _ El) as (X & Y & Eo & HX).
  assert (Hok : pool_ok pl) by (apply (Hoks pid pl); rewrite Eo; apply in_elt).
  assert (Hm : 0 < req pl size < W64) by (destruct Hok as (_ & _ & ?); unfold req; lia).
  subst w' out. rewrite (step_alloc_eq w pid size o1 o2 pl Hs El), allocate_spec.
  destruct (N.eqb_spec size 0) as [E0|_]; [congruence|]. cbv zeta.
  rewrite eff_size_max. fold (req pl size).
  rewrite (shifts_big _ Hm), (calculate_shifts_spec _ Hm). fold c.
  destruct (N.ltb_spec (2 ^ 63) (req pl size)) as [Hbig|_]; [lia|].
  assert (Hc : c <= 63) by (apply ceil_log2_le_63_iff; lia).
  rewrite (shift_size c Hc), Ecl.
  pose proof (cls_cleared (reserved pl)) as Hempty.
  destruct o1 as [p|]; simpl; [auto|].
  destruct o2 as [p|]; simpl.
  - repeat (split; [reflexivity|]).
    rewrite Eo, (assign_mid _ _ _ _ _ HX), (lookup_mid _ _ _ _ HX). eexists. split; [reflexivity|]. simpl. auto.
  - repeat (split; [reflexivity|]).
    rewrite Eo, (assign_mid _ _ _ _ _ HX), (lookup_mid _ _ _ _ HX). eexists. split; [reflexivity|]. simpl. auto.
Qed.

(* ---- the deleter: exactly once, never early, everything at destruction ---------------------- *)
Lemma count_zero {A} (f : A -> bool) l : (forall x, In x l -> f x = false) -> count f l = 0%nat.
Proof.
  unfold count. induction l as [|a l IH]; simpl; intros H; [reflexivity|].
  rewrite (H a) by now left. apply IH. intros x Hx. apply H. now right.
Qed.
Lemma wblocks_owner objs b : In b (wblocks objs) -> In (blk_pid b) (map fst objs).
Proof.
  unfold wblocks. rewrite in_flat_map. intros ([pid pl] & Ho & Hb). simpl in Hb.
  apply in_map_iff in Hb. destruct Hb as ([p c] & <- & _). simpl. eapply key_in; eauto.
Qed.

Theorem deleter_exactly_once w : Inv w ->
  del_okb (elog w) = true /\
  Permutation (live_of (elog w)) (wblocks (objects w)) /\
  (forall pid p, count (is_alloc pid p) (elog w) =
                 (count (is_delete pid p) (elog w) + count (is_blk pid p) (live_of (elog w)))%nat) /\
  (forall pid, ~ live_pool w pid ->
     forall p, count (is_alloc pid p) (elog w) = count (is_delete pid p) (elog w)) /\
  (objects w = [] -> live_of (elog w) = []).
Proof.
  intros [(Hk & Hoks & Hnd & HP & Hdel) _]. split; [exact Hdel|]. split; [exact HP|].
  pose proof (exactly_once_count (elog w) Hdel) as Hcnt. split; [exact Hcnt|]. split.
  - intros pid Hdead p. rewrite Hcnt, (count_zero (is_blk pid p)); [lia|].
    intros b Hb. unfold is_blk. destruct (N.eqb_spec (blk_pid b) pid) as [e|ne]; [|reflexivity].
    exfalso. apply Hdead. unfold live_pool. rewrite <- e. apply wblocks_owner.
    eapply Permutation_in; eauto.
  - intros E. rewrite E in HP. simpl in HP. symmetry in HP. now apply Permutation_nil in HP.
Qed.

Lemma new_events_app b n : new_events b (n ++ b) = rev n.
Proof.
  unfold new_events. rewrite app_length.
  replace (length n + length b - length b)%nat with (length n) by lia.
  rewrite firstn_app, firstn_all, Nat.sub_diag. simpl. now rewrite app_nil_r.
Qed.

Lemma new_is {A} (x n l : list A) : x ++ l = n ++ l -> n = x.
Proof. intros H. apply app_inv_tail in H. now symmetry. Qed.

Lemma new_is3 {A} (a f : A) r n l : a :: r ++ f :: l = n ++ l -> n = a :: r ++ [f].
Proof. intros H. apply (new_is (a :: r ++ [f]) n l). rewrite <- H. simpl. now rewrite <- app_assoc. Qed.

Lemma step_deletes w o new : elog (fst (step w o)) = new ++ elog w ->
  forall pid p, In (EvDelete pid p) new ->
  o = Destroy pid \/
  exists pl size o1 o2, o = Alloc pid size o1 o2 /\ lookup pid (objects w) = Some pl /\
                        In p (concat (reserved pl)).
Proof.
  intros E pid p Hin.
  assert (Hnil : elog w = new ++ elog w -> False).
  { intros E'. apply (new_is [] new (elog w)) in E'. subst new. destruct Hin. }
  destruct o as [mn|pid' size o1 o2|pid' p'|pid']; simpl in E.
  - destruct (W64 <=? mn); simpl in E; now apply Hnil in E.
  - destruct (W64 <=? size); simpl in E; [now apply Hnil in E|].
    destruct (lookup pid' (objects w)) as [pl|] eqn:El; [|simpl in E; now apply Hnil in E].
    rewrite allocate_spec in E.
    destruct (size =? 0); [simpl in E; now apply Hnil in E|].
    cbv zeta in E. destruct (63 <? _); [simpl in E; now apply Hnil in E|].
    set (ms := (N.shiftl 1 _) mod W64) in E.
    destruct (cls _ _); [|simpl in E; now apply Hnil in E].
    destruct o1 as [q|]; simpl in E.
    + apply (new_is [_] new (elog w)) in E. subst new. destruct Hin as [e|[]]. discriminate.
    + right. assert (Hd : In (EvDelete pid p) (rev (map (EvDelete pid') (concat (reserved pl))))).
      { destruct o2 as [q|]; simpl in E.
        - apply new_is3 in E. subst new. destruct Hin as [e|Hin]; [discriminate|].
          apply in_app_or in Hin. destruct Hin as [Hin|[e|[]]]; [exact Hin|discriminate].
        - apply new_is3 in E. subst new. destruct Hin as [e|Hin]; [discriminate|].
          apply in_app_or in Hin. destruct Hin as [Hin|[e|[]]]; [exact Hin|discriminate]. }
      apply in_rev in Hd. apply in_map_iff in Hd. destruct Hd as (q & e & Hq). injection e as -> ->.
      exists pl, size, None, o2. auto.
  - destruct (existsb _ _); simpl in E; now apply Hnil in E.
  - destruct (lookup pid' (objects w)) as [pl|] eqn:El; [|simpl in E; now apply Hnil in E].
    unfold destroy_pool in E. rewrite release_eq in E. simpl in E. apply new_is in E. subst new.
    apply in_rev in Hin. apply in_map_iff in Hin. destruct Hin as (q & e & _). injection e as -> _. now left.
Qed.

(* before its pool is destroyed, a block that is referenced by a handle is never passed to the
   deleter: the only operation that deletes a referenced block of pool pid is Destroy pid *)
Theorem deleter_never_while_referenced w o pid p : Inv w ->
  In (EvDelete pid p) (new_events (elog w) (elog (fst (step w o)))) ->
  In (pid, p) (held w) -> o = Destroy pid.
Proof.
  intros [HB HH] Hin Hheld. destruct (step_log_ext w o) as (new & E).
  rewrite E, new_events_app in Hin. apply in_rev in Hin.
  destruct (step_deletes w o new E pid p Hin) as [e|(pl & size & o1 & o2 & -> & El & Hres)]; [exact e|].
  exfalso. pose proof HB as (_ & _ & Hndp & _). destruct HH as (_ & _ & _ & H4).
  apply lookup_In in El. pose proof (proj1 (H4 pid pl El p) Hheld) as Hsup.
  destruct (in_split _ _ El) as (X & Y & Eo). rewrite Eo in Hndp.
  pose proof (pool_nodup _ _ _ _ Hndp) as Hndb. unfold pblocks in Hndb.
  rewrite map_app, rblocks_fst in Hndb. apply NoDup_app_inv in Hndb.
  destruct Hndb as (_ & _ & Hdisj). exact (Hdisj p Hres Hsup).
Qed.

(* destroying a pool passes ALL its blocks -- cached ones and those still referenced by
   handles -- to the deleter, each once; the handles stay with the client *)
Theorem destroy_deletes_all w pid pl : Inv w -> lookup pid (objects w) = Some pl ->
  let w' := fst (step w (Destroy pid)) in
  exists ps, new_events (elog w) (elog w') = map (EvDelete pid) ps /\
             Permutation ps (map fst (pblocks pl)) /\ NoDup ps /\
             held w' = held w /\ next_id w' = next_id w /\ ~ live_pool w' pid /\
             snd (step w (Destroy pid)) = ODestroyed.
Proof.
  intros [HB HH] El w'. subst w'. simpl. rewrite El.
  pose proof HB as (Hndk & Hoks & Hndp & _).
  destruct (objs_split _ _ _ El) as (X & Y & Eo & HX). rewrite Eo in Hoks, Hndp, Hndk.
  assert (Hok : pool_ok pl) by (apply (Hoks pid pl), in_elt).
  pose proof (pool_nodup _ _ _ _ Hndp) as Hndb.
  assert (Hnds : NoDup (map fst (supplied pl))).
  { unfold pblocks in Hndb. rewrite map_app in Hndb. apply NoDup_app_inv in Hndb. tauto. }
  destruct (dtor_spec (length (supplied pl)) pl Hok Hnds eq_refl) as (Hok1 & Hs1 & HP1).
  unfold destroy_pool. rewrite release_eq. simpl. rewrite new_events_app, rev_involutive.
  set (pl1 := dtor_loop (length (supplied pl)) pl) in *.
  assert (Ec : map fst (pblocks pl1) = concat (reserved pl1)).
  { unfold pblocks. rewrite Hs1, app_nil_r. apply rblocks_fst. }
  exists (concat (reserved pl1)). split; [reflexivity|]. split; [|split].
  - rewrite <- Ec. now apply Permutation_map.
  - rewrite <- Ec. eapply Permutation_NoDup; [|exact Hndb]. apply Permutation_map. now symmetry.
  - repeat (split; [reflexivity|]). split; [|reflexivity].
    unfold live_pool. simpl. rewrite Eo, (erase_mid _ _ _ _ HX).
    destruct (NoDup_map_app_mid _ _ _ _ Hndk) as (H1 & H2 & _). simpl in H1, H2.
    rewrite map_app, in_app_iff. tauto.
Qed.

(* ---- handles that outlive their pool --------------------------------------------------------- *)
Theorem handles_outlive_pool_safe w pid p : Inv w -> In (pid, p) (held w) -> ~ live_pool w pid ->
  step w (Drop pid p) =
    (mkWorld (next_id w) (objects w) (elog w) (remove_handle (pid, p) (held w)), ODropped) /\
  ~ In (pid, p) (remove_handle (pid, p) (held w)) /\
  (forall h, h <> (pid, p) -> (In h (remove_handle (pid, p) (held w)) <-> In h (held w))) /\
  Inv (fst (step w (Drop pid p))).
Proof.
  intros HI Hheld Hdead. pose proof (step_drop_inv w pid p HI) as HI'. destruct HI as [HB HH].
  split; [|split; [|split; [|exact HI']]].
  - simpl. apply held_existsb in Hheld. rewrite Hheld. unfold deleter_call.
    apply lookup_None in Hdead. now rewrite Hdead.
  - destruct HH as (Hnd & _). intros Hin. apply (remove_handle_In _ _ _ Hnd) in Hin. tauto.
  - destruct HH as (Hnd & _). intros h Hne. rewrite (remove_handle_In _ _ _ Hnd). tauto.
Qed.

(* ---- ids ------------------------------------------------------------------------------------- *)
Definition created (outs : list out) : list N :=
  flat_map (fun o => match o with OCreated id => [id] | _ => [] end) outs.

Lemma steps_run ops : forall w, fst (steps w ops) = run_from w ops.
Proof.
  induction ops as [|o ops IH]; intros w; [reflexivity|]. simpl.
  destruct (step w o) as [w1 x] eqn:E. specialize (IH w1). destruct (steps w1 ops) as [w2 xs].
  simpl in *. exact IH.
Qed.

Lemma step_created w o : next_id w + 1 < W64 ->
  (snd (step w o) = OCreated (next_id w) /\ next_id (fst (step w o)) = next_id w + 1) \/
  ((forall id, snd (step w o) <> OCreated id) /\ next_id (fst (step w o)) = next_id w).
Proof.
  intros H. destruct o as [mn|pid size o1 o2|pid p|pid]; simpl.
  - destruct (W64 <=? mn); simpl; [right; split; [discriminate|reflexivity]|].
    left. split; [reflexivity|]. apply N.mod_small. lia.
  - right. destruct (W64 <=? size); simpl; [split; [discriminate|reflexivity]|].
    destruct (lookup _ _); simpl; [|split; [discriminate|reflexivity]].
    destruct (allocate _ _ _ _ _ _) as [[[r a] pl'] lg]. simpl. split; [discriminate|reflexivity].
  - right. destruct (existsb _ _); simpl; split; try discriminate; reflexivity.
  - right. destruct (lookup _ _); simpl; [|split; [discriminate|reflexivity]].
    destruct (destroy_pool _ _ _). simpl. split; [discriminate|reflexivity].
Qed.

Lemma created_seq ops : forall w, next_id w + N.of_nat (length ops) < W64 ->
  exists n, created (snd (steps w ops)) = map (fun k => next_id w + N.of_nat k) (seq 0 n) /\
            next_id (fst (steps w ops)) = next_id w + N.of_nat n /\ (n <= length ops)%nat.
Proof.
  induction ops as [|o ops IH]; intros w Hn.
  - exists 0%nat. simpl. split; [reflexivity|]. split; [lia|lia].
  - simpl length in Hn. assert (H1 : next_id w + 1 < W64) by lia.
    simpl. destruct (step w o) as [w1 x] eqn:E.
    pose proof (step_created w o H1) as Hc. rewrite E in Hc. simpl in Hc.
    destruct (IH w1) as (n & En & Enext & Hle).
    { destruct Hc as [[_ ->]|[_ ->]]; lia. }
    destruct (steps w1 ops) as [w2 xs]. simpl in *.
    destruct Hc as [[-> Hw1]|[Hno Hw1]].
    + exists (S n). simpl. rewrite N.add_0_r. split; [|split; [lia|lia]].
      f_equal. rewrite En, <- seq_shift, map_map. apply map_ext. intros k. lia.
    + exists n. split; [|split; [lia|lia]].
      destruct x; try (simpl; rewrite En, Hw1; reflexivity). exfalso. now apply (Hno id).
Qed.

(* the ids handed out in ANY history are 0, 1, 2, ... in creation order: pairwise distinct,
   never reused -- whatever was destroyed in between *)
Theorem ids_unique_never_reused ops : N.of_nat (length ops) < W64 ->
  let ids := created (snd (steps w0 ops)) in
  ids = map N.of_nat (seq 0 (length ids)) /\ NoDup ids /\
  next_id (run ops) = N.of_nat (length ids).
Proof.
  intros Hlen ids. destruct (created_seq ops w0) as (n & En & Enext & _); [simpl; lia|].
  simpl in En, Enext. fold ids in En.
  assert (Eids : ids = map N.of_nat (seq 0 n)) by (rewrite En; apply map_ext; intros; lia).
  assert (El : length ids = n) by (rewrite Eids, map_length, seq_length; reflexivity).
  rewrite El. split; [exact Eids|]. split.
  - rewrite Eids. apply FinFun.Injective_map_NoDup; [intros a b; apply Nat2N.inj|apply seq_NoDup].
  - unfold run. rewrite <- steps_run. rewrite Enext. lia.
Qed.

(* a dead or not-yet-used id: every handle carries an id below next_id, live ids are below
   next_id, and a new pool always gets next_id -- so no pool is ever confused with an older one *)
Theorem ids_fresh w : Inv w -> next_id w + 1 < W64 ->
  (forall pid p, In (pid, p) (held w) -> pid < next_id w) /\
  (forall pid, live_pool w pid -> pid < next_id w) /\
  (forall mn, mn < W64 -> snd (step w (Create mn)) = OCreated (next_id w) /\
                          live_pool (fst (step w (Create mn))) (next_id w)).
Proof.
  intros [HB (H1 & H2 & H3 & H4)] Hn. split; [exact H3|]. split; [exact H2|].
  intros mn Hmn. simpl. destruct (N.leb_spec W64 mn); [lia|]. simpl. split; [reflexivity|].
  unfold live_pool. simpl. rewrite emplace_new; [now left|]. intros Hin. apply H2 in Hin. lia.
Qed.

(* once dead, an id is never live again *)
Lemma step_keys w o q : In q (map fst (objects (fst (step w o)))) ->
  In q (map fst (objects w)) \/ q = next_id w.
Proof.
  destruct o as [mn|pid size o1 o2|pid p|pid]; simpl.
  - destruct (W64 <=? mn); simpl; [auto|]. unfold emplace. destruct (lookup _ _); simpl; [auto|].
    intros [e|H]; auto.
  - destruct (W64 <=? size); simpl; [auto|]. destruct (lookup _ _); simpl; [|auto].
    destruct (allocate _ _ _ _ _ _) as [[[r a] pl'] lg]. simpl.
    intros H. left. revert H. generalize (objects w) as objs. induction objs as [|[k v] objs IH]; simpl; [auto|].
    destruct (k =? pid); simpl; tauto.
  - destruct (existsb _ _); simpl; [|auto]. unfold deleter_call.
    destruct (lookup _ _); [|auto]. destruct (free _ _); [|auto].
    intros H. left. revert H. generalize (objects w) as objs. induction objs as [|[k v] objs IH]; simpl; [auto|].
    destruct (k =? pid); simpl; tauto.
  - destruct (lookup _ _); simpl; [|auto]. destruct (destroy_pool _ _ _). simpl.
    intros H. left. revert H. generalize (objects w) as objs. induction objs as [|[k v] objs IH]; simpl; [auto|].
    destruct (k =? pid); simpl; tauto.
Qed.

Theorem dead_id_stays_dead ops : forall w pid, next_id w + N.of_nat (length ops) < W64 ->
  pid < next_id w -> ~ live_pool w pid -> ~ live_pool (run_from w ops) pid.
Proof.
  induction ops as [|o ops IH]; intros w pid Hn Hlt Hdead; [exact Hdead|].
  rewrite run_from_cons. simpl length in Hn. assert (H1 : next_id w + 1 < W64) by lia.
  pose proof (step_next_id w o H1) as Hmono. apply IH; [lia|lia|].
  intros Hl. apply step_keys in Hl. destruct Hl as [Hl|e]; [exact (Hdead Hl)|lia].
Qed.
