(* The invariant of the MemoryPool world and its preservation by every operation. *)
From Coq Require Import NArith List Bool Lia Permutation.
From PV Require Import Pool.ShiftsImpl Pool.PoolModel.
From PV Require Import Pool.PoolLemmas.
Import ListNotations.
Local Open Scope N_scope.

Definition wblocks (objs : list (N * pool)) : list blk :=
  flat_map (fun o => map (tagb (fst o)) (pblocks (snd o))) objs.

Definition pool_ok (pl : pool) : Prop :=
  length (reserved pl) = 64%nat /\ (forall p c, In (p, c) (supplied pl) -> c < 64) /\ min_size pl < W64.

(* blocks: what the pools hold is exactly what the allocator log says is outstanding *)
Definition BInv (objs : list (N * pool)) (log : list event) : Prop :=
  NoDup (map fst objs) /\
  (forall pid pl, In (pid, pl) objs -> pool_ok pl) /\
  NoDup (map blk_ptr (wblocks objs)) /\
  Permutation (live_of log) (wblocks objs) /\
  del_okb log = true.

(* handles and ids *)
Definition HInv (nid : N) (objs : list (N * pool)) (hs : list (N * ptr)) : Prop :=
  NoDup hs /\
  (forall pid, In pid (map fst objs) -> pid < nid) /\
  (forall pid p, In (pid, p) hs -> pid < nid) /\
  (forall pid pl, In (pid, pl) objs -> forall p, In (pid, p) hs <-> In p (map fst (supplied pl))).

Definition Inv (w : world) : Prop :=
  BInv (objects w) (elog w) /\ HInv (next_id w) (objects w) (held w).

(* ---- wblocks -------------------------------------------------------------------------- *)
Lemma wblocks_app X Y : wblocks (X ++ Y) = wblocks X ++ wblocks Y.
Proof. unfold wblocks. apply flat_map_app. Qed.
Lemma wblocks_cons pid pl Y : wblocks ((pid, pl) :: Y) = map (tagb pid) (pblocks pl) ++ wblocks Y.
Proof. reflexivity. Qed.
Lemma wblocks_mid X pid pl Y :
  wblocks (X ++ (pid, pl) :: Y) = wblocks X ++ map (tagb pid) (pblocks pl) ++ wblocks Y.
Proof. now rewrite wblocks_app, wblocks_cons. Qed.
Lemma blk_ptr_tagb pid L : map blk_ptr (map (tagb pid) L) = map fst L.
Proof. rewrite map_map. apply map_ext. intros [p c]. reflexivity. Qed.

Lemma wblocks_perm X pid pl pl' Y : Permutation (pblocks pl') (pblocks pl) ->
  Permutation (wblocks (X ++ (pid, pl') :: Y)) (wblocks (X ++ (pid, pl) :: Y)).
Proof.
  intros H. rewrite !wblocks_mid. apply Permutation_app_head, Permutation_app_tail.
  now apply Permutation_map.
Qed.
Lemma wblocks_add X pid pl pl' Y b : Permutation (pblocks pl') (b :: pblocks pl) ->
  Permutation (wblocks (X ++ (pid, pl') :: Y)) (tagb pid b :: wblocks (X ++ (pid, pl) :: Y)).
Proof.
  intros H. rewrite !wblocks_mid.
  etransitivity; [|symmetry; apply Permutation_middle].
  apply Permutation_app_head.
  change (tagb pid b :: map (tagb pid) (pblocks pl) ++ wblocks Y)
    with ((map (tagb pid) (b :: pblocks pl)) ++ wblocks Y).
  apply Permutation_app_tail. now apply Permutation_map.
Qed.
Lemma wblocks_del X pid pl pl' Y D : Permutation (pblocks pl) (D ++ pblocks pl') ->
  Permutation (wblocks (X ++ (pid, pl) :: Y)) (map (tagb pid) D ++ wblocks (X ++ (pid, pl') :: Y)).
Proof.
  intros H. rewrite !wblocks_mid.
  transitivity (wblocks X ++ (map (tagb pid) D ++ map (tagb pid) (pblocks pl')) ++ wblocks Y).
  - apply Permutation_app_head, Permutation_app_tail. rewrite <- map_app. now apply Permutation_map.
  - rewrite <- app_assoc. rewrite !app_assoc.
    apply Permutation_app_tail, Permutation_app_tail. apply Permutation_app_comm.
Qed.
Lemma wblocks_drop X pid pl Y : pblocks pl = [] ->
  wblocks (X ++ (pid, pl) :: Y) = wblocks (X ++ Y).
Proof. intros H. rewrite wblocks_mid, wblocks_app, H. reflexivity. Qed.

Lemma pool_nodup X pid pl Y : NoDup (map blk_ptr (wblocks (X ++ (pid, pl) :: Y))) ->
  NoDup (map fst (pblocks pl)).
Proof.
  rewrite wblocks_mid, !map_app, blk_ptr_tagb. intros H.
  apply NoDup_app_inv in H. destruct H as (_ & H & _). apply NoDup_app_inv in H. tauto.
Qed.

Lemma in_mid {A} (x a : A) X Y : In x (X ++ a :: Y) <-> x = a \/ In x (X ++ Y).
Proof. rewrite !in_app_iff. simpl. intuition congruence. Qed.

(* ---- pool-level steps ------------------------------------------------------------------ *)
Lemma perm_move {A} (a : A) X O Y S1 S2 :
  Permutation ((X ++ (a :: O) ++ Y) ++ S1 ++ S2) ((X ++ O ++ Y) ++ S1 ++ a :: S2).
Proof.
  rewrite <- !app_assoc. simpl.
  etransitivity; [symmetry; apply Permutation_middle|].
  replace (X ++ O ++ Y ++ S1 ++ a :: S2) with ((X ++ O ++ Y ++ S1) ++ a :: S2)
    by (now rewrite <- !app_assoc).
  apply Permutation_cons_app. rewrite <- !app_assoc. reflexivity.
Qed.

Lemma cls_lt_nth res c : cls res c = nth (N.to_nat c) res [].
Proof. reflexivity. Qed.

Lemma free_spec pl p c : pool_ok pl -> NoDup (map fst (supplied pl)) ->
  lookup p (supplied pl) = Some c ->
  exists pl', free pl p = Some pl' /\ pool_ok pl' /\ Permutation (pblocks pl') (pblocks pl) /\
    supplied pl' = erase p (supplied pl) /\ min_size pl' = min_size pl /\
    cls (reserved pl') c = p :: cls (reserved pl) c /\
    (forall q, In q (map fst (supplied pl')) <-> In q (map fst (supplied pl)) /\ q <> p).
Proof.
  intros (Hlen & Hcls & Hmin) Hnd Hl. unfold free. rewrite Hl. eexists. split; [reflexivity|].
  destruct (lookup_split _ _ _ Hl) as (S1 & S2 & ES & HS1).
  assert (Hc : c < 64) by (apply (Hcls p c); rewrite ES; apply in_elt).
  assert (Hn : (N.to_nat c < length (reserved pl))%nat) by lia.
  destruct (rblocks_set_nth (reserved pl) (N.to_nat c) 0 Hn) as (X & Y & E1 & E2).
  rewrite N2Nat.id, N.add_0_l in E1, E2.
  rewrite ES in Hnd. destruct (NoDup_map_app_mid _ _ _ _ Hnd) as (Hn1 & Hn2 & Hnd').
  assert (Eer : erase p (supplied pl) = S1 ++ S2) by (rewrite ES; now apply erase_mid).
  split; [|split; [|split; [|split; [|split]]]]; simpl.
  - split; [|split]; simpl.
    + unfold set_cls. now rewrite set_nth_length.
    + intros q k Hq. rewrite Eer in Hq. apply (Hcls q k). rewrite ES. apply in_mid. now right.
    + exact Hmin.
  - unfold pblocks. simpl. unfold set_cls. rewrite E2, Eer, E1, ES. simpl.
    apply (perm_move (p, c)).
  - reflexivity.
  - reflexivity.
  - unfold cls, set_cls. now rewrite nth_set_nth_same.
  - intros q. rewrite Eer, ES. rewrite !map_app. simpl.
    rewrite !in_app_iff. simpl. split.
    + intros [H|H]; (split; [tauto|]); intros ->; tauto.
    + intros [[H|[H|H]] Hne]; auto. congruence.
Qed.

Lemma pop_spec pl c p rest : pool_ok pl -> c < 64 -> cls (reserved pl) c = p :: rest ->
  ~ In p (map fst (supplied pl)) ->
  let pl1 := mkPool (set_cls (reserved pl) c rest) (emplace p c (supplied pl)) (min_size pl) in
  pool_ok pl1 /\ Permutation (pblocks pl1) (pblocks pl) /\ supplied pl1 = (p, c) :: supplied pl.
Proof.
  intros (Hlen & Hcls & Hmin) Hc Hcl Hni pl1.
  assert (Hn : (N.to_nat c < length (reserved pl))%nat) by lia.
  destruct (rblocks_set_nth (reserved pl) (N.to_nat c) 0 Hn) as (X & Y & E1 & E2).
  rewrite N2Nat.id, N.add_0_l in E1, E2. unfold cls in Hcl. rewrite Hcl in E1.
  assert (Es : supplied pl1 = (p, c) :: supplied pl) by (simpl; now apply emplace_new).
  split; [|split]; [| |exact Es].
  - split; [|split]; simpl.
    + unfold set_cls. now rewrite set_nth_length.
    + rewrite (emplace_new p c (supplied pl) Hni). intros q k [e|Hq]; [injection e as <- <-; exact Hc|eauto].
    + exact Hmin.
  - unfold pblocks. rewrite Es. simpl. unfold set_cls. rewrite E2, E1. simpl.
    symmetry. apply (perm_move (p, c) X _ Y [] (supplied pl)).
Qed.

Lemma new_spec pl c p : pool_ok pl -> c < 64 -> ~ In p (map fst (supplied pl)) ->
  let pl1 := mkPool (reserved pl) (emplace p c (supplied pl)) (min_size pl) in
  pool_ok pl1 /\ Permutation (pblocks pl1) ((p, c) :: pblocks pl) /\ supplied pl1 = (p, c) :: supplied pl.
Proof.
  intros (Hlen & Hcls & Hmin) Hc Hni pl1.
  assert (Es : supplied pl1 = (p, c) :: supplied pl) by (simpl; now apply emplace_new).
  split; [|split]; [| |exact Es].
  - split; [|split]; simpl; auto.
    rewrite (emplace_new p c (supplied pl) Hni). intros q k [e|Hq]; [injection e as <- <-; exact Hc|eauto].
  - unfold pblocks. rewrite Es. simpl. symmetry. apply Permutation_middle.
Qed.

Definition released (pl : pool) : pool :=
  mkPool (map (fun _ => []) (reserved pl)) (supplied pl) (min_size pl).
Lemma released_spec pl : pool_ok pl -> pool_ok (released pl) /\ pblocks (released pl) = supplied pl.
Proof.
  intros (Hlen & Hcls & Hmin). split.
  - split; [|split]; simpl; auto. now rewrite map_length.
  - unfold pblocks, released. simpl. now rewrite rblocks_empty.
Qed.

Lemma dtor_spec : forall fuel pl, pool_ok pl -> NoDup (map fst (supplied pl)) ->
  fuel = length (supplied pl) ->
  let pl1 := dtor_loop fuel pl in
  pool_ok pl1 /\ supplied pl1 = [] /\ Permutation (pblocks pl1) (pblocks pl).
Proof.
  induction fuel as [|f IH]; intros pl Hok Hnd Hf; simpl.
  - destruct (supplied pl) eqn:E; [|discriminate]. auto.
  - destruct (supplied pl) as [|[p c] S] eqn:E; [discriminate|].
    assert (Hl : lookup p (supplied pl) = Some c) by (rewrite E; simpl; now rewrite N.eqb_refl).
    destruct (free_spec pl p c Hok) as (pl' & Hfr & Hok' & HP & Hs & _); [now rewrite E|exact Hl|].
    rewrite Hfr.
    assert (Es : supplied pl' = S) by (rewrite Hs, E; simpl; now rewrite N.eqb_refl).
    destruct (IH pl' Hok') as (H1 & H2 & H3).
    + rewrite Es. simpl in Hnd. now inversion Hnd.
    + rewrite Es. simpl in Hf. lia.
    + split; [exact H1|]. split; [exact H2|]. etransitivity; eassumption.
Qed.

(* ---- BInv under the micro-steps --------------------------------------------------------- *)
Lemma keys_mid (X : list (N * pool)) pid pl pl' Y :
  map fst (X ++ (pid, pl') :: Y) = map fst (X ++ (pid, pl) :: Y).
Proof. rewrite !map_app. reflexivity. Qed.

Lemma binv_perm X pid pl pl' Y log : BInv (X ++ (pid, pl) :: Y) log -> pool_ok pl' ->
  Permutation (pblocks pl') (pblocks pl) -> BInv (X ++ (pid, pl') :: Y) log.
Proof.
  intros (H1 & H2 & H3 & H4 & H5) Hok HP. pose proof (wblocks_perm X pid pl pl' Y HP) as HW.
  split; [|split; [|split; [|split]]].
  - now rewrite (keys_mid X pid pl pl' Y).
  - intros q ql Hq. apply in_mid in Hq. destruct Hq as [e|Hq]; [injection e as -> ->; exact Hok|].
    apply (H2 q ql). apply in_mid. now right.
  - eapply Permutation_NoDup; [|exact H3]. apply Permutation_map. now symmetry.
  - etransitivity; [exact H4|]. now symmetry.
  - exact H5.
Qed.

Lemma binv_alloc X pid pl pl' Y log p c sz : BInv (X ++ (pid, pl) :: Y) log -> pool_ok pl' ->
  Permutation (pblocks pl') ((p, c) :: pblocks pl) -> ~ In p (map blk_ptr (live_of log)) ->
  sz = 2 ^ c -> BInv (X ++ (pid, pl') :: Y) (EvAlloc pid sz (Some p) :: log).
Proof.
  intros (H1 & H2 & H3 & H4 & H5) Hok HP Hfresh ->.
  pose proof (wblocks_add X pid pl pl' Y (p, c) HP) as HW.
  split; [|split; [|split; [|split]]].
  - now rewrite (keys_mid X pid pl pl' Y).
  - intros q ql Hq. apply in_mid in Hq. destruct Hq as [e|Hq]; [injection e as -> ->; exact Hok|].
    apply (H2 q ql). apply in_mid. now right.
  - eapply Permutation_NoDup; [apply Permutation_map; symmetry; exact HW|].
    simpl. constructor; [|exact H3].
    intros Hin. apply Hfresh. eapply Permutation_in; [|exact Hin].
    apply Permutation_map. now symmetry.
  - simpl. etransitivity; [|symmetry; exact HW]. unfold tagb. simpl. now apply perm_skip.
  - exact H5.
Qed.

Lemma binv_fail objs log pid sz : BInv objs log -> BInv objs (EvAlloc pid sz None :: log).
Proof. intros H. exact H. Qed.

Lemma binv_release X pid pl Y log : BInv (X ++ (pid, pl) :: Y) log ->
  BInv (X ++ (pid, released pl) :: Y) (rev (map (EvDelete pid) (concat (reserved pl))) ++ log).
Proof.
  intros (H1 & H2 & H3 & H4 & H5).
  assert (Hok : pool_ok pl) by (apply (H2 pid pl), in_elt).
  destruct (released_spec pl Hok) as (Hok' & Epb).
  assert (HPb : Permutation (pblocks pl) (rblocks 0 (reserved pl) ++ pblocks (released pl))).
  { rewrite Epb. reflexivity. }
  pose proof (wblocks_del X pid pl (released pl) Y _ HPb) as HW.
  assert (Hnd : NoDup (map blk_ptr (map (tagb pid) (rblocks 0 (reserved pl)) ++ wblocks (X ++ (pid, released pl) :: Y)))).
  { eapply Permutation_NoDup; [|exact H3]. now apply Permutation_map. }
  destruct (live_deletes pid (rblocks 0 (reserved pl)) log _ Hnd) as (HL & HD).
  { etransitivity; eassumption. }
  rewrite rblocks_fst in HL, HD.
  split; [|split; [|split; [|split]]].
  - now rewrite (keys_mid X pid pl (released pl) Y).
  - intros q ql Hq. apply in_mid in Hq. destruct Hq as [e|Hq]; [injection e as -> ->; exact Hok'|].
    apply (H2 q ql). apply in_mid. now right.
  - rewrite map_app in Hnd. apply NoDup_app_inv in Hnd. tauto.
  - exact HL.
  - now rewrite HD.
Qed.

Lemma binv_drop_empty X pid pl Y log : BInv (X ++ (pid, pl) :: Y) log -> pblocks pl = [] ->
  BInv (X ++ Y) log.
Proof.
  intros (H1 & H2 & H3 & H4 & H5) He. rewrite (wblocks_drop X pid pl Y He) in *.
  split; [|split; [|split; [|split]]]; auto.
  - rewrite map_app in *. simpl in H1. now apply NoDup_remove_1 in H1.
  - intros q ql Hq. apply (H2 q ql). apply in_mid. now right.
Qed.

Lemma binv_add_empty objs log pid pl : BInv objs log -> ~ In pid (map fst objs) -> pool_ok pl ->
  pblocks pl = [] -> BInv ((pid, pl) :: objs) log.
Proof.
  intros (H1 & H2 & H3 & H4 & H5) Hni Hok He.
  split; [|split; [|split; [|split]]]; auto.
  - simpl. now constructor.
  - intros q ql [e|Hq]; [injection e as -> ->; exact Hok|eauto].
  - rewrite wblocks_cons, He. exact H3.
  - rewrite wblocks_cons, He. exact H4.
Qed.

(* ---- handles --------------------------------------------------------------------------- *)
Lemma handle_eqb_eq a b : handle_eqb a b = true <-> a = b.
Proof.
  destruct a as [a1 a2], b as [b1 b2]. unfold handle_eqb. simpl.
  rewrite andb_true_iff, !N.eqb_eq. split; [intros [-> ->]; reflexivity|intros e; injection e; auto].
Qed.
Lemma held_existsb h l : existsb (handle_eqb h) l = true <-> In h l.
Proof.
  rewrite existsb_exists. split.
  - intros (x & Hx & e). apply handle_eqb_eq in e. now subst.
  - intros H. exists h. split; [exact H|now apply handle_eqb_eq].
Qed.
Lemma remove_handle_In h l x : NoDup l -> (In x (remove_handle h l) <-> In x l /\ x <> h).
Proof.
  induction l as [|y r IH]; simpl; intros Hnd; [tauto|].
  inversion Hnd as [|? ? Hni Hnd']; subst.
  destruct (handle_eqb y h) eqn:E.
  - apply handle_eqb_eq in E. subst y. split.
    + intros Hx. split; [now right|]. intros ->. tauto.
    + intros [[e|Hx] Hne]; [congruence|exact Hx].
  - assert (y <> h) by (intros e; apply handle_eqb_eq in e; congruence).
    simpl. rewrite (IH Hnd'). split.
    + intros [e|[Hx Hne]]; [subst; tauto|tauto].
    + intros [[e|Hx] Hne]; tauto.
Qed.
Lemma remove_handle_NoDup h l : NoDup l -> NoDup (remove_handle h l).
Proof.
  induction l as [|y r IH]; simpl; intros Hnd; [constructor|].
  inversion Hnd as [|? ? Hni Hnd']; subst.
  destruct (handle_eqb y h); [exact Hnd'|].
  constructor; [|auto]. intros Hin. apply (remove_handle_In h r y Hnd') in Hin. tauto.
Qed.

Lemma key_in {A} (k : N) (v : A) (m : list (N * A)) : In (k, v) m -> In k (map fst m).
Proof. intros H. apply in_map_iff. exists (k, v). auto. Qed.

Lemma hinv_same nid X pid pl pl' Y hs : HInv nid (X ++ (pid, pl) :: Y) hs ->
  (forall q, In q (map fst (supplied pl')) <-> In q (map fst (supplied pl))) ->
  HInv nid (X ++ (pid, pl') :: Y) hs.
Proof.
  intros (H1 & H2 & H3 & H4) Hs. split; [exact H1|]. split; [|split; [exact H3|]].
  - intros q. rewrite (keys_mid X pid pl pl' Y). apply H2.
  - intros q ql Hq r. apply in_mid in Hq. destruct Hq as [e|Hq].
    + injection e as -> ->. rewrite Hs. apply (H4 pid pl). apply in_elt.
    + apply (H4 q ql). apply in_mid. now right.
Qed.

Lemma hinv_supply nid X pid pl pl' Y hs p : HInv nid (X ++ (pid, pl) :: Y) hs ->
  NoDup (map fst (X ++ (pid, pl) :: Y)) ->
  (forall q, In q (map fst (supplied pl')) <-> q = p \/ In q (map fst (supplied pl))) ->
  ~ In p (map fst (supplied pl)) ->
  HInv nid (X ++ (pid, pl') :: Y) ((pid, p) :: hs).
Proof.
  intros (H1 & H2 & H3 & H4) Hnd Hs Hni.
  destruct (NoDup_map_app_mid _ _ _ _ Hnd) as (HX & HY & _). simpl in HX, HY.
  pose proof (H4 pid pl (in_elt _ _ _)) as Hh.
  split; [|split; [|split]].
  - constructor; [|exact H1]. rewrite Hh. exact Hni.
  - intros q. rewrite (keys_mid X pid pl pl' Y). apply H2.
  - intros q r [e|Hq]; [|eauto]. injection e as <- <-. apply H2. rewrite map_app. simpl.
    apply in_or_app. right. now left.
  - intros q ql Hq r. apply in_mid in Hq. destruct Hq as [e|Hq].
    + injection e as -> ->. rewrite Hs. simpl. rewrite <- Hh. split.
      * intros [e|Hr]; [injection e as <-; now left|now right].
      * intros [->|Hr]; [now left|now right].
    + assert (q <> pid).
      { intros ->. apply in_app_or in Hq. destruct Hq as [Hq|Hq]; apply key_in in Hq; tauto. }
      simpl. rewrite <- (H4 q ql) by (apply in_mid; now right). split.
      * intros [e|Hr]; [congruence|exact Hr].
      * intros Hr. now right.
Qed.

Lemma hinv_release nid X pid pl pl' Y hs p : HInv nid (X ++ (pid, pl) :: Y) hs ->
  NoDup (map fst (X ++ (pid, pl) :: Y)) ->
  (forall q, In q (map fst (supplied pl')) <-> In q (map fst (supplied pl)) /\ q <> p) ->
  HInv nid (X ++ (pid, pl') :: Y) (remove_handle (pid, p) hs).
Proof.
  intros (H1 & H2 & H3 & H4) Hnd Hs.
  destruct (NoDup_map_app_mid _ _ _ _ Hnd) as (HX & HY & _). simpl in HX, HY.
  split; [|split; [|split]].
  - now apply remove_handle_NoDup.
  - intros q. rewrite (keys_mid X pid pl pl' Y). apply H2.
  - intros q r Hq. apply (remove_handle_In _ _ _ H1) in Hq. destruct Hq as [Hq _]. eauto.
  - intros q ql Hq r. rewrite (remove_handle_In _ _ _ H1). apply in_mid in Hq. destruct Hq as [e|Hq].
    + injection e as -> ->. rewrite Hs, <- (H4 pid pl (in_elt _ _ _)). split.
      * intros [Hr Hne]. split; [exact Hr|]. intros ->. now apply Hne.
      * intros [Hr Hne]. split; [exact Hr|]. intros e. injection e as ->. now apply Hne.
    + assert (q <> pid).
      { intros ->. apply in_app_or in Hq. destruct Hq as [Hq|Hq]; apply key_in in Hq; tauto. }
      rewrite <- (H4 q ql) by (apply in_mid; now right). split; [tauto|].
      intros Hr. split; [exact Hr|]. intros e. injection e as -> ->. congruence.
Qed.

Lemma hinv_drop_dead nid objs hs pid p : HInv nid objs hs -> ~ In pid (map fst objs) ->
  HInv nid objs (remove_handle (pid, p) hs).
Proof.
  intros (H1 & H2 & H3 & H4) Hdead. split; [|split; [|split]].
  - now apply remove_handle_NoDup.
  - exact H2.
  - intros q r Hq. apply (remove_handle_In _ _ _ H1) in Hq. destruct Hq as [Hq _]. eauto.
  - intros q ql Hq r. rewrite (remove_handle_In _ _ _ H1), <- (H4 q ql Hq). split; [tauto|].
    intros Hr. split; [exact Hr|]. intros e. injection e as -> ->. apply Hdead. eapply key_in; eauto.
Qed.

Lemma hinv_destroy nid X pid pl Y hs : HInv nid (X ++ (pid, pl) :: Y) hs -> HInv nid (X ++ Y) hs.
Proof.
  intros (H1 & H2 & H3 & H4). split; [exact H1|]. split; [|split; [exact H3|]].
  - intros q Hq. apply H2. rewrite map_app in *. simpl. rewrite in_app_iff in *. simpl. tauto.
  - intros q ql Hq. apply (H4 q ql). apply in_mid. now right.
Qed.

Lemma hinv_create nid objs hs pl : HInv nid objs hs -> supplied pl = [] ->
  HInv (nid + 1) ((nid, pl) :: objs) hs.
Proof.
  intros (H1 & H2 & H3 & H4) He. split; [exact H1|]. split; [|split].
  - simpl. intros q [<-|Hq]; [lia|]. apply H2 in Hq. lia.
  - intros q r Hq. apply H3 in Hq. lia.
  - intros q ql [e|Hq] r.
    + injection e as <- <-. rewrite He. simpl. split; [|tauto]. intros Hr. apply H3 in Hr. lia.
    + now apply H4.
Qed.

(* ---- allocate, in closed form ----------------------------------------------------------- *)
Definition eff_size (pl : pool) (size : N) : N := if size <? min_size pl then min_size pl else size.

Lemma allocate_spec pid pl log size o1 o2 :
  allocate pid pl log size o1 o2 =
  if size =? 0 then (ANull, 0, pl, log) else
  let c := calculate_shifts (eff_size pl size) in
  if 63 <? c then (AErr, 0, pl, log) else
  let ms := (N.shiftl 1 c) mod W64 in
  match cls (reserved pl) c with
  | p :: rest =>
      (AOk p, ms, mkPool (set_cls (reserved pl) c rest) (emplace p c (supplied pl)) (min_size pl), log)
  | [] =>
      match o1 with
      | Some p => (AOk p, ms, mkPool (reserved pl) (emplace p c (supplied pl)) (min_size pl),
                   EvAlloc pid ms (Some p) :: log)
      | None =>
          let log2 := rev (map (EvDelete pid) (concat (reserved pl))) ++ EvAlloc pid ms None :: log in
          match o2 with
          | Some p => (AOk p, ms, mkPool (reserved (released pl)) (emplace p c (supplied pl)) (min_size pl),
                       EvAlloc pid ms (Some p) :: log2)
          | None => (AFail, 0, released pl, EvAlloc pid ms None :: log2)
          end
      end
  end.
Proof.
  unfold allocate, eff_size. destruct (size =? 0); [reflexivity|].
  cbv zeta. destruct (63 <? _); [reflexivity|].
  destruct (cls _ _); [|reflexivity]. destruct o1; [reflexivity|].
  rewrite release_eq. destruct o2; reflexivity.
Qed.

Lemma shift_size c : c <= 63 -> (N.shiftl 1 c) mod W64 = 2 ^ c.
Proof.
  intros H. rewrite N.shiftl_1_l. apply N.mod_small.
  change W64 with (2 ^ 64). apply N.pow_lt_mono_r; lia.
Qed.

Lemma objs_split (objs : list (N * pool)) pid pl : lookup pid objs = Some pl ->
  exists X Y, objs = X ++ (pid, pl) :: Y /\ ~ In pid (map fst X).
Proof. apply lookup_split. Qed.

Lemma cls_in_rblocks res c p : (N.to_nat c < length res)%nat -> In p (cls res c) -> In (p, c) (rblocks 0 res).
Proof.
  intros Hn Hin. destruct (rblocks_set_nth res (N.to_nat c) 0 Hn) as (X & Y & E1 & _).
  rewrite N2Nat.id, N.add_0_l in E1. rewrite E1. apply in_or_app. right. apply in_or_app. left.
  apply in_map_iff. exists p. auto.
Qed.

Lemma supplied_in_live X pid pl Y log q : Permutation (live_of log) (wblocks (X ++ (pid, pl) :: Y)) ->
  In q (map fst (supplied pl)) -> In q (map blk_ptr (live_of log)).
Proof.
  intros HP Hq. eapply Permutation_in; [apply Permutation_map; symmetry; exact HP|].
  rewrite wblocks_mid, !map_app, blk_ptr_tagb. apply in_or_app. right. apply in_or_app. left.
  unfold pblocks. rewrite map_app. apply in_or_app. now right.
Qed.

(* ---- every operation preserves the invariant ------------------------------------------- *)
Lemma new_pool_ok min : min < W64 -> pool_ok (new_pool min) /\ pblocks (new_pool min) = [].
Proof.
  intros H. split; [|reflexivity]. split; [reflexivity|]. split; [|exact H]. intros p c [].
Qed.

Lemma step_create_inv w min : Inv w -> next_id w + 1 < W64 -> Inv (fst (step w (Create min))).
Proof.
  intros [HB HH] Hn. simpl. destruct (N.leb_spec W64 min) as [Hle|Hlt]; [split; assumption|].
  simpl. assert (Hni : ~ In (next_id w) (map fst (objects w))).
  { intros Hin. destruct HH as (_ & H2 & _). apply H2 in Hin. lia. }
  rewrite (emplace_new _ _ _ Hni). rewrite N.mod_small by lia.
  destruct (new_pool_ok min Hlt) as [Hok He]. split; simpl.
  - now apply binv_add_empty.
  - now apply hinv_create.
Qed.

Lemma step_drop_inv w pid p : Inv w -> Inv (fst (step w (Drop pid p))).
Proof.
  intros [HB HH]. simpl. destruct (existsb _ _) eqn:Ex; [|split; assumption]. simpl.
  apply held_existsb in Ex. unfold deleter_call.
  destruct (lookup pid (objects w)) as [pl|] eqn:El.
  - destruct (objs_split _ _ _ El) as (X & Y & Eo & HX).
    assert (Hnd : NoDup (map fst (X ++ (pid, pl) :: Y))) by (rewrite <- Eo; apply HB).
    pose proof HB as (_ & Hoks & Hndp & _). rewrite Eo in Hoks, Hndp.
    assert (Hok : pool_ok pl) by (apply (Hoks pid pl), in_elt).
    pose proof (pool_nodup _ _ _ _ Hndp) as Hndb. unfold pblocks in Hndb. rewrite map_app in Hndb.
    apply NoDup_app_inv in Hndb. destruct Hndb as (_ & Hnds & _).
    assert (Hps : In p (map fst (supplied pl))).
    { destruct HH as (_ & _ & _ & H4). rewrite Eo in H4. apply (H4 pid pl (in_elt _ _ _)). exact Ex. }
    destruct (lookup p (supplied pl)) as [c|] eqn:Elp; [|apply lookup_None in Elp; tauto].
    destruct (free_spec pl p c Hok Hnds Elp) as (pl' & Hfr & Hok' & HP & _ & _ & _ & Hkeys).
    rewrite Hfr. rewrite Eo, (assign_mid _ _ _ _ _ HX). split; simpl.
    + eapply binv_perm; eauto. rewrite <- Eo. exact HB.
    + eapply hinv_release; eauto. rewrite <- Eo. exact HH.
  - split; simpl; [exact HB|]. apply hinv_drop_dead; [exact HH|]. now apply lookup_None.
Qed.

Lemma step_destroy_inv w pid : Inv w -> Inv (fst (step w (Destroy pid))).
Proof.
  intros [HB HH]. simpl. destruct (lookup pid (objects w)) as [pl|] eqn:El; [|split; assumption].
  destruct (objs_split _ _ _ El) as (X & Y & Eo & HX).
  pose proof HB as (_ & Hoks & Hndp & _). rewrite Eo in Hoks, Hndp.
  assert (Hok : pool_ok pl) by (apply (Hoks pid pl), in_elt).
  pose proof (pool_nodup _ _ _ _ Hndp) as Hndb. unfold pblocks in Hndb. rewrite map_app in Hndb.
  apply NoDup_app_inv in Hndb. destruct Hndb as (_ & Hnds & _).
  destruct (dtor_spec (length (supplied pl)) pl Hok Hnds eq_refl) as (Hok1 & Hs1 & HP1).
  unfold destroy_pool. rewrite release_eq. simpl.
  rewrite Eo, (erase_mid _ _ _ _ HX). rewrite Eo in HB, HH.
  set (pl1 := dtor_loop (length (supplied pl)) pl) in *.
  pose proof (binv_perm _ _ _ _ _ _ HB Hok1 HP1) as HB1.
  pose proof (binv_release _ _ _ _ _ HB1) as HB2.
  split; simpl.
  - eapply binv_drop_empty; [exact HB2|]. destruct (released_spec pl1 Hok1) as (_ & ->). exact Hs1.
  - eapply hinv_destroy; eauto.
Qed.

Lemma step_alloc_eq w pid size o1 o2 pl : size < W64 -> lookup pid (objects w) = Some pl ->
  step w (Alloc pid size o1 o2) =
  match allocate pid pl (elog w) size o1 o2 with
  | (r, asz, pl', log') =>
      (mkWorld (next_id w) (assign pid pl' (objects w)) log'
               (match r with AOk p => (pid, p) :: held w | _ => held w end), OAlloc r asz)
  end.
Proof.
  intros Hs El. simpl. destruct (N.leb_spec W64 size); [lia|]. now rewrite El.
Qed.

Lemma assign_same (objs : list (N * pool)) pid pl : NoDup (map fst objs) ->
  lookup pid objs = Some pl -> assign pid pl objs = objs.
Proof.
  intros Hnd El. destruct (objs_split _ _ _ El) as (X & Y & -> & HX). now apply assign_mid.
Qed.

Lemma step_alloc_inv w pid size o1 o2 : Inv w ->
  log_okb (elog (fst (step w (Alloc pid size o1 o2)))) = true ->
  Inv (fst (step w (Alloc pid size o1 o2))).
Proof.
  intros [HB HH].
  destruct (N.leb_spec W64 size) as [Hle|Hlt].
  { simpl. destruct (N.leb_spec W64 size); [|lia]. intros _. split; assumption. }
  destruct (lookup pid (objects w)) as [pl|] eqn:El.
  2:{ simpl. destruct (N.leb_spec W64 size); [lia|]. rewrite El. intros _. split; assumption. }
  rewrite (step_alloc_eq w pid size o1 o2 pl Hlt El), allocate_spec.
  pose proof HB as (Hndk & Hoks & Hndp & HPl & Hdel).
  destruct (objs_split _ _ _ El) as (X & Y & Eo & HX).
  assert (Hok : pool_ok pl) by (apply (Hoks pid pl); rewrite Eo; apply in_elt).
  destruct (size =? 0).
  { simpl. intros _. rewrite (assign_same _ _ _ Hndk El). split; assumption. }
  cbv zeta. set (c := calculate_shifts (eff_size pl size)).
  destruct (N.ltb_spec 63 c) as [Hbig|Hc].
  { simpl. intros _. rewrite (assign_same _ _ _ Hndk El). split; assumption. }
  rewrite (shift_size c Hc). assert (Hc64 : c < 64) by lia.
  rewrite Eo in HB, HH, Hndk, Hndp, HPl. rewrite Eo.
  pose proof (pool_nodup _ _ _ _ Hndp) as Hndb.
  assert (Hlen : (N.to_nat c < length (reserved pl))%nat) by (destruct Hok as (-> & _); lia).
  destruct (cls (reserved pl) c) as [|p rest] eqn:Ecl.
  - destruct o1 as [p|].
    + (* a new block *)
      simpl. rewrite (assign_mid _ _ _ _ _ HX). intros Hlog. apply (log_okb_alloc pid (2 ^ c)) in Hlog. destruct Hlog as (_ & Hfresh & _).
      assert (Hni : ~ In p (map fst (supplied pl))).
      { intros Hin. apply Hfresh. eapply supplied_in_live; eauto. }
      destruct (new_spec pl c p Hok Hc64 Hni) as (Hok1 & HP1 & Es1). split; simpl.
      * exact (binv_alloc X pid pl _ Y (elog w) p c (2 ^ c) HB Hok1 HP1 Hfresh eq_refl).
      * apply (hinv_supply _ X pid pl _ Y _ p HH Hndk); [|exact Hni].
        intros q. simpl in Es1. rewrite Es1. simpl. intuition congruence.
    + destruct o2 as [p|].
      * (* failure, release, success *)
        simpl. rewrite (assign_mid _ _ _ _ _ HX). intros Hlog. apply (log_okb_alloc pid (2 ^ c)) in Hlog. destruct Hlog as (_ & Hfresh & _).
        pose proof (binv_release _ _ _ _ _ (binv_fail _ _ pid (2 ^ c) HB)) as HB2.
        pose proof HB2 as (Hk2 & Hoks2 & Hndp2 & HPl2 & Hdel2).
        assert (Hok2 : pool_ok (released pl)) by (apply (Hoks2 pid), in_elt).
        assert (Hni : ~ In p (map fst (supplied (released pl)))).
        { intros Hin. apply Hfresh. eapply supplied_in_live; eauto. }
        destruct (new_spec (released pl) c p Hok2 Hc64 Hni) as (Hok3 & HP3 & Es3). split; simpl.
        -- exact (binv_alloc X pid (released pl) _ Y _ p c (2 ^ c) HB2 Hok3 HP3 Hfresh eq_refl).
        -- apply (hinv_supply _ X pid pl _ Y _ p HH Hndk); [|exact Hni].
           intros q. simpl in Es3. rewrite Es3. simpl. intuition congruence.
      * (* failure, release, failure *)
        simpl. rewrite (assign_mid _ _ _ _ _ HX). intros _. split; simpl.
        -- apply binv_fail. apply binv_release. apply binv_fail. exact HB.
        -- apply (hinv_same _ X pid pl _ Y _ HH). intros q. reflexivity.
  - (* a cached block of the class *)
    simpl. rewrite (assign_mid _ _ _ _ _ HX). intros _.
    assert (Hni : ~ In p (map fst (supplied pl))).
    { unfold pblocks in Hndb. rewrite map_app in Hndb. apply NoDup_app_inv in Hndb.
      destruct Hndb as (_ & _ & Hdisj). apply Hdisj. rewrite rblocks_fst.
      assert (Hin : In (p, c) (rblocks 0 (reserved pl))).
      { apply cls_in_rblocks; [exact Hlen|]. rewrite Ecl. now left. }
      rewrite <- (rblocks_fst 0). apply in_map_iff. exists (p, c). auto. }
    destruct (pop_spec pl c p rest Hok Hc64 Ecl Hni) as (Hok1 & HP1 & Es1). split; simpl.
    + exact (binv_perm X pid pl _ Y _ HB Hok1 HP1).
    + apply (hinv_supply _ X pid pl _ Y _ p HH Hndk); [|exact Hni].
      intros q. simpl in Es1. rewrite Es1. simpl. intuition congruence.
Qed.
