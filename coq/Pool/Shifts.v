(* calculate_shifts x = ceil(log2 x) for every 0 < x < 2^64, and the tie of the reviewed copy
   (ShiftsImpl.v) to the definition regenerated from /repo on every run (Gen/ShiftsGen.v). *)
From Coq Require Import NArith List Lia Bool.
From PV Require Import Pool.ShiftsImpl.
From PV Require Gen.ShiftsGen.
Import ListNotations.
Local Open Scope N_scope.

(* A change of the C++ function breaks exactly this obligation (closed constructor terms:
   vm_compute normalises the abbreviations of the reviewed copy, the comparison is syntactic). *)
Lemma gen_matches : ShiftsGen.prog = ShiftsImpl.reviewed_prog.
Proof. vm_compute. reflexivity. Qed.

Definition smear (x : N) : N :=
  let b := N.lor x (N.shiftr x 32) in
  let b := N.lor b (N.shiftr b 16) in
  let b := N.lor b (N.shiftr b 8) in
  let b := N.lor b (N.shiftr b 4) in
  let b := N.lor b (N.shiftr b 2) in
  N.lor b (N.shiftr b 1).
Definition popc (b : N) : N :=
  let b := (N.land b 0x5555555555555555 + N.land (N.shiftr b 1) 0x5555555555555555) mod W64 in
  let b := (N.land b 0x3333333333333333 + N.land (N.shiftr b 2) 0x3333333333333333) mod W64 in
  let b := (N.land b 0x0f0f0f0f0f0f0f0f + N.land (N.shiftr b 4) 0x0f0f0f0f0f0f0f0f) mod W64 in
  let b := (N.land b 0x00ff00ff00ff00ff + N.land (N.shiftr b 8) 0x00ff00ff00ff00ff) mod W64 in
  let b := (N.land b 0x0000ffff0000ffff + N.land (N.shiftr b 16) 0x0000ffff0000ffff) mod W64 in
  (N.land b 0x00000000ffffffff + N.land (N.shiftr b 32) 0x00000000ffffffff) mod W64.

(* the interpreter run on the reviewed program, unfolded once and for all *)
Lemma calculate_shifts_unfold x : calculate_shifts x =
  if b2n (x =? 0) =? 0 then
    let b := popc (smear x) in
    (b + W64 - b2n ((N.shiftl 1 ((b + W64 - 1) mod W64)) mod W64 =? x)) mod W64
  else 64.
Proof.
  unfold popc, smear. cbv zeta.
  cbv [calculate_shifts run reviewed_prog eval_stmt eval_expr eval_binop upd Nat.eqb
       X B sb smear_step count_step].
  reflexivity.
Qed.

(* bit inclusion *)
Definition sub (a b : N) : Prop := forall i, N.testbit a i = true -> N.testbit b i = true.
Lemma sub_lor a b c d : sub a c -> sub b d -> sub (N.lor a b) (N.lor c d).
Proof. intros H1 H2 i. rewrite !N.lor_spec, !orb_true_iff. intros [H|H]; auto. Qed.
Lemma sub_shiftr a b n : sub a b -> sub (N.shiftr a n) (N.shiftr b n).
Proof. intros H i. rewrite !N.shiftr_spec by lia. apply H. Qed.
Lemma smear_mono a b : sub a b -> sub (smear a) (smear b).
Proof. intros H. unfold smear. repeat (apply sub_lor || apply sub_shiftr || assumption). Qed.
Lemma sub_antisym a b : sub a b -> sub b a -> a = b.
Proof.
  intros H1 H2. apply N.bits_inj. intro i.
  destruct (N.testbit a i) eqn:Ea, (N.testbit b i) eqn:Eb; auto.
  - rewrite (H1 _ Ea) in Eb; discriminate.
  - rewrite (H2 _ Eb) in Ea; discriminate.
Qed.

Definition ks := map N.of_nat (seq 0 64).
Lemma sweep : forallb (fun k => (smear (2^k) =? 2^(k+1) - 1) && (smear (2^(k+1) - 1) =? 2^(k+1) - 1)
                               && (popc (2^(k+1) - 1) =? k + 1)) ks = true.
Proof. vm_compute. reflexivity. Qed.

Lemma pow2_sub x : 0 < x -> sub (2 ^ N.log2 x) x.
Proof.
  intros Hx i Hi. destruct (N.eq_dec i (N.log2 x)) as [->|Hne].
  - apply N.bit_log2. lia.
  - rewrite N.pow2_bits_eqb in Hi. apply N.eqb_eq in Hi. congruence.
Qed.
Lemma sub_ones x : 0 < x -> sub x (2 ^ (N.log2 x + 1) - 1).
Proof.
  intros Hx i Hi. rewrite <- N.pred_sub, <- N.ones_equiv. apply N.ones_spec_low.
  destruct (N.lt_ge_cases i (N.log2 x + 1)) as [H|H]; auto.
  rewrite N.bits_above_log2 in Hi by lia. discriminate.
Qed.

Lemma log2_lt_64 x : 0 < x < W64 -> N.log2 x < 64.
Proof. intros [H0 H1]. apply N.log2_lt_pow2; [lia|exact H1]. Qed.

Lemma log2_in_ks x : 0 < x < W64 -> In (N.log2 x) ks.
Proof.
  intros Hx. pose proof (log2_lt_64 x Hx). unfold ks. apply in_map_iff.
  exists (N.to_nat (N.log2 x)). split; [lia|]. apply in_seq. lia.
Qed.

Theorem smear_spec x : 0 < x < W64 -> smear x = 2 ^ (N.log2 x + 1) - 1.
Proof.
  intros Hx. pose proof (proj1 (forallb_forall _ _) sweep _ (log2_in_ks x Hx)) as Hs.
  rewrite !andb_true_iff, !N.eqb_eq in Hs. destruct Hs as [[H1 H2] H3].
  apply sub_antisym.
  - rewrite <- H2. apply smear_mono, sub_ones; lia.
  - rewrite <- H1. apply smear_mono, pow2_sub; lia.
Qed.

Theorem calculate_shifts_spec x : 0 < x < W64 -> calculate_shifts x = ceil_log2 x.
Proof.
  intros Hx. rewrite calculate_shifts_unfold. unfold ceil_log2.
  destruct (x =? 0) eqn:E; [apply N.eqb_eq in E; lia|].
  cbn [b2n]. change (0 =? 0) with true. cbv iota zeta. rewrite smear_spec by auto.
  pose proof (proj1 (forallb_forall _ _) sweep _ (log2_in_ks x Hx)) as Hs.
  rewrite !andb_true_iff, !N.eqb_eq in Hs. destruct Hs as [_ H3]. rewrite H3.
  pose proof (log2_lt_64 x Hx) as HL.
  assert (HW : W64 = 2 ^ 64) by reflexivity.
  assert (E1 : (N.log2 x + 1 + W64 - 1) mod W64 = N.log2 x).
  { replace (N.log2 x + 1 + W64 - 1) with (N.log2 x + 1 * W64) by lia.
    rewrite N.mod_add by discriminate. apply N.mod_small. rewrite HW. 
    assert (64 < 2 ^ 64) by (vm_compute; reflexivity). lia. }
  rewrite E1, N.shiftl_1_l.
  assert (Hp : 2 ^ N.log2 x < W64).
  { rewrite HW. apply N.pow_lt_mono_r; lia. }
  rewrite (N.mod_small (2 ^ N.log2 x)) by exact Hp.
  assert (H64 : 64 < W64) by (vm_compute; reflexivity).
  destruct (2 ^ N.log2 x =? x); cbn [b2n].
  - replace (N.log2 x + 1 + W64 - 1) with (N.log2 x + 1 * W64) by lia.
    rewrite N.mod_add by discriminate. apply N.mod_small. lia.
  - replace (N.log2 x + 1 + W64 - 0) with (N.log2 x + 1 + 1 * W64) by lia.
    rewrite N.mod_add by discriminate. apply N.mod_small. lia.
Qed.

(* consequences used by the pool proofs *)
Lemma ceil_log2_le_64 x : 0 < x < W64 -> ceil_log2 x <= 64.
Proof. intros Hx. pose proof (log2_lt_64 x Hx). unfold ceil_log2. destruct (_ =? _); lia. Qed.

(* ceil_log2 x is the least s with x <= 2^s *)
Lemma ceil_log2_upper x : 0 < x -> x <= 2 ^ ceil_log2 x.
Proof.
  intros Hx. unfold ceil_log2. destruct (N.log2_spec x Hx) as [Hl Hu].
  destruct (N.eqb_spec (2 ^ N.log2 x) x) as [e|ne]; [lia|].
  rewrite N.add_1_r. lia.
Qed.
Lemma ceil_log2_least x s : 0 < x -> x <= 2 ^ s -> ceil_log2 x <= s.
Proof.
  intros Hx Hs. unfold ceil_log2. destruct (N.log2_spec x Hx) as [Hl Hu].
  destruct (N.eqb_spec (2 ^ N.log2 x) x) as [e|ne].
  - apply N.pow_le_mono_r_iff with (a := 2); lia.
  - assert (2 ^ N.log2 x < 2 ^ s) by lia.
    apply N.pow_lt_mono_r_iff in H; lia.
Qed.
Lemma ceil_log2_le_63_iff x : 0 < x -> (ceil_log2 x <= 63 <-> x <= 2 ^ 63).
Proof.
  intros Hx. split; intros H.
  - etransitivity; [apply ceil_log2_upper; exact Hx|]. apply N.pow_le_mono_r; lia.
  - apply ceil_log2_least; auto.
Qed.
