(* The small straight-line fragment of C++ in which numeric_utils::calculate_shifts is written,
   as syntax (so that `the code changed` is a decidable, instantly checked syntactic question)
   with its uint64 semantics over N (every wrap explicit).  No proofs. *)
From Coq Require Import NArith.
Local Open Scope N_scope.

Definition W64 : N := 18446744073709551616.   (* 2^64 *)

Inductive binop := OLor | OLand | OLxor | OShr | OShl | OAdd | OSub | OMul | OEq | ONe | OLt | OLe.
Inductive expr :=
| Var (n : nat)                 (* 0 = the parameter; k+1 = the k-th declared local *)
| Lit (v : N)
| Bin (o : binop) (a b : expr). (* comparisons yield 1 / 0 *)
Inductive stmt :=
| IfRet (c r : expr) (k : stmt)       (* if (c) return r; k *)
| Let (v : nat) (e : expr) (k : stmt) (* T v = e;  /  v = e;  /  v op= e'  (normalised) *)
| Ret (e : expr).

Definition b2n (b : bool) : N := if b then 1 else 0.
Definition eval_binop (o : binop) (a b : N) : N :=
  match o with
  | OLor => N.lor a b
  | OLand => N.land a b
  | OLxor => N.lxor a b
  | OShr => N.shiftr a b
  | OShl => (N.shiftl a b) mod W64
  | OAdd => (a + b) mod W64
  | OSub => (a + W64 - b) mod W64
  | OMul => (a * b) mod W64
  | OEq => b2n (a =? b)
  | ONe => b2n (negb (a =? b))
  | OLt => b2n (a <? b)
  | OLe => b2n (a <=? b)
  end.
Definition upd (env : nat -> N) (v : nat) (x : N) : nat -> N :=
  fun k => if Nat.eqb k v then x else env k.
Fixpoint eval_expr (env : nat -> N) (e : expr) : N :=
  match e with
  | Var n => env n
  | Lit v => v
  | Bin o a b => eval_binop o (eval_expr env a) (eval_expr env b)
  end.
Fixpoint eval_stmt (env : nat -> N) (s : stmt) : N :=
  match s with
  | IfRet c r k => if eval_expr env c =? 0 then eval_stmt env k else eval_expr env r
  | Let v e k => eval_stmt (upd env v (eval_expr env e)) k
  | Ret e => eval_expr env e
  end.
Definition run (s : stmt) (x : N) : N := eval_stmt (upd (fun _ => 0) O x) s.
