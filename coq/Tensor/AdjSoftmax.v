(* C01, the softmax family over the reals: LogSumExp, SoftmaxCrossEntropy (dense targets),
   SparseSoftmaxCrossEntropy.  Forward: logsumexp_fw (the generated pairwise update folded over
   the axis slice, Scalar/Stable.v lse_fold) and the compositions of core/tensor_funcs.cc.
   Backward: the BACKWARD bodies of operator_impl.cc, which are compositions of FORWARD kernels
   (broadcast_fw, subtract_fw, exp_fw, multiply_fw, pick_bw) and inplace_add / inplace_subtract:
     LogSumExp    gx += exp(x - broadcast(y)) * broadcast(gy)
     SCE          lsm = log_softmax(x);  gx0 += (exp(lsm) - t) * broadcast(gy);  gx1 -= lsm * broadcast(gy)
     SparseSCE    gx += softmax(x) * broadcast(gy);  pick_bw(-gy, ids, dim, gx)
   The tangents are DEFINED as the adjoints of these bodies (LocalAdjoint unconditional):
     LogSumExp    jvp = sum_axis(exp(x - y) * dx)
     SCE          jvp = sum_axis((softmax(x) - t) * dx - lsm * dt)
     SparseSCE    jvp = sum_axis(softmax(x) * dx) - pick(dx)
   They are the derivatives of the forward values (Tensor/AdjDeriv.v) - for the dense SCE only
   when the target sums to 1 along the axis (known finding D11; refuted otherwise).
   Operands of the dense SCE are taken of one common shape (no B-vs-1 between x and t). *)
From Coq Require Import List NArith Bool Arith Lia Ring Reals RealField Lra Permutation.
From PV Require Import Graph.OpFamily Tensor.Kernels Tensor.Index Tensor.KernelProofs Tensor.ProofsGather
  Tensor.ProofsPerm Tensor.ProofsBilinear Scalar.ScalarBase Gen.ScalarGen Scalar.Stable
  Tensor.AdjCore Tensor.AdjMatmul Tensor.GraphInst Tensor.AdjMax.
Import ListNotations.
Local Open Scope R_scope.

Notation zerosR := (repeat 0).
Notation dotR := (OpFamily.dot 0 Rplus Rmult).
Notation adjR := (adj_of 0 Rplus Rmult).
Notation scatR := (scatter R 0 Rplus).
Notation gathR := (gather R 0).

(* ---- elementwise kernels on two operands of one shape s: ab_fw s s s reads a[d], b[d] ---- *)
Definition ew2 (s : tshape) (f : R -> R -> R) (a b : list R) : list R := ab_eval R 0 f (ab_fw s s s) a b.
Lemma ew2_spec s f a b : (0 < tbatch s)%nat ->
  ew2 s f a b = map (fun d => f (nth d a 0) (nth d b 0)) (seq 0 (tsize s)).
Proof.
  intro HB. unfold ew2, ab_eval. rewrite (ab_fw_bprog s s s (tvolume s) (tbatch s) eq_refl eq_refl).
  pose proof (bprog_sequential (tbatch s) (tvolume s) (fun b i => (bsel s b * tvolume s + i)%nat) (fun b i => (bsel s b * tvolume s + i)%nat)) as Hs.
  unfold sequential in Hs. unfold tsize. rewrite <- Hs, map_map. apply map_ext_in. intros [d [ia ib]] Hin.
  apply bprog_In in Hin. destruct Hin as (b0 & i & Hb & Hi & -> & -> & ->). cbn [fst snd]. rewrite (bsel_full s b0 Hb). reflexivity.
Qed.
Lemma ew2_length s f a b : (0 < tbatch s)%nat -> length (ew2 s f a b) = tsize s.
Proof. intro H. rewrite ew2_spec by exact H. rewrite map_length, seq_length. reflexivity. Qed.
Lemma ew2_nth s f a b d : (0 < tbatch s)%nat -> (d < tsize s)%nat -> nth d (ew2 s f a b) 0 = f (nth d a 0) (nth d b 0).
Proof.
  intros H Hd. rewrite ew2_spec by exact H.
  rewrite (nth_indep _ 0 (f (nth 0 a 0) (nth 0 b 0))) by (rewrite map_length, seq_length; exact Hd).
  rewrite (map_nth (fun d => f (nth d a 0) (nth d b 0))), seq_nth by exact Hd. reflexivity.
Qed.

(* <u (.) w, v> = <u, w (.) v> for vectors of one length, (.) = elementwise product *)
Lemma dot_seq (a b : list R) n : length a = n -> length b = n ->
  dotR a b = ProofsBilinear.sum_list R 0 Rplus (map (fun d => nth d a 0 * nth d b 0) (seq 0 n)).
Proof.
  intros Ha Hb. rewrite (map_nth_seq' a 0) at 1. rewrite (map_nth_seq' b 0) at 1. rewrite Ha, Hb.
  assert (G : forall (f g : nat -> R) l, dotR (map f l) (map g l) = ProofsBilinear.sum_list R 0 Rplus (map (fun d => f d * g d) l)).
  { induction l as [|x l IH]; cbn [map OpFamily.dot sum_list fold_right]; [reflexivity|]. rewrite IH. reflexivity. }
  apply G.
Qed.

(* ---- the reduction along an axis, group by group ---- *)
Lemma filter_block {A} (blk : nat * list nat -> list (nat * A)) (p : red) (e : nat * list nat) :
  NoDup (map fst p) -> In e p -> (forall e' x, In x (blk e') -> fst x = fst e') ->
  filter (fun x : nat * A => (fst x =? fst e)%nat) (flat_map blk p) = blk e.
Proof.
  intros Hnd Hin Hblk. induction p as [|a p IH]; [destruct Hin|].
  cbn [flat_map map] in *. inversion Hnd as [|? ? Hna Hnd']; subst. rewrite filter_app.
  destruct Hin as [->|Hin].
  - rewrite (filter_all _ (blk e)) by (intros x Hx; apply Nat.eqb_eq; apply (Hblk e x Hx)).
    rewrite (filter_none _ (flat_map blk p)); [apply app_nil_r|].
    intros x Hx. apply in_flat_map in Hx. destruct Hx as (e' & He' & Hx). apply Nat.eqb_neq. rewrite (Hblk e' x Hx).
    intro E. apply Hna. rewrite <- E. apply in_map. exact He'.
  - rewrite (filter_none _ (blk a)); [apply IH; assumption|].
    intros x Hx. apply Nat.eqb_neq. rewrite (Hblk a x Hx). intro E. apply Hna. rewrite E. apply in_map. exact Hin.
Qed.
Lemma scatter_red_acc (p : red) n (u : list R) (e : nat * list nat) : sequential p n -> In e p ->
  nth (fst e) (scatR (red_acc p) u (zerosR n)) 0 = fold_left Rplus (map (fun s => nth s u 0) (snd e)) 0.
Proof.
  intros Hseq Hin. rewrite scatter_incr.
  assert (Hb : Forall (fun x : nat * R => (fst x < length (zerosR n))%nat) (map (fun x : nat * nat => (fst x, nth (snd x) u 0)) (red_acc p))).
  { rewrite Forall_map, repeat_length. cbn [fst]. apply Forall_forall. intros [d s] Hx. unfold red_acc in Hx.
    apply in_flat_map in Hx. destruct Hx as (e' & He' & Hx). apply in_map_iff in Hx. destruct Hx as (s' & E & _). injection E as <- <-.
    cbn [fst]. apply (sequential_lt _ _ _ Hseq He'). }
  rewrite (nth_incr_run R 0 Rplus _ _ (fst e) Hb). unfold cell.
  assert (Hz : nth (fst e) (zerosR n) 0 = 0) by (clear; generalize (fst e); induction n as [|n IH]; intros [|i]; cbn; auto).
  rewrite Hz. f_equal. unfold red_acc. rewrite ProofsBilinear.map_flat_map.
  rewrite (filter_block (fun e' : nat * list nat => map (fun x : nat * nat => (fst x, nth (snd x) u 0)) (map (fun s => (fst e', s)) (snd e'))) p e).
  - rewrite !map_map. reflexivity.
  - unfold sequential in Hseq. rewrite Hseq. apply seq_NoDup.
  - exact Hin.
  - intros e' x Hx. rewrite map_map in Hx. apply in_map_iff in Hx. destruct Hx as (s & <- & _). reflexivity.
Qed.

(* ================================================================== LogSumExp *)
Definition lse_vals (sx sy : tshape) (dim : nat) (x : list R) : list R :=
  map (fun e : nat * list nat => lse_fold (gvals x (snd e))) (axis_red sx sy dim).
Definition bcast (sx sy : tshape) (dim : nat) (v : list R) : list R :=      (* broadcast(v, dim, x.shape()[dim]) *)
  gathR (broadcast_fw sy sx dim (tget sx dim)) (tsize sx) v.
Definition axis_sum (sx sy : tshape) (dim : nat) (u : list R) : list R :=   (* sum_fw(u, dim) *)
  scatR (red_acc (axis_red sx sy dim)) u (zerosR (tsize sy)).
(* exp(x - broadcast(y)) *)
Definition lse_w (sx sy : tshape) (dim : nat) (x y : list R) : list R :=
  un_eval R 0 fw_exp (tsize sx) (ew2 sx fw_subtract x (bcast sx sy dim y)).

Definition lse_desc (sx sy : tshape) (dim : nat) : @opdesc R :=
  {| d_args := [sx]; d_rets := [sy]; d_ok := sum_ok sx sy dim; d_nop := false;
     d_fw := fun xs => [lse_vals sx sy dim (hd [] xs)];
     d_jvp := fun xs dxs =>
       let x := hd [] xs in
       [axis_sum sx sy dim (ew2 sx fw_multiply (lse_w sx sy dim x (lse_vals sx sy dim x)) (hd [] dxs))];
     d_bw := fun xs ys gys =>
       [scatR (inplace_add sx sx)
              (ew2 sx fw_multiply (lse_w sx sy dim (hd [] xs) (hd [] ys)) (bcast sx sy dim (hd [] gys)))
              (zerosR (tsize sx))] |}.

Lemma bc_sum_adj sx sy dim : sum_ok sx sy dim = true -> adjR (tsize sx) (tsize sy) (bcast sx sy dim) (axis_sum sx sy dim).
Proof. intro H. apply (pair_adj 0 1 Rplus Rmult Rminus Ropp RTheory). apply (sum_ok_pair sx sy dim H). Qed.

Lemma un_eval_length f n (v : list R) : length (un_eval R 0 f n v) = n.
Proof. unfold un_eval, identity_pairs, range. rewrite !map_length, seq_length. reflexivity. Qed.

(* <M (.) G, dx> with G = broadcast(gy) equals <gy, sum_axis(M (.) dx)> *)
Lemma hadamard_bc_adj sx sy dim (M gy dx : list R) : sum_ok sx sy dim = true -> (0 < tbatch sx)%nat ->
  length M = tsize sx -> length gy = tsize sy -> length dx = tsize sx ->
  dotR (ew2 sx fw_multiply M (bcast sx sy dim gy)) dx = dotR gy (axis_sum sx sy dim (ew2 sx fw_multiply M dx)).
Proof.
  intros Hok HB HM Hg Hd.
  destruct (bc_sum_adj sx sy dim Hok (ew2 sx fw_multiply M dx) gy (ew2_length _ _ _ _ HB) Hg) as (E & _ & LB).
  rewrite (dot_comm 0 1 Rplus Rmult Rminus Ropp RTheory gy), E.
  rewrite (dot_seq _ dx (tsize sx) (ew2_length _ _ _ _ HB) Hd), (dot_seq _ (bcast sx sy dim gy) (tsize sx) (ew2_length _ _ _ _ HB) LB).
  apply (sumR_ext 0 Rplus). intros d Hin. apply in_seq in Hin. rewrite !ew2_nth by (assumption || lia). unfold fw_multiply. ring.
Qed.

Lemma lse_LA sx sy dim : desc_LA 0 Rplus Rmult (lse_desc sx sy dim).
Proof.
  intros Hok xs dxs gys Hx Hdx Hgy. cbn [lse_desc d_args d_rets d_ok d_nop d_fw d_jvp d_bw] in *.
  apply F2_one in Hx. destruct Hx as (x & -> & Hx).
  apply F2_one in Hdx. destruct Hdx as (dx & -> & Hdx). apply F2_one in Hgy. destruct Hgy as (gy & -> & Hgy).
  cbn [hd]. unfold sized in *.
  assert (HB : (0 < tbatch sx)%nat) by (unfold sum_ok in Hok; bsplit; assumption).
  set (W := lse_w sx sy dim x (lse_vals sx sy dim x)).
  assert (HW : length W = tsize sx) by apply un_eval_length.
  set (M := ew2 sx fw_multiply W (bcast sx sy dim gy)).
  destruct (plus_eq_adj 0 1 Rplus Rmult Rminus Ropp RTheory sx HB M dx (ew2_length _ _ _ _ HB) Hdx) as (E & LA & _).
  cbv zeta. split; [|split].
  - cbn [OpFamily.dots]. fold (plus_eq 0 Rplus sx M). rewrite E. unfold M. rewrite (hadamard_bc_adj sx sy dim W gy dx Hok HB HW Hgy Hdx). reflexivity.
  - intros _. constructor; [exact LA|constructor].
  - constructor; [|constructor]. unfold sized, axis_sum.
    destruct (sum_ok_pair sx sy dim Hok) as (_ & _ & Hb).
    rewrite (scatter_length 0 Rplus _ _ (zerosR (tsize sy)) (tsize sx)); rewrite repeat_length; [reflexivity|exact Hb].
Qed.

(* ================================================================== SoftmaxCrossEntropy (dense) *)
Definition log_softmax_v (sx sy : tshape) (dim : nat) (x : list R) : list R :=    (* x - broadcast(logsumexp(x)) *)
  ew2 sx fw_subtract x (bcast sx sy dim (lse_vals sx sy dim x)).
Definition softmax_v (sx sy : tshape) (dim : nat) (x : list R) : list R := un_eval R 0 fw_exp (tsize sx) (log_softmax_v sx sy dim x).

Definition sce_desc (sx sy : tshape) (dim : nat) : @opdesc R :=
  {| d_args := [sx; sx]; d_rets := [sy]; d_ok := sum_ok sx sy dim; d_nop := false;
     (* -sum(multiply_fw(t, log_softmax(x)), dim) *)
     d_fw := fun xs => [un_eval R 0 fw_negate (tsize sy)
                          (axis_sum sx sy dim (ew2 sx fw_multiply (nth 1 xs []) (log_softmax_v sx sy dim (nth 0 xs []))))];
     d_jvp := fun xs dxs =>
       let x := nth 0 xs [] in let t := nth 1 xs [] in
       let lsm := log_softmax_v sx sy dim x in
       [axis_sum sx sy dim
          (ew2 sx fw_subtract (ew2 sx fw_multiply (ew2 sx fw_subtract (softmax_v sx sy dim x) t) (nth 0 dxs []))
                              (ew2 sx fw_multiply lsm (nth 1 dxs [])))];
     d_bw := fun xs ys gys =>
       let x := nth 0 xs [] in let t := nth 1 xs [] in
       let lsm := log_softmax_v sx sy dim x in let G := bcast sx sy dim (nth 0 gys []) in
       [scatR (inplace_add sx sx) (ew2 sx fw_multiply (ew2 sx fw_subtract (un_eval R 0 fw_exp (tsize sx) lsm) t) G) (zerosR (tsize sx));
        scatR (inplace_add sx sx) (vneg Ropp (ew2 sx fw_multiply lsm G)) (zerosR (tsize sx))] |}.

Lemma plus_eq_dot s (M dx : list R) : (0 < tbatch s)%nat -> length M = tsize s -> length dx = tsize s ->
  dotR (scatR (inplace_add s s) M (zerosR (tsize s))) dx = dotR M dx /\ length (scatR (inplace_add s s) M (zerosR (tsize s))) = tsize s.
Proof. intros HB HM Hd. destruct (plus_eq_adj 0 1 Rplus Rmult Rminus Ropp RTheory s HB M dx HM Hd) as (E & L & _). split; assumption. Qed.

Lemma sce_LA sx sy dim : desc_LA 0 Rplus Rmult (sce_desc sx sy dim).
Proof.
  intros Hok xs dxs gys Hx Hdx Hgy. cbn [sce_desc d_args d_rets d_ok d_nop d_fw d_jvp d_bw] in *.
  apply F2_two in Hx. destruct Hx as (x & t & -> & Hx & Ht).
  apply F2_two in Hdx. destruct Hdx as (dx & dt & -> & Hdx & Hdt). apply F2_one in Hgy. destruct Hgy as (gy & -> & Hgy).
  cbn [nth]. unfold sized in *.
  assert (HB : (0 < tbatch sx)%nat) by (unfold sum_ok in Hok; bsplit; assumption).
  set (lsm := log_softmax_v sx sy dim x). set (E := un_eval R 0 fw_exp (tsize sx) lsm). set (G := bcast sx sy dim gy).
  set (M0 := ew2 sx fw_multiply (ew2 sx fw_subtract E t) G). set (M1 := ew2 sx fw_multiply lsm G).
  set (U := ew2 sx fw_subtract (ew2 sx fw_multiply (ew2 sx fw_subtract (softmax_v sx sy dim x) t) dx) (ew2 sx fw_multiply lsm dt)).
  destruct (plus_eq_dot sx M0 dx HB (ew2_length _ _ _ _ HB) Hdx) as (E0 & L0).
  destruct (plus_eq_dot sx (vneg Ropp M1) dt HB) as (E1 & L1); [unfold vneg; rewrite map_length; apply (ew2_length _ _ _ _ HB)|exact Hdt|].
  destruct (bc_sum_adj sx sy dim Hok U gy (ew2_length _ _ _ _ HB) Hgy) as (EU & LS & LG). fold G in EU, LG.
  cbv zeta. split; [|split].
  - cbn [OpFamily.dots]. rewrite E0, E1, (dot_vneg_l 0 1 Rplus Rmult Rminus Ropp RTheory).
    rewrite (dot_comm 0 1 Rplus Rmult Rminus Ropp RTheory gy), EU.
    rewrite (dot_seq M0 dx (tsize sx) (ew2_length _ _ _ _ HB) Hdx), (dot_seq M1 dt (tsize sx) (ew2_length _ _ _ _ HB) Hdt), (dot_seq U G (tsize sx) (ew2_length _ _ _ _ HB) LG).
    rewrite <- (sumR_opp 0 1 Rplus Rmult Rminus Ropp RTheory).
    transitivity (ProofsBilinear.sum_list R 0 Rplus (map (fun d => nth d M0 0 * nth d dx 0 + - (nth d M1 0 * nth d dt 0)) (seq 0 (tsize sx))) + 0).
    { rewrite (sumR_add 0 1 Rplus Rmult Rminus Ropp RTheory). ring. }
    f_equal. apply (sumR_ext 0 Rplus). intros d Hin. apply in_seq in Hin.
    unfold M0, M1, U, softmax_v. fold lsm E. rewrite !ew2_nth by (assumption || lia). unfold fw_multiply, fw_subtract. ring.
  - intros _. constructor; [exact L0|constructor; [exact L1|constructor]].
  - constructor; [|constructor]. exact LS.
Qed.

(* ================================================================== SparseSoftmaxCrossEntropy *)
(* sp = the shape of pick(x, ids, dim); here also the shape of the reduction along dim *)
Definition ssce_ok (sx sp : tshape) (ids : list nat) (dim : nat) : bool :=
  sum_ok sx sp dim && pick_ok sx sp ids dim && (0 <? tbatch sp)%nat.
Definition ssce_desc (sx sp : tshape) (ids : list nat) (dim : nat) : @opdesc R :=
  {| d_args := [sx]; d_rets := [sp]; d_ok := ssce_ok sx sp ids dim; d_nop := false;
     (* pick(-log_softmax(x), ids, dim) *)
     d_fw := fun xs => [gathR (pick_fw sx sp ids dim) (tsize sp)
                          (un_eval R 0 fw_negate (tsize sx) (log_softmax_v sx sp dim (hd [] xs)))];
     d_jvp := fun xs dxs =>
       [ew2 sp fw_subtract (axis_sum sx sp dim (ew2 sx fw_multiply (softmax_v sx sp dim (hd [] xs)) (hd [] dxs)))
                           (gathR (pick_fw sx sp ids dim) (tsize sp) (hd [] dxs))];
     (* gx += softmax(x) * broadcast(gy);  pick_bw(-gy, ids, dim, gx) *)
     d_bw := fun xs ys gys =>
       [scatR (pick_bw sp sx ids dim) (un_eval R 0 fw_negate (tsize sp) (hd [] gys))
              (scatR (inplace_add sx sx) (ew2 sx fw_multiply (softmax_v sx sp dim (hd [] xs)) (bcast sx sp dim (hd [] gys)))
                     (zerosR (tsize sx)))] |}.

Lemma ssce_LA sx sp ids dim : desc_LA 0 Rplus Rmult (ssce_desc sx sp ids dim).
Proof.
  intros Hok xs dxs gys Hx Hdx Hgy. cbn [ssce_desc d_args d_rets d_ok d_nop d_fw d_jvp d_bw] in *.
  unfold ssce_ok in Hok. apply andb_prop in Hok. destruct Hok as [Hok HBp]. apply andb_prop in Hok. destruct Hok as [Hsum Hpick].
  apply Nat.ltb_lt in HBp.
  apply F2_one in Hx. destruct Hx as (x & -> & Hx).
  apply F2_one in Hdx. destruct Hdx as (dx & -> & Hdx). apply F2_one in Hgy. destruct Hgy as (gy & -> & Hgy).
  cbn [hd]. unfold sized in *.
  assert (HB : (0 < tbatch sx)%nat) by (unfold sum_ok in Hsum; bsplit; assumption).
  set (SM := softmax_v sx sp dim x). assert (HSM : length SM = tsize sx) by apply un_eval_length.
  set (A := scatR (inplace_add sx sx) (ew2 sx fw_multiply SM (bcast sx sp dim gy)) (zerosR (tsize sx))).
  destruct (plus_eq_dot sx (ew2 sx fw_multiply SM (bcast sx sp dim gy)) dx HB (ew2_length _ _ _ _ HB) Hdx) as (EA & LA). fold A in EA, LA.
  pose proof (pick_ok_pair sx sp ids dim Hpick) as Hp.
  set (ng := un_eval R 0 fw_negate (tsize sp) gy). assert (Hng : length ng = tsize sp) by apply un_eval_length.
  pose proof (adjoint_pair_scatter R 0 Rplus Rmult (r_add_comm 0 1 Rplus Rmult Rminus Ropp RTheory) (r_add_assoc 0 1 Rplus Rmult Rminus Ropp RTheory)
                (r_add_0_l 0 1 Rplus Rmult Rminus Ropp RTheory) (r_distr_r 0 1 Rplus Rmult Rminus Ropp RTheory)
                _ _ _ _ ng A dx Hp LA Hng Hdx) as HP.
  change (Index.dot R 0 Rplus Rmult) with (OpFamily.dot 0 Rplus Rmult) in HP.
  set (PK := gathR (pick_fw sx sp ids dim) (tsize sp) dx) in *.
  assert (LPK : length PK = tsize sp) by apply (gather_length 0).
  set (S1 := axis_sum sx sp dim (ew2 sx fw_multiply SM dx)).
  assert (LS1 : length S1 = tsize sp).
  { unfold S1, axis_sum. destruct (sum_ok_pair sx sp dim Hsum) as (_ & _ & Hb).
    rewrite (scatter_length 0 Rplus _ _ (zerosR (tsize sp)) (tsize sx)); rewrite repeat_length; [reflexivity|exact Hb]. }
  cbv zeta. split; [|split].
  - cbn [OpFamily.dots]. rewrite HP, EA, (hadamard_bc_adj sx sp dim SM gy dx Hsum HB HSM Hgy Hdx). fold S1.
    rewrite (dot_seq gy S1 _ Hgy LS1), (dot_seq ng PK _ Hng LPK), (dot_seq gy _ _ Hgy (ew2_length sp fw_subtract S1 PK HBp)).
    transitivity (ProofsBilinear.sum_list R 0 Rplus (map (fun d => nth d gy 0 * nth d S1 0 + nth d ng 0 * nth d PK 0) (seq 0 (tsize sp))) + 0).
    { rewrite (sumR_add 0 1 Rplus Rmult Rminus Ropp RTheory). ring. }
    f_equal. apply (sumR_ext 0 Rplus). intros d Hin. apply in_seq in Hin.
    rewrite ew2_nth by (assumption || lia). unfold ng. rewrite (un_eval_nth 0 fw_negate (tsize sp) gy d) by lia.
    unfold fw_negate, fw_subtract. ring.
  - intros _. constructor; [|constructor]. unfold sized.
    destruct Hp as (_ & _ & Hb). rewrite (scatter_length 0 Rplus _ ng A (tsize sp)); rewrite LA; [reflexivity|exact Hb].
  - constructor; [|constructor]. apply (ew2_length sp fw_subtract S1 PK HBp).
Qed.

(* ================================================================== element-level readings (used by Tensor/AdjDeriv.v) *)
Definition gsum (h : nat -> R) (g : list nat) : R := fold_right (fun s acc => h s + acc) 0 g.
Lemma fold_left_gsum (h : nat -> R) g : fold_left Rplus (map h g) 0 = gsum h g.
Proof.
  rewrite (fold_left_sum R 0 Rplus (r_add_comm 0 1 Rplus Rmult Rminus Ropp RTheory) (r_add_assoc 0 1 Rplus Rmult Rminus Ropp RTheory)
             (r_add_0_l 0 1 Rplus Rmult Rminus Ropp RTheory)).
  rewrite Rplus_0_l. unfold gsum. induction g as [|s g IH]; cbn [map ProofsBilinear.sum_list fold_right]; [reflexivity|].
  fold (ProofsBilinear.sum_list R 0 Rplus (map h g)). rewrite IH. reflexivity.
Qed.
Lemma gsum_ext h h' g : (forall s, In s g -> h s = h' s) -> gsum h g = gsum h' g.
Proof. induction g as [|s g IH]; intro H; cbn [gsum fold_right]; [reflexivity|]. fold (gsum h g) (gsum h' g). rewrite (H s (or_introl eq_refl)), IH; [reflexivity|]. intros; apply H; right; assumption. Qed.

Section AxisFacts.
  Variables (sx sy : tshape) (dim : nat).
  Hypothesis Hok : sum_ok sx sy dim = true.
  Let p := axis_red sx sy dim.

  Lemma axis_seq : sequential p (tsize sy).
  Proof. apply (sum_ok_red sx sy dim Hok). Qed.
  Lemma axis_nth_fst i : (i < length p)%nat -> fst (nth i p (0%nat, [])) = i.
  Proof.
    intro Hi. pose proof axis_seq as Hs. unfold sequential in Hs.
    rewrite <- (map_nth fst p (0%nat, []) i). cbn [fst]. rewrite Hs. apply seq_nth. rewrite <- (sequential_length p _ axis_seq). exact Hi.
  Qed.
  Lemma axis_group_ok e : In e p -> snd e <> [] /\ forall s, In s (snd e) -> (s < tsize sx)%nat.
  Proof.
    intro He. split.
    - unfold p, axis_red in He. apply in_map_iff in He. destruct He as (i & <- & _). cbn [snd].
      assert (Hn : (0 < tget sx dim)%nat) by (pose proof Hok as H; unfold sum_ok in H; bsplit; assumption).
      unfold range. destruct (tget sx dim); [lia|]. cbn [seq map]. discriminate.
    - destruct (sum_ok_red sx sy dim Hok) as (_ & Hb). unfold red_in_bounds in Hb. rewrite Forall_forall in Hb.
      specialize (Hb e He). rewrite Forall_forall in Hb. exact Hb.
  Qed.
  Lemma axis_sum_nth (u : list R) e : In e p -> nth (fst e) (axis_sum sx sy dim u) 0 = gsum (fun s => nth s u 0) (snd e).
  Proof. intro He. unfold axis_sum. fold p. rewrite (scatter_red_acc p (tsize sy) u e axis_seq He). apply fold_left_gsum. Qed.
  Lemma bcast_is_transposed : broadcast_fw sy sx dim (tget sx dim) = red_transposed p.
  Proof.
    pose proof Hok as H. unfold sum_ok in H. bsplit. apply (broadcast_is_transposed_sum sx sy dim (tlower sx dim) (tget sx dim) (tsize sy / tlower sx dim)); auto.
  Qed.
  Lemma bcast_nth (v : list R) e s : In e p -> In s (snd e) -> nth s (bcast sx sy dim v) 0 = nth (fst e) v 0.
  Proof.
    intros He Hs. unfold bcast.
    destruct (sum_ok_pair sx sy dim Hok) as (_ & Hcov & _).
    apply (gather_nth 0 _ _ v s 0%nat (fst e) Hcov). rewrite bcast_is_transposed. unfold red_transposed.
    apply in_flat_map. exists e. split; [exact He|]. apply in_map_iff. exists s. split; [reflexivity|exact Hs].
  Qed.
  Lemma lse_vals_nth (x : list R) e : In e p -> nth (fst e) (lse_vals sx sy dim x) 0 = lse_fold (gvals x (snd e)).
  Proof.
    intro He. unfold lse_vals. fold p.
    assert (Hseq' : map fst p = seq 0 (length p)) by (rewrite (sequential_length p _ axis_seq); exact axis_seq).
    pose proof (seq_nth_map (fun e : nat * list nat => lse_fold (gvals x (snd e))) 0 p 0%nat Hseq' e He) as E.
    rewrite Nat.sub_0_r in E. exact E.
  Qed.
  (* log_softmax and softmax, element s of the group e *)
  Lemma log_softmax_nth (x : list R) e s : In e p -> In s (snd e) ->
    nth s (log_softmax_v sx sy dim x) 0 = nth s x 0 - lse_fold (gvals x (snd e)).
  Proof.
    intros He Hs. assert (HB : (0 < tbatch sx)%nat) by (pose proof Hok as H; unfold sum_ok in H; bsplit; assumption).
    unfold log_softmax_v. rewrite ew2_nth by (try exact HB; apply (proj2 (axis_group_ok e He) s Hs)).
    rewrite (bcast_nth _ e s He Hs), (lse_vals_nth x e He). reflexivity.
  Qed.
  Lemma softmax_nth (x : list R) e s : In e p -> In s (snd e) ->
    nth s (softmax_v sx sy dim x) 0 = exp (nth s x 0 - lse_fold (gvals x (snd e))).
  Proof.
    intros He Hs. unfold softmax_v. rewrite (un_eval_nth 0 fw_exp) by (apply (proj2 (axis_group_ok e He) s Hs)).
    rewrite (log_softmax_nth x e s He Hs). reflexivity.
  Qed.
End AxisFacts.
