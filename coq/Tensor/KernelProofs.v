(* Per-kernel theorems: the index program of each modelled kernel, under the relation between
   its operand shapes that the Device front end establishes, (a) writes every output element
   exactly once, (b) stays inside every buffer, (c) is the documented coordinate map. *)
From Coq Require Import List Arith Lia Permutation.
From PV Require Import Tensor.Kernels Tensor.Index.
Import ListNotations.

(* ---- shape facts ---- *)
Definition prodn (l : list nat) : nat := fold_right Nat.mul 1 l.
Definition tupper (s : tshape) (d : nat) : nat := prodn (skipn (S d) (tdims s)).
Definition twf (s : tshape) : Prop := Forall (fun d => 0 < d) (tdims s) /\ 0 < tbatch s.

Lemma prodn_nil : prodn [] = 1.  Proof. reflexivity. Qed.
Lemma prodn_cons x l : prodn (x :: l) = x * prodn l.  Proof. reflexivity. Qed.
Lemma tvolume_eq s : tvolume s = prodn (tdims s).  Proof. reflexivity. Qed.
Lemma tlower_eq s d : tlower s d = prodn (firstn d (tdims s)).  Proof. reflexivity. Qed.
Global Opaque prodn.

Lemma prodn_app a b : prodn (a ++ b) = prodn a * prodn b.
Proof. induction a as [|x a IH]; cbn [app]; rewrite ?prodn_nil, ?prodn_cons; [lia|]. rewrite IH. lia. Qed.

Lemma prodn_pos l : Forall (fun d => 0 < d) l -> 0 < prodn l.
Proof. induction 1 as [|x l Hx Hl IH]; rewrite ?prodn_nil, ?prodn_cons; [lia|nia]. Qed.

(* volume = lower * axis * upper, for every axis (also beyond the depth) *)
Lemma vol_split s d : tvolume s = tlower s d * (tget s d * tupper s d).
Proof.
  rewrite tvolume_eq, tlower_eq. unfold tget, tupper.
  generalize (tdims s) as l. intro l. revert d. induction l as [|x l IH]; intro d.
  - destruct d; cbn [firstn skipn nth]; rewrite ?prodn_nil; lia.
  - destruct d as [|d].
    + cbn [firstn skipn nth]. rewrite ?prodn_nil, ?prodn_cons. lia.
    + change (skipn (S (S d)) (x :: l)) with (skipn (S d) l).
      change (firstn (S d) (x :: l)) with (x :: firstn d l).
      change (nth (S d) (x :: l) 1) with (nth d l 1).
      rewrite !prodn_cons, (IH d). lia.
Qed.

Lemma tlower_pos s d : twf s -> 0 < tlower s d.
Proof.
  intros [H _]. rewrite tlower_eq. apply prodn_pos.
  rewrite <- (firstn_skipn d (tdims s)) in H. apply Forall_app in H. tauto.
Qed.

(* ================================================================== slice_fw *)
Section Slice.
  Variables (sx sy : tshape) (dim off base nx ny R : nat).
  Hypothesis Hbase : tlower sy dim = base.
  Hypothesis Hny : tget sy dim = ny.
  Hypothesis Hnx : tget sx dim = nx.
  Hypothesis Hsy : tsize sy = base * ny * R.
  Hypothesis Hsx : tsize sx = base * nx * R.
  Hypothesis Hoff : off + ny <= nx.
  Hypothesis Hb0 : 0 < base.
  Hypothesis Hn0 : 0 < ny.

  Lemma slice_repeat : tsize sy / (base * ny) = R.
  Proof. rewrite Hsy. rewrite Nat.mul_comm. apply Nat.div_mul. nia. Qed.

  (* every output element is written exactly once, in increasing order *)
  Theorem slice_fw_sequential : sequential (slice_fw sx sy dim off) (tsize sy).
  Proof.
    unfold sequential, slice_fw. rewrite Hbase, Hny, Hnx, slice_repeat.
    rewrite (seq_nest R (base * ny)). rewrite Hsy. f_equal. lia.
  Qed.

  (* the documented coordinate map: y[low, k, high] = x[low, k + off, high] *)
  Theorem slice_fw_spec d k s :
    In (d, (k, s)) (slice_fw sx sy dim off) <->
    exists low j high, low < base /\ j < ny /\ high < R /\ k = 0 /\
      d = flat base ny low j high /\ s = flat base nx low (j + off) high.
  Proof.
    unfold slice_fw. rewrite Hbase, Hny, Hnx, slice_repeat. rewrite In_flat_map2. split.
    - intros [i [Hi H]]. apply In_map_range in H. destruct H as [j [Hj E]]. injection E as Ed Ek Es; subst d k s.
      exists (j mod base), (j / base), i.
      assert (Hm : j mod base < base) by (apply Nat.mod_upper_bound; lia).
      assert (Hq : j / base < ny) by (apply Nat.div_lt_upper_bound; lia).
      pose proof (Nat.div_mod j base ltac:(lia)) as Ej.
      unfold flat. repeat split; try assumption; nia.
    - intros [low [j [high [Hl [Hj [Hh [-> [-> ->]]]]]]]]. exists high. split; [exact Hh|].
      apply In_map_range. exists (low + base * j). split; [nia|]. unfold flat. f_equal; [nia|]. f_equal. nia.
  Qed.

  (* no read outside x *)
  Theorem slice_fw_in_bounds : mov_in_bounds (slice_fw sx sy dim off) [tsize sx].
  Proof.
    unfold mov_in_bounds. apply Forall_forall. intros [d [k s]] Hin. cbn [fst snd].
    apply slice_fw_spec in Hin. destruct Hin as [low [j [high [Hl [Hj [Hh [-> [_ ->]]]]]]]].
    cbn [nth]. rewrite Hsx. apply flat_lt; lia.
  Qed.
End Slice.
