(* C01: a CONCRETE operator family for Graph/OpFamily.v whose operators are the index programs
   of the Naive kernels (Tensor/Kernels.v), and the end-to-end theorem: Graph::backward over
   this family adds to the parameter gradients exactly the adjoint of the forward tangent
   (Graph/ADProof.v with its LocalAdjoint hypothesis DISCHARGED by the kernel theorems of
   Tensor/Proofs*.v).  Values are flat vectors over an arbitrary commutative ring, shapes are
   [tshape], size = tsize.  Every operator carries its operand (and result) shapes and
   attributes; [f_shape] accepts exactly those operand shapes when the boolean guard (the
   numeric relation the Device front end / shape_ops establishes, i.e. the hypotheses of the
   kernel theorems) holds.  [f_bw] is the BACKWARD kernel program scattered into zeros (the
   increment the graph adds to the argument gradient), never the transpose by definition.

   core_family - C++ operators covered (operator_impl.cc FORWARD/BACKWARD + devices/naive/ops):
     Parameter; Input (and the other BACKWARD_NOP leaves: Constant, Identity, Random* as fixed
     values); StopGradient (BACKWARD_NOP, zero tangent)
     Copy / Positive           gx += gy                                  (inplace_add)
     Negative                  negate_fw / gx -= gy   (inplace_subtract_impl: the loop nest of
                               inplace_add_impl with -=)
     AddConst, SubtractConstR, SubtractConstL, MultiplyConst   CPUDEV_FW_X_CONST / CPUDEV_BW_X_CONST
     Add, Subtract, Multiply   ab_fw / ab_bw with B-vs-1 minibatch broadcasting on each operand and
                               folding of the B samples into a batch-1 operand; product rule
     Slice                     slice_fw / slice_bw
     Pick                      pick_fw / pick_bw (ids shared or per sample, x shared or per sample)
     Sum                       sum_fw (axis_red) / gx += broadcast(gy)   (broadcast_fw + inplace_add)
     Broadcast                 broadcast_fw / gx += sum(gy)              (axis_red + inplace_add)
     Flip                      flip_fw / flip_bw (the same pair program)
     Transpose                 transpose_fw / transpose_bw
     PermuteDims               permute_dims_fw / permute_dims_bw (any permutation)
     Reshape, Flatten          identity movement / gx += gy.reshape      (inplace_add)
     Concat                    concat_fw / per operand gx_k += slice(gy) (slice_fw + inplace_add,
                               folding into a batch-1 operand); the forward block of operand k is
                               literally the slice_bw index program (concat_block)
     Split                     multi-output: n slices / n times slice_bw into the one gx
     BatchSlice, BatchPick     batch_slice_fw/bw, batch_pick_fw/bw
     BatchConcat               batch_concat_fw / per operand gx_k += batch::slice(gy)
     BatchSplit                multi-output: n batch slices / n times batch_slice_bw
     BatchSum                  batch_sum_fw / gx += gy with gy of batch 1 (inplace_add broadcasting)
     MatrixMultiply            matmul_fw (8x8x8 blocked) / ga += matmul_fw(gy, transpose_fw(b)),
                               gb += matmul_fw(transpose_fw(a), gy)  (Tensor/AdjMatmul.v)
     Convolution2D             conv2d_fw / conv2d_bw over the same triples
     AddScalar, SubtractScalarR, SubtractScalarL, MultiplyScalar   scalar_fw / gx0 += or -= gy (times x1),
                               gx1 += or -= sum(gy (times x0) .flatten(), 0), folding into batch-1 operands
                               (Tensor/AdjScalar.v)
   NOT covered (they are not polynomial over a commutative ring, or need kernels that
   Tensor/Kernels.v does not model; their backward rules stay at the kernel / scalar level of
   Properties_C01_{scalar,bilinear,perm}.v and at correspondence level):
     the elementwise functions with analytic derivatives (Abs Sqrt Exp Log Tanh Sigmoid Softplus
     Sin Cos Tan ReLU LReLU PReLU ELU PowN, the Pow, Divide and DivideConst families), Max / Min / MaxPooling2D
     (argmax selection), LogSumExp, SoftmaxCrossEntropy, SparseSoftmaxCrossEntropy, and the
     Divide / Pow ...Scalar variants.  The elementwise ones are added over the reals in
     Tensor/GraphInstR.v. *)
From Coq Require Import List NArith Bool Arith Lia Ring Permutation.
From PV Require Import Graph.OpFamily Graph.Tape Graph.Lazy Graph.Backward Graph.TapeLemmas Graph.LazyProofs
  Graph.BackwardProofs Graph.ADProof Tensor.Kernels Tensor.Index Tensor.KernelProofs
  Tensor.ProofsGather Tensor.ProofsPerm Tensor.ProofsBilinear Tensor.AdjCore Tensor.AdjMatmul Tensor.AdjScalar.
Import ListNotations.

(* ================================================================== guards (scalar-free) *)
Definition slice_ok (sx sy : tshape) (dim off : nat) : bool :=
  let base := tlower sx dim in let nx := tget sx dim in let ny := tget sy dim in
  let R := tvolume sx / (base * nx) in
  (tlower sy dim =? base) && (tvolume sx =? base * nx * R) && (tvolume sy =? base * ny * R) &&
  (tbatch sy =? tbatch sx) && (0 <? tbatch sx) && (off + ny <=? nx) && (0 <? base) && (0 <? ny).
Lemma slice_ok_pair sx sy dim off : slice_ok sx sy dim off = true ->
  adjoint_pair (slice_fw sx sy dim off) (slice_bw sy sx dim off) (tsize sy) (tsize sx).
Proof.
  unfold slice_ok. intro H. bsplit.
  eapply (slice_pair_same sx sy dim off _ _ _ _ (tbatch sx) (tbatch sx)); try reflexivity; try eassumption; auto.
Qed.

Definition pick_ok (sx sy : tshape) (ids : list nat) (dim : nat) : bool :=
  let base := tlower sy dim in let n := tget sx dim in let R := tvolume sy / base in let B := tbatch sy in
  (tvolume sy =? base * 1 * R) && (tvolume sx =? base * n * R) &&
  ((tbatch sx =? B) || (tbatch sx =? 1)) && ((length ids =? B) || (length ids =? 1)) &&
  forallb (fun i => i <? n) ids && (0 <? base).
Lemma pick_ok_pair sx sy ids dim : pick_ok sx sy ids dim = true ->
  adjoint_pair (pick_fw sx sy ids dim) (pick_bw sy sx ids dim) (tsize sy) (tsize sx).
Proof.
  unfold pick_ok. intro H. bsplit.
  match goal with H : forallb _ _ = true |- _ => rename H into Hids end. rewrite forallb_forall in Hids.
  eapply (pick_pair sx sy ids dim _ _ _ (tbatch sy) (tbatch sx)); try reflexivity; try eassumption.
  - apply orb_eqb; assumption.
  - apply orb_eqb; assumption.
  - intros b Hb. apply Nat.ltb_lt. apply Hids. apply nth_In. exact Hb.
Qed.

Definition batch_slice_ok (sx sy : tshape) (off : nat) : bool :=
  (tvolume sy =? tvolume sx) && (off + tbatch sy <=? tbatch sx) && (0 <? tvolume sx).
Lemma batch_slice_ok_pair sx sy off : batch_slice_ok sx sy off = true ->
  adjoint_pair (batch_slice_fw sx sy off) (batch_slice_bw sy sx off) (tsize sy) (tsize sx).
Proof.
  unfold batch_slice_ok. intro H. bsplit.
  eapply (batch_slice_pair sx sy off (tvolume sx) (tbatch sx) (tbatch sy)); try reflexivity; try eassumption.
Qed.

Definition batch_pick_ok (sx sy : tshape) (ids : list nat) : bool :=
  (tvolume sy =? tvolume sx) && (length ids =? tbatch sy) && forallb (fun i => i <? tbatch sx) ids.
Lemma batch_pick_ok_pair sx sy ids : batch_pick_ok sx sy ids = true ->
  adjoint_pair (batch_pick_fw sx sy ids) (batch_pick_bw sy sx ids) (tsize sy) (tsize sx).
Proof.
  unfold batch_pick_ok. intro H. bsplit.
  match goal with H : forallb _ _ = true |- _ => rename H into Hids end. rewrite forallb_forall in Hids.
  eapply (batch_pick_pair sx sy ids (tvolume sx) (tbatch sy) (tbatch sx)); try reflexivity; try eassumption.
  intros b Hb. apply Nat.ltb_lt. apply Hids. apply nth_In. lia.
Qed.

(* gx += t for t of gx's own shape (Tensor::operator+= -> inplace_add) *)
Lemma inplace_same_pair s : 0 < tbatch s ->
  adjoint_pair (identity_pairs (tsize s)) (inplace_add s s) (tsize s) (tsize s).
Proof.
  intro H. apply (inplace_add_pair_same s s (tvolume s) (tbatch s) (tbatch s)); auto.
Qed.

(* reshape / flatten: same element count per sample, same batch *)
Definition reshape_ok (sx sy : tshape) : bool :=
  (tvolume sy =? tvolume sx) && (tbatch sy =? tbatch sx) && (0 <? tbatch sx).
Lemma reshape_ok_size sx sy : reshape_ok sx sy = true -> tsize sy = tsize sx /\ 0 < tbatch sx.
Proof. unfold reshape_ok, tsize. intro H. bsplit. split; [congruence|assumption]. Qed.

Definition flip_ok (s : tshape) (dim : nat) : bool :=
  let skip := tlower s dim in let n := tget s dim in let R := tsize s / (skip * n) in
  (tsize s =? skip * n * R) && (0 <? skip) && (0 <? n).
Lemma flip_ok_pair s dim : flip_ok s dim = true ->
  adjoint_pair (acc_as_mov (flip_pairs s dim)) (flip_pairs s dim) (tsize s) (tsize s).
Proof.
  unfold flip_ok. intro H. bsplit. apply perm_pair.
  - eapply (flip_bw_transposed s dim _ _ _ eq_refl eq_refl); eassumption.
  - apply acc_as_mov_covers. eapply (flip_pairs_covers s dim _ _ _ eq_refl eq_refl); eassumption.
  - eapply (flip_pairs_in_bounds s dim _ _ _ eq_refl eq_refl); eassumption.
Qed.

Definition transpose_ok (sx sy : tshape) : bool :=
  let d1 := tget sx 0 in let d2 := tget sx 1 in let bs := tbatch sx in
  (tbatch sy =? bs) && (tsize sx =? d1 * d2 * bs) && (tsize sy =? d2 * d1 * bs) &&
  (tget sy 0 =? d2) && (tget sy 1 =? d1).
Lemma transpose_ok_pair sx sy : transpose_ok sx sy = true ->
  adjoint_pair (transpose_fw sx sy) (mov_as_acc (transpose_fw sy sx)) (tsize sy) (tsize sx).
Proof.
  unfold transpose_ok. intro H. bsplit.
  set (d1 := tget sx 0) in *. set (d2 := tget sx 1) in *. set (bs := tbatch sx) in *.
  apply perm_pair.
  - apply (transpose_bw_transposed sx sy d1 d2 bs); auto.
  - apply (transpose_fw_covers sx sy d1 d2 bs); auto.
  - unfold acc_in_bounds, mov_as_acc. apply Forall_forall. intros [a c] Hin.
    apply in_map_iff in Hin. destruct Hin as [[d [k s]] [E Hin]]. cbn [fst snd] in E. injection E as -> ->.
    apply (transpose_fw_spec sy sx d2 d1 bs) in Hin; auto.
    destruct Hin as [i [j [b [Hi [Hj [Hb [_ [-> ->]]]]]]]]. cbn [fst snd].
    match goal with H1 : tsize sx = _, H2 : tsize sy = _ |- _ => rewrite H1, H2 end.
    split; apply flat_lt; assumption.
Qed.

Definition twf_b (s : tshape) : bool := forallb (fun d => 0 <? d) (tdims s) && (0 <? tbatch s).
Lemma twf_b_spec s : twf_b s = true -> twf s.
Proof.
  unfold twf_b, twf. intro H. bsplit. split; [|assumption].
  apply Forall_forall. intros d Hd. match goal with H : forallb _ _ = true |- _ => rewrite forallb_forall in H; apply Nat.ltb_lt; apply H; exact Hd end.
Qed.
Definition permute_ok (sx sy : tshape) (perm : list nat) : bool :=
  let nd := length perm in
  forallb (fun d => existsb (Nat.eqb d) perm) (seq 0 nd) && twf_b sx && twf_b sy &&
  (tdepth sx <=? nd) && (tdepth sy <=? nd) &&
  forallb (fun b => tget sy b =? tget sx (nth b perm 0)) (seq 0 nd) && (tbatch sy =? tbatch sx).
Lemma permute_ok_pair sx sy perm : permute_ok sx sy perm = true ->
  adjoint_pair (permute_fw sx sy perm) (permute_bw sx sy perm) (tsize sy) (tsize sx).
Proof.
  unfold permute_ok. intro H. bsplit.
  match goal with H : forallb (fun d => existsb _ _) _ = true |- _ => rename H into Hsurj end.
  match goal with H : forallb (fun b => tget sy b =? _) _ = true |- _ => rename H into Hdims end.
  rewrite forallb_forall in Hsurj, Hdims.
  assert (Hperm : Permutation perm (seq 0 (length perm))).
  { apply perm_seq_of_surj; [reflexivity|]. intros d Hd.
    assert (Hin : In d (seq 0 (length perm))) by (apply in_seq; lia).
    specialize (Hsurj d Hin). apply existsb_exists in Hsurj. destruct Hsurj as (x & Hx & E). apply Nat.eqb_eq in E. subst x. exact Hx. }
  assert (Hd : forall b, b < length perm -> tget sy b = tget sx (nth b perm 0)).
  { intros b Hb. apply Nat.eqb_eq. apply Hdims. apply in_seq. lia. }
  match goal with H1 : twf_b sx = true, H2 : twf_b sy = true |- _ => apply twf_b_spec in H1; apply twf_b_spec in H2 end.
  apply perm_pair.
  - rewrite permute_bw_transposed. apply Permutation_refl.
  - apply (permute_fw_covers sx sy perm (length perm)); auto.
  - apply (permute_bw_in_bounds sx sy perm (length perm)); auto.
Qed.

(* sum along dim: sx the operand, sy = sx with axis dim resized to 1 *)
Definition sum_ok (sx sy : tshape) (dim : nat) : bool :=
  let base := tlower sx dim in let n := tget sx dim in let Rt := tsize sy / base in
  (tlower sy dim =? base) && (tsize sy =? base * Rt) && (tsize sx =? base * n * Rt) &&
  (0 <? base) && (0 <? n) && (0 <? tbatch sx) && (0 <? tbatch sy).
(* broadcast_fw sy sx dim n (from the small shape sy to the big shape sx) and the reduction
   program of the sum over axis dim of sx are each other's transposes *)
Lemma sum_ok_pair sx sy dim : sum_ok sx sy dim = true ->
  let bc := broadcast_fw sy sx dim (tget sx dim) in
  adjoint_pair bc (red_acc (axis_red sx sy dim)) (tsize sx) (tsize sy).
Proof.
  unfold sum_ok. intro H. bsplit. cbv zeta.
  set (base := tlower sx dim) in *. set (n := tget sx dim) in *. set (Rt := tsize sy / base) in *.
  assert (Hsy1 : tsize sy = base * 1 * Rt) by lia.
  rewrite red_acc_transposed, <- (broadcast_is_transposed_sum sx sy dim base n Rt) by auto.
  apply mov_pair.
  - apply (broadcast_fw_covers sy sx dim n base Rt); auto.
  - apply (broadcast_fw_single sy sx dim n base Rt); auto.
  - apply (broadcast_fw_in_bounds sy sx dim n base Rt); auto.
Qed.

(* split: n slices of span tget sy dim each *)
Definition split_ok (sx sy : tshape) (dim n : nat) : bool :=
  (tget sx dim =? n * tget sy dim) && forallb (fun i => slice_ok sx sy dim (i * tget sy dim)) (seq 0 n).
Lemma split_ok_pair sx sy dim n : split_ok sx sy dim n = true -> forall i, i < n ->
  adjoint_pair (slice_fw sx sy dim (i * tget sy dim)) (slice_bw sy sx dim (i * tget sy dim)) (tsize sy) (tsize sx).
Proof.
  unfold split_ok. intros H i Hi. bsplit. apply slice_ok_pair.
  match goal with H : forallb _ _ = true |- _ => rewrite forallb_forall in H; apply H end. apply in_seq. lia.
Qed.
Definition batch_split_ok (sx sy : tshape) (n : nat) : bool :=
  (tbatch sx =? n * tbatch sy) && forallb (fun i => batch_slice_ok sx sy (i * tbatch sy)) (seq 0 n).
Lemma batch_split_ok_pair sx sy n : batch_split_ok sx sy n = true -> forall i, i < n ->
  adjoint_pair (batch_slice_fw sx sy (i * tbatch sy)) (batch_slice_bw sy sx (i * tbatch sy)) (tsize sy) (tsize sx).
Proof.
  unfold batch_split_ok. intros H i Hi. bsplit. apply batch_slice_ok_pair.
  match goal with H : forallb _ _ = true |- _ => rewrite forallb_forall in H; apply H end. apply in_seq. lia.
Qed.

(* batch::sum: y = x.resize_batch(1); backward gx += gy with gy of batch 1 *)
Definition batch_sum_ok (sx sy : tshape) : bool :=
  (tvolume sy =? tvolume sx) && (tbatch sy =? 1) && (0 <? tbatch sx).
Lemma batch_sum_ok_adj sx sy : batch_sum_ok sx sy = true ->
  Permutation (inplace_add sy sx) (swap_acc (red_acc (batch_sum_red sx sy))) /\
  acc_in_bounds (red_acc (batch_sum_red sx sy)) (tsize sy) (tsize sx).
Proof.
  unfold batch_sum_ok. intro H. bsplit.
  set (V := tvolume sx) in *. set (bs := tbatch sx) in *.
  assert (Hsy : tsize sy = V) by (unfold tsize; lia).
  assert (Hsx : tsize sx = bs * V) by reflexivity.
  assert (E1 : red_acc (batch_sum_red sx sy) = flat_map (fun i => map (fun b => (i, i + b * V)) (range bs)) (range V)).
  { unfold red_acc, batch_sum_red. fold bs. rewrite Hsy, ProofsPerm.flat_map_map. cbn [fst snd].
    apply flat_map_ext. intro i. rewrite map_map. reflexivity. }
  assert (E2 : inplace_add sy sx = flat_map (fun b => flat_map (fun i => [(b * V + i, i)]) (range V)) (range bs)).
  { rewrite (inplace_add_form sy sx V bs eq_refl) by (fold bs; lia). unfold flat_map2.
    apply ProofsBilinear.flat_map_ext_in'. intros b Hb. apply in_seq in Hb. rewrite flat_map_single.
    apply map_ext. intro i. rewrite (bsel_shared sy b) by assumption.
    f_equal. f_equal. f_equal. destruct (bsel_cases sx b) as [[A B]|[[A B]|[A B]]]; fold bs in A; lia. }
  split.
  - rewrite E1, E2. unfold swap_acc. rewrite ProofsBilinear.map_flat_map.
    rewrite (perm_flat_map_swap (fun b i => [(b * V + i, i)]) (range bs) (range V)).
    apply Permutation_refl'. apply flat_map_ext. intro i. rewrite flat_map_single, map_map. cbn [fst snd].
    apply map_ext. intro b. f_equal. lia.
  - rewrite E1, Hsy, Hsx. apply Forall_forall. intros [d s] Hin. apply in_flat_map in Hin. destruct Hin as (i & Hi & Hin).
    apply in_map_iff in Hin. destruct Hin as (b & E & Hb). injection E as <- <-. apply in_seq in Hi, Hb. cbn [fst snd].
    split; [lia|]. assert ((b + 1) * V <= bs * V) by (apply Nat.mul_le_mono_r; lia). lia.
Qed.

(* conv2d: the relation conv2d_in_bounds needs between the three shapes *)
Definition conv2d_ok (sx sw sy : tshape) : bool :=
  let xh := tget sx 0 in let xw := tget sx 1 in let xc := tget sx 2 in
  let wh := tget sw 0 in let ww := tget sw 1 in
  let yh := tget sy 0 in let yw := tget sy 1 in let yc := tget sy 2 in let B := tbatch sy in
  (tvolume sy =? yh * yw * yc) && (tvolume sx =? xh * xw * xc) && (tvolume sw =? wh * ww * xc * yc) &&
  (0 <? wh) && (0 <? ww) && ((tbatch sx =? 1) || (tbatch sx =? B)) && ((tbatch sw =? 1) || (tbatch sw =? B)).
Lemma conv2d_ok_bounds sx sw sy p0 p1 s0 s1 d0 d1 : conv2d_ok sx sw sy = true ->
  Forall (fun e : nat * (nat * nat) => fst e < tsize sy /\ fst (snd e) < tsize sx /\ snd (snd e) < tsize sw)
         (conv2d_triples sx sw sy p0 p1 s0 s1 d0 d1).
Proof.
  unfold conv2d_ok. intro H. bsplit.
  eapply (conv2d_in_bounds sx sw sy _ _ _ _ _ _ _ _ (tbatch sy) _ _ _ p0 p1 s0 s1 d0 d1); try reflexivity; try eassumption;
    apply orb_eqb; assumption.
Qed.

(* ---- batch::concat: operands of one per-sample shape; operand k occupies the samples
   [boff k, boff k + batch_k) of y.  Its forward block IS the batch_slice_bw index program
   (paste operand k into y), lifted to operand k *)
Notation gsumn := ProofsGather.sumn.
Definition dshape : tshape := mkT [] 1.
Definition boff (xs : list tshape) (k : nat) : nat := gsumn (map tbatch (firstn k xs)).
Definition batch_concat_ok (xs : list tshape) (sy : tshape) : bool :=
  forallb (fun sx => (tvolume sx =? tvolume sy) && (0 <? tbatch sx)) xs &&
  (tbatch sy =? gsumn (map tbatch xs)) && (0 <? tvolume sy).
Lemma batch_concat_blocks (sy : tshape) V : forall xs' pre,
  Forall (fun sx => tvolume sx = V) xs' ->
  batch_concat_loop xs' (length pre) (V * gsumn (map tbatch pre))
  = flat_map (fun k => lift_acc k (batch_slice_bw (nth k (pre ++ xs') dshape) sy (boff (pre ++ xs') k)))
             (seq (length pre) (length xs')).
Proof.
  induction xs' as [|a xs' IH]; intros pre Hv; cbn [batch_concat_loop length seq flat_map]; [reflexivity|].
  inversion Hv as [|? ? Ha Hv']; subst.
  assert (Hnth : nth (length pre) (pre ++ a :: xs') dshape = a) by (rewrite app_nth2, Nat.sub_diag by lia; reflexivity).
  assert (Hoff : boff (pre ++ a :: xs') (length pre) = gsumn (map tbatch pre)).
  { unfold boff. rewrite firstn_app, Nat.sub_diag, firstn_all. cbn [firstn]. rewrite app_nil_r. reflexivity. }
  f_equal.
  - rewrite Hnth, Hoff. unfold lift_acc, batch_slice_bw. rewrite map_map. cbn [fst snd].
    unfold tsize. rewrite (Nat.mul_comm (tbatch a)). reflexivity.
  - specialize (IH (pre ++ [a]) Hv'). rewrite app_length in IH. cbn [length] in IH.
    replace (length pre + 1) with (S (length pre)) in IH by lia. rewrite <- app_assoc in IH. cbn [app] in IH.
    rewrite <- IH. f_equal. rewrite map_app, sumn_app. cbn [map]. rewrite sumn_cons. unfold tsize, gsumn. cbn [fold_right]. ring.
Qed.
Lemma batch_concat_ok_spec xs sy : batch_concat_ok xs sy = true ->
  covers (batch_concat_fw xs) (tsize sy) /\
  batch_concat_fw xs = flat_map (fun k => lift_acc k (batch_slice_bw (nth k xs dshape) sy (boff xs k))) (seq 0 (length xs)) /\
  forall k sk, nth_error xs k = Some sk -> 0 < tbatch sk /\
    adjoint_pair (batch_slice_fw sy sk (boff xs k)) (batch_slice_bw sk sy (boff xs k)) (tsize sk) (tsize sy).
Proof.
  unfold batch_concat_ok. intro H. bsplit.
  match goal with H : forallb _ _ = true |- _ => rename H into Hall end. rewrite forallb_forall in Hall.
  assert (Hv : Forall (fun sx => tvolume sx = tvolume sy) xs).
  { apply Forall_forall. intros sx Hin. specialize (Hall sx Hin). bsplit. assumption. }
  split; [|split].
  - apply sequential_covers. apply (batch_concat_fw_sequential xs sy (tvolume sy)); auto.
  - unfold batch_concat_fw. pose proof (batch_concat_blocks sy (tvolume sy) xs [] Hv) as E.
    cbn [length map app] in E. unfold gsumn in E. cbn [fold_right] in E. rewrite Nat.mul_0_r in E. exact E.
  - intros k sk Hk. pose proof (Hall sk (nth_error_In _ _ Hk)) as Hs. bsplit. split; [assumption|].
    apply (batch_slice_pair sy sk (boff xs k) (tvolume sy) (tbatch sy) (tbatch sk)); auto.
    match goal with H : tbatch sy = _ |- _ => rewrite H end. unfold boff. apply (sumn_firstn_le tbatch xs k sk Hk).
Qed.

(* ---- concat along dim: operand k occupies the axis range [concat_off k, + its size) of y.
   Its forward block IS the slice_bw index program with gy := operand k (batch B or 1) and
   gx := y (paste), lifted to operand k; BACKWARD(Concat) is, per operand,
   gx_k += slice(gy, dim, off_k, off_k + n_k)   (slice_fw, then inplace_add folding the batch) *)
Definition paste_ok (sy sk : tshape) (dim off : nat) : bool :=
  let base := tlower sy dim in let ny := tget sy dim in let nk := tget sk dim in
  let R := tvolume sy / (base * ny) in let B := tbatch sy in
  (tlower sk dim =? base) && (tvolume sy =? base * ny * R) && (tvolume sk =? base * nk * R) &&
  ((tbatch sk =? B) || (tbatch sk =? 1)) && (0 <? B) && (off + nk <=? ny) && (0 <? base) && (0 <? nk).
Definition concat_ok (xs : list tshape) (sy : tshape) (dim : nat) : bool :=
  (tget sy dim =? gsumn (map (adim dim) xs)) && (0 <? tget sy dim) &&
  forallb (fun k => paste_ok sy (nth k xs dshape) dim (concat_off xs dim k)) (seq 0 (length xs)).
Definition rebatch (s : tshape) (B : nat) : tshape := mkT (tdims s) B.

Lemma concat_block (sy a : tshape) (dim off k base R : nat) :
  tlower sy dim = base -> tvolume sy = base * tget sy dim * R -> 0 < base -> 0 < tget sy dim ->
  tvolume a = base * tget a dim * R -> tbatch a = tbatch sy \/ tbatch a = 1 -> 0 < tbatch sy ->
  flat_map2 (tbatch sy) (fun b => flat_map2 R (fun i =>
    map (fun j => (base * off + (b * R + i) * (base * tget sy dim) + j,
                   (k, b * (thas_batch a * (base * tget a dim) * R) + i * (base * tget a dim) + j)))
        (range (base * tget a dim))))
  = lift_acc k (slice_bw a sy dim off).
Proof.
  intros Hbase Hvy Hb0 Hn0 Hva Hba HB. unfold lift_acc, slice_bw. rewrite Hbase.
  assert (Hrep : tvolume sy / (base * tget sy dim) = R) by (rewrite Hvy, Nat.mul_comm; apply Nat.div_mul; nia).
  rewrite Hrep. replace (Nat.max (tbatch sy) (tbatch a)) with (tbatch sy) by lia.
  rewrite map_flat_map2. apply ProofsBilinear.flat_map2_ext. intros b Hb.
  rewrite map_flat_map2. apply ProofsBilinear.flat_map2_ext. intros i Hi.
  rewrite map_map. apply map_range_ext. intros j Hj. cbn [fst snd].
  rewrite (bidx_skip sy), (bidx_same _ _ Hb), Hvy, Hva. f_equal; [ring|]. f_equal. ring.
Qed.
Lemma concat_blocks (sy : tshape) (dim base R : nat) :
  tlower sy dim = base -> tvolume sy = base * tget sy dim * R -> 0 < base -> 0 < tget sy dim -> 0 < tbatch sy ->
  forall xs' pre,
  Forall (fun a => tvolume a = base * tget a dim * R /\ (tbatch a = tbatch sy \/ tbatch a = 1)) xs' ->
  concat_loop xs' (length pre) (base * gsumn (map (adim dim) pre)) (tbatch sy) base (base * tget sy dim) R dim
  = flat_map (fun k => lift_acc k (slice_bw (nth k (pre ++ xs') dshape) sy dim (concat_off (pre ++ xs') dim k)))
             (seq (length pre) (length xs')).
Proof.
  intros Hbase Hvy Hb0 Hn0 HB. induction xs' as [|a xs' IH]; intros pre Hv; cbn [concat_loop length seq flat_map]; [reflexivity|].
  inversion Hv as [|? ? [Ha Hba] Hv']; subst.
  assert (Hnth : nth (length pre) (pre ++ a :: xs') dshape = a) by (rewrite app_nth2, Nat.sub_diag by lia; reflexivity).
  assert (Hoff : concat_off (pre ++ a :: xs') dim (length pre) = gsumn (map (adim dim) pre)).
  { unfold concat_off. rewrite firstn_app, Nat.sub_diag, firstn_all. cbn [firstn]. rewrite app_nil_r. reflexivity. }
  f_equal.
  - rewrite Hnth, Hoff. apply concat_block; auto.
  - specialize (IH (pre ++ [a]) Hv'). rewrite app_length in IH. cbn [length] in IH.
    replace (length pre + 1) with (S (length pre)) in IH by lia. rewrite <- app_assoc in IH. cbn [app] in IH.
    rewrite <- IH. f_equal. rewrite map_app, sumn_app. cbn [map]. rewrite sumn_cons. unfold adim, gsumn. cbn [fold_right]. ring.
Qed.
Lemma concat_ok_spec xs sy dim : concat_ok xs sy dim = true ->
  covers (concat_fw xs sy dim) (tsize sy) /\
  concat_fw xs sy dim = flat_map (fun k => lift_acc k (slice_bw (nth k xs dshape) sy dim (concat_off xs dim k))) (seq 0 (length xs)) /\
  forall k sk, nth_error xs k = Some sk -> paste_ok sy sk dim (concat_off xs dim k) = true.
Proof.
  unfold concat_ok. intro H. bsplit.
  match goal with H : forallb _ _ = true |- _ => rename H into Hall end. rewrite forallb_forall in Hall.
  assert (Hk : forall k sk, nth_error xs k = Some sk -> paste_ok sy sk dim (concat_off xs dim k) = true).
  { intros k sk Esk. rewrite <- (nth_error_nth _ _ dshape Esk). apply Hall. apply in_seq.
    pose proof (nth_error_Some xs k) as [Hl _]. rewrite Esk in Hl. specialize (Hl ltac:(discriminate)). lia. }
  destruct xs as [|a0 xs0] eqn:Exs.
  { exfalso. cbn in *. lia. }
  rewrite <- Exs in *.
  assert (Hp0 : paste_ok sy a0 dim (concat_off xs dim 0) = true) by (apply (Hk 0); rewrite Exs; reflexivity).
  unfold paste_ok in Hp0. bsplit.
  set (base := tlower sy dim) in *. set (ny := tget sy dim) in *. set (R := tvolume sy / (base * ny)) in *.
  assert (Hv : Forall (fun a => tvolume a = base * tget a dim * R /\ (tbatch a = tbatch sy \/ tbatch a = 1)) xs).
  { apply Forall_forall. intros a Hin. apply In_nth_error in Hin. destruct Hin as (k & Ek). specialize (Hk k a Ek).
    unfold paste_ok in Hk. fold base ny R in Hk. bsplit. split; [assumption|apply orb_eqb; assumption]. }
  split; [|split; [|exact Hk]].
  - apply (concat_fw_covers xs sy dim base ny R (tbatch sy)); auto.
  - unfold concat_fw. fold base ny R.
    pose proof (concat_blocks sy dim base R eq_refl ltac:(assumption) ltac:(assumption) ltac:(assumption) ltac:(assumption) xs [] Hv) as E.
    cbn [length map app] in E. unfold gsumn in E. cbn [fold_right] in E. rewrite Nat.mul_0_r in E. exact E.
Qed.

Section Family.
  Context {R : Type} (rO rI : R) (radd rmul rsub : R -> R -> R) (ropp : R -> R).
  Hypothesis Rth : ring_theory rO rI radd rmul rsub ropp eq.
  Add Ring Rring2 : Rth.
  Notation dot := (OpFamily.dot rO radd rmul).
  Notation dots := (OpFamily.dots rO radd rmul).
  Notation zeros := (repeat rO).
  Notation scatterR := (scatter R rO radd).
  Notation gatherR := (gather R rO).
  Notation adj_of := (adj_of rO radd rmul).
  Notation desc_LA := (desc_LA rO radd rmul).
  Notation opdesc := (@opdesc R).
  Notation pair_adj := (pair_adj rO rI radd rmul rsub ropp Rth).

  (* gx += t : the last step of the BACKWARD bodies written with Tensor::operator+= *)
  Definition plus_eq (s : tshape) (t : list R) : list R := scatterR (inplace_add s s) t (zeros (tsize s)).
  Lemma plus_eq_adj s : 0 < tbatch s -> adj_of (tsize s) (tsize s) (fun x => x) (plus_eq s).
  Proof.
    intro H. apply (adj_ext rO radd rmul _ _ (gatherR (identity_pairs (tsize s)) (tsize s)) _ (plus_eq s) (plus_eq s)).
    - apply pair_adj. apply inplace_same_pair. exact H.
    - intros dx Hd. symmetry. apply (gather_identity rO). exact Hd.
    - reflexivity.
  Qed.
  Lemma post_plus_eq n s L Ls : adj_of n (tsize s) L Ls -> 0 < tbatch s ->
    adj_of n (tsize s) L (fun g => plus_eq s (Ls g)).
  Proof. intros H Hb. exact (adj_compose rO radd rmul n (tsize s) (tsize s) L Ls (fun x => x) (plus_eq s) H (plus_eq_adj s Hb)). Qed.


  (* ---- concat: pasting operand k into y and BACKWARD(Concat) for operand k are adjoint *)
  Lemma gather_share B V (dx : list R) b i : b < B -> i < V ->
    nth (b * V + i) (gatherR (share_fw B V (identity_pairs V)) (B * V) dx) rO = nth i dx rO.
  Proof.
    intros Hb Hi. unfold gather.
    assert (Hlt : b * V + i < B * V) by (apply sample_lt; assumption).
    rewrite (nth_indep _ rO (lookup R rO (share_fw B V (identity_pairs V)) dx 0)) by (rewrite map_length, seq_length; exact Hlt).
    rewrite map_nth, seq_nth by exact Hlt. cbn [Nat.add]. unfold lookup.
    assert (Hin : In (b * V + i, (0, i)) (share_fw B V (identity_pairs V))).
    { apply share_fw_In. exists b, i. split; [exact Hb|split; [reflexivity|]]. apply identity_spec. auto. }
    pose proof (find_unique (share_fw B V (identity_pairs V)) (b * V + i, (0, i))) as Hf. cbn [fst] in Hf.
    rewrite Hf; [reflexivity| |exact Hin].
    pose proof (share_fw_sequential B V _ (identity_sequential V)) as Hs. unfold sequential in Hs. rewrite Hs. apply seq_NoDup.
  Qed.

  Definition concat_bw (sy sk : tshape) (dim off : nat) (gy : list R) : list R :=
    let sk' := rebatch sk (tbatch sy) in
    scatterR (inplace_add sk' sk) (gatherR (slice_fw sy sk' dim off) (tsize sk') gy) (zeros (tsize sk)).

  Lemma paste_adj sy sk dim off : paste_ok sy sk dim off = true ->
    acc_in_bounds (slice_bw sk sy dim off) (tsize sy) (tsize sk) /\
    adj_of (tsize sy) (tsize sk) (fun x => scatterR (slice_bw sk sy dim off) x (zeros (tsize sy))) (concat_bw sy sk dim off).
  Proof.
    unfold paste_ok. intro H. bsplit.
    set (base := tlower sy dim) in *. set (ny := tget sy dim) in *. set (nk := tget sk dim) in *.
    set (R' := tvolume sy / (base * ny)) in *. set (B := tbatch sy) in *.
    match goal with H : (tbatch sk =? B) || (tbatch sk =? 1) = true |- _ => apply orb_eqb in H; rename H into Hbk end.
    assert (HBk : 0 < tbatch sk) by lia.
    split.
    { apply (slice_bw_in_bounds sy sk dim off base ny nk R' B (tbatch sk)); auto; lia. }
    set (sk' := rebatch sk B).
    assert (Hs : adj_of (tsize sy) (tsize sk') (fun u => scatterR (slice_bw sk' sy dim off) u (zeros (tsize sy)))
                        (gatherR (slice_fw sy sk' dim off) (tsize sk'))).
    { apply (adj_flip rO rI radd rmul rsub ropp Rth). apply pair_adj.
      apply (slice_pair_same sy sk' dim off base ny nk R' B B); auto. }
    unfold concat_bw. fold B sk'.
    destruct (Nat.eq_dec (tbatch sk) B) as [Esame|Ediff].
    - (* operand of the full batch: sk' = sk *)
      assert (Esk : sk' = sk) by (unfold sk', rebatch; rewrite <- Esame; destruct sk; reflexivity).
      rewrite Esk in *.
      exact (adj_compose rO radd rmul _ _ _ _ _ (fun x => x) (plus_eq sk) Hs (plus_eq_adj sk HBk)).
    - (* batch-1 operand: the forward shares its one sample among the B samples of y *)
      assert (E1 : tbatch sk = 1) by lia.
      set (V := tvolume sk) in *.
      assert (Hp : adjoint_pair (share_fw B V (identity_pairs V)) (inplace_add sk' sk) (tsize sk') (tsize sk)).
      { apply (inplace_add_pair_fold sk' sk V B 1); auto; lia. }
      pose proof (pair_adj _ _ _ _ Hp) as HI.
      apply (adj_ext rO radd rmul _ _ _ _ _ _
               (adj_compose rO radd rmul _ _ _ _ _ _ _ Hs HI)); [|reflexivity].
      intros dx Hd. cbv beta. rewrite !scatter_incr. f_equal.
      unfold slice_bw. fold base nk.
      assert (Hnk' : tget sk' dim = nk) by reflexivity. assert (Hv' : tvolume sk' = V) by reflexivity.
      rewrite Hnk', Hv'. change (tbatch sk') with B. rewrite E1. fold B ny V. replace (Nat.max B 1) with B by lia. rewrite ?Nat.max_id.
      rewrite !map_flat_map2. apply ProofsBilinear.flat_map2_ext. intros b Hb.
      rewrite !map_flat_map2. apply ProofsBilinear.flat_map2_ext. intros i Hi.
      rewrite !map_map. apply map_range_ext. intros j Hj. cbn [fst snd]. f_equal.
      fold R' in Hi.
      assert (Hr : i * (base * nk) + j < V).
      { match goal with H : V = _ |- _ => rewrite H end.
        assert ((i + 1) * (base * nk) <= R' * (base * nk)) by (apply Nat.mul_le_mono_r; lia). lia. }
      assert (Hz : thas_batch sk = 0) by (unfold thas_batch; rewrite E1; reflexivity).
      rewrite Hz, Nat.mul_0_l, Nat.mul_0_r, Nat.add_0_l.
      rewrite (bidx_skip sk' V b). change (tbatch sk') with B. rewrite (bidx_same B b Hb).
      unfold tsize. change (tbatch sk') with B. rewrite Hv', <- Nat.add_assoc.
      symmetry. apply gather_share; assumption.
  Qed.

  (* ---------------------------------------------------------------- the operators *)
  Inductive cop :=
  | OParam (p : nat) (s : tshape)
  | OInput (s : tshape) (v : list R)
  | OStop (s : tshape)
  | OCopy (s : tshape)
  | OAdd (sa sb : tshape)
  | OSub (sa sb : tshape)
  | OMul (sa sb : tshape)
  | OSlice (sx sy : tshape) (dim off : nat)
  | OPick (sx sy : tshape) (ids : list nat) (dim : nat)
  | OSum (sx sy : tshape) (dim : nat)
  | OBroadcast (sx sy : tshape) (dim size : nat)
  | OFlip (s : tshape) (dim : nat)
  | OTranspose (sx sy : tshape)
  | OPermute (sx sy : tshape) (perm : list nat)
  | OReshape (sx sy : tshape)
  | OBatchSlice (sx sy : tshape) (off : nat)
  | OBatchPick (sx sy : tshape) (ids : list nat)
  | OBatchSum (sx sy : tshape)
  | OSplit (sx sy : tshape) (dim n : nat)
  | OBatchSplit (sx sy : tshape) (n : nat)
  | OConv2d (sx sw sy : tshape) (p0 p1 s0 s1 d0 d1 : nat)
  | OBatchConcat (xs : list tshape) (sy : tshape)
  | OConcat (xs : list tshape) (sy : tshape) (dim : nat)
  | OMatmul (sa sb sy : tshape)
  | OAddConst (s : tshape) (k : R)
  | OSubConstR (s : tshape) (k : R)
  | OSubConstL (s : tshape) (k : R)
  | OMulConst (s : tshape) (k : R)
  | ONeg (s : tshape)
  | OAddScalar (sx sk : tshape)
  | OSubScalarR (sx sk : tshape)
  | OSubScalarL (sx sk : tshape)
  | OMulScalar (sx sk : tshape).

  Definition leaf_desc (s : tshape) (v : list R) (ok nop : bool) : opdesc :=
    {| d_args := []; d_rets := [s]; d_ok := ok; d_nop := nop;
       d_fw := fun _ => [v]; d_jvp := fun _ _ => [zeros (tsize s)]; d_bw := fun _ _ _ => [] |}.
  Definition stop_desc (s : tshape) : opdesc :=
    {| d_args := [s]; d_rets := [s]; d_ok := true; d_nop := true;
       d_fw := fun xs => [hd [] xs]; d_jvp := fun _ _ => [zeros (tsize s)]; d_bw := fun _ _ _ => [] |}.

  Definition describe (o : cop) : opdesc :=
    match o with
    | OParam p s => leaf_desc s [] true false
    | OInput s v => leaf_desc s v (length v =? tsize s) true
    | OStop s => stop_desc s
    | OCopy s => unary_lin s s (0 <? tbatch s) (gatherR (identity_pairs (tsize s)) (tsize s)) (plus_eq s)
    | OAdd sa sb => ew_desc rO radd sa sb radd (fun _ _ da db => radd da db) (fun g _ _ => g) (fun g _ _ => g)
    | OSub sa sb => ew_desc rO radd sa sb rsub (fun _ _ da db => rsub da db) (fun g _ _ => g) (fun g _ _ => ropp g)
    | OMul sa sb => ew_desc rO radd sa sb rmul (fun a b da db => radd (rmul da b) (rmul a db))
                      (fun g _ b => rmul g b) (fun g a _ => rmul g a)
    | OSlice sx sy dim off =>
        unary_lin sx sy (slice_ok sx sy dim off) (gatherR (slice_fw sx sy dim off) (tsize sy))
          (fun gy => scatterR (slice_bw sy sx dim off) gy (zeros (tsize sx)))
    | OPick sx sy ids dim =>
        unary_lin sx sy (pick_ok sx sy ids dim) (gatherR (pick_fw sx sy ids dim) (tsize sy))
          (fun gy => scatterR (pick_bw sy sx ids dim) gy (zeros (tsize sx)))
    | OSum sx sy dim =>
        unary_lin sx sy (sum_ok sx sy dim)
          (fun x => scatterR (red_acc (axis_red sx sy dim)) x (zeros (tsize sy)))
          (fun gy => plus_eq sx (gatherR (broadcast_fw sy sx dim (tget sx dim)) (tsize sx) gy))
    | OBroadcast sx sy dim size =>
        unary_lin sx sy (sum_ok sy sx dim && (tget sy dim =? size))
          (gatherR (broadcast_fw sx sy dim size) (tsize sy))
          (fun gy => plus_eq sx (scatterR (red_acc (axis_red sy sx dim)) gy (zeros (tsize sx))))
    | OFlip s dim =>
        unary_lin s s (flip_ok s dim) (gatherR (acc_as_mov (flip_pairs s dim)) (tsize s))
          (fun gy => scatterR (flip_pairs s dim) gy (zeros (tsize s)))
    | OTranspose sx sy =>
        unary_lin sx sy (transpose_ok sx sy) (gatherR (transpose_fw sx sy) (tsize sy))
          (fun gy => scatterR (mov_as_acc (transpose_fw sy sx)) gy (zeros (tsize sx)))
    | OPermute sx sy perm =>
        unary_lin sx sy (permute_ok sx sy perm) (gatherR (permute_fw sx sy perm) (tsize sy))
          (fun gy => scatterR (permute_bw sx sy perm) gy (zeros (tsize sx)))
    | OReshape sx sy =>
        unary_lin sx sy (reshape_ok sx sy) (gatherR (identity_pairs (tsize sy)) (tsize sy)) (plus_eq sx)
    | OBatchSlice sx sy off =>
        unary_lin sx sy (batch_slice_ok sx sy off) (gatherR (batch_slice_fw sx sy off) (tsize sy))
          (fun gy => scatterR (batch_slice_bw sy sx off) gy (zeros (tsize sx)))
    | OBatchPick sx sy ids =>
        unary_lin sx sy (batch_pick_ok sx sy ids) (gatherR (batch_pick_fw sx sy ids) (tsize sy))
          (fun gy => scatterR (batch_pick_bw sy sx ids) gy (zeros (tsize sx)))
    | OBatchSum sx sy =>
        unary_lin sx sy (batch_sum_ok sx sy)
          (fun x => scatterR (red_acc (batch_sum_red sx sy)) x (zeros (tsize sy)))
          (fun gy => scatterR (inplace_add sy sx) gy (zeros (tsize sx)))
    | OSplit sx sy dim n =>
        fan_desc rO radd sx sy n (split_ok sx sy dim n)
          (fun i => slice_fw sx sy dim (i * tget sy dim)) (fun i => slice_bw sy sx dim (i * tget sy dim))
    | OBatchSplit sx sy n =>
        fan_desc rO radd sx sy n (batch_split_ok sx sy n)
          (fun i => batch_slice_fw sx sy (i * tbatch sy)) (fun i => batch_slice_bw sy sx (i * tbatch sy))
    | OConv2d sx sw sy p0 p1 s0 s1 d0 d1 =>
        bil_desc rO radd rmul sx sw sy (conv2d_ok sx sw sy) (conv2d_triples sx sw sy p0 p1 s0 s1 d0 d1)
    | OBatchConcat xs sy =>
        nary_desc rO xs sy (batch_concat_ok xs sy) (batch_concat_fw xs)
          (fun k gy => let sk := nth k xs dshape in
                       plus_eq sk (gatherR (batch_slice_fw sy sk (boff xs k)) (tsize sk) gy))
    | OConcat xs sy dim =>
        nary_desc rO xs sy (concat_ok xs sy dim) (concat_fw xs sy dim)
          (fun k gy => concat_bw sy (nth k xs dshape) dim (concat_off xs dim k) gy)
    | OMatmul sa sb sy => matmul_desc rO radd rmul sa sb sy
    | OAddConst s k => un_desc rO radd s (fun x => radd x k) (fun d => d) (fun u => u)
    | OSubConstR s k => un_desc rO radd s (fun x => rsub x k) (fun d => d) (fun u => u)
    | OSubConstL s k => un_desc rO radd s (fun x => rsub k x) (fun d => ropp d) (fun u => ropp u)
    | OMulConst s k => un_desc rO radd s (fun x => rmul x k) (fun d => rmul d k) (fun u => rmul k u)
    | ONeg s => unary_lin s s (0 <? tbatch s) (un_eval R rO ropp (tsize s)) (fun gy => plus_eq s (vneg ropp gy))
    | OAddScalar sx sk => addsc_desc rO radd sx sk
    | OSubScalarR sx sk => subscr_desc rO radd rsub ropp sx sk
    | OSubScalarL sx sk => subscl_desc rO radd rsub ropp sx sk
    | OMulScalar sx sk => mulsc_desc rO radd rmul sx sk
    end.

  Definition core_family : OpFamily cop tshape (@OpFamily.vec R) :=
    desc_family describe (fun o => match o with OParam p _ => Some p | _ => None end)
                         (fun o => match o with OParam _ _ | OInput _ _ => Some 0 | _ => None end).
  Definition core_jvp : JvpFamily (R := R) cop := desc_jvp describe.

  (* ---------------------------------------------------------------- LocalAdjoint, per operator *)
  Lemma leaf_LA s v ok nop : desc_LA (leaf_desc s v ok nop).
  Proof.
    intros Hok xs dxs gys Hx Hdx Hgy. cbn [leaf_desc d_args d_rets d_ok d_nop d_fw d_jvp d_bw] in *.
    apply F2_nil in Hdx. subst dxs. apply F2_one in Hgy. destruct Hgy as (gy & -> & Hgy).
    cbv zeta. split; [|split].
    - destruct nop; cbn [OpFamily.dots]; rewrite (dot_zeros_r rO rI radd rmul rsub ropp Rth); ring.
    - intros ->. constructor.
    - constructor; [apply repeat_length|constructor].
  Qed.
  Lemma stop_LA s : desc_LA (stop_desc s).
  Proof.
    intros Hok xs dxs gys Hx Hdx Hgy. cbn [stop_desc d_args d_rets d_ok d_nop d_fw d_jvp d_bw] in *.
    apply F2_one in Hgy. destruct Hgy as (gy & -> & Hgy). cbv zeta. split; [|split].
    - cbn [OpFamily.dots]. rewrite (dot_zeros_r rO rI radd rmul rsub ropp Rth). destruct dxs; ring.
    - discriminate.
    - constructor; [apply repeat_length|constructor].
  Qed.

  Theorem describe_LA (o : cop) : desc_LA (describe o).
  Proof.
    destruct o; cbn [describe].
    - apply leaf_LA.
    - apply leaf_LA.
    - apply stop_LA.
    - (* Copy *) apply unary_lin_LA. intro H. apply Nat.ltb_lt in H.
      apply (post_plus_eq _ s _ (fun g => g)); [|exact H].
      apply (adj_ext rO radd rmul _ _ (fun x => x) _ (fun g => g) (fun g => g)); [apply adj_id| |reflexivity].
      intros dx Hd. apply (gather_identity rO). exact Hd.
    - (* Add *) apply (ew_LA rO rI radd rmul rsub ropp Rth). intros; ring.
    - (* Subtract *) apply (ew_LA rO rI radd rmul rsub ropp Rth). intros; ring.
    - (* Multiply *) apply (ew_LA rO rI radd rmul rsub ropp Rth). intros; ring.
    - (* Slice *) apply unary_lin_LA. intro H. apply pair_adj. apply slice_ok_pair. exact H.
    - (* Pick *) apply unary_lin_LA. intro H. apply pair_adj. apply pick_ok_pair. exact H.
    - (* Sum *) apply unary_lin_LA. intro H. pose proof (sum_ok_pair sx sy dim H) as Hp. cbv zeta in Hp.
      unfold sum_ok in H. bsplit.
      apply post_plus_eq; [|assumption]. apply (adj_flip rO rI radd rmul rsub ropp Rth). apply pair_adj. exact Hp.
    - (* Broadcast *) apply unary_lin_LA. intro H. apply andb_prop in H. destruct H as [H Hsz]. apply Nat.eqb_eq in Hsz. subst size.
      pose proof (sum_ok_pair sy sx dim H) as Hp. cbv zeta in Hp. unfold sum_ok in H. bsplit.
      apply post_plus_eq; [|assumption]. apply pair_adj. exact Hp.
    - (* Flip *) apply unary_lin_LA. intro H. apply pair_adj. apply flip_ok_pair. exact H.
    - (* Transpose *) apply unary_lin_LA. intro H. apply pair_adj. apply transpose_ok_pair. exact H.
    - (* PermuteDims *) apply unary_lin_LA. intro H. apply pair_adj. apply permute_ok_pair. exact H.
    - (* Reshape / Flatten *) apply unary_lin_LA. intro H. destruct (reshape_ok_size sx sy H) as (E & Hb). rewrite E.
      apply (post_plus_eq _ sx _ (fun g => g)); [|exact Hb].
      apply (adj_ext rO radd rmul _ _ (fun x => x) _ (fun g => g) (fun g => g)); [apply adj_id| |reflexivity].
      intros dx Hd. apply (gather_identity rO). exact Hd.
    - (* BatchSlice *) apply unary_lin_LA. intro H. apply pair_adj. apply batch_slice_ok_pair. exact H.
    - (* BatchPick *) apply unary_lin_LA. intro H. apply pair_adj. apply batch_pick_ok_pair. exact H.
    - (* BatchSum *) apply unary_lin_LA. intro H. destruct (batch_sum_ok_adj sx sy H) as (Hp & Hb).
      apply (acc_adj rO rI radd rmul rsub ropp Rth); [exact Hp|exact Hb|].
      apply (Permutation_Forall (Permutation_sym Hp)). apply swap_acc_in_bounds. exact Hb.
    - (* Split *) apply (fan_LA rO rI radd rmul rsub ropp Rth). intro H. apply split_ok_pair. exact H.
    - (* BatchSplit *) apply (fan_LA rO rI radd rmul rsub ropp Rth). intro H. apply batch_split_ok_pair. exact H.
    - (* Convolution2D *) apply (bil_LA rO rI radd rmul rsub ropp Rth). intro H. apply conv2d_ok_bounds. exact H.
    - (* BatchConcat *)
      apply (nary_LA rO rI radd rmul rsub ropp Rth xs sy _ _ (fun k => batch_slice_bw (nth k xs dshape) sy (boff xs k))).
      intro H. destruct (batch_concat_ok_spec xs sy H) as (Hc & Hf & Hk). split; [exact Hc|split; [exact Hf|]].
      intros k sk Esk. rewrite (nth_error_nth _ _ dshape Esk). destruct (Hk k sk Esk) as (Hb & Hp). split.
      + destruct Hp as (_ & _ & Hbnd). exact Hbnd.
      + cbv zeta. apply post_plus_eq; [|exact Hb]. apply (adj_flip rO rI radd rmul rsub ropp Rth). apply pair_adj. exact Hp.
    - (* Concat *)
      apply (nary_LA rO rI radd rmul rsub ropp Rth xs sy _ _ (fun k => slice_bw (nth k xs dshape) sy dim (concat_off xs dim k))).
      intro H. destruct (concat_ok_spec xs sy dim H) as (Hc & Hf & Hk). split; [exact Hc|split; [exact Hf|]].
      intros k sk Esk. rewrite (nth_error_nth _ _ dshape Esk). apply paste_adj. apply Hk. exact Esk.
    - (* MatrixMultiply *) apply (matmul_LA rO rI radd rmul rsub ropp Rth).
    - (* AddConst *) apply (un_LA rO rI radd rmul rsub ropp Rth). intros; ring.
    - (* SubtractConstR *) apply (un_LA rO rI radd rmul rsub ropp Rth). intros; ring.
    - (* SubtractConstL *) apply (un_LA rO rI radd rmul rsub ropp Rth). intros; ring.
    - (* MultiplyConst *) apply (un_LA rO rI radd rmul rsub ropp Rth). intros; ring.
    - (* Negative *) apply unary_lin_LA. intro H. apply Nat.ltb_lt in H.
      apply (post_plus_eq _ s _ (vneg ropp)); [|exact H].
      apply (adj_ext rO radd rmul _ _ (vneg ropp) _ (vneg ropp) (vneg ropp)); [apply (vneg_adj rO rI radd rmul rsub ropp Rth)| |reflexivity].
      intros dx Hd. rewrite <- Hd. apply un_eval_map.
    - (* AddScalar *) apply (addsc_LA rO rI radd rmul rsub ropp Rth).
    - (* SubtractScalarR *) apply (subscr_LA rO rI radd rmul rsub ropp Rth).
    - (* SubtractScalarL *) apply (subscl_LA rO rI radd rmul rsub ropp Rth).
    - (* MultiplyScalar *) apply (mulsc_LA rO rI radd rmul rsub ropp Rth).
  Qed.

    Theorem core_LocalAdjoint (o : cop) : LocalAdjoint rO radd rmul core_family core_jvp tsize o.
  Proof. apply (desc_family_LA rO radd rmul). apply describe_LA. Qed.

  (* ---------------------------------------------------------------- end to end *)
  Notation VO := (vec_ops rO rI radd tsize).

  (* For every evaluated, gradient-free, well-formed tape ops0 over core_family whose node
     tangents in the parameter direction dp are [tan] (consistent: tangent of a Parameter node
     = dp, tangent of any other node = the operator's JVP of its arguments' tangents), every
     target node n, prior parameter gradients (those of e0):
        sum_p <grad_after p, dp p> = sum_p <g0 p, dp p> + <ones, tan n>
     No LocalAdjoint hypothesis is left: it is core_LocalAdjoint, i.e. the kernel theorems. *)
  Theorem C01_backward_is_adjoint_concrete
    (tan : nat * nat -> @OpFamily.vec R) (dp : nat -> @OpFamily.vec R)
    (ops0 : list (@opinfo cop tshape (@OpFamily.vec R))) (e0 : @env (@OpFamily.vec R)) (ps : list nat) :
    wf_ops ops0 -> shape_ok core_family ops0 -> consistent core_family core_jvp tan dp ops0 e0 ->
    rsized core_family tsize tan ops0 e0 -> NoDup ps ->
    (forall k oi p, nth_error ops0 k = Some oi -> f_inner core_family (o_op oi) = Some p -> In p ps) ->
    forall n sn bl ops' e' bl',
      gclean ops0 -> psz core_family tsize ops0 e0 -> get_slot_ops ops0 n = Some sn ->
      sweep core_family VO (fst n)
        (upd_ops ops0 n (fun s => set_grad s (Some (vones VO (s_shape s))))) e0 bl = Some (ops', e', bl') ->
      ppot rO radd rmul dp ps e' = radd (ppot rO radd rmul dp ps e0) (dot (vones VO (s_shape sn)) (tan n)) /\
      gclean ops' /\ e_pval e' = e_pval e0.
  Proof.
    intros Hwf Hsh Hc Hr Hnd Hcov.
    exact (reverse_sweep_adjoint rO rI radd rmul rsub ropp Rth core_family core_jvp tsize tan dp ops0 e0 ps
             Hwf (fun k oi _ _ => core_LocalAdjoint (o_op oi)) Hsh Hc Hr Hnd Hcov).
  Qed.

  (* the same for a call of Graph::backward on a graph whose target is evaluated, with the
     right-hand side read as "the sum of all elements of the tangent of y" *)
  Theorem C01_backward_call_is_adjoint_concrete
    (tan : nat * nat -> @OpFamily.vec R) (dp : nat -> @OpFamily.vec R)
    (g : @gstate cop tshape (@OpFamily.vec R)) (e0 : @env (@OpFamily.vec R)) (ps : list nat) :
    wf_ops (g_ops g) -> shape_ok core_family (g_ops g) -> consistent core_family core_jvp tan dp (g_ops g) e0 ->
    rsized core_family tsize tan (g_ops g) e0 -> NoDup ps ->
    (forall k oi p, nth_error (g_ops g) k = Some oi -> f_inner core_family (o_op oi) = Some p -> In p ps) ->
    forall n sn v g' e',
      gclean (g_ops g) -> psz core_family tsize (g_ops g) e0 -> get_slot g n = Some sn -> s_val sn = Some v ->
      backward core_family VO g e0 n = Some (g', e') ->
      ppot rO radd rmul dp ps e' = radd (ppot rO radd rmul dp ps e0) (vsum rO radd (tan n)) /\
      gclean (g_ops g') /\ e_pval e' = e_pval e0.
  Proof.
    intros Hwf Hsh Hc Hr Hnd Hcov n sn v g' e' Hcl Hps Hsn Hv Hb.
    destruct (backward_adjoint rO rI radd rmul rsub ropp Rth core_family core_jvp tsize tan dp (g_ops g) e0 ps
                Hwf (fun k oi _ _ => core_LocalAdjoint (o_op oi)) Hsh Hc Hr Hnd Hcov g n sn v g' e' eq_refl Hcl Hps Hsn Hv Hb)
      as (E & A & B).
    split; [|split; [exact A|exact B]]. rewrite E. f_equal.
    destruct (Hr n sn Hsn) as (Hl & _). cbn [vones vec_ops]. rewrite <- Hl.
    apply (dot_ones rO rI radd rmul rsub ropp Rth).
  Qed.
End Family.
