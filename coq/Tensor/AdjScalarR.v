(* C01 over the reals: DivideScalarR, DivideScalarL, PowScalarR, PowScalarL (x0 of any shape, x1 a
   scalar of batch 1 or B).  Forward: CPUDEV_FW_X_SCALAR over scalar_fw with the generated
   fw_divide_scalar_r/l, fw_pow_scalar_r/l.  Backward exactly as operator_impl.cc composes it:
     DivideScalarR  a = gy / x1;  gx0 += a;               gx1 -= sum((a * y).flatten(), 0)
     DivideScalarL  a = gy / x0;  gx0 -= a * y;           gx1 += sum(a.flatten(), 0)
     PowScalarR     a = gy * y;   gx0 += a * x1 / x0;     gx1 += sum((a * log(x0)).flatten(), 0)
     PowScalarL     a = gy * y;   gx0 += a * log(x1);     gx1 += sum((a * x0 / x1).flatten(), 0)
   each tensor expression through the kernel tensor_funcs.cc dispatches to: an operand that is a
   scalar -> the ..._scalar kernels (scalar_fw over y's shape), otherwise the elementwise kernels
   (ab_fw with B-vs-1 broadcasting of x0), log -> log_fw; += / -= fold into batch-1 operands as
   in Tensor/AdjScalar.v.  Every such expression equals, entry by entry of the forward program,
   gy[d] * c(x0[ix], x1[ik], y[d]) (the kernel-program equalities sck_form, ewyx_form, ewyy_form);
   the tangent is  dx[ix] * c1 + dk[ik] * c2  and LocalAdjoint follows as for MultiplyScalar. *)
From Coq Require Import List NArith Bool Arith Lia Ring Reals RealField Lra Permutation.
From PV Require Import Graph.OpFamily Tensor.Kernels Tensor.Index Tensor.KernelProofs Tensor.ProofsGather
  Tensor.ProofsPerm Tensor.ProofsBilinear Scalar.ScalarBase Gen.ScalarGen
  Tensor.AdjCore Tensor.AdjMatmul Tensor.AdjScalar Tensor.GraphInst Tensor.AdjMax Tensor.AdjSoftmax.
Import ListNotations.
Local Open Scope R_scope.

Notation sumRR := (ProofsBilinear.sum_list R 0 Rplus).
Notation RT := (0) (only parsing).

Section ScalarR.
  Variables (sx sk : tshape).
  Notation sy := (sc_shape sx sk).
  Notation p := (scalar_fw sx sk (sc_shape sx sk)).
  Notation ax := (sc_ax 0 Rplus sx sk).
  Notation ak := (sc_ak 0 Rplus sx sk).
  Hypothesis Hok : scalar_ok sx sk = true.
  Let V := tvolume sx.
  Let B := tbatch sy.

  Lemma scR_facts : tvolume sk = 1%nat /\ (0 < V)%nat /\ (0 < B)%nat /\ sequential p (B * V) /\ tsize sy = (B * V)%nat /\
    p = bprog B V (fun b i => (bsel sx b * V + i)%nat) (fun b _ => bsel sk b) /\
    Forall (fun e : nat * (nat * nat) => (fst e < tsize sy /\ fst (snd e) < tsize sx /\ snd (snd e) < tsize sk)%nat) p.
  Proof.
    destruct (sc_facts sx sk Hok) as (A1 & A2 & A3 & A4 & A5 & A6 & A7 & A8).
    repeat split; try assumption. apply (scalar_fw_bprog sx sk sy V B); reflexivity.
  Qed.

  (* kernel-program equalities: a y-shaped operand u against the scalar / against x0 / against a y-shaped v *)
  Lemma sck_form (f : R -> R -> R) (u k : list R) :
    ab_eval R 0 f (scalar_fw sy sk sy) u k = map (fun e : nat * (nat * nat) => f (nth (fst e) u 0) (nth (snd (snd e)) k 0)) p.
  Proof.
    destruct scR_facts as (_ & _ & _ & _ & _ & Hp & _).
    unfold ab_eval. rewrite (scalar_fw_bprog sy sk sy V B eq_refl eq_refl), Hp, !map_bprog'. cbn [fst snd].
    apply ProofsBilinear.flat_map2_ext. intros b Hb. apply map_range_ext. intros i Hi. rewrite (bsel_full sy b Hb). reflexivity.
  Qed.
  Lemma ewyx_form (f : R -> R -> R) (u x : list R) :
    ab_eval R 0 f (ab_fw sy sx sy) u x = map (fun e : nat * (nat * nat) => f (nth (fst e) u 0) (nth (fst (snd e)) x 0)) p.
  Proof.
    destruct scR_facts as (_ & _ & _ & _ & _ & Hp & _).
    unfold ab_eval. rewrite (ab_fw_bprog sy sx sy V B eq_refl eq_refl), Hp, !map_bprog'. cbn [fst snd].
    apply ProofsBilinear.flat_map2_ext. intros b Hb. apply map_range_ext. intros i Hi. rewrite (bsel_full sy b Hb). reflexivity.
  Qed.
  Lemma ewyy_form (f : R -> R -> R) (u v : list R) :
    ew2 sy f u v = map (fun e : nat * (nat * nat) => f (nth (fst e) u 0) (nth (fst e) v 0)) p.
  Proof.
    destruct scR_facts as (_ & _ & HB & Hseq & Hsz & _ & _).
    rewrite ew2_spec by exact HB. rewrite Hsz. unfold sequential in Hseq. rewrite <- Hseq, map_map. reflexivity.
  Qed.
  Lemma map_p_nth (h : nat * (nat * nat) -> R) e : In e p -> nth (fst e) (map h p) 0 = h e.
  Proof.
    intro He. destruct scR_facts as (_ & _ & _ & Hseq & _ & _ & _).
    assert (Hseq' : map fst p = seq 0 (length p)) by (rewrite (sequential_length p _ Hseq); exact Hseq).
    pose proof (seq_nth_map h 0 p 0%nat Hseq' e He) as E. rewrite Nat.sub_0_r in E. exact E.
  Qed.
  Lemma p_bounds e : In e p -> (fst (snd e) < tsize sx)%nat /\ (snd (snd e) < tsize sk)%nat.
  Proof. intro He. destruct scR_facts as (_ & _ & _ & _ & _ & _ & Hb). rewrite Forall_forall in Hb. destruct (Hb e He) as (_ & A & C). split; assumption. Qed.

  (* the generic adjoint identity: increments gy[d] * c1 into x0's slots (+= or -=), gy[d] * c2 into the scalar's *)
  Definition sgn (n : bool) (v : R) : R := if n then - v else v.
  Lemma scy_core (n1 n2 : bool) (gy dx dk : list R) (c1 c2 : nat * (nat * nat) -> R) :
    length gy = tsize sy -> length dx = tsize sx -> length dk = tsize sk ->
    let T1 := map (fun e => nth (fst e) gy 0 * c1 e) p in
    let T2 := map (fun e => nth (fst e) gy 0 * c2 e) p in
    let AX := if n1 then sc_ax_sub 0 Rplus Ropp sx sk else ax in
    let AK := if n2 then sc_ak_sub 0 Rplus Ropp sx sk else ak in
    OpFamily.dots 0 Rplus Rmult [AX T1; AK T2] [dx; dk]
      = OpFamily.dots 0 Rplus Rmult [gy] [map (fun e => nth (fst (snd e)) dx 0 * sgn n1 (c1 e) + nth (snd (snd e)) dk 0 * sgn n2 (c2 e)) p] /\
    length (AX T1) = tsize sx /\ length (AK T2) = tsize sk.
  Proof.
    intros Hgy Hdx Hdk T1 T2 AX AK. destruct scR_facts as (_ & _ & _ & Hseq & Hsz & _ & _).
    assert (L1 : length T1 = tsize sy) by (unfold T1; rewrite map_length, (sequential_length p _ Hseq); symmetry; exact Hsz).
    assert (L2 : length T2 = tsize sy) by (unfold T2; rewrite map_length, (sequential_length p _ Hseq); symmetry; exact Hsz).
    assert (HA : OpFamily.dot 0 Rplus Rmult (AX T1) dx = sgn n1 (OpFamily.dot 0 Rplus Rmult T1 (sc_px 0 sx sk dx)) /\ length (AX T1) = tsize sx).
    { unfold AX. destruct n1; cbn [sgn].
      - destruct (sc_ax_sub_adj 0 1 Rplus Rmult Rminus Ropp RTheory sx sk Hok T1 dx L1 Hdx) as (E & L & _). split; [|exact L].
        rewrite E, (dot_comm 0 1 Rplus Rmult Rminus Ropp RTheory), (dot_vneg_l 0 1 Rplus Rmult Rminus Ropp RTheory), (dot_comm 0 1 Rplus Rmult Rminus Ropp RTheory). reflexivity.
      - destruct (sc_px_adj 0 1 Rplus Rmult Rminus Ropp RTheory sx sk Hok T1 dx L1 Hdx) as (E & L & _). split; assumption. }
    assert (HK : OpFamily.dot 0 Rplus Rmult (AK T2) dk = sgn n2 (OpFamily.dot 0 Rplus Rmult T2 (sc_pk 0 sx sk dk)) /\ length (AK T2) = tsize sk).
    { unfold AK. destruct n2; cbn [sgn].
      - destruct (sc_ak_sub_adj 0 1 Rplus Rmult Rminus Ropp RTheory sx sk Hok T2 dk L2 Hdk) as (E & L & _). split; [|exact L].
        rewrite E, (dot_comm 0 1 Rplus Rmult Rminus Ropp RTheory), (dot_vneg_l 0 1 Rplus Rmult Rminus Ropp RTheory), (dot_comm 0 1 Rplus Rmult Rminus Ropp RTheory). reflexivity.
      - destruct (sc_pk_adj 0 1 Rplus Rmult Rminus Ropp RTheory sx sk Hok T2 dk L2 Hdk) as (E & L & _). split; assumption. }
    destruct HA as (EA & LA). destruct HK as (EB & LB). split; [|split; assumption].
    cbn [OpFamily.dots]. rewrite EA, EB. unfold T1, T2, sc_px, sc_pk. rewrite !(dot_map2 0 Rplus Rmult).
    rewrite (seq_dot0 0 Rplus Rmult) by (rewrite Hgy, Hsz; exact Hseq).
    transitivity (sumRR (map (fun e : nat * (nat * nat) =>
        sgn n1 (nth (fst e) gy 0 * c1 e * nth (fst (snd e)) dx 0) + sgn n2 (nth (fst e) gy 0 * c2 e * nth (snd (snd e)) dk 0)) p) + 0).
    { rewrite (sumR_add 0 1 Rplus Rmult Rminus Ropp RTheory).
      assert (Hs : forall (n : bool) (h : nat * (nat * nat) -> R) l, sumRR (map (fun e => sgn n (h e)) l) = sgn n (sumRR (map h l))).
      { intros n h l. destruct n; cbn [sgn]; [apply (sumR_opp 0 1 Rplus Rmult Rminus Ropp RTheory)|reflexivity]. }
      rewrite !Hs. ring. }
    f_equal. apply (sumR_ext 0 Rplus). intros e _. destruct n1, n2; cbn [sgn]; ring.
  Qed.
End ScalarR.

(* a ...Scalar operator: forward f over scalar_fw; backward bw = the kernel composition of its BACKWARD
   body, which routes gy[d] * D1 into x0 (+= or -= : n1) and gy[d] * D2 into the scalar (n2);
   D1, D2 functions of x0[ix], x1[ik], y[d]; slopes sgn n1 D1, sgn n2 D2 *)
Definition scy_desc (sx sk : tshape) (f : R -> R -> R) (n1 n2 : bool) (D1 D2 : R -> R -> R -> R)
  (bw : list R -> list R -> list R -> list R -> list (list R)) : @opdesc R :=
  let p := scalar_fw sx sk (sc_shape sx sk) in
  {| d_args := [sx; sk]; d_rets := [sc_shape sx sk]; d_ok := scalar_ok sx sk; d_nop := false;
     d_fw := fun xs => [ab_eval R 0 f p (nth 0 xs []) (nth 1 xs [])];
     d_jvp := fun xs dxs =>
       let x := nth 0 xs [] in let k := nth 1 xs [] in
       [map (fun e : nat * (nat * nat) =>
               let xv := nth (fst (snd e)) x 0 in let kv := nth (snd (snd e)) k 0 in
               nth (fst (snd e)) (nth 0 dxs []) 0 * sgn n1 (D1 xv kv (f xv kv)) + nth (snd (snd e)) (nth 1 dxs []) 0 * sgn n2 (D2 xv kv (f xv kv))) p];
     d_bw := fun xs ys gys => bw (nth 0 gys []) (nth 0 xs []) (nth 1 xs []) (nth 0 ys []) |}.

Lemma scy_LA sx sk f (n1 n2 : bool) D1 D2 bw :
  (scalar_ok sx sk = true -> forall gy x k, length gy = tsize (sc_shape sx sk) ->
     bw gy x k (ab_eval R 0 f (scalar_fw sx sk (sc_shape sx sk)) x k)
     = [(if n1 then sc_ax_sub 0 Rplus Ropp sx sk else sc_ax 0 Rplus sx sk) (map (fun e : nat * (nat * nat) =>
            nth (fst e) gy 0 * D1 (nth (fst (snd e)) x 0) (nth (snd (snd e)) k 0) (f (nth (fst (snd e)) x 0) (nth (snd (snd e)) k 0)))
            (scalar_fw sx sk (sc_shape sx sk)));
        (if n2 then sc_ak_sub 0 Rplus Ropp sx sk else sc_ak 0 Rplus sx sk) (map (fun e : nat * (nat * nat) =>
            nth (fst e) gy 0 * D2 (nth (fst (snd e)) x 0) (nth (snd (snd e)) k 0) (f (nth (fst (snd e)) x 0) (nth (snd (snd e)) k 0)))
            (scalar_fw sx sk (sc_shape sx sk)))]) ->
  desc_LA 0 Rplus Rmult (scy_desc sx sk f n1 n2 D1 D2 bw).
Proof.
  intros Hbw Hok xs dxs gys Hx Hdx Hgy. cbn [scy_desc d_args d_rets d_ok d_nop d_fw d_jvp d_bw] in *.
  apply F2_two in Hx. destruct Hx as (x & k & -> & Hxl & Hkl).
  apply F2_two in Hdx. destruct Hdx as (dx & dk & -> & Hda & Hdb). apply F2_one in Hgy. destruct Hgy as (gy & -> & Hgy).
  cbn [nth]. unfold sized in *. rewrite (Hbw Hok gy x k Hgy).
  destruct (scy_core sx sk Hok n1 n2 gy dx dk
              (fun e => D1 (nth (fst (snd e)) x 0) (nth (snd (snd e)) k 0) (f (nth (fst (snd e)) x 0) (nth (snd (snd e)) k 0)))
              (fun e => D2 (nth (fst (snd e)) x 0) (nth (snd (snd e)) k 0) (f (nth (fst (snd e)) x 0) (nth (snd (snd e)) k 0)))
              Hgy Hda Hdb) as (E & LA & LB).
  cbv zeta in *. split; [exact E|split].
  - intros _. constructor; [exact LA|constructor; [exact LB|constructor]].
  - constructor; [|constructor]. unfold sized. rewrite map_length.
    destruct (sc_facts sx sk Hok) as (_ & _ & _ & _ & _ & Hsz & Hseq & _). rewrite (sequential_length _ _ Hseq). symmetry. exact Hsz.
Qed.

(* ---- the four BACKWARD bodies ---- *)
Section Bodies.
  Variables (sx sk : tshape).
  Notation sy := (sc_shape sx sk).
  Notation ax := (sc_ax 0 Rplus sx sk).
  Notation ak := (sc_ak 0 Rplus sx sk).
  Notation ax_sub := (sc_ax_sub 0 Rplus Ropp sx sk).
  Notation ak_sub := (sc_ak_sub 0 Rplus Ropp sx sk).
  Definition sck (f : R -> R -> R) (u k : list R) : list R := ab_eval R 0 f (scalar_fw sy sk sy) u k.    (* u (op) scalar *)
  Definition ewyx (f : R -> R -> R) (u x : list R) : list R := ab_eval R 0 f (ab_fw sy sx sy) u x.       (* u (op) x0 *)

  Definition divscr_bw (gy x k y : list R) : list (list R) :=
    let a := sck fw_divide_scalar_r gy k in
    [ax a; ak_sub (ew2 sy fw_multiply a y)].
  Definition divscl_bw (gy x k y : list R) : list (list R) :=
    let a := ewyx fw_divide gy x in
    [ax_sub (ew2 sy fw_multiply a y); ak a].
  Definition powscr_bw (gy x k y : list R) : list (list R) :=
    let a := ew2 sy fw_multiply gy y in
    [ax (ewyx fw_divide (sck fw_multiply_scalar a k) x);
     ak (ewyx fw_multiply a (un_eval R 0 fw_log (tsize sx) x))].
  Definition powscl_bw (gy x k y : list R) : list (list R) :=
    let a := ew2 sy fw_multiply gy y in
    [ax (sck fw_multiply_scalar a (un_eval R 0 fw_log (tsize sk) k));
     ak (sck fw_divide_scalar_r (ewyx fw_multiply a x) k)].

  Definition divscr_desc := scy_desc sx sk fw_divide_scalar_r false true (fun x k y => / k) (fun x k y => / k * y) divscr_bw.
  Definition divscl_desc := scy_desc sx sk fw_divide_scalar_l true false (fun x k y => / x * y) (fun x k y => / x) divscl_bw.
  Definition powscr_desc := scy_desc sx sk fw_pow_scalar_r false false (fun x k y => y * k / x) (fun x k y => y * ln x) powscr_bw.
  Definition powscl_desc := scy_desc sx sk fw_pow_scalar_l false false (fun x k y => y * ln k) (fun x k y => y * x / k) powscl_bw.

  Ltac forms Hok := rewrite ?(sck_form sx sk Hok), ?(ewyx_form sx sk Hok), ?(ewyy_form sx sk Hok).
  Lemma neg_map (h : nat * (nat * nat) -> R) (l : list (nat * (nat * nat))) : vneg Ropp (map h l) = map (fun e => - h e) l.
  Proof. unfold vneg. apply map_map. Qed.


  Ltac two_parts := match goal with |- [?A ?t1; ?B ?t2] = [?A ?u1; ?B ?u2] => assert (E1 : t1 = u1); [|assert (E2 : t2 = u2); [|exact (f_equal2 (fun a b => [A a; B b]) E1 E2)]] end.
  Section Proofs.
    Hypothesis Hok : scalar_ok sx sk = true.
    Notation p := (scalar_fw sx sk (sc_shape sx sk)).
    Lemma fwd_nth f (x k : list R) e : In e p -> nth (fst e) (ab_eval R 0 f p x k) 0 = f (nth (fst (snd e)) x 0) (nth (snd (snd e)) k 0).
    Proof. intro He. unfold ab_eval. exact (map_p_nth sx sk Hok (fun e : nat * (nat * nat) => f (nth (fst (snd e)) x 0) (nth (snd (snd e)) k 0)) e He). Qed.

    Lemma divscr_bw_form gy x k : divscr_bw gy x k (ab_eval R 0 fw_divide_scalar_r p x k)
      = [ax (map (fun e : nat * (nat * nat) => nth (fst e) gy 0 * / nth (snd (snd e)) k 0) p);
         ak_sub (map (fun e : nat * (nat * nat) => nth (fst e) gy 0 * (/ nth (snd (snd e)) k 0 * fw_divide_scalar_r (nth (fst (snd e)) x 0) (nth (snd (snd e)) k 0))) p)].
    Proof.
      unfold divscr_bw, sck. cbv zeta. rewrite (sck_form sx sk Hok), (ewyy_form sx sk Hok). two_parts.
      - apply map_ext. intro e. unfold fw_divide_scalar_r, Rdiv. reflexivity.
      - apply map_ext_in. intros e He. rewrite (map_p_nth sx sk Hok _ e He), (fwd_nth _ x k e He). unfold fw_multiply, fw_divide_scalar_r, Rdiv. ring.
    Qed.
    Lemma divscl_bw_form gy x k : divscl_bw gy x k (ab_eval R 0 fw_divide_scalar_l p x k)
      = [ax_sub (map (fun e : nat * (nat * nat) => nth (fst e) gy 0 * (/ nth (fst (snd e)) x 0 * fw_divide_scalar_l (nth (fst (snd e)) x 0) (nth (snd (snd e)) k 0))) p);
         ak (map (fun e : nat * (nat * nat) => nth (fst e) gy 0 * / nth (fst (snd e)) x 0) p)].
    Proof.
      unfold divscl_bw, ewyx. cbv zeta. rewrite (ewyx_form sx sk Hok), (ewyy_form sx sk Hok). two_parts.
      - apply map_ext_in. intros e He. rewrite (map_p_nth sx sk Hok _ e He), (fwd_nth _ x k e He). unfold fw_multiply, fw_divide, Rdiv. ring.
      - apply map_ext. intro e. unfold fw_divide, Rdiv. reflexivity.
    Qed.
    Lemma powscr_bw_form gy x k : powscr_bw gy x k (ab_eval R 0 fw_pow_scalar_r p x k)
      = [ax (map (fun e : nat * (nat * nat) => nth (fst e) gy 0 * (fw_pow_scalar_r (nth (fst (snd e)) x 0) (nth (snd (snd e)) k 0) * nth (snd (snd e)) k 0 / nth (fst (snd e)) x 0)) p);
         ak (map (fun e : nat * (nat * nat) => nth (fst e) gy 0 * (fw_pow_scalar_r (nth (fst (snd e)) x 0) (nth (snd (snd e)) k 0) * ln (nth (fst (snd e)) x 0))) p)].
    Proof.
      unfold powscr_bw, sck, ewyx. cbv zeta. rewrite (ewyy_form sx sk Hok), !(ewyx_form sx sk Hok), (sck_form sx sk Hok). two_parts.
      - apply map_ext_in. intros e He. rewrite !(map_p_nth sx sk Hok _ e He), (fwd_nth _ x k e He). unfold fw_multiply, fw_multiply_scalar, fw_divide, Rdiv. ring.
      - apply map_ext_in. intros e He. rewrite (map_p_nth sx sk Hok _ e He), (fwd_nth _ x k e He).
        rewrite (un_eval_nth 0 fw_log) by (apply (p_bounds sx sk Hok e He)). unfold fw_multiply, fw_log. ring.
    Qed.
    Lemma powscl_bw_form gy x k : powscl_bw gy x k (ab_eval R 0 fw_pow_scalar_l p x k)
      = [ax (map (fun e : nat * (nat * nat) => nth (fst e) gy 0 * (fw_pow_scalar_l (nth (fst (snd e)) x 0) (nth (snd (snd e)) k 0) * ln (nth (snd (snd e)) k 0))) p);
         ak (map (fun e : nat * (nat * nat) => nth (fst e) gy 0 * (fw_pow_scalar_l (nth (fst (snd e)) x 0) (nth (snd (snd e)) k 0) * nth (fst (snd e)) x 0 / nth (snd (snd e)) k 0)) p)].
    Proof.
      unfold powscl_bw, sck, ewyx. cbv zeta. rewrite (ewyy_form sx sk Hok), (ewyx_form sx sk Hok), !(sck_form sx sk Hok). two_parts.
      - apply map_ext_in. intros e He. rewrite (map_p_nth sx sk Hok _ e He), (fwd_nth _ x k e He).
        rewrite (un_eval_nth 0 fw_log) by (apply (p_bounds sx sk Hok e He)). unfold fw_multiply, fw_multiply_scalar, fw_log. ring.
      - apply map_ext_in. intros e He. rewrite !(map_p_nth sx sk Hok _ e He), (fwd_nth _ x k e He). unfold fw_multiply, fw_divide_scalar_r, Rdiv. ring.
    Qed.
  End Proofs.

  Lemma divscr_LA : desc_LA 0 Rplus Rmult divscr_desc.
  Proof. apply scy_LA. intros Hok gy x k _. apply (divscr_bw_form Hok). Qed.
  Lemma divscl_LA : desc_LA 0 Rplus Rmult divscl_desc.
  Proof. apply scy_LA. intros Hok gy x k _. apply (divscl_bw_form Hok). Qed.
  Lemma powscr_LA : desc_LA 0 Rplus Rmult powscr_desc.
  Proof. apply scy_LA. intros Hok gy x k _. apply (powscr_bw_form Hok). Qed.
  Lemma powscl_LA : desc_LA 0 Rplus Rmult powscl_desc.
  Proof. apply scy_LA. intros Hok gy x k _. apply (powscl_bw_form Hok). Qed.
End Bodies.
