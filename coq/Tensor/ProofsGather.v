(* Gather family of the Naive kernels (pick, slice_bw, concat, broadcast, batch_*, identity,
   inplace_add): full-write / in-bounds (C11), coordinate specifications (C02), and
   "the backward program is the transpose of the forward program", hence the accumulating
   adjoint (C01/C03, the LocalAdjoint fact of the gather-type operators).
   Style of KernelProofs.v, Section Slice: every Section lists, as numeric hypotheses, the
   relation between the operand shapes that the Device front end (core/device.cc +
   core/shape_ops.cc) establishes before it calls the kernel. *)
From Coq Require Import List Arith Lia Permutation.
From PV Require Import Tensor.Kernels Tensor.Index Tensor.KernelProofs.
Import ListNotations.

(* ================================================================== vocabulary *)
(* sample b of an operand with batch size B, or its single shared sample when B = 1 *)
Definition bidx (B b : nat) : nat := if 1 <? B then b else 0.

Lemma bidx_skip s V b : b * (thas_batch s * V) = bidx (tbatch s) b * V.
Proof. unfold thas_batch, bidx. destruct (1 <? tbatch s); lia. Qed.

Lemma bidx_ids m b : b * (if 1 <? m then 1 else 0) = bidx m b.
Proof. unfold bidx. destruct (1 <? m); lia. Qed.

Lemma bidx_same B b : b < B -> bidx B b = b.
Proof. unfold bidx. intro H. destruct (Nat.ltb_spec 1 B); lia. Qed.

Lemma bidx_one b : bidx 1 b = 0.
Proof. reflexivity. Qed.

Lemma bidx_lt Bx B b : b < B -> Bx = B \/ Bx = 1 -> bidx Bx b < Bx.
Proof. unfold bidx. intros Hb H. destruct (Nat.ltb_spec 1 Bx); lia. Qed.

Lemma sample_lt b B f V : b < B -> f < V -> b * V + f < B * V.
Proof. intros Hb Hf. assert (H : (b + 1) * V <= B * V) by (apply Nat.mul_le_mono_r; lia). lia. Qed.

(* decomposition of an index of a B-sample buffer *)
Lemma sample_split V B i : 0 < V -> i < B * V -> exists b r, b < B /\ r < V /\ i = b * V + r.
Proof.
  intros HV Hi. exists (i / V), (i mod V).
  pose proof (Nat.div_mod i V ltac:(lia)) as E.
  pose proof (Nat.mod_upper_bound i V ltac:(lia)) as Hm.
  split; [apply Nat.div_lt_upper_bound; lia|]. split; [exact Hm|]. lia.
Qed.

Lemma sample_inj V b1 r1 b2 r2 : r1 < V -> r2 < V -> b1 * V + r1 = b2 * V + r2 -> b1 = b2 /\ r1 = r2.
Proof. intros H1 H2 E. assert (b1 = b2) by nia. subst b2. lia. Qed.

(* the batch is the outermost coordinate: sample b starts at b * (sample volume) *)
Lemma flat_sample base n R low k high b :
  flat base n low k (high + R * b) = b * (base * n * R) + flat base n low k high.
Proof. unfold flat. ring. Qed.

(* a contiguous run  low + base*j  of an axis block *)
Lemma run_split base n j : 0 < base -> j < base * n ->
  exists low k, low < base /\ k < n /\ j = low + base * k.
Proof.
  intros Hb Hj. exists (j mod base), (j / base).
  pose proof (Nat.div_mod j base ltac:(lia)) as E.
  pose proof (Nat.mod_upper_bound j base ltac:(lia)) as Hm.
  split; [exact Hm|]. split; [apply Nat.div_lt_upper_bound; lia|]. lia.
Qed.

Lemma run_lt base n low k : low < base -> k < n -> low + base * k < base * n.
Proof. intros Hl Hk. assert (H : base * (k + 1) <= base * n) by (apply Nat.mul_le_mono_l; lia). lia. Qed.

(* ================================================================== list machinery *)
Lemma map_seq_off {A} (g : A -> nat) (F : nat -> A) o c :
  (forall j, j < c -> g (F j) = o + j) -> map g (map F (range c)) = seq o c.
Proof.
  intro H. rewrite map_map. unfold range.
  rewrite (map_ext_in (fun j => g (F j)) (fun j => o + j)).
  - rewrite (map_add_seq o c 0). f_equal. lia.
  - intros j Hj. apply in_seq in Hj. apply H. lia.
Qed.

Lemma seq_blocks {A} (g : A -> nat) a c o (L : nat -> list A) :
  (forall i, i < a -> map g (L i) = seq (o + i * c) c) -> map g (flat_map2 a L) = seq o (a * c).
Proof.
  unfold flat_map2, range. intro H.
  assert (G : forall a0 s, s + a0 <= a ->
            map g (flat_map L (seq s a0)) = seq (o + s * c) (a0 * c)).
  { induction a0 as [|a0 IH]; intros s Hs; cbn [seq flat_map]; [reflexivity|].
    rewrite map_app, H, IH by lia.
    replace (S a0 * c) with (c + a0 * c) by lia. rewrite seq_app. f_equal. f_equal. lia. }
  rewrite (G a 0) by lia. f_equal. lia.
Qed.

Lemma length_flat_map2 {A} n c (f : nat -> list A) :
  (forall i, i < n -> length (f i) = c) -> length (flat_map2 n f) = n * c.
Proof.
  unfold flat_map2, range. intro H.
  assert (G : forall a s, s + a <= n -> length (flat_map f (seq s a)) = a * c).
  { induction a as [|a IH]; intros s Hs; cbn [seq flat_map]; [reflexivity|].
    rewrite app_length, H, IH by lia. lia. }
  apply G. lia.
Qed.

Lemma length_map_range {A} n (f : nat -> A) : length (map f (range n)) = n.
Proof. unfold range. rewrite map_length, seq_length. reflexivity. Qed.

Lemma map_flat_map2 {A B} (h : A -> B) n (f : nat -> list A) :
  map h (flat_map2 n f) = flat_map2 n (fun i => map h (f i)).
Proof.
  unfold flat_map2. generalize (range n) as l. induction l as [|x l IH]; cbn [flat_map map]; [reflexivity|].
  rewrite map_app, IH. reflexivity.
Qed.

Lemma flat_map2_ext {A} n (f g : nat -> list A) : (forall i, f i = g i) -> flat_map2 n f = flat_map2 n g.
Proof. intro H. unfold flat_map2. apply flat_map_ext. exact H. Qed.

(* a list of n numbers that contains every number below n is a permutation of 0..n-1 *)
Lemma covers_by_count {A} (p : list (nat * A)) n :
  length p = n -> (forall d, d < n -> In d (map fst p)) -> covers p n.
Proof.
  intros Hl Hs. unfold covers. apply Permutation_sym. apply NoDup_Permutation_bis.
  - apply seq_NoDup.
  - rewrite map_length, seq_length. lia.
  - intros d Hd. apply in_seq in Hd. apply Hs. lia.
Qed.

Lemma covers_NoDup {A} (p : list (nat * A)) n : covers p n -> NoDup (map fst p).
Proof. intro H. apply (Permutation_NoDup (Permutation_sym H)). apply seq_NoDup. Qed.

Lemma covers_lt {A} (p : list (nat * A)) n e : covers p n -> In e p -> fst e < n.
Proof.
  intros H Hin. assert (Hd : In (fst e) (seq 0 n)).
  { apply (Permutation_in _ H). apply in_map. exact Hin. }
  apply in_seq in Hd. lia.
Qed.

Lemma sequential_lt {A} (p : list (nat * A)) n e : sequential p n -> In e p -> fst e < n.
Proof. intro H. apply covers_lt. apply sequential_covers. exact H. Qed.

(* ================================================================== transposition *)
(* the accumulation program that reads where a (single-operand) movement program writes *)
Definition tr (e : nat * (nat * nat)) : nat * nat := (snd (snd e), fst e).
Definition transpose (fw : mov) : acc := map tr fw.
Definition single (p : mov) : Prop := Forall (fun e => fst (snd e) = 0) p.

Lemma transpose_In fw d s : single fw -> (In (d, s) (transpose fw) <-> In (s, (0, d)) fw).
Proof.
  intro Hs. unfold transpose. rewrite in_map_iff. split.
  - intros [[d' [k s']] [E Hin]]. unfold tr in E. cbn [fst snd] in E. injection E as E1 E2.
    pose proof (proj1 (Forall_forall _ _) Hs _ Hin) as Hk. cbn [fst snd] in Hk. subst. exact Hin.
  - intro Hin. exists (s, (0, d)). split; [reflexivity|exact Hin].
Qed.

Lemma transpose_src fw : map snd (transpose fw) = map fst fw.
Proof. unfold transpose. rewrite map_map. reflexivity. Qed.

Lemma transpose_in_bounds fw n m :
  (forall e, In e fw -> fst e < n) -> single fw -> mov_in_bounds fw [m] ->
  acc_in_bounds (transpose fw) m n.
Proof.
  intros Hd Hs Hb. unfold acc_in_bounds, transpose. apply Forall_forall. intros [d s] Hin.
  apply in_map_iff in Hin. destruct Hin as [[d' [k s']] [E Hin]]. unfold tr in E. cbn [fst snd] in *.
  injection E as E1 E2. subst d s.
  pose proof (proj1 (Forall_forall _ _) Hs _ Hin) as Hk.
  pose proof (proj1 (Forall_forall _ _) Hb _ Hin) as Hb'. cbn [fst snd] in Hk, Hb'. subst k.
  cbn [nth] in Hb'. split; [exact Hb'|]. apply (Hd _ Hin).
Qed.

(* set-level transposition + "every gy element is read once" + "every y element is written
   once" give transposition as multisets *)
Lemma transpose_perm fw bw n :
  covers fw n -> single fw -> NoDup (map snd bw) ->
  (forall d s, In (d, s) bw <-> In (s, (0, d)) fw) -> Permutation bw (transpose fw).
Proof.
  intros Hc Hs Hn Hiff. apply NoDup_Permutation.
  - apply (NoDup_map_inv snd). exact Hn.
  - apply (NoDup_map_inv snd). rewrite transpose_src. apply (covers_NoDup _ _ Hc).
  - intros [d s]. rewrite Hiff. symmetry. apply transpose_In. exact Hs.
Qed.

(* B output samples that all read one shared input sample through p (minibatch broadcasting
   of a batch-1 operand); V = sample volume of the output *)
Definition share_fw (B V : nat) (p : mov) : mov :=
  flat_map2 B (fun b => map (fun e => (b * V + fst e, snd e)) p).

Lemma share_fw_sequential B V p : sequential p V -> sequential (share_fw B V p) (B * V).
Proof.
  unfold sequential, share_fw. intro H. apply (seq_blocks fst B V 0). intros b Hb.
  rewrite map_map. cbn [fst]. rewrite <- (map_map fst (fun d => b * V + d)), H.
  rewrite (map_add_seq (b * V) V 0). f_equal. lia.
Qed.

Lemma share_fw_In B V p d k s :
  In (d, (k, s)) (share_fw B V p) <-> exists b d0, b < B /\ d = b * V + d0 /\ In (d0, (k, s)) p.
Proof.
  unfold share_fw. rewrite In_flat_map2. split.
  - intros [b [Hb H]]. apply in_map_iff in H. destruct H as [[d0 [k0 s0]] [E H]]. cbn [fst snd] in E.
    injection E as E1 E2 E3. subst. exists b, d0. auto.
  - intros [b [d0 [Hb [-> H]]]]. exists b. split; [exact Hb|]. apply in_map_iff.
    exists (d0, (k, s)). split; [reflexivity|exact H].
Qed.

Lemma share_fw_single B V p : single p -> single (share_fw B V p).
Proof.
  unfold single. rewrite !Forall_forall. intros H [d [k s]] Hin. apply share_fw_In in Hin.
  destruct Hin as [b [d0 [_ [_ Hin]]]]. apply (H _ Hin).
Qed.

(* what the C01 instantiation needs of a forward/backward pair:
   n = element count of y / gy, m = element count of x / gx *)
Definition adjoint_pair (fw : mov) (bw : acc) (n m : nat) : Prop :=
  Permutation bw (transpose fw) /\ covers fw n /\ acc_in_bounds bw m n.

Lemma adjoint_pair_literal fw n m :
  sequential fw n -> single fw -> mov_in_bounds fw [m] -> adjoint_pair fw (transpose fw) n m.
Proof.
  intros Hs Hk Hb. split; [apply Permutation_refl|]. split; [apply sequential_covers; exact Hs|].
  apply transpose_in_bounds; [|exact Hk|exact Hb]. intros e He. apply (sequential_lt _ _ _ Hs He).
Qed.

Ltac mov_forall spec :=
  apply Forall_forall; intros [?d [?k ?s]] Hin; cbn [fst snd]; apply spec in Hin.


(* ================================================================== adjointness *)
Section GatherAdjoint.
  Variable T : Type.
  Variables (zero : T) (add mul : T -> T -> T).
  Hypothesis add_comm : forall a b, add a b = add b a.
  Hypothesis add_assoc : forall a b c, add a (add b c) = add (add a b) c.
  Hypothesis add_0_l : forall a, add zero a = a.
  Hypothesis mul_add_distr_r : forall a b c, mul (add a b) c = add (mul a c) (mul b c).

  Local Notation dotT := (dot T zero add mul).
  Local Notation gsum := (gather_sum T zero add mul).

  (* value the forward program fw stores into y[d] when run on the input dx *)
  Definition lookup (fw : mov) (dx : list T) (d : nat) : T :=
    match find (fun e => fst e =? d) fw with
    | Some e => nth (snd (snd e)) dx zero
    | None => zero
    end.
  (* the output of the forward program, as a list of n elements *)
  Definition gather (fw : mov) (n : nat) (dx : list T) : list T := map (lookup fw dx) (seq 0 n).

  Fixpoint sum_over (h : nat -> T) (l : list nat) : T :=
    match l with [] => zero | d :: r => add (h d) (sum_over h r) end.

  Lemma add_swap a b c : add a (add b c) = add b (add a c).
  Proof. rewrite !add_assoc. f_equal. apply add_comm. Qed.

  Lemma sum_over_perm h l l' : Permutation l l' -> sum_over h l = sum_over h l'.
  Proof.
    induction 1 as [|x l l' _ IH|x y l|l l' l'' _ IH1 _ IH2]; cbn [sum_over].
    - reflexivity.
    - rewrite IH. reflexivity.
    - apply add_swap.
    - rewrite IH1. exact IH2.
  Qed.

  Lemma sum_over_ext_in h h' l : (forall d, In d l -> h d = h' d) -> sum_over h l = sum_over h' l.
  Proof.
    induction l as [|x l IH]; intro H; cbn [sum_over]; [reflexivity|].
    rewrite (H x (or_introl eq_refl)), IH; [reflexivity|]. intros d Hd. apply H. right. exact Hd.
  Qed.

  Lemma gsum_perm p q gy dx : Permutation p q -> gsum p gy dx = gsum q gy dx.
  Proof.
    induction 1 as [|[d s] l l' _ IH|[d s] [d' s'] l|l l' l'' _ IH1 _ IH2]; cbn [gather_sum].
    - reflexivity.
    - rewrite IH. reflexivity.
    - apply add_swap.
    - rewrite IH1. exact IH2.
  Qed.

  Lemma find_unique (fw : mov) e :
    NoDup (map fst fw) -> In e fw -> find (fun e' => fst e' =? fst e) fw = Some e.
  Proof.
    induction fw as [|a fw IH]; intros Hn Hin; [destruct Hin|].
    cbn [map] in Hn. inversion Hn as [|? ? Hna Hn']; subst. cbn [find].
    destruct (Nat.eqb_spec (fst a) (fst e)) as [E|E].
    - destruct Hin as [->|Hin]; [reflexivity|]. exfalso. apply Hna. rewrite E. apply in_map. exact Hin.
    - destruct Hin as [->|Hin]; [congruence|]. apply IH; assumption.
  Qed.

  Lemma gsum_transpose_sum_over fw gy dx :
    NoDup (map fst fw) ->
    gsum (transpose fw) gy dx = sum_over (fun d => mul (nth d gy zero) (lookup fw dx d)) (map fst fw).
  Proof.
    intro Hn.
    assert (G : forall l, incl l fw ->
              gsum (transpose l) gy dx = sum_over (fun d => mul (nth d gy zero) (lookup fw dx d)) (map fst l)).
    { induction l as [|e l IH]; intro Hi; [reflexivity|].
      destruct e as [d [k s]]. cbn [transpose map tr gather_sum sum_over fst snd].
      fold (transpose l). rewrite IH by (intros x Hx; apply Hi; right; exact Hx).
      f_equal. unfold lookup.
      pose proof (find_unique fw (d, (k, s)) Hn (Hi _ (or_introl eq_refl))) as F.
      cbn [fst] in F. rewrite F. reflexivity. }
    apply G. apply incl_refl.
  Qed.

  Lemma dot_sum_over (y : nat -> T) : forall gy o,
    dotT gy (map y (seq o (length gy))) = sum_over (fun d => mul (nth (d - o) gy zero) (y d)) (seq o (length gy)).
  Proof.
    induction gy as [|g gy IH]; intro o; cbn [length seq map dot sum_over]; [reflexivity|].
    rewrite Nat.sub_diag. cbn [nth]. f_equal. rewrite IH. apply sum_over_ext_in.
    intros d Hd. apply in_seq in Hd. replace (d - o) with (S (d - S o)) by lia. reflexivity.
  Qed.

  (* sum over the pairs of the transposed program = <gy, forward output> *)
  Theorem gather_adjoint fw bw n gy dx :
    Permutation bw (transpose fw) -> covers fw n -> length gy = n ->
    gsum bw gy dx = dotT gy (gather fw n dx).
  Proof.
    intros Hp Hc Hl. rewrite (gsum_perm _ _ gy dx Hp).
    rewrite gsum_transpose_sum_over by (apply (covers_NoDup _ _ Hc)).
    rewrite (sum_over_perm _ _ _ Hc). unfold gather. subst n. rewrite dot_sum_over.
    apply sum_over_ext_in. intros d _. rewrite Nat.sub_0_r. reflexivity.
  Qed.

  (* LocalAdjoint of a gather-type operator: the backward kernel bw, being the transpose of the
     forward program fw, adds <gy, fw(dx)> to <gx, dx> for every direction dx, whatever gx held
     before:  <scatter bw gy gx, dx> = <gx, dx> + <gy, gather fw dx>  *)
  Theorem transpose_adjoint fw bw n gy gx dx :
    Permutation bw (transpose fw) -> covers fw n ->
    acc_in_bounds bw (length gx) (length gy) -> length dx = length gx -> length gy = n ->
    dotT (scatter T zero add bw gy gx) dx = add (dotT gx dx) (dotT gy (gather fw n dx)).
  Proof.
    intros Hp Hc Hb Hl Hn.
    rewrite (scatter_adjoint T zero add mul add_comm add_assoc add_0_l mul_add_distr_r bw gy gx dx Hb Hl).
    f_equal. apply (gather_adjoint fw bw n gy dx Hp Hc Hn).
  Qed.


  Corollary adjoint_pair_scatter fw bw n m gy gx dx :
    adjoint_pair fw bw n m -> length gx = m -> length gy = n -> length dx = m ->
    dotT (scatter T zero add bw gy gx) dx = add (dotT gx dx) (dotT gy (gather fw n dx)).
  Proof.
    intros [Hp [Hc Hb]] Hgx Hgy Hdx. apply transpose_adjoint; try assumption.
    - rewrite Hgx, Hgy. exact Hb.
    - congruence.
  Qed.

  (* `gather` is the output of the forward interpreter `assign` of Index.v started on an
     all-uninitialised output: every cell ends up written (Some), with the looked-up value *)
  Lemma nth_set {A} (y : list A) : forall d0 d v dflt, d0 < length y ->
    nth d (firstn d0 y ++ v :: skipn (S d0) y) dflt = if d0 =? d then v else nth d y dflt.
  Proof.
    induction y as [|a y IH]; intros d0 d v dflt H; cbn [length] in H; [lia|].
    destruct d0 as [|d0], d as [|d]; cbn [firstn skipn app nth Nat.eqb]; try reflexivity.
    apply IH. lia.
  Qed.

  Lemma set_length {A} (y : list A) d0 v : d0 < length y ->
    length (firstn d0 y ++ v :: skipn (S d0) y) = length y.
  Proof. intro H. rewrite app_length, firstn_length. cbn [length]. rewrite skipn_length. lia. Qed.

  Lemma assign_length fw xs : forall y, (forall e, In e fw -> fst e < length y) ->
    length (assign T zero fw xs y) = length y.
  Proof.
    induction fw as [|[d0 [k s]] fw IH]; intros y Hb; [reflexivity|]. cbn [assign].
    assert (Hd0 : d0 < length y) by (apply (Hb (d0, (k, s))); left; reflexivity).
    rewrite IH; rewrite set_length by exact Hd0; [reflexivity|].
    intros e He. apply Hb. right. exact He.
  Qed.

  Lemma assign_nth fw xs : forall (y : list (option T)) d,
    NoDup (map fst fw) -> (forall e, In e fw -> fst e < length y) -> d < length y ->
    nth d (assign T zero fw xs y) None =
    match find (fun e => fst e =? d) fw with
    | Some e => Some (nth (snd (snd e)) (nth (fst (snd e)) xs []) zero)
    | None => nth d y None
    end.
  Proof.
    induction fw as [|[d0 [k s]] fw IH]; intros y d Hn Hb Hd; [reflexivity|].
    cbn [assign find fst snd]. cbn [map fst] in Hn. inversion Hn as [|? ? Hna Hn']; subst.
    assert (Hd0 : d0 < length y) by (apply (Hb (d0, (k, s))); left; reflexivity).
    rewrite IH; [|exact Hn'|intros e He; rewrite set_length by exact Hd0; apply Hb; right; exact He
                 |rewrite set_length by exact Hd0; exact Hd].
    rewrite nth_set by exact Hd0. destruct (Nat.eqb_spec d0 d) as [E|E].
    - subst d0. destruct (find (fun e => fst e =? d) fw) as [e|] eqn:F; [|reflexivity].
      apply find_some in F. destruct F as [Hin Ee]. apply Nat.eqb_eq in Ee. exfalso. apply Hna.
      rewrite <- Ee. apply in_map. exact Hin.
    - reflexivity.
  Qed.

  Lemma nth_gather fw n dx d : d < n ->
    nth d (map Some (gather fw n dx)) None = Some (lookup fw dx d).
  Proof.
    intro Hd. unfold gather.
    rewrite (nth_indep (map Some (map (lookup fw dx) (seq 0 n))) None (Some (lookup fw dx 0)))
      by (rewrite !map_length, seq_length; exact Hd).
    rewrite (map_nth Some), (map_nth (lookup fw dx)), seq_nth by exact Hd. reflexivity.
  Qed.

  Theorem gather_assign fw n dx : covers fw n -> single fw ->
    assign T zero fw [dx] (repeat None n) = map Some (gather fw n dx).
  Proof.
    intros Hc Hs.
    assert (Hb : forall e, In e fw -> fst e < length (repeat (@None T) n)).
    { intros e He. rewrite repeat_length. apply (covers_lt _ _ _ Hc He). }
    apply (nth_ext _ _ None None).
    - rewrite assign_length by exact Hb. unfold gather. rewrite repeat_length, !map_length, seq_length. reflexivity.
    - intros d Hd. rewrite assign_length in Hd by exact Hb. rewrite repeat_length in Hd.
      rewrite assign_nth; [|apply (covers_NoDup _ _ Hc)|exact Hb|rewrite repeat_length; exact Hd].
      rewrite (nth_gather fw n dx d Hd). unfold lookup.
      destruct (find (fun e => fst e =? d) fw) as [e|] eqn:F.
      + apply find_some in F. destruct F as [Hin _].
        pose proof (proj1 (Forall_forall _ _) Hs _ Hin) as Hk. cbn beta in Hk. rewrite Hk. reflexivity.
      + exfalso. assert (Hin : In d (map fst fw)).
        { apply (Permutation_in _ (Permutation_sym Hc)). apply in_seq. lia. }
        apply in_map_iff in Hin. destruct Hin as [e [Ee Hin]].
        pose proof (find_none _ _ F _ Hin) as Hf. cbn beta in Hf. rewrite Ee, Nat.eqb_refl in Hf. discriminate.
  Qed.
End GatherAdjoint.

(* From here on every theorem of a kernel Section takes ALL hypotheses of its Section as
   premises (uniform, independent of which ones lia happened to use). *)
Local Set Default Proof Using "All".

(* ================================================================== identity_pairs
   copy_tensor / reshape / flatten forward: y[i] = x[i] *)
Theorem identity_sequential n : sequential (identity_pairs n) n.
Proof. unfold sequential, identity_pairs. apply (map_seq_off fst _ 0 n). intros; reflexivity. Qed.

Theorem identity_spec n d k s : In (d, (k, s)) (identity_pairs n) <-> d < n /\ k = 0 /\ s = d.
Proof.
  unfold identity_pairs. rewrite In_map_range. split.
  - intros [j [Hj E]]. injection E as Ed Ek Es. subst. auto.
  - intros [H [-> ->]]. exists d. auto.
Qed.

Theorem identity_in_bounds n : mov_in_bounds (identity_pairs n) [n].
Proof. mov_forall identity_spec. destruct Hin as [H [-> ->]]. exact H. Qed.

Lemma identity_single n : single (identity_pairs n).
Proof. mov_forall identity_spec. tauto. Qed.

(* ================================================================== batch_slice
   Device::batch_slice_fw: y = x.resize_batch(upper - lower), lower < upper <= x.batch(), off = lower
   Device::batch_slice_bw: same dims, offset + gy.batch() <= gx.batch() (64-bit test) *)
Section BatchSlice.
  Variables (sx sy : tshape) (off V Bx By : nat).
  Hypothesis Hvy : tvolume sy = V.
  Hypothesis Hvx : tvolume sx = V.
  Hypothesis Hby : tbatch sy = By.
  Hypothesis Hbx : tbatch sx = Bx.
  Hypothesis Hoff : off + By <= Bx.
  Hypothesis HV : 0 < V.

  Theorem batch_slice_fw_sequential : sequential (batch_slice_fw sx sy off) (tsize sy).
  Proof.
    unfold sequential, batch_slice_fw, tsize. rewrite Hvy, Hby, (Nat.mul_comm By V).
    apply (map_seq_off fst _ 0). intros; reflexivity.
  Qed.

  (* whole samples: sample b of y is sample b + off of x *)
  Theorem batch_slice_fw_spec d k s :
    In (d, (k, s)) (batch_slice_fw sx sy off) <->
    exists b i, b < By /\ i < V /\ k = 0 /\ d = b * V + i /\ s = (b + off) * V + i.
  Proof.
    unfold batch_slice_fw. rewrite Hvy, Hby, In_map_range. split.
    - intros [j [Hj E]]. injection E as Ed Ek Es. subst d k s.
      destruct (sample_split V By j HV ltac:(lia)) as [b [r [Hb [Hr ->]]]].
      exists b, r. repeat split; try assumption. nia.
    - intros [b [i [Hb [Hi [-> [-> ->]]]]]]. exists (b * V + i). split.
      + pose proof (sample_lt b By i V Hb Hi). lia.
      + f_equal. f_equal. nia.
  Qed.

  Theorem batch_slice_fw_in_bounds : mov_in_bounds (batch_slice_fw sx sy off) [tsize sx].
  Proof.
    mov_forall batch_slice_fw_spec. destruct Hin as [b [i [Hb [Hi [-> [_ ->]]]]]].
    cbn [nth]. unfold tsize. rewrite Hvx, Hbx. apply sample_lt; lia.
  Qed.

  Lemma batch_slice_fw_single : single (batch_slice_fw sx sy off).
  Proof. mov_forall batch_slice_fw_spec. destruct Hin as [b [i [_ [_ [-> _]]]]]. reflexivity. Qed.

  (* the backward kernel is literally the forward loop with source and destination exchanged *)
  Lemma batch_slice_bw_eq : batch_slice_bw sy sx off = transpose (batch_slice_fw sx sy off).
  Proof. unfold batch_slice_bw, batch_slice_fw, transpose. rewrite map_map. reflexivity. Qed.

  Theorem batch_slice_bw_transpose d s :
    In (d, s) (batch_slice_bw sy sx off) <-> In (s, (0, d)) (batch_slice_fw sx sy off).
  Proof. rewrite batch_slice_bw_eq. apply transpose_In. exact batch_slice_fw_single. Qed.

  Theorem batch_slice_bw_spec d s :
    In (d, s) (batch_slice_bw sy sx off) <->
    exists b i, b < By /\ i < V /\ d = (b + off) * V + i /\ s = b * V + i.
  Proof.
    rewrite batch_slice_bw_transpose, batch_slice_fw_spec. split.
    - intros [b [i [Hb [Hi [_ [-> ->]]]]]]. exists b, i. auto.
    - intros [b [i [Hb [Hi [-> ->]]]]]. exists b, i. auto.
  Qed.

  (* every element of gy is consumed exactly once, in order *)
  Theorem batch_slice_bw_src_sequential : map snd (batch_slice_bw sy sx off) = seq 0 (tsize sy).
  Proof. rewrite batch_slice_bw_eq, transpose_src. exact batch_slice_fw_sequential. Qed.

  Theorem batch_slice_pair :
    adjoint_pair (batch_slice_fw sx sy off) (batch_slice_bw sy sx off) (tsize sy) (tsize sx).
  Proof.
    rewrite batch_slice_bw_eq. apply adjoint_pair_literal.
    - exact batch_slice_fw_sequential.
    - exact batch_slice_fw_single.
    - exact batch_slice_fw_in_bounds.
  Qed.

  Theorem batch_slice_bw_in_bounds : acc_in_bounds (batch_slice_bw sy sx off) (tsize sx) (tsize sy).
  Proof. exact (proj2 (proj2 batch_slice_pair)). Qed.
End BatchSlice.

(* ================================================================== batch_pick
   shape_ops::batch_pick: ids non-empty, every ids[i] < x.batch(); y = x.resize_batch(ids.size()).
   Device::batch_pick_bw additionally checks gy.shape() == batch_pick(gx.shape(), ids). *)
Section BatchPick.
  Variables (sx sy : tshape) (ids : list nat) (V B Bx : nat).
  Hypothesis Hvx : tvolume sx = V.
  Hypothesis Hvy : tvolume sy = V.
  Hypothesis Hby : tbatch sy = B.
  Hypothesis Hbx : tbatch sx = Bx.
  Hypothesis Hlen : length ids = B.
  Hypothesis Hids : forall b, b < B -> nth b ids 0 < Bx.

  Theorem batch_pick_fw_sequential : sequential (batch_pick_fw sx sy ids) (tsize sy).
  Proof.
    unfold sequential, batch_pick_fw, tsize. rewrite Hvx, Hvy, Hby.
    apply (seq_blocks fst B V 0). intros b Hb. apply map_seq_off. intros j Hj. cbn [fst]. lia.
  Qed.

  (* whole samples: sample b of y is sample ids[b] of x *)
  Theorem batch_pick_fw_spec d k s :
    In (d, (k, s)) (batch_pick_fw sx sy ids) <->
    exists b i, b < B /\ i < V /\ k = 0 /\ d = b * V + i /\ s = nth b ids 0 * V + i.
  Proof.
    unfold batch_pick_fw. rewrite Hvx, Hby, In_flat_map2. split.
    - intros [b [Hb H]]. apply In_map_range in H. destruct H as [j [Hj E]].
      injection E as Ed Ek Es. subst d k s. exists b, j. repeat split; try assumption. lia.
    - intros [b [i [Hb [Hi [-> [-> ->]]]]]]. exists b. split; [exact Hb|].
      apply In_map_range. exists i. split; [exact Hi|]. f_equal. f_equal. lia.
  Qed.

  Theorem batch_pick_fw_in_bounds : mov_in_bounds (batch_pick_fw sx sy ids) [tsize sx].
  Proof.
    mov_forall batch_pick_fw_spec. destruct Hin as [b [i [Hb [Hi [-> [_ ->]]]]]].
    cbn [nth]. unfold tsize. rewrite Hvx, Hbx. apply sample_lt; [apply Hids; exact Hb|exact Hi].
  Qed.

  Lemma batch_pick_fw_single : single (batch_pick_fw sx sy ids).
  Proof. mov_forall batch_pick_fw_spec. destruct Hin as [b [i [_ [_ [-> _]]]]]. reflexivity. Qed.

  Lemma batch_pick_bw_eq : batch_pick_bw sy sx ids = transpose (batch_pick_fw sx sy ids).
  Proof.
    unfold batch_pick_bw, batch_pick_fw, transpose. rewrite map_flat_map2.
    apply flat_map2_ext. intro b. rewrite map_map. reflexivity.
  Qed.

  Theorem batch_pick_bw_transpose d s :
    In (d, s) (batch_pick_bw sy sx ids) <-> In (s, (0, d)) (batch_pick_fw sx sy ids).
  Proof. rewrite batch_pick_bw_eq. apply transpose_In. exact batch_pick_fw_single. Qed.

  (* gx sample ids[b] += gy sample b; equal ids accumulate into the same sample *)
  Theorem batch_pick_bw_spec d s :
    In (d, s) (batch_pick_bw sy sx ids) <->
    exists b i, b < B /\ i < V /\ d = nth b ids 0 * V + i /\ s = b * V + i.
  Proof.
    rewrite batch_pick_bw_transpose, batch_pick_fw_spec. split.
    - intros [b [i [Hb [Hi [_ [-> ->]]]]]]. exists b, i. auto.
    - intros [b [i [Hb [Hi [-> ->]]]]]. exists b, i. auto.
  Qed.

  Theorem batch_pick_bw_src_sequential : map snd (batch_pick_bw sy sx ids) = seq 0 (tsize sy).
  Proof. rewrite batch_pick_bw_eq, transpose_src. exact batch_pick_fw_sequential. Qed.

  Theorem batch_pick_pair :
    adjoint_pair (batch_pick_fw sx sy ids) (batch_pick_bw sy sx ids) (tsize sy) (tsize sx).
  Proof.
    rewrite batch_pick_bw_eq. apply adjoint_pair_literal.
    - exact batch_pick_fw_sequential.
    - exact batch_pick_fw_single.
    - exact batch_pick_fw_in_bounds.
  Qed.

  Theorem batch_pick_bw_in_bounds : acc_in_bounds (batch_pick_bw sy sx ids) (tsize sx) (tsize sy).
  Proof. exact (proj2 (proj2 batch_pick_pair)). Qed.
End BatchPick.

(* ================================================================== pick
   shape_ops::pick: ids non-empty; ids.size() = x.batch() or one of them is 1; every ids[i] < x[dim];
   y = x.resize_dim(dim, 1) with batch max(x.batch(), ids.size()).
   Device::pick_bw additionally checks gy.shape() == pick(gx.shape(), ids, dim).
   R is the product of the axes above dim (per sample). *)
Section Pick.
  Variables (sx sy : tshape) (ids : list nat) (dim base n R B Bx : nat).
  Hypothesis Hbase : tlower sy dim = base.
  Hypothesis Hnx : tget sx dim = n.
  Hypothesis Hvy : tvolume sy = base * 1 * R.
  Hypothesis Hvx : tvolume sx = base * n * R.
  Hypothesis Hby : tbatch sy = B.
  Hypothesis Hbx : tbatch sx = Bx.
  Hypothesis Hbc : Bx = B \/ Bx = 1.
  Hypothesis Hic : length ids = B \/ length ids = 1.
  Hypothesis Hids : forall b, b < length ids -> nth b ids 0 < n.
  Hypothesis Hb0 : 0 < base.

  Lemma pick_repeat : tvolume sy / base = R.
  Proof. rewrite Hvy. replace (base * 1 * R) with (R * base) by lia. apply Nat.div_mul. lia. Qed.

  Theorem pick_fw_sequential : sequential (pick_fw sx sy ids dim) (tsize sy).
  Proof.
    unfold sequential, pick_fw, tsize. rewrite Hbase, pick_repeat, Hby, Hvy.
    replace (B * (base * 1 * R)) with (B * (R * base)) by lia.
    apply (seq_blocks fst B (R * base) 0). intros b Hb.
    apply (seq_blocks fst R base (0 + b * (R * base))). intros i Hi.
    apply map_seq_off. intros j Hj. cbn [fst]. lia.
  Qed.

  (* y[low, 0, high] of sample b = x[low, ids[b or 0], high] of sample b (or of the shared sample) *)
  Theorem pick_fw_spec d k s :
    In (d, (k, s)) (pick_fw sx sy ids dim) <->
    exists low high b, low < base /\ high < R /\ b < B /\ k = 0 /\
      d = b * (base * 1 * R) + flat base 1 low 0 high /\
      s = bidx Bx b * (base * n * R) + flat base n low (nth (bidx (length ids) b) ids 0) high.
  Proof.
    unfold pick_fw. rewrite Hbase, pick_repeat, Hby, Hnx, In_flat_map2. split.
    - intros [b [Hb H]]. apply In_flat_map2 in H. destruct H as [i [Hi H]].
      apply In_map_range in H. destruct H as [j [Hj E]]. injection E as Ed Ek Es. subst d k s.
      exists j, i, b. rewrite bidx_skip, bidx_ids, Hbx, Hvx. unfold flat.
      repeat split; try assumption; ring.
    - intros [low [high [b [Hl [Hh [Hb [-> [-> ->]]]]]]]]. exists b. split; [exact Hb|].
      apply In_flat_map2. exists high. split; [exact Hh|]. apply In_map_range. exists low.
      split; [exact Hl|]. rewrite bidx_skip, bidx_ids, Hbx, Hvx. unfold flat. f_equal; [ring|]. f_equal. ring.
  Qed.

  Theorem pick_fw_in_bounds : mov_in_bounds (pick_fw sx sy ids dim) [tsize sx].
  Proof.
    mov_forall pick_fw_spec. destruct Hin as [low [high [b [Hl [Hh [Hb [-> [_ ->]]]]]]]].
    cbn [nth]. unfold tsize. rewrite Hvx, Hbx. apply sample_lt.
    - apply (bidx_lt Bx B b Hb Hbc).
    - apply flat_lt; [exact Hl| |exact Hh]. apply Hids. apply (bidx_lt _ B b Hb Hic).
  Qed.

  Lemma pick_fw_single : single (pick_fw sx sy ids dim).
  Proof. mov_forall pick_fw_spec. destruct Hin as [low [high [b [_ [_ [_ [-> _]]]]]]]. reflexivity. Qed.

  Lemma pick_bw_eq : pick_bw sy sx ids dim = transpose (pick_fw sx sy ids dim).
  Proof.
    unfold pick_bw, pick_fw, transpose. rewrite map_flat_map2.
    apply flat_map2_ext. intro b. rewrite map_flat_map2.
    apply flat_map2_ext. intro i. rewrite map_map. reflexivity.
  Qed.

  (* also when gx has batch 1 and gy batch B: forward reads the shared sample for every b, the
     backward folds the B samples of gy onto it (bidx Bx b = 0) *)
  Theorem pick_bw_transpose d s :
    In (d, s) (pick_bw sy sx ids dim) <-> In (s, (0, d)) (pick_fw sx sy ids dim).
  Proof. rewrite pick_bw_eq. apply transpose_In. exact pick_fw_single. Qed.

  Theorem pick_bw_spec d s :
    In (d, s) (pick_bw sy sx ids dim) <->
    exists low high b, low < base /\ high < R /\ b < B /\
      d = bidx Bx b * (base * n * R) + flat base n low (nth (bidx (length ids) b) ids 0) high /\
      s = b * (base * 1 * R) + flat base 1 low 0 high.
  Proof.
    rewrite pick_bw_transpose, pick_fw_spec. split.
    - intros [low [high [b [Hl [Hh [Hb [_ [-> ->]]]]]]]]. exists low, high, b. auto.
    - intros [low [high [b [Hl [Hh [Hb [-> ->]]]]]]]. exists low, high, b. auto 10.
  Qed.

  Theorem pick_bw_src_sequential : map snd (pick_bw sy sx ids dim) = seq 0 (tsize sy).
  Proof. rewrite pick_bw_eq, transpose_src. exact pick_fw_sequential. Qed.

  Theorem pick_pair :
    adjoint_pair (pick_fw sx sy ids dim) (pick_bw sy sx ids dim) (tsize sy) (tsize sx).
  Proof.
    rewrite pick_bw_eq. apply adjoint_pair_literal.
    - exact pick_fw_sequential.
    - exact pick_fw_single.
    - exact pick_fw_in_bounds.
  Qed.

  Theorem pick_bw_in_bounds : acc_in_bounds (pick_bw sy sx ids dim) (tsize sx) (tsize sy).
  Proof. exact (proj2 (proj2 pick_pair)). Qed.
End Pick.

(* ================================================================== slice_bw
   Device::slice_bw: gy and gx agree on every axis but dim (has_same_loo_dims), compatible
   batches (equal, or one of them 1), and  offset + gy[dim] <= gx[dim]  evaluated in 64 bits
   (unbounded here; the 32-bit wrap of that sum was defect D-slice_bw, repaired in /repo).
   R = product of the axes above dim, per sample. Used by BACKWARD(Slice) and BACKWARD(Split). *)
Lemma bidx_lt_max Bx By b :
  0 < Bx -> Bx = By \/ Bx = 1 \/ By = 1 -> b < Nat.max Bx By -> bidx Bx b < Bx.
Proof. unfold bidx. intros H0 Hc Hb. destruct (Nat.ltb_spec 1 Bx); lia. Qed.

Section SliceBw.
  Variables (sx sy : tshape) (dim off base nx ny R Bx By : nat).
  Hypothesis Hbase : tlower sx dim = base.
  Hypothesis Hbasey : tlower sy dim = base.
  Hypothesis Hnx : tget sx dim = nx.
  Hypothesis Hny : tget sy dim = ny.
  Hypothesis Hvx : tvolume sx = base * nx * R.
  Hypothesis Hvy : tvolume sy = base * ny * R.
  Hypothesis Hbx : tbatch sx = Bx.
  Hypothesis Hby : tbatch sy = By.
  Hypothesis Hcompat : Bx = By \/ Bx = 1 \/ By = 1.
  Hypothesis HBx : 0 < Bx.
  Hypothesis HBy : 0 < By.
  Hypothesis Hoff : off + ny <= nx.
  Hypothesis Hb0 : 0 < base.
  Hypothesis Hn0 : 0 < ny.

  Lemma slice_bw_repeat : tvolume sx / (base * nx) = R.
  Proof. rewrite Hvx. rewrite Nat.mul_comm. apply Nat.div_mul. nia. Qed.

  (* gx[low, j + off, high] of sample b (or the only sample) += gy[low, j, high] of sample b (or the only sample) *)
  Theorem slice_bw_spec d s :
    In (d, s) (slice_bw sy sx dim off) <->
    exists low j high b, low < base /\ j < ny /\ high < R /\ b < Nat.max Bx By /\
      d = bidx Bx b * (base * nx * R) + flat base nx low (j + off) high /\
      s = bidx By b * (base * ny * R) + flat base ny low j high.
  Proof.
    unfold slice_bw. rewrite Hbase, Hnx, Hny, slice_bw_repeat, Hbx, Hby, In_flat_map2. split.
    - intros [b [Hb H]]. apply In_flat_map2 in H. destruct H as [i [Hi H]].
      apply In_map_range in H. destruct H as [j [Hj E]]. injection E as Ed Es. subst d s.
      destruct (run_split base ny j Hb0 Hj) as [low [jj [Hl [Hjj ->]]]].
      exists low, jj, i, b. rewrite !bidx_skip, Hbx, Hby, Hvx, Hvy. unfold flat.
      repeat split; try assumption; ring.
    - intros [low [j [high [b [Hl [Hj [Hh [Hb [-> ->]]]]]]]]]. exists b. split; [exact Hb|].
      apply In_flat_map2. exists high. split; [exact Hh|]. apply In_map_range. exists (low + base * j).
      split; [apply run_lt; assumption|]. rewrite !bidx_skip, Hbx, Hby, Hvx, Hvy. unfold flat. f_equal; ring.
  Qed.

  Theorem slice_bw_in_bounds : acc_in_bounds (slice_bw sy sx dim off) (tsize sx) (tsize sy).
  Proof.
    apply Forall_forall. intros [d s] Hin. cbn [fst snd]. apply slice_bw_spec in Hin.
    destruct Hin as [low [j [high [b [Hl [Hj [Hh [Hb [-> ->]]]]]]]]].
    unfold tsize. rewrite Hvx, Hvy, Hbx, Hby. split; apply sample_lt.
    - apply (bidx_lt_max Bx By); assumption.
    - apply flat_lt; lia.
    - apply (bidx_lt_max By Bx); [assumption|lia|lia].
    - apply flat_lt; lia.
  Qed.

  (* when gy has the full batch: each of its elements is consumed exactly once, in order *)
  Section FullGy.
    Hypothesis Hfold : Bx = By \/ Bx = 1.

    Theorem slice_bw_src_sequential : map snd (slice_bw sy sx dim off) = seq 0 (tsize sy).
    Proof.
      unfold slice_bw, tsize. rewrite Hbase, Hnx, Hny, slice_bw_repeat, Hbx, Hby, Hvy.
      replace (Nat.max Bx By) with By by lia.
      replace (By * (base * ny * R)) with (By * (R * (base * ny))) by ring.
      apply (seq_blocks snd By (R * (base * ny)) 0). intros b Hb.
      apply (seq_blocks snd R (base * ny) (0 + b * (R * (base * ny)))). intros i Hi.
      apply map_seq_off. intros j Hj. cbn [snd]. rewrite bidx_skip, Hby, (bidx_same By b Hb). ring.
    Qed.

    Lemma slice_bw_src_NoDup : NoDup (map snd (slice_bw sy sx dim off)).
    Proof. rewrite slice_bw_src_sequential. apply seq_NoDup. Qed.
  End FullGy.

  Lemma R_pos_of (high b B : nat) : high < R * B -> 0 < R.
  Proof. destruct R; lia. Qed.

  (* same batch on both sides: the transpose of slice_fw *)
  Section SameBatch.
    Hypothesis Hsame : Bx = By.

    Lemma slice_same_sy : tsize sy = base * ny * (R * By).
    Proof. unfold tsize. rewrite Hvy, Hby. ring. Qed.
    Lemma slice_same_sx : tsize sx = base * nx * (R * By).
    Proof. unfold tsize. rewrite Hvx, Hbx, Hsame. ring. Qed.

    Theorem slice_bw_transpose d s :
      In (d, s) (slice_bw sy sx dim off) <-> In (s, (0, d)) (slice_fw sx sy dim off).
    Proof.
      rewrite slice_bw_spec.
      rewrite (slice_fw_spec sx sy dim off base nx ny (R * By) Hbasey Hny Hnx slice_same_sy slice_same_sx Hoff Hb0 Hn0).
      replace (Nat.max Bx By) with By by lia. rewrite Hsame. split.
      - intros [low [j [high [b [Hl [Hj [Hh [Hb [-> ->]]]]]]]]]. exists low, j, (high + R * b).
        rewrite (bidx_same By b Hb), !flat_sample.
        repeat split; try assumption. rewrite (Nat.mul_comm R By). pose proof (sample_lt b By high R Hb Hh). lia.
      - intros [low [j [high [Hl [Hj [Hh [_ [-> ->]]]]]]]].
        pose proof (R_pos_of _ 0 _ Hh) as HR. rewrite (Nat.mul_comm R By) in Hh.
        destruct (sample_split R By high HR Hh) as [b [r [Hb [Hr ->]]]].
        exists low, j, r, b. rewrite (bidx_same By b Hb).
        replace (b * R + r) with (r + R * b) by lia. rewrite !flat_sample. auto 10.
    Qed.

    Theorem slice_pair_same :
      adjoint_pair (slice_fw sx sy dim off) (slice_bw sy sx dim off) (tsize sy) (tsize sx).
    Proof.
      pose proof (slice_fw_spec sx sy dim off base nx ny (R * By) Hbasey Hny Hnx slice_same_sy slice_same_sx Hoff Hb0 Hn0) as Hspec.
      pose proof (slice_fw_sequential sx sy dim off base nx ny (R * By) Hbasey Hny Hnx slice_same_sy slice_same_sx Hoff Hb0 Hn0) as Hseq.
      split; [|split; [apply sequential_covers; exact Hseq|exact slice_bw_in_bounds]].
      apply (transpose_perm _ _ (tsize sy)).
      - apply sequential_covers. exact Hseq.
      - mov_forall Hspec. destruct Hin as [low [j [high [_ [_ [_ [-> _]]]]]]]. reflexivity.
      - apply slice_bw_src_NoDup. left. exact Hsame.
      - exact slice_bw_transpose.
    Qed.
  End SameBatch.

  (* gx has batch 1, gy batch By: every sample b of the forward output is the slice of the ONE
     sample of x, and the backward folds the By samples of gy onto that sample *)
  Section Fold.
    Hypothesis Hone : Bx = 1.
    Let sy1 := mkT (tdims sy) 1.
    Let Vy := base * ny * R.

    Lemma slice_fold_sy1 : tsize sy1 = base * ny * R.
    Proof. unfold tsize, sy1. cbn [tbatch]. change (tvolume (mkT (tdims sy) 1)) with (tvolume sy). rewrite Hvy. lia. Qed.
    Lemma slice_fold_sx : tsize sx = base * nx * R.
    Proof. unfold tsize. rewrite Hvx, Hbx, Hone. lia. Qed.

    Theorem slice_bw_transpose_fold d s :
      In (d, s) (slice_bw sy sx dim off) <->
      In (s, (0, d)) (share_fw By Vy (slice_fw sx sy1 dim off)).
    Proof.
      rewrite slice_bw_spec, share_fw_In.
      replace (Nat.max Bx By) with By by lia. rewrite Hone. split.
      - intros [low [j [high [b [Hl [Hj [Hh [Hb [-> ->]]]]]]]]].
        exists (bidx By b), (flat base ny low j high). split; [apply (bidx_lt_max By Bx); [assumption|lia|lia]|].
        split; [reflexivity|].
        apply (slice_fw_spec sx sy1 dim off base nx ny R Hbasey Hny Hnx slice_fold_sy1 slice_fold_sx Hoff Hb0 Hn0).
        exists low, j, high. rewrite bidx_one. auto 10.
      - intros [b [d0 [Hb [-> Hin]]]].
        apply (slice_fw_spec sx sy1 dim off base nx ny R Hbasey Hny Hnx slice_fold_sy1 slice_fold_sx Hoff Hb0 Hn0) in Hin.
        destruct Hin as [low [j [high [Hl [Hj [Hh [_ [-> ->]]]]]]]].
        exists low, j, high, b. rewrite bidx_one, (bidx_same By b Hb). auto 10.
    Qed.

    Theorem slice_pair_fold :
      adjoint_pair (share_fw By Vy (slice_fw sx sy1 dim off)) (slice_bw sy sx dim off) (tsize sy) (tsize sx).
    Proof.
      pose proof (slice_fw_spec sx sy1 dim off base nx ny R Hbasey Hny Hnx slice_fold_sy1 slice_fold_sx Hoff Hb0 Hn0) as Hspec.
      pose proof (slice_fw_sequential sx sy1 dim off base nx ny R Hbasey Hny Hnx slice_fold_sy1 slice_fold_sx Hoff Hb0 Hn0) as Hseq.
      rewrite slice_fold_sy1 in Hseq.
      assert (Hcov : covers (share_fw By Vy (slice_fw sx sy1 dim off)) (tsize sy)).
      { unfold tsize. rewrite Hby, Hvy. apply sequential_covers. apply share_fw_sequential. exact Hseq. }
      split; [|split; [exact Hcov|exact slice_bw_in_bounds]].
      apply (transpose_perm _ _ (tsize sy)).
      - exact Hcov.
      - apply share_fw_single. mov_forall Hspec. destruct Hin as [low [j [high [_ [_ [_ [-> _]]]]]]]. reflexivity.
      - apply slice_bw_src_NoDup. right. exact Hone.
      - exact slice_bw_transpose_fold.
    Qed.
  End Fold.
End SliceBw.

(* ================================================================== inplace_add
   Device::inplace_add(x, y): y += x with same dims and compatible batches. It is the backward
   of copy / reshape / flatten / identity-like operators (gx += gy), x being the incoming
   gradient gy and y the accumulator gx. *)
Section InplaceAdd.
  Variables (sx sy : tshape) (V Bx By : nat).
  Hypothesis Hvx : tvolume sx = V.
  Hypothesis Hvy : tvolume sy = V.
  Hypothesis Hbx : tbatch sx = Bx.
  Hypothesis Hby : tbatch sy = By.
  Hypothesis Hcompat : Bx = By \/ Bx = 1 \/ By = 1.
  Hypothesis HBx : 0 < Bx.
  Hypothesis HBy : 0 < By.

  Theorem inplace_add_spec d s :
    In (d, s) (inplace_add sx sy) <->
    exists b i, b < Nat.max Bx By /\ i < V /\ d = bidx By b * V + i /\ s = bidx Bx b * V + i.
  Proof.
    unfold inplace_add. rewrite Hvy, Hbx, Hby, In_flat_map2. split.
    - intros [b [Hb H]]. apply In_map_range in H. destruct H as [i [Hi E]]. injection E as Ed Es. subst d s.
      exists b, i. rewrite !bidx_skip, Hbx, Hby. auto.
    - intros [b [i [Hb [Hi [-> ->]]]]]. exists b. split; [exact Hb|]. apply In_map_range. exists i.
      split; [exact Hi|]. rewrite !bidx_skip, Hbx, Hby. reflexivity.
  Qed.

  Theorem inplace_add_in_bounds : acc_in_bounds (inplace_add sx sy) (tsize sy) (tsize sx).
  Proof.
    apply Forall_forall. intros [d s] Hin. cbn [fst snd]. apply inplace_add_spec in Hin.
    destruct Hin as [b [i [Hb [Hi [-> ->]]]]]. unfold tsize. rewrite Hvx, Hvy, Hbx, Hby. split; apply sample_lt.
    - apply (bidx_lt_max By Bx); [assumption|lia|lia].
    - exact Hi.
    - apply (bidx_lt_max Bx By); assumption.
    - exact Hi.
  Qed.

  Section FullSrc.
    Hypothesis Hfold : By = Bx \/ By = 1.

    Theorem inplace_add_src_sequential : map snd (inplace_add sx sy) = seq 0 (tsize sx).
    Proof.
      unfold inplace_add, tsize. rewrite Hvy, Hvx, Hbx, Hby.
      replace (Nat.max Bx By) with Bx by lia.
      apply (seq_blocks snd Bx V 0). intros b Hb.
      apply map_seq_off. intros j Hj. cbn [snd]. rewrite bidx_skip, Hbx, (bidx_same Bx b Hb). lia.
    Qed.
  End FullSrc.

  (* equal batches: the transpose of the identity movement *)
  Section SameBatch.
    Hypothesis Hsame : By = Bx.

    Theorem inplace_add_transpose d s :
      In (d, s) (inplace_add sx sy) <-> In (s, (0, d)) (identity_pairs (tsize sy)).
    Proof.
      rewrite inplace_add_spec, identity_spec. unfold tsize. rewrite Hvy, Hby, Hsame.
      replace (Nat.max Bx Bx) with Bx by lia. split.
      - intros [b [i [Hb [Hi [-> ->]]]]]. rewrite (bidx_same Bx b Hb).
        split; [apply sample_lt; assumption|auto].
      - intros [Hs [_ ->]]. destruct V as [|V'] eqn:EV; [lia|].
        destruct (sample_split (S V') Bx s ltac:(lia) Hs) as [b [r [Hb [Hr ->]]]].
        exists b, r. rewrite (bidx_same Bx b Hb). auto.
    Qed.

    Theorem inplace_add_pair_same :
      adjoint_pair (identity_pairs (tsize sy)) (inplace_add sx sy) (tsize sx) (tsize sy).
    Proof.
      assert (E : tsize sx = tsize sy) by (unfold tsize; rewrite Hvx, Hvy, Hbx, Hby, Hsame; reflexivity).
      assert (Hcov : covers (identity_pairs (tsize sy)) (tsize sx)).
      { rewrite E. apply sequential_covers. apply identity_sequential. }
      split; [|split; [exact Hcov|exact inplace_add_in_bounds]].
      apply (transpose_perm _ _ (tsize sx)).
      - exact Hcov.
      - apply identity_single.
      - rewrite inplace_add_src_sequential by (left; exact Hsame). apply seq_NoDup.
      - exact inplace_add_transpose.
    Qed.
  End SameBatch.

  (* accumulator of batch 1, incoming gradient of batch Bx: the forward shared the single sample
     among Bx output samples; the backward folds them back *)
  Section Fold.
    Hypothesis Hone : By = 1.

    Theorem inplace_add_transpose_fold d s :
      In (d, s) (inplace_add sx sy) <-> In (s, (0, d)) (share_fw Bx V (identity_pairs V)).
    Proof.
      rewrite inplace_add_spec, share_fw_In. replace (Nat.max Bx By) with Bx by lia. rewrite Hone. split.
      - intros [b [i [Hb [Hi [-> ->]]]]]. rewrite bidx_one, (bidx_same Bx b Hb).
        exists b, i. split; [exact Hb|]. split; [reflexivity|]. apply identity_spec. auto.
      - intros [b [d0 [Hb [-> Hin]]]]. apply identity_spec in Hin. destruct Hin as [Hd [_ ->]].
        exists b, d0. rewrite bidx_one, (bidx_same Bx b Hb). auto.
    Qed.

    Theorem inplace_add_pair_fold :
      adjoint_pair (share_fw Bx V (identity_pairs V)) (inplace_add sx sy) (tsize sx) (tsize sy).
    Proof.
      assert (Hcov : covers (share_fw Bx V (identity_pairs V)) (tsize sx)).
      { unfold tsize. rewrite Hvx, Hbx. apply sequential_covers. apply share_fw_sequential. apply identity_sequential. }
      split; [|split; [exact Hcov|exact inplace_add_in_bounds]].
      apply (transpose_perm _ _ (tsize sx)).
      - exact Hcov.
      - apply share_fw_single. apply identity_single.
      - rewrite inplace_add_src_sequential by (right; exact Hone). apply seq_NoDup.
      - exact inplace_add_transpose_fold.
    Qed.
  End Fold.
End InplaceAdd.

(* ================================================================== broadcast_fw
   shape_ops::broadcast: x[dim] = 1, size > 0, y = x.resize_dim(dim, size).
   Rt = product of the axes above dim times the batch (as R in Section Slice). *)
Section Broadcast.
  Variables (sx sy : tshape) (dim size base Rt : nat).
  Hypothesis Hbase : tlower sy dim = base.
  Hypothesis Hsx : tsize sx = base * 1 * Rt.
  Hypothesis Hsy : tsize sy = base * size * Rt.
  Hypothesis Hb0 : 0 < base.
  Hypothesis Hs0 : 0 < size.

  (* y[low, j, high] = x[low, 0, high] for every j < size *)
  Theorem broadcast_fw_spec d k s :
    In (d, (k, s)) (broadcast_fw sx sy dim size) <->
    exists low j high, low < base /\ j < size /\ high < Rt /\ k = 0 /\
      d = flat base size low j high /\ s = flat base 1 low 0 high.
  Proof.
    unfold broadcast_fw. rewrite Hbase, Hsx, In_flat_map2. split.
    - intros [i [Hi H]]. apply In_map_range in H. destruct H as [j [Hj E]]. injection E as Ed Ek Es. subst d k s.
      replace (base * 1 * Rt) with (base * Rt) in Hi by lia.
      destruct (run_split base Rt i Hb0 Hi) as [low [high [Hl [Hh ->]]]].
      exists low, j, high. pose proof (axis_offset base size low high Hl) as Ha. cbv zeta in Ha.
      rewrite Ha. unfold flat. repeat split; try assumption; ring.
    - intros [low [j [high [Hl [Hj [Hh [-> [-> ->]]]]]]]]. exists (low + base * high). split.
      + pose proof (run_lt base Rt low high Hl Hh). lia.
      + apply In_map_range. exists j. split; [exact Hj|].
        pose proof (axis_offset base size low high Hl) as Ha. cbv zeta in Ha. rewrite Ha.
        unfold flat. f_equal; [ring|]. f_equal. ring.
  Qed.

  Theorem broadcast_fw_in_bounds : mov_in_bounds (broadcast_fw sx sy dim size) [tsize sx].
  Proof.
    mov_forall broadcast_fw_spec. destruct Hin as [low [j [high [Hl [Hj [Hh [-> [_ ->]]]]]]]].
    cbn [nth]. rewrite Hsx. apply flat_lt; lia.
  Qed.

  Lemma broadcast_fw_single : single (broadcast_fw sx sy dim size).
  Proof. mov_forall broadcast_fw_spec. destruct Hin as [low [j [high [_ [_ [_ [-> _]]]]]]]. reflexivity. Qed.

  (* the writes are strided, not sequential: every output element is written exactly once *)
  Theorem broadcast_fw_covers : covers (broadcast_fw sx sy dim size) (tsize sy).
  Proof.
    apply covers_by_count.
    - unfold broadcast_fw. rewrite (length_flat_map2 (tsize sx) size).
      + rewrite Hsx, Hsy. ring.
      + intros i _. apply length_map_range.
    - intros d Hd. rewrite Hsy in Hd.
      destruct (flat_split base size Rt d Hb0 Hs0 Hd) as [low [j [high [Hl [Hj [Hh ->]]]]]].
      apply in_map_iff. exists (flat base size low j high, (0, flat base 1 low 0 high)).
      split; [reflexivity|]. apply broadcast_fw_spec. exists low, j, high. auto 10.
  Qed.
End Broadcast.

(* ================================================================== prefix sums *)
Definition sumn (l : list nat) : nat := fold_right Nat.add 0 l.

Lemma sumn_cons x l : sumn (x :: l) = x + sumn l.  Proof. reflexivity. Qed.
Lemma sumn_app a b : sumn (a ++ b) = sumn a + sumn b.
Proof. induction a as [|x a IH]; cbn [app]; rewrite ?sumn_cons; [reflexivity|]. rewrite IH. lia. Qed.

(* an index below the total lies in exactly one block of the partition *)
Lemma prefix_lookup {A} (f : A -> nat) (xs : list A) : forall kk, kk < sumn (map f xs) ->
  exists k x j, nth_error xs k = Some x /\ j < f x /\ kk = sumn (map f (firstn k xs)) + j.
Proof.
  induction xs as [|a xs IH]; intros kk Hk; cbn [map] in Hk; rewrite ?sumn_cons in Hk; [cbn in Hk; lia|].
  destruct (Nat.lt_ge_cases kk (f a)) as [Hlt|Hge].
  - exists 0, a, kk. cbn. auto.
  - destruct (IH (kk - f a) ltac:(lia)) as [k [x [j [Hn [Hj E]]]]].
    exists (S k), x, j. cbn [nth_error firstn map]. rewrite sumn_cons. repeat split; try assumption. lia.
Qed.

Lemma sumn_firstn_le {A} (f : A -> nat) (xs : list A) k x :
  nth_error xs k = Some x -> sumn (map f (firstn k xs)) + f x <= sumn (map f xs).
Proof.
  revert k. induction xs as [|a xs IH]; intros k Hn; [destruct k; discriminate|].
  destruct k as [|k]; cbn [nth_error firstn map] in *; rewrite ?sumn_cons.
  - injection Hn as ->. cbn. lia.
  - specialize (IH k Hn). lia.
Qed.

Lemma nth_map_error {A} (f : A -> nat) (xs : list A) k x dflt :
  nth_error xs k = Some x -> nth k (map f xs) dflt = f x.
Proof.
  revert k. induction xs as [|a xs IH]; intros k Hn; [destruct k; discriminate|].
  destruct k as [|k]; cbn [nth_error map nth] in *; [injection Hn as ->; reflexivity|apply IH; exact Hn].
Qed.

(* ================================================================== batch_concat_fw
   shape_ops::batch_concat: all operands have the same dims; y has batch sum of the batches. *)
Lemma batch_concat_loop_fst xs : forall k o,
  map fst (batch_concat_loop xs k o) = seq o (sumn (map tsize xs)).
Proof.
  induction xs as [|a xs IH]; intros k o; cbn [batch_concat_loop map]; [reflexivity|].
  rewrite sumn_cons, map_app, IH, seq_app. f_equal.
  apply map_seq_off. intros; reflexivity.
Qed.

Lemma batch_concat_loop_In xs : forall k0 o d k s,
  In (d, (k, s)) (batch_concat_loop xs k0 o) <->
  exists i sx, nth_error xs i = Some sx /\ k = k0 + i /\ s < tsize sx /\
               d = o + sumn (map tsize (firstn i xs)) + s.
Proof.
  induction xs as [|a xs IH]; intros k0 o d k s; cbn [batch_concat_loop].
  - split; [intros []|]. intros [i [sx [Hn _]]]. destruct i; discriminate.
  - rewrite in_app_iff, In_map_range, IH. split.
    + intros [[j [Hj E]]|[i [sx [Hn [-> [Hs ->]]]]]].
      * injection E as -> -> ->. exists 0, a. cbn. repeat split; try assumption; lia.
      * exists (S i), sx. cbn [nth_error firstn map]. rewrite sumn_cons. repeat split; try assumption; lia.
    + intros [[|i] [sx [Hn [-> [Hs ->]]]]]; cbn [nth_error firstn map] in *.
      * injection Hn as ->. left. exists s. split; [exact Hs|]. f_equal; [cbn; lia|]. f_equal. lia.
      * right. exists i, sx. rewrite sumn_cons. repeat split; try assumption; lia.
Qed.

(* operand k occupies the element range [sum of the earlier sizes, + its size), in order *)
Theorem batch_concat_fw_spec xs d k s :
  In (d, (k, s)) (batch_concat_fw xs) <->
  exists sx, nth_error xs k = Some sx /\ s < tsize sx /\ d = sumn (map tsize (firstn k xs)) + s.
Proof.
  unfold batch_concat_fw. rewrite batch_concat_loop_In. split.
  - intros [i [sx [Hn [-> [Hs ->]]]]]. exists sx. cbn. auto.
  - intros [sx [Hn [Hs ->]]]. exists k, sx. cbn. auto.
Qed.

Theorem batch_concat_fw_sequential_sum xs : sequential (batch_concat_fw xs) (sumn (map tsize xs)).
Proof. unfold sequential, batch_concat_fw. apply batch_concat_loop_fst. Qed.

(* each operand is read inside its own buffer - no precondition at all *)
Theorem batch_concat_fw_in_bounds xs : mov_in_bounds (batch_concat_fw xs) (map tsize xs).
Proof.
  mov_forall batch_concat_fw_spec. destruct Hin as [sx [Hn [Hs _]]].
  rewrite (nth_map_error tsize xs k sx 0 Hn). exact Hs.
Qed.

Lemma same_volume_sizes V xs : Forall (fun sx => tvolume sx = V) xs ->
  sumn (map tsize xs) = sumn (map tbatch xs) * V.
Proof.
  induction 1 as [|a xs Ha _ IH]; cbn [map]; rewrite ?sumn_cons; [reflexivity|].
  rewrite IH. unfold tsize. rewrite Ha. ring.
Qed.

Lemma Forall_firstn_of {A} (P : A -> Prop) k (xs : list A) : Forall P xs -> Forall P (firstn k xs).
Proof.
  intro H. rewrite <- (firstn_skipn k xs) in H. apply Forall_app in H. tauto.
Qed.

Section BatchConcat.
  Variables (xs : list tshape) (sy : tshape) (V : nat).
  Hypothesis Hvs : Forall (fun sx => tvolume sx = V) xs.
  Hypothesis Hvy : tvolume sy = V.
  Hypothesis Hby : tbatch sy = sumn (map tbatch xs).
  Hypothesis HV : 0 < V.

  Theorem batch_concat_fw_sequential : sequential (batch_concat_fw xs) (tsize sy).
  Proof.
    unfold tsize. rewrite Hvy, Hby, <- (same_volume_sizes V xs Hvs). apply batch_concat_fw_sequential_sum.
  Qed.

  (* whole samples: sample b of operand k is sample (batches of the earlier operands) + b of y *)
  Theorem batch_concat_fw_spec_samples d k s :
    In (d, (k, s)) (batch_concat_fw xs) <->
    exists sx b i, nth_error xs k = Some sx /\ b < tbatch sx /\ i < V /\
      d = (sumn (map tbatch (firstn k xs)) + b) * V + i /\ s = b * V + i.
  Proof.
    rewrite batch_concat_fw_spec. split.
    - intros [sx [Hn [Hs ->]]].
      assert (Hv : tvolume sx = V) by (apply (proj1 (Forall_forall _ _) Hvs); apply (nth_error_In _ _ Hn)).
      unfold tsize in Hs. rewrite Hv in Hs.
      destruct (sample_split V (tbatch sx) s HV Hs) as [b [i [Hb [Hi ->]]]].
      exists sx, b, i. rewrite (same_volume_sizes V _ (Forall_firstn_of _ k xs Hvs)).
      repeat split; try assumption. ring.
    - intros [sx [b [i [Hn [Hb [Hi [-> ->]]]]]]]. exists sx.
      assert (Hv : tvolume sx = V) by (apply (proj1 (Forall_forall _ _) Hvs); apply (nth_error_In _ _ Hn)).
      rewrite (same_volume_sizes V _ (Forall_firstn_of _ k xs Hvs)).
      split; [exact Hn|]. split; [unfold tsize; rewrite Hv; apply sample_lt; assumption|ring].
  Qed.
End BatchConcat.

(* ================================================================== concat_fw
   shape_ops::concat: all operands agree on every axis but dim, batches compatible (each is the
   common batch B or 1), y[dim] = sum of the operands' dim sizes, y batch = B.
   R = product of the axes above dim, per sample. *)
Definition adim (dim : nat) (s : tshape) : nat := tget s dim.

Lemma bidx_skip3 s X R b : b * (thas_batch s * X * R) = bidx (tbatch s) b * (X * R).
Proof. unfold thas_batch, bidx. destruct (1 <? tbatch s); ring. Qed.

Lemma concat_loop_length xs : forall k o B base skip R dim,
  length (concat_loop xs k o B base skip R dim) = B * (R * (base * sumn (map (adim dim) xs))).
Proof.
  induction xs as [|a xs IH]; intros k o B base skip R dim; cbn [concat_loop map]; [cbn; ring|].
  rewrite app_length, IH, sumn_cons.
  rewrite (length_flat_map2 B (R * (base * tget a dim))).
  - unfold adim. ring.
  - intros b _. apply length_flat_map2. intros i _. apply length_map_range.
Qed.

Lemma concat_loop_In xs : forall k0 o B base skip R dim d k s,
  In (d, (k, s)) (concat_loop xs k0 o B base skip R dim) <->
  exists i sx b r j, nth_error xs i = Some sx /\ k = k0 + i /\ b < B /\ r < R /\ j < base * tget sx dim /\
    d = o + base * sumn (map (adim dim) (firstn i xs)) + (b * R + r) * skip + j /\
    s = bidx (tbatch sx) b * (base * tget sx dim * R) + r * (base * tget sx dim) + j.
Proof.
  induction xs as [|a xs IH]; intros k0 o B base skip R dim d k s; cbn [concat_loop].
  - split; [intros []|]. intros [i [sx [b [r [j [Hn _]]]]]]. destruct i; discriminate.
  - rewrite in_app_iff, IH, In_flat_map2. split.
    + intros [[b [Hb H]]|[i [sx [b [r [j [Hn [-> [Hb [Hr [Hj [-> ->]]]]]]]]]]]].
      * apply In_flat_map2 in H. destruct H as [r [Hr H]]. apply In_map_range in H.
        destruct H as [j [Hj E]]. injection E as -> -> ->.
        exists 0, a, b, r, j. cbn [nth_error firstn map sumn fold_right]. rewrite bidx_skip3.
        repeat split; try assumption; lia.
      * exists (S i), sx, b, r, j. cbn [nth_error firstn map]. rewrite sumn_cons. unfold adim.
        repeat split; try assumption; lia.
    + intros [[|i] [sx [b [r [j [Hn [-> [Hb [Hr [Hj [-> ->]]]]]]]]]]]; cbn [nth_error firstn map] in *.
      * injection Hn as ->. left. exists b. split; [exact Hb|]. apply In_flat_map2. exists r.
        split; [exact Hr|]. apply In_map_range. exists j. split; [exact Hj|]. rewrite bidx_skip3.
        f_equal; [cbn; lia|]. f_equal. lia.
      * right. exists i, sx, b, r, j. rewrite sumn_cons. unfold adim.
        repeat split; try assumption; lia.
Qed.

Section Concat.
  Variables (xs : list tshape) (sy : tshape) (dim base ny R B : nat).
  Hypothesis Hbase : tlower sy dim = base.
  Hypothesis Hny : tget sy dim = ny.
  Hypothesis Hsum : ny = sumn (map (adim dim) xs).
  Hypothesis Hvy : tvolume sy = base * ny * R.
  Hypothesis Hby : tbatch sy = B.
  Hypothesis Hxs : Forall (fun sx => tvolume sx = base * tget sx dim * R /\
                                     (tbatch sx = B \/ tbatch sx = 1)) xs.
  Hypothesis Hb0 : 0 < base.
  Hypothesis Hn0 : 0 < ny.

  (* axis offset of operand k inside y: the sum of the earlier operands' sizes along dim *)
  Definition concat_off (k : nat) : nat := sumn (map (adim dim) (firstn k xs)).

  Lemma concat_repeat : tvolume sy / (base * ny) = R.
  Proof. rewrite Hvy. rewrite Nat.mul_comm. apply Nat.div_mul. nia. Qed.

  (* y[low, off_k + j, high] of sample b = x_k[low, j, high] of sample b (or of its only sample) *)
  Theorem concat_fw_spec d k s :
    In (d, (k, s)) (concat_fw xs sy dim) <->
    exists sx low j high b, nth_error xs k = Some sx /\
      low < base /\ j < tget sx dim /\ high < R /\ b < B /\
      d = b * (base * ny * R) + flat base ny low (concat_off k + j) high /\
      s = bidx (tbatch sx) b * (base * tget sx dim * R) + flat base (tget sx dim) low j high.
  Proof.
    unfold concat_fw. rewrite Hbase, Hny, concat_repeat, Hby, concat_loop_In. unfold concat_off. split.
    - intros [i [sx [b [r [j [Hn [-> [Hb [Hr [Hj [-> ->]]]]]]]]]]].
      destruct (run_split base (tget sx dim) j Hb0 Hj) as [low [jj [Hl [Hjj ->]]]].
      exists sx, low, jj, r, b. cbn [Nat.add]. unfold flat. repeat split; try assumption; ring.
    - intros [sx [low [j [high [b [Hn [Hl [Hj [Hh [Hb [-> ->]]]]]]]]]]].
      exists k, sx, b, high, (low + base * j). cbn [Nat.add]. unfold flat.
      repeat split; try assumption; try ring. apply run_lt; assumption.
  Qed.

  Lemma concat_operand sx k : nth_error xs k = Some sx ->
    tvolume sx = base * tget sx dim * R /\ (tbatch sx = B \/ tbatch sx = 1).
  Proof. intro Hn. apply (proj1 (Forall_forall _ _) Hxs). apply (nth_error_In _ _ Hn). Qed.

  (* operand k is only read inside its own buffer *)
  Theorem concat_fw_in_bounds : mov_in_bounds (concat_fw xs sy dim) (map tsize xs).
  Proof.
    mov_forall concat_fw_spec.
    destruct Hin as [sx [low [j [high [b [Hn [Hl [Hj [Hh [Hb [_ ->]]]]]]]]]]].
    rewrite (nth_map_error tsize xs k sx 0 Hn). destruct (concat_operand sx k Hn) as [Hv Hc].
    unfold tsize. rewrite Hv. apply sample_lt.
    - apply (bidx_lt _ B b Hb Hc).
    - apply flat_lt; assumption.
  Qed.

  (* the operands' blocks interleave in y: every output element is written exactly once *)
  Theorem concat_fw_covers : covers (concat_fw xs sy dim) (tsize sy).
  Proof.
    apply covers_by_count.
    - unfold concat_fw. rewrite concat_loop_length, Hbase, Hny, concat_repeat, Hby, <- Hsum.
      unfold tsize. rewrite Hby, Hvy. ring.
    - intros d Hd. unfold tsize in Hd. rewrite Hby, Hvy in Hd.
      assert (HV : 0 < base * ny * R) by (destruct (base * ny * R); lia).
      destruct (sample_split _ B d HV Hd) as [b [r0 [Hb [Hr0 ->]]]].
      destruct (flat_split base ny R r0 Hb0 Hn0 Hr0) as [low [kk [high [Hl [Hk [Hh ->]]]]]].
      rewrite Hsum in Hk. destruct (prefix_lookup (adim dim) xs kk Hk) as [k [sx [j [Hn [Hj ->]]]]].
      apply in_map_iff.
      exists (b * (base * ny * R) + flat base ny low (concat_off k + j) high,
              (k, bidx (tbatch sx) b * (base * tget sx dim * R) + flat base (tget sx dim) low j high)).
      split; [reflexivity|]. apply concat_fw_spec. exists sx, low, j, high, b. auto 12.
  Qed.

  (* the axis ranges of the operands partition [0, ny) *)
  Lemma concat_off_range sx k : nth_error xs k = Some sx -> concat_off k + tget sx dim <= ny.
  Proof. intro Hn. rewrite Hsum. apply (sumn_firstn_le (adim dim) xs k sx Hn). Qed.
End Concat.
