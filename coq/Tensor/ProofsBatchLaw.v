(* C03, parts 2-4: the PROGRAM-LEVEL minibatch law for an extended operator set.

   xexpr extends the expression language of ProofsBilinear (`expr`: Leaf | Un | Bin | Scal, the
   elementwise operators) by the operators whose kernels are data movements, reductions and
   bilinear forms; every operator is evaluated through its real index program of Tensor/Kernels.v
   (xeval), at the result shape the shape rule of core/shape_ops.cc prescribes.

   Functions of primitiv::functions covered by the language (T abstract; every kernel of
   devices/naive/ops/*.cc that they reach is the modelled one):
     Leaf        input, parameter, constant / zeros / ones / identity / random_xxx (as data), copy
     XUn         negate, sqrt, exp, log, tanh, sigmoid, softplus, sin, cos, tan, relu, lrelu, prelu,
                 elu, abs (pown, pow with constant exponent, x+k, x-k, k-x, x*k, x/k, k/x: CPUDEV_FW_X_CONST)
     XBin        add, subtract, multiply, divide, pow (tensor, tensor)
     XScal       the same with a scalar-shaped second operand (CPUDEV_FW_X_SCALAR_R, _L)
     XSlice      slice, split (= n slices)
     XPick       pick
     XConcat     concat
     XBroadcast  broadcast
     XFlip       flip
     XTranspose  transpose
     XPermute    permute_dims
     XReduce     sum, max, min, logsumexp (value along an axis; mean = sum / n; softmax, log_softmax,
                 softmax_cross_entropy are the programs x_softmax, x_log_softmax, x_softmax_cross_entropy(_ids)
                 below: compositions of XReduce, XBroadcast, XPick and elementwise operators, as in tensor_funcs.cc)
     XMatmul     matmul
     XConv2d     conv2d
     XPool2d     max_pool2d
     XReshape    reshape, flatten, copy (the kernel is a plain copy)
   NOT covered: argmax / argmin (integer
   results, outside the Tensor value type), dropout (random mask), the in-place `+=`, and the batch
   namespace batch::{sum, mean, normalize, concat, slice, pick, split}, which is exactly the set
   that does NOT satisfy the law (batch_*_moves below). *)
From Coq Require Import List Arith Lia Permutation Bool.
From PV Require Import Tensor.Kernels Tensor.Index Tensor.KernelProofs Tensor.ProofsBilinear
                       Tensor.ProofsGather Tensor.ProofsPerm Tensor.ProofsBatchSample.
Import ListNotations.

(* ================================================================== same dims (Shape::has_same_dims) *)
Definition same_dims (sa sb : tshape) : Prop := forall i, tget sa i = tget sb i.

Lemma same_dims_volume sa sb : same_dims sa sb -> tvolume sa = tvolume sb.
Proof.
  intro H. set (k := Nat.max (tdepth sa) (tdepth sb)).
  rewrite <- (tlower_all sa k), <- (tlower_all sb k) by (unfold k; lia).
  rewrite !tlower_prod. f_equal. apply map_ext. intro i. apply H.
Qed.

Lemma tdims_same_dims sa sb : tdims sa = tdims sb -> same_dims sa sb.
Proof. intros E i. unfold tget. rewrite E. reflexivity. Qed.

Lemma concat_shape_twf xs dim : xs <> [] -> Forall twf xs -> twf (concat_shape xs dim).
Proof.
  intros Hne Hwf. unfold concat_shape. destruct xs as [|s xs]; [congruence|]. cbn [hd map].
  inversion Hwf as [|? ? Hs _]; subst. apply twf_with_batch.
  - apply twf_set_dim; [exact Hs|]. rewrite sumn_cons. pose proof (tget_pos s dim Hs). unfold adim. lia.
  - apply maxb_ge.
Qed.

Section ProgramExt.
  Variable T : Type.
  Variables (zero : T) (add mul : T -> T -> T).

  Inductive xexpr : Type :=
  | XLeaf (s : tshape) (v : list T)
  | XUn (f : T -> T) (e : xexpr)
  | XBin (op : T -> T -> T) (e1 e2 : xexpr)
  | XScal (op : T -> T -> T) (e k : xexpr)
  | XSlice (dim off n : nat) (e : xexpr)                       (* x[.., off .. off+n-1, ..] along dim *)
  | XPick (ids : list nat) (dim : nat) (e : xexpr)             (* ids: one per sample, or one shared *)
  | XConcat (dim : nat) (es : list xexpr)
  | XBroadcast (dim size : nat) (e : xexpr)
  | XFlip (dim : nat) (e : xexpr)
  | XTranspose (e : xexpr)
  | XPermute (perm : list nat) (e : xexpr)
  | XReduce (f : list T -> T) (dim : nat) (e : xexpr)          (* f = the per-slice fold: sum, max, min, logsumexp *)
  | XMatmul (e1 e2 : xexpr)
  | XConv2d (p0 p1 s0 s1 d0 d1 : nat) (e w : xexpr)
  | XPool2d (f : list T -> T) (w0 w1 p0 p1 s0 s1 : nat) (e : xexpr)
  | XReshape (dims : list nat) (e : xexpr).                    (* reshape, flatten, copy: a plain copy *)

  (* induction principle with the hypothesis for every operand of concat *)
  Section XInd.
    Variable P : xexpr -> Prop.
    Hypothesis HLeaf : forall s v, P (XLeaf s v).
    Hypothesis HUn : forall f e, P e -> P (XUn f e).
    Hypothesis HBin : forall op e1 e2, P e1 -> P e2 -> P (XBin op e1 e2).
    Hypothesis HScal : forall op e k, P e -> P k -> P (XScal op e k).
    Hypothesis HSlice : forall dim off n e, P e -> P (XSlice dim off n e).
    Hypothesis HPick : forall ids dim e, P e -> P (XPick ids dim e).
    Hypothesis HConcat : forall dim es, Forall P es -> P (XConcat dim es).
    Hypothesis HBroadcast : forall dim size e, P e -> P (XBroadcast dim size e).
    Hypothesis HFlip : forall dim e, P e -> P (XFlip dim e).
    Hypothesis HTranspose : forall e, P e -> P (XTranspose e).
    Hypothesis HPermute : forall perm e, P e -> P (XPermute perm e).
    Hypothesis HReduce : forall f dim e, P e -> P (XReduce f dim e).
    Hypothesis HMatmul : forall e1 e2, P e1 -> P e2 -> P (XMatmul e1 e2).
    Hypothesis HConv2d : forall p0 p1 s0 s1 d0 d1 e w, P e -> P w -> P (XConv2d p0 p1 s0 s1 d0 d1 e w).
    Hypothesis HPool2d : forall f w0 w1 p0 p1 s0 s1 e, P e -> P (XPool2d f w0 w1 p0 p1 s0 s1 e).
    Hypothesis HReshape : forall dims e, P e -> P (XReshape dims e).

    Fixpoint xexpr_induction (e : xexpr) : P e :=
      match e with
      | XLeaf s v => HLeaf s v
      | XUn f e1 => HUn f e1 (xexpr_induction e1)
      | XBin op e1 e2 => HBin op e1 e2 (xexpr_induction e1) (xexpr_induction e2)
      | XScal op e1 k => HScal op e1 k (xexpr_induction e1) (xexpr_induction k)
      | XSlice dim off n e1 => HSlice dim off n e1 (xexpr_induction e1)
      | XPick ids dim e1 => HPick ids dim e1 (xexpr_induction e1)
      | XConcat dim es =>
          HConcat dim es
            ((fix go (l : list xexpr) : Forall P l :=
                match l with
                | [] => Forall_nil P
                | x :: r => Forall_cons x (xexpr_induction x) (go r)
                end) es)
      | XBroadcast dim size e1 => HBroadcast dim size e1 (xexpr_induction e1)
      | XFlip dim e1 => HFlip dim e1 (xexpr_induction e1)
      | XTranspose e1 => HTranspose e1 (xexpr_induction e1)
      | XPermute perm e1 => HPermute perm e1 (xexpr_induction e1)
      | XReduce f dim e1 => HReduce f dim e1 (xexpr_induction e1)
      | XMatmul e1 e2 => HMatmul e1 e2 (xexpr_induction e1) (xexpr_induction e2)
      | XConv2d p0 p1 s0 s1 d0 d1 e1 w => HConv2d p0 p1 s0 s1 d0 d1 e1 w (xexpr_induction e1) (xexpr_induction w)
      | XPool2d f w0 w1 p0 p1 s0 s1 e1 => HPool2d f w0 w1 p0 p1 s0 s1 e1 (xexpr_induction e1)
      | XReshape dims e1 => HReshape dims e1 (xexpr_induction e1)
      end.
  End XInd.

  (* ---- evaluation on batched operands, through the index programs of the kernels ---- *)
  Fixpoint xeval (e : xexpr) : tshape * list T :=
    match e with
    | XLeaf s v => (s, v)
    | XUn f e1 => let r := xeval e1 in (fst r, un_eval T zero f (tsize (fst r)) (snd r))
    | XBin op e1 e2 =>
        let ra := xeval e1 in let rb := xeval e2 in let sy := rshape (fst ra) (fst rb) in
        (sy, ab_eval T zero op (ab_fw (fst ra) (fst rb) sy) (snd ra) (snd rb))
    | XScal op e1 k =>
        let rx := xeval e1 in let rk := xeval k in let sy := rshape (fst rx) (fst rk) in
        (sy, ab_eval T zero op (scalar_fw (fst rx) (fst rk) sy) (snd rx) (snd rk))
    | XSlice dim off n e1 =>
        let r := xeval e1 in (set_dim (fst r) dim n, slice_val T zero (fst r) dim off n (snd r))
    | XPick ids dim e1 =>
        let r := xeval e1 in (pick_shape (fst r) ids dim, pick_val T zero (fst r) ids dim (snd r))
    | XConcat dim es =>
        let rs := map xeval es in (concat_shape (map fst rs) dim, concat_val T zero rs dim)
    | XBroadcast dim size e1 =>
        let r := xeval e1 in (set_dim (fst r) dim size, broadcast_val T zero (fst r) dim size (snd r))
    | XFlip dim e1 => let r := xeval e1 in (fst r, flip_val T zero (fst r) dim (snd r))
    | XTranspose e1 => let r := xeval e1 in (transpose_shape (fst r), transpose_val T zero (fst r) (snd r))
    | XPermute perm e1 =>
        let r := xeval e1 in (permute_shape (fst r) perm, permute_val T zero (fst r) perm (snd r))
    | XReduce f dim e1 =>
        let r := xeval e1 in (set_dim (fst r) dim 1, reduce_val T zero f (fst r) dim (snd r))
    | XMatmul e1 e2 =>
        let ra := xeval e1 in let rb := xeval e2 in
        (matmul_shape (fst ra) (fst rb), matmul_val T zero add mul (fst ra) (fst rb) (snd ra) (snd rb))
    | XConv2d p0 p1 s0 s1 d0 d1 e1 w =>
        let rx := xeval e1 in let rw := xeval w in
        (conv2d_shape (fst rx) (fst rw) p0 p1 s0 s1 d0 d1,
         conv2d_val T zero add mul (fst rx) (fst rw) p0 p1 s0 s1 d0 d1 (snd rx) (snd rw))
    | XPool2d f w0 w1 p0 p1 s0 s1 e1 =>
        let r := xeval e1 in
        (pool2d_shape (fst r) w0 w1 p0 p1 s0 s1, pool2d_val T zero f (fst r) w0 w1 p0 p1 s0 s1 (snd r))
    | XReshape dims e1 =>
        let r := xeval e1 in (reshape_shape (fst r) dims, copy_val T zero (tsize (fst r)) (snd r))
    end.

  (* ---- accepted by the front end with minibatch size B: every operand batch is 1 or B, and the
     shape rule of the operator (core/shape_ops.cc) holds ---- *)
  Fixpoint xwf (B : nat) (e : xexpr) : Prop :=
    match e with
    | XLeaf s v => twf s /\ (tbatch s = 1 \/ tbatch s = B) /\ length v = tsize s
    | XUn _ e1 => xwf B e1
    | XBin _ e1 e2 => xwf B e1 /\ xwf B e2 /\ same_dims (fst (xeval e1)) (fst (xeval e2))
    | XScal _ e1 k => xwf B e1 /\ xwf B k /\ tvolume (fst (xeval k)) = 1
    | XSlice dim off n e1 => xwf B e1 /\ slice_ok (fst (xeval e1)) dim off n
    | XPick ids dim e1 =>
        xwf B e1 /\ pick_ok (fst (xeval e1)) ids dim /\ (length ids = 1 \/ length ids = B)
    | XConcat dim es =>
        fold_right (fun e1 acc => xwf B e1 /\ acc) True es /\ concat_ok (map fst (map xeval es)) dim
    | XBroadcast dim size e1 => xwf B e1 /\ broadcast_ok (fst (xeval e1)) dim size
    | XFlip _ e1 => xwf B e1
    | XTranspose e1 => xwf B e1 /\ transpose_ok (fst (xeval e1))
    | XPermute perm e1 => xwf B e1 /\ permute_ok (fst (xeval e1)) perm
    | XReduce _ _ e1 => xwf B e1
    | XMatmul e1 e2 => xwf B e1 /\ xwf B e2 /\ matmul_ok (fst (xeval e1)) (fst (xeval e2))
    | XConv2d p0 p1 s0 s1 d0 d1 e1 w =>
        xwf B e1 /\ xwf B w /\ conv2d_ok (fst (xeval e1)) (fst (xeval w)) p0 p1 s0 s1 d0 d1
    | XPool2d _ w0 w1 p0 p1 s0 s1 e1 => xwf B e1 /\ pool2d_ok (fst (xeval e1)) w0 w1 p0 p1 s0 s1
    | XReshape dims e1 => xwf B e1 /\ reshape_ok (fst (xeval e1)) dims
    end.

  (* ---- the same program on the b-th samples alone: every leaf replaced by its sample b (or by
     itself when shared), a per-sample index list of pick by its b-th entry ---- *)
  Fixpoint xsample (b : nat) (e : xexpr) : xexpr :=
    match e with
    | XLeaf s v => XLeaf (unb s) (sample_or_shared s b (tvolume s) v)
    | XUn f e1 => XUn f (xsample b e1)
    | XBin op e1 e2 => XBin op (xsample b e1) (xsample b e2)
    | XScal op e1 k => XScal op (xsample b e1) (xsample b k)
    | XSlice dim off n e1 => XSlice dim off n (xsample b e1)
    | XPick ids dim e1 => XPick [nth (bidx (length ids) b) ids 0] dim (xsample b e1)
    | XConcat dim es => XConcat dim (map (xsample b) es)
    | XBroadcast dim size e1 => XBroadcast dim size (xsample b e1)
    | XFlip dim e1 => XFlip dim (xsample b e1)
    | XTranspose e1 => XTranspose (xsample b e1)
    | XPermute perm e1 => XPermute perm (xsample b e1)
    | XReduce f dim e1 => XReduce f dim (xsample b e1)
    | XMatmul e1 e2 => XMatmul (xsample b e1) (xsample b e2)
    | XConv2d p0 p1 s0 s1 d0 d1 e1 w => XConv2d p0 p1 s0 s1 d0 d1 (xsample b e1) (xsample b w)
    | XPool2d f w0 w1 p0 p1 s0 s1 e1 => XPool2d f w0 w1 p0 p1 s0 s1 (xsample b e1)
    | XReshape dims e1 => XReshape dims (xsample b e1)
    end.

  Lemma xwf_all B es : fold_right (fun e1 acc => xwf B e1 /\ acc) True es <-> Forall (xwf B) es.
  Proof.
    induction es as [|e es IH]; cbn [fold_right]; [split; [constructor|trivial]|].
    rewrite IH. split; [intros [H1 H2]; constructor; assumption|intro H; inversion H; auto].
  Qed.

  (* a result of the front end: well-formed shape, batch 1 or B, as many values as the shape says *)
  Definition good (B : nat) (r : tshape * list T) : Prop :=
    twf (fst r) /\ (tbatch (fst r) = 1 \/ tbatch (fst r) = B) /\ length (snd r) = tsize (fst r).

  Lemma twf_batch_pos s : twf s -> 0 < tbatch s.  Proof. intros [_ H]. exact H. Qed.

  Lemma twf_rshape sa sb : twf sa -> twf sb -> twf (rshape sa sb).
  Proof. intros [H1 H2] [_ H3]. split; [exact H1|]. cbn [rshape tbatch]. lia. Qed.

  Lemma twf_dims2 a b B : 0 < a -> 0 < b -> 0 < B -> twf (mkT [a; b] B).
  Proof. intros. split; [repeat constructor; assumption|assumption]. Qed.

  Lemma twf_dims3 a b c B : 0 < a -> 0 < b -> 0 < c -> 0 < B -> twf (mkT [a; b; c] B).
  Proof. intros. split; [repeat constructor; assumption|assumption]. Qed.

  Theorem xeval_good B e : 0 < B -> xwf B e -> good B (xeval e).
  Proof.
    intro HB. unfold good.
    induction e as [s v|f e IH|op e1 e2 IH1 IH2|op e1 k IH1 IH2|dim off n e IH|ids dim e IH|dim es IH
                   |dim size e IH|dim e IH|e IH|perm e IH|f dim e IH|e1 e2 IH1 IH2
                   |p0 p1 s0 s1 d0 d1 e w IH1 IH2|f w0 w1 p0 p1 s0 s1 e IH|dims e IH] using xexpr_induction;
      cbn [xwf xeval fst snd].
    - tauto.
    - intro H. destruct (IH H) as [H0 [H1 H2]]. split; [exact H0|split; [exact H1|apply un_eval_length]].
    - intros [Hw1 [Hw2 Hd]]. destruct (IH1 Hw1) as [Wa [Ba _]]. destruct (IH2 Hw2) as [Wb [Bb _]].
      split; [apply twf_rshape; assumption|]. split; [cbn [rshape tbatch]; lia|]. rewrite ab_eval_length.
      rewrite (ab_fw_bprog _ _ _ _ _ eq_refl eq_refl), bprog_length. reflexivity.
    - intros [Hw1 [Hw2 Hd]]. destruct (IH1 Hw1) as [Wa [Ba _]]. destruct (IH2 Hw2) as [Wb [Bb _]].
      split; [apply twf_rshape; assumption|]. split; [cbn [rshape tbatch]; lia|]. rewrite ab_eval_length.
      rewrite (scalar_fw_bprog _ _ _ _ _ eq_refl eq_refl), bprog_length. reflexivity.
    - intros [Hw [Hn _]]. destruct (IH Hw) as [W [Bx _]].
      split; [apply twf_set_dim; assumption|]. split; [exact Bx|apply slice_val_length].
    - intros [Hw [[Hl [Hc Hi]] Hlb]]. destruct (IH Hw) as [W [Bx _]]. pose proof (twf_batch_pos _ W) as Hp.
      split; [apply twf_with_batch; [apply twf_set_dim; [exact W|lia]|lia]|].
      split; [cbn [pick_shape with_batch tbatch]; lia|apply mov_eval_length].
    - intros [Hall [Hne Hok]]. apply xwf_all in Hall.
      assert (G : Forall (fun r => twf (fst r) /\ (tbatch (fst r) = 1 \/ tbatch (fst r) = B)) (map xeval es)).
      { rewrite Forall_map. rewrite Forall_forall in IH, Hall. apply Forall_forall. intros e He.
        destruct (IH e He (Hall e He)) as [H1 [H2 _]]. auto. }
      split; [apply concat_shape_twf; [exact Hne|]|split; [|apply mov_eval_length]].
      + rewrite Forall_map. eapply Forall_impl; [|exact G]. cbn beta. tauto.
      + cbn [concat_shape with_batch tbatch].
        apply (maxb_cases (map fst (map xeval es)) B HB). rewrite Forall_map.
        eapply Forall_impl; [|exact G]. cbn beta. tauto.
    - intros [Hw [Hs _]]. destruct (IH Hw) as [W [Bx _]].
      split; [apply twf_set_dim; assumption|]. split; [exact Bx|apply mov_eval_length].
    - intro Hw. destruct (IH Hw) as [W [Bx _]]. split; [exact W|split; [exact Bx|apply mov_eval_length]].
    - intros [Hw Hm]. destruct (IH Hw) as [W [Bx _]].
      split; [apply twf_dims2; [apply tget_pos; exact W|apply tget_pos; exact W|apply W]|].
      split; [exact Bx|apply mov_eval_length].
    - intros [Hw Hp]. destruct (IH Hw) as [W [Bx _]].
      split; [apply permute_shape_twf; exact W|]. split; [exact Bx|apply mov_eval_length].
    - intro Hw. destruct (IH Hw) as [W [Bx _]].
      split; [apply twf_set_dim; [exact W|lia]|]. split; [exact Bx|apply reduce_val_length; exact W].
    - intros [Hw1 [Hw2 Hok]]. destruct (IH1 Hw1) as [Wa [Ba _]]. destruct (IH2 Hw2) as [Wb [Bb _]].
      pose proof (twf_batch_pos _ Wa). pose proof (twf_batch_pos _ Wb).
      split; [apply twf_dims2; [apply tget_pos; exact Wa|apply tget_pos; exact Wb|lia]|].
      split; [cbn [matmul_shape tbatch]; lia|apply matmul_val_length; exact Hok].
    - intros [Hw1 [Hw2 Hok]]. destruct (IH1 Hw1) as [Wa [Ba _]]. destruct (IH2 Hw2) as [Wb [Bb _]].
      pose proof (twf_batch_pos _ Wa). pose proof (twf_batch_pos _ Wb).
      split; [apply twf_dims3; [lia|lia|apply tget_pos; exact Wb|lia]|].
      split; [cbn [conv2d_shape tbatch]; lia|apply conv2d_val_length; assumption].
    - intros [Hw Hok]. destruct (IH Hw) as [W [Bx _]].
      split; [apply twf_dims3; [lia|lia|apply tget_pos; exact W|apply W]|].
      split; [exact Bx|apply pool2d_val_length; assumption].
    - intros [Hw [Hp Hv]]. destruct (IH Hw) as [W [Bx _]].
      split; [split; [exact Hp|apply W]|]. split; [exact Bx|].
      unfold copy_val. rewrite mov_eval_length, !tsize_eq. unfold tvolume at 2, reshape_shape. cbn [tdims tbatch].
      rewrite Hv. reflexivity.
  Qed.

  Notation spair := (sample_pair T).

  (* ---- the three shapes an inductive step takes ---- *)
  (* one operand, result batch = operand batch *)
  Lemma unary_case (shape : tshape -> tshape) (val : tshape -> list T -> list T) sx x b B :
    tbatch sx = 1 \/ tbatch sx = B -> b < B ->
    shape (unb sx) = unb (shape sx) -> tbatch (shape sx) = tbatch sx ->
    (forall b', b' < tbatch sx ->
       block b' (tvolume (shape sx)) (val sx x) = val (unb sx) (block b' (tvolume sx) x)) ->
    (shape (unb sx), val (unb sx) (sample_or_shared sx b (tvolume sx) x)) = spair b (shape sx, val sx x).
  Proof.
    intros Hbx Hb Hs Hbat Hlaw. unfold sample_pair. cbn [fst snd]. rewrite Hs. f_equal.
    unfold sample_or_shared. rewrite (bsel_eq_batch (shape sx) sx b Hbat).
    symmetry. apply Hlaw. apply (bsel_lt sx b B Hbx Hb).
  Qed.

  (* two operands, result batch = the larger one *)
  Lemma binary_case (shape : tshape -> tshape -> tshape) (val : tshape -> tshape -> list T -> list T -> list T)
        sa sb a bb b B :
    tbatch sa = 1 \/ tbatch sa = B -> tbatch sb = 1 \/ tbatch sb = B -> b < B ->
    shape (unb sa) (unb sb) = unb (shape sa sb) -> tbatch (shape sa sb) = Nat.max (tbatch sa) (tbatch sb) ->
    (forall b', b' < tbatch (shape sa sb) ->
       block b' (tvolume (shape sa sb)) (val sa sb a bb)
       = val (unb sa) (unb sb) (sample_or_shared sa b' (tvolume sa) a) (sample_or_shared sb b' (tvolume sb) bb)) ->
    (shape (unb sa) (unb sb),
     val (unb sa) (unb sb) (sample_or_shared sa b (tvolume sa) a) (sample_or_shared sb b (tvolume sb) bb))
    = spair b (shape sa sb, val sa sb a bb).
  Proof.
    intros Ha Hbb Hb Hs Hbat Hlaw. unfold sample_pair. cbn [fst snd]. rewrite Hs. f_equal.
    unfold sample_or_shared at 3. rewrite (Hlaw (bsel (shape sa sb) b)) by (apply (bsel_lt _ b B); [lia|exact Hb]).
    unfold sample_or_shared. rewrite !bsel_idem by lia. reflexivity.
  Qed.

  (* THE THEOREM (C03): evaluating the program on the b-th samples gives sample b of the batched
     evaluation (the single shared sample when the result has batch 1) *)
  Theorem batch_law_program_ext B b e : 0 < B -> b < B -> xwf B e ->
    xeval (xsample b e) = spair b (xeval e).
  Proof.
    intros HB Hb.
    induction e as [s v|f e IH|op e1 e2 IH1 IH2|op e1 k IH1 IH2|dim off n e IH|ids dim e IH|dim es IH
                   |dim size e IH|dim e IH|e IH|perm e IH|f dim e IH|e1 e2 IH1 IH2
                   |p0 p1 s0 s1 d0 d1 e w IH1 IH2|f w0 w1 p0 p1 s0 s1 e IH|dims e IH] using xexpr_induction;
      intro Hw; cbn [xwf] in Hw.
    - reflexivity.
    - (* unary elementwise *)
      destruct (xeval_good B e HB Hw) as [_ [Hs Hl]].
      cbn [xsample xeval]. rewrite (IH Hw). unfold sample_pair. cbn [fst snd]. f_equal.
      rewrite tsize_unb. rewrite <- (sos_length T _ b B _ Hs Hb Hl) at 1. rewrite un_eval_map.
      rewrite <- Hl, un_eval_map. unfold sample_or_shared. rewrite block_map. reflexivity.
    - (* binary elementwise *)
      destruct Hw as [Hw1 [Hw2 Hd]].
      destruct (xeval_good B e1 HB Hw1) as [_ [Ha _]]. destruct (xeval_good B e2 HB Hw2) as [_ [Hbb _]].
      cbn [xsample xeval]. rewrite (IH1 Hw1), (IH2 Hw2). unfold sample_pair. cbn [fst snd].
      set (sa := fst (xeval e1)) in *. set (sb := fst (xeval e2)) in *.
      set (a := snd (xeval e1)). set (bb := snd (xeval e2)). set (sy := rshape sa sb).
      change (rshape (unb sa) (unb sb)) with (unb sy). f_equal.
      change (tvolume sy) with (tvolume sa).
      rewrite <- (same_dims_volume sa sb Hd). unfold sample_or_shared at 3.
      assert (Hby : tbatch sy = Nat.max (tbatch sa) (tbatch sb)) by reflexivity.
      rewrite (ab_fw_batch_law T zero op sa sb sy (tvolume sa) (bsel sy b) a bb eq_refl).
      + unfold sample_or_shared. rewrite !bsel_idem by lia. reflexivity.
      + apply (bsel_lt sy b B); [lia|exact Hb].
    - (* elementwise with a scalar operand *)
      destruct Hw as [Hw1 [Hw2 Hd]].
      destruct (xeval_good B e1 HB Hw1) as [_ [Ha _]]. destruct (xeval_good B k HB Hw2) as [_ [Hbb _]].
      cbn [xsample xeval]. rewrite (IH1 Hw1), (IH2 Hw2). unfold sample_pair. cbn [fst snd].
      set (sx := fst (xeval e1)) in *. set (sk := fst (xeval k)) in *.
      set (x := snd (xeval e1)). set (kv := snd (xeval k)). set (sy := rshape sx sk).
      change (rshape (unb sx) (unb sk)) with (unb sy). f_equal.
      change (tvolume sy) with (tvolume sx). rewrite Hd. unfold sample_or_shared at 3.
      assert (Hby : tbatch sy = Nat.max (tbatch sx) (tbatch sk)) by reflexivity.
      rewrite (scalar_fw_batch_law T zero op sx sk sy (tvolume sx) (bsel sy b) x kv eq_refl).
      + unfold sample_or_shared. rewrite !bsel_idem by lia. reflexivity.
      + apply (bsel_lt sy b B); [lia|exact Hb].
    - (* slice *)
      destruct Hw as [Hw Hok]. destruct (xeval_good B e HB Hw) as [W [Bx _]].
      cbn [xsample xeval]. rewrite (IH Hw). cbn [sample_pair fst snd].
      apply (unary_case (fun s => set_dim s dim n) (fun s => slice_val T zero s dim off n) _ _ b B Bx Hb eq_refl eq_refl).
      intros b' Hb'. apply slice_sample; assumption.
    - (* pick *)
      destruct Hw as [Hw [Hok Hlb]]. destruct (xeval_good B e HB Hw) as [W [Bx _]].
      cbn [xsample xeval]. rewrite (IH Hw). unfold sample_pair. cbn [fst snd].
      set (sx := fst (xeval e)) in *. set (x := snd (xeval e)).
      pose proof (twf_batch_pos _ W) as Hp. pose proof Hok as [Hl _].
      assert (Hby : tbatch (pick_shape sx ids dim) = Nat.max (tbatch sx) (length ids)) by reflexivity.
      assert (Hlt : bsel (pick_shape sx ids dim) b < tbatch (pick_shape sx ids dim))
        by (apply (bsel_lt _ b B); [lia|exact Hb]).
      change (pick_shape (unb sx) [nth (bidx (length ids) b) ids 0] dim) with (unb (pick_shape sx ids dim)).
      f_equal. unfold sample_or_shared at 2.
      rewrite (pick_sample T zero sx ids dim x (bsel (pick_shape sx ids dim) b) W Hok Hlt).
      rewrite bidx_idem by lia. unfold sample_or_shared. rewrite bsel_idem by lia. reflexivity.
    - (* concat *)
      destruct Hw as [Hall Hok]. apply xwf_all in Hall.
      assert (E : map xeval (map (xsample b) es) = map (spair b) (map xeval es)).
      { rewrite !map_map. apply map_ext_in. intros e He. rewrite Forall_forall in IH, Hall.
        apply (IH e He (Hall e He)). }
      cbn [xsample xeval]. rewrite E. set (rs := map xeval es) in *.
      assert (G : Forall (fun r => twf (fst r) /\ (tbatch (fst r) = 1 \/ tbatch (fst r) = B)) rs).
      { unfold rs. rewrite Forall_map. rewrite Forall_forall in Hall. apply Forall_forall. intros e He.
        destruct (xeval_good B e HB (Hall e He)) as [H1 [H2 _]]. auto. }
      assert (Gw : Forall twf (map fst rs)) by (rewrite Forall_map; eapply Forall_impl; [|exact G]; cbn beta; tauto).
      assert (Gb : Forall (fun s => tbatch s = 1 \/ tbatch s = B) (map fst rs))
        by (rewrite Forall_map; eapply Forall_impl; [|exact G]; cbn beta; tauto).
      destruct (maxb_cases _ B HB Gb) as [Hmb _].
      assert (Hby : tbatch (concat_shape (map fst rs) dim) = maxb (map fst rs)) by reflexivity.
      assert (Hlt : bsel (concat_shape (map fst rs) dim) b < maxb (map fst rs))
        by (rewrite <- Hby; apply (bsel_lt _ b B); [lia|exact Hb]).
      change (spair b (concat_shape (map fst rs) dim, concat_val T zero rs dim))
        with (unb (concat_shape (map fst rs) dim),
              sample_or_shared (concat_shape (map fst rs) dim) b (tvolume (concat_shape (map fst rs) dim))
                (concat_val T zero rs dim)).
      f_equal.
      + replace (map fst (map (spair b) rs)) with (map unb (map fst rs)) by (rewrite !map_map; reflexivity).
        apply concat_shape_unb. apply Hok.
      + unfold sample_or_shared.
        rewrite (concat_sample T zero rs dim (bsel (concat_shape (map fst rs) dim) b) Gw Hok Hlt).
        f_equal. apply map_ext_in. intros r Hr. unfold sample_pair. f_equal.
        unfold sample_or_shared. rewrite bsel_idem; [reflexivity|].
        rewrite Hby. apply maxb_le. apply in_map. exact Hr.
    - (* broadcast *)
      destruct Hw as [Hw Hok]. destruct (xeval_good B e HB Hw) as [W [Bx _]].
      cbn [xsample xeval]. rewrite (IH Hw). cbn [sample_pair fst snd].
      apply (unary_case (fun s => set_dim s dim size) (fun s => broadcast_val T zero s dim size) _ _ b B Bx Hb eq_refl eq_refl).
      intros b' Hb'. apply broadcast_sample; assumption.
    - (* flip *)
      destruct (xeval_good B e HB Hw) as [W [Bx _]].
      cbn [xsample xeval]. rewrite (IH Hw). cbn [sample_pair fst snd].
      apply (unary_case (fun s => s) (fun s => flip_val T zero s dim) _ _ b B Bx Hb eq_refl eq_refl).
      intros b' Hb'. apply flip_sample; assumption.
    - (* transpose *)
      destruct Hw as [Hw Hok]. destruct (xeval_good B e HB Hw) as [W [Bx _]].
      cbn [xsample xeval]. rewrite (IH Hw). cbn [sample_pair fst snd].
      apply (unary_case transpose_shape (transpose_val T zero) _ _ b B Bx Hb eq_refl eq_refl).
      intros b' Hb'. apply transpose_sample; assumption.
    - (* permute_dims *)
      destruct Hw as [Hw Hok]. destruct (xeval_good B e HB Hw) as [W [Bx _]].
      cbn [xsample xeval]. rewrite (IH Hw). cbn [sample_pair fst snd].
      apply (unary_case (fun s => permute_shape s perm) (fun s => permute_val T zero s perm) _ _ b B Bx Hb eq_refl eq_refl).
      intros b' Hb'. apply permute_sample; assumption.
    - (* reductions along an axis *)
      destruct (xeval_good B e HB Hw) as [W [Bx _]].
      cbn [xsample xeval]. rewrite (IH Hw). cbn [sample_pair fst snd].
      apply (unary_case (fun s => set_dim s dim 1) (fun s => reduce_val T zero f s dim) _ _ b B Bx Hb eq_refl eq_refl).
      intros b' Hb'. apply reduce_sample; assumption.
    - (* matmul *)
      destruct Hw as [Hw1 [Hw2 Hok]].
      destruct (xeval_good B e1 HB Hw1) as [_ [Ha _]]. destruct (xeval_good B e2 HB Hw2) as [_ [Hbb _]].
      cbn [xsample xeval]. rewrite (IH1 Hw1), (IH2 Hw2). cbn [sample_pair fst snd].
      apply (binary_case matmul_shape (matmul_val T zero add mul) _ _ _ _ b B Ha Hbb Hb eq_refl eq_refl).
      intros b' Hb'. apply matmul_sample; assumption.
    - (* conv2d *)
      destruct Hw as [Hw1 [Hw2 Hok]].
      destruct (xeval_good B e HB Hw1) as [Wa [Ha _]]. destruct (xeval_good B w HB Hw2) as [Wb [Hbb _]].
      cbn [xsample xeval]. rewrite (IH1 Hw1), (IH2 Hw2). cbn [sample_pair fst snd].
      apply (binary_case (fun sx sw => conv2d_shape sx sw p0 p1 s0 s1 d0 d1)
               (fun sx sw => conv2d_val T zero add mul sx sw p0 p1 s0 s1 d0 d1) _ _ _ _ b B Ha Hbb Hb eq_refl eq_refl).
      intros b' Hb'. apply conv2d_sample; assumption.
    - (* max_pool2d *)
      destruct Hw as [Hw Hok]. destruct (xeval_good B e HB Hw) as [W [Bx _]].
      cbn [xsample xeval]. rewrite (IH Hw). cbn [sample_pair fst snd].
      apply (unary_case (fun s => pool2d_shape s w0 w1 p0 p1 s0 s1)
               (fun s => pool2d_val T zero f s w0 w1 p0 p1 s0 s1) _ _ b B Bx Hb eq_refl eq_refl).
      intros b' Hb'. apply pool2d_sample; assumption.
    - (* reshape / flatten / copy *)
      destruct Hw as [Hw Hok]. destruct (xeval_good B e HB Hw) as [W [Bx _]].
      cbn [xsample xeval]. rewrite (IH Hw). cbn [sample_pair fst snd].
      apply (unary_case (fun s => reshape_shape s dims) (fun s => copy_val T zero (tsize s)) _ _ b B Bx Hb eq_refl eq_refl).
      intros b' Hb'. apply reshape_sample; assumption.
  Qed.
End ProgramExt.

(* ================================================================== corollaries *)
Section Corollaries.
  Variable T : Type.
  Variables (zero : T) (add mul : T -> T -> T).
  Notation xe := (xeval T zero add mul).
  Notation xs := (xsample T).
  Notation xw := (xwf T zero add mul).

  (* when the result is batched: its sample b (elements b*V .. b*V+V-1) *)
  Corollary batch_law_program_ext_batched B b e : 0 < B -> b < B -> xw B e -> 1 < tbatch (fst (xe e)) ->
    snd (xe (xs b e)) = block b (tvolume (fst (xe e))) (snd (xe e)).
  Proof.
    intros HB Hb Hw H1. rewrite (batch_law_program_ext T zero add mul B b e HB Hb Hw). cbn [sample_pair snd].
    unfold sample_or_shared. rewrite bsel_batched by exact H1. reflexivity.
  Qed.

  (* when every leaf is shared the result is shared and equals its only sample *)
  Corollary batch_law_program_ext_shared B b e : 0 < B -> b < B -> xw B e -> tbatch (fst (xe e)) = 1 ->
    snd (xe (xs b e)) = snd (xe e).
  Proof.
    intros HB Hb Hw H1. rewrite (batch_law_program_ext T zero add mul B b e HB Hb Hw). cbn [sample_pair snd].
    unfold sample_or_shared. rewrite bsel_shared by exact H1. apply block_all.
    destruct (xeval_good T zero add mul B e HB Hw) as [_ [_ Hl]]. rewrite Hl, tsize_eq, H1. lia.
  Qed.

  (* the shape of the per-sample run is the batch-1 version of the batched shape *)
  Corollary batch_law_program_ext_shape B b e : 0 < B -> b < B -> xw B e ->
    fst (xe (xs b e)) = unb (fst (xe e)).
  Proof. intros HB Hb Hw. rewrite (batch_law_program_ext T zero add mul B b e HB Hb Hw). reflexivity. Qed.

  (* batch sizes other than equal-or-1 are rejected: the results of two accepted programs that
     feed one operator have compatible batches (Shape::has_compatible_batch) ... *)
  Corollary accepted_batches_compatible B e1 e2 : 0 < B -> xw B e1 -> xw B e2 ->
    tbatch (fst (xe e1)) = tbatch (fst (xe e2)) \/ tbatch (fst (xe e1)) = 1 \/ tbatch (fst (xe e2)) = 1.
  Proof.
    intros HB H1 H2. destruct (xeval_good T zero add mul B e1 HB H1) as [_ [A1 _]].
    destruct (xeval_good T zero add mul B e2 HB H2) as [_ [A2 _]]. lia.
  Qed.

  (* ... and no minibatch size B accepts operands with two different batch sizes > 1 *)
  Corollary mixed_batches_rejected op s1 v1 s2 v2 B :
    1 < tbatch s1 -> 1 < tbatch s2 -> tbatch s1 <> tbatch s2 ->
    ~ xw B (XBin T op (XLeaf T s1 v1) (XLeaf T s2 v2)).
  Proof. intros L1 L2 Hne H. cbn [xwf] in H. destruct H as [[_ [A1 _]] [[_ [A2 _]] _]]. lia. Qed.

  (* ---- the language of ProofsBilinear is the elementwise fragment ---- *)
  Fixpoint embed (e : expr T) : xexpr T :=
    match e with
    | Leaf _ s v => XLeaf T s v
    | Un _ f e1 => XUn T f (embed e1)
    | Bin _ op e1 e2 => XBin T op (embed e1) (embed e2)
    | Scal _ op e1 k => XScal T op (embed e1) (embed k)
    end.

  Fixpoint leaves_twf (e : expr T) : Prop :=
    match e with
    | Leaf _ s _ => twf s
    | Un _ _ e1 => leaves_twf e1
    | Bin _ _ e1 e2 | Scal _ _ e1 e2 => leaves_twf e1 /\ leaves_twf e2
    end.

  Lemma embed_eval e : xe (embed e) = eval T zero e.
  Proof.
    induction e as [s v|f e IH|op e1 IH1 e2 IH2|op e1 IH1 k IH2]; cbn [embed xeval eval];
      rewrite ?IH, ?IH1, ?IH2; reflexivity.
  Qed.

  Lemma embed_sample b e : xs b (embed e) = embed (esample T b e).
  Proof.
    induction e as [s v|f e IH|op e1 IH1 e2 IH2|op e1 IH1 k IH2]; cbn [embed xsample esample];
      rewrite ?IH, ?IH1, ?IH2; reflexivity.
  Qed.

  Lemma embed_wf B e : wf T zero B e -> leaves_twf e -> xw B (embed e).
  Proof.
    induction e as [s v|f e IH|op e1 IH1 e2 IH2|op e1 IH1 k IH2]; cbn [embed xwf wf leaves_twf].
    - tauto.
    - exact IH.
    - intros [H1 [H2 H3]] [L1 L2]. rewrite !embed_eval. repeat split; auto. apply tdims_same_dims. exact H3.
    - intros [H1 [H2 H3]] [L1 L2]. rewrite !embed_eval. repeat split; auto.
  Qed.

  (* ---- composite functions of tensor_funcs.cc / operator_impl.cc are programs of the language
     (sub, neg, exp_, mulop: the elementwise scalar functions; lse, sum: the per-slice folds; n = x.shape()[dim]) ---- *)
  Definition x_log_softmax (sub : T -> T -> T) (lse : list T -> T) (dim n : nat) (e : xexpr T) : xexpr T :=
    XBin T sub e (XBroadcast T dim n (XReduce T lse dim e)).       (* x - broadcast(logsumexp(x, dim), dim, n) *)
  Definition x_softmax (exp_ : T -> T) sub lse dim n (e : xexpr T) : xexpr T :=
    XUn T exp_ (x_log_softmax sub lse dim n e).
  Definition x_softmax_cross_entropy (neg : T -> T) (mulop : T -> T -> T) (sum : list T -> T) sub lse dim n
             (e t : xexpr T) : xexpr T :=
    XUn T neg (XReduce T sum dim (XBin T mulop t (x_log_softmax sub lse dim n e))).
  Definition x_softmax_cross_entropy_ids (neg : T -> T) sub lse dim n (ids : list nat) (e : xexpr T) : xexpr T :=
    XPick T ids dim (XUn T neg (x_log_softmax sub lse dim n e)).

  (* their per-sample programs are the same composites on the per-sample operands *)
  Lemma x_softmax_sample b exp_ sub lse dim n e :
    xs b (x_softmax exp_ sub lse dim n e) = x_softmax exp_ sub lse dim n (xs b e).
  Proof. reflexivity. Qed.

  Lemma x_softmax_cross_entropy_sample b neg mulop sum sub lse dim n e t :
    xs b (x_softmax_cross_entropy neg mulop sum sub lse dim n e t)
    = x_softmax_cross_entropy neg mulop sum sub lse dim n (xs b e) (xs b t).
  Proof. reflexivity. Qed.

  Lemma x_softmax_cross_entropy_ids_sample b neg sub lse dim n ids e :
    xs b (x_softmax_cross_entropy_ids neg sub lse dim n ids e)
    = x_softmax_cross_entropy_ids neg sub lse dim n [nth (bidx (length ids) b) ids 0] (xs b e).
  Proof. reflexivity. Qed.

  (* ================================================================== only batch::* move data across samples *)
  Definition is_leaf (e : xexpr T) : Prop := match e with XLeaf _ _ _ => True | _ => False end.

  (* one operator of the language applied to operands *)
  Definition single_op (e : xexpr T) : Prop :=
    match e with
    | XLeaf _ _ _ => False
    | XUn _ _ e1 | XSlice _ _ _ _ e1 | XPick _ _ _ e1 | XBroadcast _ _ _ e1 | XFlip _ _ e1 | XTranspose _ e1
    | XPermute _ _ e1 | XReduce _ _ _ e1 | XPool2d _ _ _ _ _ _ _ _ e1 | XReshape _ _ e1 => is_leaf e1
    | XBin _ _ e1 e2 | XScal _ _ e1 e2 | XMatmul _ e1 e2 | XConv2d _ _ _ _ _ _ _ e1 e2 => is_leaf e1 /\ is_leaf e2
    | XConcat _ _ es => Forall is_leaf es
    end.

  (* EVERY operator of the language, applied to operands the front end accepts, satisfies the
     sample law: sample b of its result is the operator applied to the b-th samples of its
     operands (a batch-1 operand being shared) *)
  Theorem batch_only_movers B b e : 0 < B -> b < B -> single_op e -> xw B e ->
    xe (xs b e) = sample_pair T b (xe e).
  Proof. intros HB Hb _ Hw. apply (batch_law_program_ext T zero add mul B b e HB Hb Hw). Qed.

  (* hence no program of the language moves data across samples: two runs whose b-th samples,
     shared operands and attributes coincide (xsample b e = xsample b e') have the same sample b,
     whatever the other samples hold *)
  Theorem no_cross_sample_flow B b e e' : 0 < B -> b < B -> xw B e -> xw B e' ->
    xs b e = xs b e' -> sample_pair T b (xe e) = sample_pair T b (xe e').
  Proof.
    intros HB Hb Hw Hw' E.
    rewrite <- (batch_law_program_ext T zero add mul B b e HB Hb Hw).
    rewrite <- (batch_law_program_ext T zero add mul B b e' HB Hb Hw'). rewrite E. reflexivity.
  Qed.

  (* the hypothesis is met, in particular, by leaves that differ in one element of ANOTHER sample *)
  Lemma block_upd_other (x : list T) b c V i v : b <> c -> i < V -> c * V + i < length x ->
    block b V (upd T x (c * V + i) v) = block b V x.
  Proof.
    intros Hne Hi Hl. unfold block. apply (nth_ext _ _ zero zero).
    - rewrite !firstn_length, !skipn_length, upd_length by exact Hl. reflexivity.
    - intros j Hj. rewrite firstn_length in Hj.
      rewrite !nth_firstn_lt by lia. rewrite !nth_skipn_add. rewrite (nth_upd T zero) by exact Hl.
      destruct (Nat.eqb_spec (b * V + j) (c * V + i)) as [E|E]; [|reflexivity].
      exfalso. assert (j < V) by lia.
      assert (b < c \/ c < b) as [Q|Q] by lia.
      + pose proof (block_le b c V Q). lia.
      + pose proof (block_le c b V Q). lia.
  Qed.

  Corollary leaf_change_elsewhere s (x : list T) b c i v : 1 < tbatch s -> b <> c -> i < tvolume s ->
    c * tvolume s + i < length x ->
    xs b (XLeaf T s (upd T x (c * tvolume s + i) v)) = xs b (XLeaf T s x).
  Proof.
    intros H1 Hne Hi Hl. cbn [xsample]. f_equal. unfold sample_or_shared. rewrite bsel_batched by exact H1.
    apply block_upd_other; assumption.
  Qed.
End Corollaries.

(* ---- the batch namespace, through its index programs: these DO move data across samples ---- *)
Definition nsum (l : list nat) : nat := fold_left Nat.add l 0.

(* batch::sum: y = x.resize_batch(1) *)
Definition batch_sum_val (sx : tshape) (x : list nat) : list nat :=
  red_vals nat 0 nsum (batch_sum_red sx (unb sx)) x.
(* batch::pick: y = x.resize_batch(ids.size()) *)
Definition batch_pick_val (sx : tshape) (ids : list nat) (x : list nat) : list nat :=
  mov_eval nat 0 (batch_pick_fw sx (with_batch sx (length ids)) ids) (tsize (with_batch sx (length ids))) [x].
(* batch::slice (and batch::split): y = x.resize_batch(n) *)
Definition batch_slice_val (sx : tshape) (off n : nat) (x : list nat) : list nat :=
  mov_eval nat 0 (batch_slice_fw sx (with_batch sx n) off) (tsize (with_batch sx n)) [x].
(* batch::concat: batch = sum of the batches *)
Definition batch_concat_val (rs : list (tshape * list nat)) : list nat :=
  mov_eval nat 0 (batch_concat_fw (map fst rs)) (ProofsGather.sumn (map tsize (map fst rs))) (map snd rs).

(* "F moves data across samples": changing one element of sample c of the input changes sample
   b <> c of the output (Vin, Vout = per-sample volumes) *)
Definition moves_across_samples (F : list nat -> list nat) (Vin Vout : nat) : Prop :=
  exists x c i v b, b <> c /\ c * Vin + i < length x /\ i < Vin /\
    block b Vout (F (upd nat x (c * Vin + i) v)) <> block b Vout (F x).

(* two samples of a scalar, 1 and 2: overwriting sample 1 by 5 changes the (only) sample 0 of the sum *)
Theorem batch_sum_moves : moves_across_samples (batch_sum_val (mkT [1] 2)) 1 1.
Proof. exists [1; 2], 1, 0, 5, 0. split; [discriminate|]. split; [cbn; lia|]. split; [lia|]. vm_compute. discriminate. Qed.

(* ids = [1; 0]: sample 0 of the result is sample 1 of the input *)
Theorem batch_pick_moves : moves_across_samples (batch_pick_val (mkT [1] 2) [1; 0]) 1 1.
Proof. exists [1; 2], 1, 0, 5, 0. split; [discriminate|]. split; [cbn; lia|]. split; [lia|]. vm_compute. discriminate. Qed.

(* offset 1: sample 0 of the result is sample 1 of the input *)
Theorem batch_slice_moves : moves_across_samples (batch_slice_val (mkT [1] 2) 1 1) 1 1.
Proof. exists [1; 2], 1, 0, 5, 0. split; [discriminate|]. split; [cbn; lia|]. split; [lia|]. vm_compute. discriminate. Qed.

(* second operand of a concat of two 2-sample tensors: its sample 0 becomes sample 2 of the result *)
Theorem batch_concat_moves :
  moves_across_samples (fun x => batch_concat_val [(mkT [1] 2, [1; 2]); (mkT [1] 2, x)]) 1 1.
Proof. exists [3; 4], 0, 0, 5, 2. split; [discriminate|]. split; [cbn; lia|]. split; [lia|]. vm_compute. discriminate. Qed.

(* ... and none of them satisfies the sample law: batch::sum of the sample-0 part alone is 1, not 3 *)
Theorem batch_sum_violates_law :
  let sx := mkT [1] 2 in let x := [1; 2] in
  twf sx /\ length x = tsize sx /\
  batch_sum_val (unb sx) (sample_or_shared sx 0 (tvolume sx) x) = [1] /\
  sample_or_shared (unb sx) 0 (tvolume sx) (batch_sum_val sx x) = [3].
Proof. vm_compute. repeat split; repeat constructor. Qed.

(* batch::concat of the per-sample parts has batch 2, although a sample has batch 1 *)
Theorem batch_concat_violates_law :
  let rs := [(mkT [1] 2, [1; 2]); (mkT [1] 2, [3; 4])] in
  length (batch_concat_val (map (sample_pair nat 0) rs)) = 2 /\ batch_concat_val (map (sample_pair nat 0) rs) = [1; 3] /\
  block 0 1 (batch_concat_val rs) = [1].
Proof. vm_compute. repeat split. Qed.

(* ================================================================== grad_fold *)
(* The gradient reaching a batch-1 operand (in particular every Parameter) is the sum over the B
   samples of the per-sample gradients.  At the level of the backward index programs: when the
   destination gx has batch 1 and the incoming gradient gy batch B, the batched backward program is
   the concatenation over b = 0..B-1 of the PER-SAMPLE (batch-1) backward program reading sample b
   of gy, all accumulating (+=) into the one shared gx. *)
Section GradFold.
  Variable T : Type.
  Variable zero : T.
  Variable add : T -> T -> T.
  Notation sc := (scatter T zero add).

  Lemma scatter_app p q gy : forall gx, sc (p ++ q) gy gx = sc q gy (sc p gy gx).
  Proof. induction p as [|[d s] p IH]; intro gx; cbn [app scatter]; [reflexivity|apply IH]. Qed.

  Lemma scatter_shift_src p o gy : forall gx,
    sc (map (fun e => (fst e, o + snd e)) p) gy gx = sc p (skipn o gy) gx.
  Proof.
    induction p as [|[d s] p IH]; intro gx; cbn [map scatter fst snd]; [reflexivity|].
    rewrite IH, nth_skipn_add. reflexivity.
  Qed.

  Lemma scatter_src_block p k V gy : Forall (fun e => snd e < V) p -> forall gx,
    sc p (skipn (k * V) gy) gx = sc p (block k V gy) gx.
  Proof.
    induction 1 as [|[d s] p Hs _ IH]; intro gx; cbn [scatter]; [reflexivity|]. cbn [snd] in Hs.
    rewrite IH, nth_skipn_add, nth_block by exact Hs. reflexivity.
  Qed.

  (* GENERIC: a batched backward program whose blocks are per-sample programs Q b (reading their
     own sample of gy) runs them one after the other on the shared destination *)
  Theorem scatter_fold_shared (Q : nat -> acc) B V gy gx :
    (forall b, b < B -> Forall (fun e => snd e < V) (Q b)) ->
    sc (flat_map2 B (fun b => map (fun e => (fst e, b * V + snd e)) (Q b))) gy gx
    = fold_left (fun g b => sc (Q b) (block b V gy) g) (range B) gx.
  Proof.
    intro HQ. unfold flat_map2, range.
    assert (G : forall n s g, s + n <= B ->
              sc (flat_map (fun b => map (fun e => (fst e, b * V + snd e)) (Q b)) (seq s n)) gy g
              = fold_left (fun g b => sc (Q b) (block b V gy) g) (seq s n) g).
    { induction n as [|n IH]; intros s g Hs; cbn [seq flat_map fold_left]; [reflexivity|].
      rewrite scatter_app, scatter_shift_src, scatter_src_block by (apply HQ; lia). apply IH. lia. }
    apply G. lia.
  Qed.

  (* element view: cell i ends up as its old content plus, for b = 0..B-1 in this order, the
     increments the per-sample program of sample b addresses to cell i *)
  Lemma nth_fold_scatter (Q : nat -> acc) (G : nat -> list T) l : forall gx i,
    (forall b, In b l -> Forall (fun e => fst e < length gx) (Q b)) ->
    nth i (fold_left (fun g b => sc (Q b) (G b) g) l gx) zero
    = fold_left (fun a b => fold_left add (map (fun e => nth (snd e) (G b) zero) (cell i (Q b))) a) l (nth i gx zero).
  Proof.
    induction l as [|b l IH]; intros gx i H; cbn [fold_left]; [reflexivity|].
    assert (Hb : Forall (fun e => fst e < length gx) (Q b)) by (apply H; left; reflexivity).
    assert (Hl : length (sc (Q b) (G b) gx) = length gx).
    { rewrite scatter_incr. apply incr_run_length. rewrite Forall_map. exact Hb. }
    rewrite IH by (intros b' Hb'; rewrite Hl; apply H; right; exact Hb').
    f_equal. rewrite scatter_incr, nth_incr_run by (rewrite Forall_map; exact Hb).
    f_equal. unfold cell. rewrite filter_map_comm, !map_map. reflexivity.
  Qed.

  Lemma thas_batch_one s : tbatch s = 1 -> thas_batch s = 0.
  Proof. intro H. unfold thas_batch. rewrite H. reflexivity. Qed.

  Lemma skip_self s b V : b < tbatch s -> b * (thas_batch s * V) = b * V.
  Proof. intro H. rewrite Nat.mul_assoc. fold (bsel s b). rewrite bsel_self by exact H. reflexivity. Qed.

  (* ---------------- inplace_add(x, y): y += x, y of batch 1 (gradient of a shared operand) ---------------- *)
  Lemma inplace_add_blocks sx sy : tbatch sy = 1 -> 0 < tbatch sx ->
    inplace_add sx sy
    = flat_map2 (tbatch sx) (fun b => map (fun e => (fst e, b * tvolume sy + snd e)) (inplace_add (unb sx) sy)).
  Proof.
    intros H1 Hx. unfold inplace_add. rewrite (thas_batch_one sy H1), H1. cbn [unb tbatch Nat.max].
    replace (Nat.max (tbatch sx) 1) with (tbatch sx) by lia. rewrite flat_map2_one.
    change (thas_batch (mkT (tdims sx) 1)) with 0.
    apply ProofsBilinear.flat_map2_ext. intros b Hb. rewrite map_map. apply map_ext. intro i. cbn [fst snd].
    rewrite (skip_self sx b _ Hb). f_equal; lia.
  Qed.

  Theorem inplace_add_grad_fold sx sy x y : tbatch sy = 1 -> 0 < tbatch sx ->
    sc (inplace_add sx sy) x y
    = fold_left (fun g b => sc (inplace_add (unb sx) sy) (block b (tvolume sy) x) g) (range (tbatch sx)) y.
  Proof.
    intros H1 Hx. rewrite (inplace_add_blocks sx sy H1 Hx).
    apply (scatter_fold_shared (fun _ => inplace_add (unb sx) sy)). intros b _.
    unfold inplace_add. rewrite H1. cbn [unb tbatch Nat.max]. rewrite flat_map2_one.
    apply Forall_forall. intros e He. apply In_map_range in He. destruct He as [i [Hi ->]]. cbn [snd]. lia.
  Qed.

  (* ---------------- ab_bw (add_bw ... pow_bw): slots of a batch-1 operand a / b ---------------- *)
  Lemma slots_a_blocks sga sgb sgy : tbatch sga = 1 ->
    slots_a (ab_bw sga sgb sgy)
    = flat_map2 (tbatch sgy) (fun b => map (fun e => (fst e, b * tvolume sgy + snd e))
                                          (slots_a (ab_bw sga (unb sgb) (unb sgy)))).
  Proof.
    intro H1. unfold slots_a, ab_bw. cbn [unb tbatch]. rewrite flat_map2_one, map_flat_map2.
    change (tvolume (unb sgy)) with (tvolume sgy).
    apply ProofsGather.flat_map2_ext. intro b. rewrite !map_map. apply map_ext. intro i. cbn [fst snd].
    unfold thas_batch. rewrite H1. cbn [Nat.ltb Nat.leb]. f_equal; lia.
  Qed.

  Lemma slots_b_blocks sga sgb sgy : tbatch sgb = 1 ->
    slots_b (ab_bw sga sgb sgy)
    = flat_map2 (tbatch sgy) (fun b => map (fun e => (fst e, b * tvolume sgy + snd e))
                                          (slots_b (ab_bw (unb sga) sgb (unb sgy)))).
  Proof.
    intro H1. unfold slots_b, ab_bw. cbn [unb tbatch]. rewrite flat_map2_one, map_flat_map2.
    change (tvolume (unb sgy)) with (tvolume sgy).
    apply ProofsGather.flat_map2_ext. intro b. rewrite !map_map. apply map_ext. intro i. cbn [fst snd].
    unfold thas_batch. rewrite H1. cbn [Nat.ltb Nat.leb]. f_equal; lia.
  Qed.

  Lemma slots_unb_bound (sl : list (nat * (nat * nat)) -> acc) sga sgb sgy :
    (sl = slots_a \/ sl = slots_b) ->
    Forall (fun e => snd e < tvolume sgy) (sl (ab_bw sga sgb (unb sgy))).
  Proof.
    intro Hsl. apply Forall_forall. intros e He.
    assert (Hin : In (snd e) (map fst (ab_bw sga sgb (unb sgy)))).
    { destruct Hsl as [-> | ->]; unfold slots_a, slots_b in He; apply in_map_iff in He;
        destruct He as [e0 [<- He0]]; cbn [snd]; apply in_map; exact He0. }
    rewrite (ab_bw_sequential sga sgb (unb sgy) (tvolume sgy) 1 eq_refl eq_refl) in Hin.
    apply in_seq in Hin. lia.
  Qed.

  (* inc[d] = the increment the operator derives from gy[d] *)
  Theorem ab_bw_grad_fold_a sga sgb sgy inc ga : tbatch sga = 1 ->
    sc (slots_a (ab_bw sga sgb sgy)) inc ga
    = fold_left (fun g b => sc (slots_a (ab_bw sga (unb sgb) (unb sgy))) (block b (tvolume sgy) inc) g)
                (range (tbatch sgy)) ga.
  Proof.
    intro H1. rewrite (slots_a_blocks sga sgb sgy H1).
    apply (scatter_fold_shared (fun _ => slots_a (ab_bw sga (unb sgb) (unb sgy)))). intros b _.
    apply (slots_unb_bound slots_a). left; reflexivity.
  Qed.

  Theorem ab_bw_grad_fold_b sga sgb sgy inc gb : tbatch sgb = 1 ->
    sc (slots_b (ab_bw sga sgb sgy)) inc gb
    = fold_left (fun g b => sc (slots_b (ab_bw (unb sga) sgb (unb sgy))) (block b (tvolume sgy) inc) g)
                (range (tbatch sgy)) gb.
  Proof.
    intro H1. rewrite (slots_b_blocks sga sgb sgy H1).
    apply (scatter_fold_shared (fun _ => slots_b (ab_bw (unb sga) sgb (unb sgy)))). intros b _.
    apply (slots_unb_bound slots_b). right; reflexivity.
  Qed.

  (* ---------------- slice_bw (BACKWARD(Slice), BACKWARD(Split)): gx of batch 1, gy of batch B ---------------- *)
  Lemma slice_bw_blocks sy sx dim off : tbatch sx = 1 -> 0 < tbatch sy ->
    slice_bw sy sx dim off
    = flat_map2 (tbatch sy) (fun b => map (fun e => (fst e, b * tvolume sy + snd e)) (slice_bw (unb sy) sx dim off)).
  Proof.
    intros H1 Hy. unfold slice_bw. rewrite (thas_batch_one sx H1), H1.
    replace (Nat.max 1 (tbatch sy)) with (tbatch sy) by lia.
    change (Nat.max 1 (tbatch (unb sy))) with 1. rewrite flat_map2_one.
    change (tget (unb sy)) with (tget sy). change (tvolume (unb sy)) with (tvolume sy).
    change (thas_batch (unb sy)) with 0.
    apply ProofsBilinear.flat_map2_ext. intros b Hb. rewrite map_flat_map2.
    apply ProofsGather.flat_map2_ext. intro i. rewrite map_map. apply map_ext. intro j. cbn [fst snd].
    rewrite (skip_self sy b _ Hb). f_equal; lia.
  Qed.

  Theorem slice_bw_grad_fold sy sx dim off base nx ny R gy gx :
    tlower sx dim = base -> tlower sy dim = base -> tget sx dim = nx -> tget sy dim = ny ->
    tvolume sx = base * nx * R -> tvolume sy = base * ny * R ->
    off + ny <= nx -> 0 < base -> 0 < ny ->
    tbatch sx = 1 -> 0 < tbatch sy ->
    sc (slice_bw sy sx dim off) gy gx
    = fold_left (fun g b => sc (slice_bw (unb sy) sx dim off) (block b (tvolume sy) gy) g) (range (tbatch sy)) gx.
  Proof.
    intros Hbase Hbasey Hnx Hny Hvx Hvy Hoff Hb0 Hn0 H1 Hy. rewrite (slice_bw_blocks sy sx dim off H1 Hy).
    apply (scatter_fold_shared (fun _ => slice_bw (unb sy) sx dim off)). intros b _.
    pose proof (ProofsGather.slice_bw_in_bounds sx (unb sy) dim off base nx ny R 1 1
                  Hbase Hbasey Hnx Hny Hvx Hvy H1 eq_refl (or_introl eq_refl) ltac:(lia) ltac:(lia) Hoff Hb0 Hn0) as IB.
    rewrite tsize_unb in IB. eapply Forall_impl; [|exact IB]. cbn beta. tauto.
  Qed.

  (* ---------------- pick_bw: gx of batch 1, gy of batch B; the per-sample program picks ids[b] ---------------- *)
  Lemma pick_bw_blocks sy sx ids dim base R : tbatch sx = 1 ->
    tlower sy dim = base -> tvolume sy = base * 1 * R -> 0 < base ->
    pick_bw sy sx ids dim
    = flat_map2 (tbatch sy) (fun b => map (fun e => (fst e, b * tvolume sy + snd e))
                                          (pick_bw (unb sy) sx [nth (bidx (length ids) b) ids 0] dim)).
  Proof.
    intros H1 Hbase Hvy Hb0. unfold pick_bw.
    change (tlower (unb sy)) with (tlower sy). change (tvolume (unb sy)) with (tvolume sy).
    rewrite Hbase. replace (tvolume sy / base) with R
      by (rewrite Hvy; replace (base * 1 * R) with (R * base) by ring; rewrite Nat.div_mul; lia).
    apply ProofsGather.flat_map2_ext. intro b. change (tbatch (unb sy)) with 1.
    rewrite flat_map2_one, map_flat_map2.
    apply ProofsGather.flat_map2_ext. intro i. rewrite map_map. apply map_ext. intro j. cbn [fst snd].
    rewrite (thas_batch_one sx H1), bidx_ids, Hvy. cbn [Nat.mul nth]. f_equal; lia.
  Qed.

  Theorem pick_bw_grad_fold sy sx ids dim base n R gy gx :
    tlower sy dim = base -> tget sx dim = n -> tvolume sy = base * 1 * R -> tvolume sx = base * n * R ->
    (length ids = tbatch sy \/ length ids = 1) -> (forall b, b < length ids -> nth b ids 0 < n) -> 0 < base ->
    tbatch sx = 1 ->
    sc (pick_bw sy sx ids dim) gy gx
    = fold_left (fun g b => sc (pick_bw (unb sy) sx [nth (bidx (length ids) b) ids 0] dim) (block b (tvolume sy) gy) g)
                (range (tbatch sy)) gx.
  Proof.
    intros Hbase Hnx Hvy Hvx Hic Hids Hb0 H1. rewrite (pick_bw_blocks sy sx ids dim base R H1 Hbase Hvy Hb0).
    apply (scatter_fold_shared (fun b => pick_bw (unb sy) sx [nth (bidx (length ids) b) ids 0] dim)). intros b Hb.
    assert (Hidb : nth (bidx (length ids) b) ids 0 < n) by (apply Hids; apply (bidx_lt _ (tbatch sy) b Hb Hic)).
    pose proof (ProofsGather.pick_bw_in_bounds sx (unb sy) [nth (bidx (length ids) b) ids 0] dim base n R 1 1
                  Hbase Hnx Hvy Hvx eq_refl H1 (or_introl eq_refl) (or_introl eq_refl)) as IB.
    rewrite tsize_unb in IB. eapply Forall_impl; [|apply IB; [|exact Hb0]]; [cbn beta; tauto|].
    intros i Hi. cbn [length] in Hi. replace i with 0 by lia. exact Hidb.
  Qed.
End GradFold.
