(* C01, the softmax cross entropies with minibatch broadcasting (B vs 1) over the reals.
   Dense: x of shape sx (batch Bx), t of shape st (same dims, batch Bt, compatible), B = max.
     forward   -sum(multiply_fw(t, log_softmax(x)), dim)        multiply_fw broadcasts to batch B
     backward  lsm = log_softmax(x); G = broadcast(gy);
               gx0 += (exp(lsm) - t) * G      (subtract_fw broadcasts; += folds into a batch-1 x)
               gx1 -= lsm * G                 (multiply_fw broadcasts; -= folds into a batch-1 t)
   Sparse: x of batch Bx, ids of length 1 or B, y = pick(-log_softmax(x), ids) of batch max(Bx, |ids|).
     backward  gx += softmax(x) * broadcast(gy)   (folds when Bx = 1);  pick_bw(-gy, ids, dim, gx)
   Index program q = ab_fw sx st sb (sb = the common dims with batch B): entry d reads x at ia(d)
   and t at ib(d).  Everything is a sum over q; log_softmax(x) enters LocalAdjoint as an opaque
   vector.  The tangents are the adjoints of these bodies:
     dense   jvp = sum_axis over sb of ((softmax(x)[ia] - t[ib]) * dx[ia] - lsm[ia] * dt[ib])
     sparse  jvp = sum_axis over sb of (softmax(x)[ia] * dx[ia]) - pick(dx) *)
From Coq Require Import List NArith Bool Arith Lia Ring Reals RealField Lra Permutation.
From PV Require Import Graph.OpFamily Tensor.Kernels Tensor.Index Tensor.KernelProofs Tensor.ProofsGather
  Tensor.ProofsPerm Tensor.ProofsBilinear Scalar.ScalarBase Gen.ScalarGen Scalar.Stable
  Tensor.AdjCore Tensor.AdjMatmul Tensor.AdjScalar Tensor.GraphInst Tensor.AdjMax Tensor.AdjSoftmax.
Import ListNotations.
Local Open Scope R_scope.

Notation sumRR := (ProofsBilinear.sum_list R 0 Rplus).

(* ---- vectors indexed by a batched index program ---- *)
Section BProg.
  Variables (B V : nat) (fa fb : nat -> nat -> nat).
  Let q := bprog B V fa fb.
  Lemma q_seq : sequential q (B * V).  Proof. apply bprog_sequential. Qed.
  Lemma q_len : length q = (B * V)%nat.  Proof. apply bprog_length. Qed.
  Lemma vec_map_q (v : list R) : length v = (B * V)%nat -> v = map (fun e : nat * (nat * nat) => nth (fst e) v 0) q.
  Proof.
    intro Hl. pose proof q_seq as Hs. unfold sequential in Hs.
    rewrite <- (map_map fst (fun d => nth d v 0)), Hs, <- Hl. apply (map_nth_seq' v 0).
  Qed.
  Lemma map_q_nth (h : nat * (nat * nat) -> R) e : In e q -> nth (fst e) (map h q) 0 = h e.
  Proof.
    intro He. assert (Hseq' : map fst q = seq 0 (length q)) by (rewrite q_len; exact q_seq).
    pose proof (seq_nth_map h 0 q 0%nat Hseq' e He) as E. rewrite Nat.sub_0_r in E. exact E.
  Qed.
  Lemma q_In e : In e q -> exists b i, (b < B)%nat /\ (i < V)%nat /\ e = ((b * V + i)%nat, (fa b i, fb b i)).
  Proof. destruct e as [d [ia ib]]. intro H. apply bprog_In in H. destruct H as (b & i & Hb & Hi & -> & -> & ->). exists b, i. auto. Qed.
End BProg.

(* gx += T for T of batch B into an operand s of batch 1 or B: <fold T, dx> = sum over q of T[d] * dx[f(d)] *)
Lemma fold_dot (s sb : tshape) V B (fa fb : nat -> nat -> nat) (sel : nat * (nat * nat) -> nat) (T dx : list R) :
  tvolume s = V -> tvolume sb = V -> tbatch sb = B -> (0 < B)%nat -> tbatch s = 1%nat \/ tbatch s = B ->
  (forall b i, (b < B)%nat -> (i < V)%nat -> sel ((b * V + i)%nat, (fa b i, fb b i)) = (bsel s b * V + i)%nat) ->
  length T = tsize sb -> length dx = tsize s ->
  OpFamily.dot 0 Rplus Rmult (scatter R 0 Rplus (inplace_add sb s) T (repeat 0 (tsize s))) dx
    = sumRR (map (fun e => nth (fst e) T 0 * nth (sel e) dx 0) (bprog B V fa fb)) /\
  length (scatter R 0 Rplus (inplace_add sb s) T (repeat 0 (tsize s))) = tsize s.
Proof.
  intros Hv Hvb Hbb HB Hb Hsel HT Hd.
  destruct (fold_adj 0 1 Rplus Rmult Rminus Ropp RTheory s sb V B Hv Hvb Hbb HB Hb) as (E & Hadj & HE).
  destruct (Hadj T dx HT Hd) as (E1 & L1 & LE). split; [|exact L1]. rewrite E1.
  assert (Hn : tsize sb = (B * V)%nat) by (unfold tsize; rewrite Hvb, Hbb; reflexivity).
  rewrite (vec_map_q B V fa fb T) at 1 by (rewrite HT; exact Hn).
  rewrite (vec_map_q B V fa fb (E dx)) by (rewrite LE; exact Hn).
  rewrite (dot_map2 0 Rplus Rmult). apply (sumR_ext 0 Rplus). intros e He.
  destruct (q_In B V fa fb e He) as (b & i & Hb' & Hi & ->). cbn [fst]. rewrite (HE dx b i Hd Hb' Hi), Hsel by assumption. reflexivity.
Qed.

(* ================================================================== dense, B vs 1 *)
Definition sceb_ok (sx st srx sy : tshape) (dim : nat) : bool :=
  ew_ok sx st && sum_ok sx srx dim && sum_ok (ew_shape sx st) sy dim.

Definition sceb_desc (sx st srx sy : tshape) (dim : nat) : @opdesc R :=
  let sb := ew_shape sx st in
  {| d_args := [sx; st]; d_rets := [sy]; d_ok := sceb_ok sx st srx sy dim; d_nop := false;
     d_fw := fun xs =>
       [un_eval R 0 fw_negate (tsize sy)
          (axis_sum sb sy dim (ab_eval R 0 fw_multiply (ab_fw st sx sb) (nth 1 xs []) (log_softmax_v sx srx dim (nth 0 xs []))))];
     d_jvp := fun xs dxs =>
       let x := nth 0 xs [] in let t := nth 1 xs [] in
       let lsm := log_softmax_v sx srx dim x in let E := softmax_v sx srx dim x in
       [axis_sum sb sy dim
          (map (fun e : nat * (nat * nat) =>
                  (nth (fst (snd e)) E 0 - nth (snd (snd e)) t 0) * nth (fst (snd e)) (nth 0 dxs []) 0
                  - nth (fst (snd e)) lsm 0 * nth (snd (snd e)) (nth 1 dxs []) 0) (ab_fw sx st sb))];
     d_bw := fun xs ys gys =>
       let x := nth 0 xs [] in let t := nth 1 xs [] in
       let lsm := log_softmax_v sx srx dim x in let G := bcast sb sy dim (nth 0 gys []) in
       [scatter R 0 Rplus (inplace_add sb sx)
          (ew2 sb fw_multiply (ab_eval R 0 fw_subtract (ab_fw sx st sb) (un_eval R 0 fw_exp (tsize sx) lsm) t) G) (repeat 0 (tsize sx));
        scatter R 0 Rplus (inplace_add sb st)
          (vneg Ropp (ab_eval R 0 fw_multiply (ab_fw sx sb sb) lsm G)) (repeat 0 (tsize st))] |}.

Lemma sceb_LA sx st srx sy dim : desc_LA 0 Rplus Rmult (sceb_desc sx st srx sy dim).
Proof.
  intros Hok xs dxs gys Hx Hdx Hgy. cbn [sceb_desc d_args d_rets d_ok d_nop d_fw d_jvp d_bw] in *.
  unfold sceb_ok in Hok. apply andb_prop in Hok. destruct Hok as [Hok Hsumb]. apply andb_prop in Hok. destruct Hok as [Hew Hsumx].
  destruct (ew_ok_spec sx st Hew) as (HVa & HVb & Hba & Hbb). cbv zeta in HVa, HVb, Hba, Hbb.
  set (sb := ew_shape sx st) in *. set (V := tvolume sb) in *. set (B := tbatch sb) in *.
  apply F2_two in Hx. destruct Hx as (x & t & -> & Hx & Ht).
  apply F2_two in Hdx. destruct Hdx as (dx & dt & -> & Hdx & Hdt). apply F2_one in Hgy. destruct Hgy as (gy & -> & Hgy).
  cbn [nth]. unfold sized in *.
  assert (HB : (0 < B)%nat) by (pose proof Hsumb as H; unfold sum_ok in H; bsplit; assumption).
  assert (Hn : tsize sb = (B * V)%nat) by reflexivity.
  set (lsm := log_softmax_v sx srx dim x). set (E := un_eval R 0 fw_exp (tsize sx) lsm). set (G := bcast sb sy dim gy).
  set (fa := fun b i => (bsel sx b * V + i)%nat). set (fb := fun b i => (bsel st b * V + i)%nat).
  assert (Hq : ab_fw sx st sb = bprog B V fa fb) by (apply (ab_fw_bprog sx st sb V B); reflexivity).
  (* the intermediate tensors, entry by entry of q *)
  assert (ED : ab_eval R 0 fw_subtract (ab_fw sx st sb) E t = map (fun e : nat * (nat * nat) => nth (fst (snd e)) E 0 - nth (snd (snd e)) t 0) (bprog B V fa fb)).
  { unfold ab_eval. rewrite Hq. reflexivity. }
  assert (EM1 : ab_eval R 0 fw_multiply (ab_fw sx sb sb) lsm G = map (fun e : nat * (nat * nat) => nth (fst (snd e)) lsm 0 * nth (fst e) G 0) (bprog B V fa fb)).
  { unfold ab_eval. rewrite (ab_fw_bprog sx sb sb V B eq_refl eq_refl). unfold fa. rewrite !map_bprog'. cbn [fst snd].
    apply ProofsBilinear.flat_map2_ext. intros b Hb. apply map_range_ext. intros i Hi. rewrite (bsel_full sb b Hb). reflexivity. }
  set (D := ab_eval R 0 fw_subtract (ab_fw sx st sb) E t) in *.
  set (M0 := ew2 sb fw_multiply D G). set (M1 := ab_eval R 0 fw_multiply (ab_fw sx sb sb) lsm G) in *.
  assert (LM0 : length M0 = tsize sb) by (apply (ew2_length sb _ _ _ HB)).
  assert (LM1 : length (vneg Ropp M1) = tsize sb) by (unfold vneg; rewrite map_length, EM1, map_length; apply bprog_length).
  destruct (fold_dot sx sb V B fa fb (fun e => fst (snd e)) M0 dx HVa eq_refl eq_refl HB Hba (fun b i _ _ => eq_refl) LM0 Hdx) as (E0 & L0).
  destruct (fold_dot st sb V B fa fb (fun e => snd (snd e)) (vneg Ropp M1) dt HVb eq_refl eq_refl HB Hbb (fun b i _ _ => eq_refl) LM1 Hdt) as (E1 & L1).
  set (U := map (fun e : nat * (nat * nat) =>
                  (nth (fst (snd e)) (softmax_v sx srx dim x) 0 - nth (snd (snd e)) t 0) * nth (fst (snd e)) dx 0
                  - nth (fst (snd e)) lsm 0 * nth (snd (snd e)) dt 0) (ab_fw sx st sb)).
  assert (LU : length U = tsize sb) by (unfold U; rewrite map_length, Hq; apply bprog_length).
  destruct (bc_sum_adj sb sy dim Hsumb U gy LU Hgy) as (EU & LS & LG). fold G in EU, LG.
  cbv zeta. split; [|split].
  - cbn [OpFamily.dots]. rewrite E0, E1.
    rewrite (dot_comm 0 1 Rplus Rmult Rminus Ropp RTheory gy), EU.
    rewrite (vec_map_q B V fa fb G) at 1 by (rewrite LG; exact Hn). unfold U. rewrite Hq, (dot_map2 0 Rplus Rmult).
    transitivity (sumRR (map (fun e : nat * (nat * nat) =>
        nth (fst e) M0 0 * nth (fst (snd e)) dx 0 + nth (fst e) (vneg Ropp M1) 0 * nth (snd (snd e)) dt 0) (bprog B V fa fb)) + 0).
    { rewrite (sumR_add 0 1 Rplus Rmult Rminus Ropp RTheory). ring. }
    f_equal. apply (sumR_ext 0 Rplus). intros e He.
    destruct (q_In B V fa fb e He) as (b & i & Hb & Hi & Ee).
    assert (Hd : (fst e < tsize sb)%nat) by (rewrite Ee, Hn; cbn [fst]; apply sample_lt; assumption).
    unfold M0. rewrite (ew2_nth sb _ _ _ _ HB Hd). rewrite ED, (map_q_nth B V fa fb _ e He).
    unfold vneg. rewrite EM1, map_map, (map_q_nth B V fa fb _ e He).
    unfold softmax_v. fold lsm E. unfold fw_multiply. ring.
  - intros _. constructor; [exact L0|constructor; [exact L1|constructor]].
  - constructor; [|constructor]. exact LS.
Qed.

(* ================================================================== sparse, any batch combination pick accepts *)
Definition ssceb_ok (sx srx sp : tshape) (ids : list nat) (dim : nat) : bool :=
  let sb := mkT (tdims sx) (tbatch sp) in
  pick_ok sx sp ids dim && sum_ok sx srx dim && sum_ok sb sp dim &&
  ((tbatch sx =? 1)%nat || (tbatch sx =? tbatch sp)%nat) && (0 <? tbatch sx)%nat.

Definition ssceb_desc (sx srx sp : tshape) (ids : list nat) (dim : nat) : @opdesc R :=
  let sb := mkT (tdims sx) (tbatch sp) in
  {| d_args := [sx]; d_rets := [sp]; d_ok := ssceb_ok sx srx sp ids dim; d_nop := false;
     d_fw := fun xs => [gathR (pick_fw sx sp ids dim) (tsize sp)
                          (un_eval R 0 fw_negate (tsize sx) (log_softmax_v sx srx dim (hd [] xs)))];
     d_jvp := fun xs dxs =>
       let SM := softmax_v sx srx dim (hd [] xs) in
       [ew2 sp fw_subtract
          (axis_sum sb sp dim (map (fun e : nat * (nat * nat) => nth (fst (snd e)) SM 0 * nth (fst (snd e)) (hd [] dxs) 0) (ab_fw sx sb sb)))
          (gathR (pick_fw sx sp ids dim) (tsize sp) (hd [] dxs))];
     d_bw := fun xs ys gys =>
       [scatR (pick_bw sp sx ids dim) (un_eval R 0 fw_negate (tsize sp) (hd [] gys))
          (scatR (inplace_add sb sx)
             (ab_eval R 0 fw_multiply (ab_fw sx sb sb) (softmax_v sx srx dim (hd [] xs)) (bcast sb sp dim (hd [] gys)))
             (zerosR (tsize sx)))] |}.

Lemma ssceb_LA sx srx sp ids dim : desc_LA 0 Rplus Rmult (ssceb_desc sx srx sp ids dim).
Proof.
  intros Hok xs dxs gys Hx Hdx Hgy. cbn [ssceb_desc d_args d_rets d_ok d_nop d_fw d_jvp d_bw] in *.
  unfold ssceb_ok in Hok. cbv zeta in Hok.
  apply andb_prop in Hok. destruct Hok as [Hok HBx]. apply andb_prop in Hok. destruct Hok as [Hok Hbc].
  apply andb_prop in Hok. destruct Hok as [Hok Hsumb]. apply andb_prop in Hok. destruct Hok as [Hpick Hsumx].
  apply Nat.ltb_lt in HBx. apply orb_eqb in Hbc.
  set (sb := mkT (tdims sx) (tbatch sp)) in *. set (V := tvolume sx) in *. set (B := tbatch sp) in *.
  assert (HBp : (0 < B)%nat) by (pose proof Hsumb as H; unfold sum_ok in H; bsplit; assumption).
  apply F2_one in Hx. destruct Hx as (x & -> & Hx).
  apply F2_one in Hdx. destruct Hdx as (dx & -> & Hdx). apply F2_one in Hgy. destruct Hgy as (gy & -> & Hgy).
  cbn [hd]. unfold sized in *.
  assert (Hn : tsize sb = (B * V)%nat) by reflexivity.
  set (SM := softmax_v sx srx dim x). set (G := bcast sb sp dim gy).
  set (fa := fun b i => (bsel sx b * V + i)%nat). set (fb := fun b i => (bsel sb b * V + i)%nat).
  assert (Hq : ab_fw sx sb sb = bprog B V fa fb) by (apply (ab_fw_bprog sx sb sb V B); reflexivity).
  set (M := ab_eval R 0 fw_multiply (ab_fw sx sb sb) SM G).
  assert (EM : M = map (fun e : nat * (nat * nat) => nth (fst (snd e)) SM 0 * nth (fst e) G 0) (bprog B V fa fb)).
  { unfold M, ab_eval. rewrite Hq, !map_bprog'. cbn [fst snd]. unfold fb.
    apply ProofsBilinear.flat_map2_ext. intros b Hb. apply map_range_ext. intros i Hi. rewrite (bsel_full sb b Hb). reflexivity. }
  assert (LM : length M = tsize sb) by (rewrite EM, map_length; apply bprog_length).
  destruct (fold_dot sx sb V B fa fb (fun e => fst (snd e)) M dx eq_refl eq_refl eq_refl HBp Hbc (fun b i _ _ => eq_refl) LM Hdx) as (EA & LA).
  set (A := scatR (inplace_add sb sx) M (zerosR (tsize sx))) in *.
  pose proof (pick_ok_pair sx sp ids dim Hpick) as Hp.
  set (ng := un_eval R 0 fw_negate (tsize sp) gy). assert (Hng : length ng = tsize sp) by apply un_eval_length.
  pose proof (adjoint_pair_scatter R 0 Rplus Rmult (r_add_comm 0 1 Rplus Rmult Rminus Ropp RTheory) (r_add_assoc 0 1 Rplus Rmult Rminus Ropp RTheory)
                (r_add_0_l 0 1 Rplus Rmult Rminus Ropp RTheory) (r_distr_r 0 1 Rplus Rmult Rminus Ropp RTheory)
                _ _ _ _ ng A dx Hp LA Hng Hdx) as HP.
  change (Index.dot R 0 Rplus Rmult) with (OpFamily.dot 0 Rplus Rmult) in HP.
  set (PK := gathR (pick_fw sx sp ids dim) (tsize sp) dx) in *.
  assert (LPK : length PK = tsize sp) by apply (gather_length 0).
  set (U := map (fun e : nat * (nat * nat) => nth (fst (snd e)) SM 0 * nth (fst (snd e)) dx 0) (ab_fw sx sb sb)).
  assert (LU : length U = tsize sb) by (unfold U; rewrite map_length, Hq; apply bprog_length).
  destruct (bc_sum_adj sb sp dim Hsumb U gy LU Hgy) as (EU & LS1 & LG). fold G in EU, LG.
  set (S1 := axis_sum sb sp dim U) in *.
  cbv zeta. split; [|split].
  - cbn [OpFamily.dots]. rewrite HP, EA.
    assert (E1 : sumRR (map (fun e : nat * (nat * nat) => nth (fst e) M 0 * nth (fst (snd e)) dx 0) (bprog B V fa fb)) = OpFamily.dot 0 Rplus Rmult gy S1).
    { rewrite (dot_comm 0 1 Rplus Rmult Rminus Ropp RTheory gy), EU. rewrite (vec_map_q B V fa fb G) at 1 by (rewrite LG; exact Hn).
      unfold U. rewrite Hq, (dot_map2 0 Rplus Rmult). apply (sumR_ext 0 Rplus). intros e He. rewrite EM, (map_q_nth B V fa fb _ e He). ring. }
    rewrite E1.
    rewrite (dot_seq gy S1 _ Hgy LS1), (dot_seq ng PK _ Hng LPK), (dot_seq gy _ _ Hgy (ew2_length sp fw_subtract S1 PK HBp)).
    transitivity (sumRR (map (fun d => nth d gy 0 * nth d S1 0 + nth d ng 0 * nth d PK 0) (seq 0 (tsize sp))) + 0).
    { rewrite (sumR_add 0 1 Rplus Rmult Rminus Ropp RTheory). ring. }
    f_equal. apply (sumR_ext 0 Rplus). intros d Hin. apply in_seq in Hin.
    rewrite ew2_nth by (assumption || lia). unfold ng. rewrite (un_eval_nth 0 fw_negate (tsize sp) gy d) by lia.
    unfold fw_negate, fw_subtract. ring.
  - intros _. constructor; [|constructor]. unfold sized.
    destruct Hp as (_ & _ & Hb). rewrite (scatter_length 0 Rplus _ ng A (tsize sp)); rewrite LA; [reflexivity|exact Hb].
  - constructor; [|constructor]. apply (ew2_length sp fw_subtract S1 PK HBp).
Qed.

(* ================================================================== slices under minibatch broadcasting *)
(* element d of the batch-B index space reads the operand s (batch 1 or B) at  share_ix s V d *)
Definition share_ix (s : tshape) (V d : nat) : nat := (bsel s (d / V) * V + d mod V)%nat.
Lemma share_ix_split s V b r : (r < V)%nat -> share_ix s V (b * V + r) = (bsel s b * V + r)%nat.
Proof.
  intro Hr. unfold share_ix. rewrite Nat.div_add_l, Nat.div_small, Nat.add_0_r by lia.
  rewrite (Nat.add_comm (b * V) r), Nat.mod_add, Nat.mod_small by lia. reflexivity.
Qed.
Lemma bprog_nth B V fa fb d : (d < B * V)%nat ->
  nth d (bprog B V fa fb) (0%nat, (0%nat, 0%nat)) = (d, (fa (d / V) (d mod V), fb (d / V) (d mod V)))%nat.
Proof.
  intro Hd. set (e := nth d (bprog B V fa fb) (0%nat, (0%nat, 0%nat))).
  assert (He : In e (bprog B V fa fb)) by (apply nth_In; rewrite bprog_length; exact Hd).
  assert (Ef : fst e = d).
  { unfold e. rewrite <- (map_nth fst). cbn [fst]. pose proof (bprog_sequential B V fa fb) as Hs. unfold sequential in Hs. rewrite Hs. apply seq_nth. exact Hd. }
  destruct (q_In B V fa fb e He) as (b & i & Hb & Hi & Ee). rewrite Ee in Ef |- *. cbn [fst] in Ef. subst d.
  rewrite Nat.div_add_l, Nat.div_small, Nat.add_0_r by lia. rewrite (Nat.add_comm (b * V)), Nat.mod_add, Nat.mod_small by lia. reflexivity.
Qed.

(* the axis slices of the batch-B index space are the shared images of the axis slices of x *)
Lemma group_share (sx srx sb sy : tshape) (dim : nat) :
  tdims sb = tdims sx -> (tbatch sx = 1%nat \/ tbatch sx = tbatch sb) ->
  sum_ok sx srx dim = true -> sum_ok sb sy dim = true ->
  forall e, In e (axis_red sb sy dim) -> exists e', In e' (axis_red sx srx dim) /\ snd e' = map (share_ix sx (tvolume sx)) (snd e).
Proof.
  intros Hdims Hbx Hsx Hsb e He.
  pose proof Hsx as Hq1. unfold sum_ok in Hq1. bsplit.
  pose proof Hsb as Hq2. unfold sum_ok in Hq2. bsplit.
  assert (Elow : tlower sb dim = tlower sx dim) by (unfold tlower; rewrite Hdims; reflexivity).
  assert (Eget : tget sb dim = tget sx dim) by (unfold tget; rewrite Hdims; reflexivity).
  assert (Evol : tvolume sb = tvolume sx) by (unfold tvolume; rewrite Hdims; reflexivity).
  set (base := tlower sx dim) in *. set (n := tget sx dim) in *. set (V := tvolume sx) in *.
  set (Rx := (tsize srx / base)%nat) in *. set (Rb := (tsize sy / tlower sb dim)%nat) in *.
  rewrite Elow in *. rewrite Eget in *.
  match goal with H : tlower srx dim = base |- _ => rename H into Hlowx end.
  match goal with H : tsize sx = (base * n * Rx)%nat |- _ => rename H into HsxR end.
  match goal with H : tsize sb = (base * n * Rb)%nat |- _ => rename H into HsbR end.
  match goal with H : tsize sy = (base * Rb)%nat |- _ => rename H into HsyR end.
  match goal with H : tsize srx = (base * Rx)%nat |- _ => rename H into HsrxR end.
  match goal with H : tlower sy dim = base |- _ => rename H into Hlowy end.
  assert (Hbn : (0 < base * n)%nat) by nia.
  destruct e as [d0 g]. apply (axis_red_spec sb sy dim base n Rb Hlowy Eget HsyR H3) in He.
  destruct He as (low & H & Hl & HH & Ed & Eg). cbn [fst snd] in *. subst d0 g.
  destruct Hbx as [E1|EB].
  - (* x has one sample *)
    assert (HV : V = (base * n * Rx)%nat) by (unfold tsize in HsxR; rewrite E1 in HsxR; fold V in HsxR; lia).
    assert (HRb : Rb = (tbatch sb * Rx)%nat).
    { unfold tsize in HsbR. rewrite Evol in HsbR. fold V in HsbR. rewrite HV in HsbR. nia. }
    assert (HRx : (0 < Rx)%nat) by (destruct Rx; [rewrite HRb in HH; lia|lia]).
    exists (flat base 1 low 0 (H mod Rx), axis_group base n low (H mod Rx)). split.
    + apply (axis_red_spec sx srx dim base n Rx Hlowx eq_refl HsrxR H3). exists low, (H mod Rx)%nat.
      repeat split; auto. apply Nat.mod_upper_bound. lia.
    + cbn [snd]. unfold axis_group. rewrite map_map. apply map_ext_in. intros j Hj. apply In_map_range in Hj || (apply in_seq in Hj).
      assert (Hjn : (j < n)%nat) by (unfold range in *; lia).
      pose proof (Nat.div_mod H Rx ltac:(lia)) as EH.
      replace (flat base n low j H) with ((H / Rx) * V + flat base n low j (H mod Rx))%nat.
      2:{ rewrite EH at 3. rewrite (Nat.mul_comm Rx), (Nat.add_comm (H / Rx * Rx)). rewrite HV. rewrite (Nat.mul_comm (H / Rx) Rx). rewrite flat_sample. reflexivity. }
      rewrite share_ix_split.
      * rewrite (bsel_shared sx _ E1). reflexivity.
      * rewrite HV. apply flat_lt; auto. apply Nat.mod_upper_bound. lia.
  - (* x has the full batch: the same slices, read in place *)
    assert (HRb : Rb = Rx).
    { unfold tsize in HsbR, HsxR. rewrite Evol, <- EB in HsbR. fold V in HsbR, HsxR. nia. }
    exists (flat base 1 low 0 H, axis_group base n low H). split.
    + apply (axis_red_spec sx srx dim base n Rx Hlowx eq_refl HsrxR H3). exists low, H. rewrite <- HRb. auto.
    + cbn [snd]. unfold axis_group. rewrite map_map. apply map_ext_in. intros j Hj.
      assert (Hjn : (j < n)%nat) by (unfold range in Hj; apply in_seq in Hj; lia).
      assert (Hlt : (flat base n low j H < tsize sx)%nat) by (rewrite HsxR, <- HRb; apply flat_lt; auto).
      unfold tsize in Hlt. fold V in Hlt.
      assert (HVp : (0 < V)%nat) by (destruct V; [lia|lia]).
      pose proof (Nat.div_mod (flat base n low j H) V ltac:(lia)) as Ed.
      unfold share_ix. rewrite bsel_full by (apply Nat.div_lt_upper_bound; lia). lia.
Qed.
