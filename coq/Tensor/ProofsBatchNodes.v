(* C03, audit items (b) and (c).

   (b) "batch sizes other than equal-or-1 are rejected", for EVERY node of a program at any depth.
       The batch guards of core/shape_ops.cc (Shape::has_compatible_batch in elementwise, scalar_op,
       matmul, conv2d; the running s0 of concat; the ids.size()/batch test of pick) are modelled by
       [own_chk]; [xbatch_chk] runs them over the whole program the way the front end does (a node
       is only built when its operands were) and [xrun] is the checked evaluation: None as soon as one
       guard fails anywhere, otherwise the evaluation [xeval] of Tensor/ProofsBatchLaw.v.
         accepted_passes_checks   a program accepted with minibatch size B (xwf B) passes every guard
         run_some_nodes           if the checked evaluation succeeds, EVERY node at any depth
                                  (subterm) has operand batches equal or 1 and result batch = max
         bad_node_fails           a node (at any depth) whose own guard fails makes the whole
                                  evaluation fail: xrun e = None, and no B accepts e
         bin_bad / pick_bad / concat_bad   operand batches m <> n, m <> 1, n <> 1 fail the guard
   (c) mover witnesses for batch::mean, batch::normalize and batch::split (Properties_C03_program.v has
       batch::sum, pick, slice, concat), through the same index programs. *)
From Coq Require Import List Arith Lia Permutation Bool.
From PV Require Import Tensor.Kernels Tensor.Index Tensor.KernelProofs Tensor.ProofsBilinear
                       Tensor.ProofsGather Tensor.ProofsPerm Tensor.ProofsBatchSample Tensor.ProofsBatchLaw.
Import ListNotations.

(* Shape::has_compatible_batch *)
Definition bcompat (m n : nat) : Prop := m = n \/ m = 1 \/ n = 1.
Definition bcompatb (m n : nat) : bool := (m =? n) || (m =? 1) || (n =? 1).

Lemma bcompatb_spec m n : bcompatb m n = true <-> bcompat m n.
Proof.
  unfold bcompatb, bcompat. rewrite !orb_true_iff, !Nat.eqb_eq. tauto.
Qed.

Lemma bcompatb_bad m n : m <> n -> m <> 1 -> n <> 1 -> bcompatb m n = false.
Proof.
  intros H1 H2 H3. destruct (bcompatb m n) eqn:E; [|reflexivity].
  apply bcompatb_spec in E. unfold bcompat in E. lia.
Qed.

(* shape_ops::concat: s0 starts as the first operand; every further operand must be compatible with
   s0, and s0 takes its batch when s0 has none yet *)
Fixpoint concat_run (cur : nat) (l : list nat) : bool :=
  match l with
  | [] => true
  | b :: r => bcompatb cur b && concat_run (if 1 <? cur then cur else b) r
  end.
Definition concat_chk (l : list nat) : bool :=
  match l with [] => true | b :: r => concat_run b r end.

(* shape_ops::pick: bi == 0 || (x.batch() != bi && x.has_batch() && bi > 1) is an error *)
Definition pick_chk (xb bi : nat) : bool :=
  negb ((bi =? 0) || (negb (xb =? bi) && (1 <? xb) && (1 <? bi))).

Lemma concat_run_fixed cur l : 1 < cur -> concat_run cur l = true -> forall n, In n l -> n = cur \/ n = 1.
Proof.
  intro Hc. induction l as [|b r IH]; intros H n Hn; [destruct Hn|].
  cbn [concat_run] in H. apply andb_prop in H. destruct H as [H1 H2].
  destruct (Nat.ltb_spec 1 cur) as [_|C]; [|lia].
  destruct Hn as [<-|Hn]; [|apply IH; assumption].
  apply bcompatb_spec in H1. unfold bcompat in H1. lia.
Qed.

(* two operands with batches > 1 have the same batch *)
Lemma concat_run_big cur l : concat_run cur l = true ->
  forall m n, In m (cur :: l) -> In n (cur :: l) -> 1 < m -> 1 < n -> m = n.
Proof.
  revert cur. induction l as [|b r IH]; intros cur H m n Hm Hn Lm Ln.
  - destruct Hm as [<-|[]]. destruct Hn as [<-|[]]. reflexivity.
  - cbn [concat_run] in H. apply andb_prop in H. destruct H as [H1 H2].
    destruct (Nat.ltb_spec 1 cur) as [C|C].
    + assert (G : forall k, In k (cur :: b :: r) -> 1 < k -> k = cur).
      { intros k [<-|[<-|Hk]] Lk; [reflexivity| |].
        - apply bcompatb_spec in H1. unfold bcompat in H1. lia.
        - destruct (concat_run_fixed cur r C H2 k Hk); lia. }
      rewrite (G m Hm Lm), (G n Hn Ln). reflexivity.
    + apply (IH b H2); [| |exact Lm|exact Ln].
      * destruct Hm as [<-|Hm]; [lia|exact Hm].
      * destruct Hn as [<-|Hn]; [lia|exact Hn].
Qed.

Lemma concat_run_in_1B cur l B : (cur = 1 \/ cur = B) -> Forall (fun b => b = 1 \/ b = B) l ->
  concat_run cur l = true.
Proof.
  intros Hc H. revert cur Hc. induction H as [|b r Hb _ IH]; intros cur Hc; [reflexivity|].
  cbn [concat_run]. apply andb_true_intro. split.
  - apply bcompatb_spec. unfold bcompat. lia.
  - apply IH. destruct (Nat.ltb_spec 1 cur); lia.
Qed.

Lemma fold_max_big l M : (forall n, In n l -> 1 < n -> n = M) -> (exists n, In n l /\ 1 < n) ->
  fold_right Nat.max 1 l = M.
Proof.
  induction l as [|a r IH]; intros Hall [n [Hn Ln]]; [destruct Hn|]. cbn [fold_right].
  assert (Hr : forall k, In k r -> 1 < k -> k = M) by (intros k Hk; apply Hall; right; exact Hk).
  destruct (Nat.ltb_spec 1 a) as [La|La].
  - pose proof (Hall a (or_introl eq_refl) La) as ->.
    assert (Hle : fold_right Nat.max 1 r <= M).
    { clear - Hr La. induction r as [|c r IH]; cbn [fold_right]; [lia|].
      assert (fold_right Nat.max 1 r <= M) by (apply IH; intros k Hk; apply Hr; right; exact Hk).
      destruct (Nat.ltb_spec 1 c) as [Lc|Lc]; [rewrite (Hr c (or_introl eq_refl) Lc)|]; lia. }
    lia.
  - destruct Hn as [->|Hn]; [lia|].
    rewrite (IH Hr (ex_intro _ n (conj Hn Ln))).
    pose proof (Hall n (or_intror Hn) Ln). lia.
Qed.

Lemma fold_max_small l : (forall n, In n l -> n <= 1) -> fold_right Nat.max 1 l = 1.
Proof.
  induction l as [|a r IH]; intro H; [reflexivity|]. cbn [fold_right].
  rewrite IH by (intros n Hn; apply H; right; exact Hn). pose proof (H a (or_introl eq_refl)). lia.
Qed.

(* every operand batch is <= 1 (i.e. 1: batches are positive) or the maximum *)
Lemma concat_chk_max l : concat_chk l = true ->
  forall n, In n l -> n <= 1 \/ n = fold_right Nat.max 1 l.
Proof.
  intros H n Hn. destruct l as [|c r]; [destruct Hn|]. cbn [concat_chk] in H.
  destruct (Nat.ltb_spec 1 n) as [Ln|Ln]; [right|left; lia].
  symmetry. apply fold_max_big.
  - intros k Hk Lk. apply (concat_run_big c r H); assumption.
  - exists n. auto.
Qed.

Section NodeBatches.
  Variable T : Type.
  Variables (zero : T) (add mul : T -> T -> T).
  Notation xexpr := (xexpr T).
  Notation xe := (xeval T zero add mul).
  Notation xw := (xwf T zero add mul).

  Definition bof (e : xexpr) : nat := tbatch (fst (xe e)).

  (* the direct operands of a node *)
  Definition operands (e : xexpr) : list xexpr :=
    match e with
    | XLeaf _ _ _ => []
    | XUn _ _ e1 | XSlice _ _ _ _ e1 | XPick _ _ _ e1 | XBroadcast _ _ _ e1 | XFlip _ _ e1 | XTranspose _ e1
    | XPermute _ _ e1 | XReduce _ _ _ e1 | XPool2d _ _ _ _ _ _ _ _ e1 | XReshape _ _ e1 => [e1]
    | XBin _ _ e1 e2 | XScal _ _ e1 e2 | XMatmul _ e1 e2 | XConv2d _ _ _ _ _ _ _ e1 e2 => [e1; e2]
    | XConcat _ _ es => es
    end.

  (* "c occurs in e" at any depth *)
  Inductive subterm (c : xexpr) : xexpr -> Prop :=
  | st_refl : subterm c c
  | st_step e e' : In e' (operands e) -> subterm c e' -> subterm c e.

  (* the batch guard of the node's own shape function *)
  Definition own_chk (e : xexpr) : bool :=
    match e with
    | XBin _ _ e1 e2 | XScal _ _ e1 e2 | XMatmul _ e1 e2 | XConv2d _ _ _ _ _ _ _ e1 e2 => bcompatb (bof e1) (bof e2)
    | XPick _ ids _ e1 => pick_chk (bof e1) (length ids)
    | XConcat _ _ es => concat_chk (map bof es)
    | _ => true
    end.

  (* all guards of the program, operands first *)
  Fixpoint xbatch_chk (e : xexpr) : bool :=
    match e with
    | XLeaf _ _ _ => true
    | XUn _ _ e1 | XSlice _ _ _ _ e1 | XBroadcast _ _ _ e1 | XFlip _ _ e1 | XTranspose _ e1
    | XPermute _ _ e1 | XReduce _ _ _ e1 | XPool2d _ _ _ _ _ _ _ _ e1 | XReshape _ _ e1 => xbatch_chk e1
    | XPick _ ids _ e1 => xbatch_chk e1 && pick_chk (bof e1) (length ids)
    | XBin _ _ e1 e2 | XScal _ _ e1 e2 | XMatmul _ e1 e2 | XConv2d _ _ _ _ _ _ _ e1 e2 =>
        xbatch_chk e1 && xbatch_chk e2 && bcompatb (bof e1) (bof e2)
    | XConcat _ _ es => forallb xbatch_chk es && concat_chk (map bof es)
    end.

  (* the checked evaluation *)
  Definition xrun (e : xexpr) : option (tshape * list T) := if xbatch_chk e then Some (xe e) else None.

  Lemma xbatch_chk_unfold e : xbatch_chk e = forallb xbatch_chk (operands e) && own_chk e.
  Proof.
    destruct e; cbn [xbatch_chk operands own_chk forallb]; rewrite ?andb_true_r; reflexivity.
  Qed.

  Lemma chk_subterm c e : subterm c e -> xbatch_chk e = true -> xbatch_chk c = true.
  Proof.
    induction 1 as [|e e' Hin _ IH]; intro H; [exact H|].
    apply IH. rewrite xbatch_chk_unfold in H. apply andb_prop in H. destruct H as [H _].
    rewrite forallb_forall in H. apply H. exact Hin.
  Qed.

  Lemma subterm_trans a b c : subterm a b -> subterm b c -> subterm a c.
  Proof. intros Hab Hbc. induction Hbc as [|e e' Hin _ IH]; [exact Hab|]. apply (st_step a e e' Hin IH). Qed.

  (* ---- what a passed guard says about a node: operand batches equal or 1, result batch the max ---- *)
  Definition node_rule (e : xexpr) : Prop :=
    match e with
    | XLeaf _ _ _ => True
    | XUn _ _ e1 | XSlice _ _ _ _ e1 | XBroadcast _ _ _ e1 | XFlip _ _ e1 | XTranspose _ e1
    | XPermute _ _ e1 | XReduce _ _ _ e1 | XPool2d _ _ _ _ _ _ _ _ e1 | XReshape _ _ e1 => bof e = bof e1
    | XBin _ _ e1 e2 | XScal _ _ e1 e2 | XMatmul _ e1 e2 | XConv2d _ _ _ _ _ _ _ e1 e2 =>
        bcompat (bof e1) (bof e2) /\ bof e = Nat.max (bof e1) (bof e2)
    | XPick _ ids _ e1 =>
        0 < length ids /\ (bof e1 = length ids \/ bof e1 <= 1 \/ length ids = 1) /\
        bof e = Nat.max (bof e1) (length ids)
    | XConcat _ _ es =>
        (forall e1, In e1 es -> bof e1 <= 1 \/ bof e1 = bof e) /\
        (forall e1 e2, In e1 es -> In e2 es -> 1 < bof e1 -> 1 < bof e2 -> bof e1 = bof e2) /\
        bof e = fold_right Nat.max 1 (map bof es)
    end.

  Lemma maxb_map_bof es : maxb (map fst (map xe es)) = fold_right Nat.max 1 (map bof es).
  Proof. unfold maxb, bof. rewrite !map_map. reflexivity. Qed.

  Lemma own_chk_rule e : own_chk e = true -> node_rule e.
  Proof.
    destruct e; cbn [own_chk node_rule]; intro H; try reflexivity; try exact I;
      try (split; [apply bcompatb_spec; exact H|reflexivity]).
    - (* pick *)
      unfold pick_chk in H. apply negb_true_iff in H. apply orb_false_iff in H. destruct H as [H0 H1].
      apply Nat.eqb_neq in H0. split; [lia|]. split; [|reflexivity].
      destruct (Nat.eqb_spec (bof e) (length ids)) as [E|E]; [left; exact E|]. cbn [negb andb] in H1.
      destruct (Nat.ltb_spec 1 (bof e)) as [L1|L1]; [|right; left; lia]. cbn [andb] in H1.
      apply Nat.ltb_ge in H1. right. right. lia.
    - (* concat *)
      assert (Hb : bof (XConcat T dim es) = fold_right Nat.max 1 (map bof es)).
      { unfold bof at 1. cbn [xeval fst concat_shape with_batch tbatch]. apply maxb_map_bof. }
      split; [|split; [|exact Hb]].
      + intros e1 He1. rewrite Hb. apply (concat_chk_max _ H). apply in_map. exact He1.
      + intros e1 e2 H1 H2 L1 L2. destruct (map bof es) as [|c r] eqn:E; [destruct es; [destruct H1|discriminate]|].
        cbn [concat_chk] in H. apply (concat_run_big c r H); try assumption; rewrite <- E; apply in_map; assumption.
  Qed.

  (* (b), forward direction: the checked evaluation succeeded => every node at any depth obeys the rule *)
  Theorem run_some_nodes e r : xrun e = Some r ->
    r = xe e /\ forall c, subterm c e -> node_rule c.
  Proof.
    unfold xrun. destruct (xbatch_chk e) eqn:H; [|discriminate]. intros [= <-]. split; [reflexivity|].
    intros c Hc. apply own_chk_rule. pose proof (chk_subterm c e Hc H) as Hcc.
    rewrite xbatch_chk_unfold in Hcc. apply andb_prop in Hcc. apply Hcc.
  Qed.

  (* (b), converse: a node at any depth whose guard fails makes the whole evaluation fail *)
  Theorem bad_node_fails c e : subterm c e -> own_chk c = false -> xrun e = None.
  Proof.
    intros Hc Hbad. unfold xrun. destruct (xbatch_chk e) eqn:H; [|reflexivity].
    pose proof (chk_subterm c e Hc H) as Hcc. rewrite xbatch_chk_unfold, Hbad, andb_false_r in Hcc. discriminate.
  Qed.

  (* the guards that fail: operand batches m <> n, m <> 1, n <> 1 *)
  Lemma bin_bad op e1 e2 : bof e1 <> bof e2 -> bof e1 <> 1 -> bof e2 <> 1 -> own_chk (XBin T op e1 e2) = false.
  Proof. intros. cbn [own_chk]. apply bcompatb_bad; assumption. Qed.
  Lemma scal_bad op e1 e2 : bof e1 <> bof e2 -> bof e1 <> 1 -> bof e2 <> 1 -> own_chk (XScal T op e1 e2) = false.
  Proof. intros. cbn [own_chk]. apply bcompatb_bad; assumption. Qed.
  Lemma matmul_bad e1 e2 : bof e1 <> bof e2 -> bof e1 <> 1 -> bof e2 <> 1 -> own_chk (XMatmul T e1 e2) = false.
  Proof. intros. cbn [own_chk]. apply bcompatb_bad; assumption. Qed.
  Lemma conv2d_bad p0 p1 s0 s1 d0 d1 e1 e2 : bof e1 <> bof e2 -> bof e1 <> 1 -> bof e2 <> 1 ->
    own_chk (XConv2d T p0 p1 s0 s1 d0 d1 e1 e2) = false.
  Proof. intros. cbn [own_chk]. apply bcompatb_bad; assumption. Qed.
  Lemma pick_bad ids dim e1 : bof e1 <> length ids -> 1 < bof e1 -> 1 < length ids -> own_chk (XPick T ids dim e1) = false.
  Proof.
    intros H1 H2 H3. cbn [own_chk]. unfold pick_chk. apply negb_false_iff. apply orb_true_iff. right.
    apply andb_true_intro. split; [apply andb_true_intro; split|].
    - apply negb_true_iff. apply Nat.eqb_neq. exact H1.
    - apply Nat.ltb_lt. exact H2.
    - apply Nat.ltb_lt. exact H3.
  Qed.
  Lemma concat_bad dim es e1 e2 : In e1 es -> In e2 es -> 1 < bof e1 -> 1 < bof e2 -> bof e1 <> bof e2 ->
    own_chk (XConcat T dim es) = false.
  Proof.
    intros H1 H2 L1 L2 Hne. destruct (own_chk (XConcat T dim es)) eqn:E; [|reflexivity].
    apply own_chk_rule in E. cbn [node_rule] in E. destruct E as (_ & E & _). exfalso. apply Hne. apply E; assumption.
  Qed.

  (* a program accepted with minibatch size B passes every guard: xrun is the evaluation the
     minibatch law (batch_law_program_ext) speaks about *)
  Theorem accepted_passes_checks B e : 0 < B -> xw B e -> xbatch_chk e = true.
  Proof.
    intro HB.
    induction e as [s v|f e IH|op e1 e2 IH1 IH2|op e1 k IH1 IH2|dim off n e IH|ids dim e IH|dim es IH
                   |dim size e IH|dim e IH|e IH|perm e IH|f dim e IH|e1 e2 IH1 IH2
                   |p0 p1 s0 s1 d0 d1 e w IH1 IH2|f w0 w1 p0 p1 s0 s1 e IH|dims e IH] using xexpr_induction;
      cbn [xwf xbatch_chk]; intro Hw; try reflexivity; try (apply IH; tauto).
    - destruct Hw as [Hw1 [Hw2 _]]. rewrite (IH1 Hw1), (IH2 Hw2). cbn [andb]. apply bcompatb_spec.
      destruct (xeval_good T zero add mul B e1 HB Hw1) as [_ [A1 _]]. destruct (xeval_good T zero add mul B e2 HB Hw2) as [_ [A2 _]].
      unfold bcompat, bof. lia.
    - destruct Hw as [Hw1 [Hw2 _]]. rewrite (IH1 Hw1), (IH2 Hw2). cbn [andb]. apply bcompatb_spec.
      destruct (xeval_good T zero add mul B e1 HB Hw1) as [_ [A1 _]]. destruct (xeval_good T zero add mul B k HB Hw2) as [_ [A2 _]].
      unfold bcompat, bof. lia.
    - destruct Hw as [Hw [[Hl [Hc _]] Hlb]]. rewrite (IH Hw). cbn [andb]. unfold pick_chk.
      apply negb_true_iff. apply orb_false_iff. split; [apply Nat.eqb_neq; lia|].
      destruct (Nat.eqb_spec (bof e) (length ids)) as [E|E]; [reflexivity|]. cbn [negb andb].
      destruct (Nat.ltb_spec 1 (bof e)) as [L1|L1]; [|reflexivity]. cbn [andb]. apply Nat.ltb_ge. unfold bof in *. lia.
    - destruct Hw as [Hall _]. apply xwf_all in Hall. apply andb_true_intro. split.
      + apply forallb_forall. intros e He. rewrite Forall_forall in IH, Hall. apply IH; [exact He|apply Hall; exact He].
      + assert (G : Forall (fun b => b = 1 \/ b = B) (map bof es)).
        { rewrite Forall_map. rewrite Forall_forall in Hall. apply Forall_forall. intros e He.
          destruct (xeval_good T zero add mul B e HB (Hall e He)) as [_ [A _]]. exact A. }
        destruct (map bof es) as [|c r]; [reflexivity|]. cbn [concat_chk]. inversion G as [|? ? Hc Hr]; subst.
        apply (concat_run_in_1B c r B Hc Hr).
    - destruct Hw as [Hw1 [Hw2 _]]. rewrite (IH1 Hw1), (IH2 Hw2). cbn [andb]. apply bcompatb_spec.
      destruct (xeval_good T zero add mul B e1 HB Hw1) as [_ [A1 _]]. destruct (xeval_good T zero add mul B e2 HB Hw2) as [_ [A2 _]].
      unfold bcompat, bof. lia.
    - destruct Hw as [Hw1 [Hw2 _]]. rewrite (IH1 Hw1), (IH2 Hw2). cbn [andb]. apply bcompatb_spec.
      destruct (xeval_good T zero add mul B e HB Hw1) as [_ [A1 _]]. destruct (xeval_good T zero add mul B w HB Hw2) as [_ [A2 _]].
      unfold bcompat, bof. lia.
  Qed.

  Corollary accepted_runs B e : 0 < B -> xw B e -> xrun e = Some (xe e).
  Proof. intros HB Hw. unfold xrun. rewrite (accepted_passes_checks B e HB Hw). reflexivity. Qed.

  (* hence every node of an accepted program, at any depth, has operand batches equal or 1 and the
     maximum as result batch ... *)
  Corollary accepted_nodes B e c : 0 < B -> xw B e -> subterm c e -> node_rule c.
  Proof. intros HB Hw Hc. exact (proj2 (run_some_nodes e _ (accepted_runs B e HB Hw)) c Hc). Qed.

  (* ... and a program containing, at any depth, a node whose operand batches are not equal-or-1 is
     accepted with NO minibatch size *)
  Corollary bad_node_rejected c e B : 0 < B -> subterm c e -> own_chk c = false -> ~ xw B e.
  Proof.
    intros HB Hc Hbad Hw. pose proof (accepted_runs B e HB Hw) as H1. rewrite (bad_node_fails c e Hc Hbad) in H1. discriminate.
  Qed.
End NodeBatches.

(* ================================================================== (c) more movers of the batch namespace *)
(* batch::mean(x) = batch::sum(x) / x.shape().batch()   (contrib/functions.h) *)
Definition batch_mean_val (sx : tshape) (x : list nat) : list nat :=
  map (fun v => v / tbatch sx) (batch_sum_val sx x).

(* batch::split(x, n)[i] = batch::slice(x, i*(B/n), (i+1)*(B/n)) *)
Definition batch_split_val (sx : tshape) (n : nat) (x : list nat) : list (list nat) :=
  map (fun i => batch_slice_val sx (i * (tbatch sx / n)) (tbatch sx / n) x) (range n).

(* batch::normalize (contrib/functions.h), the composite
     m = mean(x); v = scale * (mean(x * x) - m * m); (x - m) / sqrt(v + 1e-8)
   over any value type, every elementwise step through ab_fw (m and v have batch 1 and are broadcast
   against x), the two means through batch_sum_red.  divB B = "/ B", scale B = "* B/(B-1)",
   rsq d v = d / sqrt(v + eps). *)
Section Normalize.
  Variable T : Type.
  Variable zero : T.
  Variables (sum : list T -> T) (divB scale : nat -> T -> T) (sub mul rsq : T -> T -> T).

  Definition batch_mean_gen (sx : tshape) (x : list T) : list T :=
    map (divB (tbatch sx)) (red_vals T zero sum (batch_sum_red sx (unb sx)) x).

  Definition batch_normalize_val (sx : tshape) (x : list T) : list T :=
    if 1 <? tbatch sx then
      let s1 := unb sx in
      let m := batch_mean_gen sx x in
      let xx := ab_eval T zero mul (ab_fw sx sx sx) x x in
      let mm := ab_eval T zero mul (ab_fw s1 s1 s1) m m in
      let v := map (scale (tbatch sx)) (ab_eval T zero sub (ab_fw s1 s1 s1) (batch_mean_gen sx xx) mm) in
      let d := ab_eval T zero sub (ab_fw sx s1 sx) x m in
      ab_eval T zero rsq (ab_fw sx s1 sx) d v
    else x.
End Normalize.

(* the witness instance over nat: truncated subtraction and division, integer square root *)
Definition batch_normalize_nat : tshape -> list nat -> list nat :=
  batch_normalize_val nat 0 nsum (fun B v => v / B) (fun B v => B * v / (B - 1)) Nat.sub Nat.mul
    (fun d v => 100 * d / (Nat.sqrt v + 1)).

Lemma batch_mean_gen_nat sx x : batch_mean_gen nat 0 nsum (fun B v => v / B) sx x = batch_mean_val sx x.
Proof. reflexivity. Qed.

(* two samples 9 and 1: overwriting sample 1 by 3 changes sample 0 of the mean (5 -> 6) *)
Theorem batch_mean_moves : moves_across_samples (batch_mean_val (mkT [1] 2)) 1 1.
Proof. exists [9; 1], 1, 0, 3, 0. split; [discriminate|]. split; [cbn; lia|]. split; [lia|]. vm_compute. discriminate. Qed.

(* ... and sample 0 of the normalized tensor *)
Theorem batch_normalize_moves : moves_across_samples (batch_normalize_nat (mkT [1] 2)) 1 1.
Proof. exists [9; 1], 1, 0, 3, 0. split; [discriminate|]. split; [cbn; lia|]. split; [lia|]. vm_compute. discriminate. Qed.

(* part 1 of batch::split(x, 2): its sample 0 is sample 1 of x *)
Theorem batch_split_moves :
  moves_across_samples (fun x => nth 1 (batch_split_val (mkT [1] 2) 2 x) []) 1 1.
Proof. exists [1; 2], 1, 0, 5, 0. split; [discriminate|]. split; [cbn; lia|]. split; [lia|]. vm_compute. discriminate. Qed.

(* none satisfies the sample law: the mean of the sample-0 part alone is 9, sample 0 of the batched mean 5 *)
Theorem batch_mean_violates_law :
  let sx := mkT [1] 2 in let x := [9; 1] in
  twf sx /\ length x = tsize sx /\
  batch_mean_val (unb sx) (sample_or_shared sx 0 (tvolume sx) x) = [9] /\
  sample_or_shared (unb sx) 0 (tvolume sx) (batch_mean_val sx x) = [5].
Proof. vm_compute. repeat split; repeat constructor. Qed.

(* normalize of one sample alone is the identity (no batch), in the batch it is not *)
Theorem batch_normalize_violates_law :
  let sx := mkT [1] 2 in let x := [9; 1] in
  batch_normalize_nat (unb sx) (sample_or_shared sx 0 (tvolume sx) x) = [9] /\
  sample_or_shared sx 0 (tvolume sx) (batch_normalize_nat sx x) = [66].
Proof. vm_compute. split; reflexivity. Qed.

(* the parts of batch::split have batch B/n, a sample has batch 1: part 1 of the split of sample 0 alone
   is empty, sample 0 of part 1 of the batched split is sample 1 of x *)
Theorem batch_split_violates_law :
  let sx := mkT [1] 2 in let x := [1; 2] in
  nth 1 (batch_split_val (unb sx) 2 (sample_or_shared sx 0 (tvolume sx) x)) [] = [] /\
  block 0 1 (nth 1 (batch_split_val sx 2 x) []) = [2].
Proof. vm_compute. split; reflexivity. Qed.
